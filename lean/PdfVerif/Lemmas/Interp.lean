/-
C05 — helper lemmas about the interpreter model and the text-model specification.
Property theorems are in `Props/C05.lean`.
-/
import PdfVerif.Model.Interp
import PdfVerif.Spec.TextModel
set_option linter.unusedSimpArgs false

namespace PdfVerif.Interp
open PdfVerif PdfVerif.Content PdfVerif.Gen.Utils PdfVerif.Gen.Interp PdfVerif.TextModel

/-! ### running token lists -/

theorem execToks_append (env : Env) (rf : Form → MState → List Glyph × Bool) (st : MState) (a b : List Tok) :
    execToks env rf st (a ++ b) =
      ((execToks env rf (execToks env rf st a).1 b).1,
       (execToks env rf st a).2 ++ (execToks env rf (execToks env rf st a).1 b).2) := by
  induction a generalizing st with
  | nil => simp [execToks]
  | cons t rest ih =>
    simp only [List.cons_append, execToks]
    rw [ih]
    simp [List.append_assoc]

/-! ### matrices -/

theorem translate_mult (m c : Matrix) (v : Point) :
    translate_matrix (mult_matrix m c) v = mult_matrix (translate_matrix m v) c := by
  obtain ⟨a1, a2, a3, a4, a5, a6⟩ := m
  obtain ⟨b1, b2, b3, b4, b5, b6⟩ := c
  obtain ⟨x, y⟩ := v
  simp only [mult_matrix, translate_matrix, Prod.mk.injEq]
  refine ⟨?_, ?_, ?_, ?_, ?_, ?_⟩ <;> grind

theorem mult_translation (m : Matrix) (tx ty : Rat) :
    mult_matrix (1, 0, 0, 1, tx, ty) m = translate_matrix m (tx, ty) := by
  obtain ⟨a1, a2, a3, a4, a5, a6⟩ := m
  simp only [mult_matrix, translate_matrix, Prod.mk.injEq]
  refine ⟨?_, ?_, ?_, ?_, ?_, ?_⟩ <;> grind

theorem translate_translate (m : Matrix) (x y tx ty : Rat) :
    translate_matrix (translate_matrix m (x, y)) (tx, ty) = translate_matrix m (x + tx, y + ty) := by
  obtain ⟨a1, a2, a3, a4, a5, a6⟩ := m
  simp only [translate_matrix, Prod.mk.injEq]
  refine ⟨?_, ?_, ?_, ?_, ?_, ?_⟩ <;> grind

theorem translate_zero (m : Matrix) : translate_matrix m (0, 0) = m := by
  obtain ⟨a1, a2, a3, a4, a5, a6⟩ := m
  simp only [translate_matrix, Prod.mk.injEq]
  refine ⟨?_, ?_, ?_, ?_, ?_, ?_⟩ <;> grind

/-! ### one glyph: `LTChar.__init__` against the text model's glyph -/

theorem rect_ordered (m : Matrix) (r : Rect) :
    ¬ ((apply_matrix_rect m r).2.2.1 < (apply_matrix_rect m r).1) ∧
    ¬ ((apply_matrix_rect m r).2.2.2 < (apply_matrix_rect m r).2.1) := by
  obtain ⟨a1, a2, a3, a4, a5, a6⟩ := m
  obtain ⟨x0, y0, x1, y1⟩ := r
  simp only [apply_matrix_rect, apply_matrix_pt]
  constructor <;> grind

/-- The images of the four corners of a rectangle under a matrix. -/
def corners (m : Matrix) (r : Rect) : List Point :=
  [apply_matrix_pt m (r.1, r.2.1), apply_matrix_pt m (r.2.2.1, r.2.1),
   apply_matrix_pt m (r.2.2.1, r.2.2.2), apply_matrix_pt m (r.1, r.2.2.2)]

/-- `apply_matrix_rect` (regenerated from `utils.py`) is the bounding box of the four transformed
corners, for **every** matrix — negative scales, rotations, skews, singular matrices — and every
rectangle, also one given with `x1 < x0` or `y1 < y0`: all corners lie inside … -/
theorem rect_contains (m : Matrix) (r : Rect) :
    ∀ p ∈ corners m r, (apply_matrix_rect m r).1 ≤ p.1 ∧ p.1 ≤ (apply_matrix_rect m r).2.2.1 ∧
      (apply_matrix_rect m r).2.1 ≤ p.2 ∧ p.2 ≤ (apply_matrix_rect m r).2.2.2 := by
  obtain ⟨a1, a2, a3, a4, a5, a6⟩ := m
  obtain ⟨x0, y0, x1, y1⟩ := r
  intro p hp
  simp only [corners, List.mem_cons, List.not_mem_nil, or_false] at hp
  rcases hp with rfl | rfl | rfl | rfl <;>
    simp only [apply_matrix_rect, apply_matrix_pt] <;> refine ⟨?_, ?_, ?_, ?_⟩ <;> grind

/-- … and every side of the box passes through a corner: the box is the smallest one. -/
theorem rect_tight (m : Matrix) (r : Rect) :
    (∃ p ∈ corners m r, p.1 = (apply_matrix_rect m r).1) ∧ (∃ p ∈ corners m r, p.2 = (apply_matrix_rect m r).2.1) ∧
    (∃ p ∈ corners m r, p.1 = (apply_matrix_rect m r).2.2.1) ∧ (∃ p ∈ corners m r, p.2 = (apply_matrix_rect m r).2.2.2) := by
  obtain ⟨a1, a2, a3, a4, a5, a6⟩ := m
  obtain ⟨x0, y0, x1, y1⟩ := r
  simp only [corners, List.mem_cons, List.not_mem_nil, or_false, exists_eq_or_imp, exists_eq_left,
    apply_matrix_rect, apply_matrix_pt]
  refine ⟨?_, ?_, ?_, ?_⟩ <;> grind

/-- The scales pdfminer uses (constants / `apply_matrix_norm` of the FontMatrix) are the ones of 9.6.5. -/
theorem fontScale_eq (f : Font) : fontHScale f = f.hscale ∧ fontVScale f = f.vscale := by
  unfold fontHScale fontVScale Font.hscale Font.vscale
  cases f.fm with
  | none => simp [font_hscale, font_vscale]
  | some m =>
    obtain ⟨a, b, c, d, e, f'⟩ := m
    simp only [type3_hscale, type3_vscale, apply_matrix_norm]
    constructor <;> grind

/-- `LTChar.upright` (regenerated) is the text model's `uprightOf` of the text rendering matrix. -/
theorem upright_eq (T : Matrix) (th : Rat) :
    ltchar_upright T.1 T.2.1 T.2.2.1 T.2.2.2.1 (rs_scaling th) = uprightOf T th := by
  obtain ⟨a, b, c, d, e, f⟩ := T
  simp only [ltchar_upright, uprightOf, rs_scaling]
  have h : a * d * (th * (1 / 100)) = a * d * (th / 100) := by grind
  have h2 : (a * d * (th * (1 / 100)) > 0) = (0 < a * d * (th / 100)) := by rw [h]
  simp only [h2]

/-- The glyph `render_char`/`LTChar` build at pen position `(x, y)` of the line is the glyph the
text model paints with `Tm = translate(x, y) × Tlm` — horizontal and vertical writing, simple,
Type 3 and CID fonts. -/
theorem ltchar_eq_observe (f : Font) (M ctm : Matrix) (gs : GS) (x y : Rat) (c : Nat)
    (h1 : gs.ctm = ctm) :
    ltchar (translate_matrix (mult_matrix M ctm) (x, y)) f gs.Tfs (rs_scaling gs.Th) gs.Trise c gs.fill
      = observe (mult_matrix (translate_matrix M (x, y)) gs.ctm) f gs c := by
  subst h1
  rw [translate_mult]
  generalize mult_matrix (translate_matrix M (x, y)) gs.ctm = T
  unfold ltchar observe
  by_cases hv : f.vertical = true
  · simp only [hv, if_true]
    have hadv : ltchar_adv_v (charWidth f c) gs.Tfs = f.width c * f.hscale * gs.Tfs := by
      simp only [ltchar_adv_v, charWidth, char_width_scaled, (fontScale_eq f).1]
    have hvy : ltchar_vy (f.disp c).2 gs.Tfs = (1000 - (f.disp c).2) / 1000 * gs.Tfs := by
      simp only [ltchar_vy]; grind
    simp only [hadv, hvy, ltchar_bbox_v]
    have hvx : ltcharVx f gs.Tfs c = posVx f gs.Tfs c := by
      unfold ltcharVx posVx
      cases (f.disp c).1 with
      | none => simp only [ltchar_vx_default]; grind
      | some vx => simp only [ltchar_vx]; grind
    rw [hvx]
    generalize posVx f gs.Tfs c = VX
    have ho := rect_ordered T (-VX, (1000 - (f.disp c).2) / 1000 * gs.Tfs + gs.Trise + f.width c * f.hscale * gs.Tfs,
      -VX + gs.Tfs, (1000 - (f.disp c).2) / 1000 * gs.Tfs + gs.Trise)
    generalize apply_matrix_rect T _ = R at ho ⊢
    obtain ⟨x0, y0, x1, y1⟩ := R
    simp only at ho
    simp [ho.1, ho.2, upright_eq]
  · have hv' : f.vertical = false := by simpa using hv
    simp only [hv', Bool.false_eq_true, if_false]
    have hadv : ltchar_adv (charWidth f c) gs.Tfs (rs_scaling gs.Th) = f.width c * f.hscale * gs.Tfs * (gs.Th / 100) := by
      simp only [ltchar_adv, charWidth, char_width_scaled, rs_scaling, (fontScale_eq f).1]; grind
    have hbox : ltchar_bbox_h (ltchar_descent (font_get_descent f.descent (fontVScale f)) gs.Tfs) gs.Trise
          (f.width c * f.hscale * gs.Tfs * (gs.Th / 100)) gs.Tfs
        = (0, f.descent * f.vscale * gs.Tfs + gs.Trise, f.width c * f.hscale * gs.Tfs * (gs.Th / 100),
           f.descent * f.vscale * gs.Tfs + gs.Trise + gs.Tfs) := by
      simp only [ltchar_bbox_h, ltchar_descent, font_get_descent, (fontScale_eq f).2]
    simp only [hadv, hbox]
    have ho := rect_ordered T (0, f.descent * f.vscale * gs.Tfs + gs.Trise, f.width c * f.hscale * gs.Tfs * (gs.Th / 100),
           f.descent * f.vscale * gs.Tfs + gs.Trise + gs.Tfs)
    generalize apply_matrix_rect T _ = R at ho ⊢
    obtain ⟨x0, y0, x1, y1⟩ := R
    simp only at ho
    simp [ho.1, ho.2, upright_eq]

/-- The glyph box in text space `LTChar.__init__` computes before it applies the matrix
(horizontal: `(0, descent + rise, adv, descent + rise + fontsize)`; vertical: placed by the position
vector) — the regenerated formulas. -/
def ltcharBox (f : Font) (fontsize scaling rise : Rat) (cid : Nat) : Rect :=
  if f.vertical then
    ltchar_bbox_v (ltcharVx f fontsize cid) (ltchar_vy (f.disp cid).2 fontsize) rise
      (ltchar_adv_v (charWidth f cid) fontsize) fontsize
  else
    ltchar_bbox_h (ltchar_descent (font_get_descent f.descent (fontVScale f)) fontsize) rise
      (ltchar_adv (charWidth f cid) fontsize scaling) fontsize

/-- `LTChar.bbox` is `apply_matrix_rect(matrix, box)` for every matrix: the two swaps that follow in
`LTChar.__init__` never fire; `size` is the height (vertical writing: the width) of that box. -/
theorem ltchar_bbox_eq (matrix : Matrix) (f : Font) (fs sc rise : Rat) (c : Nat) (col : Option Color) :
    (ltchar matrix f fs sc rise c col).bbox = apply_matrix_rect matrix (ltcharBox f fs sc rise c) ∧
    (ltchar matrix f fs sc rise c col).size =
      if f.vertical then (apply_matrix_rect matrix (ltcharBox f fs sc rise c)).2.2.1 - (apply_matrix_rect matrix (ltcharBox f fs sc rise c)).1
      else (apply_matrix_rect matrix (ltcharBox f fs sc rise c)).2.2.2 - (apply_matrix_rect matrix (ltcharBox f fs sc rise c)).2.1 := by
  unfold ltchar ltcharBox
  by_cases hv : f.vertical = true
  · simp only [hv, if_true]
    have ho := rect_ordered matrix (ltchar_bbox_v (ltcharVx f fs c) (ltchar_vy (f.disp c).2 fs) rise
      (ltchar_adv_v (charWidth f c) fs) fs)
    generalize apply_matrix_rect matrix _ = R at ho ⊢
    obtain ⟨x0, y0, x1, y1⟩ := R
    simp only at ho
    simp [ho.1, ho.2]
  · have hv' : f.vertical = false := by simpa using hv
    simp only [hv', Bool.false_eq_true, if_false]
    have ho := rect_ordered matrix (ltchar_bbox_h (ltchar_descent (font_get_descent f.descent (fontVScale f)) fs) rise
      (ltchar_adv (charWidth f c) fs sc) fs)
    generalize apply_matrix_rect matrix _ = R at ho ⊢
    obtain ⟨x0, y0, x1, y1⟩ := R
    simp only at ho
    simp [ho.1, ho.2]

/-- Axis-parallel matrices `[a 0 0 d e f]`, any signs of `a` and `d` (mirrored text included). -/
theorem rect_axis (a d e f : Rat) (r : Rect) :
    apply_matrix_rect (a, 0, 0, d, e, f) r =
      (min (a * r.1 + e) (a * r.2.2.1 + e), min (d * r.2.1 + f) (d * r.2.2.2 + f),
       max (a * r.1 + e) (a * r.2.2.1 + e), max (d * r.2.1 + f) (d * r.2.2.2 + f)) := by
  obtain ⟨x0, y0, x1, y1⟩ := r
  simp only [apply_matrix_rect, apply_matrix_pt, Prod.mk.injEq]
  refine ⟨?_, ?_, ?_, ?_⟩ <;> grind

/-- Quarter turns `[0 b c 0 e f]` (text rotated by ±90°, any signs): x comes from the box's y range
and vice versa. -/
theorem rect_quarter (b c e f : Rat) (r : Rect) :
    apply_matrix_rect (0, b, c, 0, e, f) r =
      (min (c * r.2.1 + e) (c * r.2.2.2 + e), min (b * r.1 + f) (b * r.2.2.1 + f),
       max (c * r.2.1 + e) (c * r.2.2.2 + e), max (b * r.1 + f) (b * r.2.2.1 + f)) := by
  obtain ⟨x0, y0, x1, y1⟩ := r
  simp only [apply_matrix_rect, apply_matrix_pt, Prod.mk.injEq]
  refine ⟨?_, ?_, ?_, ?_⟩ <;> grind

theorem ltchar_adv_eq (matrix : Matrix) (f : Font) (fs sc rise : Rat) (c : Nat) (col : Option Color) :
    (ltchar matrix f fs sc rise c col).adv =
      if f.vertical then ltchar_adv_v (charWidth f c) fs else ltchar_adv (charWidth f c) fs sc := by
  unfold ltchar; simp only

/-! ### strings: `render_string_horizontal` / `render_string_vertical` against 9.4.4 -/

/-- The word spacing `render_string` hands on: none for multi-byte fonts. -/
def wsOf (f : Font) (gs : GS) : Rat := if f.multibyte then 0 else rs_wordspace gs.Tw (rs_scaling gs.Th)

/-- Horizontal pen advance: `x += adv; x += charspace; if cid == 32 and wordspace: x += wordspace`
is the displacement `tx = (w0·Tfs + Tc + Tw)·Th` of 9.4.4. -/
theorem pen_advance (f : Font) (gs : GS) (x : Rat) (c : Nat) (hv : f.vertical = false) :
    (if c = 32 ∧ wsOf f gs ≠ 0 then
        x + ltchar_adv (charWidth f c) gs.Tfs (rs_scaling gs.Th) + rs_charspace gs.Tc (rs_scaling gs.Th) + wsOf f gs
      else x + ltchar_adv (charWidth f c) gs.Tfs (rs_scaling gs.Th) + rs_charspace gs.Tc (rs_scaling gs.Th))
    = x + (displacement f gs c).1 ∧ (displacement f gs c).2 = 0 := by
  simp only [displacement, hv, Bool.false_eq_true, if_false, and_true]
  simp only [wsOf, ltchar_adv, charWidth, char_width_scaled, rs_scaling, rs_charspace, rs_wordspace, (fontScale_eq f).1]
  by_cases hm : f.multibyte = true
  · simp only [hm, if_true, ne_eq, not_true_eq_false, and_false, if_false, Bool.true_eq_false]; grind
  · have hm' : f.multibyte = false := by simpa using hm
    simp only [hm', Bool.false_eq_true, if_false, and_true]
    by_cases hc : c = 32
    · by_cases hw : gs.Tw * (gs.Th * (1 / 100)) = 0
      · simp only [hc, hw, ne_eq, not_true_eq_false, and_false, if_false, if_true] <;> grind
      · simp only [hc, hw, ne_eq, not_false_eq_true, and_self, if_true] <;> grind
    · simp only [hc, false_and, if_false] <;> grind

/-- Vertical pen advance (composite fonts only): `ty = w1·Tfs + Tc`, not scaled by Th. -/
theorem pen_advance_v (f : Font) (gs : GS) (y : Rat) (c : Nat) (hv : f.vertical = true) (hm : f.multibyte = true) :
    (if c = 32 ∧ wsOf f gs ≠ 0 then
        y + ltchar_adv_v (charWidth f c) gs.Tfs + rs_charspace_v gs.Tc (rs_scaling gs.Th) + wsOf f gs
      else y + ltchar_adv_v (charWidth f c) gs.Tfs + rs_charspace_v gs.Tc (rs_scaling gs.Th))
    = y + (displacement f gs c).2 ∧ (displacement f gs c).1 = 0 := by
  simp only [displacement, hv, if_true, and_true]
  simp only [wsOf, ltchar_adv_v, charWidth, char_width_scaled, rs_charspace_v, (fontScale_eq f).1, hm, if_true, ne_eq,
    not_true_eq_false, and_false, if_false, Bool.true_eq_false]
  grind

theorem renderCodes_showCodes (f : Font) (M : Matrix) (gs : GS) (y : Rat) (codes : List Nat) (hv : f.vertical = false) :
    ∀ x : Rat,
    showCodes f gs (translate_matrix M (x, y)) codes =
      (translate_matrix M
        ((renderCodes f (mult_matrix M gs.ctm) gs.Tfs (rs_scaling gs.Th) (rs_charspace gs.Tc (rs_scaling gs.Th))
            (wsOf f gs) gs.Trise gs.fill y x codes).1, y),
       (renderCodes f (mult_matrix M gs.ctm) gs.Tfs (rs_scaling gs.Th) (rs_charspace gs.Tc (rs_scaling gs.Th))
            (wsOf f gs) gs.Trise gs.fill y x codes).2) := by
  induction codes with
  | nil => intro x; simp [showCodes, renderCodes]
  | cons c rest ih =>
    intro x
    simp only [showCodes, renderCodes]
    have hg := ltchar_eq_observe f M gs.ctm gs x y c rfl
    obtain ⟨hp, hz⟩ := pen_advance f gs x c hv
    rw [mult_translation, translate_translate, hz]
    rw [ltchar_adv_eq]
    simp only [hv, Bool.false_eq_true, if_false]
    rw [hp]
    have h0 : y + 0 = y := by grind
    rw [h0, ih]
    simp only [hg]

theorem renderCodesV_showCodes (f : Font) (M : Matrix) (gs : GS) (x : Rat) (codes : List Nat) (hv : f.vertical = true)
    (hm : f.multibyte = true) :
    ∀ y : Rat,
    showCodes f gs (translate_matrix M (x, y)) codes =
      (translate_matrix M (x,
        (renderCodesV f (mult_matrix M gs.ctm) gs.Tfs (rs_scaling gs.Th) (rs_charspace_v gs.Tc (rs_scaling gs.Th))
            (wsOf f gs) gs.Trise gs.fill x y codes).1),
       (renderCodesV f (mult_matrix M gs.ctm) gs.Tfs (rs_scaling gs.Th) (rs_charspace_v gs.Tc (rs_scaling gs.Th))
            (wsOf f gs) gs.Trise gs.fill x y codes).2) := by
  induction codes with
  | nil => intro y; simp [showCodes, renderCodesV]
  | cons c rest ih =>
    intro y
    simp only [showCodes, renderCodesV]
    have hg := ltchar_eq_observe f M gs.ctm gs x y c rfl
    obtain ⟨hp, hz⟩ := pen_advance_v f gs y c hv hm
    rw [mult_translation, translate_translate, hz]
    rw [ltchar_adv_eq]
    simp only [hv, if_true]
    rw [hp]
    have h0 : x + 0 = x := by grind
    rw [h0, ih]
    simp only [hg]

/-- `TJ` arrays of numbers and strings, horizontal writing. -/
theorem renderSeq_showSeq (f : Font) (M : Matrix) (gs : GS) (y : Rat) (seq : List Elem)
    (hseq : ∀ e ∈ seq, e ≠ Elem.other) (hv : f.vertical = false) :
    ∀ x : Rat,
    showSeq f gs (translate_matrix M (x, y)) seq =
      some (translate_matrix M
        ((renderSeq f (mult_matrix M gs.ctm) gs.Tfs (rs_scaling gs.Th) (rs_charspace gs.Tc (rs_scaling gs.Th))
            (wsOf f gs) gs.Trise (rs_dxscale gs.Tfs (rs_scaling gs.Th)) gs.fill y x seq).1, y),
       (renderSeq f (mult_matrix M gs.ctm) gs.Tfs (rs_scaling gs.Th) (rs_charspace gs.Tc (rs_scaling gs.Th))
            (wsOf f gs) gs.Trise (rs_dxscale gs.Tfs (rs_scaling gs.Th)) gs.fill y x seq).2) := by
  induction seq with
  | nil => intro x; simp [showSeq, renderSeq]
  | cons e rest ih =>
    intro x
    have hrest : ∀ e ∈ rest, e ≠ Elem.other := fun e he => hseq e (List.mem_cons_of_mem _ he)
    cases e with
    | num n =>
      simp only [showSeq, renderSeq, hv, Bool.false_eq_true, if_false]
      rw [mult_translation, translate_translate]
      have h0 : y + 0 = y := by grind
      have hx : x + -n / 1000 * gs.Tfs * (gs.Th / 100) = x - n * rs_dxscale gs.Tfs (rs_scaling gs.Th) := by
        simp only [rs_dxscale, rs_scaling]; grind
      rw [h0, hx]
      exact ih hrest _
    | str codes =>
      simp only [showSeq, renderSeq]
      rw [renderCodes_showCodes f M gs y _ hv]
      simp only
      rw [ih hrest]
    | other => exact absurd rfl (hseq _ (List.mem_cons_self))

/-- `TJ` arrays, vertical writing. -/
theorem renderSeqV_showSeq (f : Font) (M : Matrix) (gs : GS) (x : Rat) (seq : List Elem)
    (hseq : ∀ e ∈ seq, e ≠ Elem.other) (hv : f.vertical = true) (hm : f.multibyte = true) :
    ∀ y : Rat,
    showSeq f gs (translate_matrix M (x, y)) seq =
      some (translate_matrix M (x,
        (renderSeqV f (mult_matrix M gs.ctm) gs.Tfs (rs_scaling gs.Th) (rs_charspace_v gs.Tc (rs_scaling gs.Th))
            (wsOf f gs) gs.Trise (rs_dxscale_v gs.Tfs (rs_scaling gs.Th)) gs.fill x y seq).1),
       (renderSeqV f (mult_matrix M gs.ctm) gs.Tfs (rs_scaling gs.Th) (rs_charspace_v gs.Tc (rs_scaling gs.Th))
            (wsOf f gs) gs.Trise (rs_dxscale_v gs.Tfs (rs_scaling gs.Th)) gs.fill x y seq).2) := by
  induction seq with
  | nil => intro y; simp [showSeq, renderSeqV]
  | cons e rest ih =>
    intro y
    have hrest : ∀ e ∈ rest, e ≠ Elem.other := fun e he => hseq e (List.mem_cons_of_mem _ he)
    cases e with
    | num n =>
      simp only [showSeq, renderSeqV, hv, if_true]
      rw [mult_translation, translate_translate]
      have h0 : x + 0 = x := by grind
      have hy : y + -n / 1000 * gs.Tfs = y - n * rs_dxscale_v gs.Tfs (rs_scaling gs.Th) := by
        simp only [rs_dxscale_v]; grind
      rw [h0, hy]
      exact ih hrest _
    | str codes =>
      simp only [showSeq, renderSeqV]
      rw [renderCodesV_showCodes f M gs x _ hv hm]
      simp only
      rw [ih hrest]
    | other => exact absurd rfl (hseq _ (List.mem_cons_self))

/-! ### operands -/

/-- What `execute` has on its stack after the operands of an instruction: `null` is not pushed. -/
def pushed : List Obj → List Obj
  | [] => []
  | .null :: rest => pushed rest
  | o :: rest => o :: pushed rest

theorem execToks_opnds (env : Env) (rf : Form → MState → List Glyph × Bool) (args : List Obj) :
    ∀ m : MState, execToks env rf m (args.map Tok.opnd) = ({ m with argstack := m.argstack ++ pushed args }, []) := by
  induction args with
  | nil => intro m; simp [execToks, pushed]
  | cons o rest ih =>
    intro m
    cases o <;> simp [execToks, execTok, pushed, ih, List.append_assoc]

theorem execToks_instr (env : Env) (rf : Form → MState → List Glyph × Bool) (m : MState) (i : Instr) :
    execToks env rf m i.toks = execTok env rf { m with argstack := m.argstack ++ pushed i.args } (.op i.op) := by
  unfold Instr.toks
  rw [execToks_append, execToks_opnds]
  simp [execToks]

theorem pushed_length_le (args : List Obj) : (pushed args).length ≤ args.length := by
  induction args with
  | nil => simp [pushed]
  | cons o rest ih => cases o <;> simp [pushed] <;> omega

theorem pushed_eq_of_length (args : List Obj) (h : (pushed args).length = args.length) : pushed args = args := by
  induction args with
  | nil => rfl
  | cons o rest ih =>
    have hle := pushed_length_le rest
    cases o <;> simp [pushed] at h ⊢ <;> first | exact ih h | omega

def NoBool (args : List Obj) : Prop := ∀ o ∈ args, Obj.isBool o = false

theorem safeFloats_nums (qs : List Rat) : safeFloats (qs.map Obj.num) = some qs := by
  induction qs with
  | nil => rfl
  | cons q rest ih => simp [safeFloats, safeFloat, ih]

theorem wellTyped_nums (args : List Obj) :
    ∀ n, wellTyped (List.replicate n Ty.num) args = true → ∃ qs : List Rat, args = qs.map Obj.num ∧ qs.length = n := by
  induction args with
  | nil =>
    intro n h
    cases n with
    | zero => exact ⟨[], rfl, rfl⟩
    | succ k => simp [List.replicate, wellTyped] at h
  | cons o rest ih =>
    intro n h
    cases n with
    | zero => simp [List.replicate, wellTyped] at h
    | succ k =>
      simp only [List.replicate, wellTyped, Bool.and_eq_true] at h
      obtain ⟨qs, hq, hl⟩ := ih k h.2
      cases o <;> simp [Ty.ok] at h
      rename_i q
      exact ⟨q :: qs, by simp [hq], by simp [hl]⟩

theorem safeFloats_none (args : List Obj) (hb : NoBool args) :
    wellTyped (List.replicate args.length Ty.num) args = false → safeFloats args = none := by
  induction args with
  | nil => intro h; simp [wellTyped] at h
  | cons o rest ih =>
    intro h
    have hb1 : Obj.isBool o = false := hb o (List.mem_cons_self)
    have hb2 : NoBool rest := fun x hx => hb x (List.mem_cons_of_mem _ hx)
    simp only [List.length_cons, List.replicate, wellTyped, Bool.and_eq_false_iff] at h
    cases o <;> simp [Obj.isBool] at hb1 <;> simp [safeFloats, safeFloat, Ty.ok] at h ⊢
    rename_i q
    rw [ih hb2 h]

/-! ### the simulation relation -/

/-- `textstate.font` against `Tf`. -/
def FontRel (env : Env) : FontSel → Option Nat → Prop
  | .unset, none => True
  | .idx i, some j => i = j ∧ j < env.fonts.length
  | _, _ => False

/-- Interpreter-side graphics state (CTM, text state, colours, colour spaces) against the text
model's graphics state. `leading` is `−Tl`; the render mode is not observable and not related. -/
structure GRel (env : Env) (ctm : Matrix) (ts : TextState) (sc nc : Option Color) (scs ncs : CS) (g : GS) : Prop where
  ctm : ctm = g.ctm
  fill : nc = g.fill
  stroke : sc = g.stroke
  ncs : ncs.2 = g.fillN
  scs : scs.2 = g.strokeN
  fillN : 0 < g.fillN
  strokeN : 0 < g.strokeN
  tc : ts.charspace = g.Tc
  tw : ts.wordspace = g.Tw
  th : ts.scaling = g.Th
  tl : ts.leading = -g.Tl
  tfs : ts.fontsize = g.Tfs
  trise : ts.rise = g.Trise
  font : FontRel env ts.font g.Tf

def StackRel (env : Env) : List Saved → List GS → Prop
  | [], [] => True
  | sv :: gs, g :: ss => GRel env sv.ctm sv.ts sv.scolor sv.ncolor sv.scs sv.ncs g ∧ StackRel env gs ss
  | _, _ => False

/-- Inside a text object: `textstate.matrix` is Tlm and the pen offset `linematrix` is what
separates Tm from Tlm: `Tm = translate(linematrix) × Tlm`. -/
def TxtRel (ts : TextState) : Option (Matrix × Matrix) → Prop
  | none => True
  | some (tm, tlm) => tlm = ts.matrix ∧ tm = translate_matrix ts.matrix ts.linematrix

structure R (env : Env) (m : MState) (s : SState) : Prop where
  g : GRel env m.ctm m.ts m.scolor m.ncolor m.scs m.ncs s.gs
  dctm : m.dctm = m.ctm
  stack : StackRel env m.gstack s.stack
  txt : TxtRel m.ts s.txt
  res : m.res = s.res
  args : m.argstack = []
  fuel : m.fuelOk = true

/-- The two form runners agree: from related initial states (what `do_Do` prepares for the form's
interpreter against the caller's graphics state with `Matrix × CTM`), if the text model gives the
form a meaning the interpreter produces the same glyphs (and stays within its budget). -/
def Agree (env : Env) (rfM : Form → MState → List Glyph × Bool) (rfS : Form → GS → Res → Option (List Glyph)) : Prop :=
  ∀ fm m0 gs res gl, R env m0 ⟨gs, [], none, res⟩ → rfS fm gs res = some gl → rfM fm m0 = (gl, true)

theorem step_inv {env : Env} {rfS : Form → GS → Res → Option (List Glyph)} {s s' : SState} {i : Instr} {gl : List Glyph}
    (h : step env rfS s i = some (s', gl)) :
    ∃ tys, sig s.gs i.op = some tys ∧ allowed s.txt.isSome i.op = true ∧ NoBool i.args ∧ i.args.length ≤ tys.length ∧
      ((wellTyped tys i.args = false ∧ s' = s ∧ gl = []) ∨
       (wellTyped tys i.args = true ∧ apply env rfS s i.op i.args = some (s', gl))) := by
  unfold step at h
  split at h
  · exact absurd h (by simp)
  · rename_i tys htys
    refine ⟨tys, htys, ?_⟩
    by_cases ha : allowed s.txt.isSome i.op = true
    · by_cases hb : i.args.any Obj.isBool = true
      · simp [ha, hb] at h
      · by_cases hl : tys.length < i.args.length
        · simp [ha, hb, hl] at h
        · by_cases hw : wellTyped tys i.args = true
          · simp only [ha, hb, hl, hw] at h
            refine ⟨ha, ?_, by omega, Or.inr ⟨hw, by simpa using h⟩⟩
            intro o ho
            simp only [Bool.not_eq_true, List.any_eq_false] at hb
            simpa using hb o ho
          · simp only [ha, hb, hl, hw] at h
            simp at h
            refine ⟨ha, ?_, by omega, Or.inl ⟨by simpa using hw, h.1.symm, h.2⟩⟩
            intro o ho
            simp only [Bool.not_eq_true, List.any_eq_false] at hb
            simpa using hb o ho
    · simp [ha] at h

/-! ### `execute` on one operator -/

theorem mstate_args_nil (m : MState) (h : m.argstack = []) : { m with argstack := [] } = m := by
  cases m; simp_all

theorem pop_short (n : Nat) (P : List Obj) (h : P.length ≤ n) : pop n P = (P, []) := by
  unfold pop
  have : P.length - n = 0 := by omega
  simp [this]

theorem execTok_short (env : Env) (rf : Form → MState → List Glyph × Bool) (m : MState) (op : Op) (n : Nat)
    (P : List Obj) (ha : arity op = some (n + 1)) (hP : P.length < n + 1) :
    execTok env rf { m with argstack := P } (.op op) = ({ m with argstack := [] }, []) := by
  simp only [execTok, ha]
  rw [pop_short (n + 1) P (by omega)]
  have : ¬ P.length = n + 1 := by omega
  simp [this]

theorem execTok_exact (env : Env) (rf : Form → MState → List Glyph × Bool) (m : MState) (op : Op) (n : Nat)
    (P : List Obj) (ha : arity op = some (n + 1)) (hP : P.length = n + 1) :
    execTok env rf { m with argstack := P } (.op op) = call env rf { m with argstack := [] } op P := by
  simp only [execTok, ha]
  rw [pop_short (n + 1) P (by omega)]
  simp [hP]

theorem execTok_zero (env : Env) (rf : Form → MState → List Glyph × Bool) (m : MState) (op : Op)
    (ha : arity op = some 0) :
    execTok env rf m (.op op) = call env rf m op [] := by
  simp only [execTok, ha]

/-- A `do_*` method given the right number of operands, one of them of the wrong type, does nothing. -/
theorem call_illtyped (env : Env) (rf : Form → MState → List Glyph × Bool) (m : MState) (gs : GS) (op : Op)
    (tys : List Ty) (args : List Obj) (hsig : sig gs op = some tys) (hlen : args.length = tys.length)
    (hb : NoBool args) (hw : wellTyped tys args = false)
    (hdyn : op ≠ .sc ∧ op ≠ .scn ∧ op ≠ .SC ∧ op ≠ .SCN) :
    call env rf m op args = (m, []) := by
  cases op
  case other n => simp [call]
  all_goals
    (simp only [sig, Option.some.injEq, reduceCtorEq] at hsig <;> subst hsig <;>
    (rcases args with _ | ⟨a, _ | ⟨b, _ | ⟨c, _ | ⟨d, _ | ⟨e, _ | ⟨f, _ | ⟨g, rest⟩⟩⟩⟩⟩⟩⟩ <;>
      simp only [List.length_cons, List.length_nil, List.length_replicate] at hlen <;> try omega))
  all_goals first
    | (simp [wellTyped] at hw; done)
    | (have hn := safeFloats_none _ hb (by simpa [List.replicate] using hw); simp [call, hn]; done)
    | (simp at hdyn; done)
    | skip
  case Tf => cases a <;> cases b <;> simp_all [call, safeFloats, safeFloat, wellTyped, Ty.ok, NoBool, Obj.isBool]
  case Tr => cases a <;> simp_all [call, safeInt, wellTyped, Ty.ok, NoBool, Obj.isBool]
  case Tj => cases a <;> simp_all [call, wellTyped, Ty.ok]
  case TJ => cases a <;> simp_all [call, wellTyped, Ty.ok]
  case quote => cases a <;> simp_all [call, wellTyped, Ty.ok]
  case dquote =>
    cases c <;> try (simp [call]; done)
    have hw2 : wellTyped [Ty.num, Ty.num] [a, b] = false := by simpa [wellTyped, Ty.ok] using hw
    have hb2 : NoBool [a, b] := fun o ho => hb o (by simp at ho ⊢; rcases ho with h | h <;> simp [h])
    have hn := safeFloats_none [a, b] hb2 (by simpa [List.replicate] using hw2)
    simp [call, hn]
  case cs => cases a <;> simp_all [call, wellTyped, Ty.ok]
  case CS => cases a <;> simp_all [call, wellTyped, Ty.ok]
  case Do => cases a <;> simp_all [call, wellTyped, Ty.ok]

theorem lookup_all (t u : List (String × Nat)) (hall : t.all (fun p => lookup p.1 u == some p.2) = true)
    (n : String) (k : Nat) (h : lookup n t = some k) : lookup n u = some k := by
  induction t with
  | nil => simp [lookup] at h
  | cons p rest ih =>
    obtain ⟨n', k'⟩ := p
    simp only [List.all_cons, Bool.and_eq_true, beq_iff_eq] at hall
    simp only [lookup] at h
    split at h
    · rename_i heq
      simp only [Option.some.injEq] at h
      subst heq; subst h
      exact hall.1
    · exact ih hall.2 h

/-- Every operator the text model lists as "no effect on text" exists in pdfminer's dispatch table
(regenerated from the `do_*` methods) with the number of operands ISO gives it. -/
theorem neutral_arity (n : String) (k : Nat) (h : neutralArity n = some k) : arity (.other n) = some k :=
  lookup_all neutralTable arityTable (by decide +kernel) n k h

theorem arity_sig (gs : GS) (op : Op) (tys : List Ty) (hsig : sig gs op = some tys)
    (hdyn : op ≠ .sc ∧ op ≠ .scn ∧ op ≠ .SC ∧ op ≠ .SCN) : arity op = some tys.length := by
  cases op <;> simp only [sig, Option.some.injEq, reduceCtorEq] at hsig <;> first
    | (subst hsig; decide)
    | (simp at hdyn)
    | skip
  case other n =>
    simp only [Option.map_eq_some_iff] at hsig
    obtain ⟨k, hk, rfl⟩ := hsig
    simp [neutral_arity n k hk]

theorem doSetColor_illtyped (m : MState) (stroke : Bool) (n : Nat) (args : List Obj)
    (hn : (if stroke then m.scs.2 else m.ncs.2) = n) (h134 : 0 < n)
    (hlen : args.length ≤ n) (hb : NoBool args) (hw : wellTyped (List.replicate n Ty.num) args = false)
    (hargs : m.argstack = []) :
    doSetColor { m with argstack := pushed args } stroke = m := by
  have hle := pushed_length_le args
  unfold doSetColor
  simp only [hn]
  have hn0 : ¬ n = 0 := by omega
  simp only [hn0, if_false]
  by_cases hlt : (pushed args).length < n
  · rw [pop_short n _ (by omega)]
    have : ¬ (pushed args).length = n := by omega
    simp only [this, if_false]
    exact mstate_args_nil m hargs
  · have hP : (pushed args).length = args.length := by omega
    have hPa := pushed_eq_of_length args hP
    have hl : args.length = n := by omega
    rw [hPa, pop_short n args (by omega)]
    have hnone := safeFloats_none args hb (by rw [hl]; exact hw)
    simp only [hl, if_true, hnone]
    exact mstate_args_nil m hargs

/-- C05 "operators with missing or ill-typed operands affect nothing but themselves", on the
model: after the operands and the operator, the interpreter is in the state it was in. -/
theorem illtyped_noop (env : Env) (rf : Form → MState → List Glyph × Bool) (m : MState) (gs : GS) (op : Op)
    (tys : List Ty) (args : List Obj) (hsig : sig gs op = some tys) (hlen : args.length ≤ tys.length)
    (hb : NoBool args) (hw : wellTyped tys args = false) (hargs : m.argstack = [])
    (hn : m.ncs.2 = gs.fillN) (hs : m.scs.2 = gs.strokeN)
    (hfn : 0 < gs.fillN) (hsn : 0 < gs.strokeN) :
    execTok env rf { m with argstack := m.argstack ++ pushed args } (.op op) = (m, []) := by
  rw [hargs, List.nil_append]
  by_cases hdyn : op ≠ .sc ∧ op ≠ .scn ∧ op ≠ .SC ∧ op ≠ .SCN
  · have ha := arity_sig gs op tys hsig hdyn
    have hle := pushed_length_le args
    cases hk : tys.length with
    | zero =>
      have : args = [] := by
        cases args with
        | nil => rfl
        | cons a r => simp [hk] at hlen
      subst this
      have : tys = [] := by
        cases tys with
        | nil => rfl
        | cons a r => simp at hk
      subst this
      simp [wellTyped] at hw
    | succ n =>
      rw [hk] at ha hlen
      by_cases hlt : (pushed args).length < n + 1
      · rw [execTok_short env rf m op n _ ha hlt, mstate_args_nil m hargs]
      · have hP : (pushed args).length = args.length := by omega
        have hPa := pushed_eq_of_length args hP
        rw [hPa, execTok_exact env rf m op n args ha (by omega), mstate_args_nil m hargs]
        exact call_illtyped env rf m gs op tys args hsig (by omega) hb hw hdyn
  · have hop : op = .sc ∨ op = .scn ∨ op = .SC ∨ op = .SCN := by
      by_cases h1 : op = .sc
      · exact Or.inl h1
      · by_cases h2 : op = .scn
        · exact Or.inr (Or.inl h2)
        · by_cases h3 : op = .SC
          · exact Or.inr (Or.inr (Or.inl h3))
          · by_cases h4 : op = .SCN
            · exact Or.inr (Or.inr (Or.inr h4))
            · exact absurd ⟨h1, h2, h3, h4⟩ hdyn
    rcases hop with rfl | rfl | rfl | rfl <;>
      simp only [sig, Option.some.injEq] at hsig <;> subst hsig <;>
      simp only [List.length_replicate] at hlen <;>
      rw [execTok_zero env rf _ _ (by decide)] <;> simp only [call]
    · rw [doSetColor_illtyped m false gs.fillN args (by simpa using hn) hfn hlen hb hw hargs]
    · rw [doSetColor_illtyped m false gs.fillN args (by simpa using hn) hfn hlen hb hw hargs]
    · rw [doSetColor_illtyped m true gs.strokeN args (by simpa using hs) hsn hlen hb hw hargs]
    · rw [doSetColor_illtyped m true gs.strokeN args (by simpa using hs) hsn hlen hb hw hargs]

/-! ### well-typed operators: one step of the simulation -/

theorem wellTyped_pushed (tys : List Ty) (args : List Obj) :
    wellTyped tys args = true → pushed args = args ∧ args.length = tys.length := by
  induction args generalizing tys with
  | nil => intro h; cases tys <;> simp_all [wellTyped, pushed]
  | cons o rest ih =>
    intro h
    cases tys with
    | nil => simp [wellTyped] at h
    | cons t ts =>
      simp only [wellTyped, Bool.and_eq_true] at h
      obtain ⟨h1, h2⟩ := ih ts h.2
      cases o <;> cases t <;> simp_all [Ty.ok, pushed]

theorem TxtRel_congr {ts ts' : TextState} {t : Option (Matrix × Matrix)} (h1 : ts'.matrix = ts.matrix)
    (h2 : ts'.linematrix = ts.linematrix) (h : TxtRel ts t) : TxtRel ts' t := by
  cases t with
  | none => trivial
  | some p => obtain ⟨tm, tlm⟩ := p; simpa [TxtRel, h1, h2] using h

theorem one_num (args : List Obj) (hw : wellTyped [Ty.num] args = true) : ∃ v, args = [Obj.num v] := by
  obtain ⟨qs, rfl, hl⟩ := wellTyped_nums args 1 (by simpa [List.replicate] using hw)
  match qs, hl with
  | [v], _ => exact ⟨v, rfl⟩

theorem call_sim_setters (env : Env) (rfM : Form → MState → List Glyph × Bool)
    (rfS : Form → GS → Res → Option (List Glyph)) (m : MState) (s s' : SState) (op : Op) (args : List Obj)
    (gl : List Glyph) (hR : R env m s) (hop : op = .Tc ∨ op = .Tw ∨ op = .Tz ∨ op = .TL ∨ op = .Ts)
    (hw : wellTyped [Ty.num] args = true) (happ : apply env rfS s op args = some (s', gl)) :
    R env (call env rfM m op args).1 s' ∧ (call env rfM m op args).2 = gl := by
  obtain ⟨v, rfl⟩ := one_num args hw
  rcases hop with rfl | rfl | rfl | rfl | rfl <;>
    simp only [apply, Option.some.injEq, Prod.mk.injEq] at happ <;>
    obtain ⟨rfl, rfl⟩ := happ <;>
    simp only [call, safeFloats, safeFloat] <;>
    refine ⟨⟨?_, hR.dctm, hR.stack, TxtRel_congr rfl rfl hR.txt, hR.res, hR.args, hR.fuel⟩, by first | rfl | trivial⟩
  · exact { hR.g with tc := rfl }
  · exact { hR.g with tw := rfl }
  · exact { hR.g with th := rfl }
  · exact { hR.g with tl := by simp [tl_leading] }
  · exact { hR.g with trise := rfl }

theorem td_matrix (M : Matrix) (tx ty : Rat) :
    mult_matrix (1, 0, 0, 1, tx, ty) M =
      (M.1, M.2.1, M.2.2.1, M.2.2.2.1, td_e_new tx ty M.1 M.2.1 M.2.2.1 M.2.2.2.1 M.2.2.2.2.1 M.2.2.2.2.2,
       td_f_new tx ty M.1 M.2.1 M.2.2.1 M.2.2.2.1 M.2.2.2.2.1 M.2.2.2.2.2) := by
  obtain ⟨a, b, c, d, e, f⟩ := M
  simp only [mult_matrix, td_e_new, td_f_new, Prod.mk.injEq]
  refine ⟨?_, ?_, ?_, ?_, ?_, ?_⟩ <;> grind

theorem tD_matrix (M : Matrix) (tx ty : Rat) :
    mult_matrix (1, 0, 0, 1, tx, ty) M =
      (M.1, M.2.1, M.2.2.1, M.2.2.2.1, tD_e_new tx ty M.1 M.2.1 M.2.2.1 M.2.2.2.1 M.2.2.2.2.1 M.2.2.2.2.2,
       tD_f_new tx ty M.1 M.2.1 M.2.2.1 M.2.2.2.1 M.2.2.2.2.1 M.2.2.2.2.2) := by
  obtain ⟨a, b, c, d, e, f⟩ := M
  simp only [mult_matrix, tD_e_new, tD_f_new, Prod.mk.injEq]
  refine ⟨?_, ?_, ?_, ?_, ?_, ?_⟩ <;> grind

theorem tstar_matrix_eq (M : Matrix) (l : Rat) :
    mult_matrix (1, 0, 0, 1, 0, l) M = tstar_matrix M.1 M.2.1 M.2.2.1 M.2.2.2.1 l M.2.2.2.2.1 M.2.2.2.2.2 := by
  obtain ⟨a, b, c, d, e, f⟩ := M
  simp only [mult_matrix, tstar_matrix, Prod.mk.injEq]
  refine ⟨?_, ?_, ?_, ?_, ?_, ?_⟩ <;> grind

/-- `T*` on both sides. -/
theorem tstar_sim {env : Env} {m : MState} {s : SState} {t : Matrix × Matrix} (hR : R env m s) (ht : s.txt = some t) :
    R env (doTstar m) { s with txt := some (nextLine t 0 (-s.gs.Tl)) } := by
  have htx := hR.txt
  rw [ht] at htx
  obtain ⟨tm, tlm⟩ := t
  simp only [TxtRel] at htx
  obtain ⟨h1, h2⟩ := htx
  refine ⟨?_, hR.dctm, hR.stack, ?_, hR.res, hR.args, hR.fuel⟩
  · have hg := hR.g
    unfold doTstar
    exact { hg with }
  · unfold doTstar nextLine
    simp only [TxtRel]
    rw [translate_zero, h1, tstar_matrix_eq, hR.g.tl]
    simp

theorem showSeq_no_other (f : Font) (gs : GS) (seq : List Elem) :
    ∀ tm r, showSeq f gs tm seq = some r → ∀ e ∈ seq, e ≠ Elem.other := by
  induction seq with
  | nil => intro tm r _ e he; simp at he
  | cons e0 rest ih =>
    intro tm r h e he
    cases e0 with
    | num n =>
      simp only [showSeq] at h
      rcases List.mem_cons.mp he with rfl | h2
      · simp
      · exact ih _ _ h e h2
    | str codes =>
      simp only [showSeq] at h
      rcases List.mem_cons.mp he with rfl | h2
      · simp
      · split at h
        · rename_i tm2 g2 heq
          exact ih _ _ heq e h2
        · simp at h
    | other => simp [showSeq] at h

/-- Showing a string / a `TJ` array: `do_TJ` + `render_string` against 9.4.3–9.4.4. -/
theorem show_sim {env : Env} {m : MState} {s s' : SState} {t : Matrix × Matrix} {seq : List Elem} {gl : List Glyph}
    (hR : R env m s) (ht : s.txt = some t) (h : showIn env s t seq = some (s', gl)) :
    R env (doShow env m seq).1 s' ∧ (doShow env m seq).2 = gl := by
  have hg := hR.g
  have htx := hR.txt
  rw [ht] at htx
  obtain ⟨tm, tlm⟩ := t
  simp only [TxtRel] at htx
  obtain ⟨h1, h2⟩ := htx
  unfold showIn at h
  split at h
  · simp at h
  · rename_i i hTf
    split at h
    · simp at h
    · rename_i f hf
      have hfont : fontOf env m.ts.font = some f := by
        have hfr := hg.font
        rw [hTf] at hfr
        cases hmf : m.ts.font with
        | unset => rw [hmf] at hfr; simp [FontRel] at hfr
        | fallback => rw [hmf] at hfr; simp [FontRel] at hfr
        | idx j =>
          rw [hmf] at hfr
          simp only [FontRel] at hfr
          obtain ⟨rfl, _⟩ := hfr
          simp [fontOf, hf]
      split at h
      · simp at h
      · rename_i hvm
        split at h
        · simp at h
        · rename_i tm' gl' hshow
          simp only [Option.some.injEq, Prod.mk.injEq] at h
          obtain ⟨rfl, rfl⟩ := h
          have hno := showSeq_no_other f s.gs seq _ _ hshow
          rcases hlm : m.ts.linematrix with ⟨x, y⟩
          by_cases hv : f.vertical = true
          · have hm : f.multibyte = true := by
              cases hmb : f.multibyte with
              | true => rfl
              | false => simp [hv, hmb] at hvm
            have key := renderSeqV_showSeq f m.ts.matrix s.gs x seq hno hv hm y
            simp only [wsOf] at key
            rw [← hg.ctm, ← hR.dctm, ← hg.tfs, ← hg.th, ← hg.tc, ← hg.tw, ← hg.trise, ← hg.fill] at key
            simp only at hshow
            rw [h2, hlm, key] at hshow
            simp only [Option.some.injEq, Prod.mk.injEq] at hshow
            obtain ⟨rfl, rfl⟩ := hshow
            unfold doShow
            simp only [hfont]
            unfold renderString
            simp only [hlm, hv, if_true]
            refine ⟨⟨?_, hR.dctm, hR.stack, ?_, hR.res, hR.args, hR.fuel⟩, by first | rfl | trivial⟩
            · exact { hg with }
            · exact ⟨h1, rfl⟩
          · have hv' : f.vertical = false := by simpa using hv
            have key := renderSeq_showSeq f m.ts.matrix s.gs y seq hno hv' x
            simp only [wsOf] at key
            rw [← hg.ctm, ← hR.dctm, ← hg.tfs, ← hg.th, ← hg.tc, ← hg.tw, ← hg.trise, ← hg.fill] at key
            simp only at hshow
            rw [h2, hlm, key] at hshow
            simp only [Option.some.injEq, Prod.mk.injEq] at hshow
            obtain ⟨rfl, rfl⟩ := hshow
            unfold doShow
            simp only [hfont]
            unfold renderString
            simp only [hlm, hv', Bool.false_eq_true, if_false]
            refine ⟨⟨?_, hR.dctm, hR.stack, ?_, hR.res, hR.args, hR.fuel⟩, by first | rfl | trivial⟩
            · exact { hg with }
            · exact ⟨h1, rfl⟩

/-! ### well-typed operators, case by case -/

section
variable (env : Env) (rfM : Form → MState → List Glyph × Bool) (rfS : Form → GS → Res → Option (List Glyph))
variable (m : MState) (s s' : SState) (args : List Obj) (gl : List Glyph)

theorem nums_shape2 (hw : wellTyped [Ty.num, Ty.num] args = true) : ∃ a b, args = [Obj.num a, Obj.num b] := by
  obtain ⟨qs, rfl, hl⟩ := wellTyped_nums args 2 (by simpa [List.replicate] using hw)
  match qs, hl with
  | [a, b], _ => exact ⟨a, b, rfl⟩

theorem nums_shape3 (hw : wellTyped [Ty.num, Ty.num, Ty.num] args = true) :
    ∃ a b c, args = [Obj.num a, Obj.num b, Obj.num c] := by
  obtain ⟨qs, rfl, hl⟩ := wellTyped_nums args 3 (by simpa [List.replicate] using hw)
  match qs, hl with
  | [a, b, c], _ => exact ⟨a, b, c, rfl⟩

theorem nums_shape4 (hw : wellTyped [Ty.num, Ty.num, Ty.num, Ty.num] args = true) :
    ∃ a b c d, args = [Obj.num a, Obj.num b, Obj.num c, Obj.num d] := by
  obtain ⟨qs, rfl, hl⟩ := wellTyped_nums args 4 (by simpa [List.replicate] using hw)
  match qs, hl with
  | [a, b, c, d], _ => exact ⟨a, b, c, d, rfl⟩

theorem nums_shape6 (hw : wellTyped [Ty.num, Ty.num, Ty.num, Ty.num, Ty.num, Ty.num] args = true) :
    ∃ a b c d e f, args = [Obj.num a, Obj.num b, Obj.num c, Obj.num d, Obj.num e, Obj.num f] := by
  obtain ⟨qs, rfl, hl⟩ := wellTyped_nums args 6 (by simpa [List.replicate] using hw)
  match qs, hl with
  | [a, b, c, d, e, f], _ => exact ⟨a, b, c, d, e, f, rfl⟩

theorem nil_shape (hw : wellTyped [] args = true) : args = [] := by
  cases args with
  | nil => rfl
  | cons a r => simp [wellTyped] at hw

theorem sim_q (hR : R env m s) (hw : wellTyped [] args = true) (happ : apply env rfS s .q args = some (s', gl)) :
    R env (call env rfM m .q args).1 s' ∧ (call env rfM m .q args).2 = gl := by
  have := nil_shape args hw; subst this
  simp only [apply, Option.some.injEq, Prod.mk.injEq] at happ
  obtain ⟨rfl, rfl⟩ := happ
  simp only [call]
  refine ⟨⟨hR.g, hR.dctm, ?_, hR.txt, hR.res, hR.args, hR.fuel⟩, by first | rfl | trivial⟩
  exact ⟨hR.g, hR.stack⟩

theorem sim_Q (hR : R env m s) (hall : allowed s.txt.isSome .Q = true) (hw : wellTyped [] args = true)
    (happ : apply env rfS s .Q args = some (s', gl)) :
    R env (call env rfM m .Q args).1 s' ∧ (call env rfM m .Q args).2 = gl := by
  have := nil_shape args hw; subst this
  have htxt : s.txt = none := by
    cases h : s.txt with
    | none => rfl
    | some t => rw [h] at hall; simp [allowed, isTextState, isColour] at hall
  simp only [apply] at happ
  have hst := hR.stack
  cases hss : s.stack with
  | nil =>
    rw [hss] at happ hst
    simp only at happ
    split at happ
    · simp only [Option.some.injEq, Prod.mk.injEq] at happ
      obtain ⟨rfl, rfl⟩ := happ
      cases hgs : m.gstack with
      | nil => simp only [call, hgs]; exact ⟨hR, by first | rfl | trivial⟩
      | cons sv grest => rw [hgs] at hst; simp [StackRel] at hst
    · simp at happ
  | cons g rest =>
    rw [hss] at happ hst
    simp only [Option.some.injEq, Prod.mk.injEq] at happ
    obtain ⟨rfl, rfl⟩ := happ
    cases hgs : m.gstack with
    | nil => rw [hgs] at hst; simp [StackRel] at hst
    | cons sv grest =>
      rw [hgs] at hst
      simp only [StackRel] at hst
      simp only [call, hgs]
      refine ⟨⟨hst.1, rfl, hst.2, ?_, hR.res, hR.args, hR.fuel⟩, by first | rfl | trivial⟩
      simp only [htxt, TxtRel]

theorem sim_cm (hR : R env m s) (hw : wellTyped [Ty.num, Ty.num, Ty.num, Ty.num, Ty.num, Ty.num] args = true)
    (happ : apply env rfS s .cm args = some (s', gl)) :
    R env (call env rfM m .cm args).1 s' ∧ (call env rfM m .cm args).2 = gl := by
  obtain ⟨a, b, c, d, e, f, rfl⟩ := nums_shape6 args hw
  simp only [apply, Option.some.injEq, Prod.mk.injEq] at happ
  obtain ⟨rfl, rfl⟩ := happ
  simp only [call, safeFloats, safeFloat]
  refine ⟨⟨?_, rfl, hR.stack, hR.txt, hR.res, hR.args, hR.fuel⟩, by first | rfl | trivial⟩
  exact { hR.g with ctm := by simp [hR.g.ctm] }

theorem sim_BT (hR : R env m s) (hw : wellTyped [] args = true) (happ : apply env rfS s .BT args = some (s', gl)) :
    R env (call env rfM m .BT args).1 s' ∧ (call env rfM m .BT args).2 = gl := by
  have := nil_shape args hw; subst this
  simp only [apply, Option.some.injEq, Prod.mk.injEq] at happ
  obtain ⟨rfl, rfl⟩ := happ
  simp only [call]
  refine ⟨⟨?_, hR.dctm, hR.stack, ?_, hR.res, hR.args, hR.fuel⟩, by first | rfl | trivial⟩
  · exact { hR.g with }
  · simp only [TxtRel]
    exact ⟨by first | rfl | trivial, (translate_zero _).symm⟩

theorem sim_ET (hR : R env m s) (hw : wellTyped [] args = true) (happ : apply env rfS s .ET args = some (s', gl)) :
    R env (call env rfM m .ET args).1 s' ∧ (call env rfM m .ET args).2 = gl := by
  have := nil_shape args hw; subst this
  simp only [apply, Option.some.injEq, Prod.mk.injEq] at happ
  obtain ⟨rfl, rfl⟩ := happ
  simp only [call]
  exact ⟨⟨hR.g, hR.dctm, hR.stack, trivial, hR.res, hR.args, hR.fuel⟩, by first | rfl | trivial⟩

theorem sim_Tr (hR : R env m s) (hw : wellTyped [Ty.num] args = true) (happ : apply env rfS s .Tr args = some (s', gl)) :
    R env (call env rfM m .Tr args).1 s' ∧ (call env rfM m .Tr args).2 = gl := by
  obtain ⟨v, rfl⟩ := one_num args hw
  simp only [apply] at happ
  split at happ
  · simp only [Option.some.injEq, Prod.mk.injEq] at happ
    obtain ⟨rfl, rfl⟩ := happ
    simp only [call, safeInt]
    refine ⟨⟨?_, hR.dctm, hR.stack, TxtRel_congr rfl rfl hR.txt, hR.res, hR.args, hR.fuel⟩, by first | rfl | trivial⟩
    exact { hR.g with }
  · simp at happ

theorem shape_name_num (hw : wellTyped [Ty.name, Ty.num] args = true) : ∃ n sz, args = [Obj.name n, Obj.num sz] := by
  rcases args with _ | ⟨a, _ | ⟨b, _ | ⟨c, r⟩⟩⟩ <;> simp [wellTyped] at hw
  cases a <;> cases b <;> simp [Ty.ok] at hw
  exact ⟨_, _, rfl⟩

theorem shape_name (hw : wellTyped [Ty.name] args = true) : ∃ n, args = [Obj.name n] := by
  rcases args with _ | ⟨a, _ | ⟨b, r⟩⟩ <;> simp [wellTyped] at hw
  cases a <;> simp [Ty.ok] at hw
  exact ⟨_, rfl⟩

theorem shape_str (hw : wellTyped [Ty.str] args = true) : ∃ c, args = [Obj.str c] := by
  rcases args with _ | ⟨a, _ | ⟨b, r⟩⟩ <;> simp [wellTyped] at hw
  cases a <;> simp [Ty.ok] at hw
  exact ⟨_, rfl⟩

theorem shape_arr (hw : wellTyped [Ty.arr] args = true) : ∃ c, args = [Obj.arr c] := by
  rcases args with _ | ⟨a, _ | ⟨b, r⟩⟩ <;> simp [wellTyped] at hw
  cases a <;> simp [Ty.ok] at hw
  exact ⟨_, rfl⟩

theorem shape_num_num_str (hw : wellTyped [Ty.num, Ty.num, Ty.str] args = true) :
    ∃ a b c, args = [Obj.num a, Obj.num b, Obj.str c] := by
  rcases args with _ | ⟨a, _ | ⟨b, _ | ⟨c, _ | ⟨d, r⟩⟩⟩⟩ <;> simp [wellTyped] at hw
  cases a <;> cases b <;> cases c <;> simp [Ty.ok] at hw
  exact ⟨_, _, _, rfl⟩

theorem sim_Tf (hR : R env m s) (hw : wellTyped [Ty.name, Ty.num] args = true)
    (happ : apply env rfS s .Tf args = some (s', gl)) :
    R env (call env rfM m .Tf args).1 s' ∧ (call env rfM m .Tf args).2 = gl := by
  obtain ⟨n, sz, rfl⟩ := shape_name_num args hw
  simp only [apply] at happ
  split at happ
  · simp at happ
  · rename_i i hi
    split at happ
    · rename_i hlt
      simp only [Option.some.injEq, Prod.mk.injEq] at happ
      obtain ⟨rfl, rfl⟩ := happ
      have hi' : lookup n m.res.fonts = some i := by rw [hR.res]; exact hi
      simp only [call, safeFloats, safeFloat, hi']
      refine ⟨⟨?_, hR.dctm, hR.stack, TxtRel_congr rfl rfl hR.txt, hR.res, hR.args, hR.fuel⟩, by first | rfl | trivial⟩
      exact { hR.g with tfs := rfl, font := ⟨rfl, hlt⟩ }
    · simp at happ

theorem sim_Td (hR : R env m s) (hw : wellTyped [Ty.num, Ty.num] args = true)
    (happ : apply env rfS s .Td args = some (s', gl)) :
    R env (call env rfM m .Td args).1 s' ∧ (call env rfM m .Td args).2 = gl := by
  obtain ⟨tx, ty, rfl⟩ := nums_shape2 args hw
  simp only [apply] at happ
  split at happ
  · simp at happ
  · rename_i t ht
    simp only [Option.some.injEq, Prod.mk.injEq] at happ
    obtain ⟨rfl, rfl⟩ := happ
    have htx := hR.txt
    rw [ht] at htx
    obtain ⟨tm, tlm⟩ := t
    simp only [TxtRel] at htx
    simp only [call, safeFloats, safeFloat]
    refine ⟨⟨?_, hR.dctm, hR.stack, ?_, hR.res, hR.args, hR.fuel⟩, by first | rfl | trivial⟩
    · exact { hR.g with }
    · simp only [TxtRel, nextLine]
      rw [translate_zero, htx.1, td_matrix]
      exact ⟨rfl, rfl⟩

theorem sim_TD (hR : R env m s) (hw : wellTyped [Ty.num, Ty.num] args = true)
    (happ : apply env rfS s .TD args = some (s', gl)) :
    R env (call env rfM m .TD args).1 s' ∧ (call env rfM m .TD args).2 = gl := by
  obtain ⟨tx, ty, rfl⟩ := nums_shape2 args hw
  simp only [apply] at happ
  split at happ
  · simp at happ
  · rename_i t ht
    simp only [Option.some.injEq, Prod.mk.injEq] at happ
    obtain ⟨rfl, rfl⟩ := happ
    have htx := hR.txt
    rw [ht] at htx
    obtain ⟨tm, tlm⟩ := t
    simp only [TxtRel] at htx
    simp only [call, safeFloats, safeFloat]
    refine ⟨⟨?_, hR.dctm, hR.stack, ?_, hR.res, hR.args, hR.fuel⟩, by first | rfl | trivial⟩
    · exact { hR.g with tl := by simp [tD_leading] }
    · simp only [TxtRel, nextLine]
      rw [translate_zero, htx.1, tD_matrix]
      exact ⟨rfl, rfl⟩

theorem sim_Tm (hR : R env m s) (hw : wellTyped [Ty.num, Ty.num, Ty.num, Ty.num, Ty.num, Ty.num] args = true)
    (happ : apply env rfS s .Tm args = some (s', gl)) :
    R env (call env rfM m .Tm args).1 s' ∧ (call env rfM m .Tm args).2 = gl := by
  obtain ⟨a, b, c, d, e, f, rfl⟩ := nums_shape6 args hw
  simp only [apply] at happ
  split at happ
  · simp at happ
  · simp only [Option.some.injEq, Prod.mk.injEq] at happ
    obtain ⟨rfl, rfl⟩ := happ
    simp only [call, safeFloats, safeFloat]
    refine ⟨⟨?_, hR.dctm, hR.stack, ?_, hR.res, hR.args, hR.fuel⟩, by first | rfl | trivial⟩
    · exact { hR.g with }
    · simp only [TxtRel]
      exact ⟨by first | rfl | trivial, (translate_zero _).symm⟩

theorem sim_Tstar (hR : R env m s) (hw : wellTyped [] args = true)
    (happ : apply env rfS s .Tstar args = some (s', gl)) :
    R env (call env rfM m .Tstar args).1 s' ∧ (call env rfM m .Tstar args).2 = gl := by
  have := nil_shape args hw; subst this
  simp only [apply] at happ
  split at happ
  · simp at happ
  · rename_i t ht
    simp only [Option.some.injEq, Prod.mk.injEq] at happ
    obtain ⟨rfl, rfl⟩ := happ
    simp only [call]
    exact ⟨tstar_sim hR ht, by first | rfl | trivial⟩

theorem sim_Tj (hR : R env m s) (hw : wellTyped [Ty.str] args = true)
    (happ : apply env rfS s .Tj args = some (s', gl)) :
    R env (call env rfM m .Tj args).1 s' ∧ (call env rfM m .Tj args).2 = gl := by
  obtain ⟨codes, rfl⟩ := shape_str args hw
  simp only [apply] at happ
  split at happ
  · simp at happ
  · rename_i t ht
    simp only [call]
    exact show_sim hR ht happ

theorem sim_TJ (hR : R env m s) (hw : wellTyped [Ty.arr] args = true)
    (happ : apply env rfS s .TJ args = some (s', gl)) :
    R env (call env rfM m .TJ args).1 s' ∧ (call env rfM m .TJ args).2 = gl := by
  obtain ⟨es, rfl⟩ := shape_arr args hw
  simp only [apply] at happ
  split at happ
  · simp at happ
  · rename_i t ht
    simp only [call]
    exact show_sim hR ht happ

theorem sim_quote (hR : R env m s) (hw : wellTyped [Ty.str] args = true)
    (happ : apply env rfS s .quote args = some (s', gl)) :
    R env (call env rfM m .quote args).1 s' ∧ (call env rfM m .quote args).2 = gl := by
  obtain ⟨codes, rfl⟩ := shape_str args hw
  simp only [apply] at happ
  split at happ
  · simp at happ
  · rename_i t ht
    simp only [call]
    have h1 := tstar_sim hR ht
    exact show_sim (s := { s with txt := some (nextLine t 0 (-s.gs.Tl)) }) h1 rfl happ

theorem sim_dquote (hR : R env m s) (hw : wellTyped [Ty.num, Ty.num, Ty.str] args = true)
    (happ : apply env rfS s .dquote args = some (s', gl)) :
    R env (call env rfM m .dquote args).1 s' ∧ (call env rfM m .dquote args).2 = gl := by
  obtain ⟨aw, ac, codes, rfl⟩ := shape_num_num_str args hw
  simp only [apply] at happ
  split at happ
  · simp at happ
  · rename_i t ht
    simp only [call, safeFloats, safeFloat]
    have hR1 : R env { m with ts := { m.ts with wordspace := aw, charspace := ac } }
        { s with gs := { s.gs with Tw := aw, Tc := ac } } :=
      ⟨{ hR.g with tw := rfl, tc := rfl }, hR.dctm, hR.stack, TxtRel_congr rfl rfl hR.txt, hR.res, hR.args, hR.fuel⟩
    have h1 := tstar_sim hR1 ht
    exact show_sim h1 rfl happ

theorem csLookup_gray : csLookup "DeviceGray" = some ("DeviceGray", 1) := by decide
theorem csLookup_rgb : csLookup "DeviceRGB" = some ("DeviceRGB", 3) := by decide
theorem csLookup_cmyk : csLookup "DeviceCMYK" = some ("DeviceCMYK", 4) := by decide

theorem sim_g (hR : R env m s) (hw : wellTyped [Ty.num] args = true)
    (happ : apply env rfS s .g args = some (s', gl)) :
    R env (call env rfM m .g args).1 s' ∧ (call env rfM m .g args).2 = gl := by
  obtain ⟨v, rfl⟩ := one_num args hw
  simp only [apply] at happ
  split at happ
  · simp only [Option.some.injEq, Prod.mk.injEq] at happ
    obtain ⟨rfl, rfl⟩ := happ
    simp only [call, safeFloats, safeFloat, csLookup_gray, Option.getD_some]
    refine ⟨⟨?_, hR.dctm, hR.stack, hR.txt, hR.res, hR.args, hR.fuel⟩, by first | rfl | trivial⟩
    exact { hR.g with fill := rfl, ncs := rfl, fillN := by simp }
  · simp at happ

theorem sim_G (hR : R env m s) (hw : wellTyped [Ty.num] args = true)
    (happ : apply env rfS s .G args = some (s', gl)) :
    R env (call env rfM m .G args).1 s' ∧ (call env rfM m .G args).2 = gl := by
  obtain ⟨v, rfl⟩ := one_num args hw
  simp only [apply] at happ
  split at happ
  · simp only [Option.some.injEq, Prod.mk.injEq] at happ
    obtain ⟨rfl, rfl⟩ := happ
    simp only [call, safeFloats, safeFloat, csLookup_gray, Option.getD_some]
    refine ⟨⟨?_, hR.dctm, hR.stack, hR.txt, hR.res, hR.args, hR.fuel⟩, by first | rfl | trivial⟩
    exact { hR.g with stroke := rfl, scs := rfl, strokeN := by simp }
  · simp at happ

theorem sim_rg (hR : R env m s) (hw : wellTyped [Ty.num, Ty.num, Ty.num] args = true)
    (happ : apply env rfS s .rg args = some (s', gl)) :
    R env (call env rfM m .rg args).1 s' ∧ (call env rfM m .rg args).2 = gl := by
  obtain ⟨a, b, c, rfl⟩ := nums_shape3 args hw
  simp only [apply] at happ
  split at happ
  · simp only [Option.some.injEq, Prod.mk.injEq] at happ
    obtain ⟨rfl, rfl⟩ := happ
    simp only [call, safeFloats, safeFloat, csLookup_rgb, Option.getD_some]
    refine ⟨⟨?_, hR.dctm, hR.stack, hR.txt, hR.res, hR.args, hR.fuel⟩, by first | rfl | trivial⟩
    exact { hR.g with fill := rfl, ncs := rfl, fillN := by simp }
  · simp at happ

theorem sim_RG (hR : R env m s) (hw : wellTyped [Ty.num, Ty.num, Ty.num] args = true)
    (happ : apply env rfS s .RG args = some (s', gl)) :
    R env (call env rfM m .RG args).1 s' ∧ (call env rfM m .RG args).2 = gl := by
  obtain ⟨a, b, c, rfl⟩ := nums_shape3 args hw
  simp only [apply] at happ
  split at happ
  · simp only [Option.some.injEq, Prod.mk.injEq] at happ
    obtain ⟨rfl, rfl⟩ := happ
    simp only [call, safeFloats, safeFloat, csLookup_rgb, Option.getD_some]
    refine ⟨⟨?_, hR.dctm, hR.stack, hR.txt, hR.res, hR.args, hR.fuel⟩, by first | rfl | trivial⟩
    exact { hR.g with stroke := rfl, scs := rfl, strokeN := by simp }
  · simp at happ

theorem sim_k (hR : R env m s) (hw : wellTyped [Ty.num, Ty.num, Ty.num, Ty.num] args = true)
    (happ : apply env rfS s .k args = some (s', gl)) :
    R env (call env rfM m .k args).1 s' ∧ (call env rfM m .k args).2 = gl := by
  obtain ⟨a, b, c, d, rfl⟩ := nums_shape4 args hw
  simp only [apply] at happ
  split at happ
  · simp only [Option.some.injEq, Prod.mk.injEq] at happ
    obtain ⟨rfl, rfl⟩ := happ
    simp only [call, safeFloats, safeFloat, csLookup_cmyk, Option.getD_some]
    refine ⟨⟨?_, hR.dctm, hR.stack, hR.txt, hR.res, hR.args, hR.fuel⟩, by first | rfl | trivial⟩
    exact { hR.g with fill := rfl, ncs := rfl, fillN := by simp }
  · simp at happ

theorem sim_K (hR : R env m s) (hw : wellTyped [Ty.num, Ty.num, Ty.num, Ty.num] args = true)
    (happ : apply env rfS s .K args = some (s', gl)) :
    R env (call env rfM m .K args).1 s' ∧ (call env rfM m .K args).2 = gl := by
  obtain ⟨a, b, c, d, rfl⟩ := nums_shape4 args hw
  simp only [apply] at happ
  split at happ
  · simp only [Option.some.injEq, Prod.mk.injEq] at happ
    obtain ⟨rfl, rfl⟩ := happ
    simp only [call, safeFloats, safeFloat, csLookup_cmyk, Option.getD_some]
    refine ⟨⟨?_, hR.dctm, hR.stack, hR.txt, hR.res, hR.args, hR.fuel⟩, by first | rfl | trivial⟩
    exact { hR.g with stroke := rfl, scs := rfl, strokeN := by simp }
  · simp at happ

/-- The device colour spaces in pdfminer's table: components and initial colour as Table 74 says. -/
theorem deviceCS_model (n : String) (k : Nat) (h : deviceCS n = some k) :
    csLookup n = some (n, k) ∧ initialColor (n, k) = some (initialColourOf n k) ∧ 0 < k := by
  unfold deviceCS at h
  split at h <;> simp only [Option.some.injEq, reduceCtorEq] at h <;> subst h
  · exact ⟨by decide, by decide, by decide⟩
  · exact ⟨by decide, by decide, by decide⟩
  · exact ⟨by decide, by decide, by decide⟩

/-- `_initial_color` of a space of a known family with 1, 3 or 4 components is Table 74's. -/
theorem initialColor_family (fam : String) (k : Nat) (hf : knownFamily fam = true) (hk : 0 < k) :
    initialColor (fam, k) = some (initialColourOf fam k) := by
  have hp : fam ≠ "Pattern" := by
    intro h; subst h; revert hf; decide
  have hk1 : ¬ k < 1 := by omega
  unfold initialColor initialColourOf
  simp only [hp, hk1, or_self, if_false]
  by_cases hc : fam = "DeviceCMYK"
  · simp [hc]
  · simp only [hc, if_false]
    by_cases hs : fam = "Separation" ∨ fam = "DeviceN"
    · simp [hs]
    · simp [hs]

/-- What `cs`/`CS` resolve their operand to: pdfminer's `csmap` against the text model's reading. -/
theorem csResolve_model (res : Res) (n : String) :
    (∀ fam k, csResolve res n = .defined fam k →
      ∃ cs : CS, csLookupIn res n = some cs ∧ cs.2 = k ∧ initialColor cs = some (initialColourOf fam k) ∧
        0 < k) ∧
    (csResolve res n = .undefined → csLookupIn res n = none) := by
  unfold csResolve csLookupIn
  cases hl : lookupCS n res.cspaces with
  | some p =>
    obtain ⟨fam0, n0⟩ := p
    simp only
    constructor
    · intro fam k h
      split at h
      · rename_i hc
        simp only [CSRes.defined.injEq] at h
        obtain ⟨rfl, rfl⟩ := h
        simp only [Bool.and_eq_true, Bool.or_eq_true, decide_eq_true_eq] at hc
        exact ⟨(fam0, n0), rfl, rfl, initialColor_family fam0 n0 hc.1 hc.2, hc.2⟩
      · simp at h
    · intro h
      split at h <;> simp at h
  | none =>
    simp only
    cases hd : deviceCS n with
    | some k =>
      simp only
      obtain ⟨h1, h2, h3⟩ := deviceCS_model n k hd
      constructor
      · intro fam k' h
        simp only [CSRes.defined.injEq] at h
        obtain ⟨hfam, hk⟩ := h
        subst hfam; subst hk
        exact ⟨(n, k), h1, rfl, h2, h3⟩
      · intro h; simp at h
    | none =>
      simp only
      constructor
      · intro fam k h
        split at h <;> simp at h
      · intro h
        split at h
        · simp at h
        · rename_i hne
          simp only [not_or] at hne
          have hdev : n ≠ "DeviceGray" ∧ n ≠ "DeviceRGB" ∧ n ≠ "DeviceCMYK" := by
            unfold deviceCS at hd
            refine ⟨?_, ?_, ?_⟩ <;> (intro h'; subst h'; simp at hd)
          simp [csLookup, lookup, PREDEFINED_COLORSPACE, hne.1, hne.2.1, hne.2.2.1, hne.2.2.2.1, hne.2.2.2.2.1,
            hne.2.2.2.2.2, hdev.1, hdev.2.1, hdev.2.2]

theorem sim_cs (hR : R env m s) (hw : wellTyped [Ty.name] args = true)
    (happ : apply env rfS s .cs args = some (s', gl)) :
    R env (call env rfM m .cs args).1 s' ∧ (call env rfM m .cs args).2 = gl := by
  obtain ⟨n, rfl⟩ := shape_name args hw
  simp only [apply] at happ
  obtain ⟨hdef, hund⟩ := csResolve_model s.res n
  split at happ
  · rename_i fam k hk
    obtain ⟨cs, h1, h2, h3, h4⟩ := hdef fam k hk
    simp only [Option.some.injEq, Prod.mk.injEq] at happ
    obtain ⟨rfl, rfl⟩ := happ
    rw [← hR.res] at h1
    simp only [call, h1, h3]
    refine ⟨⟨?_, hR.dctm, hR.stack, hR.txt, hR.res, hR.args, hR.fuel⟩, by first | rfl | trivial⟩
    exact { hR.g with fill := rfl, ncs := h2, fillN := h4 }
  · rename_i hk
    have h1 := hund hk
    simp only [Option.some.injEq, Prod.mk.injEq] at happ
    obtain ⟨rfl, rfl⟩ := happ
    rw [← hR.res] at h1
    simp only [call, h1]
    exact ⟨hR, by first | rfl | trivial⟩
  · simp at happ

theorem sim_CS (hR : R env m s) (hw : wellTyped [Ty.name] args = true)
    (happ : apply env rfS s .CS args = some (s', gl)) :
    R env (call env rfM m .CS args).1 s' ∧ (call env rfM m .CS args).2 = gl := by
  obtain ⟨n, rfl⟩ := shape_name args hw
  simp only [apply] at happ
  obtain ⟨hdef, hund⟩ := csResolve_model s.res n
  split at happ
  · rename_i fam k hk
    obtain ⟨cs, h1, h2, h3, h4⟩ := hdef fam k hk
    simp only [Option.some.injEq, Prod.mk.injEq] at happ
    obtain ⟨rfl, rfl⟩ := happ
    rw [← hR.res] at h1
    simp only [call, h1, h3]
    refine ⟨⟨?_, hR.dctm, hR.stack, hR.txt, hR.res, hR.args, hR.fuel⟩, by first | rfl | trivial⟩
    exact { hR.g with stroke := rfl, scs := h2, strokeN := h4 }
  · rename_i hk
    have h1 := hund hk
    simp only [Option.some.injEq, Prod.mk.injEq] at happ
    obtain ⟨rfl, rfl⟩ := happ
    rw [← hR.res] at h1
    simp only [call, h1]
    exact ⟨hR, by first | rfl | trivial⟩
  · simp at happ

/-- `Do` of a form XObject: the caller's state afterwards is what it was before. -/
theorem sim_Do (hrf : Agree env rfM rfS) (hR : R env m s) (hw : wellTyped [Ty.name] args = true)
    (happ : apply env rfS s .Do args = some (s', gl)) :
    R env (call env rfM m .Do args).1 s' ∧ (call env rfM m .Do args).2 = gl := by
  obtain ⟨n, rfl⟩ := shape_name args hw
  simp only [apply] at happ
  split at happ
  · simp at happ
  · rename_i i hi
    split at happ
    · simp at happ
    · rename_i fm hfm
      split at happ
      · simp at happ
      · rename_i hact
        split at happ
        · simp at happ
        · rename_i gl' hrun
          simp only [Option.some.injEq, Prod.mk.injEq] at happ
          obtain ⟨rfl, rfl⟩ := happ
          have hi' : lookup n m.res.xobjs = some i := by rw [hR.res]; exact hi
          have hact' : m.res.active.contains i = false := by rw [hR.res]; simpa using hact
          have hR0 : R env
              { MState.init (mult_matrix (fm.matrix.getD MATRIX_IDENTITY) m.ctm)
                  { fm.res.getD m.res with active := i :: m.res.active } with
                ts := m.ts, scolor := m.scolor, ncolor := m.ncolor, scs := m.scs, ncs := m.ncs }
              ⟨{ s.gs with ctm := mult_matrix (fm.matrix.getD MATRIX_IDENTITY) s.gs.ctm }, [], none,
                { fm.res.getD s.res with active := i :: s.res.active }⟩ :=
            ⟨{ hR.g with ctm := by simp [MState.init, hR.g.ctm] }, rfl, trivial, trivial, by simp [MState.init, hR.res], rfl, rfl⟩
          have hm := hrf fm _ _ _ _ hR0 hrun
          simp only [call, hi', hfm, hact', Bool.false_eq_true, if_false, hm]
          refine ⟨⟨hR.g, rfl, hR.stack, hR.txt, hR.res, hR.args, ?_⟩, by first | rfl | trivial⟩
          simp [hR.fuel]

theorem numsOf_nums (qs : List Rat) : numsOf (qs.map Obj.num) = qs := by
  induction qs with
  | nil => rfl
  | cons q r ih => simp [numsOf, ih]

theorem doSetColor_welltyped (stroke : Bool) (n : Nat) (qs : List Rat)
    (hn : (if stroke then m.scs.2 else m.ncs.2) = n) (h134 : 0 < n) (hl : qs.length = n)
    (hargs : m.argstack = []) :
    doSetColor { m with argstack := qs.map Obj.num } stroke =
      if stroke then { m with scolor := some qs } else { m with ncolor := some qs } := by
  unfold doSetColor
  simp only [hn]
  have hn0 : ¬ n = 0 := by omega
  simp only [hn0, if_false]
  rw [pop_short n _ (by simp [hl]), safeFloats_nums]
  simp only [List.length_map, hl, if_true]
  cases stroke <;> simp <;> cases m <;> simp_all

/-- One well-typed instruction of the domain: `execute` and the text model stay related and
report the same glyphs. -/
theorem exec_sim (hrf : Agree env rfM rfS) (op : Op) (tys : List Ty) (hR : R env m s)
    (hsig : sig s.gs op = some tys) (hall : allowed s.txt.isSome op = true) (hw : wellTyped tys args = true)
    (happ : apply env rfS s op args = some (s', gl)) :
    R env (execTok env rfM { m with argstack := m.argstack ++ pushed args } (.op op)).1 s' ∧
      (execTok env rfM { m with argstack := m.argstack ++ pushed args } (.op op)).2 = gl := by
  obtain ⟨hpa, hlen⟩ := wellTyped_pushed tys args hw
  rw [hR.args, List.nil_append, hpa]
  by_cases hdyn : op ≠ .sc ∧ op ≠ .scn ∧ op ≠ .SC ∧ op ≠ .SCN
  · have ha := arity_sig s.gs op tys hsig hdyn
    have hcall : execTok env rfM { m with argstack := args } (.op op) = call env rfM m op args := by
      cases hk : tys.length with
      | zero =>
        have : args = [] := by
          cases args with
          | nil => rfl
          | cons a r => simp [hk] at hlen
        subst this
        rw [hk] at ha
        rw [mstate_args_nil m hR.args, execTok_zero env rfM m op ha]
      | succ n =>
        rw [hk] at ha
        rw [execTok_exact env rfM m op n args ha (by omega), mstate_args_nil m hR.args]
    rw [hcall]
    cases op <;> simp only [sig, Option.some.injEq, reduceCtorEq] at hsig <;> try subst hsig
    case q => exact sim_q env rfM rfS m s s' args gl hR hw happ
    case Q => exact sim_Q env rfM rfS m s s' args gl hR hall hw happ
    case cm => exact sim_cm env rfM rfS m s s' args gl hR hw happ
    case BT => exact sim_BT env rfM rfS m s s' args gl hR hw happ
    case ET => exact sim_ET env rfM rfS m s s' args gl hR hw happ
    case Tc => exact call_sim_setters env rfM rfS m s s' .Tc args gl hR (by simp) hw happ
    case Tw => exact call_sim_setters env rfM rfS m s s' .Tw args gl hR (by simp) hw happ
    case Tz => exact call_sim_setters env rfM rfS m s s' .Tz args gl hR (by simp) hw happ
    case TL => exact call_sim_setters env rfM rfS m s s' .TL args gl hR (by simp) hw happ
    case Ts => exact call_sim_setters env rfM rfS m s s' .Ts args gl hR (by simp) hw happ
    case Tr => exact sim_Tr env rfM rfS m s s' args gl hR hw happ
    case Tf => exact sim_Tf env rfM rfS m s s' args gl hR hw happ
    case Td => exact sim_Td env rfM rfS m s s' args gl hR hw happ
    case TD => exact sim_TD env rfM rfS m s s' args gl hR hw happ
    case Tm => exact sim_Tm env rfM rfS m s s' args gl hR hw happ
    case Tstar => exact sim_Tstar env rfM rfS m s s' args gl hR hw happ
    case Tj => exact sim_Tj env rfM rfS m s s' args gl hR hw happ
    case TJ => exact sim_TJ env rfM rfS m s s' args gl hR hw happ
    case quote => exact sim_quote env rfM rfS m s s' args gl hR hw happ
    case dquote => exact sim_dquote env rfM rfS m s s' args gl hR hw happ
    case g => exact sim_g env rfM rfS m s s' args gl hR hw happ
    case G => exact sim_G env rfM rfS m s s' args gl hR hw happ
    case rg => exact sim_rg env rfM rfS m s s' args gl hR hw happ
    case RG => exact sim_RG env rfM rfS m s s' args gl hR hw happ
    case k => exact sim_k env rfM rfS m s s' args gl hR hw happ
    case K => exact sim_K env rfM rfS m s s' args gl hR hw happ
    case cs => exact sim_cs env rfM rfS m s s' args gl hR hw happ
    case CS => exact sim_CS env rfM rfS m s s' args gl hR hw happ
    case Do => exact sim_Do env rfM rfS m s s' args gl hrf hR hw happ
    case other n =>
      simp only [apply, Option.some.injEq, Prod.mk.injEq] at happ
      obtain ⟨rfl, rfl⟩ := happ
      have hc : call env rfM m (Op.other n) args = (m, []) := by simp [call]
      rw [hc]
      exact ⟨hR, rfl⟩
    all_goals (simp at hdyn)
  · have hop : op = .sc ∨ op = .scn ∨ op = .SC ∨ op = .SCN := by
      by_cases h1 : op = .sc
      · exact Or.inl h1
      · by_cases h2 : op = .scn
        · exact Or.inr (Or.inl h2)
        · by_cases h3 : op = .SC
          · exact Or.inr (Or.inr (Or.inl h3))
          · by_cases h4 : op = .SCN
            · exact Or.inr (Or.inr (Or.inr h4))
            · exact absurd ⟨h1, h2, h3, h4⟩ hdyn
    have hg := hR.g
    rcases hop with rfl | rfl | rfl | rfl <;>
      simp only [sig, Option.some.injEq] at hsig <;> subst hsig <;>
      obtain ⟨qs, rfl, hl⟩ := wellTyped_nums args _ hw <;>
      rw [execTok_zero env rfM _ _ (by decide)] <;> simp only [call] <;>
      simp only [apply, numsOf_nums] at happ <;>
      split at happ <;> simp only [Option.some.injEq, Prod.mk.injEq, reduceCtorEq] at happ <;>
      obtain ⟨rfl, rfl⟩ := happ
    · rw [doSetColor_welltyped m false s.gs.fillN qs (by simpa using hg.ncs) hg.fillN hl hR.args]
      simp only [Bool.false_eq_true, if_false, if_true]
      exact ⟨⟨{ hg with fill := rfl }, hR.dctm, hR.stack, hR.txt, hR.res, hR.args, hR.fuel⟩, by first | rfl | trivial⟩
    · rw [doSetColor_welltyped m false s.gs.fillN qs (by simpa using hg.ncs) hg.fillN hl hR.args]
      simp only [Bool.false_eq_true, if_false, if_true]
      exact ⟨⟨{ hg with fill := rfl }, hR.dctm, hR.stack, hR.txt, hR.res, hR.args, hR.fuel⟩, by first | rfl | trivial⟩
    · rw [doSetColor_welltyped m true s.gs.strokeN qs (by simpa using hg.scs) hg.strokeN hl hR.args]
      simp only [Bool.false_eq_true, if_false, if_true]
      exact ⟨⟨{ hg with stroke := rfl }, hR.dctm, hR.stack, hR.txt, hR.res, hR.args, hR.fuel⟩, by first | rfl | trivial⟩
    · rw [doSetColor_welltyped m true s.gs.strokeN qs (by simpa using hg.scs) hg.strokeN hl hR.args]
      simp only [Bool.false_eq_true, if_false, if_true]
      exact ⟨⟨{ hg with stroke := rfl }, hR.dctm, hR.stack, hR.txt, hR.res, hR.args, hR.fuel⟩, by first | rfl | trivial⟩

end
/-! ### programs -/

section
variable (env : Env) (rfM : Form → MState → List Glyph × Bool) (rfS : Form → GS → Res → Option (List Glyph))

/-- One instruction of the domain (operands, then operator). -/
theorem step_sim (hrf : Agree env rfM rfS) (m : MState) (s s' : SState) (i : Instr) (gl : List Glyph) (hR : R env m s)
    (h : step env rfS s i = some (s', gl)) :
    R env (execToks env rfM m i.toks).1 s' ∧ (execToks env rfM m i.toks).2 = gl := by
  rw [execToks_instr]
  obtain ⟨tys, hsig, hall, hb, hlen, hcase⟩ := step_inv h
  rcases hcase with ⟨hw, rfl, rfl⟩ | ⟨hw, happ⟩
  · rw [illtyped_noop env rfM m s'.gs i.op tys i.args hsig hlen hb hw hR.args hR.g.ncs hR.g.scs hR.g.fillN hR.g.strokeN]
    exact ⟨hR, rfl⟩
  · exact exec_sim env rfM rfS m s s' i.args gl hrf i.op tys hR hsig hall hw happ

theorem run_sim (hrf : Agree env rfM rfS) (is : List Instr) :
    ∀ (m : MState) (s s' : SState) (gl : List Glyph), R env m s → runInstrs env rfS s is = some (s', gl) →
      R env (execToks env rfM m (is.flatMap Instr.toks)).1 s' ∧ (execToks env rfM m (is.flatMap Instr.toks)).2 = gl := by
  induction is with
  | nil =>
    intro m s s' gl hR h
    simp only [runInstrs, Option.some.injEq, Prod.mk.injEq] at h
    obtain ⟨rfl, rfl⟩ := h
    simp [execToks, hR]
  | cons i rest ih =>
    intro m s s' gl hR h
    simp only [runInstrs] at h
    split at h
    · simp at h
    · rename_i s1 g1 h1
      split at h
      · simp at h
      · rename_i s2 g2 h2
        simp only [Option.some.injEq, Prod.mk.injEq] at h
        obtain ⟨rfl, rfl⟩ := h
        obtain ⟨hR1, hg1⟩ := step_sim env rfM rfS hrf m s s1 i g1 hR h1
        obtain ⟨hR2, hg2⟩ := ih _ s1 s2 g2 hR1 h2
        simp only [List.flatMap_cons]
        rw [execToks_append]
        exact ⟨hR2, by rw [hg1, hg2]⟩

/-- Grouping the tokens into instructions loses nothing: the instructions followed by the
operands left over after the last operator are the token sequence again. -/
theorem parseInstrs_sound' (toks : List Tok) :
    ∀ (acc : List Obj) (is : List Instr) (tr : List Obj), parseInstrs toks acc = (is, tr) →
      acc.map Tok.opnd ++ toks = is.flatMap Instr.toks ++ tr.map Tok.opnd := by
  induction toks with
  | nil =>
    intro acc is tr h
    simp only [parseInstrs, Prod.mk.injEq] at h
    obtain ⟨rfl, rfl⟩ := h
    simp
  | cons t rest ih =>
    intro acc is tr h
    cases t with
    | opnd o =>
      simp only [parseInstrs] at h
      have := ih (acc ++ [o]) is tr h
      simpa using this
    | op o =>
      simp only [parseInstrs] at h
      rcases hp : parseInstrs rest [] with ⟨is', tr'⟩
      rw [hp] at h
      simp only [Prod.mk.injEq] at h
      obtain ⟨rfl, rfl⟩ := h
      have := ih [] is' tr' hp
      simp only [List.map_nil, List.nil_append] at this
      simp [List.flatMap_cons, Instr.toks, this]

theorem parseInstrs_sound (toks : List Tok) :
    ∀ (acc : List Obj) (is : List Instr), parseInstrs toks acc = (is, []) →
      acc.map Tok.opnd ++ toks = is.flatMap Instr.toks := by
  intro acc is h
  simpa using parseInstrs_sound' toks acc is [] h

theorem R_init (ctm : Matrix) (res : Res) : R env (MState.init ctm res) ⟨GS.init ctm, [], none, res⟩ := by
  refine ⟨?_, rfl, trivial, trivial, rfl, rfl, rfl⟩
  exact { ctm := rfl, fill := rfl, stroke := rfl, ncs := (by decide : csDefault.2 = 1), scs := (by decide : csDefault.2 = 1), fillN := by simp [GS.init],
          strokeN := by simp [GS.init], tc := rfl, tw := rfl, th := rfl, tl := by simp [MState.init, TextState.init, GS.init],
          tfs := rfl, trise := rfl, font := trivial }

/-- A content stream of the domain run from related initial states. -/
theorem stream_sim (hrf : Agree env rfM rfS) (m0 : MState) (gs : GS) (res : Res) (is : List Instr) (gl : List Glyph)
    (hR : R env m0 ⟨gs, [], none, res⟩) (h : runStream env rfS gs res is = some gl) :
    (execToks env rfM m0 (is.flatMap Instr.toks)).2 = gl ∧
      (execToks env rfM m0 (is.flatMap Instr.toks)).1.fuelOk = true := by
  unfold runStream at h
  split at h
  · simp at h
  · rename_i s' gl' hrun
    split at h
    · simp only [Option.some.injEq] at h
      subst h
      obtain ⟨hR', hg⟩ := run_sim env rfM rfS hrf is _ _ s' gl' hR hrun
      exact ⟨hg, hR'.fuel⟩
    · simp at h

end

/-- The interpreter's form runner and the text model's agree at every nesting budget, whatever
graphics state the form inherits. -/
theorem runForm_agree (env : Env) : ∀ fuel : Nat, Agree env (Interp.runForm env fuel) (TextModel.runForm env fuel)
  | 0 => by
    intro fm m0 gs res gl _ h
    simp [TextModel.runForm] at h
  | fuel + 1 => by
    intro fm m0 gs res gl hR h
    simp only [TextModel.runForm] at h
    split at h
    · rename_i is hparse
      have hsound := parseInstrs_sound fm.body [] is hparse
      simp only [List.map_nil, List.nil_append] at hsound
      obtain ⟨hg, hf⟩ := stream_sim env (Interp.runForm env fuel) (TextModel.runForm env fuel)
        (runForm_agree env fuel) m0 gs res is gl hR h
      simp only [Interp.runForm, hsound]
      rw [← hg, ← hf]
    · simp at h

/-! ### the nesting budget -/

/-- `rf2` gives a meaning to at least the forms `rf1` gives a meaning to, and the same one. -/
def RfLe (rf1 rf2 : Form → GS → Res → Option (List Glyph)) : Prop :=
  ∀ fm gs res gl, rf1 fm gs res = some gl → rf2 fm gs res = some gl

theorem apply_mono (env : Env) {rf1 rf2 : Form → GS → Res → Option (List Glyph)} (h : RfLe rf1 rf2) (s : SState)
    (op : Op) (args : List Obj) (r : SState × List Glyph) :
    apply env rf1 s op args = some r → apply env rf2 s op args = some r := by
  unfold apply
  split <;> try exact id
  rename_i n
  intro hh
  split at hh
  · simp at hh
  · rename_i i hi
    split at hh
    · simp at hh
    · rename_i fm hfm
      split at hh
      · simp at hh
      · rename_i hact
        simp only [hact, if_false] at hh ⊢
        split at hh
        · simp at hh
        · rename_i gl hrun
          simp only [h _ _ _ _ hrun]
          exact hh

theorem step_mono (env : Env) {rf1 rf2 : Form → GS → Res → Option (List Glyph)} (h : RfLe rf1 rf2) (s : SState)
    (i : Instr) (r : SState × List Glyph) : step env rf1 s i = some r → step env rf2 s i = some r := by
  unfold step
  split
  · exact id
  · split
    · exact id
    · split
      · exact id
      · split
        · exact id
        · split
          · exact id
          · exact apply_mono env h s i.op i.args r

theorem runInstrs_mono (env : Env) {rf1 rf2 : Form → GS → Res → Option (List Glyph)} (h : RfLe rf1 rf2)
    (is : List Instr) : ∀ (s : SState) (r : SState × List Glyph),
    runInstrs env rf1 s is = some r → runInstrs env rf2 s is = some r := by
  induction is with
  | nil => intro s r hh; simpa [runInstrs] using hh
  | cons i rest ih =>
    intro s r hh
    simp only [runInstrs] at hh ⊢
    split at hh
    · simp at hh
    · rename_i s1 g1 h1
      rw [step_mono env h s i _ h1]
      simp only
      split at hh
      · simp at hh
      · rename_i s2 g2 h2
        rw [ih s1 _ h2]
        exact hh

/-- Raising the nesting budget never changes a result already obtained: the budget is only a
bound on the depth of `Do`, not part of the meaning. -/
theorem runForm_fuel_mono (env : Env) : ∀ fuel : Nat, RfLe (TextModel.runForm env fuel) (TextModel.runForm env (fuel + 1))
  | 0 => by intro fm gs res gl h; simp [TextModel.runForm] at h
  | fuel + 1 => by
    intro fm gs res gl h
    have ih := runForm_fuel_mono env fuel
    rw [TextModel.runForm] at h ⊢
    split at h
    · rename_i is hparse
      unfold runStream at h ⊢
      split at h
      · simp at h
      · rename_i s' gl' hrun
        rw [runInstrs_mono env ih is _ _ hrun]
        exact h
    · simp at h

/-! ### a stated budget suffices -/

theorem doShow_inv (env : Env) (st : MState) (seq : List Elem) :
    (doShow env st seq).1.res = st.res ∧ (doShow env st seq).1.fuelOk = st.fuelOk := by
  unfold doShow
  split <;> simp

theorem doTstar_inv (st : MState) : (doTstar st).res = st.res ∧ (doTstar st).fuelOk = st.fuelOk := by
  unfold doTstar; simp

theorem doSetColor_inv (st : MState) (b : Bool) :
    (doSetColor st b).res = st.res ∧ (doSetColor st b).fuelOk = st.fuelOk := by
  unfold doSetColor
  cases b <;> simp only [Bool.false_eq_true, if_false, if_true] <;> repeat' split
  all_goals exact ⟨rfl, rfl⟩

/-- No `do_*` method changes the resources; only `Do` can clear the budget flag, and only when
the form it runs does. -/
theorem call_inv (env : Env) (rf : Form → MState → List Glyph × Bool) (st : MState) (op : Op) (args : List Obj)
    (hrf : ∀ j fm, env.forms[j]? = some fm → st.res.active.contains j = false →
      ∀ st0 : MState, st0.fuelOk = true → st0.res.active = j :: st.res.active → (rf fm st0).2 = true)
    (hf : st.fuelOk = true) :
    (call env rf st op args).1.res = st.res ∧ (call env rf st op args).1.fuelOk = true := by
  unfold call
  split
  all_goals try (simp [hf]; done)
  all_goals try ((repeat' split) <;>
    simp [hf, (doShow_inv env _ _).1, (doShow_inv env _ _).2, (doTstar_inv _).1, (doTstar_inv _).2,
      (doSetColor_inv _ _).1, (doSetColor_inv _ _).2] <;> done)
  -- `Do`
  rename_i n
  split
  · rename_i nm
    split
    · simp [hf]
    · rename_i j hj
      split
      · simp [hf]
      · rename_i fm hfm
        split
        · simp [hf]
        · rename_i hact
          have := hrf j fm hfm (by simpa using hact)
            { MState.init (mult_matrix (fm.matrix.getD MATRIX_IDENTITY) st.ctm)
                { fm.res.getD st.res with active := j :: st.res.active } with
              ts := st.ts, scolor := st.scolor, ncolor := st.ncolor, scs := st.scs, ncs := st.ncs } rfl rfl
          simp [hf, this]
  · simp [hf]

theorem execTok_inv (env : Env) (rf : Form → MState → List Glyph × Bool) (st : MState) (t : Tok)
    (hrf : ∀ j fm, env.forms[j]? = some fm → st.res.active.contains j = false →
      ∀ st0 : MState, st0.fuelOk = true → st0.res.active = j :: st.res.active → (rf fm st0).2 = true)
    (hf : st.fuelOk = true) :
    (execTok env rf st t).1.res = st.res ∧ (execTok env rf st t).1.fuelOk = true := by
  cases t with
  | opnd o => cases o <;> simp [execTok, hf]
  | op o =>
    simp only [execTok]
    split
    · simp [hf]
    · exact call_inv env rf st o [] hrf hf
    · split
      · exact call_inv env rf { st with argstack := _ } o _ hrf hf
      · simp [hf]

theorem execToks_inv (env : Env) (rf : Form → MState → List Glyph × Bool) (res : Res)
    (hrf : ∀ j fm, env.forms[j]? = some fm → res.active.contains j = false →
      ∀ st0 : MState, st0.fuelOk = true → st0.res.active = j :: res.active → (rf fm st0).2 = true)
    (toks : List Tok) : ∀ st : MState, st.res = res → st.fuelOk = true →
      (execToks env rf st toks).1.res = res ∧ (execToks env rf st toks).1.fuelOk = true := by
  induction toks with
  | nil => intro st h1 h2; simp [execToks, h1, h2]
  | cons t rest ih =>
    intro st h1 h2
    simp only [execToks]
    obtain ⟨h3, h4⟩ := execTok_inv env rf st t (by rw [h1]; exact hrf) h2
    exact ih _ (by rw [h3, h1]) h4

/-- Forms of the table that are not being painted: the nesting that is still possible. -/
def freeForms (env : Env) (active : List Nat) : Nat :=
  ((List.range env.forms.length).filter (fun j => !active.contains j)).length

theorem filter_length_lt (l : List Nat) (p q : Nat → Bool) (i : Nat) (hi : i ∈ l) (hp : p i = true) (hq : q i = false)
    (hqp : ∀ x, q x = true → p x = true) : (l.filter q).length < (l.filter p).length := by
  induction l with
  | nil => simp at hi
  | cons a r ih =>
    have hle : ∀ r : List Nat, (r.filter q).length ≤ (r.filter p).length := by
      intro r
      induction r with
      | nil => simp
      | cons b t iht =>
        simp only [List.filter_cons]
        by_cases hb : q b = true
        · simp [hb, hqp b hb]; omega
        · simp only [hb, Bool.false_eq_true, if_false]
          split
          · simp only [List.length_cons]; omega
          · exact iht
    simp only [List.filter_cons]
    rcases List.mem_cons.mp hi with rfl | hmem
    · simp only [hq, hp, Bool.false_eq_true, if_false, if_true, List.length_cons]
      have := hle r
      omega
    · have := ih hmem
      by_cases ha : q a = true
      · simp [ha, hqp a ha]; omega
      · simp only [ha, Bool.false_eq_true, if_false]
        split
        · simp only [List.length_cons]; omega
        · exact this

theorem freeForms_lt (env : Env) (active : List Nat) (j : Nat) (hj : j < env.forms.length)
    (hact : active.contains j = false) : freeForms env (j :: active) < freeForms env active := by
  unfold freeForms
  have hact' : ¬ j ∈ active := by simpa using hact
  refine filter_length_lt _ _ _ j (List.mem_range.mpr hj) (by simp [hact']) (by simp) ?_
  intro x hx
  simp only [Bool.not_eq_true', List.contains_cons, Bool.or_eq_false_iff] at hx
  simpa using hx.2

/-- A form never exhausts a budget larger than the number of forms not yet being painted: the
`active_forms` guard bounds the nesting by the size of the form table, whatever the forms invoke. -/
theorem runForm_budget (env : Env) : ∀ (n : Nat) (fm : Form) (m0 : MState) (fuel : Nat),
    freeForms env m0.res.active ≤ n → n < fuel → m0.fuelOk = true → (Interp.runForm env fuel fm m0).2 = true := by
  intro n
  induction n with
  | zero =>
    intro fm m0 fuel hfree hlt hf
    cases fuel with
    | zero => omega
    | succ k =>
      simp only [Interp.runForm]
      refine (execToks_inv env (Interp.runForm env k) m0.res ?_ fm.body m0 rfl hf).2
      intro j fm' hfm' hact st0 _ _
      have hjl : j < env.forms.length := by
        rcases Nat.lt_or_ge j env.forms.length with h | h
        · exact h
        · rw [List.getElem?_eq_none h] at hfm'; simp at hfm'
      have := freeForms_lt env m0.res.active j hjl hact
      omega
  | succ n ih =>
    intro fm m0 fuel hfree hlt hf
    cases fuel with
    | zero => omega
    | succ k =>
      simp only [Interp.runForm]
      refine (execToks_inv env (Interp.runForm env k) m0.res ?_ fm.body m0 rfl hf).2
      intro j fm' hfm' hact st0 hst0 hres0
      have hjl : j < env.forms.length := by
        rcases Nat.lt_or_ge j env.forms.length with h | h
        · exact h
        · rw [List.getElem?_eq_none h] at hfm'; simp at hfm'
      have := freeForms_lt env m0.res.active j hjl hact
      exact ih fm' st0 k (by rw [hres0]; omega) (by omega) hst0

end PdfVerif.Interp
