/-
C05 — helper lemmas about the interpreter model and the text-model specification.
-/
import PdfVerif.Model.Interp
import PdfVerif.Spec.TextModel

namespace PdfVerif.Interp
open PdfVerif PdfVerif.Content PdfVerif.Gen.Utils PdfVerif.Gen.Interp

theorem execToks_append (env : Env) (rf : Form → Matrix → Res → List Glyph × Bool) (st : MState) (a b : List Tok) :
    execToks env rf st (a ++ b) =
      ((execToks env rf (execToks env rf st a).1 b).1,
       (execToks env rf st a).2 ++ (execToks env rf (execToks env rf st a).1 b).2) := by
  induction a generalizing st with
  | nil => simp [execToks]
  | cons t rest ih =>
    simp only [List.cons_append, execToks]
    rw [ih]
    simp [List.append_assoc]

end PdfVerif.Interp
