import PdfVerif.Lemmas.LayoutSpec
namespace PdfVerif.Layout
open PdfVerif PdfVerif.Gen.Layout
open PdfVerif.Plane (WfRect bboxOf overlaps)
open PdfVerif.Props.C20 (Reach plane_find plane_find_order)

/-! ## group_textlines commutes with scaling -/

def scaleBox (s : Rat) (b : Box) : Box :=
  { bid := b.bid, vertical := b.vertical, lines := b.lines.map (scaleLine s), bb := scaleBB s b.bb, index := b.index }

theorem reach_lines (pageBB : BB) (hp : pageBB.x0 ≤ pageBB.x1 ∧ pageBB.y0 ≤ pageBB.y1) (lines : List Line)
    (hne : ∀ l ∈ lines, l.isEmpty = false) :
    Reach (mkPlane pageBB (lines.zipIdx.map fun (x : Line × Nat) => x.1.pobj x.2))
      (lines.zipIdx.map fun (x : Line × Nat) => x.1.pobj x.2) := by
  apply reach_mkPlane pageBB _ hp
  · intro o ho
    simp only [List.mem_map] at ho
    obtain ⟨x, hx, rfl⟩ := ho
    have hm := List.mem_zipIdx hx
    have hxl : x.1 ∈ lines := by rw [hm.2.2]; exact List.getElem_mem _
    have := pos_of_not_empty (hne x.1 hxl)
    simp only [WfRect, bboxOf, Line.pobj]
    constructor <;> linarith [this.1, this.2]
  · rw [lines_ids]; exact List.nodup_range'

theorem wf_neighborQuery (ratio : Rat) (hr : 0 ≤ ratio) (l : Line) (hl : l.isEmpty = false) :
    WfRect (neighborQuery ratio l) := by
  have hpos := pos_of_not_empty hl
  have hd : 0 ≤ ratio * l.bb.height ∧ 0 ≤ ratio * l.bb.width := by
    constructor <;> apply mul_nonneg hr <;> simp only [BB.height, BB.width] <;> linarith [hpos.1, hpos.2]
  unfold neighborQuery
  split
  · simp only [neighbor_query_v, WfRect]; constructor <;> linarith [hpos.1, hpos.2, hd.1, hd.2]
  · simp only [neighbor_query_h, WfRect]; constructor <;> linarith [hpos.1, hpos.2, hd.1, hd.2]

/-- `find_neighbors` lists the neighbours in the order of the lines (after the repair of `Plane.find`). -/
theorem neighbors_sorted (ratio : Rat) (hr : 0 ≤ ratio) (pageBB : BB)
    (hp : pageBB.x0 ≤ pageBB.x1 ∧ pageBB.y0 ≤ pageBB.y1) (lines : List Line)
    (hne : ∀ l ∈ lines, l.isEmpty = false) (l : Line) (hl : l ∈ lines) :
    (neighbors ratio (mkPlane pageBB (lines.zipIdx.map fun (x : Line × Nat) => x.1.pobj x.2)) lines l).Pairwise (· < ·) := by
  have hreach := reach_lines pageBB hp lines hne
  have hq := wf_neighborQuery ratio hr l (hne l hl)
  have hiter := PdfVerif.Props.C20.plane_iter hreach
  unfold neighbors
  rw [plane_find_order hreach _ hq]
  unfold Plane.findSpec
  rw [hiter]
  refine List.Pairwise.sublist (l₂ := (lines.zipIdx.map fun (x : Line × Nat) => x.1.pobj x.2).map (·.id)) ?_ ?_
  · exact List.Sublist.map _ ((List.filter_sublist).trans List.filter_sublist)
  · rw [lines_ids]
    exact List.pairwise_lt_range'

theorem neighbors_scale_eq {s : Rat} (hs : 0 < s) (ratio : Rat) (pageBB : BB)
    (hp : pageBB.x0 ≤ pageBB.x1 ∧ pageBB.y0 ≤ pageBB.y1) (lines : List Line)
    (hne : ∀ l ∈ lines, l.isEmpty = false) (l : Line) (hl : l ∈ lines) :
    neighbors ratio (mkPlane (scaleBB s pageBB)
          (((lines.map (scaleLine s)).zipIdx).map fun (x : Line × Nat) => x.1.pobj x.2))
        (lines.map (scaleLine s)) (scaleLine s l)
    = neighbors ratio (mkPlane pageBB (lines.zipIdx.map fun (x : Line × Nat) => x.1.pobj x.2)) lines l := by
  have hne' : ∀ l' ∈ lines.map (scaleLine s), l'.isEmpty = false := by
    intro l' hl'
    simp only [List.mem_map] at hl'
    obtain ⟨l0, hl0, rfl⟩ := hl'
    rw [isEmpty_scale hs]; exact hne l0 hl0
  by_cases hr : 0 ≤ ratio
  · have hp' : (scaleBB s pageBB).x0 ≤ (scaleBB s pageBB).x1 ∧ (scaleBB s pageBB).y0 ≤ (scaleBB s pageBB).y1 := by
      simp only [Spec.scaleBB, le_scale hs]; exact hp
    have h1 := neighbors_sorted ratio hr _ hp' _ hne' _ (List.mem_map_of_mem hl)
    have h2 := neighbors_sorted ratio hr _ hp _ hne _ hl
    refine List.Perm.eq_of_pairwise (le := (· < ·)) ?_ h1 h2 ?_
    · intro a b _ _ h3 h4; omega
    · rw [List.perm_ext_iff_of_nodup (h1.imp (fun h => Nat.ne_of_lt h)) (h2.imp (fun h => Nat.ne_of_lt h))]
      intro j
      exact neighbors_scale hs ratio hr pageBB hp lines hne l hl j
  · rw [neighbors_nil_of_neg ratio (not_le.mp hr) _ _ _ (hne' _ (List.mem_map_of_mem hl)),
      neighbors_nil_of_neg ratio (not_le.mp hr) _ _ _ (hne l hl)]

theorem bbOfList_scale {s : Rat} (hs : 0 < s) (l : List BB) : bbOfList (l.map (scaleBB s)) = scaleBB s (bbOfList l) := by
  cases l with
  | nil => simp [bbOfList, Spec.scaleBB]
  | cons b rest =>
    simp only [bbOfList, List.map_cons]
    induction rest generalizing b with
    | nil => rfl
    | cons c r ih =>
      simp only [List.map_cons, List.foldl_cons]
      rw [union_scale hs]
      exact ih (b.union c)

theorem gtlDict_congr (f g : Nat → List Nat) : ∀ (idx : List Nat) (d : BoxDict), (∀ i ∈ idx, f i = g i) →
    gtlDict f d idx = gtlDict g d idx := by
  intro idx
  induction idx with
  | nil => intro d _; rfl
  | cons i rest ih =>
    intro d h
    simp only [gtlDict]
    rw [h i List.mem_cons_self]
    exact ih _ (fun j hj => h j (List.mem_cons_of_mem _ hj))

/-- **group_textlines commutes with scaling** (any `s > 0`, any parameters, non-empty lines, well-formed
page): same boxes, same member lines in the same order, scaled boxes. -/
theorem groupTextlines_scale {s : Rat} (hs : 0 < s) (p : LAParams) (pageBB : BB)
    (hp : pageBB.x0 ≤ pageBB.x1 ∧ pageBB.y0 ≤ pageBB.y1) (lines : List Line)
    (hne : ∀ l ∈ lines, l.isEmpty = false) :
    groupTextlines p (scaleBB s pageBB) (lines.map (scaleLine s)) = (groupTextlines p pageBB lines).map (scaleBox s) := by
  unfold groupTextlines
  simp only [List.length_map]
  have hnb : ∀ i ∈ List.range lines.length,
      nbOfLines p (scaleBB s pageBB) (lines.map (scaleLine s)) i = nbOfLines p pageBB lines i := by
    intro i hi
    have hi' : i < lines.length := List.mem_range.mp hi
    simp only [nbOfLines, List.getElem?_map, List.getElem?_eq_getElem hi', Option.map_some]
    exact neighbors_scale_eq hs _ pageBB hp lines hne _ (List.getElem_mem hi')
  rw [gtlDict_congr _ _ (List.range lines.length) [] hnb]
  rw [List.filter_map, List.filter_map, List.map_map]
  have hbox : ∀ t : TBox, mkBox (lines.map (scaleLine s)) (boxVertical (lines.map (scaleLine s)) t) t
      = scaleBox s (mkBox lines (boxVertical lines t) t) := by
    intro t
    have hv : boxVertical (lines.map (scaleLine s)) t = boxVertical lines t := by
      simp only [boxVertical, List.getElem?_map]
      cases lines[t.bid]? <;> rfl
    have hl : t.members.filterMap (fun i => (lines.map (scaleLine s))[i]?) = (t.members.filterMap (lines[·]?)).map (scaleLine s) := by
      rw [List.map_filterMap]
      apply List.filterMap_congr
      intro i _
      simp [List.getElem?_map]
    simp only [mkBox, scaleBox, hv, hl, List.map_map]
    congr 1
    rw [← bbOfList_scale hs, List.map_map]
    rfl
  have hemp : ∀ b : Box, (scaleBox s b).isEmpty = b.isEmpty := by
    intro b
    simp only [Box.isEmpty, scaleBox, List.isEmpty_map]
    congr 1
    exact is_empty_scale hs b.bb
  congr 1
  · funext t
    simp only [Function.comp, hbox]
  · apply List.filter_congr
    intro t _
    simp only [Function.comp, hbox, hemp]

/-! ## the whole analysis commutes with scaling (boxes_flow = None) -/

def scaleItem (s : Rat) : Item → Item
  | .ch g => .ch (scaleGlyph s g)
  | .other i => .other i

def scaleNode (s : Rat) : Node → Node
  | .leaf b => .leaf (scaleBox s b)
  | .grp t bb l r => .grp t (scaleBB s bb) (scaleNode s l) (scaleNode s r)

def scaleChild (s : Rat) : Child → Child
  | .box b => .box (scaleBox s b)
  | .other i => .other i
  | .line l => .line (scaleLine s l)
  | .glyph g => .glyph (scaleGlyph s g)

def scaleResult (s : Rat) (r : Result) : Result :=
  { children := r.children.map (scaleChild s), groups := r.groups.map (·.map (scaleNode s)), flags := r.flags }

theorem filterMap_glyph_scale (s : Rat) (items : List Item) :
    (items.map (scaleItem s)).filterMap Item.glyph? = (items.filterMap Item.glyph?).map (scaleGlyph s) := by
  induction items with
  | nil => rfl
  | cons it r ih => cases it <;> simp [scaleItem, Item.glyph?, List.filterMap_cons, ih]

theorem filterMap_other_scale (s : Rat) (items : List Item) :
    (items.map (scaleItem s)).filterMap Item.other? = items.filterMap Item.other? := by
  induction items with
  | nil => rfl
  | cons it r ih => cases it <;> simp [scaleItem, Item.other?, List.filterMap_cons, ih]

theorem analyze_scaleLine (s : Rat) (l : Line) : (scaleLine s l).analyze = scaleLine s l.analyze := by
  simp [Line.analyze, scaleLine, scaleElem]

section
variable {s : Rat} (hs : 0 < s)
include hs

theorem box_key_scale (b : BB) : box_key_h (scaleBB s b) = s * box_key_h b ∧ box_key_v (scaleBB s b) = s * box_key_v b := by
  simp only [box_key_h, box_key_v, Spec.scaleBB]
  constructor <;> ring

theorem boxAnalyze_scale (b : Box) : (scaleBox s b).analyze = scaleBox s b.analyze := by
  simp only [Box.analyze, scaleBox, sortByKey, List.map_map]
  congr 1
  have hcomm : (Line.analyze ∘ scaleLine s) = (scaleLine s ∘ Line.analyze) := by
    funext l; exact analyze_scaleLine s l
  rw [hcomm, ← List.map_map]
  symm
  apply List.map_mergeSort
  intro a _ c _
  apply decide_eq_decide.mpr
  have ha : (scaleLine s a).bb = scaleBB s a.bb := rfl
  have hc : (scaleLine s c).bb = scaleBB s c.bb := rfl
  rw [ha, hc]
  by_cases hv : b.vertical = true
  · simp [hv, (box_key_scale hs _).2, le_scale hs]
  · simp [hv, (box_key_scale hs _).1, le_scale hs]

theorem tupleLe_scale (a b : Box) :
    tupleLe (getkey (scaleBox s a)) (getkey (scaleBox s b)) = tupleLe (getkey a) (getkey b) := by
  have e : ∀ x y : Rat, (s * x ≠ s * y) ↔ x ≠ y := by
    intro x y
    constructor
    · intro h hxy; exact h (by rw [hxy])
    · intro h hxy; exact h (mul_left_cancel₀ (ne_of_gt hs) hxy)
  have k : ∀ c : Box, getkey (scaleBox s c) = ((getkey c).1, s * (getkey c).2.1, s * (getkey c).2.2) := by
    intro c
    simp only [getkey, scaleBox]
    by_cases hv : c.vertical = true
    · simp only [hv, if_true, getkey_v, Spec.scaleBB]; refine Prod.ext rfl (Prod.ext ?_ ?_) <;> simp <;> try ring
    · simp only [hv, if_false, getkey_h, Spec.scaleBB]; refine Prod.ext rfl (Prod.ext ?_ rfl); simp <;> try ring
  simp only [tupleLe, k, e, lt_scale hs, le_scale hs]

theorem enumFrom_scale : ∀ (bs : List Box) (k : Nat), enumFrom k (bs.map (scaleBox s)) = (enumFrom k bs).map (scaleBox s)
  | [], _ => rfl
  | b :: r, k => by simp [enumFrom, enumFrom_scale r (k + 1), scaleBox]

theorem finalBoxes_none_scale {le : Cmp} (p : LAParams) (hbf : p.boxes_flow = none) (B : BB) (boxes : List Box) :
    finalBoxes le p (scaleBB s B) (boxes.map (scaleBox s))
      = ((finalBoxes le p B boxes).1.map (scaleBox s), none, {}) := by
  simp only [finalBoxes, hbf, List.map_map]
  have h1 : (Box.analyze ∘ scaleBox s) = (scaleBox s ∘ Box.analyze) := by
    funext b; exact boxAnalyze_scale hs b
  rw [h1, ← List.map_map, ← enumFrom_scale hs]
  congr 2
  symm
  apply List.map_mergeSort
  intro a _ b _
  exact (tupleLe_scale hs a b).symm

/-- **Scale invariance of the whole analysis when `boxes_flow` is `None`**: for every item list, every
other parameter, every factor `s > 0` and a well-formed page box, analysing the scaled page gives the
scaled result - same lines, same word spaces, same boxes with the same lines in the same order, same
numbering, same child order. -/
theorem analyze_none_scale {le : Cmp} (p : LAParams) (hbf : p.boxes_flow = none) (B : BB)
    (hp : B.x0 ≤ B.x1 ∧ B.y0 ≤ B.y1) (items : List Item) :
    analyze le p (scaleBB s B) (items.map (scaleItem s)) = scaleResult s (analyze le p B items) := by
  have hg := filterMap_glyph_scale s items
  have ho := filterMap_other_scale s items
  by_cases hempty : (items.filterMap Item.glyph?).isEmpty = true
  · have hempty' : ((items.map (scaleItem s)).filterMap Item.glyph?).isEmpty = true := by
      rw [hg]; simpa using hempty
    simp only [analyze, hempty, hempty', if_true, scaleResult, List.map_map, Option.map_none]
    congr 1
    apply List.map_congr_left
    intro it _
    cases it <;> rfl
  · have hE : (items.filterMap Item.glyph?).isEmpty = false := by simpa using hempty
    have hE' : ((items.filterMap Item.glyph?).map (scaleGlyph s)).isEmpty = false := by
      rw [List.isEmpty_map]; exact hE
    have hf1 : ∀ ls : List Line, (ls.map (scaleLine s)).filter Line.isEmpty = (ls.filter Line.isEmpty).map (scaleLine s) := by
      intro ls
      rw [List.filter_map]
      congr 1
      apply List.filter_congr
      intro l _
      simp [Function.comp, isEmpty_scale hs]
    have hf2 : ∀ ls : List Line, (ls.map (scaleLine s)).filter (fun l => !l.isEmpty)
        = (ls.filter (fun l => !l.isEmpty)).map (scaleLine s) := by
      intro ls
      rw [List.filter_map]
      congr 1
      apply List.filter_congr
      intro l _
      simp [Function.comp, isEmpty_scale hs]
    have hne : ∀ l ∈ (groupObjects p (items.filterMap Item.glyph?)).filter (fun l => !l.isEmpty), l.isEmpty = false := by
      intro l hl
      simpa using (List.mem_filter.mp hl).2
    have hfb : (finalBoxes le p B (groupTextlines p B ((groupObjects p (items.filterMap Item.glyph?)).filter (fun l => !l.isEmpty)))).2
        = (none, {}) := by
      simp [finalBoxes, hbf]
    unfold analyze
    rw [hg, ho]
    simp only [hE, hE', Bool.false_eq_true, if_false]
    rw [groupObjects_scale hs, hf1, hf2, groupTextlines_scale hs p B hp _ hne, finalBoxes_none_scale hs p hbf]
    simp only [scaleResult, hfb, List.map_append, List.map_map, Option.map_none]
    congr 1
    congr 1
    apply List.map_congr_left
    intro l _
    simp [Function.comp, analyze_scaleLine, scaleChild]

end

end PdfVerif.Layout
