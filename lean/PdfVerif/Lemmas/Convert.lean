/- C11 helper lemmas: sinks / codecs. -/
import PdfVerif.Spec.Xml

namespace PdfVerif.Convert

variable {σ : Type}

theorem encodePiece_append (c : Codec σ) (ig : Bool) (st : σ) (a b : Str) :
    c.encodePiece ig st (a ++ b) =
      match c.encodePiece ig st a with
      | some (st', x) =>
        match c.encodePiece ig st' b with
        | some (st'', y) => some (st'', x ++ y)
        | none => none
      | none => none := by
  induction a generalizing st with
  | nil =>
    simp only [List.nil_append, Codec.encodePiece]
    cases c.encodePiece ig st b with
    | none => rfl
    | some r => simp
  | cons ch rest ih =>
    simp only [List.cons_append, Codec.encodePiece]
    cases hs : c.step st ch with
    | none =>
      cases ig with
      | false => simp
      | true => simp [ih]
    | some r =>
      obtain ⟨st1, bs1⟩ := r
      simp only [ih]
      cases c.encodePiece ig st1 rest with
      | none => simp
      | some r2 =>
        obtain ⟨st2, bs2⟩ := r2
        simp only
        cases c.encodePiece ig st2 b with
        | none => simp
        | some r3 => simp

/-- Writing piece by piece through ONE incremental encoder = encoding the concatenation. -/
theorem sinkBinaryFrom_eq (c : Codec σ) (ig : Bool) (st : σ) (ws : List Str) :
    sinkBinaryFrom c ig st ws = (c.encodePiece ig st ws.flatten).map (·.2) := by
  induction ws generalizing st with
  | nil => simp [sinkBinaryFrom, Codec.encodePiece]
  | cons w ws ih =>
    simp only [sinkBinaryFrom, List.flatten_cons, encodePiece_append]
    cases c.encodePiece ig st w with
    | none => simp
    | some r =>
      obtain ⟨st1, bs1⟩ := r
      simp only [ih]
      cases c.encodePiece ig st1 ws.flatten with
      | none => simp
      | some r2 => simp

/-- When every character is representable the error policy is irrelevant. -/
theorem encodePiece_ignore (c : Codec σ) (st : σ) (s : Str) (r : σ × Bytes)
    (h : c.encodePiece false st s = some r) : c.encodePiece true st s = some r := by
  induction s generalizing st r with
  | nil => simpa [Codec.encodePiece] using h
  | cons ch rest ih =>
    simp only [Codec.encodePiece] at h ⊢
    cases hs : c.step st ch with
    | none => simp [hs] at h
    | some q =>
      obtain ⟨st1, bs1⟩ := q
      simp only [hs] at h ⊢
      cases h2 : c.encodePiece false st1 rest with
      | none => simp [h2] at h
      | some r2 =>
        rw [ih st1 r2 h2]
        simpa [h2] using h

end PdfVerif.Convert

/-! ### escaping -/

namespace PdfVerif.Xml
open PdfVerif.Convert

/-- per-character view of `attr` -/
def attrChar (c : Char) : Str := (encChar c).flatMap wspRef
/-- per-character view of `writeText` -/
def textChar (c : Char) : Str := (encChar c).flatMap crRef

theorem flatMap_enc (f : Char → Str) (s : Str) :
    (enc s).flatMap f = s.flatMap (fun c => (encChar c).flatMap f) := by
  induction s with
  | nil => rfl
  | cons c s ih => simp [enc, List.flatMap_cons, List.flatMap_append] at ih ⊢; exact ih

theorem attr_eq (strip : Bool) (s : Str) : attr strip s = (maybeStrip strip s).flatMap attrChar := by
  simp only [attr, flatMap_enc]; rfl

theorem writeText_eq (strip : Bool) (s : Str) : writeText strip s = (maybeStrip strip s).flatMap textChar := by
  simp only [writeText, flatMap_enc]; rfl

theorem unesc_attrChar (c : Char) (hc : isXmlChar c = true) (rest : Str) :
    unescGo true none (attrChar c ++ rest) = (unescGo true none rest).map (c :: ·) := by
  by_cases h1 : c = '&'
  · subst h1; simp [attrChar, encChar, wspRef, unescGo, decodeEntity]
  by_cases h2 : c = '<'
  · subst h2; simp [attrChar, encChar, wspRef, unescGo, decodeEntity]
  by_cases h3 : c = '>'
  · subst h3; simp [attrChar, encChar, wspRef, unescGo, decodeEntity]
  by_cases h4 : c = '"'
  · subst h4; simp [attrChar, encChar, wspRef, unescGo, decodeEntity]
  by_cases h5 : c = '\''
  · subst h5
    simp [attrChar, encChar, wspRef, unescGo, decodeEntity, parseNum, hexDigitVal, charOfRef, isXmlChar]
  by_cases h6 : c = '\t'
  · subst h6
    simp [attrChar, encChar, wspRef, unescGo, decodeEntity, parseNum, decDigitVal, charOfRef, isXmlChar]
  by_cases h7 : c = '\n'
  · subst h7
    simp [attrChar, encChar, wspRef, unescGo, decodeEntity, parseNum, decDigitVal, charOfRef, isXmlChar]
  by_cases h8 : c = '\r'
  · subst h8
    simp [attrChar, encChar, wspRef, unescGo, decodeEntity, parseNum, decDigitVal, charOfRef, isXmlChar]
  simp [attrChar, encChar, wspRef, unescGo, normLiteral, h1, h2, h3, h4, h5, h6, h7, h8, hc]

theorem unesc_textChar (c : Char) (hc : isXmlChar c = true) (rest : Str) :
    unescGo false none (textChar c ++ rest) = (unescGo false none rest).map (c :: ·) := by
  by_cases h1 : c = '&'
  · subst h1; simp [textChar, encChar, crRef, unescGo, decodeEntity]
  by_cases h2 : c = '<'
  · subst h2; simp [textChar, encChar, crRef, unescGo, decodeEntity]
  by_cases h3 : c = '>'
  · subst h3; simp [textChar, encChar, crRef, unescGo, decodeEntity]
  by_cases h4 : c = '"'
  · subst h4; simp [textChar, encChar, crRef, unescGo, decodeEntity]
  by_cases h5 : c = '\''
  · subst h5
    simp [textChar, encChar, crRef, unescGo, decodeEntity, parseNum, hexDigitVal, charOfRef, isXmlChar]
  by_cases h8 : c = '\r'
  · subst h8
    simp [textChar, encChar, crRef, unescGo, decodeEntity, parseNum, decDigitVal, charOfRef, isXmlChar]
  simp [textChar, encChar, crRef, unescGo, normLiteral, h1, h2, h3, h4, h5, h8, hc]

theorem unesc_flatMap_attrChar (s : Str) (hs : ∀ c ∈ s, isXmlChar c = true) (rest : Str) :
    unescGo true none (s.flatMap attrChar ++ rest) = (unescGo true none rest).map (s ++ ·) := by
  induction s with
  | nil => simp
  | cons c s ih =>
    have hc := hs c (by simp)
    have ih' := ih (fun d hd => hs d (by simp [hd]))
    simp only [List.flatMap_cons, List.append_assoc, unesc_attrChar c hc, ih']
    cases unescGo true none rest <;> simp

theorem unesc_flatMap_textChar (s : Str) (hs : ∀ c ∈ s, isXmlChar c = true) (rest : Str) :
    unescGo false none (s.flatMap textChar ++ rest) = (unescGo false none rest).map (s ++ ·) := by
  induction s with
  | nil => simp
  | cons c s ih =>
    have hc := hs c (by simp)
    have ih' := ih (fun d hd => hs d (by simp [hd]))
    simp only [List.flatMap_cons, List.append_assoc, unesc_textChar c hc, ih']
    cases unescGo false none rest <;> simp

/-! the escaping layer alone: invertible on EVERY string (no `isXmlChar` hypothesis) -/

theorem unescAny_attrChar (c : Char) (rest : Str) :
    unescAnyGo none (attrChar c ++ rest) = (unescAnyGo none rest).map (c :: ·) := by
  by_cases h1 : c = '&'
  · subst h1; simp [attrChar, encChar, wspRef, unescAnyGo, decodeEntity]
  by_cases h2 : c = '<'
  · subst h2; simp [attrChar, encChar, wspRef, unescAnyGo, decodeEntity]
  by_cases h3 : c = '>'
  · subst h3; simp [attrChar, encChar, wspRef, unescAnyGo, decodeEntity]
  by_cases h4 : c = '"'
  · subst h4; simp [attrChar, encChar, wspRef, unescAnyGo, decodeEntity]
  by_cases h5 : c = '\''
  · subst h5
    simp [attrChar, encChar, wspRef, unescAnyGo, decodeEntity, parseNum, hexDigitVal, charOfRef, isXmlChar]
  by_cases h6 : c = '\t'
  · subst h6
    simp [attrChar, encChar, wspRef, unescAnyGo, decodeEntity, parseNum, decDigitVal, charOfRef, isXmlChar]
  by_cases h7 : c = '\n'
  · subst h7
    simp [attrChar, encChar, wspRef, unescAnyGo, decodeEntity, parseNum, decDigitVal, charOfRef, isXmlChar]
  by_cases h8 : c = '\r'
  · subst h8
    simp [attrChar, encChar, wspRef, unescAnyGo, decodeEntity, parseNum, decDigitVal, charOfRef, isXmlChar]
  simp [attrChar, encChar, wspRef, unescAnyGo, h1, h2, h3, h4, h5, h6, h7, h8]

theorem unescAny_textChar (c : Char) (rest : Str) :
    unescAnyGo none (textChar c ++ rest) = (unescAnyGo none rest).map (c :: ·) := by
  by_cases h1 : c = '&'
  · subst h1; simp [textChar, encChar, crRef, unescAnyGo, decodeEntity]
  by_cases h2 : c = '<'
  · subst h2; simp [textChar, encChar, crRef, unescAnyGo, decodeEntity]
  by_cases h3 : c = '>'
  · subst h3; simp [textChar, encChar, crRef, unescAnyGo, decodeEntity]
  by_cases h4 : c = '"'
  · subst h4; simp [textChar, encChar, crRef, unescAnyGo, decodeEntity]
  by_cases h5 : c = '\''
  · subst h5
    simp [textChar, encChar, crRef, unescAnyGo, decodeEntity, parseNum, hexDigitVal, charOfRef, isXmlChar]
  by_cases h8 : c = '\r'
  · subst h8
    simp [textChar, encChar, crRef, unescAnyGo, decodeEntity, parseNum, decDigitVal, charOfRef, isXmlChar]
  simp [textChar, encChar, crRef, unescAnyGo, h1, h2, h3, h4, h5, h8]

theorem unescAny_encChar (c : Char) (rest : Str) :
    unescAnyGo none (encChar c ++ rest) = (unescAnyGo none rest).map (c :: ·) := by
  by_cases h1 : c = '&'
  · subst h1; simp [encChar, unescAnyGo, decodeEntity]
  by_cases h2 : c = '<'
  · subst h2; simp [encChar, unescAnyGo, decodeEntity]
  by_cases h3 : c = '>'
  · subst h3; simp [encChar, unescAnyGo, decodeEntity]
  by_cases h4 : c = '"'
  · subst h4; simp [encChar, unescAnyGo, decodeEntity]
  by_cases h5 : c = '\''
  · subst h5
    simp [encChar, unescAnyGo, decodeEntity, parseNum, hexDigitVal, charOfRef, isXmlChar]
  simp [encChar, unescAnyGo, h1, h2, h3, h4, h5]

theorem unescAny_flatMap (f : Char → Str)
    (hf : ∀ c rest, unescAnyGo none (f c ++ rest) = (unescAnyGo none rest).map (c :: ·)) (s : Str) :
    unescAnyGo none (s.flatMap f) = some s := by
  induction s with
  | nil => simp [unescAnyGo]
  | cons c s ih => simp only [List.flatMap_cons, hf, ih, Option.map_some]

/-- characters that need no escaping in either position and are not touched by normalisation -/
def plainChar (c : Char) : Bool :=
  isXmlChar c && c != '&' && c != '<' && c != '"' && c != '\t' && c != '\n' && c != '\r'

theorem unesc_plain (a : Bool) (s : Str) (hs : ∀ c ∈ s, plainChar c = true) :
    unescGo a none s = some s := by
  induction s with
  | nil => simp [unescGo]
  | cons c s ih =>
    have hc := hs c (by simp)
    have ih' := ih (fun d hd => hs d (by simp [hd]))
    simp [plainChar] at hc
    obtain ⟨⟨⟨⟨⟨⟨h0, h1⟩, h2⟩, h3⟩, h4⟩, h5⟩, h6⟩ := hc
    cases a <;> simp [unescGo, normLiteral, h0, h1, h2, h4, h5, h6, ih']

end PdfVerif.Xml

namespace PdfVerif.Xml
open PdfVerif.Convert

theorem encChar_safe (a c : Char) (h : c ∈ encChar a) : c ≠ '<' ∧ c ≠ '>' ∧ c ≠ '"' ∧ c ≠ '\'' := by
  unfold encChar at h
  split at h
  · simp at h; rcases h with rfl | rfl | rfl | rfl | rfl <;> decide
  split at h
  · simp at h; rcases h with rfl | rfl | rfl | rfl <;> decide
  split at h
  · simp at h; rcases h with rfl | rfl | rfl | rfl <;> decide
  split at h
  · simp at h; rcases h with rfl | rfl | rfl | rfl | rfl | rfl <;> decide
  split at h
  · simp at h; rcases h with rfl | rfl | rfl | rfl | rfl | rfl <;> decide
  · simp at h; subst h; refine ⟨?_, ?_, ?_, ?_⟩ <;> assumption

theorem wspRef_safe (a c : Char) (h : c ∈ wspRef a) (ha : a ≠ '<' ∧ a ≠ '"') :
    c ≠ '<' ∧ c ≠ '"' ∧ c ≠ '\t' ∧ c ≠ '\n' ∧ c ≠ '\r' := by
  unfold wspRef at h
  split at h
  · simp at h; rcases h with rfl | rfl | rfl | rfl <;> decide
  split at h
  · simp at h; rcases h with rfl | rfl | rfl | rfl | rfl <;> decide
  split at h
  · simp at h; rcases h with rfl | rfl | rfl | rfl | rfl <;> decide
  · simp at h; subst h; exact ⟨ha.1, ha.2, by assumption, by assumption, by assumption⟩

theorem crRef_safe (a c : Char) (h : c ∈ crRef a) (ha : a ≠ '<') : c ≠ '<' ∧ c ≠ '\r' := by
  unfold crRef at h
  split at h
  · simp at h; rcases h with rfl | rfl | rfl | rfl | rfl <;> decide
  · simp at h; subst h; exact ⟨ha, by assumption⟩

theorem enc_safe (s : Str) (c : Char) (h : c ∈ enc s) : c ≠ '<' ∧ c ≠ '>' ∧ c ≠ '"' ∧ c ≠ '\'' := by
  simp only [enc, List.mem_flatMap] at h
  obtain ⟨a, _, hc⟩ := h
  exact encChar_safe a c hc

theorem attr_safe (strip : Bool) (s : Str) (c : Char) (h : c ∈ attr strip s) :
    c ≠ '<' ∧ c ≠ '"' ∧ c ≠ '\t' ∧ c ≠ '\n' ∧ c ≠ '\r' := by
  simp only [attr, List.mem_flatMap] at h
  obtain ⟨a, ha, hc⟩ := h
  have := enc_safe _ a ha
  exact wspRef_safe a c hc ⟨this.1, this.2.2.1⟩

theorem writeText_safe (strip : Bool) (s : Str) (c : Char) (h : c ∈ writeText strip s) : c ≠ '<' ∧ c ≠ '\r' := by
  simp only [writeText, List.mem_flatMap] at h
  obtain ⟨a, ha, hc⟩ := h
  exact crRef_safe a c hc (enc_safe _ a ha).1

theorem textChar_of_ne_cr (c : Char) (h : c ≠ '\r') : textChar c = encChar c := by
  unfold textChar encChar
  split
  · simp [crRef]
  split
  · simp [crRef]
  split
  · simp [crRef]
  split
  · simp [crRef]
  split
  · simp [crRef]
  · simp [crRef, h]

end PdfVerif.Xml
