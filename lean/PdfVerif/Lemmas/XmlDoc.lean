/- C11 helper lemmas: assembling the reader's result over a whole hierarchy. -/
import PdfVerif.Lemmas.XmlLex

namespace PdfVerif.Xml
open PdfVerif.Convert

def pushK (ns : List Node) (f : Frame) : Frame := { f with kids := f.kids ++ ns }

theorem pushK_nil (f : Frame) : pushK [] f = f := by cases f; simp [pushK]
theorem pushK_pushK (a b : List Node) (f : Frame) : pushK b (pushK a f) = pushK (a ++ b) f := by
  cases f; simp [pushK]

theorem unescToks_append (a b : List Tok) :
    unescToks (a ++ b) = match unescToks a, unescToks b with
      | some x, some y => some (x ++ y)
      | _, _ => none := by
  induction a with
  | nil => cases h : unescToks b <;> simp [unescToks, h]
  | cons t a ih =>
    simp only [List.cons_append, unescToks, ih]
    cases unescTok t <;> cases unescToks a <;> cases unescToks b <;> simp

/-- The writes `w` render a well-formed token sequence whose construction appends `ns` to the open element. -/
def Renders (w : Str) (ns : List Node) : Prop :=
  ∃ raw toks, w = raw.flatMap renderTok ∧ (∀ t ∈ raw, TokOk t) ∧ unescToks raw = some toks ∧
    ∀ rest f fs, build (toks ++ rest) (f :: fs) = build rest (pushK ns f :: fs)

theorem renders_nil : Renders [] [] :=
  ⟨[], [], rfl, by simp, rfl, by intro rest f fs; simp [pushK_nil]⟩

theorem renders_append {w1 w2 : Str} {n1 n2 : List Node} (h1 : Renders w1 n1) (h2 : Renders w2 n2) :
    Renders (w1 ++ w2) (n1 ++ n2) := by
  obtain ⟨r1, t1, e1, o1, u1, b1⟩ := h1
  obtain ⟨r2, t2, e2, o2, u2, b2⟩ := h2
  refine ⟨r1 ++ r2, t1 ++ t2, by simp [e1, e2], ?_, by simp [unescToks_append, u1, u2], ?_⟩
  · intro t ht
    rcases List.mem_append.mp ht with h | h
    · exact o1 t h
    · exact o2 t h
  · intro rest f fs
    rw [List.append_assoc, b1, b2, pushK_pushK]

def Plain (s : Str) : Prop := ∀ c ∈ s, plainChar c = true

theorem plain_valOk {s : Str} (h : Plain s) : ValOk s := by
  intro c hc
  have := h c hc
  simp [plainChar] at this
  exact ⟨this.1.1.1.2, this.1.1.1.1.2⟩

theorem plain_tailOk {s : Str} (h : Plain s) : TailOk s := fun c hc => (plain_valOk h c hc).2

theorem nl_ok : TailOk ['\n'] ∧ unescape false ['\n'] = some ['\n'] := by
  refine ⟨?_, ?_⟩
  · intro c hc; simp at hc; subst hc; decide
  · simp [unescape, unescGo, isXmlChar, normLiteral]

theorem unescTok_mk (tag tag' : Tag) (tl tl' : Str) (h1 : unescTag tag = some tag') (h2 : unescape false tl = some tl') :
    unescTok ⟨tag, tl⟩ = some ⟨tag', tl'⟩ := by simp [unescTok, h1, h2]

/-- empty-element tag followed by a line break -/
theorem renders_empty (w n : Str) (as as' : List (Str × Str)) (sp : Bool)
    (hw : w = renderTok ⟨.stag n as sp true, ['\n']⟩)
    (hn : NameOk n) (has : AttrsOk as) (hu : unescAttrs as = some as') :
    Renders w [.elem n as' [], nl] := by
  refine ⟨[⟨.stag n as sp true, ['\n']⟩], [⟨.stag n as' sp true, ['\n']⟩], by simp [hw], ?_, ?_, ?_⟩
  · intro t ht; simp at ht; subst ht; exact ⟨⟨hn, has⟩, nl_ok.1⟩
  · have h1 := unescTok_mk (.stag n as sp true) (.stag n as' sp true) ['\n'] ['\n'] (by simp [unescTag, hu]) nl_ok.2
    simp [unescToks, h1]
  · intro rest f fs
    simp [build, pushNodes, textNodes, pushK, nl]

/-- start tag, line break, content, end tag, line break -/
theorem renders_wrap (w kw n : Str) (as as' : List (Str × Str)) (sp : Bool) (kn : List Node)
    (hw : w = renderTok ⟨.stag n as sp false, ['\n']⟩ ++ kw ++ renderTok ⟨.etag n, ['\n']⟩)
    (hn : NameOk n) (has : AttrsOk as) (hu : unescAttrs as = some as') (hk : Renders kw kn) :
    Renders w [.elem n as' (nl :: kn), nl] := by
  obtain ⟨rk, tk, ek, ok, uk, bk⟩ := hk
  refine ⟨[⟨.stag n as sp false, ['\n']⟩] ++ rk ++ [⟨.etag n, ['\n']⟩],
    [⟨.stag n as' sp false, ['\n']⟩] ++ tk ++ [⟨.etag n, ['\n']⟩], by simp [hw, ek], ?_, ?_, ?_⟩
  · intro t ht
    simp only [List.mem_append, List.mem_singleton] at ht
    rcases ht with (rfl | h) | rfl
    · exact ⟨⟨hn, has⟩, nl_ok.1⟩
    · exact ok t h
    · exact ⟨hn, nl_ok.1⟩
  · have h1 := unescTok_mk (.stag n as sp false) (.stag n as' sp false) _ _ (by simp [unescTag, hu]) nl_ok.2
    have h2 := unescTok_mk (.etag n) (.etag n) _ _ (by simp [unescTag]) nl_ok.2
    simp [unescToks_append, unescToks, h1, h2, uk]
  · intro rest f fs
    simp only [List.singleton_append, List.cons_append, List.append_assoc, build, pushNodes, textNodes, Option.bind]
    have := bk ([⟨.etag n, ['\n']⟩] ++ rest) ⟨n, as', [] ++ [Node.text ['\n']]⟩ (f :: fs)
    simp only [List.singleton_append, List.nil_append] at this
    simp [this, build, pushNodes, textNodes, pushK, nl]

/-- start tag, character data, end tag, line break -/
theorem renders_textelem (w n : Str) (as as' : List (Str × Str)) (sp : Bool) (raw txt : Str)
    (hw : w = renderTok ⟨.stag n as sp false, raw⟩ ++ renderTok ⟨.etag n, ['\n']⟩)
    (hn : NameOk n) (has : AttrsOk as) (hu : unescAttrs as = some as')
    (hraw : TailOk raw) (hun : unescape false raw = some txt) :
    Renders w [.elem n as' (textNodes txt), nl] := by
  refine ⟨[⟨.stag n as sp false, raw⟩, ⟨.etag n, ['\n']⟩], [⟨.stag n as' sp false, txt⟩, ⟨.etag n, ['\n']⟩],
    by simp [hw], ?_, ?_, ?_⟩
  · intro t ht
    simp only [List.mem_cons, List.mem_nil_iff, or_false] at ht
    rcases ht with rfl | rfl
    · exact ⟨⟨hn, has⟩, hraw⟩
    · exact ⟨hn, nl_ok.1⟩
  · have h1 := unescTok_mk (.stag n as sp false) (.stag n as' sp false) _ _ (by simp [unescTag, hu]) hun
    have h2 := unescTok_mk (.etag n) (.etag n) _ _ (by simp [unescTag]) nl_ok.2
    simp [unescToks, h1, h2]
  · intro rest f fs
    simp [build, pushNodes, textNodes, pushK, nl]

end PdfVerif.Xml

namespace PdfVerif.Xml
open PdfVerif.Convert PdfVerif.Gen.ConvertXml

def Legal (s : Str) : Prop := ∀ c ∈ s, isXmlChar c = true

/-- raw attributes are lexable and unescape to `as'` -/
def AttrsGood (as as' : List (Str × Str)) : Prop := AttrsOk as ∧ unescAttrs as = some as'

theorem good_nil : AttrsGood [] [] := ⟨by intro kv h; simp at h, rfl⟩

theorem good_plain {k v : Str} {as as' : List (Str × Str)} (hk : NameOk k) (hv : Plain v) (h : AttrsGood as as') :
    AttrsGood ((k, v) :: as) ((k, v) :: as') := by
  refine ⟨?_, ?_⟩
  · intro kv hkv
    simp only [List.mem_cons] at hkv
    rcases hkv with rfl | hkv
    · exact ⟨hk, plain_valOk hv⟩
    · exact h.1 kv hkv
  · have : unescape true v = some v := unesc_plain true v hv
    simp [unescAttrs, this, h.2]

theorem good_attr {k : Str} (strip : Bool) (s : Str) {as as' : List (Str × Str)} (hk : NameOk k)
    (hs : Legal (maybeStrip strip s)) (h : AttrsGood as as') :
    AttrsGood ((k, attr strip s) :: as) ((k, maybeStrip strip s) :: as') := by
  refine ⟨?_, ?_⟩
  · intro kv hkv
    simp only [List.mem_cons] at hkv
    rcases hkv with rfl | hkv
    · exact ⟨hk, fun c hc => ⟨(attr_safe strip s c hc).2.1, (attr_safe strip s c hc).1⟩⟩
    · exact h.1 kv hkv
  · have := unesc_flatMap_attrChar (maybeStrip strip s) hs []
    simp only [List.append_nil] at this
    have h2 : unescape true (attr strip s) = some (maybeStrip strip s) := by
      simp [unescape, attr_eq, this, unescGo]
    simp [unescAttrs, h2, h.2]

/-- character data that needs no escaping (LTAnno text: pdfminer only creates " " and "\n") -/
def textPlainChar (c : Char) : Bool := isXmlChar c && c != '&' && c != '<' && c != '\r'
def TextPlain (s : Str) : Prop := ∀ c ∈ s, textPlainChar c = true

theorem unesc_textPlain (s : Str) (hs : TextPlain s) : unescGo false none s = some s := by
  induction s with
  | nil => simp [unescGo]
  | cons c s ih =>
    have hc := hs c (by simp)
    have ih' := ih (fun d hd => hs d (by simp [hd]))
    simp [textPlainChar] at hc
    obtain ⟨⟨⟨h0, h1⟩, h2⟩, h3⟩ := hc
    simp [unescGo, normLiteral, h0, h1, h2, h3, ih']

theorem textPlain_tailOk {s : Str} (h : TextPlain s) : TailOk s := by
  intro c hc
  have := h c hc
  simp [textPlainChar] at this
  exact this.1.2

mutual
def ItemOk (strip : Bool) : Item → Prop
  | .char f b cs nc sz t =>
      Legal (maybeStrip strip f) ∧ Plain b ∧ Plain cs ∧ Plain nc ∧ Plain sz ∧ Legal (maybeStrip strip t)
  | .anno t => TextPlain t
  | .line lw b => Plain lw ∧ Plain b
  | .rect lw b => Plain lw ∧ Plain b
  | .curve lw b p => Plain lw ∧ Plain b ∧ Plain p
  | .image w h src => Plain w ∧ Plain h ∧ (match src with | none => True | some n => Legal (maybeStrip strip n))
  | .figure n b kids => Legal (maybeStrip strip n) ∧ Plain b ∧ ItemsOk strip kids
  | .textline b kids => Plain b ∧ ItemsOk strip kids
  | .textbox i b _ kids => Plain i ∧ Plain b ∧ ItemsOk strip kids
def ItemsOk (strip : Bool) : List Item → Prop
  | [] => True
  | i :: is => ItemOk strip i ∧ ItemsOk strip is
end

mutual
def GroupOk : Group → Prop
  | .box i b => Plain i ∧ Plain b
  | .group b kids => Plain b ∧ GroupsOk kids
def GroupsOk : List Group → Prop
  | [] => True
  | g :: gs => GroupOk g ∧ GroupsOk gs
end

def PageOk (strip : Bool) (p : Page) : Prop :=
  Plain p.pageid ∧ Plain p.bbox ∧ Plain p.rotate ∧ ItemsOk strip p.kids ∧
    (match p.groups with | none => True | some gs => GroupsOk gs)

macro "name_ok" : tactic => `(tactic| exact ⟨by simp, by decide⟩)

theorem plain_vertical : Plain ['v','e','r','t','i','c','a','l'] := by
  intro c hc; revert c; decide

mutual
theorem renders_item (strip : Bool) (i : Item) (h : ItemOk strip i) :
    Renders (xmlWrites strip i).flatten (itemNodes strip i) := by
  cases i with
  | char f b cs nc sz t =>
    obtain ⟨hf, hb, hcs, hnc, hsz, ht⟩ := h
    have hg := good_attr strip f (k := ['f','o','n','t']) (by name_ok) hf
      (good_plain (k := ['b','b','o','x']) (by name_ok) hb
        (good_plain (k := ['c','o','l','o','u','r','s','p','a','c','e']) (by name_ok) hcs
          (good_plain (k := ['n','c','o','l','o','u','r']) (by name_ok) hnc
            (good_plain (k := ['s','i','z','e']) (by name_ok) hsz good_nil))))
    have ht2 := unesc_flatMap_textChar (maybeStrip strip t) ht []
    simp only [List.append_nil] at ht2
    exact renders_textelem _ ['t','e','x','t'] _ _ false (writeText strip t) (maybeStrip strip t)
      (by simp [xmlWrites, t_render_LTChar_0, t_render_LTChar_1, renderTok, tagBody, renderAttrs, closeStr])
      (by name_ok) hg.1 hg.2 (fun c hc => (writeText_safe strip t c hc).1)
      (by simp [unescape, writeText_eq, ht2, unescGo])
  | anno t =>
    exact renders_textelem _ ['t','e','x','t'] [] [] false t t
      (by simp [xmlWrites, t_render_LTText_0, renderTok, tagBody, renderAttrs, closeStr])
      (by name_ok) good_nil.1 good_nil.2 (textPlain_tailOk h) (unesc_textPlain t h)
  | line lw b =>
    have hg := good_plain (k := ['l','i','n','e','w','i','d','t','h']) (by name_ok) h.1
      (good_plain (k := ['b','b','o','x']) (by name_ok) h.2 good_nil)
    exact renders_empty _ ['l','i','n','e'] _ _ true
      (by simp [xmlWrites, t_render_LTLine_0, renderTok, tagBody, renderAttrs, closeStr]) (by name_ok) hg.1 hg.2
  | rect lw b =>
    have hg := good_plain (k := ['l','i','n','e','w','i','d','t','h']) (by name_ok) h.1
      (good_plain (k := ['b','b','o','x']) (by name_ok) h.2 good_nil)
    exact renders_empty _ ['r','e','c','t'] _ _ true
      (by simp [xmlWrites, t_render_LTRect_0, renderTok, tagBody, renderAttrs, closeStr]) (by name_ok) hg.1 hg.2
  | curve lw b p =>
    have hg := good_plain (k := ['l','i','n','e','w','i','d','t','h']) (by name_ok) h.1
      (good_plain (k := ['b','b','o','x']) (by name_ok) h.2.1
        (good_plain (k := ['p','t','s']) (by name_ok) h.2.2 good_nil))
    exact renders_empty _ ['c','u','r','v','e'] _ _ false
      (by simp [xmlWrites, t_render_LTCurve_0, renderTok, tagBody, renderAttrs, closeStr]) (by name_ok) hg.1 hg.2
  | image w hh src =>
    have hg := good_plain (k := ['w','i','d','t','h']) (by name_ok) h.1
      (good_plain (k := ['h','e','i','g','h','t']) (by name_ok) h.2.1 good_nil)
    cases src with
    | none =>
      exact renders_empty _ ['i','m','a','g','e'] _ _ true
        (by simp [xmlWrites, t_render_LTImage_1, renderTok, tagBody, renderAttrs, closeStr]) (by name_ok) hg.1 hg.2
    | some n =>
      have hg2 := good_attr strip n (k := ['s','r','c']) (by name_ok) h.2.2 hg
      exact renders_empty _ ['i','m','a','g','e'] _ _ true
        (by simp [xmlWrites, t_render_LTImage_0, renderTok, tagBody, renderAttrs, closeStr]) (by name_ok) hg2.1 hg2.2
  | figure n b kids =>
    obtain ⟨hn, hb, hk⟩ := h
    have hg := good_attr strip n (k := ['n','a','m','e']) (by name_ok) hn
      (good_plain (k := ['b','b','o','x']) (by name_ok) hb good_nil)
    exact renders_wrap _ (xmlWritesL strip kids).flatten ['f','i','g','u','r','e'] _ _ false _
      (by simp [xmlWrites, t_render_LTFigure_0, t_render_LTFigure_1, renderTok, tagBody, renderAttrs, closeStr])
      (by name_ok) hg.1 hg.2 (renders_items strip kids hk)
  | textline b kids =>
    obtain ⟨hb, hk⟩ := h
    have hg := good_plain (k := ['b','b','o','x']) (by name_ok) hb good_nil
    exact renders_wrap _ (xmlWritesL strip kids).flatten ['t','e','x','t','l','i','n','e'] _ _ false _
      (by simp [xmlWrites, t_render_LTTextLine_0, t_render_LTTextLine_1, renderTok, tagBody, renderAttrs, closeStr])
      (by name_ok) hg.1 hg.2 (renders_items strip kids hk)
  | textbox i b v kids =>
    obtain ⟨hi, hb, hk⟩ := h
    cases v with
    | false =>
      have hg := good_plain (k := ['i','d']) (by name_ok) hi (good_plain (k := ['b','b','o','x']) (by name_ok) hb good_nil)
      exact renders_wrap _ (xmlWritesL strip kids).flatten ['t','e','x','t','b','o','x'] _ _ false _
        (by simp [xmlWrites, t_render_LTTextBox_0, t_render_LTTextBox_2, t_render_LTTextBox_3, renderTok, tagBody,
              renderAttrs, closeStr])
        (by name_ok) hg.1 hg.2 (renders_items strip kids hk)
    | true =>
      have hg := good_plain (k := ['i','d']) (by name_ok) hi (good_plain (k := ['b','b','o','x']) (by name_ok) hb
        (good_plain (k := ['w','m','o','d','e']) (by name_ok) plain_vertical good_nil))
      exact renders_wrap _ (xmlWritesL strip kids).flatten ['t','e','x','t','b','o','x'] _ _ false _
        (by simp [xmlWrites, t_render_LTTextBox_1, t_render_LTTextBox_2, t_render_LTTextBox_3, renderTok, tagBody,
              renderAttrs, closeStr])
        (by name_ok) hg.1 hg.2 (renders_items strip kids hk)
theorem renders_items (strip : Bool) (is : List Item) (h : ItemsOk strip is) :
    Renders (xmlWritesL strip is).flatten (itemNodesL strip is) := by
  cases is with
  | nil => simpa [xmlWritesL, itemNodesL] using renders_nil
  | cons i is =>
    simp only [xmlWritesL, itemNodesL, List.flatten_append]
    exact renders_append (renders_item strip i h.1) (renders_items strip is h.2)
end

end PdfVerif.Xml

namespace PdfVerif.Xml
open PdfVerif.Convert PdfVerif.Gen.ConvertXml

mutual
theorem renders_group (g : Group) (h : GroupOk g) : Renders (groupWrites g).flatten (groupNodes g) := by
  cases g with
  | box i b =>
    have hg := good_plain (k := ['i','d']) (by name_ok) h.1 (good_plain (k := ['b','b','o','x']) (by name_ok) h.2 good_nil)
    exact renders_empty _ ['t','e','x','t','b','o','x'] _ _ true
      (by simp [groupWrites, t_show_group_LTTextBox_0, renderTok, tagBody, renderAttrs, closeStr]) (by name_ok) hg.1 hg.2
  | group b kids =>
    obtain ⟨hb, hk⟩ := h
    have hg := good_plain (k := ['b','b','o','x']) (by name_ok) hb good_nil
    exact renders_wrap _ (groupWritesL kids).flatten ['t','e','x','t','g','r','o','u','p'] _ _ false _
      (by simp [groupWrites, t_show_group_LTTextGroup_0, t_show_group_LTTextGroup_1, renderTok, tagBody, renderAttrs,
            closeStr])
      (by name_ok) hg.1 hg.2 (renders_groups kids hk)
theorem renders_groups (gs : List Group) (h : GroupsOk gs) : Renders (groupWritesL gs).flatten (groupNodesL gs) := by
  cases gs with
  | nil => simpa [groupWritesL, groupNodesL] using renders_nil
  | cons g gs =>
    simp only [groupWritesL, groupNodesL, List.flatten_append]
    exact renders_append (renders_group g h.1) (renders_groups gs h.2)
end

theorem renders_layout (gs : Option (List Group)) (h : match gs with | none => True | some gs => GroupsOk gs) :
    Renders (layoutWrites gs).flatten (layoutNodes gs) := by
  cases gs with
  | none => simpa [layoutWrites, layoutNodes] using renders_nil
  | some gs =>
    exact renders_wrap _ (groupWritesL gs).flatten ['l','a','y','o','u','t'] [] [] false _
      (by simp [layoutWrites, t_render_LTPage_1, t_render_LTPage_2, renderTok, tagBody, renderAttrs, closeStr])
      (by name_ok) good_nil.1 good_nil.2 (renders_groups gs h)

theorem renders_page (strip : Bool) (p : Page) (h : PageOk strip p) :
    Renders (xmlPageWrites strip p).flatten (pageNodes strip p) := by
  obtain ⟨hi, hb, hr, hk, hgs⟩ := h
  have hg := good_plain (k := ['i','d']) (by name_ok) hi (good_plain (k := ['b','b','o','x']) (by name_ok) hb
    (good_plain (k := ['r','o','t','a','t','e']) (by name_ok) hr good_nil))
  exact renders_wrap _ ((xmlWritesL strip p.kids).flatten ++ (layoutWrites p.groups).flatten) ['p','a','g','e'] _ _ false _
    (by simp [xmlPageWrites, t_render_LTPage_0, t_render_LTPage_3, renderTok, tagBody, renderAttrs, closeStr])
    (by name_ok) hg.1 hg.2 (renders_append (renders_items strip p.kids hk) (renders_layout p.groups hgs))

theorem renders_pages (strip : Bool) (ps : List Page) (h : ∀ p ∈ ps, PageOk strip p) :
    Renders (ps.flatMap (xmlPageWrites strip)).flatten (ps.flatMap (pageNodes strip)) := by
  induction ps with
  | nil => simpa using renders_nil
  | cons p ps ih =>
    simp only [List.flatMap_cons, List.flatten_append]
    exact renders_append (renders_page strip p (h p (by simp))) (ih (fun q hq => h q (by simp [hq])))

/-- XML declaration followed by a line break: contributes one white-space text node -/
theorem renders_decl (w body : Str) (hw : w = renderTok ⟨.decl body, ['\n']⟩) (hb : ∀ c ∈ body, c ≠ '?') :
    Renders w [nl] := by
  refine ⟨[⟨.decl body, ['\n']⟩], [⟨.decl body, ['\n']⟩], by simp [hw], ?_, ?_, ?_⟩
  · intro t ht; simp at ht; subst ht; exact ⟨hb, nl_ok.1⟩
  · have h1 := unescTok_mk (.decl body) (.decl body) ['\n'] ['\n'] (by simp [unescTag]) nl_ok.2
    simp [unescToks, h1]
  · intro rest f fs
    simp [build, pushNodes, textNodes, pushK, nl]

def CodecNameOk : Option Str → Prop
  | none => True
  | some c => ∀ ch ∈ c, ch ≠ '?'

theorem renders_doc (strip : Bool) (codec : Option Str) (ps : List Page) (hc : CodecNameOk codec)
    (h : ∀ p ∈ ps, PageOk strip p) :
    Renders (xmlDocWrites strip codec ps).flatten [nl, docSkeleton strip ps, nl] := by
  have hpages := renders_wrap _ (ps.flatMap (xmlPageWrites strip)).flatten ['p','a','g','e','s'] [] [] false _ rfl
    (by name_ok) good_nil.1 good_nil.2 (renders_pages strip ps h)
  cases codec with
  | none =>
    have hd := renders_decl (t_write_header_1) ['x','m','l',' ','v','e','r','s','i','o','n','=','"','1','.','0','"',' ']
      (by simp [t_write_header_1, renderTok, tagBody]) (by decide)
    have := renders_append hd hpages
    simpa [xmlDocWrites, headerWrites, t_write_header_2, t_write_footer_0, renderTok, tagBody, renderAttrs, closeStr,
      docSkeleton] using this
  | some c =>
    have hd := renders_decl (t_write_header_0 c)
      (['x','m','l',' ','v','e','r','s','i','o','n','=','"','1','.','0','"',' ','e','n','c','o','d','i','n','g','=','"'] ++ c ++ ['"', ' '])
      (by simp [t_write_header_0, renderTok, tagBody])
      (by
        intro ch hch
        simp only [List.mem_append] at hch
        rcases hch with (hch | hch) | hch
        · revert ch; decide
        · exact hc ch hch
        · revert ch; decide)
    have := renders_append hd hpages
    simpa [xmlDocWrites, headerWrites, t_write_header_2, t_write_footer_0, renderTok, tagBody, renderAttrs, closeStr,
      docSkeleton] using this

/-- The reader, run on the characters of the model's XML output, returns the skeleton. -/
theorem parseXML_doc (strip : Bool) (codec : Option Str) (ps : List Page) (hc : CodecNameOk codec)
    (h : ∀ p ∈ ps, PageOk strip p) :
    parseXML (sinkText (xmlDocWrites strip codec ps)) = some (docSkeleton strip ps) := by
  obtain ⟨raw, toks, e, ok, u, b⟩ := renders_doc strip codec ps hc h
  have hb := b [] ⟨[], [], []⟩ []
  simp only [List.append_nil] at hb
  have hlex := lex_render raw ok
  simp [parseXML, parseNodes, sinkText, e, hlex, u, hb, build, pushK, isElem, isWsNode, nl, docSkeleton, isSpace]
  rfl

end PdfVerif.Xml
