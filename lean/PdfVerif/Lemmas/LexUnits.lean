/-
Composition of token spellings: a "unit" is a piece of input that, read from the main scanner,
yields given tokens and hands over in the main scanner again — so units concatenate.
-/
import PdfVerif.Lemmas.LexTokens

namespace PdfVerif.Lexer
open PdfVerif PdfVerif.Gen.LexTables

def tokVals (ts : List PTok) : List Token := ts.map (·.2)

/-- From any state of the main scanner, `s` followed by anything yields the tokens `ts` (at some
    positions) and the reading of what follows continues in the main scanner. -/
def LexUnit (s : Bytes) (ts : List Token) : Prop :=
  ∀ (st : St) (rest : Bytes) (pos : Nat), st.mode = .main →
    ∃ st', st'.mode = .main ∧
      tokVals (foldBytes st (s ++ rest) pos).2 = ts ++ tokVals (foldBytes st' rest (pos + s.length)).2

theorem LexUnit.nil : LexUnit [] [] := fun st rest pos hm => ⟨st, hm, by simp⟩

theorem LexUnit.append {s1 s2 : Bytes} {t1 t2 : List Token} (h1 : LexUnit s1 t1) (h2 : LexUnit s2 t2) :
    LexUnit (s1 ++ s2) (t1 ++ t2) := by
  intro st rest pos hm
  obtain ⟨st1, hm1, e1⟩ := h1 st (s2 ++ rest) pos hm
  obtain ⟨st2, hm2, e2⟩ := h2 st1 rest (pos + s1.length) hm1
  refine ⟨st2, hm2, ?_⟩
  rw [List.append_assoc, e1, e2]
  simp [Nat.add_assoc]

/-- from an exact description of the fold over `s` alone -/
theorem LexUnit.of_fold {s : Bytes} {ts : List Token}
    (h : ∀ (st : St) (pos : Nat), st.mode = .main →
      ∃ st', st'.mode = .main ∧ (foldBytes st s pos).1 = st' ∧ tokVals (foldBytes st s pos).2 = ts) :
    LexUnit s ts := by
  intro st rest pos hm
  obtain ⟨st', hm', e1, e2⟩ := h st pos hm
  refine ⟨st', hm', ?_⟩
  rw [foldBytes_append]
  simp only [tokVals, List.map_append] at e2 ⊢
  rw [e2, e1]

/-! ### white space between tokens -/

/-- PDF white space (ISO 32000-1 Table 1) -/
def isGapByte (c : UInt8) : Bool := c == 0 || c == 9 || c == 10 || c == 12 || c == 13 || c == 32

theorem gap_facts : ∀ c : UInt8,
    (!isGapByte c || ((!isNONSPC c || c == 0) && isEND_NUMBER c && c != 46 && isEND_LITERAL c && c != 35 &&
      isEND_KEYWORD c && c != 62)) = true :=
  forall_byte _ (by decide +kernel)

theorem main_gap_byte (st : St) (c : UInt8) (p : Nat) (hm : st.mode = .main) (hg : isGapByte c = true) :
    ∃ st', st'.mode = .main ∧ stepByte st c p = (st', []) := by
  have hf := gap_facts c
  simp only [hg, Bool.not_true, Bool.false_or, Bool.and_eq_true] at hf
  have h0 := hf.1.1.1.1.1.1
  by_cases hns : isNONSPC c = true
  · have hc0 : c = 0 := by simpa [hns] using h0
    subst hc0
    refine ⟨{ st with tpos := p }, hm, ?_⟩
    rw [step_hit st 0 p (Or.inr ⟨isNONSPC, by simp [hm, searchClass], hns⟩)]
    have d0 : isDigit 0 = false := by decide
    have a0 : isAlpha 0 = false := by decide
    simp [atHit, hm, parseMainHit, d0, a0]
  · have hns' : isNONSPC c = false := by simpa using hns
    refine ⟨st, hm, ?_⟩
    rw [step_nonmatch st c p isNONSPC (by simp [hm, searchClass]) hns']
    simp [accum, hm]

theorem LexUnit.gap : ∀ (g : Bytes), (∀ c ∈ g, isGapByte c = true) → LexUnit g []
  | [], _ => LexUnit.nil
  | c :: t, hg => by
    have h1 : LexUnit [c] [] := LexUnit.of_fold (fun st pos hm => by
      obtain ⟨st', hm', e⟩ := main_gap_byte st c pos hm (hg c (by simp))
      exact ⟨st', hm', by simp [foldBytes, e], by simp [foldBytes, e, tokVals]⟩)
    have h2 := LexUnit.gap t (fun x hx => hg x (by simp [hx]))
    simpa using LexUnit.append h1 h2

/-- a token that ends at the first byte `g` of the following white space -/
theorem LexUnit.of_token {s : Bytes} {t : Token} (g : UInt8) (hg : isGapByte g = true)
    (h : ∀ (st : St) (rest : Bytes) (pos : Nat), st.mode = .main →
      ∃ st', st'.mode = .main ∧
        (foldBytes st (s ++ g :: rest) pos).2 = (pos, t) :: (foldBytes st' (g :: rest) (pos + s.length)).2) :
    LexUnit (s ++ [g]) [t] := by
  intro st rest pos hm
  obtain ⟨st1, hm1, e1⟩ := h st rest pos hm
  obtain ⟨st2, hm2, e2⟩ := main_gap_byte st1 g (pos + s.length) hm1 hg
  refine ⟨st2, hm2, ?_⟩
  have e : s ++ [g] ++ rest = s ++ g :: rest := by simp
  rw [e, e1]
  simp [tokVals, foldBytes, e2, Nat.add_assoc]

/-! ### structural keywords -/

theorem bracket_facts : (isNONSPC 91 && isNONSPC 93 && isNONSPC 60 && isNONSPC 62) = true := by decide +kernel

theorem LexUnit.open_bracket : LexUnit [91] [Token.kwd [91]] := LexUnit.of_fold (fun st pos hm => by
  have hf := bracket_facts; simp only [Bool.and_eq_true] at hf
  have d : isDigit 91 = false := by decide
  have a : isAlpha 91 = false := by decide
  have e : stepByte st 91 pos = ({ st with tpos := pos }, [(pos, Token.kwd [91])]) := by
    rw [step_hit st 91 pos (Or.inr ⟨isNONSPC, by simp [hm, searchClass], hf.1.1.1⟩)]
    simp [atHit, hm, parseMainHit, d, a, emit]
  exact ⟨{ st with tpos := pos }, hm, by simp [foldBytes, e], by simp [foldBytes, e, tokVals]⟩)

theorem LexUnit.close_bracket : LexUnit [93] [Token.kwd [93]] := LexUnit.of_fold (fun st pos hm => by
  have hf := bracket_facts; simp only [Bool.and_eq_true] at hf
  have d : isDigit 93 = false := by decide
  have a : isAlpha 93 = false := by decide
  have e : stepByte st 93 pos = ({ st with tpos := pos }, [(pos, Token.kwd [93])]) := by
    rw [step_hit st 93 pos (Or.inr ⟨isNONSPC, by simp [hm, searchClass], hf.1.1.2⟩)]
    simp [atHit, hm, parseMainHit, d, a, emit]
  exact ⟨{ st with tpos := pos }, hm, by simp [foldBytes, e], by simp [foldBytes, e, tokVals]⟩)

theorem LexUnit.dict_open : LexUnit [60, 60] [Token.kwd [60, 60]] := LexUnit.of_fold (fun st pos hm => by
  have hf := bracket_facts; simp only [Bool.and_eq_true] at hf
  have d : isDigit 60 = false := by decide
  have a : isAlpha 60 = false := by decide
  have e1 : stepByte st 60 pos = ({ st with tpos := pos, cur := [], mode := .wopen }, []) := by
    rw [step_hit st 60 pos (Or.inr ⟨isNONSPC, by simp [hm, searchClass], hf.1.2⟩)]
    simp [atHit, hm, parseMainHit, d, a]
  have e2 : stepByte { st with tpos := pos, cur := [], mode := .wopen } 60 (pos + 1) =
      ({ st with tpos := pos, cur := [], mode := .main }, [(pos, Token.kwd [60, 60])]) := by
    rw [step_hit _ 60 _ (Or.inl (by simp [searchClass]))]
    simp [atHit, parseWopenHit, emit, kwDictBegin]
  exact ⟨{ st with tpos := pos, cur := [], mode := .main }, rfl, by simp [foldBytes, e1, e2],
    by simp [foldBytes, e1, e2, tokVals]⟩)

theorem LexUnit.dict_close : LexUnit [62, 62] [Token.kwd [62, 62]] := LexUnit.of_fold (fun st pos hm => by
  have hf := bracket_facts; simp only [Bool.and_eq_true] at hf
  have d : isDigit 62 = false := by decide
  have a : isAlpha 62 = false := by decide
  have e1 : stepByte st 62 pos = ({ st with tpos := pos, cur := [], mode := .wclose }, []) := by
    rw [step_hit st 62 pos (Or.inr ⟨isNONSPC, by simp [hm, searchClass], hf.2⟩)]
    simp [atHit, hm, parseMainHit, d, a]
  have e2 : stepByte { st with tpos := pos, cur := [], mode := .wclose } 62 (pos + 1) =
      ({ st with tpos := pos, cur := [], mode := .main }, [(pos, Token.kwd [62, 62])]) := by
    rw [step_hit _ 62 _ (Or.inl (by simp [searchClass]))]
    simp [atHit, parseWcloseHit, emit, kwDictEnd]
  exact ⟨{ st with tpos := pos, cur := [], mode := .main }, rfl, by simp [foldBytes, e1, e2],
    by simp [foldBytes, e1, e2, tokVals]⟩)

end PdfVerif.Lexer
