/-
Composition of token spellings: a "unit" is a piece of input that, read from the main scanner,
yields given tokens and hands over in the main scanner again — so units concatenate.
-/
import PdfVerif.Lemmas.LexTokens

namespace PdfVerif.Lexer
open PdfVerif PdfVerif.Gen.LexTables

def tokVals (ts : List PTok) : List Token := ts.map (·.2)

/-- PDF white space (ISO 32000-1 Table 1) -/
def isGapByte (c : UInt8) : Bool := c == 0 || c == 9 || c == 10 || c == 12 || c == 13 || c == 32

/-- white space or delimiter (ISO 32000-1 7.2.2): the bytes that end a run of regular characters -/
def isDW (c : UInt8) : Bool :=
  isGapByte c || c == 40 || c == 41 || c == 60 || c == 62 || c == 91 || c == 93 || c == 123 || c == 125 ||
    c == 47 || c == 37

/-- Hand-over states between tokens: the main scanner, or `_parse_wclose` right after the `>` of a
    hexadecimal string (it behaves like the main scanner on every byte but `>`, where it completes `>>`). -/
def HO (st : St) : Prop := st.mode = .main ∨ st.mode = .wclose

/-- From any hand-over state, `s` followed by a byte `d` (and anything) yields the tokens `ts` and
    the reading continues at `d` in a hand-over state.  `reg = true`: `s` ends in a run of regular
    characters, so `d` must be white space or a delimiter. -/
def LexUnit (s : Bytes) (ts : List Token) (reg : Bool) : Prop :=
  ∀ (st : St) (d : UInt8) (rest : Bytes) (pos : Nat), HO st → (reg = true → isDW d = true) →
    ∃ st', HO st' ∧
      tokVals (foldBytes st (s ++ d :: rest) pos).2 = ts ++ tokVals (foldBytes st' (d :: rest) (pos + s.length)).2

theorem LexUnit.nil : LexUnit [] [] false := fun st d rest pos hm _ => ⟨st, hm, by simp⟩

theorem LexUnit.weaken {s : Bytes} {ts : List Token} (h : LexUnit s ts false) (r : Bool) : LexUnit s ts r :=
  fun st d rest pos hs _ => h st d rest pos hs (by simp)

/-- Units concatenate; after a regular run the next unit must begin with (or, if empty, be followed by)
    white space or a delimiter. -/
theorem LexUnit.append {s1 s2 : Bytes} {t1 t2 : List Token} {r1 r2 : Bool}
    (h1 : LexUnit s1 t1 r1) (h2 : LexUnit s2 t2 r2)
    (hd : r1 = true → ∀ d, (r2 = true → isDW d = true) → isDW ((s2 ++ [d]).headD 0) = true) :
    LexUnit (s1 ++ s2) (t1 ++ t2) r2 := by
  intro st d rest pos hs hok
  obtain ⟨c, tl, hc⟩ : ∃ c tl, s2 ++ d :: rest = c :: tl := by
    cases s2 with
    | nil => exact ⟨d, rest, rfl⟩
    | cons c t => exact ⟨c, t ++ d :: rest, rfl⟩
  have hhead : (s2 ++ [d]).headD 0 = c := by
    cases s2 with
    | nil => simp at hc ⊢; exact hc.1
    | cons c' t => simp at hc ⊢; exact hc.1
  obtain ⟨st1, hm1, e1⟩ := h1 st c tl pos hs (fun hr => by rw [← hhead]; exact hd hr d hok)
  obtain ⟨st2, hm2, e2⟩ := h2 st1 d rest (pos + s1.length) hm1 hok
  refine ⟨st2, hm2, ?_⟩
  rw [List.append_assoc, hc, e1, ← hc, e2]
  simp [Nat.add_assoc]

theorem LexUnit.append_free {s1 s2 : Bytes} {t1 t2 : List Token} {r2 : Bool}
    (h1 : LexUnit s1 t1 false) (h2 : LexUnit s2 t2 r2) : LexUnit (s1 ++ s2) (t1 ++ t2) r2 :=
  LexUnit.append h1 h2 (fun h => by cases h)

theorem LexUnit.append_dw {s1 : Bytes} {b : UInt8} {s2 : Bytes} {t1 t2 : List Token} {r1 r2 : Bool}
    (h1 : LexUnit s1 t1 r1) (h2 : LexUnit (b :: s2) t2 r2) (hb : isDW b = true) :
    LexUnit (s1 ++ b :: s2) (t1 ++ t2) r2 :=
  LexUnit.append h1 h2 (fun _ d _ => by simpa using hb)

/-- After the `>` of a hex string every byte but `>` is read as by the main scanner. -/
theorem fold_from_wclose (st : St) (b : UInt8) (tl : Bytes) (p : Nat) (hm : st.mode = .wclose) (hb : b ≠ 62) :
    foldBytes st (b :: tl) p = foldBytes { st with mode := .main } (b :: tl) p := by
  have hb' : (b == 62) = false := by simpa using hb
  simp only [foldBytes]
  rw [step_hit st b p (Or.inl (by simp [hm, searchClass]))]
  simp [atHit, hm, parseWcloseHit, hb']

/-- a unit that does not begin with `>`, described from the main scanner only -/
theorem LexUnit.of_main {b : UInt8} {s : Bytes} {ts : List Token} {reg : Bool} (hb : b ≠ 62)
    (h : ∀ (st : St) (d : UInt8) (rest : Bytes) (pos : Nat), st.mode = .main → (reg = true → isDW d = true) →
      ∃ st', HO st' ∧ tokVals (foldBytes st ((b :: s) ++ d :: rest) pos).2 =
        ts ++ tokVals (foldBytes st' (d :: rest) (pos + (b :: s).length)).2) :
    LexUnit (b :: s) ts reg := by
  intro st d rest pos hs hok
  rcases hs with hm | hw
  · exact h st d rest pos hm hok
  · obtain ⟨st', hm', e⟩ := h { st with mode := .main } d rest pos rfl hok
    refine ⟨st', hm', ?_⟩
    rw [List.cons_append, fold_from_wclose st b _ pos hw hb]
    exact e

/-- …from an exact description of the fold over the unit alone -/
theorem LexUnit.of_fold {b : UInt8} {s : Bytes} {ts : List Token} (hb : b ≠ 62)
    (h : ∀ (st : St) (pos : Nat), st.mode = .main →
      ∃ st', HO st' ∧ (foldBytes st (b :: s) pos).1 = st' ∧ tokVals (foldBytes st (b :: s) pos).2 = ts) :
    LexUnit (b :: s) ts false := by
  apply LexUnit.of_main hb
  intro st d rest pos hm _
  obtain ⟨st', hm', e1, e2⟩ := h st pos hm
  refine ⟨st', hm', ?_⟩
  rw [foldBytes_append]
  simp only [tokVals, List.map_append] at e2 ⊢
  rw [e2, e1]

/-! ### white space and comments between tokens -/

theorem dw_facts : ∀ c : UInt8,
    (!isDW c || (isEND_NUMBER c && c != 46 && isEND_LITERAL c && c != 35 && isEND_KEYWORD c)) = true :=
  forall_byte _ (by decide +kernel)

theorem gap_facts : ∀ c : UInt8, (!isGapByte c || ((!isNONSPC c || c == 0) && c != 62 && isDW c)) = true :=
  forall_byte _ (by decide +kernel)

theorem main_gap_byte (st : St) (c : UInt8) (p : Nat) (hm : st.mode = .main) (hg : isGapByte c = true) :
    ∃ st', st'.mode = .main ∧ stepByte st c p = (st', []) := by
  have hf := gap_facts c
  simp only [hg, Bool.not_true, Bool.false_or, Bool.and_eq_true] at hf
  have h0 := hf.1.1
  by_cases hns : isNONSPC c = true
  · have hc0 : c = 0 := by simpa [hns] using h0
    subst hc0
    refine ⟨{ st with tpos := p }, hm, ?_⟩
    rw [step_hit st 0 p (Or.inr ⟨isNONSPC, by simp [hm, searchClass], hns⟩)]
    have d0 : isDigit 0 = false := by decide
    have a0 : isAlpha 0 = false := by decide
    simp [atHit, hm, parseMainHit, d0, a0]
  · have hns' : isNONSPC c = false := by simpa using hns
    refine ⟨st, hm, ?_⟩
    rw [step_nonmatch st c p isNONSPC (by simp [hm, searchClass]) hns']
    simp [accum, hm]

/-- what may stand between two tokens: a white-space byte, or a comment up to and including its
    end-of-line byte (7.2.3; a CR LF end is `comment … 13` followed by `ws 10`) -/
inductive SepItem where
  | ws (c : UInt8)
  | comment (body : Bytes) (eol : UInt8)

def SepItem.ok : SepItem → Prop
  | .ws c => isGapByte c = true
  | .comment body eol => (∀ x ∈ body, isEOL x = false) ∧ (eol = 10 ∨ eol = 13)

def SepItem.render : SepItem → Bytes
  | .ws c => [c]
  | .comment body eol => 37 :: (body ++ [eol])

def renderSep : List SepItem → Bytes
  | [] => []
  | i :: r => i.render ++ renderSep r

def sepOK (g : List SepItem) : Prop := ∀ i ∈ g, i.ok

theorem comment_facts : (isNONSPC 37 && isEOL 10 && isEOL 13 && !isNONSPC 10 && !isNONSPC 13) = true := by
  decide +kernel

theorem LexUnit.sepItem (i : SepItem) (hi : i.ok) : LexUnit i.render [] false := by
  cases i with
  | ws c =>
    simp only [SepItem.ok] at hi
    have hf := gap_facts c
    simp only [hi, Bool.not_true, Bool.false_or, Bool.and_eq_true, bne_iff_ne, ne_eq] at hf
    exact LexUnit.of_fold hf.1.2 (fun st pos hm => by
      obtain ⟨st', hm', e⟩ := main_gap_byte st c pos hm hi
      exact ⟨st', Or.inl hm', by simp [foldBytes, e], by simp [foldBytes, e, tokVals]⟩)
  | comment body eol =>
    simp only [SepItem.ok] at hi
    obtain ⟨hbody, heol⟩ := hi
    have hf := comment_facts
    simp only [Bool.and_eq_true, Bool.not_eq_true'] at hf
    obtain ⟨⟨⟨⟨n37, e10⟩, e13⟩, s10⟩, s13⟩ := hf
    have heolE : isEOL eol = true := by
      rcases heol with rfl | rfl
      · exact e10
      · exact e13
    have heolS : isNONSPC eol = false := by
      rcases heol with rfl | rfl
      · exact s10
      · exact s13
    refine LexUnit.of_fold (by decide) (fun st pos hm => ?_)
    have d37 : isDigit 37 = false := by decide
    have s1 : stepByte st 37 pos = ({ st with tpos := pos, cur := [37], mode := .comment }, []) := by
      rw [step_hit st 37 pos (Or.inr ⟨isNONSPC, by simp [hm, searchClass], n37⟩)]
      simp [atHit, hm, parseMainHit]
    have s2 := fold_nonmatch isEOL body [eol] { st with tpos := pos, cur := [37], mode := .comment } (pos + 1)
      (by simp [searchClass]) hbody
    have s3 : ∀ (s0 : St) (p : Nat), s0.mode = .comment →
        stepByte s0 eol p = ({ s0 with mode := .main }, []) := by
      intro s0 p hm0
      rw [step_hit s0 eol p (Or.inr ⟨isEOL, by simp [hm0, searchClass], heolE⟩)]
      simp only [atHit, hm0, parseCommentHit, Bool.false_eq_true, if_false, List.nil_append]
      rw [step_nonmatch _ eol p isNONSPC (by simp [searchClass]) heolS]
      simp [accum]
    have hfold : foldBytes st (37 :: (body ++ [eol])) pos =
        ({ st with tpos := pos, cur := [37] ++ body, mode := .main }, []) := by
      simp only [foldBytes, s1, List.nil_append]
      rw [s2]
      simp only [foldBytes]
      rw [s3 _ _ (by simp)]
      simp [accum]
    exact ⟨{ st with tpos := pos, cur := [37] ++ body, mode := .main }, Or.inl rfl, by rw [hfold], by rw [hfold]; rfl⟩

theorem LexUnit.sep : ∀ (g : List SepItem), sepOK g → LexUnit (renderSep g) [] false
  | [], _ => LexUnit.nil
  | i :: r, hg => by
    have h1 := LexUnit.sepItem i (hg i (by simp))
    have h2 := LexUnit.sep r (fun x hx => hg x (by simp [hx]))
    simpa [renderSep] using LexUnit.append_free h1 h2

/-- a non-empty separator begins with white space or `%`, both of which end a regular run -/
theorem sep_head_dw (g : List SepItem) (hg : sepOK g) (hne : g ≠ []) (rest : Bytes) :
    isDW ((renderSep g ++ rest).headD 0) = true := by
  cases g with
  | nil => exact absurd rfl hne
  | cons i r =>
    have hi := hg i (by simp)
    cases i with
    | ws c =>
      simp only [SepItem.ok] at hi
      have hf := gap_facts c
      simp only [hi, Bool.not_true, Bool.false_or, Bool.and_eq_true] at hf
      simpa [renderSep, SepItem.render] using hf.2
    | comment body eol => simp [renderSep, SepItem.render, isDW]

/-! ### structural keywords -/

theorem bracket_facts : (isNONSPC 91 && isNONSPC 93 && isNONSPC 60 && isNONSPC 62) = true := by decide +kernel

theorem LexUnit.open_bracket : LexUnit [91] [Token.kwd [91]] false := LexUnit.of_fold (by decide) (fun st pos hm => by
  have hf := bracket_facts; simp only [Bool.and_eq_true] at hf
  have d : isDigit 91 = false := by decide
  have a : isAlpha 91 = false := by decide
  have e : stepByte st 91 pos = ({ st with tpos := pos }, [(pos, Token.kwd [91])]) := by
    rw [step_hit st 91 pos (Or.inr ⟨isNONSPC, by simp [hm, searchClass], hf.1.1.1⟩)]
    simp [atHit, hm, parseMainHit, d, a, emit]
  exact ⟨{ st with tpos := pos }, Or.inl hm, by simp [foldBytes, e], by simp [foldBytes, e, tokVals]⟩)

theorem LexUnit.close_bracket : LexUnit [93] [Token.kwd [93]] false := LexUnit.of_fold (by decide) (fun st pos hm => by
  have hf := bracket_facts; simp only [Bool.and_eq_true] at hf
  have d : isDigit 93 = false := by decide
  have a : isAlpha 93 = false := by decide
  have e : stepByte st 93 pos = ({ st with tpos := pos }, [(pos, Token.kwd [93])]) := by
    rw [step_hit st 93 pos (Or.inr ⟨isNONSPC, by simp [hm, searchClass], hf.1.1.2⟩)]
    simp [atHit, hm, parseMainHit, d, a, emit]
  exact ⟨{ st with tpos := pos }, Or.inl hm, by simp [foldBytes, e], by simp [foldBytes, e, tokVals]⟩)

theorem LexUnit.dict_open : LexUnit [60, 60] [Token.kwd [60, 60]] false := LexUnit.of_fold (by decide) (fun st pos hm => by
  have hf := bracket_facts; simp only [Bool.and_eq_true] at hf
  have d : isDigit 60 = false := by decide
  have a : isAlpha 60 = false := by decide
  have e1 : stepByte st 60 pos = ({ st with tpos := pos, cur := [], mode := .wopen }, []) := by
    rw [step_hit st 60 pos (Or.inr ⟨isNONSPC, by simp [hm, searchClass], hf.1.2⟩)]
    simp [atHit, hm, parseMainHit, d, a]
  have e2 : stepByte { st with tpos := pos, cur := [], mode := .wopen } 60 (pos + 1) =
      ({ st with tpos := pos, cur := [], mode := .main }, [(pos, Token.kwd [60, 60])]) := by
    rw [step_hit _ 60 _ (Or.inl (by simp [searchClass]))]
    simp [atHit, parseWopenHit, emit, kwDictBegin]
  exact ⟨{ st with tpos := pos, cur := [], mode := .main }, Or.inl rfl, by simp [foldBytes, e1, e2],
    by simp [foldBytes, e1, e2, tokVals]⟩)

/-- `>>` completes from the main scanner and also right after the `>` of a hex string (`<41>>>`). -/
theorem LexUnit.dict_close : LexUnit [62, 62] [Token.kwd [62, 62]] false := by
  have hf := bracket_facts; simp only [Bool.and_eq_true] at hf
  have d : isDigit 62 = false := by decide
  have a : isAlpha 62 = false := by decide
  have toW : ∀ (st : St) (p : Nat), st.mode = .main →
      stepByte st 62 p = ({ st with tpos := p, cur := [], mode := .wclose }, []) := by
    intro st p hm
    rw [step_hit st 62 p (Or.inr ⟨isNONSPC, by simp [hm, searchClass], hf.2⟩)]
    simp [atHit, hm, parseMainHit, d, a]
  have fromW : ∀ (st : St) (p : Nat), st.mode = .wclose →
      stepByte st 62 p = ({ st with mode := .main }, [(st.tpos, Token.kwd [62, 62])]) := by
    intro st p hm
    rw [step_hit st 62 p (Or.inl (by simp [hm, searchClass]))]
    simp [atHit, hm, parseWcloseHit, emit, kwDictEnd]
  intro st dd rest pos hs _
  rcases hs with hm | hw
  · refine ⟨{ st with tpos := pos, cur := [], mode := .main }, Or.inl rfl, ?_⟩
    simp only [List.cons_append, List.nil_append, foldBytes, toW st pos hm]
    rw [fromW _ _ rfl]
    simp [tokVals]
  · refine ⟨{ st with mode := .wclose, tpos := pos + 1, cur := [] }, Or.inr rfl, ?_⟩
    simp only [List.cons_append, List.nil_append, foldBytes, fromW st pos hw]
    rw [toW _ _ rfl]
    simp [tokVals]

end PdfVerif.Lexer
