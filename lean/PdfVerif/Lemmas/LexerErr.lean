/-
No exception escapes from the tokenizer model: the Python primitives that can raise
(`int(self.hex, 16)`, `bytes((v,))`, `int(self.oct, 8)`, `int(m.group(0), 16)` in HEX_PAIR.sub) are
only reached with arguments on which they succeed.  The facts about the byte classes are decided
on the REGENERATED tables.
-/
import PdfVerif.Lemmas.Lexer

namespace PdfVerif.Lexer
open PdfVerif PdfVerif.Gen.LexTables

theorem forall_byte (P : UInt8 → Bool) (h : (List.range 256).all (fun n => P (UInt8.ofNat n)) = true) :
    ∀ c : UInt8, P c = true := by
  intro c
  have := List.all_eq_true.mp h c.toNat (List.mem_range.mpr c.toNat_lt)
  simpa using this

def digitBelow (base : Nat) (c : UInt8) : Bool :=
  match digitVal c with
  | some d => d < base
  | none => false

theorem hex_digit : ∀ c : UInt8, (!isHEX c || digitBelow 16 c) = true :=
  forall_byte _ (by decide +kernel)

theorem oct_digit : ∀ c : UInt8, (!isOCT_STRING c || digitBelow 8 c) = true :=
  forall_byte _ (by decide +kernel)

theorem hexstring_bytes : ∀ c : UInt8, (isEND_HEX_STRING c || isSPC c || isHEX c) = true :=
  forall_byte _ (by decide +kernel)

theorem natOfDigits_some (base : Nat) : ∀ (bs : Bytes) (acc : Nat),
    (∀ c ∈ bs, digitBelow base c = true) → ∃ v, natOfDigits base bs acc = some v
  | [], acc, _ => ⟨acc, rfl⟩
  | c :: t, acc, h => by
    have hc := h c (by simp)
    unfold digitBelow at hc
    simp only [natOfDigits]
    split at hc
    · rename_i d hd
      have hlt : d < base := by simpa using hc
      simp only [hd, hlt, if_true]
      exact natOfDigits_some base t _ (fun x hx => h x (by simp [hx]))
    · simp at hc

theorem natOfDigits_bound (base : Nat) : ∀ (bs : Bytes) (acc v : Nat),
    natOfDigits base bs acc = some v → v < (acc + 1) * base ^ bs.length
  | [], acc, v, h => by simp [natOfDigits] at h; subst h; simp
  | c :: t, acc, v, h => by
    simp only [natOfDigits] at h
    split at h
    · rename_i d hd
      split at h
      · rename_i hlt
        have := natOfDigits_bound base t _ v h
        simp only [List.length_cons, Nat.pow_succ]
        calc v < (acc * base + d + 1) * base ^ t.length := this
          _ ≤ ((acc + 1) * base) * base ^ t.length := by
            apply Nat.mul_le_mul_right
            rw [Nat.add_mul]; omega
          _ = (acc + 1) * (base ^ t.length * base) := by
            rw [Nat.mul_assoc, Nat.mul_comm base]
      · simp at h
    · simp at h

/-- What the scanners maintain about `hex`, `oct` and the token of a hexadecimal string. -/
structure Inv (st : St) : Prop where
  hex : ∀ c ∈ st.hex, isHEX c = true
  hexLen : st.hex.length ≤ 2
  oct : ∀ c ∈ st.oct, isOCT_STRING c = true
  hexstr : st.mode = .hexstring → ∀ c ∈ st.cur, isEND_HEX_STRING c = false
  wopen : st.mode = .wopen → st.cur = []

theorem inv_init : Inv St.init := by
  constructor <;> simp [St.init]

def isErr : Token → Bool
  | .err _ => true
  | _ => false

def NoErr (ts : List PTok) : Prop := ∀ t ∈ ts, isErr t.2 = false

theorem noErr_nil : NoErr [] := by simp [NoErr]

theorem noErr_append {a b : List PTok} (ha : NoErr a) (hb : NoErr b) : NoErr (a ++ b) := by
  intro t ht
  rcases List.mem_append.mp ht with h | h
  · exact ha t h
  · exact hb t h

theorem hexPairs_some : ∀ (bs : Bytes), (∀ c ∈ bs, isHEX c = true) → ∃ r, hexPairs bs = some r
  | [], _ => ⟨[], rfl⟩
  | [a], h => by
    have ha := h a (by simp)
    have hd := hex_digit a
    simp only [ha, Bool.not_true, Bool.false_or, digitBelow] at hd
    simp only [hexPairs]
    split
    · exact ⟨_, rfl⟩
    · split at hd
      · rename_i d hdv; simp [hdv]
      · simp at hd
  | a :: b :: t, h => by
    have ha := h a (by simp)
    have hb := h b (by simp)
    have hda := hex_digit a
    have hdb := hex_digit b
    simp only [ha, hb, Bool.not_true, Bool.false_or, digitBelow] at hda hdb
    obtain ⟨r, hr⟩ := hexPairs_some t (fun x hx => h x (by simp [hx]))
    simp only [hexPairs, ha, hb, Bool.and_self, if_true, hr]
    split at hda
    · split at hdb
      · rename_i d1 h1 _ d2 h2; simp [h1, h2]
      · simp at hdb
    · simp at hda

theorem literalHex_ok (st : St) (hi : Inv st) (hne : st.hex.isEmpty = false) :
    ∃ v, pyIntBase 16 st.hex = some v ∧ v < 256 := by
  have hd : ∀ c ∈ st.hex, digitBelow 16 c = true := fun c hc => by
    have := hex_digit c; simpa [hi.hex c hc] using this
  obtain ⟨v, hv⟩ := natOfDigits_some 16 st.hex 0 hd
  refine ⟨v, by simp [pyIntBase, hne, hv], ?_⟩
  have hb := natOfDigits_bound 16 st.hex 0 v hv
  have hl := hi.hexLen
  have : 16 ^ st.hex.length ≤ 16 ^ 2 := Nat.pow_le_pow_right (by omega) hl
  omega

theorem oct_ok (st : St) (hi : Inv st) (hne : st.oct.isEmpty = false) : ∃ v, pyIntBase 8 st.oct = some v := by
  have hd : ∀ c ∈ st.oct, digitBelow 8 c = true := fun c hc => by
    have := oct_digit c; simpa [hi.oct c hc] using this
  obtain ⟨v, hv⟩ := natOfDigits_some 8 st.oct 0 hd
  exact ⟨v, by simp [pyIntBase, hne, hv]⟩

theorem hexstring_ok (st : St) (hi : Inv st) (hm : st.mode = .hexstring) :
    ∃ r, hexPairs (st.cur.filter (fun c => !isSPC c)) = some r := by
  apply hexPairs_some
  intro c hc
  have hmem := List.mem_filter.mp hc
  have h1 := hi.hexstr hm c hmem.1
  have h2 := hexstring_bytes c
  have h3 : isSPC c = false := by simpa using hmem.2
  simpa [h1, h3] using h2

/-- Under the invariant a scanner adds no `err` token and re-establishes the invariant. -/
theorem hit_ok (st : St) (c : UInt8) (j : Nat) (hi : Inv st) :
    Inv (atHit st c j).st ∧ NoErr (atHit st c j).toks := by
  unfold atHit
  cases hmode : st.mode <;> simp only
  · -- main
    simp only [parseMainHit]
    repeat' split
    all_goals
      refine ⟨⟨?_, ?_, ?_, ?_, ?_⟩, ?_⟩
      all_goals first
        | exact hi.hex
        | exact hi.hexLen
        | exact hi.oct
        | (intro hm; simp at hm; done)
        | (intro hm; rfl)
        | (intro hm; rw [hmode] at hm; simp at hm; done)
        | (simp [NoErr, emit, isErr]; done)
  · -- comment
    exact ⟨⟨hi.hex, hi.hexLen, hi.oct, by simp [parseCommentHit], by simp [parseCommentHit]⟩, by simp [parseCommentHit, NoErr]⟩
  · -- literal
    simp only [parseLiteralHit]; split
    · exact ⟨⟨by simp, by simp, hi.oct, by simp, by simp⟩, by simp [NoErr]⟩
    · exact ⟨⟨hi.hex, hi.hexLen, hi.oct, by simp, by simp⟩, by simp [NoErr, emit, isErr]⟩
  · -- literalHex
    simp only [parseLiteralHexHit]
    split
    · rename_i hc
      simp only [Bool.and_eq_true, decide_eq_true_eq] at hc
      refine ⟨⟨?_, ?_, hi.oct, by simp [hmode], by simp [hmode]⟩, by simp [NoErr]⟩
      · intro x hx; simp at hx; rcases hx with hx | rfl
        · exact hi.hex x hx
        · exact hc.1
      · simp; omega
    · split
      · exact ⟨⟨hi.hex, hi.hexLen, hi.oct, by simp, by simp⟩, by simp [NoErr]⟩
      · rename_i hne
        obtain ⟨v, hv, hlt⟩ := literalHex_ok st hi (by simpa using hne)
        simp only [hv, hlt, if_true]
        exact ⟨⟨hi.hex, hi.hexLen, hi.oct, by simp, by simp⟩, by simp [NoErr]⟩
  · -- number
    simp only [parseNumberHit]; split
    · exact ⟨⟨hi.hex, hi.hexLen, hi.oct, by simp, by simp⟩, by simp [NoErr]⟩
    · refine ⟨⟨hi.hex, hi.hexLen, hi.oct, by simp, by simp⟩, ?_⟩
      split <;> simp [NoErr, emit, isErr]
  · -- float
    refine ⟨⟨hi.hex, hi.hexLen, hi.oct, by simp [parseFloatHit], by simp [parseFloatHit]⟩, ?_⟩
    simp only [parseFloatHit]; split <;> simp [NoErr, emit, isErr]
  · -- keyword
    refine ⟨⟨hi.hex, hi.hexLen, hi.oct, by simp [parseKeywordHit], by simp [parseKeywordHit]⟩, ?_⟩
    simp only [parseKeywordHit, NoErr, emit]
    intro t ht; simp at ht; subst ht
    simp only; split
    · rfl
    · split <;> rfl
  · -- string
    simp only [parseStringHit]
    repeat' split
    all_goals
      refine ⟨⟨?_, ?_, ?_, ?_, ?_⟩, ?_⟩
      all_goals first
        | exact hi.hex
        | exact hi.hexLen
        | exact hi.oct
        | (simp; done)
        | (intro hm; simp at hm; done)
        | (intro hm; rw [hmode] at hm; simp at hm; done)
        | (simp [NoErr, emit, isErr]; done)
  · -- string1
    simp only [parseString1Hit]
    split
    · rename_i hc
      simp only [Bool.and_eq_true, decide_eq_true_eq] at hc
      refine ⟨⟨hi.hex, hi.hexLen, ?_, by simp [hmode], by simp [hmode]⟩, by simp [NoErr]⟩
      intro x hx; simp at hx; rcases hx with hx | rfl
      · exact hi.oct x hx
      · exact hc.1
    · split
      · rename_i hne
        obtain ⟨v, hv⟩ := oct_ok st hi (by simpa using hne)
        simp only [hv]
        exact ⟨⟨hi.hex, hi.hexLen, hi.oct, by simp, by simp⟩, by simp [NoErr]⟩
      · repeat' split
        all_goals exact ⟨⟨hi.hex, hi.hexLen, hi.oct, by simp, by simp⟩, by simp [NoErr]⟩
  · -- string2
    exact ⟨⟨hi.hex, hi.hexLen, hi.oct, by simp [parseString2Hit], by simp [parseString2Hit]⟩, by simp [parseString2Hit, NoErr]⟩
  · -- wopen
    simp only [parseWopenHit]; split
    · exact ⟨⟨hi.hex, hi.hexLen, hi.oct, by simp, by simp⟩, by simp [NoErr, emit, isErr]⟩
    · refine ⟨⟨hi.hex, hi.hexLen, hi.oct, ?_, by simp⟩, by simp [NoErr]⟩
      intro _; simp [hi.wopen hmode]
  · -- wclose
    simp only [parseWcloseHit]; split
    · exact ⟨⟨hi.hex, hi.hexLen, hi.oct, by simp, by simp⟩, by simp [NoErr, emit, isErr]⟩
    · exact ⟨⟨hi.hex, hi.hexLen, hi.oct, by simp, by simp⟩, by simp [NoErr]⟩
  · -- hexstring
    obtain ⟨r, hr⟩ := hexstring_ok st hi hmode
    simp only [parseHexstringHit, hr]
    exact ⟨⟨hi.hex, hi.hexLen, hi.oct, by simp, by simp⟩, by simp [NoErr, emit, isErr]⟩
  · -- dead
    exact ⟨hi, noErr_nil⟩

theorem accum_inv (st : St) (pre : Bytes) (p : UInt8 → Bool) (hi : Inv st)
    (hs : searchClass st.mode = some p) (hp : ∀ x ∈ pre, p x = false) : Inv (accum st pre) := by
  unfold accum
  split
  · exact hi
  · refine ⟨hi.hex, hi.hexLen, hi.oct, ?_, ?_⟩
    · intro hm x hx
      simp only at hm
      rw [hm] at hs; simp only [searchClass, Option.some.injEq] at hs
      simp only [List.mem_append] at hx
      rcases hx with hx | hx
      · exact hi.hexstr hm x hx
      · rw [hs]; exact hp x hx
    · intro hm; simp only at hm; rw [hm] at hs; simp [searchClass] at hs

theorem stepN_ok : ∀ (n : Nat) (st : St) (c : UInt8) (pos : Nat), Inv st →
    Inv (stepN n st c pos).1 ∧ NoErr (stepN n st c pos).2
  | 0, st, c, pos, hi => ⟨hi, noErr_nil⟩
  | n + 1, st, c, pos, hi => by
    have hh := hit_ok st c pos hi
    have ih := stepN_ok n (atHit st c pos).st c pos hh.1
    have hit_case : Inv (if (atHit st c pos).consumed = true then ((atHit st c pos).st, (atHit st c pos).toks)
          else ((stepN n (atHit st c pos).st c pos).1, (atHit st c pos).toks ++ (stepN n (atHit st c pos).st c pos).2)).1 ∧
        NoErr (if (atHit st c pos).consumed = true then ((atHit st c pos).st, (atHit st c pos).toks)
          else ((stepN n (atHit st c pos).st c pos).1, (atHit st c pos).toks ++ (stepN n (atHit st c pos).st c pos).2)).2 := by
      by_cases hc : (atHit st c pos).consumed = true
      · simp only [hc, if_true]; exact hh
      · have hc' : (atHit st c pos).consumed = false := by simpa using hc
        simp only [hc', Bool.false_eq_true, if_false]
        exact ⟨ih.1, noErr_append hh.2 ih.2⟩
    rw [stepN]
    cases hs : searchClass st.mode with
    | none => simpa using hit_case
    | some p =>
      simp only
      by_cases hp : p c = true
      · simpa [hp] using hit_case
      · have hp' : p c = false := by simpa using hp
        simp only [hp', Bool.false_eq_true, if_false]
        exact ⟨accum_inv st [c] p hi hs (by simpa using hp'), noErr_nil⟩

theorem foldBytes_ok : ∀ (bytes : Bytes) (st : St) (pos : Nat), Inv st →
    Inv (foldBytes st bytes pos).1 ∧ NoErr (foldBytes st bytes pos).2
  | [], st, pos, hi => ⟨hi, noErr_nil⟩
  | c :: t, st, pos, hi => by
    have h1 := stepN_ok 3 st c pos hi
    have h2 := foldBytes_ok t (stepByte st c pos).1 (pos + 1) h1.1
    simp only [foldBytes]
    exact ⟨h2.1, noErr_append h1.2 h2.2⟩

end PdfVerif.Lexer
