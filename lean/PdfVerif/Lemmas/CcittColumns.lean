/-
C19 round 6d: totality of the degenerate-width parser (`Model/CcittColumns.lean`): only `InvalidData`
or `IndexError` come out, never an unmodelled branch.
-/
import PdfVerif.Lemmas.CcittTotal
import PdfVerif.Model.CcittColumns

namespace PdfVerif.Ccitt
open PdfVerif.Gen

/-- The error of a result, for kernel-evaluated examples. -/
def errOf {α : Type} : Except ColErr α → Option ColErr
  | .error e => some e
  | .ok _ => none

def StepOkD : Except ColErr (St × Sig) → Prop
  | .error e => e = .invalidData ∨ e = .indexError
  | .ok (_, .eofb) => True
  | .ok (st', _) => WT st'

theorem liftErr_ok {r : Except Err (St × Sig)} (h : StepOk r) : StepOkD (liftErr r) := by
  cases r with
  | error e => simp only [StepOk] at h; subst h; exact Or.inl rfl
  | ok p => obtain ⟨st', sg⟩ := p; cases sg <;> exact h

/-- `stepBitD` is `stepBit` with the `IndexError` guard in front of `_accept`. -/
theorem stepBitD_cases (st : St) (b : Bool) :
    stepBitD st b = .error .indexError ∨ stepBitD st b = liftErr (stepBit st b) := by
  unfold stepBitD stepBit
  cases st.node with
  | empty => right; rfl
  | leaf s => right; rfl
  | node l r =>
    simp only []
    cases (if b then r else l) with
    | node a c => right; rfl
    | empty => right; rfl
    | leaf s =>
      simp only []
      by_cases hg : indexesLine st (some s) = true
      · left; simp only [hg, if_true]
      · right; simp only [hg]; rfl

theorem stepBitD_ok (st : St) (b : Bool) (h : WT st) : StepOkD (stepBitD st b) := by
  rcases stepBitD_cases st b with h1 | h1
  · rw [h1]; exact Or.inr rfl
  · rw [h1]; exact liftErr_ok (stepBit_ok st b h)

theorem feedBitsD_ok : ∀ (bits : List Bool) (st : St), WT st → StepOkD (feedBitsD st bits) := by
  intro bits
  induction bits with
  | nil => intro st h; exact h
  | cons b bs ih =>
    intro st h
    have hs := stepBitD_ok st b h
    simp only [feedBitsD]
    cases hr : stepBitD st b with
    | error e => rw [hr] at hs; exact hs
    | ok r =>
      obtain ⟨st', sg⟩ := r
      rw [hr] at hs
      cases sg with
      | cont => exact ih st' hs
      | byteSkip => exact hs
      | eofb => trivial

theorem feedBytesD_total : ∀ (data : List UInt8) (st : St), WT st →
    (∃ st', feedBytesD st data = .ok st') ∨ feedBytesD st data = .error .invalidData ∨
      feedBytesD st data = .error .indexError := by
  intro data
  induction data with
  | nil => intro st _; exact Or.inl ⟨st, rfl⟩
  | cons b bs ih =>
    intro st h
    have hs := feedBitsD_ok (bitsOfByte b) st h
    simp only [feedBytesD]
    cases hr : feedBitsD st (bitsOfByte b) with
    | error e =>
      rw [hr] at hs
      rcases hs with hs | hs <;> subst hs
      · exact Or.inr (Or.inl rfl)
      · exact Or.inr (Or.inr rfl)
    | ok r =>
      obtain ⟨st', sg⟩ := r
      rw [hr] at hs
      cases sg with
      | cont => exact ih st' hs
      | byteSkip => exact ih st' hs
      | eofb => exact Or.inl ⟨st', rfl⟩

end PdfVerif.Ccitt
