/-
Lemmas about `_create_unique_image_name` (Model/ImageName.lean): decimal rendering is injective,
candidates are pairwise different, the loop stops within `existing.length + 1` iterations and its
result is a name that does not exist yet.
-/
import PdfVerif.Model.ImageName

namespace PdfVerif.ImageNameLemmas
open PdfVerif PdfVerif.ImageName

/-- Value of little-endian ASCII digits. -/
def valRev : List UInt8 → Nat
  | [] => 0
  | d :: ds => (d.toNat - 48) + 10 * valRev ds

theorem valRev_decRev : ∀ (fuel n : Nat), n < fuel → valRev (decRev fuel n) = n
  | 0, _, h => by omega
  | fuel + 1, n, h => by
    unfold decRev
    by_cases h10 : n < 10
    · simp only [h10, if_true, valRev, UInt8.toNat_ofNat']
      omega
    · have ih := valRev_decRev fuel (n / 10) (by omega)
      simp only [h10, if_false, valRev, UInt8.toNat_ofNat', ih]
      omega

theorem dec_injective {a b : Nat} (h : dec a = dec b) : a = b := by
  unfold dec at h
  have h' : decRev (a + 1) a = decRev (b + 1) b := by
    have := congrArg List.reverse h
    simpa using this
  have ha := valRev_decRev (a + 1) a (by omega)
  have hb := valRev_decRev (b + 1) b (by omega)
  by_cases hab : a ≤ b
  · -- compare through the value function; the fuel differs, so go through the lists
    have : valRev (decRev (a + 1) a) = valRev (decRev (b + 1) b) := by rw [h']
    omega
  · have : valRev (decRev (a + 1) a) = valRev (decRev (b + 1) b) := by rw [h']
    omega

theorem dec_ne_nil (n : Nat) : dec n ≠ [] := by
  unfold dec decRev
  simp

theorem candidate_injective (name ext : Bytes) : ∀ {i j : Nat}, candidate name ext i = candidate name ext j → i = j
  | 0, 0, _ => rfl
  | 0, j + 1, h => by
    simp only [candidate, List.append_assoc, List.append_cancel_left_eq] at h
    have := congrArg List.length h
    simp at this
    omega
  | i + 1, 0, h => by
    simp only [candidate, List.append_assoc, List.append_cancel_left_eq] at h
    have := congrArg List.length h
    simp at this
    omega
  | i + 1, j + 1, h => by
    simp only [candidate, List.append_assoc, List.append_cancel_left_eq, List.cons_append, List.nil_append,
      List.cons.injEq, true_and, List.append_cancel_right_eq] at h
    rw [dec_injective h]

/-- Every candidate ends with the extension. -/
theorem candidate_suffix (name ext : Bytes) (k : Nat) : ∃ stem, candidate name ext k = stem ++ ext := by
  cases k with
  | zero => exact ⟨name, rfl⟩
  | succ k => exact ⟨name ++ [46] ++ dec k, by simp [candidate]⟩

/-- Every candidate starts with the image name. -/
theorem candidate_prefix (name ext : Bytes) (k : Nat) : ∃ tail, candidate name ext k = name ++ tail := by
  cases k with
  | zero => exact ⟨ext, rfl⟩
  | succ k => exact ⟨[46] ++ dec k ++ ext, by simp [candidate]⟩

theorem uniqueLoop_congr (p q : Bytes → Bool) (name ext : Bytes) : ∀ (fuel k : Nat),
    (∀ j, k ≤ j → p (candidate name ext j) = q (candidate name ext j)) →
    uniqueLoop p name ext fuel k = uniqueLoop q name ext fuel k
  | 0, _, _ => rfl
  | fuel + 1, k, h => by
    unfold uniqueLoop
    rw [h k (Nat.le_refl k), uniqueLoop_congr p q name ext fuel (k + 1) (fun j hj => h j (by omega))]

theorem uniqueLoop_spec (p : Bytes → Bool) (name ext : Bytes) : ∀ (fuel k : Nat) (c : Bytes),
    uniqueLoop p name ext fuel k = some c → p c = false ∧ ∃ j, k ≤ j ∧ j < k + fuel ∧ c = candidate name ext j
  | 0, _, _, h => by simp [uniqueLoop] at h
  | fuel + 1, k, c, h => by
    unfold uniqueLoop at h
    by_cases hp : p (candidate name ext k) = true
    · rw [if_pos hp] at h
      obtain ⟨h1, j, hj1, hj2, hj3⟩ := uniqueLoop_spec p name ext fuel (k + 1) c h
      exact ⟨h1, j, by omega, by omega, hj3⟩
    · rw [if_neg hp] at h
      injection h with h
      subst h
      exact ⟨by simpa using hp, k, Nat.le_refl k, by omega, rfl⟩

/-- Termination: more fuel than existing names is always enough. -/
theorem uniqueLoop_isSome (name ext : Bytes) : ∀ (fuel : Nat) (ex : List Bytes) (k : Nat), ex.length < fuel →
    (uniqueLoop (fun c => ex.contains c) name ext fuel k).isSome = true
  | 0, _, _, h => by omega
  | fuel + 1, ex, k, h => by
    unfold uniqueLoop
    by_cases hc : ex.contains (candidate name ext k) = true
    · simp only [hc, if_true]
      have hmem : candidate name ext k ∈ ex := by simpa using hc
      have hpos : 0 < ex.length := List.length_pos_of_mem hmem
      have hlen : (ex.erase (candidate name ext k)).length < fuel := by
        rw [List.length_erase_of_mem hmem]; omega
      have ih := uniqueLoop_isSome name ext fuel (ex.erase (candidate name ext k)) (k + 1) hlen
      rw [uniqueLoop_congr (fun c => ex.contains c) (fun c => (ex.erase (candidate name ext k)).contains c)
        name ext fuel (k + 1)]
      · exact ih
      · intro j hj
        have hne : candidate name ext j ≠ candidate name ext k := by
          intro heq
          have := candidate_injective name ext heq
          omega
        simp only [List.contains_eq_mem, List.mem_erase_of_ne hne]
    · have hc' : candidate name ext k ∉ ex := by simpa using hc
      simp [hc']

theorem uniqueName_isSome (existing : List Bytes) (name ext : Bytes) :
    (uniqueName existing name ext).isSome = true :=
  uniqueLoop_isSome name ext _ existing 0 (by omega)

theorem uniqueName_fresh (existing : List Bytes) (name ext c : Bytes)
    (h : uniqueName existing name ext = some c) :
    c ∉ existing ∧ ∃ j, j ≤ existing.length ∧ c = candidate name ext j := by
  obtain ⟨h1, j, _, hj2, hj3⟩ := uniqueLoop_spec _ name ext _ 0 c h
  refine ⟨by simpa using h1, j, by omega, hj3⟩

end PdfVerif.ImageNameLemmas
