/-
C10 (round 6) - helper lemmas: digest lengths through the revision-6 hash loop, PKCS#7 unpadding as
a total function (well-formed and malformed padding), the crypt-filter map built by `init_params`.
-/
import PdfVerif.Lemmas.Crypt

namespace PdfVerif.Crypt
open PdfVerif PdfVerif.CryptWriter PdfVerif.Gen.Crypt

/-! ## the revision-6 loop keeps `32 ≤ |K|` and returns exactly 32 bytes -/

theorem r6Loop_length (P : Prims)
    (h256 : ∀ x, (P.sha256 x).length = 32) (h384 : ∀ x, (P.sha384 x).length = 48)
    (h512 : ∀ x, (P.sha512 x).length = 64) (pw vec : Bytes) :
    ∀ (fuel round last : Nat) (k r : Bytes), 32 ≤ k.length →
      r6Loop P pw vec fuel round last k = some r → r.length = 32 := by
  intro fuel
  induction fuel with
  | zero => intro round last k r _ h; simp [r6Loop] at h
  | succ n ih =>
    intro round last k r hk h
    unfold r6Loop at h
    split at h
    · refine ih _ _ _ r ?_ h
      split
      · rw [h256]; omega
      · split
        · rw [h384]; omega
        · rw [h512]; omega
    · simp only [Option.some.injEq] at h
      subst h
      simp only [List.length_take]
      omega

/-! ## PKCS#7 unpadding is total: well-formed padding is removed, anything else is left alone -/

/-- every well-formed padding (`n` bytes of value `n`, `1 ≤ n ≤ 16`, after ANY data - not only the
    `n` that makes the length a multiple of 16) is removed -/
theorem unpadAes_wellformed (d : Bytes) (n : Nat) (h1 : 1 ≤ n) (h16 : n ≤ 16) :
    unpadAes (d ++ List.replicate n (UInt8.ofNat n)) = d := by
  have hb : (UInt8.ofNat n).toNat = n := by
    simp [UInt8.toNat_ofNat']; omega
  have hlast : (d ++ List.replicate n (UInt8.ofNat n)).getLast? = some (UInt8.ofNat n) := by
    cases n with
    | zero => omega
    | succ m => simp [List.replicate_succ', ← List.append_assoc]
  unfold unpadAes UNPAD_MIN UNPAD_MAX
  rw [hlast]
  simp only [hb, List.length_append, List.length_replicate]
  have hdrop : (d ++ List.replicate n (UInt8.ofNat n)).drop (d.length + n - n) = List.replicate n (UInt8.ofNat n) := by
    simp
  have htake : (d ++ List.replicate n (UInt8.ofNat n)).take (d.length + n - n) = d := by
    simp
  rw [hdrop, htake]
  simp; omega

/-- malformed padding (last byte 0 or above 16, longer than the data, or not repeated): the data
    is returned unchanged -/
theorem unpadAes_malformed (p : Bytes)
    (h : ¬ ∃ d n, 1 ≤ n ∧ n ≤ 16 ∧ p = d ++ List.replicate n (UInt8.ofNat n)) : unpadAes p = p := by
  unfold unpadAes UNPAD_MIN UNPAD_MAX
  split
  · rfl
  · rename_i b hb
    simp only
    split
    · rename_i hc
      exfalso; apply h
      refine ⟨p.take (p.length - b.toNat), b.toNat, hc.1, hc.2.1, ?_⟩
      have : UInt8.ofNat b.toNat = b := by simp
      rw [this, ← hc.2.2.2, List.take_append_drop]
    · rfl

theorem unpadAes_prefix (p : Bytes) : unpadAes p <+: p := by
  unfold unpadAes
  split
  · exact List.prefix_refl _
  · simp only
    split
    · exact List.take_prefix _ _
    · exact List.prefix_refl _

theorem unpadAes_length (p : Bytes) :
    (unpadAes p).length ≤ p.length ∧ p.length ≤ (unpadAes p).length + 16 := by
  unfold unpadAes UNPAD_MIN UNPAD_MAX
  split
  · omega
  · simp only
    split
    · rename_i hc
      simp only [List.length_take]
      omega
    · omega


/-! ## the regenerated tables say what the standard says -/

/-- `get_cfm` as regenerated from pdfdocument.py: V4 knows V2 (RC4) and AESV2, V5 knows AESV3,
    everything else is refused.  An edit of either if/elif chain breaks this proof. -/
theorem getCfm_eq (cls : Nat) (name : Bytes) :
    getCfm cls name =
      if cls = 4 then
        if name = nameV2 then some .rc4 else if name = nameAESV2 then some .aes128 else none
      else
        if name = nameAESV3 then some .aes256 else none := by
  unfold getCfm
  by_cases h4 : cls = 4
  · simp only [h4, if_true, GET_CFM_V4, lookup, nameV2, nameAESV2]
    by_cases h1 : name = [86, 50]
    · subst h1; simp [methodOfPy]
    · by_cases h2 : name = [65, 69, 83, 86, 50]
      · subst h2; simp [methodOfPy]
      · have h1' : ¬ ([86, 50] : Bytes) = name := fun e => h1 e.symm
        have h2' : ¬ ([65, 69, 83, 86, 50] : Bytes) = name := fun e => h2 e.symm
        simp [h1, h2, h1', h2']
  · simp only [h4, if_false, GET_CFM_V5, lookup, nameAESV3]
    by_cases h1 : name = [65, 69, 83, 86, 51]
    · subst h1; simp [methodOfPy]
    · have h1' : ¬ ([65, 69, 83, 86, 51] : Bytes) = name := fun e => h1 e.symm
      simp [h1, h1']

/-! ## the crypt-filter map of `init_params` holds only methods `get_cfm` can return -/

theorem lookup_mem {α : Type} (k : Bytes) (l : List (Bytes × α)) (v : α) (h : lookup k l = some v) :
    (k, v) ∈ l := by
  induction l with
  | nil => simp [lookup] at h
  | cons kv rest ih =>
    obtain ⟨k', v'⟩ := kv
    unfold lookup at h
    split at h
    · rename_i hk
      simp only [Option.some.injEq] at h
      subst h; subst hk
      exact List.mem_cons_self
    · exact List.mem_cons_of_mem _ (ih h)

theorem buildCfm_methods (cls : Nat) (cf : List (Bytes × Bytes)) :
    ∀ ms, buildCfm cls cf = .ok ms → ∀ km ∈ ms, ∃ name, getCfm cls name = some km.2 := by
  induction cf with
  | nil =>
    intro ms h km hkm
    simp [buildCfm] at h
    subst h
    simp at hkm
  | cons kv rest ih =>
    obtain ⟨k, v⟩ := kv
    intro ms h km hkm
    unfold buildCfm at h
    split at h
    · simp at h
    · rename_i m hm
      split at h
      · simp at h
      · rename_i ms' hms'
        simp only [Except.ok.injEq] at h
        subst h
        rcases List.mem_cons.mp hkm with heq | hin
        · subst heq; exact ⟨v, hm⟩
        · exact ih ms' hms' km (List.mem_filter.mp hin).1

end PdfVerif.Crypt
