/-
Helper lemmas for C07, round 6: totality of `get_widths2`, the cidchar / cidrange handlers of `CMapParser`,
operand-discarding sections (codespace ranges), `str.strip()` on padded strings.
Property theorems are in `Props/C07.lean`.
-/
import PdfVerif.Lemmas.CIDFont

namespace PdfVerif.CIDFontLemmas
open PdfVerif PdfVerif.CIDFont PdfVerif.CIDFontSpec

/-! ### `get_widths2` never raises -/

theorem widths2Step_ok (st : W2Map × List (Rat × Bool)) (e : WElem) : ∃ st', widths2Step st e = .ok st' := by
  unfold widths2Step
  cases e with
  | list xs => cases st.2.getLast? with
    | none => exact ⟨_, rfl⟩
    | some c => exact ⟨_, rfl⟩
  | other => exact ⟨_, rfl⟩
  | num v isInt =>
    simp only
    split
    · split <;> exact ⟨_, rfl⟩
    · exact ⟨_, rfl⟩

theorem getWidths2Aux_total : ∀ (seq : List WElem) (st : W2Map × List (Rat × Bool)),
    ∃ m, getWidths2Aux seq st = .ok m
  | [], st => ⟨st.1, rfl⟩
  | e :: es, st => by
    obtain ⟨st', h⟩ := widths2Step_ok st e
    obtain ⟨m, hm⟩ := getWidths2Aux_total es st'
    exact ⟨m, by simp only [getWidths2Aux, h, hm]⟩

/-! ### cidchar / cidrange -/

theorem cidchar_fold : ∀ (es : List (Int × Bytes)) (m : UMap),
    foldEntries cidcharEntry (chop2 (es.flatMap (fun e => [Tok.int e.1, Tok.str e.2]))) m
      = .ok (putAll (es.map (fun e => (e.1, utf16Ignore e.2))) m)
  | [], m => by simp [chop2, foldEntries, putAll]
  | e :: rest, m => by
    simp only [List.flatMap_cons, List.cons_append, List.nil_append, chop2, foldEntries, cidcharEntry, addCid,
      List.map_cons, putAll_cons]
    exact cidchar_fold rest _

theorem nunpack_lt : ∀ (t : Bytes), nunpack t < 256 ^ t.length
  | [] => by simp [nunpack]
  | b :: rest => by
    have ih := nunpack_lt rest
    have hb : b.toNat ≤ 255 := by have := b.toNat_lt; omega
    have hm : b.toNat * 256 ^ rest.length ≤ 255 * 256 ^ rest.length := Nat.mul_le_mul_right _ hb
    simp only [nunpack, List.length_cons, Nat.pow_succ]
    omega

/-- One `<lo> <hi> cid` entry of a cidrange section: codes `lo … hi` (equal length, equal bytes before the last
four, `lo` non-empty) get `cid + i ↦ text of the code lo + i` (big-endian increment of the last `min 4 len` bytes). -/
theorem cidrangeEntry_ok (s e : Bytes) (cid : Int) (m : UMap) (hlen : s.length = e.length) (hne : s ≠ [])
    (hpre : dropLast4 s = dropLast4 e) :
    cidrangeEntry m (Tok.str s, Tok.str e, Tok.int cid) = .ok (putAll
      ((List.range (nunpack (takeLast 4 e) + 1 - nunpack (takeLast 4 s))).map
        (fun i => (cid + ((i : Nat) : Int), utf16Ignore (incBE s i)))) m) := by
  obtain ⟨hl4, hl1⟩ := takeLast4_length s
  have hl1 := hl1 hne
  have hpow := pow256_le _ hl4
  have hs := nunpack_lt (takeLast 4 s)
  have he := nunpack_lt (takeLast 4 e)
  have hlen4 : (takeLast 4 e).length = (takeLast 4 s).length := by
    simp only [takeLast, show (4 : Nat) ≠ 0 by decide, if_false, List.length_drop, hlen]
  rw [hlen4] at he
  simp only [cidrangeEntry, hlen, hpre, ne_eq, not_true_eq_false, if_false]
  rw [← hpre, rangeLoop_ok _ _ _ _ _ _ _ (by omega)]
  congr 2
  apply List.map_congr_left
  intro j _
  simp only [Nat.zero_add, incBE, takeLast_pack _ _ hl1 hl4]

/-! ### sections whose operands are discarded -/

theorem runToks_discard (kw1 kw2 : String) (h1 : popallKeywords.contains kw1 = true)
    (h2 : popallKeywords.contains kw2 = true)
    (hn1 : kw1 ≠ "begincmap" ∧ kw1 ≠ "endcmap" ∧ kw1 ≠ "def" ∧ kw1 ≠ "usecmap")
    (hn2 : kw2 ≠ "begincmap" ∧ kw2 ≠ "endcmap" ∧ kw2 ≠ "def" ∧ kw2 ≠ "usecmap")
    (ops : List Tok) (hops : ops.all notKw = true) (st : PState) :
    runToks (Tok.kw kw1 :: ops ++ [Tok.kw kw2]) st = .ok { st with stack := if st.inCmap then [] else ops.reverse ++ st.stack } := by
  obtain ⟨a1, a2, a3, a4⟩ := hn1
  obtain ⟨b1, b2, b3, b4⟩ := hn2
  have h1' : kw1 ∈ popallKeywords := by simpa using h1
  have h2' : kw2 ∈ popallKeywords := by simpa using h2
  cases hc : st.inCmap with
  | true =>
    have hk1 : doKeyword st kw1 = .ok { st with stack := [] } := by
      simp [doKeyword, hc, h1', a1, a2, a3, a4]
    simp only [List.cons_append, runToks, stepTok, hk1]
    rw [runToks_append, runToks_push _ _ hops]
    simp only [runToks, stepTok]
    simp [doKeyword, hc, h2', b1, b2, b3, b4]
  | false =>
    have hk1 : doKeyword st kw1 = .ok st := by
      simp [doKeyword, hc, a1, a2]
    simp only [List.cons_append, runToks, stepTok, hk1]
    rw [runToks_append, runToks_push _ _ hops]
    simp [runToks, stepTok, doKeyword, hc, b1, b2]

/-! ### `str.strip()` -/

theorem dropWhile_all_append (p : UInt8 → Bool) : ∀ (a rest : Bytes), (∀ c ∈ a, p c = true) →
    (a ++ rest).dropWhile p = rest.dropWhile p
  | [], _, _ => rfl
  | c :: a, rest, h => by
    have hc := h c (by simp)
    simp only [List.cons_append, List.dropWhile_cons, hc, if_true]
    exact dropWhile_all_append p a rest (fun x hx => h x (by simp [hx]))

theorem dropWhile_head_false (p : UInt8 → Bool) (l : Bytes) (h : ∀ x, l.head? = some x → p x = false) :
    l.dropWhile p = l := by
  cases l with
  | nil => rfl
  | cons x t => simp [h x rfl]

/-- Padding with white space on both sides is removed, nothing else. -/
theorem pyStrip_pad (a mid b : Bytes) (ha : ∀ c ∈ a, isPySpace c = true) (hb : ∀ c ∈ b, isPySpace c = true)
    (hh : ∀ x, mid.head? = some x → isPySpace x = false)
    (hl : ∀ x, mid.getLast? = some x → isPySpace x = false) :
    pyStrip (a ++ mid ++ b) = mid := by
  unfold pyStrip
  rw [List.append_assoc, dropWhile_all_append _ a _ ha]
  cases mid with
  | nil =>
    simp only [List.nil_append]
    have : b.dropWhile isPySpace = [] := by
      have := dropWhile_all_append isPySpace b [] hb
      simpa using this
    rw [this]; rfl
  | cons x t =>
    have h1 : (x :: t ++ b).dropWhile isPySpace = x :: t ++ b :=
      dropWhile_head_false _ _ (by intro y hy; simp at hy; subst hy; exact hh _ rfl)
    have h2 : (b.reverse ++ (x :: t).reverse).dropWhile isPySpace = ((x :: t).reverse).dropWhile isPySpace :=
      dropWhile_all_append _ b.reverse _ (by intro c hc; exact hb c (by simpa using hc))
    have h3 : ((x :: t).reverse).dropWhile isPySpace = (x :: t).reverse :=
      dropWhile_head_false _ _ (by
        intro y hy
        rw [List.head?_reverse] at hy
        exact hl y hy)
    rw [h1, List.reverse_append, h2, h3, List.reverse_reverse]

end PdfVerif.CIDFontLemmas
