/-
C07, round 6: the bytes of a spelled object sequence (hex strings, decimal integers, names, keywords, flat
arrays of hex strings; any non-empty separator of white space and comments after each) lex — by the C14 tokenizer
model — to the tokens of the objects.  Built on the token units of C14 / C01 (`LexUnit`).
-/
import PdfVerif.Lemmas.Roundtrip
import PdfVerif.Lemmas.CMapLex

namespace PdfVerif.CIDFontLemmas
open PdfVerif PdfVerif.CIDFont PdfVerif.Lexer PdfVerif.Roundtrip PdfVerif.Gen.LexTables

/-! ### hexadecimal spelling of a byte string -/

def hexDigit (n : Nat) : UInt8 := if n < 10 then UInt8.ofNat (48 + n) else UInt8.ofNat (87 + n)

def hexOf : Bytes → Bytes
  | [] => []
  | c :: r => hexDigit (c.toNat / 16) :: hexDigit (c.toNat % 16) :: hexOf r

theorem hex_byte : ∀ c : UInt8,
    (isHEX (hexDigit (c.toNat / 16)) && isHEX (hexDigit (c.toNat % 16)) && !isSPC (hexDigit (c.toNat / 16)) &&
      !isSPC (hexDigit (c.toNat % 16)) &&
      (UInt8.ofNat (hexCharVal (hexDigit (c.toNat / 16)) * 16 + hexCharVal (hexDigit (c.toNat % 16))) == c)) = true :=
  forall_byte _ (by decide +kernel)

theorem hexOf_facts : ∀ (b : Bytes),
    (∀ c ∈ hexOf b, isHEX c = true ∨ isSPC c = true) ∧ hexDigitsOf (hexOf b) = hexOf b ∧
    (hexOf b).length = 2 * b.length ∧ pairUp (hexOf b) = b
  | [] => by simp [hexOf, hexDigitsOf, pairUp]
  | c :: r => by
    obtain ⟨i1, i2, i3, i4⟩ := hexOf_facts r
    have hb := hex_byte c
    simp only [Bool.and_eq_true, Bool.not_eq_true', beq_iff_eq] at hb
    obtain ⟨⟨⟨⟨h1, h2⟩, h3⟩, h4⟩, h5⟩ := hb
    refine ⟨?_, ?_, ?_, ?_⟩
    · intro x hx
      simp only [hexOf, List.mem_cons] at hx
      rcases hx with rfl | rfl | hx
      · exact Or.inl h1
      · exact Or.inl h2
      · exact i1 x hx
    · simp only [hexDigitsOf] at i2 ⊢
      simp [hexOf, List.filter_cons, h3, h4, i2]
    · simp [hexOf, i3]; omega
    · simp [hexOf, pairUp, h5, i4]

def hexSpell (b : Bytes) : Bytes := 60 :: (hexOf b ++ [62])

theorem unit_hexSpell (b : Bytes) (g : List SepItem) (hg : sepOK g) :
    LexUnit (hexSpell b ++ renderSep g) [Token.str b] false := by
  obtain ⟨h1, h2, h3, h4⟩ := hexOf_facts b
  have hu := unit_hex (hexOf b) b.length h1 (by rw [h2, h3])
  rw [h2, h4] at hu
  exact free_sep hu g hg

/-! ### spelled objects -/

inductive STok where
  | hex (b : Bytes)
  | int (ds : Bytes)
  | name (b : Bytes)
  | kw (b : Bytes)
  | arr (ds : List Bytes)

def STok.ok : STok → Bool
  | .hex _ => true
  | .int ds => !ds.isEmpty && ds.all isDigit && decide (ds.length ≤ 4300)
  | .name b => b.all nameRaw
  | .kw b => !b.isEmpty && b.all isAlpha && b != kwTrue && b != kwFalse
  | .arr _ => true

def STok.val : STok → BTok
  | .hex b => .str b
  | .int ds => .int (decimalNat ds)
  | .name b => .name b
  | .kw b => .kw b
  | .arr ds => .arr (ds.map AElem.str)

/-- `g` = the rendered separator written after every object (and after every array element). -/
def STok.spell (g : Bytes) : STok → Bytes
  | .hex b => hexSpell b ++ g
  | .int ds => ds ++ g
  | .name b => (47 :: b) ++ g
  | .kw b => b ++ g
  | .arr ds => ([91] ++ g) ++ (ds.flatMap (fun d => hexSpell d ++ g) ++ ([93] ++ g))

theorem renderName_raw : ∀ (b : Bytes), renderName (b.map NameItem.raw) = b ∧ nameValue (b.map NameItem.raw) = b
  | [] => by simp [renderName, nameValue]
  | c :: r => by
    obtain ⟨h1, h2⟩ := renderName_raw r
    simp [renderName, nameValue, NameItem.render, NameItem.value, h1, h2]

theorem unit_hexes (g : List SepItem) (hg : sepOK g) : ∀ (ds : List Bytes),
    LexUnit (ds.flatMap (fun d => hexSpell d ++ renderSep g)) (ds.map Token.str) false
  | [] => LexUnit.nil
  | d :: r => by
    have := LexUnit.append_free (unit_hexSpell d g hg) (unit_hexes g hg r)
    simpa using this

theorem unit_stok (g : List SepItem) (hg : sepOK g) (hne : g ≠ []) (t : STok) (h : t.ok = true) :
    LexUnit (t.spell (renderSep g)) t.val.flat false := by
  have hemp : g.isEmpty = false := by cases g with
    | nil => exact absurd rfl hne
    | cons _ _ => rfl
  cases t with
  | hex b => exact unit_hexSpell b g hg
  | int ds =>
    simp only [STok.ok, Bool.and_eq_true, Bool.not_eq_true', List.isEmpty_eq_false_iff, List.all_eq_true,
      decide_eq_true_eq] at h
    have hu := tok_sep (unit_int [] ds (Or.inl rfl) h.1.1 h.1.2 h.2) g hg
    rw [hemp] at hu
    simpa [STok.spell, STok.val, BTok.flat, intValue] using hu
  | name b =>
    simp only [STok.ok, List.all_eq_true] at h
    obtain ⟨r1, r2⟩ := renderName_raw b
    have hu := tok_sep (unit_name (b.map NameItem.raw) (by
      intro i hi
      obtain ⟨c, hc, rfl⟩ := List.mem_map.mp hi
      exact h c hc)) g hg
    rw [hemp, r1, r2] at hu
    simpa [STok.spell, STok.val, BTok.flat] using hu
  | kw b =>
    cases b with
    | nil => simp [STok.ok] at h
    | cons c w =>
      simp only [STok.ok, Bool.and_eq_true, Bool.not_eq_true', List.isEmpty_cons, Bool.not_false, true_and,
        List.all_cons, List.all_eq_true, bne_iff_ne, ne_eq] at h
      obtain ⟨⟨⟨hc, hw⟩, ht⟩, hf⟩ := h
      have hu := tok_sep (unit_keyword c w hc hw) g hg
      have e1 : ((c :: w) == kwTrue) = false := by simpa using ht
      have e2 : ((c :: w) == kwFalse) = false := by simpa using hf
      rw [hemp, e1, e2] at hu
      simpa [STok.spell, STok.val, BTok.flat] using hu
  | arr ds =>
    have h1 := free_sep LexUnit.open_bracket g hg
    have h2 := unit_hexes g hg ds
    have h3 := free_sep LexUnit.close_bracket g hg
    have := LexUnit.append_free h1 (LexUnit.append_free h2 h3)
    simpa [STok.spell, STok.val, BTok.flat, flatElem, List.map_map, Function.comp_def] using this

theorem unit_stoks (g : List SepItem) (hg : sepOK g) (hne : g ≠ []) : ∀ (ts : List STok), ts.all STok.ok = true →
    LexUnit (ts.flatMap (STok.spell (renderSep g))) (ts.flatMap (fun t => t.val.flat)) false
  | [], _ => LexUnit.nil
  | t :: r, h => by
    simp only [List.all_cons, Bool.and_eq_true] at h
    have := LexUnit.append_free (unit_stok g hg hne t h.1) (unit_stoks g hg hne r h.2)
    simpa using this

/-- the flushed newline yields nothing from a hand-over state (as in `Props/C01`) -/
theorem ho_newline' (st : St) (p : Nat) (h : HO st) : (foldBytes st [10] p).2 = [] := by
  have hsp : isNONSPC 10 = false := by decide +kernel
  rcases h with hm | hw
  · simp [foldBytes, stepByte, stepN, searchClass, hsp, hm]
  · rw [fold_from_wclose st 10 [] p hw (by decide)]
    simp [foldBytes, stepByte, stepN, searchClass, hsp]

/-- The tokenizer on the bytes of a spelled object sequence. -/
theorem lex_stoks (g : List SepItem) (hg : sepOK g) (hne : g ≠ []) (ts : List STok) (h : ts.all STok.ok = true) :
    (specLex (ts.flatMap (STok.spell (renderSep g)))).map (·.2) = ts.flatMap (fun t => t.val.flat) := by
  obtain ⟨st', hm, e⟩ := unit_stoks g hg hne ts h St.init 10 [] 0 (Or.inl rfl) (fun _ => by decide)
  unfold specLex
  have e' := e
  simp only [tokVals] at e'
  rw [e', ho_newline' st' _ hm]
  simp

end PdfVerif.CIDFontLemmas

/-! ### a ToUnicode CMap as written in a file -/

namespace PdfVerif.CIDFontLemmas
open PdfVerif PdfVerif.CIDFont PdfVerif.CIDFontSpec PdfVerif.Lexer PdfVerif.Roundtrip PdfVerif.Gen.LexTables

/-- A section together with the count written before its `begin…` keyword: any digit string (the parser
discards it, so it need not be the number of entries). -/
abbrev CSec := Bytes × Sec

def renderSecN (n : Int) : Sec → List Tok
  | .chars es => [.int n, .kw "beginbfchar"] ++ es.flatMap (fun e => [Tok.str e.1, Tok.str e.2]) ++ [.kw "endbfchar"]
  | .ranges es => [.int n, .kw "beginbfrange"] ++ es.flatMap renderREntry ++ [.kw "endbfrange"]

/-- Token list of the CMap with the written counts. -/
def renderN (ps : List CSec) : List Tok :=
  headerToks ++ ps.flatMap (fun p => renderSecN (decimalNat p.1) p.2) ++ trailerToks

theorem runSecN (n : Int) (sec : Sec) (st : PState) (hc : st.inCmap = true) :
    runToks (renderSecN n sec) st = runToks (renderSec sec) st := by
  cases sec with
  | chars es =>
    simp only [renderSecN, renderSec, List.cons_append, List.nil_append, runToks, stepTok]
    rw [doKw_beginbfchar _ (by simpa using hc), doKw_beginbfchar _ (by simpa using hc)]
  | ranges es =>
    simp only [renderSecN, renderSec, List.cons_append, List.nil_append, runToks, stepTok]
    rw [doKw_beginbfrange _ (by simpa using hc), doKw_beginbfrange _ (by simpa using hc)]

theorem runSecsN : ∀ (ps : List CSec) (st : PState), st.inCmap = true → st.stack = [] →
    (ps.map (·.2)).all secOk = true →
    runToks (ps.flatMap (fun p => renderSecN (decimalNat p.1) p.2)) st
      = .ok { st with map := putAll (specPairs (ps.map (·.2))) st.map }
  | [], st, _, _, _ => by simp [runToks, specPairs, putAll]
  | p :: rest, st, hc, hs, hok => by
    simp only [List.map_cons, List.all_cons, Bool.and_eq_true] at hok
    simp only [List.flatMap_cons]
    rw [runToks_append, runSecN _ _ st hc, runSec p.2 st hc hok.1]
    simp only
    rw [runSecsN rest _ (by simpa using hc) rfl hok.2]
    simp only [specPairs, List.map_cons, List.flatMap_cons, putAll_append]
    cases st
    simp_all

theorem parse_renderN (ps : List CSec) (hok : (ps.map (·.2)).all secOk = true) :
    parseToUnicode (renderN ps) = .ok (putAll (specPairs (ps.map (·.2))) []) := by
  unfold parseToUnicode renderN
  rw [List.append_assoc, runToks_append, run_header]
  simp only
  rw [runToks_append, runSecsN ps PState.init rfl rfl hok]
  simp only
  exact run_trailer _ rfl

def headerS : List STok :=
  [.name [67, 73, 68, 73, 110, 105, 116],
   .name [80, 114, 111, 99, 83, 101, 116],
   .kw [102, 105, 110, 100, 114, 101, 115, 111, 117, 114, 99, 101],
   .kw [98, 101, 103, 105, 110],
   .int [49, 50],
   .kw [100, 105, 99, 116],
   .kw [98, 101, 103, 105, 110],
   .kw [98, 101, 103, 105, 110, 99, 109, 97, 112],
   .name [67, 77, 97, 112, 78, 97, 109, 101],
   .name [65, 100, 111, 98, 101, 45, 73, 100, 101, 110, 116, 105, 116, 121, 45, 85, 67, 83],
   .kw [100, 101, 102],
   .name [67, 77, 97, 112, 84, 121, 112, 101],
   .int [50],
   .kw [100, 101, 102],
   .int [49],
   .kw [98, 101, 103, 105, 110, 99, 111, 100, 101, 115, 112, 97, 99, 101, 114, 97, 110, 103, 101],
   .hex [0, 0],
   .hex [255, 255],
   .kw [101, 110, 100, 99, 111, 100, 101, 115, 112, 97, 99, 101, 114, 97, 110, 103, 101]]

def trailerS : List STok :=
  [.kw [101, 110, 100, 99, 109, 97, 112],
   .kw [67, 77, 97, 112, 78, 97, 109, 101],
   .kw [99, 117, 114, 114, 101, 110, 116, 100, 105, 99, 116],
   .name [67, 77, 97, 112],
   .kw [100, 101, 102, 105, 110, 101, 114, 101, 115, 111, 117, 114, 99, 101],
   .kw [112, 111, 112],
   .kw [101, 110, 100],
   .kw [101, 110, 100]]

def entryS (e : REntry) : List STok :=
  [.hex e.lo, .hex e.hi, match e.dst with | .inc d => .hex d | .arr ds => .arr ds]

def secS : CSec → List STok
  | (cnt, .chars es) => [.int cnt, .kw [98, 101, 103, 105, 110, 98, 102, 99, 104, 97, 114]] ++ es.flatMap (fun e => [STok.hex e.1, STok.hex e.2]) ++ [.kw [101, 110, 100, 98, 102, 99, 104, 97, 114]]
  | (cnt, .ranges es) => [.int cnt, .kw [98, 101, 103, 105, 110, 98, 102, 114, 97, 110, 103, 101]] ++ es.flatMap entryS ++ [.kw [101, 110, 100, 98, 102, 114, 97, 110, 103, 101]]

/-- The objects of the file, in order. -/
def progS (ps : List CSec) : List STok := headerS ++ ps.flatMap secS ++ trailerS

def cntOK (cnt : Bytes) : Bool := !cnt.isEmpty && cnt.all isDigit && decide (cnt.length ≤ 4300)

/-- `ts` are well-spelled objects whose values are the tokens `toks`. -/
def Facts (ts : List STok) (toks : List Tok) : Prop :=
  ts.map (fun t => t.val.toTok) = toks ∧ ts.all STok.ok = true ∧ (ts.map STok.val).all BTok.plain = true

theorem Facts.append {a b : List STok} {x y : List Tok} (h1 : Facts a x) (h2 : Facts b y) : Facts (a ++ b) (x ++ y) := by
  obtain ⟨a1, a2, a3⟩ := h1
  obtain ⟨b1, b2, b3⟩ := h2
  exact ⟨by simp [a1, b1], by simp [a2, b2], by simp [a3, b3]⟩

theorem Facts.flatMap {α : Type} (f : α → List STok) (g : α → List Tok) : ∀ (l : List α),
    (∀ a ∈ l, Facts (f a) (g a)) → Facts (l.flatMap f) (l.flatMap g)
  | [], _ => ⟨rfl, rfl, rfl⟩
  | a :: l, h => by
    simp only [List.flatMap_cons]
    exact Facts.append (h a (by simp)) (Facts.flatMap f g l (fun x hx => h x (by simp [hx])))

theorem facts_hex (b : Bytes) : Facts [.hex b] [.str b] := ⟨rfl, rfl, rfl⟩
theorem facts_arr (ds : List Bytes) : Facts [.arr ds] [.arr (ds.map AElem.str)] := ⟨rfl, rfl, rfl⟩
theorem facts_int (cnt : Bytes) (h : cntOK cnt = true) : Facts [.int cnt] [.int (decimalNat cnt)] :=
  ⟨rfl, by simpa [STok.ok, cntOK] using h, rfl⟩

theorem facts_header : Facts headerS headerToks := by
  refine ⟨by decide +kernel, by decide +kernel, by decide +kernel⟩
theorem facts_trailer : Facts trailerS trailerToks := by
  refine ⟨by decide +kernel, by decide +kernel, by decide +kernel⟩
theorem facts_kw1 : Facts [.kw [98, 101, 103, 105, 110, 98, 102, 99, 104, 97, 114]] [.kw "beginbfchar"] := by
  refine ⟨by decide +kernel, by decide +kernel, by decide +kernel⟩
theorem facts_kw2 : Facts [.kw [101, 110, 100, 98, 102, 99, 104, 97, 114]] [.kw "endbfchar"] := by
  refine ⟨by decide +kernel, by decide +kernel, by decide +kernel⟩
theorem facts_kw3 : Facts [.kw [98, 101, 103, 105, 110, 98, 102, 114, 97, 110, 103, 101]] [.kw "beginbfrange"] := by
  refine ⟨by decide +kernel, by decide +kernel, by decide +kernel⟩
theorem facts_kw4 : Facts [.kw [101, 110, 100, 98, 102, 114, 97, 110, 103, 101]] [.kw "endbfrange"] := by
  refine ⟨by decide +kernel, by decide +kernel, by decide +kernel⟩

theorem facts_entry (e : REntry) : Facts (entryS e) (renderREntry e) := by
  obtain ⟨lo, hi, dst⟩ := e
  cases dst with
  | inc d => exact Facts.append (facts_hex lo) (Facts.append (facts_hex hi) (facts_hex d))
  | arr ds => exact Facts.append (facts_hex lo) (Facts.append (facts_hex hi) (facts_arr ds))

theorem facts_sec (p : CSec) (hc : cntOK p.1 = true) : Facts (secS p) (renderSecN (decimalNat p.1) p.2) := by
  obtain ⟨cnt, sec⟩ := p
  cases sec with
  | chars es =>
    have h := Facts.append (facts_int cnt hc) (Facts.append facts_kw1 (Facts.append
      (Facts.flatMap (fun e : Bytes × Bytes => [STok.hex e.1, STok.hex e.2]) (fun e => [Tok.str e.1, Tok.str e.2]) es
        (fun e _ => Facts.append (facts_hex e.1) (facts_hex e.2))) facts_kw2))
    simpa [secS, renderSecN] using h
  | ranges es =>
    have h := Facts.append (facts_int cnt hc) (Facts.append facts_kw3 (Facts.append
      (Facts.flatMap entryS renderREntry es (fun e _ => facts_entry e)) facts_kw4))
    simpa [secS, renderSecN] using h

theorem facts_prog (ps : List CSec) (hc : ps.all (fun p => cntOK p.1) = true) : Facts (progS ps) (renderN ps) := by
  unfold progS renderN
  exact Facts.append (Facts.append facts_header (Facts.flatMap secS (fun p => renderSecN (decimalNat p.1) p.2) ps
    (fun p hp => facts_sec p (List.all_eq_true.mp hc p hp)))) facts_trailer

/-- From the bytes of the file to the token list of the CMap. -/
theorem group_lex_prog (g : List SepItem) (hg : sepOK g) (hne : g ≠ []) (ps : List CSec)
    (hc : ps.all (fun p => cntOK p.1) = true) :
    groupToks ((specLex ((progS ps).flatMap (STok.spell (renderSep g)))).map (·.2)) = some (renderN ps) := by
  obtain ⟨f1, f2, f3⟩ := facts_prog ps hc
  rw [lex_stoks g hg hne _ f2]
  have := groupAux_flat ((progS ps).map STok.val) [] [] f3
  simp only [List.append_nil, List.flatMap_map, List.map_map] at this
  unfold groupToks
  rw [show (fun t : STok => t.val.flat) = (BTok.flat ∘ STok.val) from rfl] at *
  rw [this]
  simp only [groupAux, List.reverse_reverse, Function.comp_def]
  rw [← f1]

end PdfVerif.CIDFontLemmas
