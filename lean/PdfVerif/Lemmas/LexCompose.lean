/-
Compositionality of the tokenizer (helper lemmas for `Props/C14.lean`): once the lexer is back in the
main scanner, what follows is tokenised exactly as if it were a fresh input — same token VALUES,
positions shifted by the offset.  Mechanism: a relation `Rel k` between two lexer states that agree
on every attribute the current scanner can still read (stale attributes are ignored: `hex` outside
`_parse_literal_hex`, `oct` outside `_parse_string_1`, `paren` outside the string scanners,
everything but the mode inside `_parse_main`), preserved by every scanner at every byte.
-/
import PdfVerif.Lemmas.LexerPos
import PdfVerif.Lemmas.LexerErr

namespace PdfVerif.Lexer
open PdfVerif PdfVerif.Gen.LexTables

theorem shiftToks_append (k : Nat) (a b : List PTok) : shiftToks k (a ++ b) = shiftToks k a ++ shiftToks k b := by
  simp [shiftToks]

theorem shiftToks_nil (k : Nat) : shiftToks k [] = [] := rfl

theorem shiftToks_zero (ts : List PTok) : shiftToks 0 ts = ts := by
  simp [shiftToks]

theorem shiftToks_shiftToks (a b : Nat) (ts : List PTok) : shiftToks a (shiftToks b ts) = shiftToks (b + a) ts := by
  simp [shiftToks, Nat.add_assoc]

/-- The two states agree on everything the current scanner (and those it can hand over to) reads;
    `_curtokenpos` differs by `k`. -/
def Rel (k : Nat) (s s' : St) : Prop :=
  s.mode = s'.mode ∧ (s.mode ≠ .main → s.cur = s'.cur ∧ s.tpos = s'.tpos + k) ∧
  (s.mode = .literalHex → s.hex = s'.hex) ∧ (s.mode = .string1 → s.oct = s'.oct) ∧
  ((s.mode = .string ∨ s.mode = .string1 ∨ s.mode = .string2) → s.paren = s'.paren)

theorem rel_main (k : Nat) (s s' : St) (h : s.mode = .main) (h' : s'.mode = .main) : Rel k s s' := by
  simp [Rel, h, h']

theorem atHit_rel (k : Nat) (s s' : St) (c : UInt8) (j : Nat) (h : Rel k s s') :
    (atHit s c (j + k)).consumed = (atHit s' c j).consumed ∧
    (atHit s c (j + k)).toks = shiftToks k (atHit s' c j).toks ∧
    Rel k (atHit s c (j + k)).st (atHit s' c j).st := by
  obtain ⟨m, cur, tp, par, oct, hex⟩ := s
  obtain ⟨m', cur', tp', par', oct', hex'⟩ := s'
  obtain ⟨hm, h1, h2, h3, h4⟩ := h
  simp only at hm h1 h2 h3 h4
  subst hm
  cases m
  · simp only [atHit, parseMainHit]
    repeat' split
    all_goals simp [Rel, shiftToks, emit]
  -- comment
  · simp at h1; obtain ⟨rfl, rfl⟩ := h1
    simp [atHit, parseCommentHit, Rel, shiftToks]
  -- literal
  · simp at h1; obtain ⟨rfl, rfl⟩ := h1
    simp only [atHit, parseLiteralHit]
    split <;> simp [Rel, shiftToks, emit]
  -- literalHex
  · simp at h1 h2; obtain ⟨rfl, rfl⟩ := h1; subst h2
    simp only [atHit, parseLiteralHexHit, raise]
    repeat' split
    all_goals simp_all [Rel, shiftToks, emit]
  -- number
  · simp at h1; obtain ⟨rfl, rfl⟩ := h1
    simp only [atHit, parseNumberHit]
    repeat' split
    all_goals simp_all [Rel, shiftToks, emit]
  -- float
  · simp at h1; obtain ⟨rfl, rfl⟩ := h1
    simp only [atHit, parseFloatHit]
    repeat' split
    all_goals simp_all [Rel, shiftToks, emit]
  -- keyword
  · simp at h1; obtain ⟨rfl, rfl⟩ := h1
    simp only [atHit, parseKeywordHit]
    repeat' split
    all_goals simp_all [Rel, shiftToks, emit]
  -- string
  · simp at h1 h4; obtain ⟨rfl, rfl⟩ := h1; subst h4
    simp only [atHit, parseStringHit]
    repeat' split
    all_goals simp_all [Rel, shiftToks, emit]
  -- string1
  · simp at h1 h3 h4; obtain ⟨rfl, rfl⟩ := h1; subst h3; subst h4
    simp only [atHit, parseString1Hit, raise]
    repeat' split
    all_goals simp_all [Rel, shiftToks, emit]
  -- string2
  · simp at h1 h4; obtain ⟨rfl, rfl⟩ := h1; subst h4
    simp [atHit, parseString2Hit, Rel, shiftToks]
  -- wopen
  · simp at h1; obtain ⟨rfl, rfl⟩ := h1
    simp only [atHit, parseWopenHit]
    split <;> simp [Rel, shiftToks, emit]
  -- wclose
  · simp at h1; obtain ⟨rfl, rfl⟩ := h1
    simp only [atHit, parseWcloseHit]
    split <;> simp [Rel, shiftToks, emit]
  -- hexstring
  · simp at h1; obtain ⟨rfl, rfl⟩ := h1
    simp only [atHit, parseHexstringHit, raise]
    split <;> simp [Rel, shiftToks, emit]
  -- dead
  · simp at h1; obtain ⟨rfl, rfl⟩ := h1
    simp [atHit, Rel, shiftToks]

theorem accum_rel (k : Nat) (s s' : St) (pre : Bytes) (h : Rel k s s') : Rel k (accum s pre) (accum s' pre) := by
  obtain ⟨hm, h1, h2, h3, h4⟩ := h
  unfold accum
  rw [← hm]
  by_cases hmain : s.mode = .main
  · simp [hmain, Rel, ← hm]
  · have := h1 hmain
    simp only [hmain, beq_iff_eq, if_false]
    exact ⟨rfl, fun _ => ⟨by simp [this.1], this.2⟩, h2, h3, h4⟩

/-- One byte: related states give the same tokens (shifted) and related states. -/
theorem stepN_rel (k : Nat) : ∀ (n : Nat) (s s' : St) (c : UInt8) (p : Nat), Rel k s s' →
    (stepN n s c (p + k)).2 = shiftToks k (stepN n s' c p).2 ∧ Rel k (stepN n s c (p + k)).1 (stepN n s' c p).1
  | 0, s, s', c, p, h => by simpa [stepN, shiftToks] using h
  | n + 1, s, s', c, p, h => by
    have ha := atHit_rel k s s' c p h
    have ih := stepN_rel k n (atHit s c (p + k)).st (atHit s' c p).st c p ha.2.2
    have hacc := accum_rel k s s' [c] h
    have hit_case :
        (if (atHit s c (p + k)).consumed = true then ((atHit s c (p + k)).st, (atHit s c (p + k)).toks)
          else ((stepN n (atHit s c (p + k)).st c (p + k)).1,
                (atHit s c (p + k)).toks ++ (stepN n (atHit s c (p + k)).st c (p + k)).2)).2 =
        shiftToks k (if (atHit s' c p).consumed = true then ((atHit s' c p).st, (atHit s' c p).toks)
          else ((stepN n (atHit s' c p).st c p).1, (atHit s' c p).toks ++ (stepN n (atHit s' c p).st c p).2)).2 ∧
        Rel k (if (atHit s c (p + k)).consumed = true then ((atHit s c (p + k)).st, (atHit s c (p + k)).toks)
          else ((stepN n (atHit s c (p + k)).st c (p + k)).1,
                (atHit s c (p + k)).toks ++ (stepN n (atHit s c (p + k)).st c (p + k)).2)).1
          (if (atHit s' c p).consumed = true then ((atHit s' c p).st, (atHit s' c p).toks)
          else ((stepN n (atHit s' c p).st c p).1, (atHit s' c p).toks ++ (stepN n (atHit s' c p).st c p).2)).1 := by
      rw [ha.1]
      by_cases hc : (atHit s' c p).consumed = true
      · simp only [hc, if_true]
        exact ⟨ha.2.1, ha.2.2⟩
      · have hc' : (atHit s' c p).consumed = false := by simpa using hc
        simp only [hc', Bool.false_eq_true, if_false]
        exact ⟨by rw [ha.2.1, ih.1, shiftToks_append], ih.2⟩
    rw [stepN, stepN, ← h.1]
    cases hs : searchClass s.mode with
    | none => simpa using hit_case
    | some q =>
      simp only
      by_cases hq : q c = true
      · simpa [hq] using hit_case
      · simp only [hq, if_false]
        exact ⟨by simp [shiftToks], hacc⟩

/-- Any number of bytes. -/
theorem foldBytes_rel (k : Nat) : ∀ (data : Bytes) (s s' : St) (p : Nat), Rel k s s' →
    (foldBytes s data (p + k)).2 = shiftToks k (foldBytes s' data p).2 ∧
    Rel k (foldBytes s data (p + k)).1 (foldBytes s' data p).1
  | [], s, s', p, h => by simpa [foldBytes, shiftToks] using h
  | c :: t, s, s', p, h => by
    have h1 := stepN_rel k 3 s s' c p h
    have h2 := foldBytes_rel k t (stepByte s c (p + k)).1 (stepByte s' c p).1 (p + 1) h1.2
    have hp : p + 1 + k = p + k + 1 := by omega
    rw [hp] at h2
    simp only [foldBytes]
    exact ⟨by rw [h2.1, shiftToks_append]; congr 1; exact h1.1, h2.2⟩

/-- From the main scanner the flushed newline (indeed any white-space byte) yields nothing. -/
theorem main_nl (s : St) (p : Nat) (hm : s.mode = .main) : stepByte s 10 p = (s, []) := by
  have hnl : isNONSPC 10 = false := by decide +kernel
  simp [stepByte, stepN, searchClass, hm, hnl, accum]

/-- Once the lexer is back in the main scanner after the prefix `pre`, the rest `b` is tokenised as a
    fresh input: `specLex (pre ++ b) = specLex pre ++ shift |pre| (specLex b)`. -/
theorem specLex_append_main (pre b : Bytes) (hm : (foldBytes St.init pre 0).1.mode = .main) :
    specLex (pre ++ b) = specLex pre ++ shiftToks pre.length (specLex b) := by
  unfold specLex
  rw [List.append_assoc, foldBytes_append, foldBytes_append pre [10]]
  have hr := foldBytes_rel pre.length (b ++ [10]) (foldBytes St.init pre 0).1 St.init 0 (rel_main _ _ _ hm rfl)
  simp only [Nat.zero_add] at hr ⊢
  rw [hr.1]
  congr 1
  have := main_nl (foldBytes St.init pre 0).1 pre.length hm
  simp [foldBytes, this]

/-! ### white space after a complete token -/

/-- what the regenerated tables say about a white-space byte (NUL is white space that `_parse_main`
    itself skips: it is matched by NONSPC) -/
structure WsFacts (c : UInt8) : Prop where
  skip : isNONSPC c = false ∨ c = 0
  endLit : isEND_LITERAL c = true
  ne35 : (c == 35) = false
  endNum : isEND_NUMBER c = true
  ne46 : (c == 46) = false
  endKw : isEND_KEYWORD c = true
  notHex : isHEX c = false
  ne62 : (c == 62) = false

theorem ws_table : ∀ c : UInt8, (!isSPC c || ((!isNONSPC c || c == 0) && isEND_LITERAL c && c != 35 && isEND_NUMBER c
    && c != 46 && isEND_KEYWORD c && !isHEX c && c != 62)) = true :=
  forall_byte _ (by decide +kernel)

theorem ws_facts (c : UInt8) (h : isSPC c = true) : WsFacts c := by
  have := ws_table c
  simp [h] at this
  obtain ⟨⟨⟨⟨⟨⟨⟨h1, h2⟩, h3⟩, h4⟩, h5⟩, h6⟩, h7⟩, h8⟩ := this
  exact ⟨h1, h2, by simpa using h3, h4, by simpa using h5, h6, h7, by simpa using h8⟩

/-- The main scanner skips a white-space byte: no token, still the main scanner. -/
theorem main_skip (s : St) (c : UInt8) (p : Nat) (hm : s.mode = .main) (f : WsFacts c) :
    (stepByte s c p).2 = [] ∧ (stepByte s c p).1.mode = .main := by
  rcases f.skip with h | h
  · simp [stepByte, stepN, searchClass, hm, h, accum]
  · subst h
    have h0 : isNONSPC 0 = true := by decide +kernel
    simp [stepByte, stepN, searchClass, hm, h0, atHit, parseMainHit, isDigit, isAlpha]

theorem main_skip_all : ∀ (ws : Bytes) (s : St) (p : Nat), s.mode = .main → (∀ c ∈ ws, isSPC c = true) →
    (foldBytes s ws p).2 = [] ∧ (foldBytes s ws p).1.mode = .main
  | [], s, p, hm, _ => by simp [foldBytes, hm]
  | c :: t, s, p, hm, h => by
    have h1 := main_skip s c p hm (ws_facts c (h c (by simp)))
    have h2 := main_skip_all t (stepByte s c p).1 (p + 1) h1.2 (fun x hx => h x (by simp [hx]))
    simp [foldBytes, h1.1, h2.1, h2.2]

/-- At a white-space byte the scanners of a completed token do not look at which byte it is. -/
theorem hit_ws_eq (s : St) (c c' : UInt8) (p p' : Nat) (hc : Complete s.mode = true) (hm : s.mode ≠ .main)
    (f : WsFacts c) (f' : WsFacts c') : atHit s c p = atHit s c' p' := by
  obtain ⟨m, cur, tp, par, oct, hex⟩ := s
  simp only at hc hm
  cases m <;> simp [Complete] at hc hm
  · simp [atHit, parseLiteralHit, f.ne35, f'.ne35]
  · simp [atHit, parseLiteralHexHit, f.notHex, f'.notHex]
  · simp [atHit, parseNumberHit, f.ne46, f'.ne46]
  · simp [atHit, parseFloatHit]
  · simp [atHit, parseKeywordHit]
  · simp [atHit, parseWcloseHit, f.ne62, f'.ne62]

/-- name / number / real / keyword / after `>`: the white-space byte completes the token and is then
    skipped by the main scanner. -/
theorem ws_step_simple (s : St) (c : UInt8) (p : Nat)
    (hm : s.mode = .literal ∨ s.mode = .number ∨ s.mode = .float ∨ s.mode = .keyword ∨ s.mode = .wclose)
    (f : WsFacts c) : (stepByte s c p).2 = (atHit s c p).toks ∧ (stepByte s c p).1.mode = .main := by
  have hs : searchClass s.mode = none ∨ ∃ q, searchClass s.mode = some q ∧ q c = true := by
    rcases hm with h | h | h | h | h <;> simp [h, searchClass, f.endLit, f.endNum, f.endKw]
  have hh : (atHit s c p).consumed = false ∧ (atHit s c p).st.mode = .main := by
    rcases hm with h | h | h | h | h <;>
      simp [atHit, h, parseLiteralHit, parseNumberHit, parseFloatHit, parseKeywordHit, parseWcloseHit,
        f.ne35, f.ne46, f.ne62]
  rw [step_hit s c p hs]
  have := main_skip (atHit s c p).st c p hh.2 f
  simp [hh.1, this.1, this.2]

/-- `/A#4` + white space: the pending `#x` escape is closed first, then the name. -/
theorem ws_step_literalHex (s : St) (c : UInt8) (p : Nat) (hm : s.mode = .literalHex) (f : WsFacts c) :
    (stepByte s c p).2 = (atHit s c p).toks ++ (if (atHit s c p).consumed then [] else (atHit (atHit s c p).st c p).toks) ∧
    ((atHit s c p).consumed = false → (stepByte s c p).1.mode = .main) := by
  have hs : searchClass s.mode = none ∨ ∃ q, searchClass s.mode = some q ∧ q c = true := by simp [hm, searchClass]
  rw [step_hit s c p hs]
  by_cases hc : (atHit s c p).consumed = true
  · simp [hc]
  · have hc' : (atHit s c p).consumed = false := by simpa using hc
    have hlit : (atHit s c p).st.mode = .literal := by
      simp only [atHit, hm, parseLiteralHexHit, raise, f.notHex] at hc' ⊢
      repeat' split
      all_goals simp_all
    have := ws_step_simple (atHit s c p).st c p (Or.inl hlit) f
    simp [hc', this.1, this.2]

/-- After a complete token every white-space byte yields the tokens the flushed newline yields. -/
theorem ws_toks_eq (s : St) (c c' : UInt8) (p p' : Nat) (hc : Complete s.mode = true)
    (f : WsFacts c) (f' : WsFacts c') : (stepByte s c p).2 = (stepByte s c' p').2 := by
  by_cases hm : s.mode = .main
  · rw [(main_skip s c p hm f).1, (main_skip s c' p' hm f').1]
  · have he := hit_ws_eq s c c' p p' hc hm f f'
    by_cases hx : s.mode = .literalHex
    · rw [(ws_step_literalHex s c p hx f).1, (ws_step_literalHex s c' p' hx f').1, he]
      by_cases hcons : (atHit s c' p').consumed = true
      · simp [hcons]
      · have hcons' : (atHit s c' p').consumed = false := by simpa using hcons
        have hlit : (atHit s c' p').st.mode = .literal := by
          simp only [atHit, hx, parseLiteralHexHit, raise, f'.notHex] at hcons' ⊢
          repeat' split
          all_goals simp_all
        rw [hit_ws_eq (atHit s c' p').st c c' p p' (by simp [hlit, Complete]) (by simp [hlit]) f f']
    · have hm' : s.mode = .literal ∨ s.mode = .number ∨ s.mode = .float ∨ s.mode = .keyword ∨ s.mode = .wclose := by
        revert hc hm hx; cases s.mode <;> simp [Complete]
      rw [(ws_step_simple s c p hm' f).1, (ws_step_simple s c' p' hm' f').1, he]

/-- … and, in a reachable state, leaves the lexer in the main scanner. -/
theorem ws_mode (s : St) (c : UInt8) (p : Nat) (hc : Complete s.mode = true) (hi : Inv s) (f : WsFacts c) :
    (stepByte s c p).1.mode = .main := by
  by_cases hm : s.mode = .main
  · exact (main_skip s c p hm f).2
  · by_cases hx : s.mode = .literalHex
    · apply (ws_step_literalHex s c p hx f).2
      simp only [atHit, hx, parseLiteralHexHit, raise, f.notHex]
      by_cases he : s.hex.isEmpty = true
      · simp [he]
      · obtain ⟨v, hv, hlt⟩ := literalHex_ok s hi (by simpa using he)
        simp [he, hv, hlt]
    · have hm' : s.mode = .literal ∨ s.mode = .number ∨ s.mode = .float ∨ s.mode = .keyword ∨ s.mode = .wclose := by
        revert hc hm hx; cases s.mode <;> simp [Complete]
      exact (ws_step_simple s c p hm' f).2

/-- Compositionality with a white-space separator: if `a` does not end inside a string, a hexadecimal
    string or a comment (or after a lone `<`), then for every non-empty white-space run `ws`
    the tokens of `a ++ ws ++ b` are the tokens of `a` followed by the tokens of `b`, shifted. -/
theorem specLex_append_ws (a ws b : Bytes) (hc : Complete (foldBytes St.init a 0).1.mode = true)
    (hne : ws ≠ []) (hws : ∀ c ∈ ws, isSPC c = true) :
    specLex (a ++ ws ++ b) = specLex a ++ shiftToks (a.length + ws.length) (specLex b) := by
  obtain ⟨c, t, rfl⟩ := List.exists_cons_of_ne_nil hne
  have f := ws_facts c (hws c (by simp))
  have fnl := ws_facts 10 (by decide +kernel)
  have hi := (foldBytes_ok a St.init 0 inv_init).1
  have hmode := ws_mode (foldBytes St.init a 0).1 c a.length hc hi f
  have hrest := main_skip_all t (stepByte (foldBytes St.init a 0).1 c a.length).1 (a.length + 1) hmode
    (fun x hx => hws x (by simp [hx]))
  have hfold : foldBytes St.init (a ++ c :: t) 0 =
      ((foldBytes (stepByte (foldBytes St.init a 0).1 c a.length).1 t (a.length + 1)).1,
       (foldBytes St.init a 0).2 ++ (stepByte (foldBytes St.init a 0).1 c a.length).2) := by
    rw [foldBytes_append]; simp only [Nat.zero_add]; simp [foldBytes, hrest.1]
  have hmain : (foldBytes St.init (a ++ c :: t) 0).1.mode = .main := by rw [hfold]; exact hrest.2
  rw [specLex_append_main (a ++ c :: t) b hmain]
  have hlen : (a ++ c :: t).length = a.length + (c :: t).length := by simp
  rw [hlen]
  congr 1
  -- specLex (a ++ ws) = specLex a
  unfold specLex
  rw [foldBytes_append (a ++ c :: t) [10], foldBytes_append a [10], hfold]
  have hnl := fun p => main_nl (foldBytes (stepByte (foldBytes St.init a 0).1 c a.length).1 t (a.length + 1)).1
    p hrest.2
  have hq := ws_toks_eq (foldBytes St.init a 0).1 c 10 a.length a.length hc f fnl
  simp only [Nat.zero_add]
  simp [foldBytes, hnl, hq]

end PdfVerif.Lexer
