import Mathlib.Data.List.Nodup
import PdfVerif.Lemmas.LayoutBoxes
namespace PdfVerif.Layout
open PdfVerif PdfVerif.Gen.Layout

variable {le : Cmp}

/-! ## the final stage: analysis of boxes and groups, numbering, output order -/

/-- A box without its number. -/
def strip (b : Box) : Box := { b with index := 0 }

theorem strip_bid (b : Box) : (strip b).bid = b.bid := rfl
theorem strip_glyphs (b : Box) : (strip b).glyphs = b.glyphs := rfl
theorem strip_lines (b : Box) : (strip b).lines = b.lines := rfl

theorem analyzeGroups_strip (bf : Rat) : ∀ (ns : List Node) (k : Nat),
    (((analyzeGroups bf ns k).flatMap Node.leaves).map strip).Perm
      (((ns.flatMap Node.leaves).map Box.analyze).map strip) := by
  intro ns
  induction ns with
  | nil => intro k; simp [analyzeGroups]
  | cons g rest ih =>
    intro k
    simp only [analyzeGroups, List.flatMap_cons, List.map_append]
    refine List.Perm.append ?_ (ih _)
    have h1 := node_assign_leaves (g.analyze bf) k
    have h2 := (node_analyze_leaves bf g).map strip
    show (List.map strip _).Perm _
    unfold strip at *
    rw [h1]
    exact h2

theorem analyzeGroups_index (bf : Rat) : ∀ (ns : List Node) (k : Nat),
    ((analyzeGroups bf ns k).flatMap Node.leaves).map (·.index)
      = (List.range' k (ns.flatMap Node.leaves).length).map Int.ofNat := by
  intro ns
  induction ns with
  | nil => intro k; simp [analyzeGroups]
  | cons g rest ih =>
    intro k
    have hlen : (g.analyze bf).leaves.length = g.leaves.length := by
      simpa using (node_analyze_leaves bf g).length_eq
    simp only [analyzeGroups, List.flatMap_cons, List.map_append, List.length_append]
    rw [node_assign_index, ih, node_assign_snd, hlen, ← List.range'_append_1, List.map_append]

theorem enumFrom_strip : ∀ (bs : List Box) (k : Nat), (enumFrom k bs).map strip = bs.map strip
  | [], _ => by simp [enumFrom]
  | b :: rest, k => by simp [enumFrom, enumFrom_strip rest (k + 1), strip]

theorem map_strip_glyphs {l₁ l₂ : List Box} (h : (l₁.map strip).Perm (l₂.map strip)) :
    (l₁.flatMap Box.glyphs).Perm (l₂.flatMap Box.glyphs) := by
  have := flatMap_perm Box.glyphs h
  simpa [List.flatMap_map, strip_glyphs] using this

theorem analyze_glyphs_flatMap (bs : List Box) : ((bs.map Box.analyze).flatMap Box.glyphs).Perm (bs.flatMap Box.glyphs) := by
  induction bs with
  | nil => simp
  | cons b r ih =>
    simp only [List.map_cons, List.flatMap_cons]
    exact List.Perm.append (box_analyze_glyphs b) ih

/-- Everything the final stage guarantees, for both settings of `boxes_flow`. -/
theorem finalBoxes_spec (p : LAParams) (pageBB : BB) (boxes : List Box)
    (hbid : (boxes.map (·.bid)).Nodup) :
    -- the boxes are the analysed input boxes, renumbered
    (((finalBoxes le p pageBB boxes).1.map strip).Perm ((boxes.map Box.analyze).map strip))
    -- numbered 0..n-1 in output order
    ∧ ((finalBoxes le p pageBB boxes).1.map (·.index) = (List.range' 0 boxes.length).map Int.ofNat)
    -- loop ended by itself, no KeyError
    ∧ (finalBoxes le p pageBB boxes).2.2.fuel = false ∧ (finalBoxes le p pageBB boxes).2.2.err = false
    -- the hierarchy: its leaves in depth-first order are exactly the output boxes; every group is well formed
    ∧ (∀ gs, (finalBoxes le p pageBB boxes).2.1 = some gs →
        gs.flatMap Node.leaves = (finalBoxes le p pageBB boxes).1)
    ∧ ((finalBoxes le p pageBB boxes).2.1 = none ↔ p.boxes_flow = none) := by
  unfold finalBoxes
  cases hbf : p.boxes_flow with
  | none =>
    simp only
    refine ⟨?_, ?_, by simp, by simp, by simp, by simp⟩
    · rw [enumFrom_strip]
      exact (List.mergeSort_perm _ _).map strip
    · rw [enumFrom_index]
      have := (List.mergeSort_perm (boxes.map Box.analyze) (fun a b => tupleLe (getkey a) (getkey b))).length_eq
      simp only [List.length_map] at this
      rw [this]
  | some bf =>
    simp only
    have hspec := groupTextboxes_spec (le := le) pageBB boxes
    set nodes := (groupTextboxes le pageBB boxes).1 with hnodes
    set leaves' := (analyzeGroups bf nodes 0).flatMap Node.leaves with hleaves
    have F1 : (leaves'.map strip).Perm ((boxes.map Box.analyze).map strip) :=
      (analyzeGroups_strip bf nodes 0).trans ((hspec.1.map Box.analyze).map strip)
    have hlen : (nodes.flatMap Node.leaves).length = boxes.length := hspec.1.length_eq
    have F2 : leaves'.map (·.index) = (List.range' 0 boxes.length).map Int.ofNat := by
      rw [hleaves, analyzeGroups_index, hlen]
    have hlen' : leaves'.length = boxes.length := by
      have := F1.length_eq; simpa using this
    -- every leaf is the analysed, numbered version of an input box
    have hleaf : ∀ b' ∈ leaves', ∃ b ∈ boxes, strip b' = strip (Box.analyze b) := by
      intro b' hb'
      have : strip b' ∈ (boxes.map Box.analyze).map strip := F1.subset (List.mem_map_of_mem hb')
      simp only [List.mem_map] at this
      obtain ⟨_, ⟨b, hb, rfl⟩, h2⟩ := this
      exact ⟨b, hb, h2.symm⟩
    have hinj : ∀ b ∈ boxes, ∀ c ∈ boxes, b.bid = c.bid → b = c := by
      intro b hb c hc h
      exact List.inj_on_of_nodup_map hbid hb hc h
    -- the identity lookup finds that version
    have hlookup : ∀ b ∈ boxes, ∃ b' ∈ leaves', leaves'.find? (fun x => x.bid == b.bid) = some b' ∧
        strip b' = strip (Box.analyze b) := by
      intro b hb
      have hex : strip (Box.analyze b) ∈ leaves'.map strip :=
        F1.symm.subset (List.mem_map_of_mem (List.mem_map_of_mem hb))
      simp only [List.mem_map] at hex
      obtain ⟨c, hc, hcs⟩ := hex
      have hcb : c.bid = b.bid := by
        have := congrArg Box.bid hcs; simpa [strip, Box.analyze] using this
      cases hf : leaves'.find? (fun x => x.bid == b.bid) with
      | none =>
        have := List.find?_eq_none.mp hf c hc
        simp [hcb] at this
      | some b' =>
        have hb'mem : b' ∈ leaves' := List.mem_of_find?_eq_some hf
        have hb'bid : b'.bid = b.bid := by
          have := List.find?_some hf; simpa using this
        obtain ⟨b0, hb0, hs⟩ := hleaf b' hb'mem
        have : b0.bid = b.bid := by
          have := congrArg Box.bid hs
          simp only [strip, Box.analyze] at this
          rw [← this]; exact hb'bid
        have := hinj b0 hb0 b hb this
        subst this
        exact ⟨b', hb'mem, rfl, hs⟩
    set bs := boxes.map (fun b => (leaves'.find? (fun b' => b'.bid == b.bid)).getD b) with hbs
    have F3 : bs.map strip = (boxes.map Box.analyze).map strip := by
      rw [hbs, List.map_map, List.map_map]
      apply List.map_congr_left
      intro b hb
      obtain ⟨b', _, hf, hs⟩ := hlookup b hb
      simp [hf, hs]
    have hbs_sub : ∀ x ∈ bs, x ∈ leaves' := by
      intro x hx
      simp only [hbs, List.mem_map] at hx
      obtain ⟨b, hb, rfl⟩ := hx
      obtain ⟨b', hb', hf, _⟩ := hlookup b hb
      simpa [hf] using hb'
    have hbs_bids : bs.map (·.bid) = boxes.map (·.bid) := by
      have := congrArg (List.map Box.bid) F3
      simpa [List.map_map, Function.comp_def, strip, Box.analyze] using this
    have hbs_nodup : bs.Nodup := by
      have : (bs.map (·.bid)).Nodup := by rw [hbs_bids]; exact hbid
      exact List.Nodup.of_map _ this
    have F4 : bs.Perm leaves' := by
      apply (List.subperm_of_subset hbs_nodup hbs_sub).perm_of_length_le
      simp [hbs, hlen']
    set sorted := bs.mergeSort (fun a b => decide (a.index ≤ b.index)) with hsorted
    have hsp : sorted.Perm leaves' := (List.mergeSort_perm _ _).trans F4
    have hpw : sorted.Pairwise (fun a b => a.index ≤ b.index) := by
      have := List.pairwise_mergeSort (le := fun (a b : Box) => decide (a.index ≤ b.index))
        (by intro a b c h1 h2; simp only [decide_eq_true_eq] at *; omega)
        (by intro a b; simp only [Bool.or_eq_true, decide_eq_true_eq]; omega) bs
      exact this.imp (by intro a b h; simpa using h)
    have hidx_nodup : (leaves'.map (·.index)).Nodup := by
      rw [F2]
      exact List.Nodup.map (fun a b h => by simpa using h) List.nodup_range'
    have hpw' : leaves'.Pairwise (fun a b => a.index ≤ b.index) := by
      have : (leaves'.map (·.index)).Pairwise (· ≤ ·) := by
        rw [F2]
        have := List.pairwise_lt_range' (s := 0) (n := boxes.length) 1
        exact (List.pairwise_map.mpr (this.imp (by intro a b h; simp; omega)))
      exact List.pairwise_map.mp this
    have heq : sorted = leaves' := by
      apply List.Perm.eq_of_pairwise _ hpw hpw' hsp
      intro a b ha hb h1 h2
      have ha' : a ∈ leaves' := hsp.subset ha
      exact List.inj_on_of_nodup_map hidx_nodup ha' hb (by omega)
    refine ⟨?_, ?_, hspec.2.2.2, hspec.2.2.1, ?_, by simp⟩
    · rw [heq]; exact F1
    · rw [heq]; exact F2
    · intro gs hgs
      simp only [Option.some.injEq] at hgs
      subst hgs
      exact heq.symm

end PdfVerif.Layout

namespace PdfVerif.Layout
open PdfVerif PdfVerif.Gen.Layout

variable {le : Cmp}

/-! ## "the bounding box is exactly the union of the members'" -/

/-- `bb` is the tight hull of the boxes in `l`: it contains each of them and each of its four
sides is attained by a member. -/
structure IsUnion (bb : BB) (l : List BB) : Prop where
  contains : ∀ b ∈ l, bb.x0 ≤ b.x0 ∧ bb.y0 ≤ b.y0 ∧ b.x1 ≤ bb.x1 ∧ b.y1 ≤ bb.y1
  left : ∃ b ∈ l, bb.x0 = b.x0
  bottom : ∃ b ∈ l, bb.y0 = b.y0
  right : ∃ b ∈ l, bb.x1 = b.x1
  top : ∃ b ∈ l, bb.y1 = b.y1

theorem isUnion_singleton (b : BB) : IsUnion b [b] :=
  ⟨by intro c hc; simp at hc; subst hc; exact ⟨Rat.le_refl, Rat.le_refl, Rat.le_refl, Rat.le_refl⟩,
   ⟨b, by simp, rfl⟩, ⟨b, by simp, rfl⟩, ⟨b, by simp, rfl⟩, ⟨b, by simp, rfl⟩⟩

theorem isUnion_union {a : BB} {S : List BB} (h : IsUnion a S) (b : BB) : IsUnion (a.union b) (S ++ [b]) := by
  obtain ⟨hc, ⟨l, hl, hl'⟩, ⟨bo, hbo, hbo'⟩, ⟨r, hr, hr'⟩, ⟨t, ht, ht'⟩⟩ := h
  simp only [BB.union, expand_bbox]
  refine ⟨?_, ?_, ?_, ?_, ?_⟩
  · intro c hc'
    simp only [List.mem_append, List.mem_singleton] at hc'
    rcases hc' with hc' | rfl
    · have := hc c hc'
      simp only
      refine ⟨?_, ?_, ?_, ?_⟩ <;> grind
    · simp only
      refine ⟨?_, ?_, ?_, ?_⟩ <;> grind
  · by_cases h : a.x0 ≤ b.x0
    · exact ⟨l, List.mem_append_left _ hl, by simp only; grind⟩
    · exact ⟨b, by simp, by simp only; grind⟩
  · by_cases h : a.y0 ≤ b.y0
    · exact ⟨bo, List.mem_append_left _ hbo, by simp only; grind⟩
    · exact ⟨b, by simp, by simp only; grind⟩
  · by_cases h : b.x1 ≤ a.x1
    · exact ⟨r, List.mem_append_left _ hr, by simp only; grind⟩
    · exact ⟨b, by simp, by simp only; grind⟩
  · by_cases h : b.y1 ≤ a.y1
    · exact ⟨t, List.mem_append_left _ ht, by simp only; grind⟩
    · exact ⟨b, by simp, by simp only; grind⟩

theorem isUnion_foldl (rest : List BB) : ∀ (a : BB) (S : List BB), IsUnion a S →
    IsUnion (rest.foldl BB.union a) (S ++ rest) := by
  induction rest with
  | nil => intro a S h; simpa using h
  | cons b r ih =>
    intro a S h
    have := ih (a.union b) (S ++ [b]) (isUnion_union h b)
    simpa [List.append_assoc] using this

theorem bbOfList_isUnion (l : List BB) (h : l ≠ []) : IsUnion (bbOfList l) l := by
  cases l with
  | nil => exact absurd rfl h
  | cons b rest =>
    have := isUnion_foldl rest b [b] (isUnion_singleton b)
    simpa [bbOfList] using this

theorem isUnion_perm {bb : BB} {l₁ l₂ : List BB} (hp : l₁.Perm l₂) (h : IsUnion bb l₁) : IsUnion bb l₂ := by
  obtain ⟨hc, ⟨l, hl, hl'⟩, ⟨bo, hbo, hbo'⟩, ⟨r, hr, hr'⟩, ⟨t, ht, ht'⟩⟩ := h
  exact ⟨fun b hb => hc b (hp.symm.subset hb), ⟨l, hp.subset hl, hl'⟩, ⟨bo, hp.subset hbo, hbo'⟩,
    ⟨r, hp.subset hr, hr'⟩, ⟨t, hp.subset ht, ht'⟩⟩

/-! ## the analysed hierarchy -/

/-- Well-formedness of the analysed group hierarchy. -/
inductive GroupOK (bf : Rat) : Node → Prop
  | leaf (b : Box) : GroupOK bf (.leaf b)
  | grp (t : Bool) (bb : BB) (l r : Node) : GroupOK bf l → GroupOK bf r →
      IsUnion bb [l.bb, r.bb] → t = (l.isVert || r.isVert) →
      groupKey t bf l.bb ≤ groupKey t bf r.bb → GroupOK bf (.grp t bb l r)

theorem node_analyze_isVert (bf : Rat) (n : Node) : (n.analyze bf).isVert = n.isVert := by
  cases n with
  | leaf b => rfl
  | grp t bb l r => simp only [Node.analyze]; split <;> rfl

theorem node_assign_bb (n : Node) (k : Nat) : (n.assign k).1.bb = n.bb := by
  cases n <;> rfl

theorem node_assign_isVert (n : Node) (k : Nat) : (n.assign k).1.isVert = n.isVert := by
  cases n <;> rfl

theorem groupOK_analyze (bf : Rat) (n : Node) (h : NodeWF n) : GroupOK bf (n.analyze bf) := by
  induction h with
  | leaf b => exact GroupOK.leaf _
  | grp t bb l r _ _ hbb ht ihl ihr =>
    have hu : IsUnion bb [l.bb, r.bb] := by
      rw [hbb]
      have := isUnion_union (isUnion_singleton l.bb) r.bb
      simpa using this
    simp only [Node.analyze]
    split
    · rename_i hlt
      refine GroupOK.grp _ _ _ _ ihr ihl ?_ ?_ (Rat.le_of_lt hlt)
      · rw [node_analyze_bb, node_analyze_bb]
        exact isUnion_perm (List.Perm.swap _ _ _) hu
      · rw [node_analyze_isVert, node_analyze_isVert, ht, Bool.or_comm]
    · rename_i hlt
      refine GroupOK.grp _ _ _ _ ihl ihr ?_ ?_ (Rat.not_lt.mp hlt)
      · rw [node_analyze_bb, node_analyze_bb]; exact hu
      · rw [node_analyze_isVert, node_analyze_isVert, ht]

theorem groupOK_assign (bf : Rat) (n : Node) (h : GroupOK bf n) : ∀ k, GroupOK bf (n.assign k).1 := by
  induction h with
  | leaf b => intro k; exact GroupOK.leaf _
  | grp t bb l r _ _ hu ht hk ihl ihr =>
    intro k
    simp only [Node.assign]
    refine GroupOK.grp _ _ _ _ (ihl _) (ihr _) ?_ ?_ ?_
    · rw [node_assign_bb, node_assign_bb]; exact hu
    · rw [node_assign_isVert, node_assign_isVert]; exact ht
    · rw [node_assign_bb, node_assign_bb]; exact hk

theorem groupOK_analyzeGroups (bf : Rat) : ∀ (ns : List Node) (k : Nat), (∀ n ∈ ns, NodeWF n) →
    ∀ g ∈ analyzeGroups bf ns k, GroupOK bf g := by
  intro ns
  induction ns with
  | nil => intro k _ g hg; simp [analyzeGroups] at hg
  | cons n rest ih =>
    intro k hwf g hg
    simp only [analyzeGroups, List.mem_cons] at hg
    rcases hg with rfl | hg
    · exact groupOK_assign bf _ (groupOK_analyze bf n (hwf n List.mem_cons_self)) k
    · exact ih _ (fun m hm => hwf m (List.mem_cons_of_mem _ hm)) g hg

theorem finalBoxes_groupsOK (p : LAParams) (pageBB : BB) (boxes : List Box) (bf : Rat)
    (hbf : p.boxes_flow = some bf) :
    ∀ gs, (finalBoxes le p pageBB boxes).2.1 = some gs → ∀ g ∈ gs, GroupOK bf g := by
  intro gs hgs g hg
  unfold finalBoxes at hgs
  rw [hbf] at hgs
  simp only [Option.some.injEq] at hgs
  subst hgs
  exact groupOK_analyzeGroups bf _ 0 (groupTextboxes_spec (le := le) pageBB boxes).2.1 g hg

end PdfVerif.Layout
