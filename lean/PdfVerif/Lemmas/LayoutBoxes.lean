import PdfVerif.Lemmas.LayoutLines
import PdfVerif.Lemmas.LayoutGroups
import PdfVerif.Props.C20
namespace PdfVerif.Layout
open PdfVerif PdfVerif.Gen.Layout
open PdfVerif.Plane (WfRect bboxOf overlaps)
open PdfVerif.Props.C20 (Reach plane_find)

/-! ## group_textlines on the real neighbour relation -/

theorem reach_foldl (objs : List Plane.PObj) : ∀ (p : Plane.Plane) (L : List Plane.PObj), Reach p L →
    (∀ o ∈ objs, WfRect (bboxOf o)) → (∀ o ∈ objs, ∀ o' ∈ p.seq, o'.id ≠ o.id) →
    (objs.map (·.id)).Nodup → Reach (objs.foldl Plane.add p) (L ++ objs) := by
  induction objs with
  | nil => intro p L h _ _ _; simpa using h
  | cons o r ih =>
    intro p L h hwf hfresh hnd
    simp only [List.map_cons, List.nodup_cons, List.mem_map, not_exists, not_and] at hnd
    have h1 := Reach.add o h (hfresh o List.mem_cons_self) (hwf o List.mem_cons_self)
    have := ih (Plane.add p o) (L ++ [o]) h1 (fun x hx => hwf x (List.mem_cons_of_mem _ hx)) ?_ hnd.2
    · simpa [List.append_assoc] using this
    · intro x hx o' ho'
      rw [add_seq] at ho'
      simp only [List.mem_append, List.mem_singleton] at ho'
      rcases ho' with ho' | rfl
      · exact hfresh x (List.mem_cons_of_mem _ hx) o' ho'
      · exact fun heq => hnd.1 x hx heq.symm

theorem reach_mkPlane (pageBB : BB) (objs : List Plane.PObj) (hp : pageBB.x0 ≤ pageBB.x1 ∧ pageBB.y0 ≤ pageBB.y1)
    (hwf : ∀ o ∈ objs, WfRect (bboxOf o)) (hnd : (objs.map (·.id)).Nodup) :
    Reach (mkPlane pageBB objs) objs := by
  have h0 := Reach.init pageBB.toRect PLANE_GRIDSIZE (by decide) (by exact hp)
  have := reach_foldl objs _ [] h0 hwf (by simp [Plane.init]) hnd
  simpa [mkPlane] using this

theorem rabs_nonneg (x : Rat) : 0 ≤ rabs x := by
  unfold rabs; split <;> grind

theorem rabs_zero : rabs 0 = 0 := by decide +kernel

theorem lines_ids (lines : List Line) :
    (lines.zipIdx.map fun (x : Line × Nat) => x.1.pobj x.2).map (·.id) = List.range' 0 lines.length := by
  rw [List.map_map, ← List.zipIdx_map_snd 0 lines]
  rfl

theorem mem_lines_pobj {lines : List Line} {i : Nat} {l : Line} (h : lines[i]? = some l) :
    l.pobj i ∈ lines.zipIdx.map fun (x : Line × Nat) => x.1.pobj x.2 := by
  simp only [List.mem_map]
  refine ⟨(l, i), ?_, rfl⟩
  rw [List.mem_zipIdx_iff_getElem?]
  simpa using h

/-- A line that is not empty has a proper box. -/
theorem pos_of_not_empty {l : Line} (h : l.isEmpty = false) : l.bb.x0 < l.bb.x1 ∧ l.bb.y0 < l.bb.y1 := by
  unfold Line.isEmpty at h
  simp only [Bool.or_eq_false_iff] at h
  have := h.1
  simp only [BB.isEmpty, is_empty, BB.width, BB.height, Bool.or_eq_false_iff, decide_eq_false_iff_not, Rat.not_le] at this
  constructor <;> grind

theorem neighbors_lt (ratio : Rat) (plane : Plane.Plane) (lines : List Line) (l : Line) :
    ∀ j ∈ neighbors ratio plane lines l, j < lines.length := by
  intro j hj
  simp only [neighbors, List.mem_map, List.mem_filter] at hj
  obtain ⟨o, ⟨_, ho⟩, rfl⟩ := hj
  split at ho
  · rename_i m hm
    exact (List.getElem?_eq_some_iff.mp hm).1
  · simp at ho

theorem neighbors_nil_of_neg (ratio : Rat) (hr : ratio < 0) (plane : Plane.Plane) (lines : List Line) (l : Line)
    (hl : l.isEmpty = false) : neighbors ratio plane lines l = [] := by
  have hpos := pos_of_not_empty hl
  simp only [neighbors, List.map_eq_nil_iff, List.filter_eq_nil_iff]
  intro o _
  split
  · simp only [isNeighbor, Bool.not_eq_true]
    split
    · simp only [neighbor_filter_v, is_same_width_as, Bool.and_eq_false_iff, decide_eq_false_iff_not, Rat.not_le]
      left; right
      have h1 := rabs_nonneg ((pobjBB o).width - l.bb.width)
      have h2 : ratio * l.bb.width < 0 := by
        have : 0 < l.bb.width := by simp only [BB.width]; grind
        exact mul_neg_of_neg_of_pos hr this
      grind
    · simp only [neighbor_filter_h, is_same_height_as, Bool.and_eq_false_iff, decide_eq_false_iff_not, Rat.not_le]
      left; right
      have h1 := rabs_nonneg ((pobjBB o).height - l.bb.height)
      have h2 : ratio * l.bb.height < 0 := by
        have : 0 < l.bb.height := by simp only [BB.height]; grind
        exact mul_neg_of_neg_of_pos hr this
      grind
  · simp


theorem pobjBB_pobj (l : Line) (i : Nat) : pobjBB (l.pobj i) = l.bb := by
  cases l with
  | mk v e bb last => cases bb; rfl

theorem self_neighbor (ratio : Rat) (hr : 0 ≤ ratio) (pageBB : BB)
    (hp : pageBB.x0 ≤ pageBB.x1 ∧ pageBB.y0 ≤ pageBB.y1) (lines : List Line)
    (hne : ∀ l ∈ lines, l.isEmpty = false) (i : Nat) (l : Line) (hi : lines[i]? = some l) :
    i ∈ neighbors ratio (mkPlane pageBB (lines.zipIdx.map fun (x : Line × Nat) => x.1.pobj x.2)) lines l := by
  have hl : l ∈ lines := List.mem_of_getElem? hi
  have hpos := pos_of_not_empty (hne l hl)
  have hreach : Reach (mkPlane pageBB (lines.zipIdx.map fun (x : Line × Nat) => x.1.pobj x.2))
      (lines.zipIdx.map fun (x : Line × Nat) => x.1.pobj x.2) := by
    apply reach_mkPlane pageBB _ hp
    · intro o ho
      simp only [List.mem_map] at ho
      obtain ⟨x, hx, rfl⟩ := ho
      have hm := List.mem_zipIdx hx
      have hxl : x.1 ∈ lines := by rw [hm.2.2]; exact List.getElem_mem _
      have := pos_of_not_empty (hne x.1 hxl)
      simp only [WfRect, bboxOf, Line.pobj]
      constructor <;> grind
    · rw [lines_ids]; exact List.nodup_range'
  have hd : 0 ≤ ratio * l.bb.height ∧ 0 ≤ ratio * l.bb.width := by
    constructor <;> apply mul_nonneg hr <;> simp only [BB.height, BB.width] <;> grind
  have hq : WfRect (neighborQuery ratio l) := by
    unfold neighborQuery
    split
    · simp only [neighbor_query_v, WfRect]; constructor <;> grind
    · simp only [neighbor_query_h, WfRect]; constructor <;> grind
  have hov : overlaps (l.pobj i) (neighborQuery ratio l) = true := by
    unfold neighborQuery
    split
    · simp only [neighbor_query_v, overlaps, Line.pobj, Bool.not_eq_true', Bool.or_eq_false_iff,
        decide_eq_false_iff_not, Rat.not_le]
      refine ⟨⟨⟨?_, ?_⟩, ?_⟩, ?_⟩ <;> grind
    · simp only [neighbor_query_h, overlaps, Line.pobj, Bool.not_eq_true', Bool.or_eq_false_iff,
        decide_eq_false_iff_not, Rat.not_le]
      refine ⟨⟨⟨?_, ?_⟩, ?_⟩, ?_⟩ <;> grind
  have hfind := ((plane_find hreach _ hq).1 (l.pobj i)).mpr ⟨mem_lines_pobj hi, hov⟩
  simp only [neighbors, List.mem_map, List.mem_filter]
  refine ⟨l.pobj i, ⟨hfind, ?_⟩, rfl⟩
  have : lines[(l.pobj i).id]? = some l := hi
  rw [this]
  simp only [isNeighbor, pobjBB_pobj]
  cases hv : l.vertical
  · simp only [Bool.false_eq_true, if_false, neighbor_filter_h, Bool.not_false, Bool.true_and, is_same_height_as,
      is_left_aligned_with, Bool.and_eq_true, Bool.or_eq_true, decide_eq_true_eq]
    have e1 : l.bb.height - l.bb.height = 0 := by grind
    have e2 : l.bb.x0 - l.bb.x0 = 0 := by grind
    rw [e1, e2, rabs_zero]
    exact ⟨hd.1, Or.inl (Or.inl hd.1)⟩
  · simp only [if_true, neighbor_filter_v, Bool.true_and, is_same_width_as,
      is_lower_aligned_with, Bool.and_eq_true, Bool.or_eq_true, decide_eq_true_eq]
    have e1 : l.bb.width - l.bb.width = 0 := by grind
    have e2 : l.bb.y0 - l.bb.y0 = 0 := by grind
    rw [e1, e2, rabs_zero]
    exact ⟨hd.2, Or.inl (Or.inl hd.2)⟩

theorem filterMap_range_getElem? {α : Type} : ∀ (l : List α), (List.range l.length).filterMap (l[·]?) = l
  | [] => by simp
  | a :: r => by
    rw [List.length_cons, List.range_succ_eq_map, List.filterMap_cons]
    simp only [List.getElem?_cons_zero, List.filterMap_map]
    have : ((fun x => (a :: r)[x]?) ∘ Nat.succ) = (r[·]?) := by
      funext i; simp
    rw [this, filterMap_range_getElem? r]

theorem union_width (a b : BB) : a.width ≤ (a.union b).width ∧ a.height ≤ (a.union b).height := by
  simp only [BB.union, expand_bbox, BB.width, BB.height]
  constructor <;> grind

theorem foldl_union_width (rest : List BB) : ∀ (a : BB), a.width ≤ (rest.foldl BB.union a).width ∧
    a.height ≤ (rest.foldl BB.union a).height := by
  induction rest with
  | nil => intro a; simp
  | cons b r ih =>
    intro a
    have h1 := union_width a b
    have h2 := ih (a.union b)
    simp only [List.foldl_cons]
    exact ⟨Rat.le_trans h1.1 h2.1, Rat.le_trans h1.2 h2.2⟩

theorem mkBox_lines (lines : List Line) (v : Bool) (t : TBox) : (mkBox lines v t).lines = t.members.filterMap (lines[·]?) := rfl

theorem mkBox_nonempty (lines : List Line) (v : Bool) (t : TBox) (hne : ∀ l ∈ lines, l.isEmpty = false)
    (hm : t.members ≠ []) (hlt : ∀ m ∈ t.members, m < lines.length) : (mkBox lines v t).isEmpty = false := by
  obtain ⟨m, ms, hms⟩ := List.exists_cons_of_ne_nil hm
  have hmlt : m < lines.length := hlt m (by rw [hms]; exact List.mem_cons_self)
  have hget : lines[m]? = some lines[m] := List.getElem?_eq_getElem hmlt
  have hpos := pos_of_not_empty (hne lines[m] (List.getElem_mem _))
  simp only [Box.isEmpty, mkBox, hms, List.filterMap_cons, hget, List.map_cons, bbOfList, Bool.or_eq_false_iff]
  refine ⟨by simp, ?_⟩
  have := foldl_union_width (List.map (fun x => x.bb) (List.filterMap (fun x => lines[x]?) ms)) lines[m].bb
  simp only [BB.isEmpty, is_empty, Bool.or_eq_false_iff, decide_eq_false_iff_not, Rat.not_le]
  simp only [BB.width, BB.height] at this ⊢
  constructor <;> grind

/-- **group_textlines conserves the lines**: on a well-formed page box and non-empty lines, every
line lands in exactly one of the returned boxes (and no box is dropped as empty). -/
theorem groupTextlines_spec (p : LAParams) (pageBB : BB)
    (hp : pageBB.x0 ≤ pageBB.x1 ∧ pageBB.y0 ≤ pageBB.y1) (lines : List Line)
    (hne : ∀ l ∈ lines, l.isEmpty = false) :
    ((groupTextlines p pageBB lines).flatMap (·.lines)).Perm lines
    ∧ ((groupTextlines p pageBB lines).map (·.bid)).Nodup
    ∧ ∀ b ∈ groupTextlines p pageBB lines,
        b.index = -1 ∧ b.lines ≠ [] ∧ b.bb = bbOfList (b.lines.map (·.bb)) ∧ b.isEmpty = false := by
  set nbOf : Nat → List Nat := nbOfLines p pageBB lines with hnbOf
  have hnb : ∀ i, ∀ j ∈ nbOf i, j < lines.length := by
    intro i j hj
    simp only [hnbOf, nbOfLines] at hj
    split at hj
    · exact neighbors_lt _ _ _ _ j hj
    · simp at hj
  have H : (∀ i, i < lines.length → i ∈ nbOf i) ∨ (∀ i, nbOf i = []) := by
    by_cases hr : 0 ≤ p.line_margin
    · left
      intro i hi
      have hget : lines[i]? = some lines[i] := List.getElem?_eq_getElem hi
      simp only [hnbOf, nbOfLines, hget]
      exact self_neighbor _ hr pageBB hp lines hne i _ hget
    · right
      intro i
      simp only [hnbOf, nbOfLines]
      split
      · rename_i l hl
        exact neighbors_nil_of_neg _ (by grind) _ _ _ (hne l (List.mem_of_getElem? hl))
      · rfl
  have hpart := gtl_partition lines.length nbOf hnb H
  set ys := gtlYield (gtlDict nbOf [] (List.range lines.length)) [] (List.range lines.length) with hys
  have hmem_lt : ∀ t ∈ ys, ∀ m ∈ t.members, m < lines.length := by
    intro t ht m hm
    have : m ∈ ys.flatMap (·.members) := List.mem_flatMap.mpr ⟨t, ht, hm⟩
    exact List.mem_range.mp (hpart.1.subset this)
  have hall : ∀ b ∈ ys.map (fun t => mkBox lines (boxVertical lines t) t), (fun b : Box => !b.isEmpty) b = true := by
    intro b hb
    simp only [List.mem_map] at hb
    obtain ⟨t, ht, rfl⟩ := hb
    simp [mkBox_nonempty lines _ t hne (hpart.2.1 t ht).1 (hmem_lt t ht)]
  have hgt : groupTextlines p pageBB lines = ys.map (fun t => mkBox lines (boxVertical lines t) t) := by
    show List.filter _ (List.map _ ys) = _
    exact List.filter_eq_self.mpr hall
  rw [hgt]
  refine ⟨?_, ?_, ?_⟩
  rotate_left
  · rw [List.map_map]
    have : ((fun b : Box => b.bid) ∘ fun t => mkBox lines (boxVertical lines t) t) = fun t : TBox => t.bid := rfl
    rw [this]
    exact (List.pairwise_map.mpr hpart.2.2)
  · intro b hb
    have hne' := hall b hb
    simp only [List.mem_map] at hb
    obtain ⟨t, ht, rfl⟩ := hb
    refine ⟨rfl, ?_, rfl, by simpa using hne'⟩
    intro hl
    have : (mkBox lines (boxVertical lines t) t).isEmpty = true := by simp [Box.isEmpty, hl]
    simp [this] at hne'
  rw [List.flatMap_map]
  simp only [mkBox_lines]
  have h1 : ys.flatMap (fun t => t.members.filterMap (lines[·]?)) = (ys.flatMap (·.members)).filterMap (lines[·]?) := by
    rw [List.filterMap_flatMap]
  rw [h1]
  refine (List.Perm.filterMap _ hpart.1).trans ?_
  rw [filterMap_range_getElem?]

/-! ## a box only holds lines of its own class -/

def ClsInv (cls : Nat → Bool) (d : BoxDict) : Prop :=
  ∀ k b, (k, b) ∈ d → ∀ m ∈ b.members, cls m = cls b.bid

theorem gtlStep_cls {cls : Nat → Bool} {d : BoxDict} (hp : PInv d) (hc : ClsInv cls d) (i : Nat) (nbs : List Nat)
    (hnb : ∀ j ∈ nbs, cls j = cls i) : ClsInv cls (gtlStep d i nbs) := by
  obtain ⟨_, B, hBid, _, hBm, hmem⟩ := gtlStep_spec d i nbs hp.keysNodup
  intro k b hkb m hm
  rcases (hmem k b).mp hkb with ⟨h1, _⟩ | ⟨_, rfl⟩
  · exact hc k b h1 m hm
  · rw [hBid]
    rcases (hBm m).mp hm with rfl | hin | ⟨o, ho, b', hob', hmb'⟩
    · rfl
    · exact hnb m hin
    · have h1 := hc o b' hob' m hmb'
      have h2 := hc o b' hob' o (hp.self o b' hob')
      rw [h1, ← h2]
      exact hnb o ho

theorem gtlDict_cls {n : Nat} {nb : Nat → List Nat} {cls : Nat → Bool} (hnb : ∀ i, ∀ j ∈ nb i, j < n)
    (H : (∀ i, i < n → i ∈ nb i) ∨ (∀ i, nb i = [])) (hcls : ∀ i, ∀ j ∈ nb i, cls j = cls i) :
    ∀ (idx seen : List Nat) (d : BoxDict), RunInv n nb seen d → ClsInv cls d → (∀ i ∈ idx, i < n) →
      (seen.reverse ++ idx).Nodup → ClsInv cls (gtlDict nb d idx) := by
  intro idx
  induction idx with
  | nil => intro seen d _ hc _ _; simpa [gtlDict] using hc
  | cons i rest ih =>
    intro seen d h hc hlt hnd
    have his : i ∉ seen := by
      intro hcc
      rw [List.nodup_append] at hnd
      exact hnd.2.2 i (List.mem_reverse.mpr hcc) i List.mem_cons_self rfl
    have hrun := gtlStep_run h i (hlt i List.mem_cons_self) his (hnb i) H
    have hc' := gtlStep_cls h.p hc i (nb i) (hcls i)
    simp only [gtlDict]
    exact ih (i :: seen) _ hrun hc' (fun j hj => hlt j (List.mem_cons_of_mem _ hj))
      (by simpa [List.reverse_cons, List.append_assoc] using hnd)

theorem gtl_cls (n : Nat) (nb : Nat → List Nat) (cls : Nat → Bool) (hnb : ∀ i, ∀ j ∈ nb i, j < n)
    (H : (∀ i, i < n → i ∈ nb i) ∨ (∀ i, nb i = [])) (hcls : ∀ i, ∀ j ∈ nb i, cls j = cls i) :
    ∀ t ∈ gtlYield (gtlDict nb [] (List.range n)) [] (List.range n), ∀ m ∈ t.members, cls m = cls t.bid := by
  have h0 : RunInv n nb [] [] := by
    refine ⟨⟨by simp [keys], ?_, ?_, ?_, ?_⟩, by simp, ?_, by simp [keys], by simp [keys]⟩ <;> simp
  have hrun := gtlDict_run hnb H (List.range n) [] [] h0 (fun i hi => List.mem_range.mp hi)
    (by simpa using List.nodup_range)
  have hc := gtlDict_cls hnb H hcls (List.range n) [] [] h0 (by intro k b h; simp at h)
    (fun i hi => List.mem_range.mp hi) (by simpa using List.nodup_range)
  simp only [List.append_nil] at hrun
  have hy := gtlYield_spec hrun.p (List.range n) []
  intro t ht m hm
  obtain ⟨_, i, _, hit⟩ := hy.1 t ht
  exact hc i t hit m hm

theorem neighbors_same_class (ratio : Rat) (plane : Plane.Plane) (lines : List Line) (l : Line) :
    ∀ j ∈ neighbors ratio plane lines l, (lines[j]?.map (·.vertical)).getD false = l.vertical := by
  intro j hj
  simp only [neighbors, List.mem_map, List.mem_filter] at hj
  obtain ⟨o, ⟨_, ho⟩, rfl⟩ := hj
  split at ho
  · rename_i m hm
    simp only [hm, Option.map_some, Option.getD_some]
    simp only [isNeighbor] at ho
    split at ho
    · rename_i hv
      simp only [neighbor_filter_v, Bool.and_eq_true] at ho
      rw [hv]; exact ho.1.1
    · rename_i hv
      simp only [neighbor_filter_h, Bool.and_eq_true, Bool.not_eq_true'] at ho
      rw [Bool.not_eq_true] at hv
      rw [hv]; exact ho.1.1
  · simp at ho

/-- Every box returned by `group_textlines` only holds lines of the box's class. -/
theorem groupTextlines_uniform (p : LAParams) (pageBB : BB)
    (hp : pageBB.x0 ≤ pageBB.x1 ∧ pageBB.y0 ≤ pageBB.y1) (lines : List Line)
    (hne : ∀ l ∈ lines, l.isEmpty = false) :
    ∀ b ∈ groupTextlines p pageBB lines, ∀ l ∈ b.lines, l.vertical = b.vertical := by
  set nbOf : Nat → List Nat := nbOfLines p pageBB lines with hnbOf
  set cls : Nat → Bool := fun i => (lines[i]?.map (·.vertical)).getD false with hclsdef
  have hnb : ∀ i, ∀ j ∈ nbOf i, j < lines.length := by
    intro i j hj
    simp only [hnbOf, nbOfLines] at hj
    split at hj
    · exact neighbors_lt _ _ _ _ j hj
    · simp at hj
  have H : (∀ i, i < lines.length → i ∈ nbOf i) ∨ (∀ i, nbOf i = []) := by
    by_cases hr : 0 ≤ p.line_margin
    · left
      intro i hi
      have hget : lines[i]? = some lines[i] := List.getElem?_eq_getElem hi
      simp only [hnbOf, nbOfLines, hget]
      exact self_neighbor _ hr pageBB hp lines hne i _ hget
    · right
      intro i
      simp only [hnbOf, nbOfLines]
      split
      · rename_i l hl
        exact neighbors_nil_of_neg _ (by grind) _ _ _ (hne l (List.mem_of_getElem? hl))
      · rfl
  have hcls : ∀ i, ∀ j ∈ nbOf i, cls j = cls i := by
    intro i j hj
    simp only [hnbOf, nbOfLines] at hj
    split at hj
    · rename_i l hl
      have := neighbors_same_class _ _ _ _ j hj
      simp only [hclsdef, hl, Option.map_some, Option.getD_some]
      exact this
    · simp at hj
  have hall := gtl_cls lines.length nbOf cls hnb H hcls
  intro b hb l hl
  simp only [groupTextlines, List.mem_filter, List.mem_map] at hb
  obtain ⟨⟨t, ht, rfl⟩, _⟩ := hb
  simp only [mkBox, List.mem_filterMap] at hl
  obtain ⟨m, hm, hlm⟩ := hl
  have := hall t ht m hm
  simp only [hclsdef, hlm, Option.map_some, Option.getD_some] at this
  simp only [mkBox, boxVertical]
  exact this


end PdfVerif.Layout
