/-
C19 helper lemmas, part 3: run-length codes (`_parse_horiz1` / `_parse_horiz2`) and mode codes.
-/
import PdfVerif.Lemmas.CcittFeed

namespace PdfVerif.Ccitt
open PdfVerif.Gen PdfVerif.Spec

/-! ### the T.4 / T.6 code words are decoded by pdfminer's tries (kernel evaluation) -/

theorem term_codes_ok : ∀ c : Bool, (List.range 64).all (fun n =>
    (T6.runCode c n != []) && (Trie.follow (runTrie c) (T6.runCode c n) == some (.leaf (.run n)))) = true := by
  intro c; cases c <;> decide +kernel

theorem makeup_codes_ok : ∀ c : Bool, (List.range 40).all (fun k =>
    (T6.runCode c (64 * (k + 1)) != []) &&
    (Trie.follow (runTrie c) (T6.runCode c (64 * (k + 1))) == some (.leaf (.run (64 * (k + 1)))))) = true := by
  intro c; cases c <;> decide +kernel

theorem runCode_term (c : Bool) {n : Nat} (h : n < 64) :
    T6.runCode c n ≠ [] ∧ Trie.follow (runTrie c) (T6.runCode c n) = some (.leaf (.run n)) := by
  have := (List.all_eq_true.mp (term_codes_ok c)) n (List.mem_range.mpr h)
  simpa using this

theorem runCode_makeup (c : Bool) {m : Nat} (h1 : 64 ≤ m) (h2 : m ≤ 2560) (h3 : m % 64 = 0) :
    T6.runCode c m ≠ [] ∧ Trie.follow (runTrie c) (T6.runCode c m) = some (.leaf (.run m)) := by
  have := (List.all_eq_true.mp (makeup_codes_ok c)) (m / 64 - 1) (List.mem_range.mpr (by omega))
  have hm : 64 * (m / 64 - 1 + 1) = m := by omega
  rw [hm] at this
  simpa using this

theorem mode_codes_ok :
    Trie.follow modeTrie T6.codeP = some (.leaf (.mode .p)) ∧
    Trie.follow modeTrie T6.codeH = some (.leaf (.mode .h)) ∧
    Trie.follow modeTrie T6.codeEOFB = some (.leaf (.mode .e)) ∧
    (∀ d : Fin 7, Trie.follow modeTrie (T6.codeV ((d.val : Int) - 3)) = some (.leaf (.mode (.v ((d.val : Int) - 3))))) := by
  decide +kernel

theorem codeV_ok {d : Int} (h1 : -3 ≤ d) (h2 : d ≤ 3) :
    T6.codeV d ≠ [] ∧ Trie.follow modeTrie (T6.codeV d) = some (.leaf (.mode (.v d))) := by
  have h := mode_codes_ok.2.2.2 ⟨(d + 3).toNat, by omega⟩
  have hd : (((d + 3).toNat : Nat) : Int) - 3 = d := by omega
  simp only [hd] at h
  refine ⟨?_, h⟩
  intro h0
  rw [h0] at h
  have : modeTrie ≠ .leaf (.mode (.v d)) := by
    intro hm
    have := mode_codes_ok.1
    rw [hm] at this
    simp [T6.codeP, Trie.follow] at this
  simp [Trie.follow] at h
  exact this h

def Trie.isNode : Trie → Bool
  | .node _ _ => true
  | _ => false

theorem zeros_ok_aux : ∀ k : Fin 8,
    (Trie.follow modeTrie (List.replicate k.val false)).map Trie.isNode = some true := by
  decide +kernel

/-- Up to seven zero bits (the fill at the end of the data) keep the parser inside the MODE trie. -/
theorem zeros_ok {k : Nat} (h : k < 8) :
    ∃ a c, Trie.follow modeTrie (List.replicate k false) = some (.node a c) := by
  have := zeros_ok_aux ⟨k, h⟩
  simp only at this
  cases hf : Trie.follow modeTrie (List.replicate k false) with
  | none => rw [hf] at this; simp at this
  | some t =>
    rw [hf] at this
    cases t with
    | node a c => exact ⟨a, c, rfl⟩
    | empty => simp [Trie.isNode] at this
    | leaf s => simp [Trie.isNode] at this

/-! ### the regenerated dispatch of `_parse_mode` -/

theorem modeAction_p : modeAction (some (.mode .p)) = .pass := by decide
theorem modeAction_h : modeAction (some (.mode .h)) = .horiz := by decide
theorem modeAction_e : modeAction (some (.mode .e)) = .eofb := by decide
theorem modeAction_u : modeAction (some (.mode .u)) = .unc := by decide
theorem modeAction_v (d : Int) : modeAction (some (.mode (.v d))) = .vertical := rfl

/-! ### feeding a run length -/

theorem horiz1Term_iff (n : Nat) : CcittCode.horiz1Term (n : Int) = true ↔ n < 64 := by
  simp only [CcittCode.horiz1Term, decide_eq_true_eq]; omega

theorem horiz2Term_iff (n : Nat) : CcittCode.horiz2Term (n : Int) = true ↔ n < 64 := by
  simp only [CcittCode.horiz2Term, decide_eq_true_eq]; omega

/-- `self._n1 += n` resp. `self._n2 += n` -/
def addRun (st : St) (m : Nat) : St :=
  match st.acc with
  | .horiz2 => { st with n2 := st.n2 + m }
  | _ => { st with n1 := st.n1 + m }

/-- The parser is inside a horizontal-mode run: `_accept` is `_parse_horiz1/2` and `_state` is the
root of the table of the current colour. -/
structure InRun (st : St) : Prop where
  acc : st.acc = .horiz1 ∨ st.acc = .horiz2
  node : st.node = runTrie st.color

theorem addRun_inRun {st : St} (h : InRun st) (m : Nat) : InRun (addRun st m) := by
  obtain ⟨ha, hn⟩ := h
  cases ha with
  | inl ha => exact ⟨Or.inl (by simp [addRun, ha]), by simp [addRun, ha, hn]⟩
  | inr ha => exact ⟨Or.inr (by simp [addRun, ha]), by simp [addRun, ha, hn]⟩

theorem addRun_color (st : St) (m : Nat) : (addRun st m).color = st.color := by
  unfold addRun; split <;> rfl

theorem addRun_add (st : St) (a b : Nat) : addRun (addRun st a) b = addRun st (a + b) := by
  unfold addRun
  cases h : st.acc <;> simp [Nat.add_assoc]

theorem addRun_zero (st : St) : addRun st 0 = st := by
  cases st
  simp only [addRun]
  split <;> simp

theorem feed_makeup (st : St) (h : InRun st) {m : Nat} (h1 : 64 ≤ m) (h2 : m ≤ 2560) (h3 : m % 64 = 0)
    (pos : Nat) (rest : List Bool) :
    feedFlat st pos 0 (T6.runCode st.color m ++ rest) =
      feedFlat (addRun st m) (pos + (T6.runCode st.color m).length) 0 rest := by
  obtain ⟨hne, hf⟩ := runCode_makeup st.color h1 h2 h3
  rw [feed_follow_leaf _ st pos rest _ hne (by rw [h.node]; exact hf)]
  have hm1 : ¬ (CcittCode.horiz1Term (m : Int) = true) := by rw [horiz1Term_iff]; omega
  have hm2 : ¬ (CcittCode.horiz2Term (m : Int) = true) := by rw [horiz2Term_iff]; omega
  obtain ⟨ha, hn⟩ := h
  cases ha with
  | inl ha =>
    simp only [accept, ha, parseHoriz1, hm1, if_false, afterAccept, addRun]
    congr 1
    cases st; simp_all
  | inr ha =>
    simp only [accept, ha, parseHoriz2, hm2, if_false, afterAccept, addRun]
    congr 1
    cases st; simp_all

theorem feed_makeups (st : St) (h : InRun st) : ∀ (k : Nat) (pos : Nat) (rest : List Bool),
    feedFlat st pos 0 ((List.replicate k (T6.runCode st.color 2560)).flatten ++ rest) =
      feedFlat (addRun st (2560 * k)) (pos + (List.replicate k (T6.runCode st.color 2560)).flatten.length) 0 rest := by
  intro k
  induction k generalizing st with
  | zero => intro pos rest; simp [addRun_zero]
  | succ k ih =>
    intro pos rest
    simp only [List.replicate_succ, List.flatten_cons, List.append_assoc, List.length_append]
    rw [feed_makeup st h (by omega) (by omega) (by omega)]
    have h' := addRun_inRun h 2560
    have := ih (addRun st 2560) h' (pos + (T6.runCode st.color 2560).length) rest
    rw [addRun_color] at this
    rw [this, addRun_add]
    congr 1
    · congr 1; omega
    · omega

/-- All codes of a run except the terminating one. -/
theorem encodeRun_split (c : Bool) (n : Nat) : ∃ (pre : List Bool) (m t : Nat),
    T6.encodeRun c n = pre ++ T6.runCode c t ∧ t < 64 ∧ m + t = n ∧
    ∀ (st : St), InRun st → st.color = c → ∀ (pos : Nat) (rest : List Bool),
      feedFlat st pos 0 (pre ++ rest) = feedFlat (addRun st m) (pos + pre.length) 0 rest := by
  let k := (n - 64) / 2560
  let n' := n - 2560 * k
  by_cases h64 : 64 ≤ n'
  · refine ⟨(List.replicate k (T6.runCode c 2560)).flatten ++ T6.runCode c (64 * (n' / 64)),
      2560 * k + 64 * (n' / 64), n' % 64, ?_, by omega, by omega, ?_⟩
    · simp only [T6.encodeRun, T6.encodeRunTail]
      rw [if_pos h64, List.append_assoc]
    · intro st hin hc pos rest
      subst hc
      rw [List.append_assoc, feed_makeups st hin]
      have h' := addRun_inRun hin (2560 * k)
      have := feed_makeup (addRun st (2560 * k)) h' (m := 64 * (n' / 64)) (by omega) (by omega) (by omega)
        (pos + (List.replicate k (T6.runCode st.color 2560)).flatten.length) rest
      rw [addRun_color] at this
      rw [this, addRun_add, List.length_append, Nat.add_assoc]
  · refine ⟨(List.replicate k (T6.runCode c 2560)).flatten, 2560 * k, n', ?_, by omega, by omega, ?_⟩
    · simp only [T6.encodeRun, T6.encodeRunTail]
      rw [if_neg h64]
    · intro st hin hc pos rest
      subst hc
      rw [feed_makeups st hin]

end PdfVerif.Ccitt
