/-
C06: the table facts (`TablesOK`) for the tables REGENERATED from the Python source, checked by the
kernel (`decide +kernel` over the 4 281-entry glyph list and the 232 ENCODING rows).  An edit of
glyphlist.py / latin_enc.py that breaks one of the facts breaks this file.

The row facts use a certificate emitted by the translator (`ENCODING_GLYPH_INDEX`: chunk and offset
of each row name in the glyph list), so the kernel does 232 indexings instead of 232 linear searches.
The lifting lemmas are stated for arbitrary tables (so that the kernel never compares the big
literals structurally); only the three `decide +kernel` facts mention the generated constants.
-/
import PdfVerif.Spec.SimpleFontTables
import PdfVerif.Lemmas.SimpleFont
import PdfVerif.Lemmas.Agl

namespace PdfVerif.SimpleFont.Inst
open PdfVerif PdfVerif.SimpleFont PdfVerif.SimpleFont.Spec PdfVerif.Gen.FontTables

abbrev SGlyph := String × List Nat
abbrev SRow := String × Option Nat × Option Nat × Option Nat × Option Nat

def liftGlyphs (gl : List SGlyph) : GlyphList := gl.map (fun e => (e.1.toList, e.2))
def liftRows (rs : List SRow) : List EncRow := rs.map (fun r => (r.1.toList, r.2))

/-! ### lifting lemmas (arbitrary tables) -/

theorem liftGlyphs_ok (gl : List SGlyph) (h : gl.all (fun e => !e.2.isEmpty) = true) :
    GlyphListOK (liftGlyphs gl) := by
  intro e he
  simp only [liftGlyphs, List.mem_map] at he
  obtain ⟨x, hx, rfl⟩ := he
  have := List.all_eq_true.mp h x hx
  simpa using this

/-- Row `r` sits at position `(k, j)` of the chunked glyph list and its name has no period / underscore. -/
def rowCert (chunks : List (List SGlyph)) (r : SRow) (i : Nat × Nat) : Bool :=
  match chunks[i.1]? with
  | some ch =>
    match ch[i.2]? with
    | some e => e.1 == r.1 && plainName r.1.toList
    | none => false
  | none => false

theorem exists_zip_of_mem {α β : Type} : ∀ (l₁ : List α) (l₂ : List β) (a : α),
    l₂.length = l₁.length → a ∈ l₁ → ∃ b, (a, b) ∈ l₁.zip l₂
  | [], _, _, _, h => by cases h
  | x :: xs, [], _, hl, _ => by simp at hl
  | x :: xs, y :: ys, a, hl, h => by
    simp only [List.mem_cons] at h
    rcases h with rfl | h
    · exact ⟨y, by simp⟩
    · obtain ⟨b, hb⟩ := exists_zip_of_mem xs ys a (by simpa using hl) h
      exact ⟨b, by simp [hb]⟩

theorem row_listed (chunks : List (List SGlyph)) (enc : List SRow) (idx : List (Nat × Nat))
    (hcert : (enc.zip idx).all (fun p => rowCert chunks p.1 p.2) = true) (hlen : idx.length = enc.length)
    (r : EncRow) (hr : r ∈ liftRows enc) :
    plainName r.1 = true ∧ (glLookup (liftGlyphs chunks.flatten) r.1).isSome = true := by
  simp only [liftRows, List.mem_map] at hr
  obtain ⟨r0, hr0, rfl⟩ := hr
  obtain ⟨i, hi⟩ := exists_zip_of_mem enc idx r0 hlen hr0
  have hc := List.all_eq_true.mp hcert (r0, i) hi
  simp only [rowCert] at hc
  cases hk : chunks[i.1]? with
  | none => simp [hk] at hc
  | some ch =>
    cases hg : ch[i.2]? with
    | none => simp [hk, hg] at hc
    | some e =>
      simp only [hk, hg, Bool.and_eq_true, beq_iff_eq] at hc
      refine ⟨hc.2, ?_⟩
      have hmem : e ∈ chunks.flatten :=
        List.mem_flatten.mpr ⟨ch, List.mem_of_getElem? hk, List.mem_of_getElem? hg⟩
      have hmem' : (e.1.toList, e.2) ∈ liftGlyphs chunks.flatten := by
        simp only [liftGlyphs, List.mem_map]; exact ⟨e, hmem, rfl⟩
      have := glLookup_isSome_of_mem hmem'
      simpa [hc.1] using this

/-! ### the two kernel computations on the regenerated tables -/

set_option maxRecDepth 100000

theorem glyphList_values_nonempty : glyphList.all (fun e => !e.2.isEmpty) = true := by decide +kernel

theorem rows_cert :
    (ENCODING.zip ENCODING_GLYPH_INDEX).all (fun p => rowCert glyphList_chunks p.1 p.2) = true ∧
    ENCODING_GLYPH_INDEX.length = ENCODING.length := by decide +kernel

/-! ### the facts for `Inst.glyphs`, `Inst.rows` -/

/-- No glyph-list entry has an empty value. -/
theorem glyphs_ok : GlyphListOK glyphs := liftGlyphs_ok glyphList glyphList_values_nonempty

theorem rows_listed (r : EncRow) (hr : r ∈ rows) :
    plainName r.1 = true ∧ (glLookup glyphs r.1).isSome = true :=
  row_listed glyphList_chunks ENCODING ENCODING_GLYPH_INDEX rows_cert.1 rows_cert.2 r hr

theorem rows_resolve : RowsResolve glyphs rows := by
  intro r hr
  obtain ⟨hp, hl⟩ := rows_listed r hr
  exact (plain_listed hp hl).1

theorem rows_judged : ∀ r ∈ rows, judgedName glyphs (some r.1) = true := by
  intro r hr
  obtain ⟨hp, hl⟩ := rows_listed r hr
  exact (plain_listed hp hl).2

end PdfVerif.SimpleFont.Inst
