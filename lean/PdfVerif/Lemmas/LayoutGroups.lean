import Mathlib.Data.List.Perm.Subperm
import Mathlib.Tactic.Ring
import Mathlib.Tactic.Linarith
import PdfVerif.Model.Layout
import PdfVerif.Lemmas.Layout
import PdfVerif.Lemmas.Plane

namespace PdfVerif.Layout
open PdfVerif PdfVerif.Gen.Layout

variable {le : Cmp}

/-! ### the heap -/

theorem popMin_none {h : List HEntry} : popMin le h = none ↔ h = [] := by
  cases h with
  | nil => simp [popMin]
  | cons e rest =>
    simp only [popMin]
    cases popMin le rest with
    | none => simp
    | some p =>
      obtain ⟨m, r⟩ := p
      simp only []
      split <;> simp

theorem popMin_perm : ∀ (h : List HEntry) (e : HEntry) (r : List HEntry),
    popMin le h = some (e, r) → h.Perm (e :: r)
  | [], e, r, h => by simp [popMin] at h
  | x :: rest, e, r, h => by
    simp only [popMin] at h
    cases hp : popMin le rest with
    | none =>
      rw [hp] at h
      simp only [Option.some.injEq, Prod.mk.injEq] at h
      obtain ⟨rfl, rfl⟩ := h
      rw [popMin_none.mp hp]
    | some p =>
      obtain ⟨m, rest'⟩ := p
      rw [hp] at h
      have ih := popMin_perm rest m rest' hp
      simp only at h
      split at h
      · simp only [Option.some.injEq, Prod.mk.injEq] at h
        obtain ⟨rfl, rfl⟩ := h
        exact List.Perm.refl _
      · simp only [Option.some.injEq, Prod.mk.injEq] at h
        obtain ⟨rfl, rfl⟩ := h
        exact (List.Perm.cons x ih).trans (List.Perm.swap _ _ _)

/-- weight of a heap entry: an entry can be popped twice (once re-pushed with `skip_isany`) -/
def wt (e : HEntry) : Nat := if e.skip then 1 else 2

def W : List HEntry → Nat
  | [] => 0
  | e :: r => wt e + W r

theorem W_append (a b : List HEntry) : W (a ++ b) = W a + W b := by
  induction a with
  | nil => simp [W]
  | cons e r ih => simp [W, ih]; omega

theorem W_perm {a b : List HEntry} (h : a.Perm b) : W a = W b := by
  induction h with
  | nil => rfl
  | cons x _ ih => simp [W, ih]
  | swap x y l => simp [W]; omega
  | trans _ _ ih1 ih2 => exact ih1.trans ih2

theorem W_map_false {α : Type} (l : List α) (f : α → HEntry) (hf : ∀ x, (f x).skip = false) :
    W (l.map f) = 2 * l.length := by
  induction l with
  | nil => rfl
  | cons x r ih => simp [W, wt, hf, ih]; omega

/-! ### the plane -/

theorem remove_seq (p : Plane.Plane) (o : Plane.PObj) : (Plane.remove p o).1.seq = p.seq :=
  PdfVerif.Plane.remove_seq p o

theorem remove_objs (p : Plane.Plane) (o : Plane.PObj) : (Plane.remove p o).1.objs = p.objs.erase o.id :=
  PdfVerif.Plane.remove_objs p o

theorem add_seq (p : Plane.Plane) (o : Plane.PObj) : (Plane.add p o).seq = p.seq ++ [o] := rfl

theorem add_objs (p : Plane.Plane) (o : Plane.PObj) :
    (Plane.add p o).objs = if o.id ∈ p.objs then p.objs else p.objs ++ [o.id] := rfl

theorem iter_length_le (p : Plane.Plane) (hs : (p.seq.map (·.id)).Nodup) :
    (Plane.iter p).length ≤ p.objs.length := by
  have h1 : ((Plane.iter p).map (·.id)).Nodup := by
    refine List.Nodup.sublist ?_ hs
    exact List.Sublist.map _ (List.filter_sublist)
  have h2 : (Plane.iter p).map (·.id) ⊆ p.objs := by
    intro k hk
    simp only [Plane.iter, List.mem_map, List.mem_filter, decide_eq_true_eq] at hk
    obtain ⟨x, ⟨_, hx⟩, rfl⟩ := hk
    exact hx
  have := (List.subperm_of_subset h1 h2).length_le
  simpa using this

theorem mem_iter {p : Plane.Plane} {o : Plane.PObj} (h : o ∈ Plane.iter p) : o ∈ p.seq ∧ o.id ∈ p.objs := by
  simpa [Plane.iter] using h

theorem nodup_lt_length {l : List Nat} {n : Nat} (hn : l.Nodup) (hl : ∀ k ∈ l, k < n) : l.length ≤ n := by
  have : l ⊆ List.range n := by intro k hk; exact List.mem_range.mpr (hl k hk)
  simpa using (List.subperm_of_subset hn this).length_le

/-! ### invariant and potential of the `group_textboxes` loop -/

structure GInv (s : GState) : Prop where
  doneNodup : s.done.Nodup
  doneLt : ∀ k ∈ s.done, k < s.nodes.length
  objsNodup : s.plane.objs.Nodup
  objsLt : ∀ k ∈ s.plane.objs, k < s.nodes.length
  objsLive : ∀ k ∈ s.plane.objs, k ∉ s.done
  seqNodup : (s.plane.seq.map (·.id)).Nodup
  seqLt : ∀ x ∈ s.plane.seq, x.id < s.nodes.length
  heapNe : ∀ e ∈ s.heap, e.id1 ≠ e.id2

def liveCount (s : GState) : Nat := s.nodes.length - s.done.length

def phi (s : GState) : Nat := W s.heap + liveCount s * (liveCount s - 1)

theorem arith_merge (w k m : Nat) (hm : m ≤ k) :
    w + 2 * m + (k + 1) * (k + 1 - 1) < w + 1 + (k + 2) * (k + 2 - 1) := by
  have h1 : k + 1 - 1 = k := by omega
  have h2 : k + 2 - 1 = k + 1 := by omega
  rw [h1, h2]
  nlinarith

theorem gtbStep_inv {s s' : GState} (hi : GInv s) (h : gtbStep le s = some s') :
    GInv s' ∧ phi s' < phi s := by
  unfold gtbStep at h
  cases hp : popMin le s.heap with
  | none => rw [hp] at h; simp at h
  | some pr =>
    obtain ⟨e, heap⟩ := pr
    rw [hp] at h
    simp only at h
    have hperm := popMin_perm _ _ _ hp
    have hW : W s.heap = wt e + W heap := by rw [W_perm hperm]; rfl
    have hwt : 1 ≤ wt e := by unfold wt; split <;> omega
    have hsub : ∀ x ∈ heap, x ∈ s.heap := fun x hx => hperm.symm.subset (List.mem_cons_of_mem _ hx)
    have he : e ∈ s.heap := hperm.symm.subset (List.mem_cons_self)
    split at h
    · -- dead entry
      simp only [Option.some.injEq] at h
      subst h
      refine ⟨⟨hi.doneNodup, hi.doneLt, hi.objsNodup, hi.objsLt, hi.objsLive, hi.seqNodup, hi.seqLt,
        fun x hx => hi.heapNe x (hsub x hx)⟩, ?_⟩
      simp only [phi, liveCount, hW]; omega
    · rename_i hlive
      simp only [Bool.not_eq_true] at hlive
      split at h
      · rename_i n1 n2 hn1 hn2
        split at h
        · -- blocked by another object: pushed back with skip_isany = True
          rename_i hblock
          simp only [Option.some.injEq] at h
          subst h
          simp only [Bool.and_eq_true, Bool.not_eq_true'] at hblock
          refine ⟨⟨hi.doneNodup, hi.doneLt, hi.objsNodup, hi.objsLt, hi.objsLive, hi.seqNodup, hi.seqLt, ?_⟩, ?_⟩
          · intro x hx
            simp only [List.mem_append, List.mem_singleton] at hx
            rcases hx with hx | rfl
            · exact hi.heapNe x (hsub x hx)
            · exact hi.heapNe e he
          · simp only [phi, liveCount, hW, W_append, W, wt, hblock.1]
            simp
            omega
        · -- merge
          simp only [Option.some.injEq] at h
          subst h
          have hl1 : e.id1 < s.nodes.length := (List.getElem?_eq_some_iff.mp hn1).1
          have hl2 : e.id2 < s.nodes.length := (List.getElem?_eq_some_iff.mp hn2).1
          have hlive' : e.id1 ∉ s.done ∧ e.id2 ∉ s.done := by
            simpa [live] using hlive
          have hd1 : e.id1 ∉ s.done := hlive'.1
          have hd2 : e.id2 ∉ s.done := hlive'.2
          have hne : e.id1 ≠ e.id2 := hi.heapNe e he
          -- the plane after the two removals
          set r1 := Plane.remove s.plane (nodePObj e.id1 n1) with hr1
          set r2 := Plane.remove r1.1 (nodePObj e.id2 n2) with hr2
          have hseq2 : r2.1.seq = s.plane.seq := by rw [hr2, remove_seq, hr1, remove_seq]
          have hobjs2 : r2.1.objs = (s.plane.objs.erase e.id1).erase e.id2 := by
            rw [hr2, remove_objs, hr1, remove_objs]; rfl
          have hnd2 : r2.1.objs.Nodup := by rw [hobjs2]; exact (hi.objsNodup.erase _).erase _
          have hmem2 : ∀ k ∈ r2.1.objs, k ∈ s.plane.objs ∧ k ≠ e.id1 ∧ k ≠ e.id2 := by
            intro k hk
            rw [hobjs2] at hk
            have h1 := ((hi.objsNodup.erase e.id1).mem_erase_iff).mp hk
            have h2 := (hi.objsNodup.mem_erase_iff).mp h1.2
            exact ⟨h2.2, h2.1, h1.1⟩
          have hgid : ∀ k ∈ r2.1.objs, k ≠ s.nodes.length := fun k hk =>
            Nat.ne_of_lt (hi.objsLt k (hmem2 k hk).1)
          -- size of what is pushed
          have hm : (Plane.iter r2.1).length + (s.done.length + 2) ≤ s.nodes.length := by
            have ha := iter_length_le r2.1 (by rw [hseq2]; exact hi.seqNodup)
            have hb : (r2.1.objs ++ (e.id2 :: e.id1 :: s.done)).Nodup := by
              rw [List.nodup_append]
              refine ⟨hnd2, ?_, ?_⟩
              · simp only [List.nodup_cons, List.mem_cons, not_or]
                exact ⟨⟨fun h => hne h.symm, hd2⟩, hd1, hi.doneNodup⟩
              · intro a ha b hb heq
                subst heq
                have := hmem2 a ha
                simp only [List.mem_cons] at hb
                rcases hb with rfl | rfl | hb
                · exact this.2.2 rfl
                · exact this.2.1 rfl
                · exact hi.objsLive a this.1 hb
            have hc := nodup_lt_length hb (by
              intro k hk
              simp only [List.mem_append, List.mem_cons] at hk
              rcases hk with hk | rfl | rfl | hk
              · exact hi.objsLt k (hmem2 k hk).1
              · exact hl2
              · exact hl1
              · exact hi.doneLt k hk)
            simp only [List.length_append, List.length_cons] at hc
            omega
          refine ⟨⟨?_, ?_, ?_, ?_, ?_, ?_, ?_, ?_⟩, ?_⟩
          · simp only [List.nodup_cons, List.mem_cons, not_or]
            exact ⟨⟨fun h => hne h.symm, hd2⟩, hd1, hi.doneNodup⟩
          · intro k hk
            simp only [List.mem_cons] at hk
            simp only [List.length_append, List.length_singleton]
            rcases hk with rfl | rfl | hk
            · omega
            · omega
            · have := hi.doneLt k hk; omega
          · rw [add_objs]
            split
            · exact hnd2
            · rw [List.nodup_append]
              refine ⟨hnd2, by simp, ?_⟩
              intro a ha b hb
              simp only [List.mem_singleton] at hb
              subst hb
              exact hgid a ha
          · intro k hk
            rw [add_objs] at hk
            simp only [List.length_append, List.length_singleton]
            split at hk
            · have := hi.objsLt k (hmem2 k hk).1; omega
            · simp only [List.mem_append, List.mem_singleton] at hk
              rcases hk with hk | rfl
              · have := hi.objsLt k (hmem2 k hk).1; omega
              · simp [nodePObj]
          · intro k hk
            rw [add_objs] at hk
            have key : ∀ k ∈ r2.1.objs, k ∉ e.id2 :: e.id1 :: s.done := by
              intro k hk hc
              have := hmem2 k hk
              simp only [List.mem_cons] at hc
              rcases hc with rfl | rfl | hc
              · exact this.2.2 rfl
              · exact this.2.1 rfl
              · exact hi.objsLive k this.1 hc
            split at hk
            · exact key k hk
            · simp only [List.mem_append, List.mem_singleton] at hk
              rcases hk with hk | rfl
              · exact key k hk
              · simp only [nodePObj, List.mem_cons, not_or]
                refine ⟨by omega, by omega, ?_⟩
                intro hc; have := hi.doneLt _ hc; omega
          · rw [add_seq, hseq2, List.map_append, List.nodup_append]
            refine ⟨hi.seqNodup, by simp, ?_⟩
            intro a ha b hb
            simp only [List.map_singleton, List.mem_singleton, nodePObj] at hb
            subst hb
            simp only [List.mem_map] at ha
            obtain ⟨x, hx, rfl⟩ := ha
            exact Nat.ne_of_lt (hi.seqLt x hx)
          · intro x hx
            rw [add_seq, hseq2] at hx
            simp only [List.length_append, List.length_singleton]
            simp only [List.mem_append, List.mem_singleton] at hx
            rcases hx with hx | rfl
            · have := hi.seqLt x hx; omega
            · simp [nodePObj]
          · intro x hx
            simp only [List.mem_append, List.mem_map] at hx
            rcases hx with hx | ⟨o, ho, rfl⟩
            · exact hi.heapNe x (hsub x hx)
            · simp only
              have := (mem_iter ho).1
              rw [hseq2] at this
              exact (Nat.ne_of_lt (hi.seqLt o this)).symm
          · -- the potential decreases
            simp only [phi, liveCount, hW, W_append, List.length_append, List.length_singleton, List.length_cons,
              List.length_nil, Nat.zero_add]
            rw [W_map_false _ _ (fun _ => rfl)]
            obtain ⟨k, hk⟩ : ∃ k, s.nodes.length - s.done.length = k + 2 := ⟨s.nodes.length - s.done.length - 2, by omega⟩
            have h1 : s.nodes.length + 1 - (s.done.length + 1 + 1) = k + 1 := by omega
            rw [h1, hk]
            have := arith_merge (W heap) k (Plane.iter r2.1).length (by omega)
            omega
      · -- a heap entry names a node that does not exist
        simp only [Option.some.injEq] at h
        subst h
        refine ⟨⟨hi.doneNodup, hi.doneLt, hi.objsNodup, hi.objsLt, hi.objsLive, hi.seqNodup, hi.seqLt,
          fun x hx => hi.heapNe x (hsub x hx)⟩, ?_⟩
        simp only [phi, liveCount, hW]; omega

theorem gtbLoop_terminates : ∀ (fuel : Nat) (s : GState), GInv s → phi s < fuel → (gtbLoop le fuel s).2 = true
  | 0, s, _, h => by omega
  | fuel + 1, s, hi, h => by
    simp only [gtbLoop]
    cases hs : gtbStep le s with
    | none => rfl
    | some s' =>
      have := gtbStep_inv hi hs
      exact gtbLoop_terminates fuel s' this.1 (by omega)


/-! ### the initial state -/

theorem foldl_add_seq (objs : List Plane.PObj) : ∀ p : Plane.Plane, (objs.foldl Plane.add p).seq = p.seq ++ objs := by
  induction objs with
  | nil => intro p; simp
  | cons o r ih => intro p; simp [ih, add_seq]

theorem foldl_add_objs (objs : List Plane.PObj) : ∀ p : Plane.Plane, p.objs.Nodup →
    (objs.foldl Plane.add p).objs.Nodup ∧
    ∀ k ∈ (objs.foldl Plane.add p).objs, k ∈ p.objs ∨ k ∈ objs.map (·.id) := by
  induction objs with
  | nil => intro p h; simp [h]
  | cons o r ih =>
    intro p h
    have hn : (Plane.add p o).objs.Nodup := by
      rw [add_objs]; split
      · exact h
      · rename_i hm
        rw [List.nodup_append]
        exact ⟨h, by simp, fun a ha b hb => by simp at hb; subst hb; exact fun hab => hm (hab ▸ ha)⟩
    have := ih (Plane.add p o) hn
    refine ⟨this.1, ?_⟩
    intro k hk
    rcases this.2 k hk with h1 | h1
    · rw [add_objs] at h1
      split at h1
      · exact Or.inl h1
      · simp only [List.mem_append, List.mem_singleton] at h1
        rcases h1 with h1 | rfl
        · exact Or.inl h1
        · exact Or.inr (by simp)
    · exact Or.inr (by simp only [List.map_cons, List.mem_cons]; exact Or.inr h1)

theorem length_flatMap_le {α β : Type} (l : List α) (f : α → List β) (n : Nat) (h : ∀ x ∈ l, (f x).length ≤ n) :
    (l.flatMap f).length ≤ l.length * n := by
  induction l with
  | nil => simp
  | cons x r ih =>
    simp only [List.flatMap_cons, List.length_append, List.length_cons]
    have h1 := h x (by simp)
    have h2 := ih (fun y hy => h y (by simp [hy]))
    rw [Nat.add_mul]; omega

theorem initPairs_length (bbs : List BB) : (initPairs bbs).length ≤ bbs.length * bbs.length := by
  unfold initPairs
  have := length_flatMap_le bbs.zipIdx
    (fun (x : BB × Nat) => ((bbs.zipIdx).filter (fun (y : BB × Nat) => x.2 < y.2)).map
      fun (y : BB × Nat) => (⟨false, dist x.1 y.1, x.2, y.2⟩ : HEntry)) bbs.length
    (by
      intro x _
      simp only [List.length_map]
      exact (List.length_filter_le _ _).trans (by simp))
  simpa using this

theorem initPairs_skip (bbs : List BB) : ∀ e ∈ initPairs bbs, e.skip = false ∧ e.id1 < e.id2 := by
  intro e he
  unfold initPairs at he
  simp only [List.mem_flatMap, List.mem_map, List.mem_filter, decide_eq_true_eq] at he
  obtain ⟨x, _, y, ⟨_, hlt⟩, rfl⟩ := he
  exact ⟨rfl, hlt⟩

theorem W_le_of_skip_false : ∀ (h : List HEntry), (∀ e ∈ h, e.skip = false) → W h = 2 * h.length
  | [], _ => rfl
  | e :: r, he => by
    simp only [W, wt, he e (by simp), List.length_cons]
    rw [W_le_of_skip_false r (fun x hx => he x (by simp [hx]))]
    simp; omega

theorem mkPlane_seq (pageBB : BB) (objs : List Plane.PObj) : (mkPlane pageBB objs).seq = objs := by
  unfold mkPlane; rw [foldl_add_seq]; simp [Plane.init]

theorem mkPlane_objs (pageBB : BB) (objs : List Plane.PObj) :
    (mkPlane pageBB objs).objs.Nodup ∧ ∀ k ∈ (mkPlane pageBB objs).objs, k ∈ objs.map (·.id) := by
  unfold mkPlane
  have := foldl_add_objs objs (Plane.init pageBB.toRect PLANE_GRIDSIZE) (by simp [Plane.init])
  refine ⟨this.1, fun k hk => ?_⟩
  rcases this.2 k hk with h | h
  · simp [Plane.init] at h
  · exact h

theorem zipIdx_ids (boxes : List Box) :
    (boxes.zipIdx.map fun (x : Box × Nat) => nodePObj x.2 (.leaf x.1)).map (·.id) = List.range' 0 boxes.length := by
  rw [List.map_map, ← List.zipIdx_map_snd 0 boxes]
  rfl

theorem gtbInit_inv (pageBB : BB) (boxes : List Box) : GInv (gtbInit pageBB boxes) := by
  have hobjs := mkPlane_objs pageBB (boxes.zipIdx.map fun (x : Box × Nat) => nodePObj x.2 (.leaf x.1))
  have hids := zipIdx_ids boxes
  refine ⟨by simp [gtbInit], by simp [gtbInit], hobjs.1, ?_, by simp [gtbInit], ?_, ?_, ?_⟩
  · intro k hk
    have := hobjs.2 k hk
    rw [hids] at this
    simpa [gtbInit] using (List.mem_range'_1.mp this).2
  · show ((mkPlane pageBB _).seq.map (·.id)).Nodup
    rw [mkPlane_seq, hids]
    exact List.nodup_range'
  · intro x hx
    have hx' : x ∈ (mkPlane pageBB (boxes.zipIdx.map fun (x : Box × Nat) => nodePObj x.2 (.leaf x.1))).seq := hx
    rw [mkPlane_seq] at hx'
    have : x.id ∈ List.range' 0 boxes.length := by rw [← hids]; exact List.mem_map_of_mem hx'
    simpa [gtbInit] using (List.mem_range'_1.mp this).2
  · intro e he
    exact Nat.ne_of_lt (initPairs_skip _ e he).2

theorem gtbInit_phi (pageBB : BB) (boxes : List Box) : phi (gtbInit pageBB boxes) < gtbFuel boxes.length := by
  have h1 := initPairs_length (boxes.map (·.bb))
  have h2 := W_le_of_skip_false (initPairs (boxes.map (·.bb))) (fun e he => (initPairs_skip _ e he).1)
  simp only [List.length_map] at h1
  simp only [phi, liveCount, gtbInit, gtbFuel, h2, List.length_map, List.length_nil, Nat.sub_zero]
  have : boxes.length * (boxes.length - 1) ≤ boxes.length * boxes.length := Nat.mul_le_mul_left _ (Nat.sub_le _ _)
  have e3 : 3 * boxes.length * boxes.length = 3 * (boxes.length * boxes.length) := by ring
  omega

/-- The loop of `group_textboxes` ends by itself within the fuel for every input. -/
theorem groupTextboxes_fuel (pageBB : BB) (boxes : List Box) : (groupTextboxes le pageBB boxes).2.fuel = false := by
  simp only [groupTextboxes]
  rw [gtbLoop_terminates _ _ (gtbInit_inv pageBB boxes) (gtbInit_phi pageBB boxes)]
  rfl


/-! ### conservation in `group_textboxes` -/

theorem iter_remove (p : Plane.Plane) (o : Plane.PObj) (hn : p.objs.Nodup) :
    Plane.iter (Plane.remove p o).1 = (Plane.iter p).filter (fun x => x.id != o.id) := by
  simp only [Plane.iter, remove_seq, remove_objs, List.filter_filter]
  apply List.filter_congr
  intro x _
  by_cases h : x.id = o.id
  · have : o.id ∉ p.objs.erase o.id := fun hc => ((hn.mem_erase_iff).mp hc).1 rfl
    simp [h, this]
  · simp [h, List.mem_erase_of_ne h]

theorem remove_ok (p : Plane.Plane) (o : Plane.PObj) (h : o.id ∈ p.objs) : (Plane.remove p o).2 = true :=
  PdfVerif.Plane.remove_ok p o h

theorem iter_add (p : Plane.Plane) (o : Plane.PObj) (h1 : o.id ∉ p.objs) (h2 : ∀ x ∈ p.seq, x.id ≠ o.id) :
    Plane.iter (Plane.add p o) = Plane.iter p ++ [o] := by
  simp only [Plane.iter, add_seq, add_objs, if_neg h1, List.filter_append]
  congr 1
  · apply List.filter_congr
    intro x hx
    simp [h2 x hx]
  · simp

theorem perm_extract {l : List Plane.PObj} (hn : (l.map (·.id)).Nodup) {x : Plane.PObj} (hx : x ∈ l) :
    l.Perm (x :: l.filter (fun y => y.id != x.id)) := by
  induction l with
  | nil => simp at hx
  | cons a r ih =>
    simp only [List.map_cons, List.nodup_cons, List.mem_map, not_exists, not_and] at hn
    simp only [List.mem_cons] at hx
    rcases hx with rfl | hx
    · have : r.filter (fun y => y.id != x.id) = r := by
        apply List.filter_eq_self.mpr
        intro y hy
        have := hn.1 y hy
        simpa [bne_iff_ne] using this
      simp [List.filter_cons, this]
    · have hax : a.id ≠ x.id := fun h => hn.1 x hx h.symm
      have := ih hn.2 hx
      simp only [List.filter_cons, bne_iff_ne, ne_eq, hax, not_false_eq_true, ite_true]
      exact (List.Perm.cons a this).trans (List.Perm.swap _ _ _)

inductive NodeWF : Node → Prop
  | leaf (b : Box) : NodeWF (.leaf b)
  | grp (t : Bool) (bb : BB) (l r : Node) : NodeWF l → NodeWF r → bb = l.bb.union r.bb →
      t = (l.isVert || r.isVert) → NodeWF (.grp t bb l r)

def liveNodes (s : GState) : List Node := (Plane.iter s.plane).filterMap (fun o => s.nodes[o.id]?)

structure CInv (boxes : List Box) (s : GState) : Prop where
  inv : GInv s
  heapLt : ∀ e ∈ s.heap, e.id1 < s.nodes.length ∧ e.id2 < s.nodes.length
  liveIn : ∀ k, k < s.nodes.length → k ∉ s.done → ∃ x ∈ Plane.iter s.plane, x.id = k
  noErr : s.err = false
  wf : ∀ n ∈ s.nodes, NodeWF n
  leaves : ((liveNodes s).flatMap Node.leaves).Perm boxes

theorem filterMap_lookup_append {l : List Plane.PObj} {nodes : List Node} (g : Node)
    (h : ∀ x ∈ l, x.id < nodes.length) :
    l.filterMap (fun o => (nodes ++ [g])[o.id]?) = l.filterMap (fun o => nodes[o.id]?) := by
  apply List.filterMap_congr
  intro x hx
  exact List.getElem?_append_left (h x hx)

theorem gtbStep_cinv {boxes : List Box} {s s' : GState} (hc : CInv boxes s) (h : gtbStep le s = some s') :
    CInv boxes s' := by
  have hinv' := (gtbStep_inv hc.inv h).1
  have hi := hc.inv
  unfold gtbStep at h
  cases hp : popMin le s.heap with
  | none => rw [hp] at h; simp at h
  | some pr =>
    obtain ⟨e, heap⟩ := pr
    rw [hp] at h
    simp only at h
    have hperm := popMin_perm _ _ _ hp
    have hsub : ∀ x ∈ heap, x ∈ s.heap := fun x hx => hperm.symm.subset (List.mem_cons_of_mem _ hx)
    have he : e ∈ s.heap := hperm.symm.subset (List.mem_cons_self)
    split at h
    · simp only [Option.some.injEq] at h
      subst h
      exact ⟨hinv', fun x hx => hc.heapLt x (hsub x hx), hc.liveIn, hc.noErr, hc.wf, hc.leaves⟩
    · rename_i hlive
      split at h
      · rename_i n1 n2 hn1 hn2
        split at h
        · simp only [Option.some.injEq] at h
          subst h
          refine ⟨hinv', ?_, hc.liveIn, hc.noErr, hc.wf, hc.leaves⟩
          intro x hx
          simp only [List.mem_append, List.mem_singleton] at hx
          rcases hx with hx | rfl
          · exact hc.heapLt x (hsub x hx)
          · exact hc.heapLt e he
        · simp only [Option.some.injEq] at h
          subst h
          have hl1 : e.id1 < s.nodes.length := (List.getElem?_eq_some_iff.mp hn1).1
          have hl2 : e.id2 < s.nodes.length := (List.getElem?_eq_some_iff.mp hn2).1
          have hlive' : e.id1 ∉ s.done ∧ e.id2 ∉ s.done := by
            simpa [live] using hlive
          have hne : e.id1 ≠ e.id2 := hi.heapNe e he
          obtain ⟨o1, ho1, hid1⟩ := hc.liveIn e.id1 hl1 hlive'.1
          obtain ⟨o2, ho2, hid2⟩ := hc.liveIn e.id2 hl2 hlive'.2
          have hnd1 : (Plane.remove s.plane (nodePObj e.id1 n1)).1.objs.Nodup := by
            rw [remove_objs]; exact hi.objsNodup.erase _
          have hiter2 : Plane.iter (Plane.remove (Plane.remove s.plane (nodePObj e.id1 n1)).1 (nodePObj e.id2 n2)).1
              = ((Plane.iter s.plane).filter (fun x => x.id != e.id1)).filter (fun x => x.id != e.id2) := by
            rw [iter_remove _ _ hnd1, iter_remove _ _ hi.objsNodup]; rfl
          set p2 := (Plane.remove (Plane.remove s.plane (nodePObj e.id1 n1)).1 (nodePObj e.id2 n2)).1 with hp2
          have hseq2 : p2.seq = s.plane.seq := by rw [hp2, remove_seq, remove_seq]
          have hobjs2 : p2.objs = (s.plane.objs.erase e.id1).erase e.id2 := by
            rw [hp2, remove_objs, remove_objs]; rfl
          have hgid1 : (nodePObj s.nodes.length (Node.grp (n1.isVert || n2.isVert) (n1.bb.union n2.bb) n1 n2)).id ∉ p2.objs := by
            intro hk
            rw [hobjs2] at hk
            have h1 := ((hi.objsNodup.erase e.id1).mem_erase_iff).mp hk
            have h2 := (hi.objsNodup.mem_erase_iff).mp h1.2
            exact Nat.lt_irrefl _ (hi.objsLt _ h2.2)
          have hgid2 : ∀ x ∈ p2.seq, x.id ≠ (nodePObj s.nodes.length (Node.grp (n1.isVert || n2.isVert) (n1.bb.union n2.bb) n1 n2)).id := by
            intro x hx
            rw [hseq2] at hx
            exact Nat.ne_of_lt (hi.seqLt x hx)
          have hiter3 := iter_add p2 _ hgid1 hgid2
          have hiterNodup : ((Plane.iter s.plane).map (·.id)).Nodup :=
            List.Nodup.sublist (List.Sublist.map _ List.filter_sublist) hi.seqNodup
          have ho1id : e.id1 ∈ s.plane.objs := by
            simpa [hid1] using (mem_iter ho1).2
          have ho2id : e.id2 ∈ s.plane.objs.erase e.id1 := by
            rw [(hi.objsNodup.mem_erase_iff)]
            exact ⟨hne.symm, by simpa [hid2] using (mem_iter ho2).2⟩
          refine ⟨hinv', ?_, ?_, ?_, ?_, ?_⟩
          · intro x hx
            simp only [List.mem_append, List.mem_map] at hx
            simp only [List.length_append, List.length_singleton]
            rcases hx with hx | ⟨o, ho, rfl⟩
            · have := hc.heapLt x (hsub x hx); omega
            · have := (mem_iter ho).1
              rw [hseq2] at this
              have := hi.seqLt o this
              simp only; omega
          · intro k hk hkd
            simp only [List.length_append, List.length_singleton] at hk
            simp only [List.mem_cons, not_or] at hkd
            rw [hiter3]
            by_cases hkn : k = s.nodes.length
            · exact ⟨nodePObj s.nodes.length (Node.grp (n1.isVert || n2.isVert) (n1.bb.union n2.bb) n1 n2),
                List.mem_append_right _ (List.mem_singleton_self _), by simp [nodePObj, hkn]⟩
            · obtain ⟨x, hx, hxid⟩ := hc.liveIn k (by omega) hkd.2.2
              refine ⟨x, ?_, hxid⟩
              rw [hiter2]
              simp only [List.mem_append, List.mem_filter, bne_iff_ne, ne_eq]
              exact Or.inl ⟨⟨hx, by rw [hxid]; exact hkd.2.1⟩, by rw [hxid]; exact hkd.1⟩
          · -- no KeyError
            have e1 : (Plane.remove s.plane (nodePObj e.id1 n1)).2 = true := remove_ok _ _ ho1id
            have e2 : (Plane.remove (Plane.remove s.plane (nodePObj e.id1 n1)).1 (nodePObj e.id2 n2)).2 = true := by
              apply remove_ok
              rw [remove_objs]; exact ho2id
            simp [hc.noErr, e1, e2]
          · intro n hn
            simp only [List.mem_append, List.mem_singleton] at hn
            rcases hn with hn | rfl
            · exact hc.wf n hn
            · exact NodeWF.grp _ _ _ _ (hc.wf n1 (List.mem_of_getElem? hn1)) (hc.wf n2 (List.mem_of_getElem? hn2)) rfl rfl
          · -- the leaves of the live nodes are still the input boxes
            have hstep : liveNodes
                { heap := heap ++ List.map (fun o => ({ skip := false, d := dist (Node.grp (n1.isVert || n2.isVert) (n1.bb.union n2.bb) n1 n2).bb (pobjBB o), id1 := s.nodes.length, id2 := o.id } : HEntry)) (Plane.iter p2),
                  plane := Plane.add p2 (nodePObj s.nodes.length (Node.grp (n1.isVert || n2.isVert) (n1.bb.union n2.bb) n1 n2)),
                  done := e.id2 :: e.id1 :: s.done,
                  nodes := s.nodes ++ [Node.grp (n1.isVert || n2.isVert) (n1.bb.union n2.bb) n1 n2],
                  tie := s.tie || heap.any (fun e' => e'.skip == e.skip && e'.d == e.d && live s e'),
                  err := s.err || !(Plane.remove s.plane (nodePObj e.id1 n1)).2 || !(Plane.remove (Plane.remove s.plane (nodePObj e.id1 n1)).1 (nodePObj e.id2 n2)).2 }
                = (((Plane.iter s.plane).filter (fun x => x.id != e.id1)).filter (fun x => x.id != e.id2)).filterMap (fun o => s.nodes[o.id]?)
                  ++ [Node.grp (n1.isVert || n2.isVert) (n1.bb.union n2.bb) n1 n2] := by
              simp only [liveNodes]
              rw [hiter3, hiter2, List.filterMap_append]
              congr 1
              · apply filterMap_lookup_append
                intro x hx
                simp only [List.mem_filter] at hx
                exact hi.seqLt x (mem_iter hx.1.1).1
              · simp [nodePObj]
            rw [hstep]
            refine List.Perm.trans ?_ hc.leaves
            -- extract o1 and o2 from the old iteration
            have p1 := perm_extract hiterNodup ho1
            have ho2' : o2 ∈ (Plane.iter s.plane).filter (fun y => y.id != o1.id) := by
              simp only [List.mem_filter, bne_iff_ne, ne_eq]
              exact ⟨ho2, by rw [hid1, hid2]; exact hne.symm⟩
            have hnd' : (((Plane.iter s.plane).filter (fun y => y.id != o1.id)).map (·.id)).Nodup :=
              List.Nodup.sublist (List.Sublist.map _ List.filter_sublist) hiterNodup
            have p2' := perm_extract hnd' ho2'
            have pall : (Plane.iter s.plane).Perm
                (o1 :: o2 :: ((Plane.iter s.plane).filter (fun x => x.id != e.id1)).filter (fun x => x.id != e.id2)) := by
              rw [← hid1, ← hid2]
              exact p1.trans (List.Perm.cons _ p2')
            have hl : (liveNodes s).Perm (n1 :: n2 ::
                (((Plane.iter s.plane).filter (fun x => x.id != e.id1)).filter (fun x => x.id != e.id2)).filterMap (fun o => s.nodes[o.id]?)) := by
              have := List.Perm.filterMap (fun o => s.nodes[o.id]?) pall
              simpa [liveNodes, List.filterMap_cons, hid1, hid2, hn1, hn2] using this
            have := flatMap_perm Node.leaves hl
            refine List.Perm.trans ?_ this.symm
            simp only [List.flatMap_append, List.flatMap_cons, List.flatMap_nil, Node.leaves, List.append_nil]
            refine List.perm_append_comm.trans ?_
            simp [List.append_assoc]
      · -- a heap entry names a node that does not exist: impossible
        rename_i hnone
        have := hc.heapLt e he
        exfalso
        have h1 : ∃ n, s.nodes[e.id1]? = some n := ⟨s.nodes[e.id1], List.getElem?_eq_getElem this.1⟩
        have h2 : ∃ n, s.nodes[e.id2]? = some n := ⟨s.nodes[e.id2], List.getElem?_eq_getElem this.2⟩
        obtain ⟨a, ha⟩ := h1
        obtain ⟨b, hb⟩ := h2
        exact hnone a b ha hb

theorem gtbLoop_cinv {boxes : List Box} : ∀ (fuel : Nat) (s : GState), CInv boxes s → CInv boxes (gtbLoop le fuel s).1
  | 0, s, h => by simpa [gtbLoop] using h
  | fuel + 1, s, h => by
    simp only [gtbLoop]
    cases hs : gtbStep le s with
    | none => exact h
    | some s' => exact gtbLoop_cinv fuel s' (gtbStep_cinv h hs)

theorem foldl_add_objs_mem (objs : List Plane.PObj) : ∀ (p : Plane.Plane) (k : Nat),
    (k ∈ p.objs ∨ k ∈ objs.map (·.id)) → k ∈ (objs.foldl Plane.add p).objs := by
  induction objs with
  | nil => intro p k h; simpa using h
  | cons o r ih =>
    intro p k h
    simp only [List.foldl_cons]
    apply ih
    simp only [List.map_cons, List.mem_cons] at h
    rw [add_objs]
    rcases h with h | h | h
    · left; split
      · exact h
      · exact List.mem_append_left _ h
    · left; subst h; split
      · assumption
      · simp
    · exact Or.inr h

theorem initPairs_lt (bbs : List BB) : ∀ e ∈ initPairs bbs, e.id1 < bbs.length ∧ e.id2 < bbs.length := by
  intro e he
  unfold initPairs at he
  simp only [List.mem_flatMap, List.mem_map, List.mem_filter, decide_eq_true_eq] at he
  obtain ⟨x, hx, y, ⟨hy, _⟩, rfl⟩ := he
  have h1 := List.mem_zipIdx (x := x.1) (i := x.2) hx
  have h2 := List.mem_zipIdx (x := y.1) (i := y.2) hy
  exact ⟨by simpa using h1.2.1, by simpa using h2.2.1⟩

theorem zipIdx_lookup {α β : Type} (l : List α) (g : α → β) (f : α → Nat → Plane.PObj)
    (hf : ∀ x i, (f x i).id = i) :
    (l.zipIdx.map fun (x : α × Nat) => f x.1 x.2).filterMap (fun o => (l.map g)[o.id]?) = l.map g := by
  rw [List.filterMap_map]
  have : ∀ p ∈ l.zipIdx, ((fun o : Plane.PObj => (l.map g)[o.id]?) ∘ fun (x : α × Nat) => f x.1 x.2) p = some (g p.1) := by
    intro p hp
    have h := List.mem_zipIdx (x := p.1) (i := p.2) hp
    simp only [Function.comp, hf, List.getElem?_map]
    have hlt : p.2 < l.length := by simpa using h.2.1
    rw [List.getElem?_eq_getElem hlt]
    simp only [Option.map_some, Option.some.injEq]
    congr 1
    simpa using h.2.2.symm
  rw [List.filterMap_congr this]
  have h2 : (fun p : α × Nat => some (g p.1)) = some ∘ (g ∘ Prod.fst) := rfl
  rw [h2, List.filterMap_eq_map, ← List.map_map, List.zipIdx_map_fst]

theorem gtbInit_cinv (pageBB : BB) (boxes : List Box) : CInv boxes (gtbInit pageBB boxes) := by
  have hseq := mkPlane_seq pageBB (boxes.zipIdx.map fun (x : Box × Nat) => nodePObj x.2 (.leaf x.1))
  have hids := zipIdx_ids boxes
  have hall : ∀ x ∈ (boxes.zipIdx.map fun (x : Box × Nat) => nodePObj x.2 (Node.leaf x.1)),
      x.id ∈ (mkPlane pageBB (boxes.zipIdx.map fun (x : Box × Nat) => nodePObj x.2 (.leaf x.1))).objs := by
    intro x hx
    unfold mkPlane
    apply foldl_add_objs_mem
    exact Or.inr (List.mem_map_of_mem hx)
  have hiter : Plane.iter (gtbInit pageBB boxes).plane = boxes.zipIdx.map fun (x : Box × Nat) => nodePObj x.2 (.leaf x.1) := by
    show Plane.iter (mkPlane pageBB _) = _
    unfold Plane.iter
    rw [hseq]
    apply List.filter_eq_self.mpr
    intro x hx
    simpa using hall x hx
  refine ⟨gtbInit_inv pageBB boxes, ?_, ?_, rfl, ?_, ?_⟩
  · intro e he
    have := initPairs_lt _ e he
    simpa [gtbInit] using this
  · intro k hk _
    rw [hiter]
    have : k ∈ List.range' 0 boxes.length := by
      simp only [gtbInit, List.length_map] at hk
      exact List.mem_range'_1.mpr ⟨by omega, by omega⟩
    rw [← hids] at this
    simp only [List.mem_map] at this
    obtain ⟨x, hx, rfl⟩ := this
    exact ⟨x, by simpa using hx, rfl⟩
  · intro n hn
    simp only [gtbInit, List.mem_map] at hn
    obtain ⟨b, _, rfl⟩ := hn
    exact NodeWF.leaf b
  · have : liveNodes (gtbInit pageBB boxes) = boxes.map Node.leaf := by
      unfold liveNodes
      rw [hiter]
      exact zipIdx_lookup boxes Node.leaf (fun b i => nodePObj i (.leaf b)) (fun _ _ => rfl)
    rw [this, List.flatMap_map]
    simp [Node.leaves]

/-- `group_textboxes`: the loop ends within the fuel, no `KeyError`, every input box is a leaf of
exactly one returned node, every group's box is the union of its two members' boxes and its
class is TBRL iff a member is vertical. -/
theorem groupTextboxes_spec (pageBB : BB) (boxes : List Box) :
    ((groupTextboxes le pageBB boxes).1.flatMap Node.leaves).Perm boxes
    ∧ (∀ n ∈ (groupTextboxes le pageBB boxes).1, NodeWF n)
    ∧ (groupTextboxes le pageBB boxes).2.err = false
    ∧ (groupTextboxes le pageBB boxes).2.fuel = false := by
  have hc := gtbLoop_cinv (le := le) (gtbFuel boxes.length) _ (gtbInit_cinv pageBB boxes)
  refine ⟨hc.leaves, ?_, hc.noErr, groupTextboxes_fuel pageBB boxes⟩
  intro n hn
  simp only [groupTextboxes, List.mem_filterMap] at hn
  obtain ⟨o, _, ho⟩ := hn
  exact hc.wf n (List.mem_of_getElem? ho)

/-! ### at most one root -/

/-- Every two distinct live nodes still have an entry in the heap. -/
def PairInv (s : GState) : Prop :=
  ∀ i j, i < s.nodes.length → j < s.nodes.length → i ∉ s.done → j ∉ s.done → i ≠ j →
    ∃ e ∈ s.heap, (e.id1 = i ∧ e.id2 = j) ∨ (e.id1 = j ∧ e.id2 = i)

theorem gtbStep_pair {boxes : List Box} {s s' : GState} (hc : CInv boxes s) (hpair : PairInv s)
    (h : gtbStep le s = some s') : PairInv s' := by
  have hi := hc.inv
  unfold gtbStep at h
  cases hp : popMin le s.heap with
  | none => rw [hp] at h; simp at h
  | some pr =>
    obtain ⟨e, heap⟩ := pr
    rw [hp] at h
    simp only at h
    have hperm := popMin_perm _ _ _ hp
    have hsplit : ∀ x ∈ s.heap, x = e ∨ x ∈ heap := by
      intro x hx
      have := hperm.subset hx
      simpa using this
    split at h
    · -- dead entry
      rename_i hdead
      simp only [Option.some.injEq] at h
      subst h
      intro i j hi' hj' hdi hdj hij
      obtain ⟨x, hx, hxij⟩ := hpair i j hi' hj' hdi hdj hij
      rcases hsplit x hx with rfl | hx'
      · exfalso
        have : live s x = true := by
          simp only [live, Bool.and_eq_true, Bool.not_eq_true', List.contains_eq_mem, decide_eq_false_iff_not]
          rcases hxij with ⟨h1, h2⟩ | ⟨h1, h2⟩
          · rw [h1, h2]; exact ⟨hdi, hdj⟩
          · rw [h1, h2]; exact ⟨hdj, hdi⟩
        simp [this] at hdead
      · exact ⟨x, hx', hxij⟩
    · rename_i hlive
      split at h
      · rename_i n1 n2 hn1 hn2
        split at h
        · simp only [Option.some.injEq] at h
          subst h
          intro i j hi' hj' hdi hdj hij
          obtain ⟨x, hx, hxij⟩ := hpair i j hi' hj' hdi hdj hij
          rcases hsplit x hx with rfl | hx'
          · exact ⟨{ x with skip := true }, by simp, hxij⟩
          · exact ⟨x, List.mem_append_left _ hx', hxij⟩
        · simp only [Option.some.injEq] at h
          subst h
          have hl1 : e.id1 < s.nodes.length := (List.getElem?_eq_some_iff.mp hn1).1
          have hl2 : e.id2 < s.nodes.length := (List.getElem?_eq_some_iff.mp hn2).1
          have hnd1 : (Plane.remove s.plane (nodePObj e.id1 n1)).1.objs.Nodup := by
            rw [remove_objs]; exact hi.objsNodup.erase _
          have hiter2 : Plane.iter (Plane.remove (Plane.remove s.plane (nodePObj e.id1 n1)).1 (nodePObj e.id2 n2)).1
              = ((Plane.iter s.plane).filter (fun x => x.id != e.id1)).filter (fun x => x.id != e.id2) := by
            rw [iter_remove _ _ hnd1, iter_remove _ _ hi.objsNodup]; rfl
          -- an old live pair keeps its entry; a pair with the new group gets a fresh one
          have hnew : ∀ j, j < s.nodes.length → j ∉ s.done → j ≠ e.id1 → j ≠ e.id2 →
              ∃ x ∈ List.map (fun o => ({ skip := false, d := dist (Node.grp (n1.isVert || n2.isVert) (n1.bb.union n2.bb) n1 n2).bb (pobjBB o), id1 := s.nodes.length, id2 := o.id } : HEntry))
                (Plane.iter (Plane.remove (Plane.remove s.plane (nodePObj e.id1 n1)).1 (nodePObj e.id2 n2)).1),
                x.id1 = s.nodes.length ∧ x.id2 = j := by
            intro j hj hdj h1 h2
            obtain ⟨o, ho, hoid⟩ := hc.liveIn j hj hdj
            refine ⟨_, List.mem_map_of_mem (a := o) ?_, rfl, hoid⟩
            rw [hiter2]
            simp only [List.mem_filter, bne_iff_ne, ne_eq]
            exact ⟨⟨ho, by rw [hoid]; exact h1⟩, by rw [hoid]; exact h2⟩
          intro i j hi' hj' hdi hdj hij
          simp only [List.length_append, List.length_singleton] at hi' hj'
          simp only [List.mem_cons, not_or] at hdi hdj
          by_cases hiN : i = s.nodes.length
          · have hjN : j < s.nodes.length := by omega
            obtain ⟨x, hx, hx1, hx2⟩ := hnew j hjN hdj.2.2 hdj.2.1 hdj.1
            exact ⟨x, List.mem_append_right _ hx, Or.inl ⟨by rw [hx1, hiN], hx2⟩⟩
          · by_cases hjN : j = s.nodes.length
            · have hiN' : i < s.nodes.length := by omega
              obtain ⟨x, hx, hx1, hx2⟩ := hnew i hiN' hdi.2.2 hdi.2.1 hdi.1
              exact ⟨x, List.mem_append_right _ hx, Or.inr ⟨by rw [hx1, hjN], hx2⟩⟩
            · obtain ⟨x, hx, hxij⟩ := hpair i j (by omega) (by omega) hdi.2.2 hdj.2.2 hij
              rcases hsplit x hx with rfl | hx'
              · exfalso
                rcases hxij with ⟨h1, _⟩ | ⟨h1, _⟩
                · exact hdi.2.1 h1.symm
                · exact hdj.2.1 h1.symm
              · exact ⟨x, List.mem_append_left _ hx', hxij⟩
      · rename_i hnone
        have he : e ∈ s.heap := hperm.symm.subset List.mem_cons_self
        have := hc.heapLt e he
        exfalso
        exact hnone _ _ (List.getElem?_eq_getElem this.1) (List.getElem?_eq_getElem this.2)

theorem gtbLoop_pair {boxes : List Box} : ∀ (fuel : Nat) (s : GState), CInv boxes s → PairInv s →
    PairInv (gtbLoop le fuel s).1 ∧ ((gtbLoop le fuel s).2 = true → (gtbLoop le fuel s).1.heap = [])
  | 0, s, _, hp => by
    refine ⟨by simpa [gtbLoop] using hp, ?_⟩
    simp only [gtbLoop]
    intro h
    exact List.isEmpty_iff.mp h
  | fuel + 1, s, hc, hp => by
    simp only [gtbLoop]
    cases hs : gtbStep le s with
    | none =>
      refine ⟨hp, fun _ => ?_⟩
      unfold gtbStep at hs
      cases hpm : popMin le s.heap with
      | none => exact popMin_none.mp hpm
      | some pr =>
        rw [hpm] at hs
        simp only at hs
        split at hs
        · simp at hs
        · split at hs
          · split at hs <;> simp at hs
          · simp at hs
    | some s' => exact gtbLoop_pair fuel s' (gtbStep_cinv hc hs) (gtbStep_pair hc hp hs)

theorem initPairs_complete (bbs : List BB) (i j : Nat) (hij : i < j) (hj : j < bbs.length) :
    ∃ e ∈ initPairs bbs, e.id1 = i ∧ e.id2 = j := by
  have hi : i < bbs.length := by omega
  unfold initPairs
  refine ⟨⟨false, dist bbs[i] bbs[j], i, j⟩, ?_, rfl, rfl⟩
  simp only [List.mem_flatMap, List.mem_map, List.mem_filter, decide_eq_true_eq]
  refine ⟨(bbs[i], i), ?_, (bbs[j], j), ⟨?_, hij⟩, rfl⟩
  · rw [List.mem_zipIdx_iff_getElem?]; simp [hi]
  · rw [List.mem_zipIdx_iff_getElem?]; simp [hj]

theorem gtbInit_pair (pageBB : BB) (boxes : List Box) : PairInv (gtbInit pageBB boxes) := by
  intro i j hi hj _ _ hij
  simp only [gtbInit, List.length_map] at hi hj
  rcases Nat.lt_or_gt_of_ne hij with h | h
  · obtain ⟨e, he, h1, h2⟩ := initPairs_complete (boxes.map (·.bb)) i j h (by simpa using hj)
    exact ⟨e, he, Or.inl ⟨h1, h2⟩⟩
  · obtain ⟨e, he, h1, h2⟩ := initPairs_complete (boxes.map (·.bb)) j i h (by simpa using hi)
    exact ⟨e, he, Or.inr ⟨h1, h2⟩⟩

/-- `group_textboxes` returns at most one root. -/
theorem groupTextboxes_single_root (pageBB : BB) (boxes : List Box) :
    (groupTextboxes le pageBB boxes).1.length ≤ 1 := by
  have hc := gtbLoop_cinv (le := le) (gtbFuel boxes.length) _ (gtbInit_cinv pageBB boxes)
  have hp := gtbLoop_pair (le := le) (gtbFuel boxes.length) _ (gtbInit_cinv pageBB boxes) (gtbInit_pair pageBB boxes)
  have hterm := gtbLoop_terminates (le := le) _ _ (gtbInit_inv pageBB boxes) (gtbInit_phi pageBB boxes)
  have hheap := hp.2 hterm
  set sf := (gtbLoop le (gtbFuel boxes.length) (gtbInit pageBB boxes)).1 with hsf
  have hlen : (Plane.iter sf.plane).length ≤ 1 := by
    by_contra hgt
    have h2 : 2 ≤ (Plane.iter sf.plane).length := by omega
    obtain ⟨x, y, rest, hxy⟩ : ∃ x y rest, Plane.iter sf.plane = x :: y :: rest := by
      match h : Plane.iter sf.plane with
      | [] => simp [h] at h2
      | [_] => simp [h] at h2
      | x :: y :: rest => exact ⟨x, y, rest, rfl⟩
    have hnd : ((Plane.iter sf.plane).map (·.id)).Nodup :=
      List.Nodup.sublist (List.Sublist.map _ List.filter_sublist) hc.inv.seqNodup
    rw [hxy] at hnd
    simp only [List.map_cons, List.nodup_cons, List.mem_cons, not_or] at hnd
    have hx : x ∈ Plane.iter sf.plane := by rw [hxy]; simp
    have hy : y ∈ Plane.iter sf.plane := by rw [hxy]; simp
    have hxo := (mem_iter hx).2
    have hyo := (mem_iter hy).2
    obtain ⟨e, he, _⟩ := hp.1 x.id y.id (hc.inv.objsLt _ hxo) (hc.inv.objsLt _ hyo) (hc.inv.objsLive _ hxo)
      (hc.inv.objsLive _ hyo) hnd.1.1
    rw [hheap] at he
    simp at he
  have : (groupTextboxes le pageBB boxes).1.length ≤ (Plane.iter sf.plane).length := by
    simp only [groupTextboxes]
    exact List.length_filterMap_le _ _
  omega


end PdfVerif.Layout
