/-
C06: UTF-8.  `utf8Chars (utf8Encode cs) = some cs` for every character list (1-4 byte forms, all boundaries, the
surrogate gap), and the spelling of a glyph NAME as the `NameItem`s of a PDF/PostScript name (raw regular bytes,
`#XX` otherwise) - so that the Type 1 header round trip is stated over names instead of name bytes.
-/
import PdfVerif.Lemmas.Type1Roundtrip

namespace PdfVerif.SimpleFont
open PdfVerif PdfVerif.Lexer PdfVerif.StackParser PdfVerif.Gen.LexTables PdfVerif.Roundtrip

theorem u8 (k : Nat) (h : k < 256) : (UInt8.ofNat k).toNat = k := by rw [UInt8.toNat_ofNat']; omega

theorem dec1 (n : Nat) (h : n < 0x80) (r : Bytes) :
    utf8Chars (UInt8.ofNat n :: r) = (utf8Chars r).map (fun cs => Char.ofNat n :: cs) := by
  have ha := u8 n (by omega)
  generalize UInt8.ofNat n = a at ha
  conv => lhs; unfold utf8Chars
  have c1 : a < 0x80 := by rw [UInt8.lt_iff_toNat_lt, ha]; exact h
  simp only [c1, if_true, ha]

theorem dec2 (n : Nat) (h1 : 0x80 ≤ n) (h2 : n < 0x800) (r : Bytes) :
    utf8Chars (UInt8.ofNat (0xC0 + n / 64) :: UInt8.ofNat (0x80 + n % 64) :: r) =
      (utf8Chars r).map (fun cs => Char.ofNat n :: cs) := by
  have ha := u8 (0xC0 + n / 64) (by omega)
  have hb := u8 (0x80 + n % 64) (by omega)
  generalize UInt8.ofNat (0xC0 + n / 64) = a at ha
  generalize UInt8.ofNat (0x80 + n % 64) = b at hb
  rw [utf8Chars]
  have c1 : ¬ a < 0x80 := by rw [UInt8.lt_iff_toNat_lt, ha]; simp; omega
  have c2 : (0xC2 ≤ a && a ≤ 0xDF) = true := by
    simp only [Bool.and_eq_true, decide_eq_true_eq, UInt8.le_iff_toNat_le, ha]; simp; omega
  have c3 : (0x80 ≤ b && b ≤ 0xBF) = true := by
    simp only [Bool.and_eq_true, decide_eq_true_eq, UInt8.le_iff_toNat_le, hb]; simp; omega
  simp only [c1, if_false, c2, if_true, c3, ha, hb]
  have e : (0xC0 + n / 64 - 0xC0) * 64 + (0x80 + n % 64 - 0x80) = n := by omega
  rw [e]

theorem beq_lit (a k : UInt8) : (a == k) = decide (a.toNat = k.toNat) := by
  by_cases h : a = k
  · subst h; simp
  · have : a.toNat ≠ k.toNat := fun e => h (UInt8.toNat_inj.mp e)
    simp [h, this]

theorem dec3_core (a b c : UInt8) (r : Bytes) (na nb nc : Nat) (ha : a.toNat = na) (hb : b.toNat = nb)
    (hc : c.toNat = nc) (A : 0xE0 ≤ na ∧ na ≤ 0xEF)
    (B : (if na = 0xE0 then 0xA0 else 0x80) ≤ nb ∧ nb ≤ (if na = 0xED then 0x9F else 0xBF))
    (C : 0x80 ≤ nc ∧ nc ≤ 0xBF) :
    utf8Chars (a :: b :: c :: r) =
      (utf8Chars r).map (fun cs => Char.ofNat ((na - 0xE0) * 4096 + (nb - 0x80) * 64 + (nc - 0x80)) :: cs) := by
  conv => lhs; unfold utf8Chars
  have c1 : ¬ a < 0x80 := by rw [UInt8.lt_iff_toNat_lt, ha]; simp; omega
  have c2 : (0xC2 ≤ a && a ≤ 0xDF) = false := by
    simp only [Bool.and_eq_false_iff, decide_eq_false_iff_not, UInt8.le_iff_toNat_le, ha]; simp; omega
  have c3 : (0xE0 ≤ a && a ≤ 0xEF) = true := by
    simp only [Bool.and_eq_true, decide_eq_true_eq, UInt8.le_iff_toNat_le, ha]; simp; omega
  have c5 : (0x80 ≤ c && c ≤ 0xBF) = true := by
    simp only [Bool.and_eq_true, decide_eq_true_eq, UInt8.le_iff_toNat_le, hc]; simp; omega
  have e0 : (a == 0xE0) = decide (na = 0xE0) := by rw [beq_lit, ha]; simp
  have eD : (a == 0xED) = decide (na = 0xED) := by rw [beq_lit, ha]; simp
  simp only [c1, if_false, c2, Bool.false_eq_true, c3, if_true, e0, eD, c5, Bool.and_true]
  by_cases h0 : na = 0xE0
  · have hD : ¬ na = 0xED := by omega
    rw [if_pos h0, if_neg hD] at B
    have d0 : decide (na = 0xE0) = true := decide_eq_true h0
    have dD : decide (na = 0xED) = false := decide_eq_false hD
    simp only [d0, dD, if_true, Bool.false_eq_true, if_false]
    have c4 : (0xA0 ≤ b && b ≤ 0xBF) = true := by
      simp only [Bool.and_eq_true, decide_eq_true_eq, UInt8.le_iff_toNat_le, hb]; simp; omega
    simp only [c4, if_true, ha, hb, hc]
  · by_cases hD : na = 0xED
    · rw [if_neg h0, if_pos hD] at B
      have d0 : decide (na = 0xE0) = false := decide_eq_false h0
      have dD : decide (na = 0xED) = true := decide_eq_true hD
      simp only [d0, dD, if_true, Bool.false_eq_true, if_false]
      have c4 : (0x80 ≤ b && b ≤ 0x9F) = true := by
        simp only [Bool.and_eq_true, decide_eq_true_eq, UInt8.le_iff_toNat_le, hb]; simp; omega
      simp only [c4, if_true, ha, hb, hc]
    · rw [if_neg h0, if_neg hD] at B
      have d0 : decide (na = 0xE0) = false := decide_eq_false h0
      have dD : decide (na = 0xED) = false := decide_eq_false hD
      simp only [d0, dD, Bool.false_eq_true, if_false]
      have c4 : (0x80 ≤ b && b ≤ 0xBF) = true := by
        simp only [Bool.and_eq_true, decide_eq_true_eq, UInt8.le_iff_toNat_le, hb]; simp; omega
      simp only [c4, if_true, ha, hb, hc]

theorem dec4_core (a b c d : UInt8) (r : Bytes) (na nb nc nd : Nat) (ha : a.toNat = na) (hb : b.toNat = nb)
    (hc : c.toNat = nc) (hd : d.toNat = nd) (A : 0xF0 ≤ na ∧ na ≤ 0xF4)
    (B : (if na = 0xF0 then 0x90 else 0x80) ≤ nb ∧ nb ≤ (if na = 0xF4 then 0x8F else 0xBF))
    (C : 0x80 ≤ nc ∧ nc ≤ 0xBF) (D : 0x80 ≤ nd ∧ nd ≤ 0xBF) :
    utf8Chars (a :: b :: c :: d :: r) =
      (utf8Chars r).map (fun cs =>
        Char.ofNat ((na - 0xF0) * 262144 + (nb - 0x80) * 4096 + (nc - 0x80) * 64 + (nd - 0x80)) :: cs) := by
  conv => lhs; unfold utf8Chars
  have c1 : ¬ a < 0x80 := by rw [UInt8.lt_iff_toNat_lt, ha]; simp; omega
  have c2 : (0xC2 ≤ a && a ≤ 0xDF) = false := by
    simp only [Bool.and_eq_false_iff, decide_eq_false_iff_not, UInt8.le_iff_toNat_le, ha]; simp; omega
  have c3 : (0xE0 ≤ a && a ≤ 0xEF) = false := by
    simp only [Bool.and_eq_false_iff, decide_eq_false_iff_not, UInt8.le_iff_toNat_le, ha]; simp; omega
  have c3' : (0xF0 ≤ a && a ≤ 0xF4) = true := by
    simp only [Bool.and_eq_true, decide_eq_true_eq, UInt8.le_iff_toNat_le, ha]; simp; omega
  have c5 : (0x80 ≤ c && c ≤ 0xBF) = true := by
    simp only [Bool.and_eq_true, decide_eq_true_eq, UInt8.le_iff_toNat_le, hc]; simp; omega
  have c6 : (0x80 ≤ d && d ≤ 0xBF) = true := by
    simp only [Bool.and_eq_true, decide_eq_true_eq, UInt8.le_iff_toNat_le, hd]; simp; omega
  have e0 : (a == 0xF0) = decide (na = 0xF0) := by rw [beq_lit, ha]; simp
  have eD : (a == 0xF4) = decide (na = 0xF4) := by rw [beq_lit, ha]; simp
  simp only [c1, if_false, c2, Bool.false_eq_true, c3, c3', if_true, e0, eD, c5, c6, Bool.and_true]
  by_cases h0 : na = 0xF0
  · have hD : ¬ na = 0xF4 := by omega
    rw [if_pos h0, if_neg hD] at B
    have d0 : decide (na = 0xF0) = true := decide_eq_true h0
    have dD : decide (na = 0xF4) = false := decide_eq_false hD
    simp only [d0, dD, if_true, Bool.false_eq_true, if_false]
    have c4 : (0x90 ≤ b && b ≤ 0xBF) = true := by
      simp only [Bool.and_eq_true, decide_eq_true_eq, UInt8.le_iff_toNat_le, hb]; simp; omega
    simp only [c4, if_true, ha, hb, hc, hd]
  · by_cases hD : na = 0xF4
    · rw [if_neg h0, if_pos hD] at B
      have d0 : decide (na = 0xF0) = false := decide_eq_false h0
      have dD : decide (na = 0xF4) = true := decide_eq_true hD
      simp only [d0, dD, if_true, Bool.false_eq_true, if_false]
      have c4 : (0x80 ≤ b && b ≤ 0x8F) = true := by
        simp only [Bool.and_eq_true, decide_eq_true_eq, UInt8.le_iff_toNat_le, hb]; simp; omega
      simp only [c4, if_true, ha, hb, hc, hd]
    · rw [if_neg h0, if_neg hD] at B
      have d0 : decide (na = 0xF0) = false := decide_eq_false h0
      have dD : decide (na = 0xF4) = false := decide_eq_false hD
      simp only [d0, dD, Bool.false_eq_true, if_false]
      have c4 : (0x80 ≤ b && b ≤ 0xBF) = true := by
        simp only [Bool.and_eq_true, decide_eq_true_eq, UInt8.le_iff_toNat_le, hb]; simp; omega
      simp only [c4, if_true, ha, hb, hc, hd]

theorem char_valid (c : Char) : c.toNat < 0xd800 ∨ (0xdfff < c.toNat ∧ c.toNat < 0x110000) := c.valid

theorem dec_char (c : Char) (r : Bytes) :
    utf8Chars (utf8EncodeChar c ++ r) = (utf8Chars r).map (fun cs => c :: cs) := by
  have hv := char_valid c
  unfold utf8EncodeChar
  generalize hn : c.toNat = n at hv
  have hc : Char.ofNat n = c := by rw [← hn]; exact Char.ofNat_toNat c
  simp only
  by_cases h1 : n < 0x80
  · simp only [h1, if_true, List.cons_append, List.nil_append]
    rw [dec1 n h1 r, hc]
  · by_cases h2 : n < 0x800
    · simp only [h1, h2, if_true, if_false, List.cons_append, List.nil_append]
      rw [dec2 n (by omega) h2 r, hc]
    · by_cases h3 : n < 0x10000
      · simp only [h1, h2, h3, if_true, if_false, List.cons_append, List.nil_append]
        rw [dec3_core _ _ _ r _ _ _ (u8 _ (by omega)) (u8 _ (by omega)) (u8 _ (by omega)) (by omega)
          (by split <;> split <;> omega) (by omega)]
        have e : (0xE0 + n / 4096 - 0xE0) * 4096 + (0x80 + n / 64 % 64 - 0x80) * 64 + (0x80 + n % 64 - 0x80) = n := by
          omega
        rw [e, hc]
      · simp only [h1, h2, h3, if_false, List.cons_append, List.nil_append]
        rw [dec4_core _ _ _ _ r _ _ _ _ (u8 _ (by omega)) (u8 _ (by omega)) (u8 _ (by omega)) (u8 _ (by omega))
          (by omega) (by split <;> split <;> omega) (by omega) (by omega)]
        have e : (0xF0 + n / 262144 - 0xF0) * 262144 + (0x80 + n / 4096 % 64 - 0x80) * 4096 +
            (0x80 + n / 64 % 64 - 0x80) * 64 + (0x80 + n % 64 - 0x80) = n := by omega
        rw [e, hc]

theorem utf8Chars_encode : ∀ (cs : List Char), utf8Chars (utf8Encode cs) = some cs
  | [] => rfl
  | c :: cs => by
    rw [utf8Encode, dec_char, utf8Chars_encode cs]
    rfl

/-! ### a name as `NameItem`s -/

def hexDigitByte (v : Nat) : UInt8 := if v < 10 then UInt8.ofNat (48 + v) else UInt8.ofNat (55 + v)

/-- a byte of a name: raw when it is a regular character other than `#`, else `#XX` (upper-case digits) -/
def spellByte (b : UInt8) : NameItem :=
  if nameRaw b then .raw b else .esc (hexDigitByte (b.toNat / 16)) (hexDigitByte (b.toNat % 16))

def spellBytes (bs : Bytes) : List NameItem := bs.map spellByte

/-- The spelling of a glyph name: its UTF-8 bytes, each raw or escaped. -/
def spellName (cs : List Char) : List NameItem := spellBytes (utf8Encode cs)

def spellGood (b : UInt8) : Bool :=
  match spellByte b with
  | .raw c => nameRaw c && c == b
  | .esc h l => isHEX h && isHEX l && UInt8.ofNat (hexCharVal h * 16 + hexCharVal l) == b

theorem spellGood_all : ∀ b : UInt8, spellGood b = true := forall_byte _ (by decide +kernel)

theorem spellByte_ok (b : UInt8) : (spellByte b).ok ∧ (spellByte b).value = b := by
  have h := spellGood_all b
  unfold spellGood at h
  cases hs : spellByte b with
  | raw c =>
    simp only [hs, Bool.and_eq_true, beq_iff_eq] at h
    exact ⟨h.1, h.2⟩
  | esc x y =>
    simp only [hs, Bool.and_eq_true, beq_iff_eq] at h
    exact ⟨⟨h.1.1, h.1.2⟩, h.2⟩

theorem spellBytes_ok (bs : Bytes) : (∀ i ∈ spellBytes bs, i.ok) ∧ nameValue (spellBytes bs) = bs := by
  induction bs with
  | nil => exact ⟨(by intro i hi; cases hi), rfl⟩
  | cons b r ih =>
    obtain ⟨h1, h2⟩ := spellByte_ok b
    refine ⟨?_, ?_⟩
    · intro i hi
      simp only [spellBytes, List.map_cons, List.mem_cons] at hi
      rcases hi with rfl | hi
      · exact h1
      · exact ih.1 i hi
    · simp only [spellBytes, List.map_cons, nameValue, h2]
      exact congrArg _ ih.2

/-- A `dup <key> /<name> put` line given by its glyph NAME. -/
structure NamedPut where
  sign : Bytes
  digits : Bytes
  name : List Char
  g1 : List SepItem
  g2 : List SepItem
  g3 : List SepItem
  g4 : List SepItem

def NamedPut.spelling (p : NamedPut) : PutSpelling :=
  { sign := p.sign, digits := p.digits, name := spellName p.name, g1 := p.g1, g2 := p.g2, g3 := p.g3, g4 := p.g4 }

def NamedPut.ok (p : NamedPut) : Prop :=
  signOK p.sign ∧ digitsOK p.digits ∧ sepOK p.g1 ∧ p.g1 ≠ [] ∧ sepOK p.g2 ∧ sepOK p.g3 ∧ p.g3 ≠ [] ∧
    sepOK p.g4 ∧ p.g4 ≠ []

theorem NamedPut.spelling_ok (p : NamedPut) (h : p.ok) : p.spelling.ok := by
  obtain ⟨a, b, c, d, e, f, g, i, j⟩ := h
  exact ⟨a, b, (spellBytes_ok _).1, c, d, e, f, g, i, j⟩

end PdfVerif.SimpleFont
