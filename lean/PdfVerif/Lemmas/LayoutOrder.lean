/-
Reading-order lemmas for C09 (positional order of the boxes when `boxes_flow` is `None`).
-/
import PdfVerif.Lemmas.LayoutScale3

namespace PdfVerif.Layout
open PdfVerif PdfVerif.Gen.Layout

/-! ## reading order when `boxes_flow` is `None` -/

theorem tupleLe_iff (a b : Int × Rat × Rat) :
    tupleLe a b = true ↔ a.1 < b.1 ∨ (a.1 = b.1 ∧ (a.2.1 < b.2.1 ∨ (a.2.1 = b.2.1 ∧ a.2.2 ≤ b.2.2))) := by
  unfold tupleLe
  split
  · rename_i h
    simp only [decide_eq_true_eq]
    constructor
    · intro h'; exact Or.inl h'
    · rintro (h' | ⟨h', _⟩)
      · exact h'
      · exact absurd h' h
  · rename_i h
    have h1 : a.1 = b.1 := not_not.mp h
    split
    · rename_i h2
      simp only [decide_eq_true_eq]
      constructor
      · intro h'; exact Or.inr ⟨h1, Or.inl h'⟩
      · rintro (h' | ⟨_, h' | ⟨h', _⟩⟩)
        · omega
        · exact h'
        · exact absurd h' h2
    · rename_i h2
      have h2' : a.2.1 = b.2.1 := not_not.mp h2
      simp only [decide_eq_true_eq]
      constructor
      · intro h'; exact Or.inr ⟨h1, Or.inr ⟨h2', h'⟩⟩
      · rintro (h' | ⟨_, h' | ⟨_, h'⟩⟩)
        · omega
        · linarith
        · exact h'

theorem tupleLe_total (a b : Int × Rat × Rat) : (tupleLe a b || tupleLe b a) = true := by
  simp only [Bool.or_eq_true, tupleLe_iff]
  rcases lt_trichotomy a.1 b.1 with h | h | h
  · exact Or.inl (Or.inl h)
  · rcases lt_trichotomy a.2.1 b.2.1 with h2 | h2 | h2
    · exact Or.inl (Or.inr ⟨h, Or.inl h2⟩)
    · rcases le_total a.2.2 b.2.2 with h3 | h3
      · exact Or.inl (Or.inr ⟨h, Or.inr ⟨h2, h3⟩⟩)
      · exact Or.inr (Or.inr ⟨h.symm, Or.inr ⟨h2.symm, h3⟩⟩)
    · exact Or.inr (Or.inr ⟨h.symm, Or.inl h2⟩)
  · exact Or.inr (Or.inl h)

theorem tupleLe_trans (a b c : Int × Rat × Rat) (h1 : tupleLe a b = true) (h2 : tupleLe b c = true) :
    tupleLe a c = true := by
  rw [tupleLe_iff] at *
  rcases h1 with h1 | ⟨e1, h1⟩ <;> rcases h2 with h2 | ⟨e2, h2⟩
  · exact Or.inl (by omega)
  · exact Or.inl (by omega)
  · exact Or.inl (by omega)
  · refine Or.inr ⟨by omega, ?_⟩
    rcases h1 with h1 | ⟨f1, h1⟩ <;> rcases h2 with h2 | ⟨f2, h2⟩
    · exact Or.inl (by linarith)
    · exact Or.inl (by linarith)
    · exact Or.inl (by linarith)
    · exact Or.inr ⟨by linarith, by linarith⟩

/-- With `boxes_flow = None` the text boxes come out sorted by `getkey`: vertical boxes first (right to left,
then top to bottom), then horizontal boxes by descending bottom edge, ties by ascending left edge. -/
theorem finalBoxes_none_sorted {le : Cmp} (p : LAParams) (hbf : p.boxes_flow = none) (B : BB) (boxes : List Box) :
    (finalBoxes le p B boxes).1.Pairwise (fun a b => tupleLe (getkey a) (getkey b) = true) := by
  simp only [finalBoxes, hbf]
  have hs := List.pairwise_mergeSort (le := fun (a b : Box) => tupleLe (getkey a) (getkey b))
    (fun a b c => tupleLe_trans _ _ _) (fun a b => tupleLe_total _ _) (boxes.map Box.analyze)
  -- numbering does not change the keys
  have : ∀ (bs : List Box) (k : Nat), bs.Pairwise (fun a b => tupleLe (getkey a) (getkey b) = true) →
      (enumFrom k bs).Pairwise (fun a b => tupleLe (getkey a) (getkey b) = true) := by
    intro bs
    induction bs with
    | nil => intro k _; exact List.Pairwise.nil
    | cons b r ih =>
      intro k h
      simp only [List.pairwise_cons] at h
      simp only [enumFrom, List.pairwise_cons]
      refine ⟨?_, ih (k + 1) h.2⟩
      intro c hc
      have hstrip : ∀ (l : List Box) (j : Nat), ∀ c ∈ enumFrom j l, ∃ c0 ∈ l, getkey c = getkey c0 := by
        intro l
        induction l with
        | nil => intro j c hc; simp [enumFrom] at hc
        | cons x xs ihx =>
          intro j c hc
          simp only [enumFrom, List.mem_cons] at hc
          rcases hc with rfl | hc
          · exact ⟨x, List.mem_cons_self, rfl⟩
          · obtain ⟨c0, hc0, he⟩ := ihx (j + 1) c hc
            exact ⟨c0, List.mem_cons_of_mem _ hc0, he⟩
      obtain ⟨c0, hc0, he⟩ := hstrip r (k + 1) c hc
      have := h.1 c0 hc0
      rw [he]
      exact this
  exact this _ 0 hs


end PdfVerif.Layout
