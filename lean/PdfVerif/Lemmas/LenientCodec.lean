/-
Helper lemmas for C13 (round 6): the stream decoders of `Model/Filters.lean` (the model C03 ties to
ascii85.py / runlength.py) on ARBITRARY, i.e. damaged, input — output length bounded by a linear
function of the input length, and the only errors they raise.
-/
import PdfVerif.Model.Filters
import PdfVerif.Lemmas.FiltersLit

namespace PdfVerif.Filters
open PdfVerif

/-! ### RunLengthDecode -/

theorem rldecodeAux_len : ∀ (fuel : Nat) (data out : Bytes),
    rldecodeAux fuel data = .ok out → out.length ≤ 128 * data.length := by
  intro fuel
  induction fuel with
  | zero => intro data out h; simp [rldecodeAux] at h; subst h; simp
  | succ f ih =>
    intro data out h
    cases data with
    | nil => simp [rldecodeAux] at h; subst h; simp
    | cons l rest =>
      rw [rldecodeAux_cons_lit] at h
      split at h
      · cases h; simp
      · split at h
        · split at h
          · cases h
          · rename_i hlt hn
            cases hr : rldecodeAux f (rest.drop (l.toNat + 1)) with
            | error e => rw [hr] at h; cases h
            | ok r =>
              rw [hr] at h
              cases h
              have := ih _ _ hr
              simp only [List.length_append, List.length_take, List.length_drop, List.length_cons] at this ⊢
              omega
        · cases rest with
          | nil => cases h
          | cons b rest' =>
            simp only at h
            cases hr : rldecodeAux f rest' with
            | error e => rw [hr] at h; cases h
            | ok r =>
              rw [hr] at h
              cases h
              have := ih _ _ hr
              simp only [List.length_append, List.length_replicate, List.length_cons]
              omega

theorem rldecodeAux_err : ∀ (fuel : Nat) (data : Bytes) (e : Err),
    rldecodeAux fuel data = .error e → e = .runtimeError ∨ e = .stopIteration := by
  intro fuel
  induction fuel with
  | zero => intro data e h; simp [rldecodeAux] at h
  | succ f ih =>
    intro data e h
    cases data with
    | nil => simp [rldecodeAux] at h
    | cons l rest =>
      rw [rldecodeAux_cons_lit] at h
      split at h
      · cases h
      · split at h
        · split at h
          · cases h; exact Or.inl rfl
          · cases hr : rldecodeAux f (rest.drop (l.toNat + 1)) with
            | error e' => rw [hr] at h; cases h; exact ih _ _ hr
            | ok r => rw [hr] at h; cases h
        · cases rest with
          | nil => cases h; exact Or.inr rfl
          | cons b rest' =>
            simp only at h
            cases hr : rldecodeAux f rest' with
            | error e' => rw [hr] at h; cases h; exact ih _ _ hr
            | ok r => rw [hr] at h; cases h

/-! ### ASCIIHexDecode -/

theorem unhexlify_len : ∀ (n : Nat) (t out : Bytes), t.length ≤ n → unhexlify t = .ok out → 2 * out.length = t.length := by
  intro n
  induction n with
  | zero =>
    intro t out hn h
    cases t with
    | nil => simp [unhexlify] at h; subst h; rfl
    | cons a r => simp at hn
  | succ n ih =>
    intro t out hn h
    match t, h with
    | [], h => simp [unhexlify] at h; subst h; rfl
    | [_], h => simp [unhexlify] at h
    | a :: b :: r, h =>
      simp only [unhexlify] at h
      split at h
      · cases hr : unhexlify r with
        | error e => rw [hr] at h; cases h
        | ok t' =>
          rw [hr] at h
          cases h
          have := ih r t' (by simp at hn; omega) hr
          simp only [List.length_cons]
          omega
      · cases h

theorem unhexlify_err : ∀ (n : Nat) (t : Bytes) (e : Err), t.length ≤ n → unhexlify t = .error e → e = .binascii := by
  intro n
  induction n with
  | zero =>
    intro t e hn h
    cases t with
    | nil => simp [unhexlify] at h
    | cons a r => simp at hn
  | succ n ih =>
    intro t e hn h
    match t, h with
    | [], h => simp [unhexlify] at h
    | [_], h => simp [unhexlify] at h; exact h.symm
    | a :: b :: r, h =>
      simp only [unhexlify] at h
      split at h
      · cases hr : unhexlify r with
        | error e' => rw [hr] at h; cases h; exact ih r _ (by simp at hn; omega) hr
        | ok t' => rw [hr] at h; cases h
      · cases h; rfl

theorem takeWhile_length_le {α : Type} (p : α → Bool) : ∀ (l : List α), (l.takeWhile p).length ≤ l.length
  | [] => by simp
  | a :: l => by
    simp only [List.takeWhile]
    split
    · simp only [List.length_cons]; have := takeWhile_length_le p l; omega
    · simp

theorem dropWhile_length_le {α : Type} (p : α → Bool) : ∀ (l : List α), (l.dropWhile p).length ≤ l.length
  | [] => by simp
  | a :: l => by
    simp only [List.dropWhile]
    split
    · simp only [List.length_cons]; have := dropWhile_length_le p l; omega
    · simp

theorem asciihexdecode_len (data out : Bytes) (h : asciihexdecode data = .ok out) :
    2 * out.length ≤ data.length + 1 := by
  rw [asciihexdecode_lit] at h
  have hf : (data.filter (fun b => !isWs b)).length ≤ data.length := List.length_filter_le _ _
  have ht := takeWhile_length_le (fun b => b != 62) (data.filter (fun b => !isWs b))
  simp only at h
  split at h
  · split at h
    · have := unhexlify_len _ _ _ (Nat.le_refl _) h
      simp only [List.length_append, List.length_cons, List.length_nil] at this
      omega
    · have := unhexlify_len _ _ _ (Nat.le_refl _) h
      omega
  · have := unhexlify_len _ _ _ (Nat.le_refl _) h
    omega

theorem asciihexdecode_err (data : Bytes) (e : Err) (h : asciihexdecode data = .error e) : e = .binascii := by
  rw [asciihexdecode_lit] at h
  simp only at h
  split at h
  · split at h <;> exact unhexlify_err _ _ _ (Nat.le_refl _) h
  · exact unhexlify_err _ _ _ (Nat.le_refl _) h

/-! ### ASCII85Decode -/

theorem a85loop_len : ∀ (b : Bytes) (curr : List Nat) (out : Bytes) (c : List Nat),
    a85loop curr b = .ok (out, c) → out.length ≤ 4 * b.length := by
  intro b
  induction b with
  | nil => intro curr out c h; simp [a85loop] at h; obtain ⟨h1, _⟩ := h; subst h1; exact Nat.zero_le _
  | cons x rest ih =>
    intro curr out c h
    simp only [a85loop] at h
    split at h
    · split at h
      · split at h
        · cases h
        · cases hr : a85loop [] rest with
          | error e => rw [hr] at h; cases h
          | ok p =>
            rw [hr] at h
            obtain ⟨o, c'⟩ := p
            simp only [Except.ok.injEq, Prod.mk.injEq] at h
            have := ih _ _ _ hr
            rw [← h.1]
            simp only [List.length_append, be32, List.length_cons, List.length_nil]
            omega
      · have := ih _ _ _ h
        simp only [List.length_cons]; omega
    · split at h
      · split at h
        · cases h
        · cases hr : a85loop [] rest with
          | error e => rw [hr] at h; cases h
          | ok p =>
            rw [hr] at h
            obtain ⟨o, c'⟩ := p
            simp only [Except.ok.injEq, Prod.mk.injEq] at h
            have := ih _ _ _ hr
            rw [← h.1]
            simp only [List.length_append, List.length_cons, List.length_nil]
            omega
      · split at h
        · have := ih _ _ _ h
          simp only [List.length_cons]; omega
        · cases h

theorem a85loop_err : ∀ (b : Bytes) (curr : List Nat) (e : Err), a85loop curr b = .error e → e = .valueError := by
  intro b
  induction b with
  | nil => intro curr e h; simp [a85loop] at h
  | cons x rest ih =>
    intro curr e h
    simp only [a85loop] at h
    split at h
    · split at h
      · split at h
        · cases h; rfl
        · cases hr : a85loop [] rest with
          | error e' => rw [hr] at h; cases h; exact ih _ _ hr
          | ok p => rw [hr] at h; cases h
      · exact ih _ _ h
    · split at h
      · split at h
        · cases h; rfl
        · cases hr : a85loop [] rest with
          | error e' => rw [hr] at h; cases h; exact ih _ _ hr
          | ok p => rw [hr] at h; cases h
      · split at h
        · exact ih _ _ h
        · cases h; rfl

theorem a85decode_len (b out : Bytes) (h : a85decode b = .ok out) : out.length ≤ 4 * b.length + 16 := by
  rw [a85decode_lit] at h
  cases hr : a85loop [] (b ++ [117, 117, 117, 117]) with
  | error e => rw [hr] at h; cases h
  | ok p =>
    rw [hr] at h
    obtain ⟨res, curr⟩ := p
    simp only [Except.ok.injEq] at h
    have := a85loop_len _ _ _ _ hr
    simp only [List.length_append, List.length_cons, List.length_nil] at this
    rw [← h]
    split
    · simp only [List.length_take]; omega
    · omega

theorem a85decode_err (b : Bytes) (e : Err) (h : a85decode b = .error e) : e = .valueError := by
  rw [a85decode_lit] at h
  cases hr : a85loop [] (b ++ [117, 117, 117, 117]) with
  | error e' => rw [hr] at h; cases h; exact a85loop_err _ _ _ hr
  | ok p => rw [hr] at h; cases h

theorem dropLt_length_le (l : Bytes) : (dropLt l).length ≤ l.length := by
  unfold dropLt
  split
  · simp
  · exact Nat.le_refl _

theorem stripStart_length_le (d : Bytes) : (stripStart d).length ≤ d.length := by
  unfold stripStart
  split
  · rename_i t ht
    have h1 := dropWhile_length_le isWs t
    have h2 := dropWhile_length_le isWs (dropLt (d.dropWhile isWs))
    have h3 := dropLt_length_le (d.dropWhile isWs)
    have h4 := dropWhile_length_le isWs d
    rw [ht] at h2
    simp only [List.length_cons] at h2
    omega
  · exact Nat.le_refl _

theorem stripEnd_length_le (d : Bytes) : (stripEnd d).length ≤ d.length := by
  unfold stripEnd
  have h0 := dropWhile_length_le isWs d.reverse
  split
  · rename_i t ht
    have h1 := dropWhile_length_le isWs t
    rw [ht] at h0
    simp only [List.length_cons, List.length_reverse] at h0 ⊢
    omega
  · rename_i t ht
    rw [ht] at h0
    split
    · rename_i t2 ht2
      have h1 := dropWhile_length_le isWs t
      have h2 := dropWhile_length_le isWs t2
      rw [ht2] at h1
      simp only [List.length_cons, List.length_reverse] at h0 h1 ⊢
      omega
    · exact Nat.le_refl _
  · exact Nat.le_refl _

theorem ascii85decode_len (data out : Bytes) (h : ascii85decode data = .ok out) :
    out.length ≤ 4 * data.length + 16 := by
  unfold ascii85decode at h
  have := a85decode_len _ _ h
  have h1 := stripEnd_length_le (stripStart data)
  have h2 := stripStart_length_le data
  omega

/-! ### LZWDecode -/

theorem lzwRunB_err : ∀ (fuel : Nat) (st : LzwSt) (rest : Bytes) (buff bpos : Nat) (e : Err),
    lzwRunB fuel st rest buff bpos = .error e → e = .indexError := by
  intro fuel
  induction fuel with
  | zero => intro st rest buff bpos e h; simp [lzwRunB] at h
  | succ f ih =>
    intro st rest buff bpos e h
    simp only [lzwRunB] at h
    split at h
    · cases h
    · split at h
      · cases h
      · cases h; rfl
      · rename_i st' x hf
        split at h
        · cases h
        · rename_i e' hr
          cases h
          exact ih _ _ _ _ _ hr

/-- Every table entry and the previous output are at most `m` bytes long. -/
def LzwBound (st : LzwSt) (m : Nat) : Prop :=
  (∀ e ∈ st.ext, e.length ≤ m) ∧ (∀ p, st.prev = some p → p.length ≤ m) ∧ 1 ≤ m

theorem tableGet_len {st : LzwSt} {m : Nat} (hI : LzwBound st m) (code : Nat) (x : Bytes)
    (h : tableGet st code = some x) : x.length ≤ m := by
  rw [tableGet_lit] at h
  split at h
  · cases h
  · split at h
    · cases h; simpa using hI.2.2
    · split at h
      · cases h
      · exact hI.1 x (List.mem_of_getElem? h)

theorem feedGrow_inv {st st' : LzwSt} {m : Nat} (hI : LzwBound st m) (entry x out : Bytes)
    (he : entry.length ≤ m + 1) (hx : x.length ≤ m + 1) (h : feedGrow st entry x = .ok st' out) :
    LzwBound st' (m + 1) ∧ out.length ≤ m + 1 := by
  rw [feedGrow_lit] at h
  cases h
  refine ⟨⟨?_, ?_, by omega⟩, hx⟩
  · intro e hm
    rcases List.mem_append.mp hm with h1 | h1
    · have := hI.1 e h1; omega
    · simp at h1; subst h1; exact he
  · intro p hp; cases hp; exact hx

theorem feed_inv {st st' : LzwSt} {m : Nat} (hI : LzwBound st m) (code : Nat) (x : Bytes)
    (h : feed st code = .ok st' x) : LzwBound st' (m + 1) ∧ x.length ≤ m + 1 := by
  have hmono : LzwBound st (m + 1) :=
    ⟨fun e he => Nat.le_succ_of_le (hI.1 e he), fun p hp => Nat.le_succ_of_le (hI.2.1 p hp), Nat.le_succ_of_le hI.2.2⟩
  have hsimple : ∀ y, tableGet st code = some y →
      LzwBound { st with prev := some y } (m + 1) ∧ y.length ≤ m + 1 := by
    intro y hy
    have := tableGet_len hI _ _ hy
    refine ⟨⟨hmono.1, ?_, hmono.2.2⟩, by omega⟩
    intro p hp
    cases hp
    omega
  rw [feed_lit] at h
  split at h
  · cases h
    refine ⟨⟨?_, ?_, by omega⟩, by simp⟩
    · intro e he; cases he
    · intro p hp; cases hp; simp
  · split at h
    · cases h
      exact ⟨hmono, by simp⟩
    · split at h
      · split at h
        · rename_i y hy
          cases h
          exact hsimple _ hy
        · cases h
      · split at h
        · rename_i y hy
          cases h
          exact hsimple _ hy
        · cases h
      · rename_i p _ hp
        have hpl := hI.2.1 p hp
        split at h
        · split at h
          · rename_i y hy
            have := tableGet_len hI _ _ hy
            have h1 : (y.take 1).length ≤ 1 := by simp only [List.length_take]; omega
            refine feedGrow_inv hI _ _ _ ?_ (by omega) h
            simp only [List.length_append]; omega
          · cases h
        · split at h
          · have h1 : (p.take 1).length ≤ 1 := by simp only [List.length_take]; omega
            refine feedGrow_inv hI _ _ _ ?_ ?_ h <;> simp only [List.length_append] <;> omega
          · cases h

theorem lzwRunB_len : ∀ (fuel : Nat) (st : LzwSt) (rest : Bytes) (buff bpos m : Nat) (out : Bytes),
    LzwBound st m → lzwRunB fuel st rest buff bpos = .ok out → out.length ≤ fuel * (m + fuel) := by
  intro fuel
  induction fuel with
  | zero => intro st rest buff bpos m out _ h; simp [lzwRunB] at h; subst h; simp
  | succ f ih =>
    intro st rest buff bpos m out hI h
    simp only [lzwRunB] at h
    split at h
    · cases h; simp
    · split at h
      · cases h; simp
      · cases h
      · rename_i st' x hf
        have hi := feed_inv hI _ _ hf
        split at h
        · rename_i r hr
          cases h
          have := ih _ _ _ _ _ _ hi.1 hr
          have hx := hi.2
          simp only [List.length_append]
          have e : (f + 1) * (m + (f + 1)) = f * (m + 1 + f) + (m + 1 + f) := by
            rw [Nat.succ_mul]
            have : m + (f + 1) = m + 1 + f := by omega
            rw [this]
          omega
        · cases h

theorem lzwInit_bound : LzwBound lzwInit 1 :=
  ⟨(by intro e he; cases he), (by intro p hp; cases hp), Nat.le_refl 1⟩

/-! ### predictors on arbitrary parameters -/

theorem pngRowLoop_len (ft bpp : Nat) (above : Bytes) : ∀ (enc raw out : Bytes),
    pngRowLoop ft bpp above raw enc = .ok out → out.length = raw.length + enc.length := by
  intro enc
  induction enc with
  | nil => intro raw out h; simp [pngRowLoop] at h; subst h; simp
  | cons x xs ih =>
    intro raw out h
    simp only [pngRowLoop] at h
    split at h
    · have := ih _ _ h; simp only [List.length_append, List.length_cons, List.length_nil] at this ⊢; omega
    · split at h
      · split at h
        · cases h
        · have := ih _ _ h; simp only [List.length_append, List.length_cons, List.length_nil] at this ⊢; omega
      · split at h
        · have := ih _ _ h; simp only [List.length_append, List.length_cons, List.length_nil] at this ⊢; omega
        · cases h

theorem pngRow_len (ft : UInt8) (bpp : Nat) (above enc out : Bytes) (h : pngRow ft bpp above enc = .ok out) :
    out.length ≤ enc.length := by
  unfold pngRow at h
  split at h
  · cases h; exact Nat.le_refl _
  · split at h
    · cases h; simp only [List.length_zipWith]; omega
    · split at h
      · have := pngRowLoop_len _ _ _ _ _ _ h; simp at this; omega
      · cases h

theorem pngRows_len (nbytes bpp : Nat) : ∀ (fuel : Nat) (above data out : Bytes),
    pngRows nbytes bpp fuel above data = .ok out → out.length ≤ data.length := by
  intro fuel
  induction fuel with
  | zero => intro above data out h; simp [pngRows] at h; subst h; simp
  | succ f ih =>
    intro above data out h
    cases data with
    | nil => simp [pngRows] at h; subst h; simp
    | cons ft rest =>
      simp only [pngRows] at h
      split at h
      · cases h
      · rename_i raw hraw
        split at h
        · rename_i r hr
          cases h
          have h1 := pngRow_len _ _ _ _ _ hraw
          have h2 := ih _ _ _ hr
          simp only [List.length_append, List.length_take, List.length_drop, List.length_cons] at h1 h2 ⊢
          omega
        · cases h

theorem apply_png_predictor_len (colors columns bpc : Nat) (data out : Bytes)
    (h : apply_png_predictor colors columns bpc data = .ok out) : out.length ≤ data.length := by
  rw [apply_png_predictor_lit] at h
  split at h
  · cases h
  · exact pngRows_len _ _ _ _ _ _ h

theorem tiffRow_len (bpp : Nat) : ∀ (xs raw : Bytes), (tiffRow bpp raw xs).length = raw.length + xs.length := by
  intro xs
  induction xs with
  | nil => intro raw; simp [tiffRow]
  | cons x xs ih =>
    intro raw
    simp only [tiffRow]
    rw [ih]
    simp only [List.length_append, List.length_cons, List.length_nil]
    omega

theorem tiffRows_len (nbytes bpp : Nat) : ∀ (fuel : Nat) (data out : Bytes),
    tiffRows nbytes bpp fuel data = .ok out → out.length ≤ data.length := by
  intro fuel
  induction fuel with
  | zero => intro data out h; simp [tiffRows] at h; subst h; simp
  | succ f ih =>
    intro data out h
    cases data with
    | nil => simp [tiffRows] at h; subst h; simp
    | cons d ds =>
      simp only [tiffRows] at h
      split at h
      · cases h
      · split at h
        · rename_i r hr
          cases h
          have h2 := ih _ _ hr
          simp only [List.length_append, tiffRow_len, List.length_take, List.length_drop, List.length_nil] at h2 ⊢
          omega
        · cases h

theorem apply_tiff_predictor_len (colors columns bpc : Nat) (data out : Bytes)
    (h : apply_tiff_predictor colors columns bpc data = .ok out) : out.length ≤ data.length := by
  rw [apply_tiff_predictor_lit] at h
  split at h
  · cases h
  · split at h
    · cases h
    · exact tiffRows_len _ _ _ _ _ h

end PdfVerif.Filters
