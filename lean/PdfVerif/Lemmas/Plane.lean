/-
Helper lemmas for C20 (spatial index).  Property theorems are in `Props/C20.lean`.
-/
import PdfVerif.Model.Plane

namespace PdfVerif.Plane
open PdfVerif PdfVerif.Gen.Utils

/-! ### `pyRange`, `drange` -/

theorem mem_pyRange {lo hi k : Int} : k ∈ pyRange lo hi ↔ lo ≤ k ∧ k < hi := by
  unfold pyRange
  simp only [List.mem_map, List.mem_range]
  constructor
  · rintro ⟨i, hi', rfl⟩; omega
  · intro h
    exact ⟨(k - lo).toNat, by omega, by omega⟩

/-- The grid cell of a coordinate: `floor(v) // d`. -/
def cellOf (v : Rat) (d : Int) : Int := pyDiv (pyFloor v) d

theorem cellOf_mono {v w : Rat} {d : Int} (hd : 0 < d) (h : v ≤ w) : cellOf v d ≤ cellOf w d := by
  unfold cellOf pyDiv pyFloor
  rw [Int.fdiv_eq_ediv_of_nonneg _ (Int.le_of_lt hd), Int.fdiv_eq_ediv_of_nonneg _ (Int.le_of_lt hd)]
  exact Int.ediv_le_ediv hd (Rat.floor_monotone h)

/-- `drange` (regenerated from utils.py) enumerates exactly the cells of `[v0, v1]`. -/
theorem mem_drange {v0 v1 : Rat} {d k : Int} (hd : 0 < d) :
    k ∈ drange v0 v1 d ↔ cellOf v0 d ≤ k ∧ k ≤ cellOf v1 d := by
  unfold drange
  rw [mem_pyRange]
  unfold cellOf pyDiv pyFloor
  have h1 : (v1 + ((d : Int) : Rat)).floor = v1.floor + d := Rat.floor_add_intCast
  rw [h1]
  rw [Int.fdiv_eq_ediv_of_nonneg _ (Int.le_of_lt hd), Int.fdiv_eq_ediv_of_nonneg _ (Int.le_of_lt hd),
      Int.fdiv_eq_ediv_of_nonneg _ (Int.le_of_lt hd)]
  have h2 : (v1.floor + d) / d = v1.floor / d + 1 := by
    have := Int.add_mul_ediv_right v1.floor 1 (Int.ne_of_gt hd)
    simpa using this
  rw [h2]
  omega

/-! ### clamping to the plane bounds -/

def clampLo (lo hi v : Rat) : Rat := min (max lo v) hi
def clampHi (lo hi v : Rat) : Rat := max (min hi v) lo

theorem clampHi_eq_clampLo {lo hi : Rat} (h : lo ≤ hi) (v : Rat) : clampHi lo hi v = clampLo lo hi v := by
  unfold clampHi clampLo
  simp only [Rat.max_def, Rat.min_def]
  repeat' split
  all_goals grind

theorem clampLo_mono {lo hi v w : Rat} (h : v ≤ w) : clampLo lo hi v ≤ clampLo lo hi w := by
  unfold clampLo
  simp only [Rat.max_def, Rat.min_def]
  repeat' split
  all_goals grind

theorem mem_getrange {p : Plane} {b : Rect} {k : Key} (hd : 0 < p.gridsize) :
    k ∈ getrange p b ↔
      (cellOf (clampLo p.x0 p.x1 b.1) p.gridsize ≤ k.1 ∧ k.1 ≤ cellOf (clampHi p.x0 p.x1 b.2.2.1) p.gridsize) ∧
      (cellOf (clampLo p.y0 p.y1 b.2.1) p.gridsize ≤ k.2 ∧ k.2 ≤ cellOf (clampHi p.y0 p.y1 b.2.2.2) p.gridsize) := by
  obtain ⟨x0, y0, x1, y1⟩ := b
  obtain ⟨gx, gy⟩ := k
  unfold getrange
  simp only [plane_clamp, List.mem_flatMap, List.mem_map, Prod.mk.injEq, mem_drange hd, clampLo, clampHi]
  constructor
  · rintro ⟨gy', hy, gx', hx, rfl, rfl⟩; exact ⟨hx, hy⟩
  · rintro ⟨hx, hy⟩; exact ⟨gy, hy, gx, hx, rfl, rfl⟩

/-- The hand-written overlap test IS the negation of the regenerated skip condition of `Plane.find`. -/
theorem overlaps_eq_not_skip (o : PObj) (q : Rect) : overlaps o q = !(plane_find_skip o.x0 o.y0 o.x1 o.y1 q) := by
  obtain ⟨x0, y0, x1, y1⟩ := q
  rfl

/-- Well-formed box. -/
def WfRect (b : Rect) : Prop := b.1 ≤ b.2.2.1 ∧ b.2.1 ≤ b.2.2.2

/-- Key lemma: two well-formed boxes that properly overlap are filed under a common cell. -/
theorem overlap_share_cell {p : Plane} (hd : 0 < p.gridsize) (hx : p.x0 ≤ p.x1) (hy : p.y0 ≤ p.y1)
    {o : PObj} {q : Rect} (ho : WfRect (bboxOf o)) (hq : WfRect q) (hov : overlaps o q = true) :
    ∃ k, k ∈ getrange p (bboxOf o) ∧ k ∈ getrange p q := by
  obtain ⟨qx0, qy0, qx1, qy1⟩ := q
  unfold WfRect bboxOf at ho
  unfold WfRect at hq
  simp only at ho hq
  unfold overlaps at hov
  simp only [Bool.not_eq_true', Bool.or_eq_false_iff, decide_eq_false_iff_not, Rat.not_le] at hov
  obtain ⟨⟨⟨h1, h2⟩, h3⟩, h4⟩ := hov
  -- a point shared by both boxes
  let px := max o.x0 qx0
  let py := max o.y0 qy0
  have hpx : o.x0 ≤ px ∧ qx0 ≤ px ∧ px ≤ o.x1 ∧ px ≤ qx1 := by
    simp only [px, Rat.max_def]; split <;> grind
  have hpy : o.y0 ≤ py ∧ qy0 ≤ py ∧ py ≤ o.y1 ∧ py ≤ qy1 := by
    simp only [py, Rat.max_def]; split <;> grind
  refine ⟨(cellOf (clampLo p.x0 p.x1 px) p.gridsize, cellOf (clampLo p.y0 p.y1 py) p.gridsize), ?_, ?_⟩
  · rw [mem_getrange hd]
    simp only [bboxOf, clampHi_eq_clampLo hx, clampHi_eq_clampLo hy]
    exact ⟨⟨cellOf_mono hd (clampLo_mono hpx.1), cellOf_mono hd (clampLo_mono hpx.2.2.1)⟩,
           ⟨cellOf_mono hd (clampLo_mono hpy.1), cellOf_mono hd (clampLo_mono hpy.2.2.1)⟩⟩
  · rw [mem_getrange hd]
    simp only [clampHi_eq_clampLo hx, clampHi_eq_clampLo hy]
    exact ⟨⟨cellOf_mono hd (clampLo_mono hpx.2.1), cellOf_mono hd (clampLo_mono hpx.2.2.2)⟩,
           ⟨cellOf_mono hd (clampLo_mono hpy.2.1), cellOf_mono hd (clampLo_mono hpy.2.2.2)⟩⟩

/-! ### the grid as a list of pairs -/

theorem mem_cell {g : List (Key × PObj)} {k : Key} {o : PObj} : o ∈ cell g k ↔ (k, o) ∈ g := by
  unfold cell
  simp only [List.mem_map, List.mem_filter, decide_eq_true_eq]
  constructor
  · rintro ⟨⟨k', o'⟩, ⟨hm, rfl⟩, rfl⟩; exact hm
  · intro h; exact ⟨(k, o), ⟨h, rfl⟩, rfl⟩

theorem foldl_append_pairs (ks : List Key) (o : PObj) (g : List (Key × PObj)) :
    ks.foldl (fun g k => g ++ [(k, o)]) g = g ++ ks.map (fun k => (k, o)) := by
  induction ks generalizing g with
  | nil => simp
  | cons k ks ih => simp [List.foldl_cons, ih, List.append_assoc]

theorem count_foldl_erase (ks : List Key) (o : PObj) (g : List (Key × PObj)) (x : Key × PObj) :
    List.count x (ks.foldl (fun g k => g.erase (k, o)) g) =
      List.count x g - List.count x (ks.map (fun k => (k, o))) := by
  induction ks generalizing g with
  | nil => simp
  | cons k ks ih =>
    simp only [List.foldl_cons, List.map_cons, ih, List.count_cons, List.count_erase]
    by_cases h : (k, o) == x <;> simp [h] <;> omega

theorem count_map_pair (ks : List Key) (o : PObj) (k : Key) (o' : PObj) :
    List.count (k, o') (ks.map (fun k => (k, o))) = if o' = o then List.count k ks else 0 := by
  induction ks with
  | nil => simp
  | cons k' ks ih =>
    simp only [List.map_cons, List.count_cons, ih]
    by_cases h : o' = o
    · subst h; by_cases hk : k' = k <;> simp [hk]
    · have : ((k', o) == (k, o')) = false := by
        simp only [beq_eq_false_iff_ne, ne_eq, Prod.mk.injEq, not_and]
        intro _ h2; exact h h2.symm
      simp [h, this]

/-! ### `dedup` -/

theorem mem_dedup {l : List PObj} {o : PObj} : o ∈ dedup l ↔ o ∈ l := by
  induction l with
  | nil => simp [dedup]
  | cons a l ih =>
    simp only [dedup, List.mem_cons, List.mem_filter, decide_eq_true_eq, ih]
    constructor
    · rintro (h | ⟨h, _⟩); exact Or.inl h; exact Or.inr h
    · intro h
      by_cases hoa : o = a
      · exact Or.inl hoa
      · rcases h with h | h
        · exact Or.inl h
        · exact Or.inr ⟨h, hoa⟩

theorem nodup_dedup (l : List PObj) : (dedup l).Nodup := by
  induction l with
  | nil => simp [dedup]
  | cons a l ih =>
    simp only [dedup, List.nodup_cons, List.mem_filter, decide_eq_true_eq]
    refine ⟨fun h => h.2 rfl, ?_⟩
    exact List.Pairwise.filter _ ih

/-- Objects of a list with pairwise distinct ids are determined by their id. -/
theorem eq_of_id_eq {l : List PObj} (h : l.Pairwise (fun a b => a.id ≠ b.id)) {a b : PObj}
    (ha : a ∈ l) (hb : b ∈ l) (hid : a.id = b.id) : a = b := by
  induction l with
  | nil => simp at ha
  | cons c l ih =>
    rw [List.pairwise_cons] at h
    simp only [List.mem_cons] at ha hb
    rcases ha with rfl | ha <;> rcases hb with rfl | hb
    · rfl
    · exact absurd hid (h.1 b hb)
    · exact absurd hid.symm (h.1 a ha)
    · exact ih h.2 ha hb

/-! ### `find` reports in insertion order -/

theorem insertByKey_perm (key : PObj → Nat) (x : PObj) : ∀ l, (insertByKey key x l).Perm (x :: l)
  | [] => List.Perm.refl _
  | y :: ys => by
    simp only [insertByKey]
    split
    · exact List.Perm.refl _
    · exact (List.Perm.cons y (insertByKey_perm key x ys)).trans (List.Perm.swap _ _ _)

theorem sortByKey_perm (key : PObj → Nat) : ∀ l, (sortByKey key l).Perm l
  | [] => List.Perm.refl _
  | x :: xs => (insertByKey_perm key x _).trans (List.Perm.cons x (sortByKey_perm key xs))

theorem insertByKey_sorted (key : PObj → Nat) (x : PObj) : ∀ l, l.Pairwise (fun a b => key a ≤ key b) →
    (insertByKey key x l).Pairwise (fun a b => key a ≤ key b)
  | [], _ => by simp [insertByKey]
  | y :: ys, h => by
    simp only [insertByKey]
    simp only [List.pairwise_cons] at h
    split
    · rename_i hxy
      refine List.pairwise_cons.mpr ⟨?_, List.pairwise_cons.mpr h⟩
      intro b hb
      simp only [List.mem_cons] at hb
      rcases hb with rfl | hb
      · exact hxy
      · exact Nat.le_trans hxy (h.1 b hb)
    · rename_i hxy
      refine List.pairwise_cons.mpr ⟨?_, insertByKey_sorted key x ys h.2⟩
      intro b hb
      have := (insertByKey_perm key x ys).subset hb
      simp only [List.mem_cons] at this
      rcases this with rfl | hb'
      · omega
      · exact h.1 b hb'

theorem sortByKey_sorted (key : PObj → Nat) : ∀ l, (sortByKey key l).Pairwise (fun a b => key a ≤ key b)
  | [] => List.Pairwise.nil
  | x :: xs => insertByKey_sorted key x _ (sortByKey_sorted key xs)

theorem mem_find {p : Plane} {q : Rect} {o : PObj} : o ∈ find p q ↔ o ∈ findScan p q :=
  (sortByKey_perm _ _).mem_iff

theorem nodup_find_of_scan {p : Plane} {q : Rect} (h : (findScan p q).Nodup) : (find p q).Nodup :=
  (sortByKey_perm _ _).nodup_iff.mpr h

/-- The rank of an element of a duplicate-free list is its position (from `i`) plus one. -/
theorem rankIn_of_nodup : ∀ (l : List PObj) (o : PObj) (i acc : Nat), l.Nodup → o ∈ l →
    rankIn l o i acc = i + l.idxOf o + 1
  | [], _, _, _, _, h => by simp at h
  | x :: rest, o, i, acc, hn, hm => by
    simp only [List.nodup_cons] at hn
    simp only [rankIn]
    by_cases hx : x = o
    · subst hx
      have : ∀ (l : List PObj) (j a : Nat), x ∉ l → rankIn l x j a = a := by
        intro l
        induction l with
        | nil => intro j a _; rfl
        | cons y ys ih =>
          intro j a hnot
          simp only [List.mem_cons, not_or] at hnot
          simp only [rankIn, if_neg (Ne.symm hnot.1)]
          exact ih _ _ hnot.2
      simp [this rest (i + 1) (i + 1) hn.1]
    · simp only [List.mem_cons] at hm
      have hm' : o ∈ rest := by
        rcases hm with rfl | hm
        · exact absurd rfl hx
        · exact hm
      rw [if_neg hx, rankIn_of_nodup rest o (i + 1) acc hn.2 hm']
      have : (x :: rest).idxOf o = rest.idxOf o + 1 := by
        have hb : (x == o) = false := by simp [hx]
        simp [List.idxOf_cons, hb]
      omega

theorem rank_of_nodup {p : Plane} (hn : p.seq.Nodup) {o : PObj} (ho : o ∈ p.seq) :
    rank p o = p.seq.idxOf o + 1 := by
  simp [rank, rankIn_of_nodup p.seq o 0 0 hn ho]


theorem seq_rank_sorted {p : Plane} (hn : p.seq.Nodup) : p.seq.Pairwise (fun a b => rank p a ≤ rank p b) := by
  rw [List.pairwise_iff_getElem]
  intro i j hi hj hij
  rw [rank_of_nodup hn (List.getElem_mem hi), rank_of_nodup hn (List.getElem_mem hj),
    hn.idxOf_getElem i hi, hn.idxOf_getElem j hj]
  omega

theorem rank_inj {p : Plane} (hn : p.seq.Nodup) {a b : PObj} (ha : a ∈ p.seq) (hb : b ∈ p.seq)
    (h : rank p a = rank p b) : a = b := by
  rw [rank_of_nodup hn ha, rank_of_nodup hn hb] at h
  have h' : p.seq.idxOf a = p.seq.idxOf b := by omega
  have ha' := List.getElem_idxOf (List.idxOf_lt_length_iff.mpr ha)
  have hb' := List.getElem_idxOf (List.idxOf_lt_length_iff.mpr hb)
  rw [← ha', ← hb']
  simp only [h']

/-! ### bounded work: the overflow list -/

theorem drange_bounds (v0 v1 : Rat) (d : Int) : drange v0 v1 d = pyRange (rStart v0 d) (rStop v1 d) := rfl

theorem length_pyRange (lo hi : Int) : (pyRange lo hi).length = (hi - lo).toNat := by
  simp [pyRange]

theorem length_flatMap_const {α β : Type} (l : List α) (f : α → List β) (n : Nat) (h : ∀ x ∈ l, (f x).length = n) :
    (l.flatMap f).length = l.length * n := by
  induction l with
  | nil => simp
  | cons x r ih =>
    simp only [List.flatMap_cons, List.length_append, List.length_cons, h x List.mem_cons_self,
      ih (fun y hy => h y (List.mem_cons_of_mem _ hy))]
    rw [Nat.add_mul]; omega

/-- `_cells` counts the cells without enumerating them. -/
theorem length_getrange (p : Plane) (b : Rect) : (getrange p b).length = cellCount p b := by
  obtain ⟨x0, y0, x1, y1⟩ := b
  simp only [getrange, plane_clamp, cellCount, drange_bounds]
  rw [length_flatMap_const _ _ ((rStop (max (min p.x1 x1) p.x0) p.gridsize - rStart (min (max p.x0 x0) p.x1) p.gridsize).toNat)
    (by intro gy _; simp [length_pyRange])]
  rw [length_pyRange, Nat.mul_comm]

/-- The regenerated cell-count test of `Plane._cells` (`max(0, stop - start)` products against `MAXCELLS`):
a box that is NOT sent to the overflow list has at most `MAXCELLS` cells.  (Deliberately only this direction:
it is what the theorems need, and it also holds for the behaviour-preserving variant `>=` of the test.) -/
theorem cells_over_false {a b c d : Int} (h : plane_cells_over a b c d = false) :
    (b - a).toNat * (d - c).toNat ≤ PLANE_MAXCELLS := by
  simp only [plane_cells_over, PLANE_MAXCELLS_I] at h
  have h := of_decide_eq_false h
  rw [show max (0 : Int) (b - a) = ((b - a).toNat : Int) by omega,
      show max (0 : Int) (d - c) = ((d - c).toNat : Int) by omega, ← Int.natCast_mul] at h
  simp only [PLANE_MAXCELLS]
  omega

theorem cells?_some {p : Plane} {b : Rect} {ks : List Key} (h : cells? p b = some ks) :
    ks = getrange p b ∧ ks.length ≤ PLANE_MAXCELLS := by
  obtain ⟨x0, y0, x1, y1⟩ := b
  cases hc : plane_cells_over (rStart (min (max p.x0 x0) p.x1) p.gridsize) (rStop (max (min p.x1 x1) p.x0) p.gridsize)
      (rStart (min (max p.y0 y0) p.y1) p.gridsize) (rStop (max (min p.y1 y1) p.y0) p.gridsize) with
  | true => simp [cells?, plane_clamp, hc] at h
  | false =>
    simp only [cells?, plane_clamp, hc, Bool.false_eq_true, if_false, Option.some.injEq] at h
    subst h
    refine ⟨rfl, ?_⟩
    rw [length_getrange]
    simp only [cellCount]
    exact cells_over_false hc

/-- **Bounded work.**  No operation (`add`, `remove`, `find` on a box `b`) enumerates more than `MAXCELLS`
grid cells, whatever the coordinates of the box and of the plane are. -/
theorem cellsTouched_le (p : Plane) (b : Rect) : cellsTouched p b ≤ PLANE_MAXCELLS := by
  unfold cellsTouched
  cases h : cells? p b with
  | none => simp
  | some ks => exact (cells?_some h).2

/-! ### fields of `add` / `remove` -/

theorem add_seq (p : Plane) (o : PObj) : (add p o).seq = p.seq ++ [o] := rfl
theorem add_objs (p : Plane) (o : PObj) : (add p o).objs = if o.id ∈ p.objs then p.objs else p.objs ++ [o.id] := rfl

theorem add_bounds (p : Plane) (o : PObj) :
    (add p o).gridsize = p.gridsize ∧ (add p o).x0 = p.x0 ∧ (add p o).y0 = p.y0 ∧ (add p o).x1 = p.x1 ∧ (add p o).y1 = p.y1 := by
  unfold add; cases cells? p (bboxOf o) <;> simp

theorem add_big (p : Plane) (o : PObj) (h : cells? p (bboxOf o) = none) :
    (add p o).grid = p.grid ∧ (add p o).big = p.big ++ [o] := by
  unfold add; simp [h]

theorem add_small (p : Plane) (o : PObj) (ks : List Key) (h : cells? p (bboxOf o) = some ks) :
    (add p o).grid = ks.foldl (fun g k => g ++ [(k, o)]) p.grid ∧ (add p o).big = p.big := by
  unfold add; simp [h]

theorem remove_seq (p : Plane) (o : PObj) : (remove p o).1.seq = p.seq := by
  unfold remove; cases cells? p (bboxOf o) <;> simp only <;> split <;> rfl

theorem remove_objs (p : Plane) (o : PObj) : (remove p o).1.objs = p.objs.erase o.id := by
  unfold remove
  cases cells? p (bboxOf o) <;> simp only <;> split
  · rfl
  · rename_i h; exact (List.erase_of_not_mem h).symm
  · rfl
  · rename_i h; exact (List.erase_of_not_mem h).symm

theorem remove_bounds (p : Plane) (o : PObj) :
    (remove p o).1.gridsize = p.gridsize ∧ (remove p o).1.x0 = p.x0 ∧ (remove p o).1.y0 = p.y0 ∧
      (remove p o).1.x1 = p.x1 ∧ (remove p o).1.y1 = p.y1 := by
  unfold remove; cases cells? p (bboxOf o) <;> simp only <;> split <;> simp

theorem remove_big (p : Plane) (o : PObj) (h : cells? p (bboxOf o) = none) :
    (remove p o).1.grid = p.grid ∧ (remove p o).1.big = p.big.erase o := by
  unfold remove; simp only [h]; split <;> simp

theorem remove_small (p : Plane) (o : PObj) (ks : List Key) (h : cells? p (bboxOf o) = some ks) :
    (remove p o).1.grid = ks.foldl (fun g k => g.erase (k, o)) p.grid ∧ (remove p o).1.big = p.big := by
  unfold remove; simp only [h]; split <;> simp

theorem getrange_congr {p p' : Plane} (h : p'.gridsize = p.gridsize ∧ p'.x0 = p.x0 ∧ p'.y0 = p.y0 ∧ p'.x1 = p.x1 ∧ p'.y1 = p.y1)
    (b : Rect) : getrange p' b = getrange p b := by
  obtain ⟨h1, h2, h3, h4, h5⟩ := h
  unfold getrange; rw [h1, h2, h3, h4, h5]

theorem cells?_congr {p p' : Plane} (h : p'.gridsize = p.gridsize ∧ p'.x0 = p.x0 ∧ p'.y0 = p.y0 ∧ p'.x1 = p.x1 ∧ p'.y1 = p.y1)
    (b : Rect) : cells? p' b = cells? p b := by
  have hg := getrange_congr h b
  obtain ⟨h1, h2, h3, h4, h5⟩ := h
  unfold cells?; rw [hg, h1, h2, h3, h4, h5]


theorem remove_ok (p : Plane) (o : PObj) (h : o.id ∈ p.objs) : (remove p o).2 = true := by
  unfold remove; cases cells? p (bboxOf o) <;> simp [h]

/-! ### Round 6: removal of an absent object, `__contains__`, `__len__`, `extend` -/

theorem foldl_erase_absent (ks : List Key) (o : PObj) (g : List (Key × PObj)) (h : ∀ k, (k, o) ∉ g) :
    ks.foldl (fun g k => g.erase (k, o)) g = g := by
  induction ks with
  | nil => rfl
  | cons k ks ih =>
    simp only [List.foldl_cons]
    rw [List.erase_of_not_mem (h k)]
    exact ih

theorem extend_nil (p : Plane) : extend p [] = p := rfl
theorem extend_cons (p : Plane) (o : PObj) (os : List PObj) : extend p (o :: os) = extend (addPy p o) os := rfl

/-- For a new object the whole of `Plane.add` is the insertion proper. -/
theorem addPy_fresh (p : Plane) (o : PObj) (h1 : o.id ∉ p.objs) (h2 : o ∉ p.seq) : addPy p o = add p o := by
  simp [addPy, h1, h2]

/-- Adding an object that is already in the index changes nothing. -/
theorem addPy_live (p : Plane) (o : PObj) (h : o.id ∈ p.objs) : addPy p o = p := by
  simp [addPy, h]

theorem addPy_readd (p : Plane) (o : PObj) (h1 : o.id ∉ p.objs) (h2 : o ∈ p.seq) :
    addPy p o = add (forget p o) o := by
  simp [addPy, h1, h2]

theorem filter_erase_of_false {α : Type} [DecidableEq α] (f : α → Bool) (a : α) (h : f a = false) :
    ∀ l : List α, (l.erase a).filter f = l.filter f
  | [] => rfl
  | x :: l => by
    by_cases hx : x = a
    · subst hx
      rw [List.erase_cons_head, List.filter_cons, h]
      simp
    · rw [List.erase_cons_tail (by simpa using hx), List.filter_cons, List.filter_cons,
        filter_erase_of_false f a h l]

theorem getrange_forget (p : Plane) (o : PObj) (b : Rect) : getrange (forget p o) b = getrange p b :=
  getrange_congr ⟨rfl, rfl, rfl, rfl, rfl⟩ b

theorem cells_forget (p : Plane) (o : PObj) (b : Rect) : cells? (forget p o) b = cells? p b :=
  cells?_congr ⟨rfl, rfl, rfl, rfl, rfl⟩ b

/-- Lists of distinct numbers with the same members have the same length. -/
theorem length_eq_of_nodup_of_mem_iff {l₁ l₂ : List Nat} (h₁ : l₁.Nodup) (h₂ : l₂.Nodup)
    (h : ∀ x, x ∈ l₁ ↔ x ∈ l₂) : l₁.length = l₂.length :=
  ((List.perm_ext_iff_of_nodup h₁ h₂).mpr h).length_eq

end PdfVerif.Plane
