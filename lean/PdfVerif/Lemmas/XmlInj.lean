/-
C11 helper lemmas: the skeleton determines the layout tree.

* `stripItem` / `stripPage` (Spec/Xml.lean): the tree with `CONTROL.sub` applied to the strings `XMLConverter` strips
  (font name, glyph text, figure name, exported image name).
* `docSkeleton_strip`: the skeleton with strip_control = the skeleton of the stripped tree.
* `docSkeleton_inj`: two lists of pages with the same skeleton are equal.
-/
import PdfVerif.Spec.Xml

namespace PdfVerif.Xml
open PdfVerif.Convert

theorem maybeStrip_false (s : Str) : maybeStrip false s = s := by simp [maybeStrip]

mutual
theorem itemNodes_strip (strip : Bool) (i : Item) : itemNodes strip i = itemNodes false (stripItem strip i) := by
  cases i with
  | image w h src => cases src <;> simp [itemNodes, stripItem, maybeStrip_false]
  | figure n b kids => simp [itemNodes, stripItem, maybeStrip_false, itemNodesL_strip strip kids]
  | textline b kids => simp [itemNodes, stripItem, itemNodesL_strip strip kids]
  | textbox i b v kids => simp [itemNodes, stripItem, itemNodesL_strip strip kids]
  | _ => simp [itemNodes, stripItem, maybeStrip_false]
theorem itemNodesL_strip (strip : Bool) (is : List Item) :
    itemNodesL strip is = itemNodesL false (stripItemL strip is) := by
  cases is with
  | nil => simp [itemNodesL, stripItemL]
  | cons i is => simp [itemNodesL, stripItemL, itemNodes_strip strip i, itemNodesL_strip strip is]
end

mutual
theorem stripItem_false (i : Item) : stripItem false i = i := by
  cases i with
  | image w h src => cases src <;> simp [stripItem, maybeStrip_false]
  | figure n b kids => simp [stripItem, maybeStrip_false, stripItemL_false kids]
  | textline b kids => simp [stripItem, stripItemL_false kids]
  | textbox i b v kids => simp [stripItem, stripItemL_false kids]
  | _ => simp [stripItem, maybeStrip_false]
theorem stripItemL_false (is : List Item) : stripItemL false is = is := by
  cases is with
  | nil => rfl
  | cons i is => simp [stripItemL, stripItem_false i, stripItemL_false is]
end

theorem stripPage_false (p : Page) : stripPage false p = p := by
  simp [stripPage, stripItemL_false]

theorem docSkeleton_strip (strip : Bool) (ps : List Page) :
    docSkeleton strip ps = docSkeleton false (ps.map (stripPage strip)) := by
  simp only [docSkeleton, Node.elem.injEq, List.cons.injEq, true_and]
  induction ps with
  | nil => rfl
  | cons p ps ih =>
    simp only [List.flatMap_cons, List.map_cons, ih]
    simp [pageNodes, stripPage, itemNodesL_strip strip p.kids]

/-! ### injectivity -/

theorem textNodes_inj {a b : Str} (h : textNodes a = textNodes b) : a = b := by
  unfold textNodes at h
  split at h <;> split at h <;> simp_all

abbrev layoutName : Str := ['l','a','y','o','u','t']

/-- every item is rendered as one element (never named `layout`) followed by a line break -/
theorem itemNodes_shape (i : Item) :
    ∃ n a k, itemNodes false i = [.elem n a k, nl] ∧ n ≠ layoutName := by
  cases i <;> simp [itemNodes, layoutName]

mutual
theorem itemNodes_inj (i j : Item) (h : itemNodes false i = itemNodes false j) : i = j := by
  cases i with
  | char f b cs nc sz t =>
    cases j <;> simp [itemNodes, maybeStrip_false] at h
    obtain ⟨⟨rfl, rfl, rfl, rfl, rfl⟩, ht⟩ := h
    rw [textNodes_inj ht]
  | anno t =>
    cases j <;> simp [itemNodes, maybeStrip_false] at h
    rw [textNodes_inj h]
  | line lw b => cases j <;> simp_all [itemNodes]
  | rect lw b => cases j <;> simp_all [itemNodes]
  | curve lw b pts => cases j <;> simp_all [itemNodes]
  | image w h' src =>
    cases j with
    | image w2 h2 src2 => cases src <;> cases src2 <;> simp_all [itemNodes, maybeStrip_false]
    | _ => cases src <;> simp [itemNodes] at h
  | figure n b kids =>
    cases j <;> simp [itemNodes, maybeStrip_false] at h
    obtain ⟨⟨rfl, rfl⟩, hk⟩ := h
    rw [itemNodesL_inj _ _ hk]
  | textline b kids =>
    cases j <;> simp [itemNodes] at h
    obtain ⟨rfl, hk⟩ := h
    rw [itemNodesL_inj _ _ hk]
  | textbox ix b v kids =>
    cases j with
    | textbox ix2 b2 v2 kids2 =>
      cases v <;> cases v2 <;> simp [itemNodes] at h
      all_goals
        obtain ⟨⟨rfl, rfl⟩, hk⟩ := h
        rw [itemNodesL_inj _ _ hk]
    | _ => cases v <;> simp [itemNodes] at h
theorem itemNodesL_inj (is js : List Item) (h : itemNodesL false is = itemNodesL false js) : is = js := by
  cases is with
  | nil =>
    cases js with
    | nil => rfl
    | cons j js =>
      obtain ⟨n, a, k, hj, _⟩ := itemNodes_shape j
      simp [itemNodesL, hj] at h
  | cons i is =>
    cases js with
    | nil =>
      obtain ⟨n, a, k, hi, _⟩ := itemNodes_shape i
      simp [itemNodesL, hi] at h
    | cons j js =>
      obtain ⟨n, a, k, hi, _⟩ := itemNodes_shape i
      obtain ⟨n', a', k', hj, _⟩ := itemNodes_shape j
      have h' := h
      simp only [itemNodesL, hi, hj, List.cons_append, List.nil_append, List.cons.injEq, true_and] at h'
      have hij : itemNodes false i = itemNodes false j := by rw [hi, hj, h'.1]
      rw [itemNodes_inj i j hij, itemNodesL_inj is js h'.2]
end

theorem groupNodes_shape (g : Group) : ∃ n a k, groupNodes g = [.elem n a k, nl] := by
  cases g <;> simp [groupNodes]

mutual
theorem groupNodes_inj (g g' : Group) (h : groupNodes g = groupNodes g') : g = g' := by
  cases g with
  | box i b => cases g' <;> simp_all [groupNodes]
  | group b kids =>
    cases g' <;> simp [groupNodes] at h
    obtain ⟨rfl, hk⟩ := h
    rw [groupNodesL_inj _ _ hk]
theorem groupNodesL_inj (gs gs' : List Group) (h : groupNodesL gs = groupNodesL gs') : gs = gs' := by
  cases gs with
  | nil =>
    cases gs' with
    | nil => rfl
    | cons j js =>
      obtain ⟨n, a, k, hj⟩ := groupNodes_shape j
      simp [groupNodesL, hj] at h
  | cons i is =>
    cases gs' with
    | nil =>
      obtain ⟨n, a, k, hi⟩ := groupNodes_shape i
      simp [groupNodesL, hi] at h
    | cons j js =>
      obtain ⟨n, a, k, hi⟩ := groupNodes_shape i
      obtain ⟨n', a', k', hj⟩ := groupNodes_shape j
      have h' := h
      simp only [groupNodesL, hi, hj, List.cons_append, List.nil_append, List.cons.injEq, true_and] at h'
      have hij : groupNodes i = groupNodes j := by rw [hi, hj, h'.1]
      rw [groupNodes_inj i j hij, groupNodesL_inj is js h'.2]
end

theorem layoutNodes_inj (g g' : Option (List Group)) (h : layoutNodes g = layoutNodes g') : g = g' := by
  cases g <;> cases g' <;> simp [layoutNodes] at h
  · rfl
  · rw [groupNodesL_inj _ _ h]

/-- the children of a `<page>`: items, then the optional `<layout>` - the split is determined -/
theorem pageKids_inj (is js : List Item) (g g' : Option (List Group))
    (h : itemNodesL false is ++ layoutNodes g = itemNodesL false js ++ layoutNodes g') : is = js ∧ g = g' := by
  induction is generalizing js with
  | nil =>
    cases js with
    | nil => exact ⟨rfl, layoutNodes_inj g g' (by simpa [itemNodesL] using h)⟩
    | cons j js =>
      obtain ⟨n, a, k, hj, hn⟩ := itemNodes_shape j
      cases g <;> simp [itemNodesL, hj, layoutNodes] at h
      simp_all [layoutName]
  | cons i is ih =>
    cases js with
    | nil =>
      obtain ⟨n, a, k, hi, hn⟩ := itemNodes_shape i
      cases g' <;> simp [itemNodesL, hi, layoutNodes] at h
      simp_all [layoutName]
    | cons j js =>
      obtain ⟨n, a, k, hi, _⟩ := itemNodes_shape i
      obtain ⟨n', a', k', hj, _⟩ := itemNodes_shape j
      have h' := h
      simp only [itemNodesL, hi, hj, List.cons_append, List.nil_append, List.cons.injEq, true_and] at h'
      have hij : itemNodes false i = itemNodes false j := by rw [hi, hj, h'.1]
      obtain ⟨h1, h2⟩ := ih js h'.2
      exact ⟨by rw [itemNodes_inj i j hij, h1], h2⟩

theorem pageNodes_inj (p q : Page) (h : pageNodes false p = pageNodes false q) : p = q := by
  obtain ⟨i, b, r, ks, gs⟩ := p
  obtain ⟨i', b', r', ks', gs'⟩ := q
  simp only [pageNodes, List.cons.injEq, Node.elem.injEq, Prod.mk.injEq, true_and, and_true] at h
  obtain ⟨⟨rfl, rfl, rfl⟩, hk⟩ := h
  obtain ⟨rfl, rfl⟩ := pageKids_inj _ _ _ _ hk
  rfl

/-- **The skeleton determines the tree**: two lists of pages with the same element tree are equal. -/
theorem docSkeleton_inj (ps qs : List Page) (h : docSkeleton false ps = docSkeleton false qs) : ps = qs := by
  simp only [docSkeleton, Node.elem.injEq, List.cons.injEq, true_and] at h
  induction ps generalizing qs with
  | nil =>
    cases qs with
    | nil => rfl
    | cons q qs => simp [pageNodes] at h
  | cons p ps ih =>
    cases qs with
    | nil => simp [pageNodes] at h
    | cons q qs =>
      have h' := h
      simp only [List.flatMap_cons] at h'
      have hp : ∀ x : Page, ∃ e, pageNodes false x = [e, nl] := fun x => ⟨_, rfl⟩
      obtain ⟨e, he⟩ := hp p
      obtain ⟨e', he'⟩ := hp q
      simp only [he, he', List.cons_append, List.nil_append, List.cons.injEq, true_and] at h'
      have hpq : pageNodes false p = pageNodes false q := by rw [he, he', h'.1]
      rw [pageNodes_inj p q hpq, ih qs h'.2]

end PdfVerif.Xml
