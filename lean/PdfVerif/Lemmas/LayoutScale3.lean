import Mathlib.Data.List.Basic
import PdfVerif.Lemmas.LayoutScale2
import PdfVerif.Lemmas.LayoutGroups
namespace PdfVerif.Layout
open PdfVerif PdfVerif.Gen.Layout
open PdfVerif.Plane (WfRect bboxOf overlaps PObj)
open PdfVerif.Props.C20 (Reach plane_find plane_find_order plane_iter)

/-! ## group_textboxes commutes with scaling (simulation) -/

def scE (s : Rat) (e : HEntry) : HEntry := { e with d := s * s * e.d }
def scP (s : Rat) (o : PObj) : PObj := ⟨o.id, s * o.x0, s * o.y0, s * o.x1, s * o.y1⟩
def scRect (s : Rat) (q : Rect) : Rect := (s * q.1, s * q.2.1, s * q.2.2.1, s * q.2.2.2)

theorem popMin_map {le : Cmp} (f : HEntry → HEntry) (hf : ∀ a b, le (f a) (f b) = le a b) :
    ∀ h : List HEntry, popMin le (h.map f) = (popMin le h).map (fun pr => (f pr.1, pr.2.map f))
  | [] => rfl
  | e :: rest => by
    simp only [List.map_cons, popMin, popMin_map f hf rest]
    cases popMin le rest with
    | none => rfl
    | some pr =>
      obtain ⟨m, r'⟩ := pr
      simp only [Option.map_some, hf]
      split <;> simp

section
variable {s : Rat} (hs : 0 < s)
include hs

theorem hle_scE (a b : HEntry) : HEntry.le (scE s a) (scE s b) = HEntry.le a b := by
  have hss : 0 < s * s := mul_pos hs hs
  have e1 : (s * s * a.d ≠ s * s * b.d) ↔ a.d ≠ b.d := by
    constructor
    · intro h hab; exact h (by rw [hab])
    · intro h hab; exact h (mul_left_cancel₀ (ne_of_gt hss) hab)
  unfold HEntry.le scE
  simp only
  by_cases h1 : (a.skip != b.skip) = true
  · simp [h1]
  · by_cases h2 : a.d = b.d
    · have h2' : s * s * a.d = s * s * b.d := by rw [h2]
      simp [h1, h2, h2']
    · have h2' : s * s * a.d ≠ s * s * b.d := e1.mpr h2
      simp [h1, h2, h2', lt_scale hss]

theorem scE_d_beq (a b : HEntry) : ((scE s a).d == (scE s b).d) = (a.d == b.d) := by
  have hss : 0 < s * s := mul_pos hs hs
  simp only [scE]
  rw [Bool.eq_iff_iff]
  simp only [beq_iff_eq]
  constructor
  · intro h; exact mul_left_cancel₀ (ne_of_gt hss) h
  · intro h; rw [h]

theorem scP_injective : Function.Injective (scP s) := by
  intro a b h
  simp only [scP, PObj.mk.injEq] at h
  obtain ⟨h0, h1, h2, h3, h4⟩ := h
  have c := fun {x y : Rat} (h : s * x = s * y) => mul_left_cancel₀ (ne_of_gt hs) h
  cases a; cases b
  simp only [PObj.mk.injEq]
  exact ⟨h0, c h1, c h2, c h3, c h4⟩

theorem overlaps_scale (o : PObj) (q : Rect) : overlaps (scP s o) (scRect s q) = overlaps o q := by
  obtain ⟨q0, q1, q2, q3⟩ := q
  simp only [overlaps, scP, scRect, le_scale hs]

theorem wfRect_scale (q : Rect) (h : WfRect q) : WfRect (scRect s q) := by
  obtain ⟨q0, q1, q2, q3⟩ := q
  simp only [WfRect, scRect, le_scale hs] at h ⊢
  exact h

/-- `find` on two planes that hold the same objects up to scaling. -/
theorem find_scale {p1 p2 : Plane.Plane} {L : List PObj} (h1 : Reach p1 L) (h2 : Reach p2 (L.map (scP s)))
    (q : Rect) (hq : WfRect q) : Plane.find p2 (scRect s q) = (Plane.find p1 q).map (scP s) := by
  rw [plane_find_order h2 _ (wfRect_scale hs q hq), plane_find_order h1 q hq]
  simp only [Plane.findSpec, plane_iter h1, plane_iter h2, List.filter_map]
  congr 1
  apply List.filter_congr
  intro o _
  simp only [Function.comp, overlaps_scale hs]

theorem isany_query_scale (a b : BB) : isany_query (scaleBB s a) (scaleBB s b) = scRect s (isany_query a b) := by
  simp only [isany_query, Spec.scaleBB, scRect, min_scale hs, max_scale hs]

end

theorem scaleNode_bb (s : Rat) (n : Node) : (scaleNode s n).bb = scaleBB s n.bb := by cases n <;> rfl
theorem scaleNode_isVert (s : Rat) (n : Node) : (scaleNode s n).isVert = n.isVert := by cases n <;> rfl
theorem nodePObj_scale (s : Rat) (k : Nat) (n : Node) : nodePObj k (scaleNode s n) = scP s (nodePObj k n) := by
  simp [nodePObj, scP, scaleNode_bb, Spec.scaleBB]
theorem pobjBB_scP (s : Rat) (o : PObj) : pobjBB (scP s o) = scaleBB s (pobjBB o) := rfl

theorem wf_union {a b : BB} (ha : WfBB a) (hb : WfBB b) : WfBB (a.union b) := by
  simp only [WfBB, BB.union, expand_bbox]
  exact ⟨le_trans (min_le_left _ _) (le_trans ha.1 (le_max_left _ _)),
         le_trans (min_le_left _ _) (le_trans ha.2 (le_max_left _ _))⟩

theorem wf_isany_query {a b : BB} (ha : WfBB a) (_hb : WfBB b) : WfRect (isany_query a b) := by
  simp only [WfRect, isany_query]
  exact ⟨le_trans (min_le_left _ _) (le_trans ha.1 (le_max_left _ _)),
         le_trans (min_le_left _ _) (le_trans ha.2 (le_max_left _ _))⟩

structure Sim (s : Rat) (a b : GState) (L : List PObj) : Prop where
  heap : b.heap = a.heap.map (scE s)
  done : b.done = a.done
  nodes : b.nodes = a.nodes.map (scaleNode s)
  tie : b.tie = a.tie
  err : b.err = a.err
  ra : Reach a.plane L
  rb : Reach b.plane (L.map (scP s))
  seqIds : b.plane.seq.map (·.id) = a.plane.seq.map (·.id)
  lnodes : ∀ o ∈ L, ∃ n, a.nodes[o.id]? = some n ∧ o = nodePObj o.id n
  wf : ∀ n ∈ a.nodes, WfBB n.bb

section
variable {s : Rat} (hs : 0 < s)
include hs

theorem isany_sim {a b : GState} {L : List PObj} (h : Sim s a b L) (k1 k2 : Nat) (x y : BB) (hx : WfBB x) (hy : WfBB y) :
    isany b.plane k1 k2 (scaleBB s x) (scaleBB s y) = isany a.plane k1 k2 x y := by
  simp only [isany, isany_query_scale hs, find_scale hs h.ra h.rb _ (wf_isany_query hx hy), List.any_map]
  rfl

theorem live_sim {a b : GState} {L : List PObj} (h : Sim s a b L) (e : HEntry) : live b (scE s e) = live a e := by
  simp only [live, h.done, scE]

theorem mem_L_of_live {boxes : List Box} {a b : GState} {L : List PObj} (hc : CInv boxes a) (h : Sim s a b L)
    {k : Nat} {n : Node} (hk : a.nodes[k]? = some n) (hd : k ∉ a.done) : nodePObj k n ∈ L := by
  have hlt : k < a.nodes.length := (List.getElem?_eq_some_iff.mp hk).1
  obtain ⟨x, hx, hxid⟩ := hc.liveIn k hlt hd
  rw [plane_iter h.ra] at hx
  obtain ⟨n', hn', hxe⟩ := h.lnodes x hx
  rw [hxid, hk] at hn'
  cases hn'
  rw [hxid] at hxe
  rw [← hxe]; exact hx

end


section
variable {s : Rat} (hs : 0 < s)
include hs

theorem gtbStep_sim {boxes : List Box} {a b : GState} {L : List PObj} (hc : CInv boxes a) (h : Sim s a b L) :
    (gtbStep HEntry.le a = none → gtbStep HEntry.le b = none) ∧
    (∀ a', gtbStep HEntry.le a = some a' → ∃ b' L', gtbStep HEntry.le b = some b' ∧ Sim s a' b' L') := by
  have hpop := popMin_map (le := HEntry.le) (scE s) (hle_scE hs) a.heap
  unfold gtbStep
  rw [h.heap, hpop]
  cases hp : popMin HEntry.le a.heap with
  | none => simp
  | some pr =>
    obtain ⟨e, heap⟩ := pr
    simp only [Option.map_some, live_sim hs h]
    refine ⟨by intro hn; split at hn <;> (try split at hn) <;> (try split at hn) <;> simp at hn, ?_⟩
    intro a' ha'
    by_cases hlive : live a e = true
    · simp only [hlive, Bool.not_true, Bool.false_eq_true, if_false] at ha' ⊢
      have hgetb : ∀ k : Nat, b.nodes[k]? = (a.nodes[k]?).map (scaleNode s) := by
        intro k; rw [h.nodes, List.getElem?_map]
      rw [show (scE s e).id1 = e.id1 from rfl, show (scE s e).id2 = e.id2 from rfl, hgetb, hgetb]
      cases hn1 : a.nodes[e.id1]? with
      | none =>
        simp only [hn1] at ha'
        simp only [Option.some.injEq] at ha'
        subst ha'
        simp only [Option.map_none]
        exact ⟨_, L, rfl, ⟨rfl, h.done, h.nodes, h.tie, by simp, h.ra, h.rb, h.seqIds, h.lnodes, h.wf⟩⟩
      | some n1 =>
        cases hn2 : a.nodes[e.id2]? with
        | none =>
          simp only [hn1, hn2] at ha'
          simp only [Option.some.injEq] at ha'
          subst ha'
          simp only [Option.map_none, Option.map_some]
          exact ⟨_, L, rfl, ⟨rfl, h.done, h.nodes, h.tie, by simp, h.ra, h.rb, h.seqIds, h.lnodes, h.wf⟩⟩
        | some n2 =>
          simp only [hn1, hn2] at ha'
          simp only [Option.map_some]
          have hw1 : WfBB n1.bb := h.wf n1 (List.mem_of_getElem? hn1)
          have hw2 : WfBB n2.bb := h.wf n2 (List.mem_of_getElem? hn2)
          have hisany : isany b.plane e.id1 e.id2 (scaleNode s n1).bb (scaleNode s n2).bb
              = isany a.plane e.id1 e.id2 n1.bb n2.bb := by
            rw [scaleNode_bb, scaleNode_bb]; exact isany_sim hs h _ _ _ _ hw1 hw2
          have htie : (b.tie || (heap.map (scE s)).any (fun e' => e'.skip == (scE s e).skip && e'.d == (scE s e).d && live b e'))
              = (a.tie || heap.any (fun e' => e'.skip == e.skip && e'.d == e.d && live a e')) := by
            rw [h.tie, List.any_map]
            congr 2
            funext x
            simp only [Function.comp, scE_d_beq hs, live_sim hs h]
            rfl
          rw [hisany, show (scE s e).skip = e.skip from rfl]
          by_cases hblock : (!e.skip && isany a.plane e.id1 e.id2 n1.bb n2.bb) = true
          · simp only [hblock, if_true] at ha' ⊢
            simp only [Option.some.injEq] at ha'
            subst ha'
            refine ⟨_, L, rfl, ⟨?_, h.done, h.nodes, htie, h.err, h.ra, h.rb, h.seqIds, h.lnodes, h.wf⟩⟩
            simp [scE]
          · simp only [hblock, Bool.false_eq_true, if_false] at ha' ⊢
            simp only [Option.some.injEq] at ha'
            subst ha'
            -- the merge
            have hlive' : e.id1 ∉ a.done ∧ e.id2 ∉ a.done := by simpa [live] using hlive
            have he : e ∈ a.heap := (popMin_perm _ _ _ hp).symm.subset List.mem_cons_self
            have hne : e.id1 ≠ e.id2 := hc.inv.heapNe e he
            have ho1 : nodePObj e.id1 n1 ∈ L := mem_L_of_live hs hc h hn1 hlive'.1
            have ho2 : nodePObj e.id2 n2 ∈ L := mem_L_of_live hs hc h hn2 hlive'.2
            have ho2' : nodePObj e.id2 n2 ∈ L.erase (nodePObj e.id1 n1) := by
              rw [List.mem_erase_of_ne]; exact ho2
              intro heq; exact hne (congrArg PObj.id heq).symm
            have ra1 := Reach.remove (nodePObj e.id1 n1) h.ra ho1
            have ra2 := Reach.remove (nodePObj e.id2 n2) ra1 ho2'
            have rb1 := Reach.remove (scP s (nodePObj e.id1 n1)) h.rb (List.mem_map_of_mem ho1)
            rw [← List.map_erase (scP_injective hs)] at rb1
            have rb2 := Reach.remove (scP s (nodePObj e.id2 n2)) rb1 (List.mem_map_of_mem ho2')
            rw [← List.map_erase (scP_injective hs)] at rb2
            set g := Node.grp (n1.isVert || n2.isVert) (n1.bb.union n2.bb) n1 n2 with hg
            have hgs : Node.grp ((scaleNode s n1).isVert || (scaleNode s n2).isVert)
                ((scaleNode s n1).bb.union (scaleNode s n2).bb) (scaleNode s n1) (scaleNode s n2) = scaleNode s g := by
              simp only [hg, scaleNode, scaleNode_isVert, scaleNode_bb, union_scale hs]
            have hlen : b.nodes.length = a.nodes.length := by rw [h.nodes, List.length_map]
            rw [hgs, hlen, nodePObj_scale, nodePObj_scale, nodePObj_scale]
            set pa2 := (Plane.remove (Plane.remove a.plane (nodePObj e.id1 n1)).1 (nodePObj e.id2 n2)).1 with hpa2
            set pb2 := (Plane.remove (Plane.remove b.plane (scP s (nodePObj e.id1 n1))).1 (scP s (nodePObj e.id2 n2))).1 with hpb2
            have hwg : WfBB g.bb := wf_union hw1 hw2
            have hfresh_a : ∀ o' ∈ pa2.seq, o'.id ≠ (nodePObj a.nodes.length g).id := by
              intro o' ho'
              rw [hpa2, remove_seq, remove_seq] at ho'
              exact Nat.ne_of_lt (hc.inv.seqLt o' ho')
            have hfresh_b : ∀ o' ∈ pb2.seq, o'.id ≠ (scP s (nodePObj a.nodes.length g)).id := by
              intro o' ho'
              rw [hpb2, remove_seq, remove_seq] at ho'
              have : o'.id ∈ b.plane.seq.map (·.id) := List.mem_map_of_mem ho'
              rw [h.seqIds, List.mem_map] at this
              obtain ⟨x, hx, hxid⟩ := this
              rw [← hxid]
              exact Nat.ne_of_lt (hc.inv.seqLt x hx)
            have ra3 := Reach.add (nodePObj a.nodes.length g) ra2 hfresh_a (by
              simp only [WfRect, bboxOf, nodePObj]; exact hwg)
            have rb3 := Reach.add (scP s (nodePObj a.nodes.length g)) rb2 hfresh_b (by
              simp only [WfRect, bboxOf, nodePObj, scP, le_scale hs]; exact hwg)
            have hia : Plane.iter pa2 = (L.erase (nodePObj e.id1 n1)).erase (nodePObj e.id2 n2) := plane_iter ra2
            have hib : Plane.iter pb2 = ((L.erase (nodePObj e.id1 n1)).erase (nodePObj e.id2 n2)).map (scP s) := plane_iter rb2
            refine ⟨_, _, rfl, ⟨?_, by simp [h.done], ?_, htie, ?_, ra3, ?_, ?_, ?_, ?_⟩⟩
            · -- heap
              simp only [List.map_append, List.map_map, hib, hia]
              congr 1
              apply List.map_congr_left
              intro o _
              simp only [Function.comp, scE, scaleNode_bb, pobjBB_scP, dist_scale hs]
              rfl
            · simp [h.nodes]
            · -- err
              have e1a := remove_ok a.plane (nodePObj e.id1 n1) ((mem_iter (by rw [plane_iter h.ra]; exact ho1)).2)
              have e2a := remove_ok (Plane.remove a.plane (nodePObj e.id1 n1)).1 (nodePObj e.id2 n2)
                ((mem_iter (by rw [plane_iter ra1]; exact ho2')).2)
              have e1b := remove_ok b.plane (scP s (nodePObj e.id1 n1))
                ((mem_iter (by rw [plane_iter h.rb]; exact List.mem_map_of_mem ho1)).2)
              have e2b := remove_ok (Plane.remove b.plane (scP s (nodePObj e.id1 n1))).1 (scP s (nodePObj e.id2 n2))
                ((mem_iter (by rw [plane_iter rb1]; exact List.mem_map_of_mem ho2')).2)
              simp [h.err, e1a, e2a, e1b, e2b]
            · simpa [List.map_append] using rb3
            · simp only [add_seq, List.map_append, hpa2, hpb2, remove_seq, h.seqIds]
              rfl
            · intro o ho
              simp only [List.mem_append, List.mem_singleton] at ho
              rcases ho with ho | rfl
              · have hoL : o ∈ L := List.mem_of_mem_erase (List.mem_of_mem_erase ho)
                obtain ⟨n, hn, hoe⟩ := h.lnodes o hoL
                refine ⟨n, ?_, hoe⟩
                rw [List.getElem?_append_left ((List.getElem?_eq_some_iff.mp hn).1)]
                exact hn
              · exact ⟨g, by simp [nodePObj], rfl⟩
            · intro n hn
              simp only [List.mem_append, List.mem_singleton] at hn
              rcases hn with hn | rfl
              · exact h.wf n hn
              · exact hwg
    · have hl : live a e = false := by simpa using hlive
      simp only [hl, Bool.not_false, if_true] at ha' ⊢
      simp only [Option.some.injEq] at ha'
      subst ha'
      exact ⟨_, L, rfl, ⟨rfl, h.done, h.nodes, h.tie, h.err, h.ra, h.rb, h.seqIds, h.lnodes, h.wf⟩⟩

end


section
variable {s : Rat} (hs : 0 < s)
include hs

theorem gtbLoop_sim {boxes : List Box} : ∀ (fuel : Nat) (a b : GState) (L : List PObj), CInv boxes a → Sim s a b L →
    (∃ L', Sim s (gtbLoop HEntry.le fuel a).1 (gtbLoop HEntry.le fuel b).1 L') ∧
      (gtbLoop HEntry.le fuel b).2 = (gtbLoop HEntry.le fuel a).2
  | 0, a, b, L, _, h => by
    simp only [gtbLoop]
    exact ⟨⟨L, h⟩, by rw [h.heap, List.isEmpty_map]⟩
  | fuel + 1, a, b, L, hc, h => by
    have hstep := gtbStep_sim hs hc h
    simp only [gtbLoop]
    cases ha : gtbStep HEntry.le a with
    | none =>
      rw [hstep.1 ha]
      exact ⟨⟨L, h⟩, rfl⟩
    | some a' =>
      obtain ⟨b', L', hb', hsim'⟩ := hstep.2 a' ha
      rw [hb']
      exact gtbLoop_sim fuel a' b' L' (gtbStep_cinv hc ha) hsim'

theorem initPairs_scale (bbs : List BB) : initPairs (bbs.map (scaleBB s)) = (initPairs bbs).map (scE s) := by
  simp only [initPairs, List.zipIdx_map, List.flatMap_map, List.map_flatMap, List.filter_map, List.map_map]
  congr 1
  funext x
  congr 1
  funext y
  simp only [Function.comp, scE, Prod.map, id, dist_scale hs]

theorem gtbInit_sim (B : BB) (hB : B.x0 ≤ B.x1 ∧ B.y0 ≤ B.y1) (boxes : List Box) (hwf : ∀ b ∈ boxes, WfBB b.bb) :
    Sim s (gtbInit B boxes) (gtbInit (scaleBB s B) (boxes.map (scaleBox s)))
      (boxes.zipIdx.map fun (x : Box × Nat) => nodePObj x.2 (.leaf x.1)) := by
  have hpob : ((boxes.map (scaleBox s)).zipIdx.map fun (x : Box × Nat) => nodePObj x.2 (.leaf x.1))
      = (boxes.zipIdx.map fun (x : Box × Nat) => nodePObj x.2 (.leaf x.1)).map (scP s) := by
    rw [List.zipIdx_map, List.map_map, List.map_map]
    apply List.map_congr_left
    intro x _
    simp only [Function.comp, Prod.map, id]
    exact nodePObj_scale s x.2 (.leaf x.1)
  have hB' : (scaleBB s B).x0 ≤ (scaleBB s B).x1 ∧ (scaleBB s B).y0 ≤ (scaleBB s B).y1 := by
    simp only [Spec.scaleBB, le_scale hs]; exact hB
  have hwfo : ∀ o ∈ (boxes.zipIdx.map fun (x : Box × Nat) => nodePObj x.2 (Node.leaf x.1)), WfRect (bboxOf o) := by
    intro o ho
    simp only [List.mem_map] at ho
    obtain ⟨x, hx, rfl⟩ := ho
    have hm := List.mem_zipIdx hx
    have : x.1 ∈ boxes := by rw [hm.2.2]; exact List.getElem_mem _
    exact hwf x.1 this
  have hnd : ((boxes.zipIdx.map fun (x : Box × Nat) => nodePObj x.2 (Node.leaf x.1)).map (·.id)).Nodup := by
    rw [zipIdx_ids]; exact List.nodup_range'
  refine ⟨?_, rfl, ?_, rfl, rfl, ?_, ?_, ?_, ?_, ?_⟩
  · simp only [gtbInit, List.map_map]
    rw [← initPairs_scale hs, List.map_map]
    rfl
  · simp only [gtbInit, List.map_map]; rfl
  · exact reach_mkPlane B _ hB hwfo hnd
  · show Reach (mkPlane (scaleBB s B) _) _
    rw [hpob]
    apply reach_mkPlane _ _ hB'
    · intro o ho
      simp only [List.mem_map] at ho
      obtain ⟨o', ho', rfl⟩ := ho
      have := hwfo o' (List.mem_map.mpr ho')
      simp only [WfRect, bboxOf, scP, le_scale hs] at this ⊢
      exact this
    · rw [List.map_map]
      exact hnd
  · show (mkPlane (scaleBB s B) _).seq.map _ = (mkPlane B _).seq.map _
    rw [mkPlane_seq, mkPlane_seq, hpob, List.map_map]
    rfl
  · intro o ho
    simp only [List.mem_map] at ho
    obtain ⟨x, hx, rfl⟩ := ho
    have hm := List.mem_zipIdx hx
    refine ⟨.leaf x.1, ?_, rfl⟩
    have hlt : x.2 < boxes.length := by simpa using hm.2.1
    simp only [gtbInit, nodePObj, List.getElem?_map, List.getElem?_eq_getElem hlt, Option.map_some]
    congr 2
    simpa using hm.2.2.symm
  · intro n hn
    simp only [gtbInit, List.mem_map] at hn
    obtain ⟨b, hb, rfl⟩ := hn
    exact hwf b hb

/-- `group_textboxes` commutes with scaling (the implementation's heap order with creation numbers for
`id()`): same merges in the same order, hence the same hierarchy, scaled. -/
theorem groupTextboxes_scale (B : BB) (hB : B.x0 ≤ B.x1 ∧ B.y0 ≤ B.y1) (boxes : List Box) (hwf : ∀ b ∈ boxes, WfBB b.bb) :
    groupTextboxes HEntry.le (scaleBB s B) (boxes.map (scaleBox s))
      = ((groupTextboxes HEntry.le B boxes).1.map (scaleNode s), (groupTextboxes HEntry.le B boxes).2) := by
  have hsim0 := gtbInit_sim hs B hB boxes hwf
  have hloop := gtbLoop_sim hs (boxes := boxes) (gtbFuel boxes.length) _ _ _ (gtbInit_cinv B boxes) hsim0
  obtain ⟨⟨L', hs'⟩, hfl⟩ := hloop
  simp only [groupTextboxes, List.length_map]
  rw [hfl, hs'.tie, hs'.err, plane_iter hs'.rb, plane_iter hs'.ra, hs'.nodes]
  congr 1
  rw [List.filterMap_map, List.map_filterMap]
  apply List.filterMap_congr
  intro o _
  simp [Function.comp, scP, List.getElem?_map]

end


theorem leaves_scaleNode (s : Rat) (n : Node) : (scaleNode s n).leaves = n.leaves.map (scaleBox s) := by
  induction n with
  | leaf b => rfl
  | grp t bb l r ihl ihr => simp [scaleNode, Node.leaves, ihl, ihr]

theorem flatMap_leaves_scale (s : Rat) (ns : List Node) :
    (ns.map (scaleNode s)).flatMap Node.leaves = (ns.flatMap Node.leaves).map (scaleBox s) := by
  induction ns with
  | nil => rfl
  | cons n r ih => simp [leaves_scaleNode, ih]

theorem bb_pos_of_not_empty {b : BB} (h : is_empty b = false) : b.x0 < b.x1 ∧ b.y0 < b.y1 := by
  simp only [is_empty, BB.width, BB.height, Bool.or_eq_false_iff] at h
  have h1 := not_le.mp (of_decide_eq_false h.1)
  have h2 := not_le.mp (of_decide_eq_false h.2)
  constructor <;> linarith

theorem assign_scaleNode (s : Rat) (n : Node) : ∀ k, (scaleNode s n).assign k = (scaleNode s (n.assign k).1, (n.assign k).2) := by
  induction n with
  | leaf b => intro k; rfl
  | grp t bb l r ihl ihr =>
    intro k
    simp only [scaleNode, Node.assign, ihl, ihr]

section
variable {s : Rat} (hs : 0 < s)
include hs

theorem analyze_scaleNode (bf : Rat) (n : Node) : (scaleNode s n).analyze bf = scaleNode s (n.analyze bf) := by
  induction n with
  | leaf b => simp only [scaleNode, Node.analyze, boxAnalyze_scale hs]
  | grp t bb l r ihl ihr =>
    simp only [scaleNode, Node.analyze, ihl, ihr, scaleNode_bb]
    have hk : ∀ x : BB, groupKey t bf (scaleBB s x) = s * groupKey t bf x := by
      intro x
      cases t
      · simp only [groupKey, Bool.false_eq_true, if_false, key_lrtb_scale hs]
      · simp only [groupKey, if_true, key_tbrl_scale hs]
    by_cases hlt : groupKey t bf (r.analyze bf).bb < groupKey t bf (l.analyze bf).bb
    · have hlt' : groupKey t bf (scaleBB s (r.analyze bf).bb) < groupKey t bf (scaleBB s (l.analyze bf).bb) := by
        rw [hk, hk, lt_scale hs]; exact hlt
      simp only [hlt, hlt', if_true, scaleNode]
    · have hlt' : ¬ groupKey t bf (scaleBB s (r.analyze bf).bb) < groupKey t bf (scaleBB s (l.analyze bf).bb) := by
        rw [hk, hk, lt_scale hs]; exact hlt
      simp only [hlt, hlt', if_false, scaleNode]

theorem analyzeGroups_scale (bf : Rat) : ∀ (ns : List Node) (k : Nat),
    analyzeGroups bf (ns.map (scaleNode s)) k = (analyzeGroups bf ns k).map (scaleNode s)
  | [], _ => rfl
  | n :: rest, k => by
    simp only [List.map_cons, analyzeGroups, analyze_scaleNode hs, assign_scaleNode]
    rw [analyzeGroups_scale bf rest]

theorem finalBoxes_scale (p : LAParams) (B : BB) (hB : B.x0 ≤ B.x1 ∧ B.y0 ≤ B.y1) (boxes : List Box)
    (hwf : ∀ b ∈ boxes, WfBB b.bb) :
    finalBoxes HEntry.le p (scaleBB s B) (boxes.map (scaleBox s))
      = ((finalBoxes HEntry.le p B boxes).1.map (scaleBox s),
         (finalBoxes HEntry.le p B boxes).2.1.map (·.map (scaleNode s)), (finalBoxes HEntry.le p B boxes).2.2) := by
  cases hbf : p.boxes_flow with
  | none =>
    rw [finalBoxes_none_scale hs p hbf]
    simp [finalBoxes, hbf]
  | some bf =>
    simp only [finalBoxes, hbf, groupTextboxes_scale hs B hB boxes hwf, analyzeGroups_scale hs, Option.map_some]
    refine Prod.ext ?_ rfl
    rw [flatMap_leaves_scale]
    set leaves := (analyzeGroups bf (groupTextboxes HEntry.le B boxes).1 0).flatMap Node.leaves with hl
    have hlookup : ∀ b : Box,
        ((leaves.map (scaleBox s)).find? (fun b' => b'.bid == (scaleBox s b).bid)).getD (scaleBox s b)
          = scaleBox s ((leaves.find? (fun b' => b'.bid == b.bid)).getD b) := by
      intro b
      rw [List.find?_map]
      have : ((fun b' : Box => b'.bid == (scaleBox s b).bid) ∘ scaleBox s) = (fun b' : Box => b'.bid == b.bid) := rfl
      rw [this]
      cases leaves.find? (fun b' => b'.bid == b.bid) <;> rfl
    have hmap : (boxes.map (fun x => ((leaves.map (scaleBox s)).find? (fun b' => b'.bid == (scaleBox s x).bid)).getD (scaleBox s x)))
        = (boxes.map (fun b => (leaves.find? (fun b' => b'.bid == b.bid)).getD b)).map (scaleBox s) := by
      rw [List.map_map]
      apply List.map_congr_left
      intro b _
      exact hlookup b
    rw [List.map_map]
    simp only [Function.comp_def]
    rw [hmap]
    symm
    apply List.map_mergeSort
    intro a _ b _
    rfl

/-- **Scale invariance of the whole layout analysis** (every parameter setting, including a numeric
`boxes_flow`, the implementation's heap order with creation numbers for `id()`): analysing the page
scaled by any `s > 0` gives the scaled result - the same lines, word spaces, text boxes, line order,
group hierarchy, box numbering and child order. -/
theorem analyze_scale (p : LAParams) (B : BB) (hB : B.x0 ≤ B.x1 ∧ B.y0 ≤ B.y1) (items : List Item) :
    analyze HEntry.le p (scaleBB s B) (items.map (scaleItem s)) = scaleResult s (analyze HEntry.le p B items) := by
  have hg := filterMap_glyph_scale s items
  have ho := filterMap_other_scale s items
  by_cases hempty : (items.filterMap Item.glyph?).isEmpty = true
  · have hempty' : ((items.map (scaleItem s)).filterMap Item.glyph?).isEmpty = true := by
      rw [hg]; simpa using hempty
    simp only [analyze, hempty, hempty', if_true, scaleResult, List.map_map, Option.map_none]
    congr 1
    apply List.map_congr_left
    intro it _
    cases it <;> rfl
  · have hE : (items.filterMap Item.glyph?).isEmpty = false := by simpa using hempty
    have hE' : ((items.filterMap Item.glyph?).map (scaleGlyph s)).isEmpty = false := by
      rw [List.isEmpty_map]; exact hE
    have hf1 : ∀ ls : List Line, (ls.map (scaleLine s)).filter Line.isEmpty = (ls.filter Line.isEmpty).map (scaleLine s) := by
      intro ls
      rw [List.filter_map]
      congr 1
      apply List.filter_congr
      intro l _
      simp [Function.comp, isEmpty_scale hs]
    have hf2 : ∀ ls : List Line, (ls.map (scaleLine s)).filter (fun l => !l.isEmpty)
        = (ls.filter (fun l => !l.isEmpty)).map (scaleLine s) := by
      intro ls
      rw [List.filter_map]
      congr 1
      apply List.filter_congr
      intro l _
      simp [Function.comp, isEmpty_scale hs]
    have hne : ∀ l ∈ (groupObjects p (items.filterMap Item.glyph?)).filter (fun l => !l.isEmpty), l.isEmpty = false := by
      intro l hl
      simpa using (List.mem_filter.mp hl).2
    have hspec := groupTextlines_spec p B hB _ hne
    have hwf : ∀ b ∈ groupTextlines p B ((groupObjects p (items.filterMap Item.glyph?)).filter (fun l => !l.isEmpty)), WfBB b.bb := by
      intro b hb
      have := (hspec.2.2 b hb).2.2.2
      simp only [Box.isEmpty, Bool.or_eq_false_iff] at this
      have hpos := bb_pos_of_not_empty this.2
      exact ⟨le_of_lt hpos.1, le_of_lt hpos.2⟩
    unfold analyze
    rw [hg, ho]
    simp only [hE, hE', Bool.false_eq_true, if_false]
    rw [groupObjects_scale hs, hf1, hf2, groupTextlines_scale hs p B hB _ hne, finalBoxes_scale hs p B hB _ hwf]
    simp only [scaleResult, List.map_append, List.map_map]
    congr 1
    congr 1
    apply List.map_congr_left
    intro l _
    simp [Function.comp, analyze_scaleLine, scaleChild]

end

end PdfVerif.Layout
