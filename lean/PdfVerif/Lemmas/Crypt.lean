/- Helper lemmas for C10 (no Mathlib needed). -/
import PdfVerif.Model.Crypt
import PdfVerif.Spec.CryptWriter

namespace PdfVerif.Crypt
open PdfVerif PdfVerif.Gen.Crypt

theorem xor_cancel (c k : UInt8) : (c ^^^ k) ^^^ k = c := by
  rw [UInt8.xor_assoc, UInt8.xor_self, UInt8.xor_zero]

theorem prga_prga (s : Array UInt8) (i j : Nat) (d : Bytes) : prga s i j (prga s i j d) = d := by
  induction d generalizing s i j with
  | nil => simp [prga]
  | cons c cs ih => simp only [prga, xor_cancel, ih]

theorem prga_length (s : Array UInt8) (i j : Nat) (d : Bytes) : (prga s i j d).length = d.length := by
  induction d generalizing s i j with
  | nil => simp [prga]
  | cons c cs ih => simp only [prga, List.length_cons, ih]

theorem rc4Core_rc4Core (key d : Bytes) : rc4Core key (rc4Core key d) = d := prga_prga _ _ _ _

theorem rc4Core_length (key d : Bytes) : (rc4Core key d).length = d.length := prga_length _ _ _ _

end PdfVerif.Crypt

namespace PdfVerif.Crypt
open PdfVerif PdfVerif.Gen.Crypt PdfVerif.CryptWriter

/-! ### RC4 layers -/

theorem rc4Layers_length (key : Bytes) (is : List Nat) (x : Bytes) :
    (rc4Layers key is x).length = x.length := by
  induction is generalizing x with
  | nil => rfl
  | cons i rest ih => simp only [rc4Layers, List.foldl_cons] at ih ⊢; rw [ih, rc4Core_length]

theorem rc4Layers_reverse (key : Bytes) (is : List Nat) (x : Bytes) :
    rc4Layers key is.reverse (rc4Layers key is x) = x := by
  induction is generalizing x with
  | nil => rfl
  | cons i rest ih =>
    simp only [rc4Layers, List.foldl_cons, List.reverse_cons, List.foldl_append, List.foldl_nil] at ih ⊢
    rw [ih, rc4Core_rc4Core]

theorem xorKey_zero (key : Bytes) : xorKey key 0 = key := by
  simp [xorKey]

theorem owner_layers_eq : OWNER_LAYERS = (List.range 20).reverse := by decide

theorem range20 : List.range 20 = 0 :: List.range' 1 19 := by decide

/-! ### constants of the code = constants of the standard -/

theorem padding_eq : PASSWORD_PADDING = isoPad := by decide

theorem padPassword_eq (pw : Bytes) : padPassword pw = pad32 pw := by
  simp [padPassword, pad32, padding_eq, PASSWORD_LEN]

theorem pad32_length (pw : Bytes) : (pad32 pw).length = 32 := by
  simp [pad32, isoPad]

theorem pad32_pad32 (pw : Bytes) : pad32 (pad32 pw) = pad32 pw := by
  have h := pad32_length pw
  unfold pad32 at h ⊢
  rw [List.take_append_of_le_length (by omega)]
  rw [List.take_of_length_le (by omega)]

theorem leBytes_length (k n : Nat) : (leBytes k n).length = k := by
  induction k generalizing n with
  | zero => rfl
  | succ k ih => simp [leBytes, ih]

/-! ### PKCS#7 -/

theorem unpad_pad (d : Bytes) : unpadAes (pkcs7Pad d) = d := by
  unfold pkcs7Pad
  have hn : 1 ≤ 16 - d.length % 16 ∧ 16 - d.length % 16 ≤ 16 := by omega
  generalize 16 - d.length % 16 = n at hn
  obtain ⟨h1, h16⟩ := hn
  have hb : (UInt8.ofNat n).toNat = n := by
    simp [UInt8.toNat_ofNat']; omega
  have hlast : (d ++ List.replicate n (UInt8.ofNat n)).getLast? = some (UInt8.ofNat n) := by
    cases n with
    | zero => omega
    | succ m => simp [List.replicate_succ', ← List.append_assoc]
  unfold unpadAes UNPAD_MIN UNPAD_MAX
  rw [hlast]
  simp only [hb, List.length_append, List.length_replicate]
  have hdrop : (d ++ List.replicate n (UInt8.ofNat n)).drop (d.length + n - n) = List.replicate n (UInt8.ofNat n) := by
    simp
  have htake : (d ++ List.replicate n (UInt8.ofNat n)).take (d.length + n - n) = d := by
    simp
  rw [hdrop, htake]
  simp; omega

end PdfVerif.Crypt

namespace PdfVerif.Crypt
open PdfVerif PdfVerif.Gen.Crypt PdfVerif.CryptWriter

/-! ### P as four little-endian bytes -/

theorem leBytes4_mod (n : Nat) : leBytes 4 n = leBytes 4 (n % 4294967296) := by
  simp only [leBytes]
  have h1 : n % 256 = n % 4294967296 % 256 := by omega
  have h2 : n / 256 % 256 = n % 4294967296 / 256 % 256 := by omega
  have h3 : n / 256 / 256 % 256 = n % 4294967296 / 256 / 256 % 256 := by omega
  have h4 : n / 256 / 256 / 256 % 256 = n % 4294967296 / 256 / 256 / 256 % 256 := by omega
  rw [h1, h2, h3, h4]

/-- the reader's `struct.pack("<L", uint_value(P, 32) & 0xFFFFFFFF)` is the writer's two's-complement
    P, for every integer P. -/
theorem pBytes_eq (p : Int) : leBytes 4 (uintValue32 p) = pBytes p := by
  unfold pBytes uintValue32
  congr 1
  split <;> omega

theorem uintValue32_lt (p : Int) : uintValue32 p < 4294967296 := by
  unfold uintValue32; split <;> omega

/-! ### the reader's key derivation is Algorithm 2 -/

theorem keyBytes_eq (c : Cfg) (hr : c.r = 2 ∨ c.r = 3 ∨ c.r = 4) : keyBytes c.r c.length = keyLen c := by
  unfold keyBytes keyLen BITS_PER_KEY_BYTE KEY_BYTES_R2
  rcases hr with h | h | h <;> simp [h]

end PdfVerif.Crypt

namespace PdfVerif.Crypt
open PdfVerif PdfVerif.Gen.Crypt PdfVerif.CryptWriter

/-! ### object trees -/

theorem attrsType_encryptKVs (e : Bytes → Bytes) (skip : List (Bytes × Obj) → Bool)
    (kvs : List (Bytes × Obj)) : attrsType (encryptKVs e skip kvs) = attrsType kvs := by
  induction kvs with
  | nil => rfl
  | cons kv rest ih =>
    obtain ⟨k, v⟩ := kv
    cases v with
    | str b => simp [encryptKVs, encryptAll, attrsType, ih]
    | atom a => simp [encryptKVs, encryptAll, attrsType, ih]
    | arr xs => simp [encryptKVs, encryptAll, attrsType, ih]
    | dict d => simp [encryptKVs, encryptAll, attrsType, ih]
    | stream a r =>
      simp only [encryptKVs, encryptAll, attrsType, ih]
      split
      · split
        · rename_i heq
          split at heq <;> cases heq
        · rfl
      · rfl

section roundtrip
set_option linter.unusedSectionVars false
variable (f : Bytes → Bytes) (g : Bool → Bytes → Bytes) (e : Bytes → Bytes)
  (skip : List (Bytes × Obj) → Bool)
  (hfe : ∀ b, f (e b) = b) (he : ∀ b, e b = [] → b = [])
  (hg : ∀ attrs raw, g (attrsType attrs = some atomMetadata) (if skip attrs then raw else e raw) = raw)
include hfe he hg

mutual
theorem decipher_encrypt_obj (o : Obj) : decipherAll f g (encryptAll e skip o) = o := by
  cases o with
  | str b =>
    simp only [encryptAll, decipherAll]
    by_cases hb : (e b).isEmpty
    · have : e b = [] := by simpa using hb
      rw [if_pos hb, this, he b this]
    · rw [if_neg hb, hfe]
  | atom a => rfl
  | arr xs => simp only [encryptAll, decipherAll, decipher_encrypt_list xs]
  | dict kvs => simp only [encryptAll, decipherAll, decipher_encrypt_kvs kvs]
  | stream attrs raw =>
    simp only [encryptAll]
    by_cases hx : attrsType attrs = some atomXRef
    · simp only [hx, if_true, decipherAll]
    · simp only [hx, if_false, decipherAll, attrsType_encryptKVs, decipher_encrypt_kvs attrs, hg]
theorem decipher_encrypt_list (xs : List Obj) : decipherList f g (encryptList e skip xs) = xs := by
  cases xs with
  | nil => rfl
  | cons x xs => simp only [encryptList, decipherList, decipher_encrypt_obj x, decipher_encrypt_list xs]
theorem decipher_encrypt_kvs (kvs : List (Bytes × Obj)) :
    decipherKVs f g (encryptKVs e skip kvs) = kvs := by
  cases kvs with
  | nil => rfl
  | cons kv rest =>
    obtain ⟨k, v⟩ := kv
    simp only [encryptKVs, decipherKVs, decipher_encrypt_obj v, decipher_encrypt_kvs rest]
end
end roundtrip

end PdfVerif.Crypt

namespace PdfVerif.Crypt
open PdfVerif PdfVerif.Gen.Crypt PdfVerif.CryptWriter

/-! ### instrumented traversal -/

section trace
variable (f : Bytes → Bytes) (g : Bool → Bytes → Bytes)

mutual
theorem decipherAllT_spec (o : Obj) :
    decipherAllT f g o = (decipherAll f g o, expectedCalls o) := by
  cases o with
  | str b => by_cases hb : b.isEmpty <;> simp [decipherAllT, decipherAll, expectedCalls, hb]
  | atom a => rfl
  | arr xs => simp only [decipherAllT, decipherAll, expectedCalls, decipherListT_spec xs]
  | dict kvs => simp only [decipherAllT, decipherAll, expectedCalls, decipherKVsT_spec kvs]
  | stream attrs raw =>
    by_cases hx : attrsType attrs = some atomXRef
    · simp only [decipherAllT, decipherAll, expectedCalls, hx, if_true]
    · simp only [decipherAllT, decipherAll, expectedCalls, hx, if_false, decipherKVsT_spec attrs]
theorem decipherListT_spec (xs : List Obj) :
    decipherListT f g xs = (decipherList f g xs, expectedCallsList xs) := by
  cases xs with
  | nil => rfl
  | cons x xs =>
    simp only [decipherListT, decipherList, expectedCallsList, decipherAllT_spec x, decipherListT_spec xs]
theorem decipherKVsT_spec (kvs : List (Bytes × Obj)) :
    decipherKVsT f g kvs = (decipherKVs f g kvs, expectedCallsKVs kvs) := by
  cases kvs with
  | nil => rfl
  | cons kv rest =>
    obtain ⟨k, v⟩ := kv
    simp only [decipherKVsT, decipherKVs, expectedCallsKVs, decipherAllT_spec v, decipherKVsT_spec rest]
end
end trace

end PdfVerif.Crypt

namespace PdfVerif.Crypt
open PdfVerif PdfVerif.Gen.Crypt PdfVerif.CryptWriter

theorem iter_succ' {α : Type} (f : α → α) (n : Nat) (x : α) : iter f (n + 1) x = f (iter f n x) := by
  induction n generalizing x with
  | zero => rfl
  | succ n ih => rw [iter, ih (f x)]; rfl

/-- Length of the file key of Algorithm 2: `min (Length/8) 16` for revisions >= 3 - in particular
    16 bytes for every V4 (AESV2) document, where pdfminer forces Length = 128. -/
theorem alg2Key_length (P : Prims) (hmd5 : ∀ x, (P.md5 x).length = 16) (c : Cfg) (pu o : Bytes)
    (hr : c.r ≥ 3) : (alg2Key P c pu o).length = min (keyLen c) 16 := by
  unfold alg2Key
  simp only [hr, if_true]
  rw [show (50 : Nat) = 49 + 1 from rfl, iter_succ', List.length_take, hmd5]

end PdfVerif.Crypt

namespace PdfVerif.Crypt
open PdfVerif PdfVerif.Gen.Crypt PdfVerif.CryptWriter

/-! ### `_r6_password` is ISO 32000-2 Algorithm 2.B -/

/-- `_bytes_mod_3` (sum of the bytes' residues) is the big-endian integer modulo 3 (256 ≡ 1). -/
theorem bytesMod3_eq (bs : Bytes) :
    bytesMod3 bs = bs.foldl (fun acc b => (acc * 256 + b.toNat) % 3) 0 := by
  unfold bytesMod3
  have gen : ∀ (l : Bytes) (a c : Nat), a % 3 = c % 3 →
      (l.foldl (fun acc b => acc + b.toNat % 3) a) % 3
        = (l.foldl (fun acc b => (acc * 256 + b.toNat) % 3) c) % 3 := by
    intro l
    induction l with
    | nil => intro a c h; simpa using h
    | cons x xs ih =>
      intro a c h
      simp only [List.foldl_cons]
      apply ih
      omega
  have h := gen bs 0 0 rfl
  have hlt : ∀ (l : Bytes) (c : Nat), c < 3 →
      l.foldl (fun acc b => (acc * 256 + b.toNat) % 3) c < 3 := by
    intro l
    induction l with
    | nil => intro c hc; simpa using hc
    | cons x xs ih => intro c hc; simp only [List.foldl_cons]; apply ih; omega
  have := hlt bs 0 (by omega)
  rw [h]; omega

/-- The loop of `_r6_password` - with its regenerated `while` condition `r6_continue` and repeat
    count - is the loop of Algorithm 2.B. -/
theorem r6Loop_eq_alg2B (P : Prims) (pw vec : Bytes) (fuel round last : Nat) (k : Bytes) :
    r6Loop P pw vec fuel round last k = alg2BLoop P pw vec fuel round last k := by
  induction fuel generalizing round last k with
  | zero => rfl
  | succ n ih =>
    unfold r6Loop alg2BLoop
    have hc : r6_continue (round : Int) (last : Int) = true ↔ ¬ (round ≥ 64 ∧ last + 32 ≤ round) := by
      unfold r6_continue
      simp only [decide_eq_true_eq]
      omega
    by_cases h : round ≥ 64 ∧ last + 32 ≤ round
    · have : r6_continue (round : Int) (last : Int) = false := by
        cases hb : r6_continue (round : Int) (last : Int) with
        | false => rfl
        | true => exact absurd h (hc.mp hb)
      simp only [this, Bool.false_eq_true, if_false, h, and_self, if_true]
    · have : r6_continue (round : Int) (last : Int) = true := hc.mpr h
      simp only [this, if_true, h, if_false, bytesMod3_eq, R6_REPEAT, ih]

theorem r6_password_is_alg2B (P : Prims) (pw salt vec : Bytes) (hs : salt.length ≤ 8) :
    passwordHash P 6 pw salt vec = alg2B P pw salt vec := by
  unfold passwordHash alg2B
  simp only [show ¬ ((6 : Int) = 5) by decide, if_false, r6Loop_eq_alg2B]
  rw [List.take_of_length_le hs]

end PdfVerif.Crypt

namespace PdfVerif.Crypt
open PdfVerif PdfVerif.Gen.Crypt PdfVerif.CryptWriter

/-! ### eager strings, lazy payload -/

section flat
variable (f : Bytes → Bytes) (g g' : Bool → Bytes → Bytes)

mutual
theorem decipher_flat (o : Obj) (h : flat o = true) : decipherAll f g o = decipherAll f g' o := by
  cases o with
  | str b => rfl
  | atom a => rfl
  | arr xs => simp only [flat] at h; simp only [decipherAll, decipher_flat_list xs h]
  | dict kvs => simp only [flat] at h; simp only [decipherAll, decipher_flat_kvs kvs h]
  | stream a r => simp [flat] at h
theorem decipher_flat_list (xs : List Obj) (h : flatList xs = true) :
    decipherList f g xs = decipherList f g' xs := by
  cases xs with
  | nil => rfl
  | cons x xs =>
    simp only [flatList, Bool.and_eq_true] at h
    simp only [decipherList, decipher_flat x h.1, decipher_flat_list xs h.2]
theorem decipher_flat_kvs (kvs : List (Bytes × Obj)) (h : flatKVs kvs = true) :
    decipherKVs f g kvs = decipherKVs f g' kvs := by
  cases kvs with
  | nil => rfl
  | cons kv rest =>
    obtain ⟨k, v⟩ := kv
    simp only [flatKVs, Bool.and_eq_true] at h
    simp only [decipherKVs, decipher_flat v h.1, decipher_flat_kvs rest h.2]
end
end flat

theorem attrsType_decipherKVs (f : Bytes → Bytes) (g : Bool → Bytes → Bytes)
    (kvs : List (Bytes × Obj)) : attrsType (decipherKVs f g kvs) = attrsType kvs := by
  induction kvs with
  | nil => rfl
  | cons kv rest ih =>
    obtain ⟨k, v⟩ := kv
    cases v with
    | str b => by_cases hb : b.isEmpty <;> simp [decipherKVs, decipherAll, attrsType, ih, hb]
    | atom a => simp [decipherKVs, decipherAll, attrsType, ih]
    | arr xs => simp [decipherKVs, decipherAll, attrsType, ih]
    | dict d => simp [decipherKVs, decipherAll, attrsType, ih]
    | stream a r =>
      simp only [decipherKVs, decipherAll, attrsType, ih]
      split
      · split
        · rename_i heq
          split at heq <;> cases heq
        · rfl
      · rfl

end PdfVerif.Crypt

namespace PdfVerif.Crypt
open PdfVerif PdfVerif.CryptWriter

mutual
theorem encrypt_flat (e : Bytes → Bytes) (s1 s2 : List (Bytes × Obj) → Bool) (o : Obj) (h : flat o = true) :
    encryptAll e s1 o = encryptAll e s2 o := by
  cases o with
  | str b => rfl
  | atom a => rfl
  | arr xs => simp only [flat] at h; simp only [encryptAll, encrypt_flat_list e s1 s2 xs h]
  | dict kvs => simp only [flat] at h; simp only [encryptAll, encrypt_flat_kvs e s1 s2 kvs h]
  | stream a r => simp [flat] at h
theorem encrypt_flat_list (e : Bytes → Bytes) (s1 s2 : List (Bytes × Obj) → Bool) (xs : List Obj)
    (h : flatList xs = true) : encryptList e s1 xs = encryptList e s2 xs := by
  cases xs with
  | nil => rfl
  | cons x xs =>
    simp only [flatList, Bool.and_eq_true] at h
    simp only [encryptList, encrypt_flat e s1 s2 x h.1, encrypt_flat_list e s1 s2 xs h.2]
theorem encrypt_flat_kvs (e : Bytes → Bytes) (s1 s2 : List (Bytes × Obj) → Bool)
    (kvs : List (Bytes × Obj)) (h : flatKVs kvs = true) : encryptKVs e s1 kvs = encryptKVs e s2 kvs := by
  cases kvs with
  | nil => rfl
  | cons kv rest =>
    obtain ⟨k, v⟩ := kv
    simp only [flatKVs, Bool.and_eq_true] at h
    simp only [encryptKVs, encrypt_flat e s1 s2 v h.1, encrypt_flat_kvs e s1 s2 rest h.2]
end

end PdfVerif.Crypt
