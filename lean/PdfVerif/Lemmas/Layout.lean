/-
Helper lemmas for C08 / C09 (layout analysis).  Property theorems are in `Props/C08.lean`, `Props/C09.lean`.
-/
import PdfVerif.Model.Layout

namespace PdfVerif.Layout
open PdfVerif PdfVerif.Gen.Layout

/-! ## group_objects: conservation -/

theorem glyphs_newLine (v : Bool) (g : Glyph) : (newLine v g).glyphs = [g] := by
  simp [newLine, Line.glyphs, Elem.glyphs]

theorem glyphs_add (wm : Rat) (l : Line) (g : Glyph) : (l.add wm g).glyphs = l.glyphs ++ [g] := by
  unfold Line.add Line.glyphs
  by_cases h : needSpace wm l g <;> simp [h, Elem.glyphs]

/-- what the loop still owes: the glyphs of the open line, or `obj0` alone -/
def pending (obj0 : Glyph) : Option Line → List Glyph
  | some l => l.glyphs
  | none => [obj0]

theorem go_conserve (p : LAParams) (rest : List Glyph) :
    ∀ (obj0 : Glyph) (line : Option Line),
      (go p obj0 line rest).flatMap Line.glyphs = pending obj0 line ++ rest := by
  induction rest with
  | nil =>
    intro obj0 line
    cases line <;> simp [go, pending, glyphs_newLine]
  | cons obj1 rest ih =>
    intro obj0 line
    cases line with
    | some l =>
      simp only [go]
      split
      · rw [ih]; simp [pending, glyphs_add]
      · simp [ih, pending]
    | none =>
      simp only [go]
      split
      · rw [ih]; simp [pending, glyphs_add, glyphs_newLine]
      · split
        · rw [ih]; simp [pending, glyphs_add, glyphs_newLine]
        · simp [ih, pending, glyphs_newLine]

theorem groupObjects_conserve (p : LAParams) (gs : List Glyph) :
    (groupObjects p gs).flatMap Line.glyphs = gs := by
  cases gs with
  | nil => rfl
  | cons g rest => simp [groupObjects, go_conserve, pending]

/-! ## group_objects: line invariants -/

/-- consecutive members are related -/
def Chain (R : Glyph → Glyph → Prop) : List Glyph → Prop
  | [] => True
  | [_] => True
  | a :: b :: r => R a b ∧ Chain R (b :: r)

theorem chain_snoc {R : Glyph → Glyph → Prop} : ∀ (l : List Glyph) (a g : Glyph),
    Chain R l → l.getLast? = some a → R a g → Chain R (l ++ [g])
  | [], _, _, _, h, _ => by simp at h
  | [x], a, g, _, h, r => by
    simp at h; subst h; exact ⟨r, trivial⟩
  | x :: y :: rest, a, g, hc, h, r => by
    refine ⟨hc.1, ?_⟩
    have : (y :: rest).getLast? = some a := by simpa [List.getLast?_cons_cons] using h
    exact chain_snoc (y :: rest) a g hc.2 this r

theorem bbOfList_snoc (l : List BB) (x : BB) (h : l ≠ []) :
    bbOfList (l ++ [x]) = (bbOfList l).union x := by
  cases l with
  | nil => exact absurd rfl h
  | cons b rest => simp [bbOfList, List.foldl_append]

/-- The relation that made two consecutive glyphs share a line of the given class. -/
def aligned (p : LAParams) (vertical : Bool) (a b : Glyph) : Prop :=
  if vertical then valign p a.bb b.bb = true else halign p a.bb b.bb = true

structure LineInv (p : LAParams) (l : Line) : Prop where
  ne : l.glyphs ≠ []
  bb : l.bb = bbOfList (l.glyphs.map (·.bb))
  annos : ∀ c, Elem.anno c ∈ l.elems → c = 32
  uniform : Chain (aligned p l.vertical) l.glyphs
  vert : l.vertical = true → p.detect_vertical = true

theorem lineInv_new (p : LAParams) (v : Bool) (g : Glyph) (hv : v = true → p.detect_vertical = true) :
    LineInv p (newLine v g) := by
  refine ⟨by simp [glyphs_newLine], ?_, ?_, by simp [glyphs_newLine, Chain], hv⟩
  · rw [glyphs_newLine]; simp [newLine, bbOfList]
  · intro c h; simp [newLine] at h

theorem lineInv_add (p : LAParams) (l : Line) (a g : Glyph) (h : LineInv p l)
    (hl : l.glyphs.getLast? = some a) (hr : aligned p l.vertical a g) :
    LineInv p (l.add p.word_margin g) := by
  refine ⟨by simp [glyphs_add], ?_, ?_, ?_, h.vert⟩
  · rw [glyphs_add, List.map_append, List.map_singleton, bbOfList_snoc _ _ (by simpa using h.ne), ← h.bb]
    rfl
  · intro c hc
    unfold Line.add at hc
    simp only [List.mem_append] at hc
    rcases hc with (hc | hc) | hc
    · exact h.annos c hc
    · split at hc <;> simp at hc; exact hc
    · simp at hc
  · rw [glyphs_add]
    exact chain_snoc _ a g h.uniform hl hr

theorem valign_detect {p : LAParams} {a b : BB} (h : valign p a b = true) : p.detect_vertical = true := by
  unfold valign at h
  simp only [Bool.and_eq_true] at h
  exact h.1.1.1

theorem go_inv (p : LAParams) (rest : List Glyph) :
    ∀ (obj0 : Glyph) (line : Option Line),
      (∀ l, line = some l → LineInv p l ∧ l.glyphs.getLast? = some obj0) →
      ∀ l' ∈ go p obj0 line rest, LineInv p l' := by
  induction rest with
  | nil =>
    intro obj0 line hline l' hl'
    cases line with
    | some l =>
      have := (hline l rfl).1
      simp [go] at hl'; subst hl'; exact this
    | none => simp [go] at hl'; subst hl'; exact lineInv_new p false obj0 (by simp)
  | cons obj1 rest ih =>
    intro obj0 line hline l' hl'
    cases line with
    | some l =>
      have hl := hline l rfl
      simp only [go] at hl'
      split at hl'
      · rename_i hc
        refine ih obj1 _ ?_ l' hl'
        intro l2 h2
        cases h2
        refine ⟨lineInv_add p l obj0 obj1 hl.1 hl.2 ?_, by simp [glyphs_add]⟩
        unfold aligned
        cases hv : l.vertical <;> simp [hv] at hc ⊢ <;> exact hc
      · simp only [List.mem_cons] at hl'
        rcases hl' with rfl | hl'
        · exact hl.1
        · exact ih obj1 none (by simp) l' hl'
    | none =>
      simp only [go] at hl'
      split at hl'
      · rename_i hc
        simp only [Bool.and_eq_true, Bool.not_eq_true'] at hc
        refine ih obj1 _ ?_ l' hl'
        intro l2 h2
        cases h2
        have hn := lineInv_new p true obj0 (fun _ => valign_detect hc.1)
        refine ⟨lineInv_add p _ obj0 obj1 hn (by simp [glyphs_newLine]) ?_, by simp [glyphs_add]⟩
        simp [aligned, newLine, hc.1]
      · split at hl'
        · rename_i hc
          simp only [Bool.and_eq_true, Bool.not_eq_true'] at hc
          refine ih obj1 _ ?_ l' hl'
          intro l2 h2
          cases h2
          have hn := lineInv_new p false obj0 (by simp)
          refine ⟨lineInv_add p _ obj0 obj1 hn (by simp [glyphs_newLine]) ?_, by simp [glyphs_add]⟩
          simp [aligned, newLine, hc.1]
        · simp only [List.mem_cons] at hl'
          rcases hl' with rfl | hl'
          · exact lineInv_new p false obj0 (by simp)
          · exact ih obj1 none (by simp) l' hl'

theorem groupObjects_inv (p : LAParams) (gs : List Glyph) : ∀ l ∈ groupObjects p gs, LineInv p l := by
  cases gs with
  | nil => simp [groupObjects]
  | cons g rest => exact go_inv p rest g none (by simp)


/-! ## sorting, boxes, group hierarchy -/

/-! ### sorting -/
theorem sortByKey_perm {α : Type} (key : α → Rat) (l : List α) : (sortByKey key l).Perm l :=
  List.mergeSort_perm _ _

theorem sortByKey_sorted {α : Type} (key : α → Rat) (l : List α) :
    (sortByKey key l).Pairwise (fun a b => key a ≤ key b) := by
  have h := List.pairwise_mergeSort (le := fun a b => decide (key a ≤ key b))
    (by intro a b c h1 h2; simp only [decide_eq_true_eq] at *; exact Rat.le_trans h1 h2)
    (by intro a b; simp only [Bool.or_eq_true, decide_eq_true_eq]; exact Rat.le_total) l
  exact h.imp (by intro a b h; simpa using h)

/-! ### line break -/
theorem glyphs_analyze (l : Line) : l.analyze.glyphs = l.glyphs := by
  simp [Line.analyze, Line.glyphs, Elem.glyphs]

theorem text_analyze (l : Line) : l.analyze.text = l.text ++ [10] := by
  simp [Line.analyze, Line.text, Elem.text]

/-! ### boxes -/
theorem box_analyze_perm (b : Box) : b.analyze.lines.Perm (b.lines.map Line.analyze) := by
  unfold Box.analyze; exact sortByKey_perm _ _

theorem box_analyze_bb (b : Box) : b.analyze.bb = b.bb := rfl
theorem box_analyze_vertical (b : Box) : b.analyze.vertical = b.vertical := rfl
theorem box_analyze_bid (b : Box) : b.analyze.bid = b.bid := rfl

theorem flatMap_perm {α β : Type} {l₁ l₂ : List α} (f : α → List β) (h : l₁.Perm l₂) :
    (l₁.flatMap f).Perm (l₂.flatMap f) := by
  induction h with
  | nil => simp
  | cons x _ ih => simp only [List.flatMap_cons]; exact List.Perm.append_left _ ih
  | swap x y l =>
    simp only [List.flatMap_cons, ← List.append_assoc]
    exact List.Perm.append_right _ List.perm_append_comm
  | trans _ _ ih1 ih2 => exact ih1.trans ih2

theorem box_analyze_glyphs (b : Box) : b.analyze.glyphs.Perm b.glyphs := by
  unfold Box.glyphs
  refine (flatMap_perm _ (box_analyze_perm b)).trans ?_
  rw [List.flatMap_map]
  simp [glyphs_analyze]

/-! ### group hierarchy: analyze, assign -/
def Node.glyphs (n : Node) : List Glyph := n.leaves.flatMap Box.glyphs

theorem node_analyze_leaves (bf : Rat) (n : Node) :
    (n.analyze bf).leaves.Perm (n.leaves.map Box.analyze) := by
  induction n with
  | leaf b => simp [Node.analyze, Node.leaves]
  | grp t bb l r ihl ihr =>
    simp only [Node.analyze]
    split
    · simp only [Node.leaves, List.map_append]
      exact (List.perm_append_comm).trans (List.Perm.append ihl ihr)
    · simp only [Node.leaves, List.map_append]
      exact List.Perm.append ihl ihr

theorem node_analyze_bb (bf : Rat) (n : Node) : (n.analyze bf).bb = n.bb := by
  cases n with
  | leaf b => rfl
  | grp t bb l r => simp only [Node.analyze]; split <;> rfl

theorem node_assign_snd (n : Node) : ∀ k, (n.assign k).2 = k + n.leaves.length := by
  induction n with
  | leaf b => intro k; simp [Node.assign, Node.leaves]
  | grp t bb l r ihl ihr =>
    intro k
    simp only [Node.assign, Node.leaves, List.length_append, ihl, ihr]
    omega

/-- `assign` numbers the leaves `k, k+1, …` in depth-first order … -/
theorem node_assign_index (n : Node) : ∀ k,
    (n.assign k).1.leaves.map (·.index) = (List.range' k n.leaves.length).map Int.ofNat := by
  induction n with
  | leaf b => intro k; simp [Node.assign, Node.leaves]
  | grp t bb l r ihl ihr =>
    intro k
    simp only [Node.assign, Node.leaves, List.map_append, List.length_append, ihl, ihr, node_assign_snd]
    rw [← List.range'_append_1, List.map_append]

/-- … and changes nothing else. -/
theorem node_assign_leaves (n : Node) : ∀ k,
    (n.assign k).1.leaves.map (fun b => { b with index := 0 }) = n.leaves.map (fun b => { b with index := 0 }) := by
  induction n with
  | leaf b => intro k; simp [Node.assign, Node.leaves]
  | grp t bb l r ihl ihr =>
    intro k
    simp only [Node.assign, Node.leaves, List.map_append, ihl, ihr]

theorem enumFrom_index : ∀ (bs : List Box) (k : Nat),
    (enumFrom k bs).map (·.index) = (List.range' k bs.length).map Int.ofNat
  | [], _ => by simp [enumFrom]
  | b :: rest, k => by simp [enumFrom, enumFrom_index rest (k + 1), List.range'_succ]


end PdfVerif.Layout
