/-
The seam between the tokenizer (C14 / C01) and C03's model of the `stream` branch of
`PDFParser.do_keyword` (`Filters.streamRead`): helper lemmas for `Props/C01.C01_stream_seam_partial`.
-/
import PdfVerif.Lemmas.LexCompose
import PdfVerif.Lemmas.FiltersScan
import PdfVerif.Lemmas.StackParser
import PdfVerif.Model.ObjParser
import PdfVerif.Lemmas.Roundtrip

namespace PdfVerif.StreamSeam
open PdfVerif PdfVerif.Lexer PdfVerif.Gen.LexTables PdfVerif.Filters PdfVerif.Gen.Filters PdfVerif.StackParser


theorem kwStream_noeol : ∀ c ∈ kwStream, c ≠ 10 ∧ c ≠ 13 := by decide

/-- `stream` + LF / CRLF + anything: the keyword token at 0, then the rest as a fresh input. -/
theorem lex_stream_line (eol0 R : Bytes) (h : eol0 = [10] ∨ eol0 = [13, 10]) :
    specLex (kwStream ++ eol0 ++ R) = (0, Token.kwd kwStream) :: shiftToks (6 + eol0.length) (specLex R) := by
  have hc : Complete (foldBytes St.init kwStream 0).1.mode = true := by decide +kernel
  have hk : specLex kwStream = [(0, Token.kwd kwStream)] := by decide +kernel
  have hne : eol0 ≠ [] := by rcases h with h | h <;> simp [h]
  have hws : ∀ c ∈ eol0, isSPC c = true := by
    rcases h with h | h <;> subst h <;> decide +kernel
  rw [specLex_append_ws kwStream eol0 R hc hne hws, hk]
  rfl

/-- The tokenizer reports the keyword `stream` at exactly the position behind `pre ++ ws`. -/
theorem lex_to_stream (pre ws eol0 R : Bytes) (hc : Complete (foldBytes St.init pre 0).1.mode = true)
    (hne : ws ≠ []) (hws : ∀ c ∈ ws, isSPC c = true) (h : eol0 = [10] ∨ eol0 = [13, 10]) :
    specLex (pre ++ ws ++ (kwStream ++ eol0 ++ R)) =
      specLex pre ++ (pre.length + ws.length, Token.kwd kwStream) ::
        shiftToks (6 + eol0.length + (pre.length + ws.length)) (specLex R) := by
  rw [specLex_append_ws pre ws _ hc hne hws, lex_stream_line eol0 R h]
  simp [shiftToks, Nat.add_assoc]

/-- C03's `stream_read_exact` (Props/C03.lean), re-derived from its lemmas for use outside C03. -/
theorem read_exact (pre kw eol0 d tail q eol rest : Bytes)
    (hkw : ∀ c ∈ kw, c ≠ 10 ∧ c ≠ 13)
    (heol0 : EolOk eol0 (d ++ (tail ++ ENDSTREAM_MARK ++ q ++ eol ++ rest)))
    (htail : findSub ENDSTREAM_MARK (tail ++ ENDSTREAM_MARK) = some tail.length)
    (hq : ∀ c ∈ q, c ≠ 10 ∧ c ≠ 13) (heol : EolOk eol rest) :
    streamRead false (pre ++ kw ++ eol0 ++ (d ++ (tail ++ ENDSTREAM_MARK ++ q ++ eol ++ rest))) pre.length
        (some (d.length : Int))
      = .ok (d, pre.length + kw.length + eol0.length + d.length + tail.length) := by
  rw [streamRead_core false pre kw eol0 _ _ hkw heol0]
  have ho := objlen_exact d.length
    (pre ++ kw ++ eol0 ++ (d ++ (tail ++ ENDSTREAM_MARK ++ q ++ eol ++ rest))).length
    (pre.length + (kw ++ eol0).length) (by simp; omega)
  simp only [ho, List.take_left' rfl, List.drop_left' rfl, Bool.false_eq_true, if_false]
  rw [scan_delim _ tail q eol rest (by simp; omega) htail hq heol]
  simp [Nat.add_assoc]


/-- Restarted where the stream branch leaves the parser: `endstream endobj` + EOL + anything. -/
theorem lex_after_stream (eol rest : Bytes) (heol : EolOk eol rest) :
    specLex (ENDSTREAM_MARK ++ [32] ++ (kwEndobj ++ eol ++ rest)) =
      (0, Token.kwd ENDSTREAM_MARK) :: (10, Token.kwd kwEndobj) :: shiftToks (6 + eol.length + 10) (specLex rest) := by
  have hc1 : Complete (foldBytes St.init ENDSTREAM_MARK 0).1.mode = true := by decide +kernel
  have hk1 : specLex ENDSTREAM_MARK = [(0, Token.kwd ENDSTREAM_MARK)] := by decide +kernel
  have hc2 : Complete (foldBytes St.init kwEndobj 0).1.mode = true := by decide +kernel
  have hk2 : specLex kwEndobj = [(0, Token.kwd kwEndobj)] := by decide +kernel
  have hne : eol ≠ [] := by
    rcases heol with h | h | ⟨h, _⟩ <;> simp [h]
  have hws : ∀ c ∈ eol, isSPC c = true := by
    rcases heol with h | h | ⟨h, _⟩ <;> subst h <;> decide +kernel
  rw [specLex_append_ws ENDSTREAM_MARK [32] _ hc1 (by simp) (by decide +kernel), hk1,
    specLex_append_ws kwEndobj eol rest hc2 hne hws, hk2]
  have hl : ENDSTREAM_MARK.length = 9 := by decide
  have hl2 : kwEndobj.length = 6 := by decide
  simp [shiftToks, hl, hl2, Nat.add_assoc]

/-! ### the stack parser up to the `stream` keyword -/

/-- PDFParser fed with the keyword `stream` (outside `ObjParser`): an error, whatever the state. -/
theorem feed_stream_err (st : PState) : (feedWith objDialect st (Token.kwd kwStream)).error ≠ none := by
  unfold feedWith
  by_cases h : st.error.isSome = true
  · simp only [h, if_true]; intro h2; simp [h2] at h
  · have e1 : (kwStream == [91]) = false := by decide
    have e2 : (kwStream == [93]) = false := by decide
    have e3 : (kwStream == [60, 60]) = false := by decide
    have e4 : (kwStream == [62, 62]) = false := by decide
    have e5 : (kwStream == [123]) = false := by decide
    have e6 : (kwStream == [125]) = false := by decide
    have e7 : (kwStream == kwXref) = false := by decide
    have e8 : (kwStream == kwStartxref) = false := by decide
    have e9 : (kwStream == kwEndobj) = false := by decide
    have e10 : (kwStream == kwNull) = false := by decide
    have e11 : (kwStream == kwR) = false := by decide
    simp [h, e1, e2, e3, e4, e5, e6, e7, e8, e9, e10, e11, objDialect, doKeywordP]

/-- a token sequence that PDFParser reads without error holds no `stream` keyword -/
theorem no_stream_of_ok : ∀ (a : List Token) (st : PState), (feedAllWith objDialect st a).error = none →
    ∀ t ∈ a, t ≠ Token.kwd kwStream
  | [], _, _ => by simp
  | x :: r, st, h => by
    intro t ht
    rcases List.mem_cons.mp ht with rfl | hr
    · intro hx
      subst hx
      have hmono : ∀ (l : List Token) (s : PState), (feedAllWith objDialect s l).error = none → s.error = none := by
        intro l
        induction l with
        | nil => intro s hs; exact hs
        | cons y l ih => intro s hs; exact (feedWith_obj_mono s y).2 (ih _ hs)
      exact feed_stream_err st (hmono r _ h)
    · exact no_stream_of_ok r (feedWith objDialect st x) h t hr

theorem splitAtStream_append : ∀ (A : List PTok) (P : Nat) (X : List PTok), (∀ t ∈ A, t.2 ≠ Token.kwd kwStream) →
    ObjParser.splitAtStream (A ++ (P, Token.kwd kwStream) :: X) = some (A, P)
  | [], P, X, _ => by simp [ObjParser.splitAtStream]
  | (p, t) :: r, P, X, h => by
    have ht : (t == Token.kwd kwStream) = false := by
      have := h (p, t) (by simp)
      simpa using this
    have ih := splitAtStream_append r P X (fun x hx => h x (by simp [hx]))
    simp [ObjParser.splitAtStream, ht, ih]

/-! ### `objid gen obj <body>` of the spelled family (as `Roundtrip.lex_obj`, without the `endobj`) -/

open PdfVerif.Roundtrip in
/-- the bytes in front of the `stream` keyword: `objid gen obj` and the spelled body, with their separators -/
def headBytes (o : ObjSpelling) : Bytes :=
  (o.ds ++ renderSep o.g1) ++ ((o.gs ++ renderSep o.g2) ++ ((kwObj ++ renderSep o.g3) ++ bytesOf o.body))

open PdfVerif.Roundtrip in
theorem lex_head (o : ObjSpelling) (h : o.wf) :
    LexUnit (headBytes o)
      ([Token.int (intValue [] o.ds), Token.int (intValue [] o.gs), Token.kwd kwObj] ++ ser (valueOf o.body)) false := by
  obtain ⟨⟨hne1, hd1, hl1⟩, hg1, hg1n, ⟨hne2, hd2, hl2⟩, hg2, hg2n, hg3, hg3d, hwf, hreg, _⟩ := h
  have u1 : LexUnit (o.ds ++ renderSep o.g1) [Token.int (intValue [] o.ds)] false := by
    have := tok_sep (unit_int [] o.ds (Or.inl rfl) hne1 hd1 hl1) o.g1 hg1
    rw [isEmpty_false hg1n] at this
    simpa using this
  have u2 : LexUnit (o.gs ++ renderSep o.g2) [Token.int (intValue [] o.gs)] false := by
    have := tok_sep (unit_int [] o.gs (Or.inl rfl) hne2 hd2 hl2) o.g2 hg2
    rw [isEmpty_false hg2n] at this
    simpa using this
  have u3 : LexUnit (kwObj ++ renderSep o.g3) [Token.kwd kwObj] o.g3.isEmpty := by
    have := unit_keyword 111 [98, 106] alpha_obj.1 alpha_obj.2
    have u : LexUnit kwObj [Token.kwd kwObj] true := by simpa [kwTrue, kwFalse, kwObj] using this
    exact tok_sep u o.g3 hg3
  have u4 : LexUnit (bytesOf o.body) (ser (valueOf o.body)) false := by
    have := lex_tree o.body hwf
    rwa [hreg] at this
  have u34 := LexUnit.append u3 u4 (fun hreg3 d _ => by
    have hge : o.g3 = [] := by
      cases hg : o.g3 with
      | nil => rfl
      | cons _ _ => rw [hg] at hreg3; simp at hreg3
    exact hg3d hge [d])
  have := LexUnit.append_free u1 (LexUnit.append_free u2 u34)
  simpa [headBytes, List.append_assoc] using this

open PdfVerif.Roundtrip in
/-- token values of the head read alone (the flushed newline ends its last token) -/
theorem head_tokens (o : ObjSpelling) (h : o.wf) :
    tokVals (specLex (headBytes o)) =
      Token.int (intValue [] o.ds) :: Token.int (intValue [] o.gs) :: Token.kwd kwObj :: ser (valueOf o.body) := by
  obtain ⟨st', hHO, hh⟩ := lex_head o h St.init 10 [] 0 (Or.inl rfl) (fun hx => by cases hx)
  have hsp : isNONSPC 10 = false := by decide +kernel
  have hnl : (foldBytes st' [10] (0 + (headBytes o).length)).2 = [] := by
    rcases hHO with hm | hw
    · simp [foldBytes, stepByte, stepN, searchClass, hsp, hm]
    · rw [fold_from_wclose st' 10 [] _ hw (by decide)]
      simp [foldBytes, stepByte, stepN, searchClass, hsp]
  unfold specLex
  rw [hh, hnl]
  simp [tokVals]

/-! ### mode-tracking companion of `LexUnit` (round 6d)

`LexUnit s ts false` speaks about token VALUES for every continuation.  That is enough to pin the scanner
state after `s` down to a `Complete` one: from a scanner that is inside a string, a hexadecimal string or a
comment (or behind a lone `<`, or dead) the continuations ` 1 ` and ` 2 ` yield the SAME tokens (none but
what the first blank yields), whereas the unit says they yield `ts ++ [1]` and `ts ++ [2]`. -/

/-- the scanners that swallow ` 1 ` / ` 2 ` without a token -/
def Swallow : Mode → Bool
  | .comment | .string | .hexstring | .dead => true
  | _ => false

theorem blank_swallow (s : St) (p : Nat) (h : Complete s.mode = false) : Swallow (stepByte s 32 p).1.mode = true := by
  have f1 : isEOL 32 = false := by decide +kernel
  have f2 : isEND_STRING 32 = false := by decide +kernel
  have f3 : isEND_HEX_STRING 32 = false := by decide +kernel
  have f4 : isOCT_STRING 32 = false := by decide +kernel
  have f5 : escLookup 32 = none := by decide +kernel
  obtain ⟨m, cur, tp, par, oct, hex⟩ := s
  cases m <;> simp [Complete] at h
  · simp [stepByte, stepN, searchClass, accum, f1, Swallow]
  · simp [stepByte, stepN, searchClass, accum, f2, Swallow]
  · by_cases ho : oct = []
    · subst ho; simp [stepByte, stepN, searchClass, atHit, parseString1Hit, f4, f5, Swallow]
    · cases hp : pyIntBase 8 oct <;>
        simp [stepByte, stepN, searchClass, atHit, parseString1Hit, raise, f4, f5, ho, hp, accum, f2, Swallow]
  · simp [stepByte, stepN, searchClass, atHit, parseString2Hit, accum, f2, Swallow]
  · simp [stepByte, stepN, searchClass, atHit, parseWopenHit, accum, f3, Swallow]
  · simp [stepByte, stepN, searchClass, accum, f3, Swallow]
  · simp [stepByte, stepN, searchClass, atHit, Swallow]

theorem swallow_step (s : St) (c : UInt8) (p : Nat) (h : Swallow s.mode = true)
    (f1 : isEOL c = false) (f2 : isEND_STRING c = false) (f3 : isEND_HEX_STRING c = false) :
    (stepByte s c p).2 = [] ∧ Swallow (stepByte s c p).1.mode = true := by
  obtain ⟨m, cur, tp, par, oct, hex⟩ := s
  cases m <;> simp [Swallow] at h
  · simp [stepByte, stepN, searchClass, accum, f1, Swallow]
  · simp [stepByte, stepN, searchClass, accum, f2, Swallow]
  · simp [stepByte, stepN, searchClass, accum, f3, Swallow]
  · simp [stepByte, stepN, searchClass, atHit, Swallow]

theorem swallow_nl (s : St) (p : Nat) (h : Swallow s.mode = true) : (stepByte s 10 p).2 = [] := by
  have e4 : isEOL 10 = true := by decide +kernel
  have g4 : isEND_STRING 10 = false := by decide +kernel
  have x4 : isEND_HEX_STRING 10 = false := by decide +kernel
  have n1 : isNONSPC 10 = false := by decide +kernel
  obtain ⟨m, cur, tp, par, oct, hex⟩ := s
  cases m <;> simp [Swallow] at h
  · simp [stepByte, stepN, searchClass, accum, atHit, parseCommentHit, e4, n1]
  · simp [stepByte, stepN, searchClass, accum, g4]
  · simp [stepByte, stepN, searchClass, accum, x4]
  · simp [stepByte, stepN, searchClass, atHit]

theorem swallow_digit (s : St) (c : UInt8) (p : Nat) (h : Swallow s.mode = true) (hc : c = 49 ∨ c = 50) :
    (foldBytes s [c, 32, 10] p).2 = [] := by
  have a1 := swallow_step s c p h (by rcases hc with rfl | rfl <;> decide +kernel)
    (by rcases hc with rfl | rfl <;> decide +kernel) (by rcases hc with rfl | rfl <;> decide +kernel)
  have a2 := swallow_step (stepByte s c p).1 32 (p + 1) a1.2 (by decide +kernel) (by decide +kernel) (by decide +kernel)
  have a3 := swallow_nl (stepByte (stepByte s c p).1 32 (p + 1)).1 (p + 1 + 1) a2.2
  simp [foldBytes, a1.1, a2.1, a3]

/-- from a hand-over state the rest of the input is read as from a fresh lexer (token values) -/
theorem ho_fresh' (st : St) (h : HO st) (d : UInt8) (tl : Bytes) (p : Nat) (hd : d ≠ 62) :
    tokVals (foldBytes st (d :: tl) p).2 = tokVals (foldBytes St.init (d :: tl) 0).2 := by
  have key : ∀ s : St, s.mode = .main → tokVals (foldBytes s (d :: tl) p).2 = tokVals (foldBytes St.init (d :: tl) 0).2 := by
    intro s hs
    have := (foldBytes_rel p (d :: tl) s St.init 0 (rel_main p s St.init hs rfl)).1
    rw [Nat.zero_add] at this
    rw [this]
    simp [tokVals, shiftToks]
  rcases h with hm | hw
  · exact key st hm
  · rw [fold_from_wclose st d tl p hw hd]
    exact key _ rfl

/-- The companion: a piece that is a `LexUnit` not ending in a regular run leaves the scanner, from the
    initial state, in a `Complete` state. -/
theorem unit_complete (s : Bytes) (ts : List Token) (hu : LexUnit s ts false) :
    Complete (foldBytes St.init s 0).1.mode = true := by
  cases hC : Complete (foldBytes St.init s 0).1.mode with
  | true => rfl
  | false =>
    exfalso
    have side : ∀ c : UInt8, c = 49 ∨ c = 50 →
        ts ++ tokVals (foldBytes St.init [32, c, 32, 10] 0).2 =
          tokVals (foldBytes St.init s 0).2 ++ tokVals (stepByte (foldBytes St.init s 0).1 32 (0 + s.length)).2 := by
      intro c hc
      obtain ⟨st', hHO, hh⟩ := hu St.init 32 [c, 32, 10] 0 (Or.inl rfl) (fun hx => by cases hx)
      rw [ho_fresh' st' hHO 32 [c, 32, 10] _ (by decide)] at hh
      rw [← hh, foldBytes_append]
      have hsw := blank_swallow (foldBytes St.init s 0).1 (0 + s.length) hC
      have hz := swallow_digit (stepByte (foldBytes St.init s 0).1 32 (0 + s.length)).1 c (0 + s.length + 1) hsw hc
      have hcons : (foldBytes (foldBytes St.init s 0).1 (32 :: [c, 32, 10]) (0 + s.length)).2 =
          (stepByte (foldBytes St.init s 0).1 32 (0 + s.length)).2 ++
            (foldBytes (stepByte (foldBytes St.init s 0).1 32 (0 + s.length)).1 [c, 32, 10] (0 + s.length + 1)).2 := rfl
      rw [hcons, hz]
      simp [tokVals]
    have h1 := side 49 (Or.inl rfl)
    have h2 := side 50 (Or.inr rfl)
    have v1 : tokVals (foldBytes St.init [32, 49, 32, 10] 0).2 = [Token.int 1] := by decide +kernel
    have v2 : tokVals (foldBytes St.init [32, 50, 32, 10] 0).2 = [Token.int 2] := by decide +kernel
    rw [v1] at h1
    rw [v2] at h2
    have := h1.trans h2.symm
    have := List.append_cancel_left this
    simp at this

end PdfVerif.StreamSeam
