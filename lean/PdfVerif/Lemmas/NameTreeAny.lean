/-
C17 — `lookup_name` on ARBITRARY name trees (unsorted, duplicate keys, wrong or missing Limits,
nodes with both Names and Kids): what is returned is always associated with the key in the tree,
and inside one `Names` array the LAST duplicate wins.
-/
import PdfVerif.Lemmas.NameTree

namespace PdfVerif.Lemmas.NameTreeAny
open PdfVerif PdfVerif.NameTree PdfVerif.Spec.NameTree PdfVerif.Lemmas.NameTree

theorem dictGet_mem : ∀ (ns : List (Key × Int)) (key : Key) (v : Int), dictGet ns key = some v → (key, v) ∈ ns
  | [], _, _, h => by simp [dictGet] at h
  | p :: tl, key, v, h => by
    rw [dictGet_cons] at h
    cases ht : dictGet tl key with
    | some w =>
      rw [ht] at h
      simp only [Option.some.injEq] at h
      subst h
      exact List.mem_cons_of_mem _ (dictGet_mem tl key w ht)
    | none =>
      rw [ht] at h
      simp only at h
      split at h
      · rename_i hk
        simp only [Option.some.injEq] at h
        have : p.1 = key := by simpa using hk
        have hp : p = (key, v) := by cases p; simp_all
        rw [hp]; exact List.mem_cons_self
      · simp at h

/-- `dict(...)` semantics: the last pair with the key wins = the first in the reversed array. -/
theorem dictGet_eq_assoc_reverse : ∀ (ns : List (Key × Int)) (key : Key), dictGet ns key = assoc ns.reverse key
  | [], _ => rfl
  | p :: tl, key => by
    rw [dictGet_cons, dictGet_eq_assoc_reverse tl key]
    simp only [assoc, List.reverse_cons, List.find?_append]
    cases hf : List.find? (fun q => q.1 == key) tl.reverse with
    | some q => simp
    | none =>
      by_cases hk : (p.1 == key) = true
      · simp [hk]
      · simp [hk]

mutual
theorem lookup_sound (key : Key) : ∀ (t : Node) (v : Int), lookup key t = .found v → (key, v) ∈ flatten t
  | .node limits names kids, v, h => by
    unfold lookup at h
    split at h
    · cases h
    · cases names with
      | some ns =>
        simp only at h
        cases hd : dictGet ns key with
        | some w =>
          rw [hd] at h
          simp only [Res.found.injEq] at h
          subst h
          simp only [flatten, Option.getD_some, List.mem_append]
          exact Or.inl (dictGet_mem ns key w hd)
        | none => rw [hd] at h; cases h
      | none =>
        simp only at h
        simp only [flatten, Option.getD_none, List.nil_append]
        exact lookupKids_sound key kids v h
theorem lookupKids_sound (key : Key) : ∀ (cs : List Node) (v : Int), lookupKids key cs = .found v →
    (key, v) ∈ flattenKids cs
  | [], v, h => by simp [lookupKids] at h
  | c :: cs, v, h => by
    unfold lookupKids at h
    simp only [flattenKids, List.mem_append]
    cases hc : lookup key c with
    | found w =>
      rw [hc] at h
      simp only at h
      split at h
      · simp only [Res.found.injEq] at h
        subst h
        exact Or.inl (lookup_sound key c w hc)
      · exact Or.inr (lookupKids_sound key cs v h)
    | none_ => rw [hc] at h; exact Or.inr (lookupKids_sound key cs v h)
    | keyError => rw [hc] at h; cases h
end

end PdfVerif.Lemmas.NameTreeAny
