/-
C16: the path-construction operators keep `curpath = enc path` (implementation's flat segment
list = encoding of the specification's sub-path records).
-/
import PdfVerif.Lemmas.Paths

set_option linter.constructorNameAsVariable false

namespace PdfVerif.PathLemmas
open PdfVerif PdfVerif.Paths PdfVerif.PathSpec PdfVerif.Gen.PathsGen

theorem enc_append (p q : List SubPath) : enc (p ++ q) = enc p ++ enc q := by simp [enc]

/-- appending an explicitly begun sub-path keeps the invariant -/
theorem okFrom_snoc_explicit (stp : Point) (ph : Bool) (p : List SubPath) (sp : SubPath)
    (himp : sp.implicit = false) (h : okFrom stp ph p) : okFrom stp ph (p ++ [sp]) := by
  induction p generalizing stp ph with
  | nil => exact ⟨by simp [himp], trivial⟩
  | cons a rest ih => exact ⟨h.1, ih _ _ h.2⟩

theorem enc1_ne_nil (sp : SubPath) (h : sp.implicit = true → sp.segs ≠ []) : enc1 sp ≠ [] := by
  obtain ⟨s, segs, c, imp⟩ := sp
  cases imp
  · simp [enc1]
  · have := h rfl
    cases segs with
    | nil => exact absurd rfl this
    | cons g gs => simp [enc1, tail1]

theorem enc_ne_nil (stp : Point) (ph : Bool) (p : List SubPath) (hne : p ≠ []) (h : okFrom stp ph p) :
    enc p ≠ [] := by
  cases p with
  | nil => exact absurd rfl hne
  | cons a rest =>
    have := enc1_ne_nil a (fun hi => (h.1 hi).2.2)
    simp [enc, this]

/-- `addSeg` appends the segment to the flat list (after `h`: as an implicit sub-path). -/
theorem enc_addSeg (s : Seg) (stp : Point) (ph : Bool) (p : List SubPath) (hne : p ≠ [])
    (h : okFrom stp ph p) :
    enc (addSeg s p) = enc p ++ [s.toPSeg] ∧ okFrom stp ph (addSeg s p) := by
  induction p generalizing stp ph with
  | nil => exact absurd rfl hne
  | cons a rest ih =>
    cases rest with
    | nil =>
      obtain ⟨st, segs, c, imp⟩ := a
      cases c
      · refine ⟨?_, ?_⟩
        · simp [addSeg, enc, enc1, tail1]
        · refine ⟨?_, trivial⟩
          intro hi
          have := h.1 hi
          exact ⟨this.1, this.2.1, by simp⟩
      · refine ⟨?_, ?_⟩
        · simp [addSeg, enc, enc1, tail1]
        · exact ⟨h.1, ⟨fun _ => ⟨rfl, rfl, by simp⟩, trivial⟩⟩
    | cons b rest' =>
      have := ih a.start a.closed (by simp) h.2
      refine ⟨?_, ?_⟩
      · have e : addSeg s (a :: b :: rest') = a :: addSeg s (b :: rest') := rfl
        rw [e]
        simp only [enc, List.flatMap_cons] at this ⊢
        rw [this.1]
        simp
      · exact ⟨h.1, this.2⟩

theorem tail1_getLast_closed (sp : SubPath) (hc : sp.closed = true) : (enc1 sp).getLast? = some PSeg.h := by
  simp [enc1, tail1, hc, List.getLast?_append]

theorem enc1_getLast_open (sp : SubPath) (hc : sp.closed = false) : (enc1 sp).getLast? ≠ some PSeg.h := by
  obtain ⟨s, segs, c, imp⟩ := sp
  simp only at hc
  subst hc
  rcases eq_nil_or_snoc segs with rfl | ⟨L, g, rfl⟩
  · cases imp <;> simp [enc1, tail1]
  · have : (enc1 { start := s, segs := L ++ [g], closed := false, implicit := imp }).getLast? = some g.toPSeg := by
      simp [enc1, tail1, List.getLast?_append]
    rw [this]
    cases g <;> simp [Seg.toPSeg]

/-- `closeLast` is `do_h` (which does nothing when the flat list already ends with `h`). -/
theorem enc_closeLast (stp : Point) (ph : Bool) (p : List SubPath) (hne : p ≠ []) (h : okFrom stp ph p) :
    enc (closeLast p) = (if (enc p).getLast? = some PSeg.h then enc p else enc p ++ [PSeg.h]) ∧
      okFrom stp ph (closeLast p) := by
  induction p generalizing stp ph with
  | nil => exact absurd rfl hne
  | cons a rest ih =>
    cases rest with
    | nil =>
      have he : enc [a] = enc1 a := by simp [enc]
      cases hc : a.closed
      · have hl := enc1_getLast_open a hc
        refine ⟨?_, ?_⟩
        · rw [he]; simp only [hl, if_false]
          obtain ⟨s, segs, c, imp⟩ := a
          simp only at hc; subst hc
          simp [closeLast, enc, enc1, tail1]
        · exact ⟨h.1, trivial⟩
      · have hl := tail1_getLast_closed a hc
        refine ⟨?_, ?_⟩
        · rw [he]; simp only [hl, if_true]
          obtain ⟨s, segs, c, imp⟩ := a
          simp only at hc; subst hc
          simp [closeLast, enc]
        · exact ⟨h.1, trivial⟩
    | cons b rest' =>
      have := ih a.start a.closed (by simp) h.2
      have hn : enc (b :: rest') ≠ [] := enc_ne_nil _ _ _ (by simp) h.2
      have e : closeLast (a :: b :: rest') = a :: closeLast (b :: rest') := rfl
      have e2 : ∀ q, enc (a :: q) = enc1 a ++ enc q := by intro q; simp [enc]
      refine ⟨?_, ?_⟩
      · have hx : ∃ x, (enc (b :: rest')).getLast? = some x := by
          cases hq : (enc (b :: rest')).getLast? with
          | none => exact absurd (List.getLast?_eq_none_iff.1 hq) hn
          | some x => exact ⟨x, rfl⟩
        obtain ⟨x, hx⟩ := hx
        have hl : (enc1 a ++ enc (b :: rest')).getLast? = (enc (b :: rest')).getLast? := by
          rw [List.getLast?_append, hx]; rfl
        rw [e, e2, e2, this.1, hl]
        split <;> simp
      · exact ⟨h.1, this.2⟩

end PdfVerif.PathLemmas
