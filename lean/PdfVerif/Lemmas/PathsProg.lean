/-
C16: the path-construction operators keep `curpath = enc path` (implementation's flat segment
list = encoding of the specification's sub-path records).
-/
import PdfVerif.Lemmas.Paths

set_option linter.constructorNameAsVariable false

namespace PdfVerif.PathLemmas
open PdfVerif PdfVerif.Paths PdfVerif.PathSpec PdfVerif.Gen.PathsGen

theorem enc_append (p q : List SubPath) : enc (p ++ q) = enc p ++ enc q := by simp [enc]

/-- appending an explicitly begun sub-path keeps the invariant -/
theorem okFrom_snoc_explicit (stp : Point) (ph : Bool) (p : List SubPath) (sp : SubPath)
    (himp : sp.implicit = false) (h : okFrom stp ph p) : okFrom stp ph (p ++ [sp]) := by
  induction p generalizing stp ph with
  | nil => exact ⟨by simp [himp], trivial⟩
  | cons a rest ih => exact ⟨h.1, ih _ _ h.2⟩

theorem enc1_ne_nil (sp : SubPath) (h : sp.implicit = true → sp.segs ≠ []) : enc1 sp ≠ [] := by
  obtain ⟨s, segs, c, imp⟩ := sp
  cases imp
  · simp [enc1]
  · have := h rfl
    cases segs with
    | nil => exact absurd rfl this
    | cons g gs => simp [enc1, tail1]

theorem enc_ne_nil (stp : Point) (ph : Bool) (p : List SubPath) (hne : p ≠ []) (h : okFrom stp ph p) :
    enc p ≠ [] := by
  cases p with
  | nil => exact absurd rfl hne
  | cons a rest =>
    have := enc1_ne_nil a (fun hi => (h.1 hi).2.2)
    simp [enc, this]

/-- `addSeg` appends the segment to the flat list (after `h`: as an implicit sub-path). -/
theorem enc_addSeg (s : Seg) (stp : Point) (ph : Bool) (p : List SubPath) (hne : p ≠ [])
    (h : okFrom stp ph p) :
    enc (addSeg s p) = enc p ++ [s.toPSeg] ∧ okFrom stp ph (addSeg s p) := by
  induction p generalizing stp ph with
  | nil => exact absurd rfl hne
  | cons a rest ih =>
    cases rest with
    | nil =>
      obtain ⟨st, segs, c, imp⟩ := a
      cases c
      · refine ⟨?_, ?_⟩
        · simp [addSeg, enc, enc1, tail1]
        · refine ⟨?_, trivial⟩
          intro hi
          have := h.1 hi
          exact ⟨this.1, this.2.1, by simp⟩
      · refine ⟨?_, ?_⟩
        · simp [addSeg, enc, enc1, tail1]
        · exact ⟨h.1, ⟨fun _ => ⟨rfl, rfl, by simp⟩, trivial⟩⟩
    | cons b rest' =>
      have := ih a.start a.closed (by simp) h.2
      refine ⟨?_, ?_⟩
      · have e : addSeg s (a :: b :: rest') = a :: addSeg s (b :: rest') := rfl
        rw [e]
        simp only [enc, List.flatMap_cons] at this ⊢
        rw [this.1]
        simp
      · exact ⟨h.1, this.2⟩

theorem tail1_getLast_closed (sp : SubPath) (hc : sp.closed = true) : (enc1 sp).getLast? = some PSeg.h := by
  simp [enc1, tail1, hc, List.getLast?_append]

theorem enc1_getLast_open (sp : SubPath) (hc : sp.closed = false) : (enc1 sp).getLast? ≠ some PSeg.h := by
  obtain ⟨s, segs, c, imp⟩ := sp
  simp only at hc
  subst hc
  rcases eq_nil_or_snoc segs with rfl | ⟨L, g, rfl⟩
  · cases imp <;> simp [enc1, tail1]
  · have : (enc1 { start := s, segs := L ++ [g], closed := false, implicit := imp }).getLast? = some g.toPSeg := by
      simp [enc1, tail1, List.getLast?_append]
    rw [this]
    cases g <;> simp [Seg.toPSeg]

/-- `closeLast` is `do_h` (which does nothing when the flat list already ends with `h`). -/
theorem enc_closeLast (stp : Point) (ph : Bool) (p : List SubPath) (hne : p ≠ []) (h : okFrom stp ph p) :
    enc (closeLast p) = (if (enc p).getLast? = some PSeg.h then enc p else enc p ++ [PSeg.h]) ∧
      okFrom stp ph (closeLast p) := by
  induction p generalizing stp ph with
  | nil => exact absurd rfl hne
  | cons a rest ih =>
    cases rest with
    | nil =>
      have he : enc [a] = enc1 a := by simp [enc]
      cases hc : a.closed
      · have hl := enc1_getLast_open a hc
        refine ⟨?_, ?_⟩
        · rw [he]; simp only [hl, if_false]
          obtain ⟨s, segs, c, imp⟩ := a
          simp only at hc; subst hc
          simp [closeLast, enc, enc1, tail1]
        · exact ⟨h.1, trivial⟩
      · have hl := tail1_getLast_closed a hc
        refine ⟨?_, ?_⟩
        · rw [he]; simp only [hl, if_true]
          obtain ⟨s, segs, c, imp⟩ := a
          simp only at hc; subst hc
          simp [closeLast, enc]
        · exact ⟨h.1, trivial⟩
    | cons b rest' =>
      have := ih a.start a.closed (by simp) h.2
      have hn : enc (b :: rest') ≠ [] := enc_ne_nil _ _ _ (by simp) h.2
      have e : closeLast (a :: b :: rest') = a :: closeLast (b :: rest') := rfl
      have e2 : ∀ q, enc (a :: q) = enc1 a ++ enc q := by intro q; simp [enc]
      refine ⟨?_, ?_⟩
      · have hx : ∃ x, (enc (b :: rest')).getLast? = some x := by
          cases hq : (enc (b :: rest')).getLast? with
          | none => exact absurd (List.getLast?_eq_none_iff.1 hq) hn
          | some x => exact ⟨x, rfl⟩
        obtain ⟨x, hx⟩ := hx
        have hl : (enc1 a ++ enc (b :: rest')).getLast? = (enc (b :: rest')).getLast? := by
          rw [List.getLast?_append, hx]; rfl
        rw [e, e2, e2, this.1, hl]
        split <;> simp
      · exact ⟨h.1, this.2⟩

end PdfVerif.PathLemmas

namespace PdfVerif.PathLemmas
open PdfVerif PdfVerif.Paths PdfVerif.PathSpec PdfVerif.Gen.PathsGen

/-! ### executing the tokens of one structured operation -/

theorem exec_operands (os : List Operand) (rest : List Tok) (st : IState) :
    execute (os.map Tok.operand ++ rest) st = execute rest { st with argstack := st.argstack ++ os } := by
  induction os generalizing st with
  | nil => simp
  | cons o os ih =>
    simp only [List.map_cons, List.cons_append, execute, step]
    rw [ih]
    simp [List.append_assoc]

theorem exec_single (k : OpK) (st : IState) : execute [Tok.op k] st = doOp k st := by
  simp only [execute, step]
  cases doOp k st <;> rfl

theorem pop_append (n : Nat) (st : IState) (args : List Operand) (hn : n ≠ 0) (hl : args.length = n) :
    pop n { st with argstack := st.argstack ++ args } = (args, st) := by
  unfold pop
  simp only [hn, if_false, List.length_append, hl, Nat.add_sub_cancel]
  rw [List.drop_left, List.take_left]

theorem doOp_call (k : OpK) (n : Nat) (hk : opNargs.lookup k.name = some n) (hn : n ≠ 0) (st : IState)
    (args : List Operand) (hl : args.length = n) :
    doOp k { st with argstack := st.argstack ++ args } = call k args st := by
  unfold doOp
  rw [hk]
  simp only [hn, if_false, pop_append n st args hn hl, hl, if_true]

theorem doOp_call0 (k : OpK) (hk : opNargs.lookup k.name = some 0) (st : IState) :
    doOp k st = call k [] st := by
  unfold doOp
  rw [hk]
  simp

end PdfVerif.PathLemmas

namespace PdfVerif.PathLemmas
open PdfVerif PdfVerif.Paths PdfVerif.PathSpec PdfVerif.Gen.PathsGen

/-! ### simulation between the interpreter model and the specification -/

/-- The device colour spaces have their ISO component counts in the page's space map. -/
def devOk (cs : SpaceMap) : Prop :=
  cs.lookup "DeviceGray" = some ⟨"DeviceGray", 1⟩ ∧ cs.lookup "DeviceRGB" = some ⟨"DeviceRGB", 3⟩ ∧
  cs.lookup "DeviceCMYK" = some ⟨"DeviceCMYK", 4⟩

structure Sim (cs : SpaceMap) (st : IState) (ss : SState) : Prop where
  ctm : st.ctm = ss.g.ctm
  gs : st.gs = gsOf ss.g
  gstack : st.gstack = ss.stack.map (fun g => (g.ctm, gsOf g))
  path : st.curpath = enc ss.path
  ok : okFrom (0, 0) false ss.path
  out : (st.out.filter hasSeg).map eraseRectPts = ss.out.map eraseRectPts
  csmap : st.csmap = cs

/-- Operations the proved simulation covers: no `sc`-family operator while a Pattern colour space is
current (open finding `pattern-colour-not-recorded`). -/
def supOk (ss : SState) : SOp → Bool
  | .sc _ stroking xs pat =>
    !(if stroking then ss.g.sspace else ss.g.nspace).pattern
  | _ => true

def supported (cs : SpaceMap) : List SOp → SState → Bool
  | [], _ => true
  | op :: rest, st => supOk st op && supported cs rest (stepS cs st op)

theorem nums_eq (xs : List Rat) : nums xs = (xs.map Operand.num).map Tok.operand := by
  simp [nums, List.map_map, Function.comp_def]

theorem allNums_nums (xs : List Rat) : allNums (xs.map Operand.num) = some xs := by
  induction xs with
  | nil => rfl
  | cons x rest ih =>
    simp only [allNums, List.map_cons, List.mapM_cons, safeFloat] at ih ⊢
    rw [ih]; rfl

theorem doH_curpath (st : IState) :
    (doH st).curpath = (if st.curpath.getLast? = some PSeg.h then st.curpath else st.curpath ++ [PSeg.h]) := by
  unfold doH
  split
  · rename_i h; simp [h]
  · rename_i h
    have : ¬ st.curpath.getLast? = some PSeg.h := fun hh => h hh
    simp [this, pushSeg]

theorem doH_other (st : IState) :
    (doH st).ctm = st.ctm ∧ (doH st).gs = st.gs ∧ (doH st).gstack = st.gstack ∧ (doH st).out = st.out ∧
      (doH st).csmap = st.csmap ∧ (doH st).argstack = st.argstack := by
  unfold doH
  split <;> simp [pushSeg]

end PdfVerif.PathLemmas

namespace PdfVerif.PathLemmas
open PdfVerif PdfVerif.Paths PdfVerif.PathSpec PdfVerif.Gen.PathsGen

/-! ### one structured operation: tokens executed by the interpreter model vs. `stepS` -/

theorem sim_m (cs : SpaceMap) (st : IState) (ss : SState) (hs : Sim cs st ss) (p : Point) :
    ∃ st', execute (tokens (.m p)) st = .ok st' ∧ Sim cs st' (stepS cs ss (.m p)) := by
  refine ⟨pushSeg st (.m p), ?_, ?_⟩
  · simp only [tokens, nums_eq, exec_operands, exec_single]
    rw [doOp_call .m 2 (by decide) (by decide) st _ (by simp)]
    simp [call, doSeg_m]
  · exact { ctm := hs.ctm, gs := hs.gs, gstack := hs.gstack,
            path := by simp [pushSeg, stepS, enc_append, hs.path, enc, enc1, tail1],
            ok := okFrom_snoc_explicit _ _ _ _ rfl hs.ok, out := hs.out, csmap := hs.csmap }

theorem sim_seg (cs : SpaceMap) (st : IState) (ss : SState) (hs : Sim cs st ss) (s : Seg)
    (hok : opOk cs ss (.seg s) = true) :
    ∃ st', execute (tokens (.seg s)) st = .ok st' ∧ Sim cs st' (stepS cs ss (.seg s)) := by
  have hne : ss.path ≠ [] := by
    intro h; simp [opOk, h] at hok
  have ha := enc_addSeg s (0, 0) false ss.path hne hs.ok
  refine ⟨pushSeg st s.toPSeg, ?_, ?_⟩
  · cases s with
    | l p =>
      simp only [tokens, segToks, nums_eq, exec_operands, exec_single]
      rw [doOp_call .l 2 (by decide) (by decide) st _ (by simp)]
      simp [call, doSeg_l, Seg.toPSeg]
    | c a b d =>
      simp only [tokens, segToks, nums_eq, exec_operands, exec_single]
      rw [doOp_call .c 6 (by decide) (by decide) st _ (by simp)]
      simp [call, doSeg_c, Seg.toPSeg]
    | v a b =>
      simp only [tokens, segToks, nums_eq, exec_operands, exec_single]
      rw [doOp_call .v 4 (by decide) (by decide) st _ (by simp)]
      simp [call, doSeg_v, Seg.toPSeg]
    | y a b =>
      simp only [tokens, segToks, nums_eq, exec_operands, exec_single]
      rw [doOp_call .y 4 (by decide) (by decide) st _ (by simp)]
      simp [call, doSeg_y, Seg.toPSeg]
  · exact { ctm := hs.ctm, gs := hs.gs, gstack := hs.gstack,
            path := by simp [pushSeg, stepS, ha.1, hs.path],
            ok := ha.2, out := hs.out, csmap := hs.csmap }

theorem sim_h (cs : SpaceMap) (st : IState) (ss : SState) (hs : Sim cs st ss)
    (hok : opOk cs ss .h = true) :
    ∃ st', execute (tokens .h) st = .ok st' ∧ Sim cs st' (stepS cs ss .h) := by
  have hne : ss.path ≠ [] := by
    intro h; simp [opOk, h] at hok
  have ha := enc_closeLast (0, 0) false ss.path hne hs.ok
  have ho := doH_other st
  refine ⟨doH st, ?_, ?_⟩
  · simp only [tokens, exec_single]
    rw [doOp_call0 .h (by decide)]
    rfl
  · exact { ctm := by rw [ho.1]; exact hs.ctm, gs := by rw [ho.2.1]; exact hs.gs,
            gstack := by rw [ho.2.2.1]; exact hs.gstack,
            path := by rw [doH_curpath, hs.path]; exact ha.1.symm,
            ok := ha.2, out := by rw [ho.2.2.2.1]; exact hs.out,
            csmap := by rw [ho.2.2.2.2.1]; exact hs.csmap }

theorem sim_re (cs : SpaceMap) (st : IState) (ss : SState) (hs : Sim cs st ss) (x y w h : Rat) :
    ∃ st', execute (tokens (.re x y w h)) st = .ok st' ∧ Sim cs st' (stepS cs ss (.re x y w h)) := by
  refine ⟨{ st with curpath := st.curpath ++
      [PSeg.m (x, y), PSeg.l (x + w, y), PSeg.l (x + w, y + h), PSeg.l (x, y + h), PSeg.h] }, ?_, ?_⟩
  · simp only [tokens, nums_eq, exec_operands, exec_single]
    rw [doOp_call .re 4 (by decide) (by decide) st _ (by simp)]
    simp [call, allNums, safeFloat, rePath, segOfRaw]
  · exact { ctm := hs.ctm, gs := hs.gs, gstack := hs.gstack,
            path := by simp [stepS, enc_append, hs.path, enc, enc1, tail1, Seg.toPSeg],
            ok := okFrom_snoc_explicit _ _ _ _ rfl hs.ok, out := hs.out, csmap := hs.csmap }

theorem sim_n (cs : SpaceMap) (st : IState) (ss : SState) (hs : Sim cs st ss) :
    ∃ st', execute (tokens .n) st = .ok st' ∧ Sim cs st' (stepS cs ss .n) := by
  refine ⟨{ st with curpath := [] }, ?_, ?_⟩
  · simp only [tokens, exec_single]
    rw [doOp_call0 .n (by decide)]
    rfl
  · exact { ctm := hs.ctm, gs := hs.gs, gstack := hs.gstack, path := rfl, ok := trivial, out := hs.out,
            csmap := hs.csmap }

theorem sim_clip (cs : SpaceMap) (st : IState) (ss : SState) (hs : Sim cs st ss) (star : Bool) :
    ∃ st', execute (tokens (.clip star)) st = .ok st' ∧ Sim cs st' (stepS cs ss (.clip star)) := by
  refine ⟨st, ?_, hs⟩
  cases star
  · simp only [tokens, exec_single, Bool.false_eq_true, if_false]; rw [doOp_call0 .W (by decide)]; rfl
  · simp only [tokens, exec_single, if_true]; rw [doOp_call0 .Wstar (by decide)]; rfl

theorem sim_paint (cs : SpaceMap) (st : IState) (ss : SState) (hs : Sim cs st ss) (k : OpK)
    (close stroke fill evenodd : Bool) (hok : opOk cs ss (.paint k close stroke fill evenodd) = true) :
    ∃ st', execute (tokens (.paint k close stroke fill evenodd)) st = .ok st' ∧
      Sim cs st' (stepS cs ss (.paint k close stroke fill evenodd)) := by
  simp only [opOk, paintOk, Bool.and_eq_true, beq_iff_eq, Bool.or_eq_true, Bool.not_eq_true'] at hok
  obtain ⟨hflags, hclose⟩ := hok
  have hk0 : opNargs.lookup k.name = some 0 ∧ paintOps.lookup k.name = some (close, stroke, fill, evenodd) := by
    cases k <;> simp [paintFlags] at hflags <;> (obtain ⟨rfl, rfl, rfl, rfl⟩ := hflags; exact ⟨by decide, by decide⟩)
  let st1 := if close then doH st else st
  let path1 := if close then closeLast ss.path else ss.path
  have hp1 : st1.curpath = enc path1 ∧ okFrom (0, 0) false path1 := by
    cases close
    · exact ⟨hs.path, hs.ok⟩
    · have hne : ss.path ≠ [] := by
        intro h; simp [h] at hclose
      have ha := enc_closeLast (0, 0) false ss.path hne hs.ok
      exact ⟨by simp only [st1, path1, if_true]; rw [doH_curpath, hs.path]; exact ha.1.symm, ha.2⟩
  have ho : st1.ctm = st.ctm ∧ st1.gs = st.gs ∧ st1.gstack = st.gstack ∧ st1.out = st.out ∧ st1.csmap = st.csmap := by
    cases close
    · exact ⟨rfl, rfl, rfl, rfl, rfl⟩
    · have := doH_other st
      exact ⟨this.1, this.2.1, this.2.2.1, this.2.2.2.1, this.2.2.2.2.1⟩
  refine ⟨doPaint st1 stroke fill evenodd, ?_, ?_⟩
  · simp only [tokens, exec_single]
    rw [doOp_call0 k hk0.1]
    cases k <;> simp [paintFlags] at hflags <;> simp [call, hk0.2, st1]
  · have hpp := paintPath_enc ss.g stroke fill evenodd path1 (0, 0) hp1.2
    exact { ctm := by simp only [doPaint]; rw [ho.1]; exact hs.ctm,
            gs := by simp only [doPaint]; rw [ho.2.1]; exact hs.gs,
            gstack := by simp only [doPaint]; rw [ho.2.2.1]; exact hs.gstack,
            path := rfl, ok := trivial,
            out := by
              simp only [doPaint, stepS, List.filter_append, List.map_append]
              rw [ho.2.2.2.1, hs.out, ho.1, ho.2.1, hp1.1, hs.ctm, hs.gs]
              congr 1
            csmap := by simp only [doPaint]; rw [ho.2.2.2.2]; exact hs.csmap }

theorem sim_w (cs : SpaceMap) (st : IState) (ss : SState) (hs : Sim cs st ss) (r : Rat) :
    ∃ st', execute (tokens (.w r)) st = .ok st' ∧ Sim cs st' (stepS cs ss (.w r)) := by
  refine ⟨{ st with gs := { st.gs with linewidth := r } }, ?_, ?_⟩
  · simp only [tokens, nums_eq, exec_operands, exec_single]
    rw [doOp_call .w 1 (by decide) (by decide) st _ (by simp)]
    simp [call, safeFloat]
  · exact { ctm := hs.ctm, gs := by simp [stepS, hs.gs, gsOf], gstack := hs.gstack, path := hs.path, ok := hs.ok,
            out := hs.out, csmap := hs.csmap }

theorem sim_d (cs : SpaceMap) (st : IState) (ss : SState) (hs : Sim cs st ss) (arr : List Rat) (ph : Rat) :
    ∃ st', execute (tokens (.d arr ph)) st = .ok st' ∧ Sim cs st' (stepS cs ss (.d arr ph)) := by
  refine ⟨{ st with gs := { st.gs with dash := some (.arr arr, .num ph) } }, ?_, ?_⟩
  · have : tokens (.d arr ph) = [Operand.arr arr, Operand.num ph].map Tok.operand ++ [.op .d] := rfl
    rw [this, exec_operands, exec_single]
    rw [doOp_call .d 2 (by decide) (by decide) st _ (by simp)]
    simp [call]
  · exact { ctm := hs.ctm, gs := by simp [stepS, hs.gs, gsOf], gstack := hs.gstack, path := hs.path, ok := hs.ok,
            out := hs.out, csmap := hs.csmap }

theorem sim_noop1 (cs : SpaceMap) (st : IState) (ss : SState) (hs : Sim cs st ss) (k : OpK) (o : Operand)
    (hok : opOk cs ss (.noop1 k o) = true) :
    ∃ st', execute (tokens (.noop1 k o)) st = .ok st' ∧ Sim cs st' (stepS cs ss (.noop1 k o)) := by
  refine ⟨st, ?_, hs⟩
  have : tokens (.noop1 k o) = [o].map Tok.operand ++ [.op k] := rfl
  rw [this, exec_operands, exec_single]
  cases k <;> first
    | (rw [doOp_call _ 1 (by decide) (by decide) st _ (by simp)]; rfl)
    | (cases o <;> simp [opOk, noopOk] at hok)

theorem sim_q (cs : SpaceMap) (st : IState) (ss : SState) (hs : Sim cs st ss) :
    ∃ st', execute (tokens .q) st = .ok st' ∧ Sim cs st' (stepS cs ss .q) := by
  refine ⟨{ st with gstack := (st.ctm, st.gs) :: st.gstack }, ?_, ?_⟩
  · simp only [tokens, exec_single]
    rw [doOp_call0 .q (by decide)]; rfl
  · exact { ctm := hs.ctm, gs := hs.gs, gstack := by simp [stepS, hs.gstack, hs.ctm, hs.gs], path := hs.path,
            ok := hs.ok, out := hs.out, csmap := hs.csmap }

theorem sim_Q (cs : SpaceMap) (st : IState) (ss : SState) (hs : Sim cs st ss) :
    ∃ st', execute (tokens .Q) st = .ok st' ∧ Sim cs st' (stepS cs ss .Q) := by
  have hg := hs.gstack
  cases hst : ss.stack with
  | nil =>
    rw [hst] at hg
    refine ⟨st, ?_, ?_⟩
    · simp only [tokens, exec_single]
      rw [doOp_call0 .Q (by decide)]
      simp [call, hg]
    · simp only [stepS, hst]; exact hs
  | cons g rest =>
    rw [hst] at hg
    refine ⟨{ st with ctm := g.ctm, gs := gsOf g, gstack := rest.map (fun g => (g.ctm, gsOf g)) }, ?_, ?_⟩
    · simp only [tokens, exec_single]
      rw [doOp_call0 .Q (by decide)]
      simp [call, hg]
    · simp only [stepS, hst]
      exact { ctm := rfl, gs := rfl, gstack := rfl, path := hs.path, ok := hs.ok, out := hs.out, csmap := hs.csmap }

theorem sim_cm (cs : SpaceMap) (st : IState) (ss : SState) (hs : Sim cs st ss) (a b c d e f : Rat) :
    ∃ st', execute (tokens (.cm a b c d e f)) st = .ok st' ∧ Sim cs st' (stepS cs ss (.cm a b c d e f)) := by
  refine ⟨{ st with ctm := mult_matrix (a, b, c, d, e, f) st.ctm }, ?_, ?_⟩
  · simp only [tokens, nums_eq, exec_operands, exec_single]
    rw [doOp_call .cm 6 (by decide) (by decide) st _ (by simp)]
    simp [call, allNums, safeFloat, cmPremultiplies]
  · exact { ctm := by simp [stepS, hs.ctm], gs := hs.gs, gstack := hs.gstack, path := hs.path, ok := hs.ok,
            out := hs.out, csmap := hs.csmap }

theorem gsOf_setCol (g : SGState) (b : Bool) (xs : List Rat) :
    gsOf (setCol g b (.comps xs)) =
      (if b then { gsOf g with scolor := some (.comps xs) } else { gsOf g with ncolor := some (.comps xs) }) := by
  cases b <;> simp [setCol, gsOf]

theorem gsOf_setSp (g : SGState) (b : Bool) (sp : Space) :
    gsOf (setSp g b sp) = (if b then { gsOf g with scs := sp.n } else { gsOf g with ncs := sp.n }) := by
  cases b <;> simp [setSp, gsOf]

theorem sim_device (cs : SpaceMap) (st : IState) (ss : SState) (hs : Sim cs st ss) (b : Bool) (xs : List Rat)
    (name : String) (sp : Space) (hcs : cs.lookup name = some sp) :
    Sim cs (doDeviceColour st b name (xs.map Operand.num))
      { ss with g := setSp (setCol ss.g b (.comps xs)) b sp } := by
  have hl : csLookup st.csmap name = some sp := by rw [hs.csmap]; exact hcs
  have e : doDeviceColour st b name (xs.map Operand.num) = setSpace (setColour st b xs) b sp.n := by
    simp [doDeviceColour, allNums_nums, hl]
  rw [e]
  cases b
  · exact { ctm := hs.ctm, gs := by simp [setSpace, setColour, setSp, setCol, gsOf, hs.gs],
            gstack := hs.gstack, path := hs.path, ok := hs.ok, out := hs.out, csmap := hs.csmap }
  · exact { ctm := hs.ctm, gs := by simp [setSpace, setColour, setSp, setCol, gsOf, hs.gs],
            gstack := hs.gstack, path := hs.path, ok := hs.ok, out := hs.out, csmap := hs.csmap }

theorem sim_gray (cs : SpaceMap) (hdev : devOk cs) (st : IState) (ss : SState) (hs : Sim cs st ss) (b : Bool)
    (x : Rat) : ∃ st', execute (tokens (.gray b x)) st = .ok st' ∧ Sim cs st' (stepS cs ss (.gray b x)) := by
  refine ⟨doDeviceColour st b "DeviceGray" ([x].map Operand.num), ?_, sim_device cs st ss hs b [x] _ _ hdev.1⟩
  simp only [tokens, nums_eq, exec_operands, exec_single]
  cases b
  · simp only [Bool.false_eq_true, if_false]
    rw [doOp_call .g 1 (by decide) (by decide) st _ (by simp)]; rfl
  · simp only [if_true]
    rw [doOp_call .G 1 (by decide) (by decide) st _ (by simp)]; rfl

theorem sim_rgb (cs : SpaceMap) (hdev : devOk cs) (st : IState) (ss : SState) (hs : Sim cs st ss) (b : Bool)
    (r g bl : Rat) : ∃ st', execute (tokens (.rgb b r g bl)) st = .ok st' ∧ Sim cs st' (stepS cs ss (.rgb b r g bl)) := by
  refine ⟨doDeviceColour st b "DeviceRGB" ([r, g, bl].map Operand.num), ?_,
    sim_device cs st ss hs b [r, g, bl] _ _ hdev.2.1⟩
  simp only [tokens, nums_eq, exec_operands, exec_single]
  cases b
  · simp only [Bool.false_eq_true, if_false]
    rw [doOp_call .rg 3 (by decide) (by decide) st _ (by simp)]; rfl
  · simp only [if_true]
    rw [doOp_call .RG 3 (by decide) (by decide) st _ (by simp)]; rfl

theorem sim_cmyk (cs : SpaceMap) (hdev : devOk cs) (st : IState) (ss : SState) (hs : Sim cs st ss) (b : Bool)
    (c m y k : Rat) : ∃ st', execute (tokens (.cmyk b c m y k)) st = .ok st' ∧ Sim cs st' (stepS cs ss (.cmyk b c m y k)) := by
  refine ⟨doDeviceColour st b "DeviceCMYK" ([c, m, y, k].map Operand.num), ?_,
    sim_device cs st ss hs b [c, m, y, k] _ _ hdev.2.2⟩
  simp only [tokens, nums_eq, exec_operands, exec_single]
  cases b
  · simp only [Bool.false_eq_true, if_false]
    rw [doOp_call .k 4 (by decide) (by decide) st _ (by simp)]; rfl
  · simp only [if_true]
    rw [doOp_call .K 4 (by decide) (by decide) st _ (by simp)]; rfl

/-- The implementation's `_initial_color` is ISO 32000-1 Table 74. -/
theorem initialColour_eq_iso (sp : Space) : initialColour sp = isoInit sp := by
  obtain ⟨name, n⟩ := sp
  unfold initialColour isoInit
  simp only [initNoneFamily, initMaxComponents, initCmykFamily, initCmyk, initOneFamilies]
  by_cases h0 : n = 0 ∨ n > 32
  · have h1 : n < 1 ∨ n > 32 := by omega
    rcases h1 with h1 | h1 <;> simp [h0, h1]
  · have h1 : ¬ n < 1 := by omega
    have h2 : ¬ n > 32 := by omega
    have h3 : ¬ n = 0 := by omega
    have h4 : ¬ 32 < n := by omega
    by_cases hp : name = "Pattern"
    · subst hp; simp [h0]
    · by_cases hc : name = "DeviceCMYK"
      · subst hc; simp [h0, h1, h2, h3, h4]
      · by_cases hs : name = "Separation"
        · subst hs; simp [h0, h1, h2, h3, h4]
        · by_cases hd : name = "DeviceN"
          · subst hd; simp [h0, h1, h2, h3, h4]
          · simp only [h0, if_false, beq_iff_eq, hp, hc, hs, hd, Bool.false_or, h1, h2, decide_false,
              Bool.or_self, Bool.false_eq_true, or_self, List.contains_cons, List.contains_nil]
            split <;> simp_all

theorem sim_cs (cs : SpaceMap) (st : IState) (ss : SState) (hs : Sim cs st ss) (b : Bool) (name : String)
    (hok : opOk cs ss (.cs b name) = true) :
    ∃ st', execute (tokens (.cs b name)) st = .ok st' ∧ Sim cs st' (stepS cs ss (.cs b name)) := by
  simp only [opOk] at hok
  obtain ⟨sp, hsp⟩ := Option.isSome_iff_exists.1 hok
  have hl : csLookup st.csmap name = some sp := by rw [hs.csmap]; exact hsp
  refine ⟨doSelectSpace st b sp, ?_, ?_⟩
  · have : tokens (.cs b name) = [Operand.name name].map Tok.operand ++ [.op (if b then .CS else .cs)] := rfl
    rw [this, exec_operands, exec_single]
    cases b
    · simp only [Bool.false_eq_true, if_false]
      rw [doOp_call .cs 1 (by decide) (by decide) st _ (by simp)]
      simp [call, hl]
    · simp only [if_true]
      rw [doOp_call .CS 1 (by decide) (by decide) st _ (by simp)]
      simp [call, hl]
  · simp only [stepS, hsp]
    cases b
    · exact { ctm := hs.ctm,
              gs := by simp [doSelectSpace, setColourOpt, setSpace, setSp, gsOf, hs.gs, initialColour_eq_iso],
              gstack := hs.gstack, path := hs.path, ok := hs.ok, out := hs.out, csmap := hs.csmap }
    · exact { ctm := hs.ctm,
              gs := by simp [doSelectSpace, setColourOpt, setSpace, setSp, gsOf, hs.gs, initialColour_eq_iso],
              gstack := hs.gstack, path := hs.path, ok := hs.ok, out := hs.out, csmap := hs.csmap }

theorem setColourN_ok (st : IState) (b : Bool) (xs : List Rat)
    (hn : (if b then st.gs.scs else st.gs.ncs) = xs.length) (hlen : xs.length ≠ 0) :
    doSetColourN { st with argstack := st.argstack ++ xs.map Operand.num } b = .ok (setColour st b xs) := by
  have hl : (xs.map Operand.num).length = xs.length := by simp
  unfold doSetColourN
  simp only [hn]
  by_cases h1 : xs.length = 1
  · have hp := pop_append 1 st (xs.map Operand.num) (by decide) (by rw [hl, h1])
    match xs, h1 with
    | [x], _ =>
      simp only [List.length_singleton, if_true]
      rw [hp]
      simp [safeFloat]
  · have hp := pop_append xs.length st (xs.map Operand.num) hlen hl
    simp only [h1, hlen, if_false]
    rw [hp]
    simp [allNums_nums]

theorem setColourN_ignored (st : IState) (b : Bool) (args : List Operand)
    (hn : (if b then st.gs.scs else st.gs.ncs) = args.length)
    (hlen : args.length ≠ 0) (hbad : allNums args = none) :
    doSetColourN { st with argstack := st.argstack ++ args } b = .ok st := by
  unfold doSetColourN
  simp only [hn]
  by_cases h1 : args.length = 1
  · have hp := pop_append 1 st args (by decide) h1
    match args, h1, hbad with
    | [x], _, hbad =>
      simp only [List.length_singleton, if_true]
      rw [hp]
      have : safeFloat x = none := by
        cases hx : safeFloat x with
        | none => rfl
        | some r => simp [allNums, hx] at hbad
      simp [this]
  · have hp := pop_append args.length st args hlen rfl
    simp only [h1, hlen, if_false]
    rw [hp]
    simp [hbad]

theorem scKey (k : OpK) (b : Bool) (hk : [OpK.sc, .scn, .SC, .SCN].contains k = true)
    (hb : b = (k == .SC || k == .SCN)) (st : IState) :
    doOp k st = doSetColourN st b := by
  have hk4 : k = .sc ∨ k = .scn ∨ k = .SC ∨ k = .SCN := by
    have := List.contains_iff_mem.1 hk
    simpa using this
  rcases hk4 with rfl | rfl | rfl | rfl
  · have hb' : b = false := by rw [hb]; decide
    subst hb'; rw [doOp_call0 .sc (by decide)]; rfl
  · have hb' : b = false := by rw [hb]; decide
    subst hb'; rw [doOp_call0 .scn (by decide)]; rfl
  · have hb' : b = true := by rw [hb]; decide
    subst hb'; rw [doOp_call0 .SC (by decide)]; rfl
  · have hb' : b = true := by rw [hb]; decide
    subst hb'; rw [doOp_call0 .SCN (by decide)]; rfl

theorem allNums_snoc_name (xs : List Rat) (p : String) :
    allNums (xs.map Operand.num ++ [Operand.name p]) = none := by
  induction xs with
  | nil => rfl
  | cons x rest ih =>
    simp only [allNums, List.map_cons, List.cons_append, List.mapM_cons, safeFloat] at ih ⊢
    rw [ih]; rfl

theorem sim_sc (cs : SpaceMap) (st : IState) (ss : SState) (hs : Sim cs st ss) (k : OpK) (b : Bool)
    (xs : List Rat) (pat : Option String) (hok : opOk cs ss (.sc k b xs pat) = true)
    (hsup : supOk ss (.sc k b xs pat) = true) :
    ∃ st', execute (tokens (.sc k b xs pat)) st = .ok st' ∧ Sim cs st' (stepS cs ss (.sc k b xs pat)) := by
  have hnp : (if b then ss.g.sspace else ss.g.nspace).pattern = false := by
    simpa [supOk] using hsup
  simp only [opOk, Bool.and_eq_true, beq_iff_eq] at hok
  obtain ⟨⟨hk, hb⟩, hsc⟩ := hok
  have hgs : (if b then st.gs.scs else st.gs.ncs) = (if b then ss.g.sspace else ss.g.nspace).n := by
    rw [hs.gs]; cases b <;> simp [gsOf]
  cases pat with
  | none =>
    have hx : (if b then ss.g.sspace else ss.g.nspace).n ≠ 0 ∧
        xs.length = (if b then ss.g.sspace else ss.g.nspace).n := by
      simpa [scOk, hnp] using hsc
    refine ⟨setColour st b xs, ?_, ?_⟩
    · have : tokens (.sc k b xs none) = (xs.map Operand.num).map Tok.operand ++ [.op k] := by
        simp [tokens, nums_eq]
      rw [this, exec_operands, exec_single, scKey k b hk hb]
      exact setColourN_ok st b xs (by rw [hgs, hx.2]) (by rw [hx.2]; exact hx.1)
    · simp only [stepS]
      cases b
      · exact { ctm := hs.ctm, gs := by simp [setColour, setCol, gsOf, hs.gs],
                gstack := hs.gstack, path := hs.path, ok := hs.ok, out := hs.out, csmap := hs.csmap }
      · exact { ctm := hs.ctm, gs := by simp [setColour, setCol, gsOf, hs.gs],
                gstack := hs.gstack, path := hs.path, ok := hs.ok, out := hs.out, csmap := hs.csmap }
  | some p =>
    -- a name operand outside a Pattern space: the operator is ignored by both
    have hx : (if b then ss.g.sspace else ss.g.nspace).n ≠ 0 ∧
        xs.length + 1 = (if b then ss.g.sspace else ss.g.nspace).n := by
      simpa [scOk, hnp] using hsc
    have hargs : (xs.map Operand.num ++ [Operand.name p]).length = xs.length + 1 := by simp
    refine ⟨st, ?_, ?_⟩
    · have : tokens (.sc k b xs (some p)) =
          (xs.map Operand.num ++ [Operand.name p]).map Tok.operand ++ [.op k] := by
        simp [tokens, nums_eq]
      rw [this, exec_operands, exec_single, scKey k b hk hb]
      exact setColourN_ignored st b _ (by rw [hgs, hargs, hx.2]) (by rw [hargs]; omega) (allNums_snoc_name xs p)
    · simp only [stepS, hnp, Bool.false_eq_true, if_false]
      exact hs

theorem sim_bad (cs : SpaceMap) (st : IState) (ss : SState) (hs : Sim cs st ss) (k : OpK) (args : List Operand)
    (hok : opOk cs ss (.bad k args) = true) (hsup : supOk ss (.bad k args) = true) :
    ∃ st', execute (tokens (.bad k args)) st = .ok st' ∧ Sim cs st' (stepS cs ss (.bad k args)) := by
  refine ⟨st, ?_, hs⟩
  simp only [opOk, badOk, Bool.and_eq_true, Option.isNone_iff_eq_none, beq_iff_eq] at hok
  obtain ⟨hbad, har⟩ := hok
  have hbad' : allNums args = none := hbad
  have : tokens (.bad k args) = args.map Tok.operand ++ [.op k] := rfl
  rw [this, exec_operands, exec_single]
  have fixed : ∀ (n : Nat), n ≠ 0 → opNargs.lookup k.name = some n → args.length = n →
      call k args st = .ok st →
      doOp k { st with argstack := st.argstack ++ args } = .ok st := by
    intro n hn hl hlen hc
    rw [doOp_call k n hl hn st args hlen]
    exact hc
  have hw : ∀ x, args = [x] → safeFloat x = none := by
    intro x hx
    subst hx
    cases h : safeFloat x with
    | none => rfl
    | some r => simp [allNums, h] at hbad'
  have family : ∀ (b : Bool), [OpK.sc, .scn, .SC, .SCN].contains k = true → b = (k == .SC || k == .SCN) →
      (if b then ss.g.sspace else ss.g.nspace).pattern = false →
      args.length = (if b then ss.g.sspace else ss.g.nspace).n →
      doOp k { st with argstack := st.argstack ++ args } = .ok st := by
    intro b hk hb hnp hn
    have hlen : args.length ≠ 0 := by
      intro h0
      have : args = [] := List.length_eq_zero_iff.1 h0
      subst this
      simp [allNums] at hbad'
    have hgs : (if b then st.gs.scs else st.gs.ncs) = args.length := by
      rw [hs.gs, hn]; cases b <;> simp [gsOf]
    rw [scKey k b hk hb]
    exact setColourN_ignored st b args hgs hlen hbad'
  cases k
  case w =>
    simp only [numArity] at har
    have h1 : args.length = 1 := (Option.some.inj har).symm
    obtain ⟨x, rfl⟩ := List.length_eq_one_iff.1 h1
    exact fixed 1 (by decide) (by decide) rfl (by simp [call, hw x rfl])
  all_goals
    simp only [numArity] at har
    first
      | (cases har; done)
      | (exact fixed _ (by decide) (by decide) (Option.some.inj har).symm (by
            simp [call, doDeviceColour, doSeg, hbad']))
      | (split at har
         · cases har
         · rename_i hnp
           first
             | exact family false (by decide) (by decide) (by simpa using hnp) (Option.some.inj har).symm
             | exact family true (by decide) (by decide) (by simpa using hnp) (Option.some.inj har).symm)

theorem sim_step (cs : SpaceMap) (hdev : devOk cs) (st : IState) (ss : SState) (hs : Sim cs st ss) (op : SOp)
    (hok : opOk cs ss op = true) (hsup : supOk ss op = true) :
    ∃ st', execute (tokens op) st = .ok st' ∧ Sim cs st' (stepS cs ss op) := by
  cases op with
  | m p => exact sim_m cs st ss hs p
  | seg s => exact sim_seg cs st ss hs s hok
  | h => exact sim_h cs st ss hs hok
  | re x y w h => exact sim_re cs st ss hs x y w h
  | paint k c s f e => exact sim_paint cs st ss hs k c s f e hok
  | n => exact sim_n cs st ss hs
  | clip star => exact sim_clip cs st ss hs star
  | w r => exact sim_w cs st ss hs r
  | d arr ph => exact sim_d cs st ss hs arr ph
  | noop1 k o => exact sim_noop1 cs st ss hs k o hok
  | gray b x => exact sim_gray cs hdev st ss hs b x
  | rgb b r g bl => exact sim_rgb cs hdev st ss hs b r g bl
  | cmyk b c m y k => exact sim_cmyk cs hdev st ss hs b c m y k
  | cs b name => exact sim_cs cs st ss hs b name hok
  | sc k b xs pat => exact sim_sc cs st ss hs k b xs pat hok hsup
  | q => exact sim_q cs st ss hs
  | Q => exact sim_Q cs st ss hs
  | cm a b c d e f => exact sim_cm cs st ss hs a b c d e f
  | bad k args => exact sim_bad cs st ss hs k args hok hsup

theorem execute_append (a b : List Tok) (st st' : IState) (h : execute a st = .ok st') :
    execute (a ++ b) st = execute b st' := by
  induction a generalizing st with
  | nil => simp only [execute] at h; cases h; rfl
  | cons t rest ih =>
    simp only [List.cons_append, execute] at h ⊢
    cases hstep : step st t with
    | error e => rw [hstep] at h; cases h
    | ok s1 => rw [hstep] at h; simp only at h ⊢; exact ih _ h

/-- Whole programs: the interpreter model run on the token stream of a well-formed, supported program
stays in simulation with the specification run on the structured program. -/
theorem sim_run (cs : SpaceMap) (hdev : devOk cs) (prog : List SOp) (st : IState) (ss : SState)
    (hs : Sim cs st ss) (hwf : wf cs prog ss = true) (hsup : supported cs prog ss = true) :
    ∃ st', execute (progTokens prog) st = .ok st' ∧ Sim cs st' (runS cs prog ss) := by
  induction prog generalizing st ss with
  | nil => exact ⟨st, rfl, hs⟩
  | cons op rest ih =>
    simp only [wf, Bool.and_eq_true] at hwf
    simp only [supported, Bool.and_eq_true] at hsup
    obtain ⟨st1, he, hs1⟩ := sim_step cs hdev st ss hs op hwf.1 hsup.1
    obtain ⟨st2, he2, hs2⟩ := ih st1 (stepS cs ss op) hs1 hwf.2 hsup.2
    refine ⟨st2, ?_, hs2⟩
    have : progTokens (op :: rest) = tokens op ++ progTokens rest := by simp [progTokens]
    rw [this, execute_append _ _ _ _ he]
    exact he2

end PdfVerif.PathLemmas

namespace PdfVerif.PathLemmas
open PdfVerif PdfVerif.Paths PdfVerif.PathSpec PdfVerif.Gen.PathsGen

/-! ### the initial states -/

theorem csInsert_head (k0 : String) (sp0 : CSpace) (rest0 : List (String × CSpace)) (name : String) (sp : CSpace) :
    ∃ sp' rest', csInsert ((k0, sp0) :: rest0) name sp = (k0, sp') :: rest' := by
  unfold csInsert
  split
  · simp only [List.map_cons]
    by_cases he : (k0 == name) = true
    · have : name = k0 := (eq_of_beq he).symm
      subst this
      refine ⟨sp, List.map (fun e => if (e.fst == name) = true then (name, sp) else e) rest0, ?_⟩
      simp
    · simp only [he, Bool.false_eq_true, if_false]
      exact ⟨_, _, rfl⟩
  · exact ⟨_, _, rfl⟩

theorem initSpaces_head (res : List (String × CsSpec)) :
    ∃ sp rest, initSpaces res = ("DeviceGray", sp) :: rest := by
  unfold initSpaces initCsmap
  have h0 : ∃ sp rest, PREDEFINED_COLORSPACE.map (fun e => (e.1, (⟨e.1, e.2⟩ : CSpace))) =
      ("DeviceGray", sp) :: rest := ⟨_, _, rfl⟩
  generalize PREDEFINED_COLORSPACE.map (fun e => (e.1, (⟨e.1, e.2⟩ : CSpace))) = m at h0
  induction res generalizing m with
  | nil => exact h0
  | cons e rest ih =>
    simp only [List.foldl_cons]
    apply ih
    obtain ⟨sp, r, rfl⟩ := h0
    obtain ⟨name, spec⟩ := e
    cases spec with
    | icc n => exact csInsert_head _ _ _ _ _
    | devn n => exact csInsert_head _ _ _ _ _
    | named base =>
      simp only
      cases PREDEFINED_COLORSPACE.lookup base with
      | none => exact ⟨_, _, rfl⟩
      | some n => exact csInsert_head _ _ _ _ _

/-- The interpreter's initial state simulates the specification's initial state. -/
theorem sim_init (ctm : Matrix) (res : List (String × CsSpec)) (hdev : devOk (initSpaces res)) :
    Sim (initSpaces res) (initState ctm res) (initS ctm) := by
  obtain ⟨sp, rest, hh⟩ := initSpaces_head res
  have hsp : sp = ⟨"DeviceGray", 1⟩ := by
    have := hdev.1
    rw [hh] at this
    simpa [List.lookup_cons] using this
  have hc : initCsmap res = ("DeviceGray", ⟨"DeviceGray", 1⟩) :: rest := by
    have := hh; rw [hsp] at this; exact this
  exact { ctm := rfl,
          gs := by simp [initState, hc, initS, gsOf],
          gstack := rfl, path := rfl, ok := trivial, out := rfl,
          csmap := rfl }

end PdfVerif.PathLemmas

namespace PdfVerif.PathLemmas
open PdfVerif PdfVerif.Paths PdfVerif.PathSpec PdfVerif.Gen.PathsGen

/-! ### no modelled operator raises (after the integrated fix of SC/SCN/sc/scn) -/

theorem setN_ok (st : IState) (b : Bool) : ∃ st', doSetColourN st b = .ok st' := by
  unfold doSetColourN
  simp only
  repeat' split
  all_goals exact ⟨_, rfl⟩

theorem call_ok (k : OpK) (args : List Operand) (st : IState) : ∃ st', call k args st = .ok st' := by
  cases k <;> simp only [call] <;> (repeat' split) <;> first | exact ⟨_, rfl⟩ | exact setN_ok _ _

theorem doOp_ok (k : OpK) (st : IState) : ∃ st', doOp k st = .ok st' := by
  unfold doOp
  split
  · exact ⟨_, rfl⟩
  · split
    · exact call_ok _ _ _
    · simp only
      split
      · exact call_ok _ _ _
      · exact ⟨_, rfl⟩

theorem execute_ok (toks : List Tok) (st : IState) : ∃ st', execute toks st = .ok st' := by
  induction toks generalizing st with
  | nil => exact ⟨st, rfl⟩
  | cons t rest ih =>
    have hs : ∃ s1, step st t = .ok s1 := by
      cases t with
      | operand o => exact ⟨_, rfl⟩
      | op k => exact doOp_ok k st
    obtain ⟨s1, h1⟩ := hs
    simp only [execute, h1]
    exact ih s1

end PdfVerif.PathLemmas
