/-
C19 helper lemmas, round 6: `BlackIs1` (`reversed`) is read by `output_line` only.  Two parsers that
differ in nothing but `reversed` stay in lock-step on EVERY input (also damaged data): same errors,
same signals, and their buffers are the packings of one and the same list of rows with the two
polarities.
-/
import PdfVerif.Model.Ccitt

namespace PdfVerif.Ccitt
open PdfVerif.Gen

/-- `a` is the parser with `reversed = false`, `b` the one with `reversed = true`; `L` = rows emitted so far. -/
structure Twin (L : List (List Bool)) (a b : St) : Prop where
  rev : a.reversed = false
  bufa : a.buf = L.flatMap (packLine false)
  eq : b = { a with reversed := true, buf := L.flatMap (packLine true) }

/-- Results of an `_accept` call / a bit / a byte: same error, or same signal and twin states. -/
def TwinR (ra rb : Except Err (St × Sig)) : Prop :=
  match ra, rb with
  | .error e, .error e' => e = e'
  | .ok (a, s), .ok (b, s') => s = s' ∧ ∃ L, Twin L a b
  | _, _ => False

/-- A state update that neither reads nor writes `reversed` / `buf` keeps the twins together. -/
theorem Twin.upd {L : List (List Bool)} {a b : St} (h : Twin L a b) (f : St → St)
    (hc : ∀ (s : St) (r : Bool) (x : List UInt8),
      f { s with reversed := r, buf := x } = { f s with reversed := r, buf := x })
    (hr : ∀ s : St, (f s).reversed = s.reversed) (hb : ∀ s : St, (f s).buf = s.buf) :
    Twin L (f a) (f b) := by
  obtain ⟨h1, h2, h3⟩ := h
  subst h3
  exact ⟨(hr a).trans h1, (hb a).trans h2, hc a _ _⟩

theorem flushLine_twin {L : List (List Bool)} {a b : St} (h : Twin L a b) :
    (flushLine a).2 = (flushLine b).2 ∧ ∃ L', Twin L' (flushLine a).1 (flushLine b).1 := by
  obtain ⟨hr, hb, h3⟩ := h
  subst h3
  simp only [flushLine]
  by_cases hc : CcittCode.flushCond (a.width : Int) a.curpos = true
  · simp only [hc, if_true]
    refine ⟨?_, L ++ [a.curline], ?_, ?_, ?_⟩
    · first | rfl | trivial
    · exact hr
    · simp [resetLine, hb, hr]
    · simp [resetLine, hr]
  · simp only [hc]
    refine ⟨?_, L, hr, hb, rfl⟩
    first | rfl | trivial

theorem afterFlush_twin {L : List (List Bool)} {a b : St} (h : Twin L a b) :
    TwinR (.ok (afterFlush a)) (.ok (afterFlush b)) := by
  obtain ⟨h2, L', h1⟩ := flushLine_twin h
  simp only [afterFlush]
  generalize flushLine a = ra at h1 h2
  generalize flushLine b = rb at h1 h2
  obtain ⟨a', sa⟩ := ra
  obtain ⟨b', sb⟩ := rb
  try simp only at h1 h2
  subst h2
  exact ⟨rfl, L', h1.upd (fun s => { s with acc := .mode, node := modeTrie }) (fun _ _ _ => rfl)
    (fun _ => rfl) (fun _ => rfl)⟩

theorem Twin.color {L : List (List Bool)} {a b : St} (h : Twin L a b) : b.color = a.color := by
  rw [h.eq]

theorem parseMode_twin {L : List (List Bool)} {a b : St} (h : Twin L a b) (v : Option Sym) :
    TwinR (parseMode a v) (parseMode b v) := by
  unfold parseMode
  cases modeAction v with
  | pass => exact afterFlush_twin (h.upd doPass (fun _ _ _ => rfl) (fun _ => rfl) (fun _ => rfl))
  | horiz =>
    exact ⟨rfl, L, h.upd (fun s => { s with n1 := 0, acc := .horiz1, node := runTrie s.color })
      (fun _ _ _ => rfl) (fun _ => rfl) (fun _ => rfl)⟩
  | unc =>
    exact ⟨rfl, L, h.upd (fun s => { s with acc := .unc, node := uncTrie })
      (fun _ _ _ => rfl) (fun _ => rfl) (fun _ => rfl)⟩
  | eofb => exact ⟨rfl, L, h⟩
  | vertical =>
    cases v with
    | none => exact rfl
    | some s =>
      cases s with
      | mode m =>
        cases m with
        | v d => exact afterFlush_twin (h.upd (doVertical · d) (fun _ _ _ => rfl) (fun _ => rfl) (fun _ => rfl))
        | h => exact rfl
        | p => exact rfl
        | u => exact rfl
        | x n => exact rfl
        | e => exact rfl
      | run n =>
        exact afterFlush_twin (h.upd (doVertical · (n : Int)) (fun _ _ _ => rfl) (fun _ => rfl) (fun _ => rfl))
      | unc u => exact rfl
  | invalid => exact rfl

theorem parseHoriz1_twin {L : List (List Bool)} {a b : St} (h : Twin L a b) (v : Option Sym) :
    TwinR (parseHoriz1 a v) (parseHoriz1 b v) := by
  cases v with
  | none => exact rfl
  | some s =>
    cases s with
    | mode m => exact rfl
    | unc u => exact rfl
    | run n =>
      simp only [parseHoriz1]
      by_cases ht : CcittCode.horiz1Term (n : Int) = true
      · simp only [ht, if_true]
        exact ⟨rfl, L, h.upd (fun s => { s with n1 := s.n1 + n, n2 := 0, color := CcittCode.horiz1Flip s.color, acc := .horiz2, node := runTrie (CcittCode.horiz1Flip s.color) })
          (fun _ _ _ => rfl) (fun _ => rfl) (fun _ => rfl)⟩
      · simp only [ht]
        exact ⟨rfl, L, h.upd (fun s => { s with n1 := s.n1 + n, node := runTrie s.color })
          (fun _ _ _ => rfl) (fun _ => rfl) (fun _ => rfl)⟩

theorem parseHoriz2_twin {L : List (List Bool)} {a b : St} (h : Twin L a b) (v : Option Sym) :
    TwinR (parseHoriz2 a v) (parseHoriz2 b v) := by
  cases v with
  | none => exact rfl
  | some s =>
    cases s with
    | mode m => exact rfl
    | unc u => exact rfl
    | run n =>
      simp only [parseHoriz2]
      by_cases ht : CcittCode.horiz2Term (n : Int) = true
      · simp only [ht, if_true]
        exact afterFlush_twin (h.upd (fun s => doHorizontal { s with n2 := s.n2 + n, color := CcittCode.horiz2Flip s.color, acc := .mode } s.n1 (s.n2 + n)) (fun _ _ _ => rfl) (fun _ => rfl) (fun _ => rfl))
      · simp only [ht]
        exact ⟨rfl, L, h.upd (fun s => { s with n2 := s.n2 + n, node := runTrie s.color })
          (fun _ _ _ => rfl) (fun _ => rfl) (fun _ => rfl)⟩

theorem doUncompressed_twin : ∀ (bits : List Bool) {L : List (List Bool)} {a b : St}, Twin L a b →
    (doUncompressed a bits).2 = (doUncompressed b bits).2 ∧
      ∃ L', Twin L' (doUncompressed a bits).1 (doUncompressed b bits).1 := by
  intro bits
  induction bits with
  | nil => intro L a b h; exact ⟨rfl, L, h⟩
  | cons c cs ih =>
    intro L a b h
    have h1 := h.upd (fun s => { s with curline := fill s.curline (if s.curpos < 0 then s.curline.length - 1 else s.curpos.toNat) ((if s.curpos < 0 then s.curline.length - 1 else s.curpos.toNat) + 1) c, curpos := CcittCode.uncStep s.curpos }) (fun _ _ _ => rfl) (fun _ => rfl) (fun _ => rfl)
    obtain ⟨h2, L', h3⟩ := flushLine_twin h1
    simp only [doUncompressed]
    try simp only at h2 h3
    generalize flushLine _ = ra at h2 h3
    generalize flushLine _ = rb at h2 h3
    obtain ⟨a', sa⟩ := ra
    obtain ⟨b', sb⟩ := rb
    try simp only at h2 h3
    subst h2
    cases sa
    · simp only [Bool.false_eq_true, if_false]; exact ih h3
    · simp only [if_true]; exact ⟨trivial, L', h3⟩

theorem parseUncompressed_twin {L : List (List Bool)} {a b : St} (h : Twin L a b) (v : Option Sym) :
    TwinR (parseUncompressed a v) (parseUncompressed b v) := by
  cases v with
  | none => exact rfl
  | some s =>
    cases s with
    | mode m => exact rfl
    | run n => exact rfl
    | unc u =>
      simp only [parseUncompressed]
      by_cases ht : u.term = true
      · simp only [ht, if_true]
        cases uncSplit u.bits with
        | none => exact rfl
        | some cr =>
          obtain ⟨c, rest⟩ := cr
          simp only []
          have h1 := h.upd (fun s => { s with acc := .mode, color := c }) (fun _ _ _ => rfl) (fun _ => rfl) (fun _ => rfl)
          obtain ⟨h2, L', h3⟩ := doUncompressed_twin rest h1
          try simp only at h2 h3
          generalize doUncompressed _ rest = ra at h2 h3
          generalize doUncompressed _ rest = rb at h2 h3
          obtain ⟨a', sa⟩ := ra
          obtain ⟨b', sb⟩ := rb
          try simp only at h2 h3
          subst h2
          exact ⟨rfl, L', h3.upd (fun s => { s with acc := .mode, node := modeTrie }) (fun _ _ _ => rfl)
            (fun _ => rfl) (fun _ => rfl)⟩
      · simp only [ht]
        obtain ⟨h2, L', h3⟩ := doUncompressed_twin u.bits h
        generalize doUncompressed a u.bits = ra at h2 h3
        generalize doUncompressed b u.bits = rb at h2 h3
        obtain ⟨a', sa⟩ := ra
        obtain ⟨b', sb⟩ := rb
        try simp only at h2 h3
        subst h2
        cases sa
        · simp only [Bool.false_eq_true, if_false]
          exact ⟨rfl, L', h3.upd (fun s => { s with node := uncTrie }) (fun _ _ _ => rfl) (fun _ => rfl) (fun _ => rfl)⟩
        · simp only [if_true]
          exact ⟨rfl, L', h3.upd (fun s => { s with acc := .mode, node := modeTrie }) (fun _ _ _ => rfl)
            (fun _ => rfl) (fun _ => rfl)⟩

theorem accept_twin {L : List (List Bool)} {a b : St} (h : Twin L a b) (v : Option Sym) :
    TwinR (accept a v) (accept b v) := by
  have hacc : b.acc = a.acc := by rw [h.eq]
  unfold accept
  rw [hacc]
  cases a.acc with
  | mode => exact parseMode_twin h v
  | horiz1 => exact parseHoriz1_twin h v
  | horiz2 => exact parseHoriz2_twin h v
  | unc => exact parseUncompressed_twin h v

theorem stepBit_twin {L : List (List Bool)} {a b : St} (h : Twin L a b) (x : Bool) :
    TwinR (stepBit a x) (stepBit b x) := by
  have hnode : b.node = a.node := by rw [h.eq]
  unfold stepBit
  rw [hnode]
  cases a.node with
  | empty => exact rfl
  | leaf s => exact rfl
  | node l r =>
    simp only []
    cases (if x then r else l) with
    | node a' c' =>
      exact ⟨rfl, L, h.upd (fun s => { s with node := .node a' c' }) (fun _ _ _ => rfl) (fun _ => rfl) (fun _ => rfl)⟩
    | empty =>
      exact accept_twin (h.upd (fun s => { s with node := .empty }) (fun _ _ _ => rfl) (fun _ => rfl) (fun _ => rfl)) none
    | leaf s =>
      exact accept_twin (h.upd (fun s => { s with node := .empty }) (fun _ _ _ => rfl) (fun _ => rfl) (fun _ => rfl)) (some s)

theorem feedBits_twin : ∀ (bits : List Bool) {L : List (List Bool)} {a b : St}, Twin L a b →
    TwinR (feedBits a bits) (feedBits b bits) := by
  intro bits
  induction bits with
  | nil => intro L a b h; exact ⟨rfl, L, h⟩
  | cons x xs ih =>
    intro L a b h
    have hs := stepBit_twin h x
    simp only [feedBits]
    generalize stepBit a x = ra at hs
    generalize stepBit b x = rb at hs
    cases ra with
    | error e =>
      cases rb with
      | error e' => exact hs
      | ok pb => exact hs.elim
    | ok pa =>
      cases rb with
      | error e' => exact hs.elim
      | ok pb =>
        obtain ⟨a', sa⟩ := pa
        obtain ⟨b', sb⟩ := pb
        obtain ⟨h1, L', h2⟩ := hs
        subst h1
        cases sa with
        | cont => exact ih h2
        | byteSkip => exact ⟨rfl, L', h2⟩
        | eofb => exact ⟨rfl, L', h2⟩

/-- Same error, or twin final states. -/
def TwinF (ra rb : Except Err St) : Prop :=
  match ra, rb with
  | .error e, .error e' => e = e'
  | .ok a, .ok b => ∃ L, Twin L a b
  | _, _ => False

theorem feedBytes_twin : ∀ (data : List UInt8) {L : List (List Bool)} {a b : St}, Twin L a b →
    TwinF (feedBytes a data) (feedBytes b data) := by
  intro data
  induction data with
  | nil => intro L a b h; exact ⟨L, h⟩
  | cons x xs ih =>
    intro L a b h
    have hs := feedBits_twin (bitsOfByte x) h
    simp only [feedBytes]
    generalize feedBits a (bitsOfByte x) = ra at hs
    generalize feedBits b (bitsOfByte x) = rb at hs
    cases ra with
    | error e =>
      cases rb with
      | error e' => exact hs
      | ok pb => exact hs.elim
    | ok pa =>
      cases rb with
      | error e' => exact hs.elim
      | ok pb =>
        obtain ⟨a', sa⟩ := pa
        obtain ⟨b', sb⟩ := pb
        obtain ⟨h1, L', h2⟩ := hs
        subst h1
        cases sa with
        | cont => exact ih h2
        | byteSkip => exact ih h2
        | eofb => exact ⟨L', h2⟩

end PdfVerif.Ccitt
