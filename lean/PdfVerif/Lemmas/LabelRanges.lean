/-
Helper lemmas for C17 (number-tree flattening, label ranges).
-/
import PdfVerif.Lemmas.Labels

namespace PdfVerif.Lemmas.LabelRanges
open PdfVerif PdfVerif.Labels PdfVerif.Spec.Labels

/-! ### number trees -/

mutual
theorem parse_eq_flatten {α : Type} : ∀ t : NumTree α, t.parse = flatten t
  | .node nums kids => by simp only [NumTree.parse, flatten, parseList_eq_flattenList kids]
theorem parseList_eq_flattenList {α : Type} : ∀ ts : List (NumTree α), NumTree.parseList ts = flattenList ts
  | [] => by simp only [NumTree.parseList, flattenList]
  | t :: ts => by simp only [NumTree.parseList, flattenList, parse_eq_flatten t, parseList_eq_flattenList ts]
end

theorem ascending_tail {a : Int} {l : List Int} (h : ascendingFrom a l = true) : ascending l = true := by
  cases l with
  | nil => rfl
  | cons b tl => simp only [ascendingFrom, Bool.and_eq_true] at h; exact h.2

theorem ascendingFrom_all : ∀ (a : Int) (l : List Int), ascendingFrom a l = true → ∀ b ∈ l, a < b
  | _, [], _, b, hb => by simp at hb
  | a, x :: tl, h, b, hb => by
    simp only [ascendingFrom, Bool.and_eq_true, decide_eq_true_eq] at h
    rcases List.mem_cons.mp hb with rfl | hb
    · exact h.1
    · have := ascendingFrom_all x tl h.2 b hb
      omega

/-- The stable sort leaves an ascending list alone. -/
theorem sortKeys_of_ascending {α : Type} : ∀ l : List (Int × α), ascending (l.map (·.1)) = true → sortKeys l = l
  | [], _ => rfl
  | x :: xs, h => by
    simp only [List.map_cons, ascending] at h
    rw [sortKeys, sortKeys_of_ascending xs (ascending_tail h)]
    cases xs with
    | nil => rfl
    | cons y ys =>
      simp only [List.map_cons, ascendingFrom, Bool.and_eq_true, decide_eq_true_eq] at h
      have : x.1 ≤ y.1 := by omega
      simp [insertKey, this]

/-! ### label ranges -/

theorem rangeLabels_get (d : LabelDict) (n j : Nat) (hj : j < n) :
    (rangeLabels d n)[j]? = some (labelOf d (firstValue d + (j : Int))) := by
  simp [rangeLabels, List.getElem?_map, List.getElem?_range hj]

theorem rangeLabels_length (d : LabelDict) (n : Nat) : (rangeLabels d n).length = n := by
  simp [rangeLabels]

theorem rangeOf_cons_le {α : Type} (s : Int) (d : α) (tl : List (Int × α)) (i : Int) (h : s ≤ i) :
    rangeOf ((s, d) :: tl) i = some ((rangeOf tl i).getD (s, d)) := by
  simp [rangeOf, h, List.getLast?_cons]

theorem rangeOf_none {α : Type} (tl : List (Int × α)) (i : Int) (h : ∀ k ∈ tl.map (·.1), i < k) :
    rangeOf tl i = none := by
  have : tl.filter (fun r => decide (r.1 ≤ i)) = [] := by
    rw [List.filter_eq_nil_iff]
    intro r hr
    have := h r.1 (List.mem_map.mpr ⟨r, hr, rfl⟩)
    simp; omega
  simp [rangeOf, this]

/-- The label at position `j` of the loop started at range `(s, d)` is the label of page index
`s + j`, computed from the range that contains it. -/
theorem labelsFrom_get : ∀ (tl : List (Int × LabelDict)) (s : Int) (d : LabelDict) (n j : Nat),
    ascendingFrom s (tl.map (·.1)) = true → j < n →
    (labelsFrom s d tl n)[j]? =
      some (labelOf ((rangeOf tl (s + j)).getD (s, d)).2
        (firstValue ((rangeOf tl (s + j)).getD (s, d)).2 + (s + j - ((rangeOf tl (s + j)).getD (s, d)).1)))
  | [], s, d, n, j, _, hj => by
    have : s + (j : Int) - s = j := by omega
    simp [labelsFrom, rangeOf, rangeLabels_get d n j hj, this]
  | (e, d') :: rest, s, d, n, j, hasc, hj => by
    simp only [List.map_cons, ascendingFrom, Bool.and_eq_true, decide_eq_true_eq] at hasc
    obtain ⟨hse, hrest⟩ := hasc
    simp only [labelsFrom]
    by_cases hlt : s + (j : Int) < e
    · -- still inside the first range
      have hjm : j < min (e - s).toNat n := by omega
      rw [List.getElem?_append_left (by rw [rangeLabels_length]; exact hjm)]
      have hnone : rangeOf ((e, d') :: rest) (s + j) = none := by
        apply rangeOf_none
        intro k hk
        simp only [List.map_cons, List.mem_cons] at hk
        rcases hk with rfl | hk
        · exact hlt
        · have := ascendingFrom_all e _ hrest k hk
          omega
      have : s + (j : Int) - s = j := by omega
      simp [hnone, rangeLabels_get d _ j hjm, this]
    · -- in a later range
      have hm : min (e - s).toNat n = (e - s).toNat := by omega
      have hle : (e - s).toNat ≤ j := by omega
      rw [hm, List.getElem?_append_right (by rw [rangeLabels_length]; exact hle), rangeLabels_length]
      have ih := labelsFrom_get rest e d' (n - (e - s).toNat) (j - (e - s).toNat) hrest (by omega)
      have hidx : e + ((j - (e - s).toNat : Nat) : Int) = s + (j : Int) := by omega
      rw [hidx] at ih
      rw [ih, rangeOf_cons_le e d' rest (s + j) (by omega)]
      rfl

end PdfVerif.Lemmas.LabelRanges
