/-
Helper lemmas for C13 (round 6c): the number-tree walk of `Model/LenientTree.lean` — errors are family errors or the
fuel outcome, and the visited set stays duplicate free (every indirect node / Kids array is entered at most once).
-/
import PdfVerif.Lemmas.Lenient
import PdfVerif.Model.LenientTree

namespace PdfVerif.Lenient
open PdfVerif

theorem listValue_error_family (hG : Gen.Lenient.resolve1Guard = true) (strict : Bool) (g : Graph) (x : Obj)
    (e : Err) (h : listValue strict g x = .error e) : e.isFamily = true := by
  have := listValue_allowed hG strict g x
  rw [h] at this
  exact this

theorem dictValue_error_family (hG : Gen.Lenient.resolve1Guard = true) (strict : Bool) (g : Graph) (x : Obj)
    (e : Err) (h : dictValue strict g x = .error e) : e.isFamily = true := by
  have := dictValue_allowed hG strict g x
  rw [h] at this
  exact this

theorem ntList_error_family (hG : Gen.Lenient.resolve1Guard = true) (strict : Bool) (g : Graph)
    (d : List (String × Obj)) (k : String) (e : Err) (h : ntList strict g d k = .error e) : e.isFamily = true := by
  unfold ntList at h
  split at h
  · exact listValue_error_family hG strict g _ e h
  · cases h

theorem ntItems_error_family (hG : Gen.Lenient.resolve1Guard = true) (strict : Bool) (g : Graph) :
    ∀ (n : Nat) (l : List Obj), l.length ≤ n → ∀ e, ntItems strict g l = .error e → e.isFamily = true := by
  intro n
  induction n with
  | zero =>
    intro l hl e h
    cases l with
    | nil => simp [ntItems] at h
    | cons a t => simp at hl
  | succ n ih =>
    intro l hl e h
    match l, h with
    | [], h => simp [ntItems] at h
    | [_], h => simp [ntItems] at h
    | k :: v :: rest, h =>
      simp only [ntItems] at h
      cases hi : intValue strict g k with
      | error e' =>
        rw [hi] at h; cases h
        exact intValue_error_family hG strict g k _ hi
      | ok i =>
        rw [hi] at h
        cases hr : ntItems strict g rest with
        | error e' =>
          rw [hr] at h; cases h
          exact ih rest (by simp at hl; omega) _ hr
        | ok tl => rw [hr] at h; cases h

theorem ntNode_error_family (hG : Gen.Lenient.resolve1Guard = true) (strict : Bool) (g : Graph) (obj : Obj)
    (e : Err) (h : ntNode strict g obj = .error e) : e.isFamily = true := by
  unfold ntNode at h
  split at h
  · cases h; rename_i e' hd; exact dictValue_error_family hG strict g _ _ hd
  · split at h
    · cases h; rename_i e' hd; exact ntList_error_family hG strict g _ _ _ hd
    · split at h
      · cases h; rename_i e' hd; exact ntList_error_family hG strict g _ _ _ hd
      · split at h
        · cases h; rename_i e' hd; exact ntList_error_family hG strict g _ _ _ hd
        · split at h
          · cases h; rename_i e' hd; exact ntItems_error_family hG strict g _ _ (Nat.le_refl _) _ hd
          · cases h

/-- What a (sub)walk guarantees: errors are family errors or the fuel outcome; a duplicate-free visited set stays
duplicate free and only grows. -/
def NTGood (r : Except Err (List (Obj × Obj) × List Nat)) (visited : List Nat) : Prop :=
  (∀ e, r = .error e → e.isFamily = true ∨ e = .fuel) ∧
  (∀ its v', r = .ok (its, v') → v'.Nodup ∧ ∀ n ∈ visited, n ∈ v')

theorem NTGood_ok (its : List (Obj × Obj)) (visited : List Nat) (hn : visited.Nodup) :
    NTGood (.ok (its, visited)) visited := by
  refine ⟨(by intro e h; cases h), ?_⟩
  intro its' v' h
  simp only [Except.ok.injEq, Prod.mk.injEq] at h
  obtain ⟨_, rfl⟩ := h
  exact ⟨hn, fun n hn' => hn'⟩

/-- Sequencing: a good first walk from `v0 ⊇ visited`, then a good rest from its result. -/
theorem NTGood_seq (visited v0 : List Nat) (hsub : ∀ n ∈ visited, n ∈ v0)
    (r1 : Except Err (List (Obj × Obj) × List Nat))
    (k : List Nat → Except Err (List (Obj × Obj) × List Nat))
    (F : List (Obj × Obj) → List (Obj × Obj) → List (Obj × Obj)) :
    NTGood r1 v0 → (∀ i1 v1, r1 = .ok (i1, v1) → NTGood (k v1) v1) →
    NTGood (match r1 with
      | .error e => .error e
      | .ok (i1, v1) =>
        match k v1 with
        | .error e => .error e
        | .ok (i2, v2) => .ok (F i1 i2, v2)) visited := by
  intro h1 hk
  cases r1 with
  | error e =>
    refine ⟨?_, (by intro its v' h; cases h)⟩
    intro e' h; cases h; exact h1.1 e rfl
  | ok p =>
    obtain ⟨i1, v1⟩ := p
    have g1 := h1.2 i1 v1 rfl
    have g2 := hk i1 v1 rfl
    simp only
    cases hk2 : k v1 with
    | error e =>
      refine ⟨?_, (by intro its v' h; cases h)⟩
      intro e' h; cases h; exact g2.1 e hk2
    | ok q =>
      obtain ⟨i2, v2⟩ := q
      refine ⟨(by intro e h; cases h), ?_⟩
      intro its v' h
      simp only [Except.ok.injEq, Prod.mk.injEq] at h
      obtain ⟨_, rfl⟩ := h
      have g3 := g2.2 i2 v2 hk2
      exact ⟨g3.1, fun n hn => g3.2 n (g1.2 n (hsub n hn))⟩

/-- Post-processing the items of a good walk from `v0 ⊇ visited`. -/
theorem NTGood_map (visited v0 : List Nat) (hsub : ∀ n ∈ visited, n ∈ v0)
    (r : Except Err (List (Obj × Obj) × List Nat))
    (F : List (Obj × Obj) → List (Obj × Obj)) :
    NTGood r v0 →
    NTGood (match r with
      | .error e => .error e
      | .ok (its, v) => .ok (F its, v)) visited := by
  intro h1
  cases r with
  | error e =>
    refine ⟨?_, (by intro its v' h; cases h)⟩
    intro e' h; cases h; exact h1.1 e rfl
  | ok p =>
    obtain ⟨i1, v1⟩ := p
    have g1 := h1.2 i1 v1 rfl
    refine ⟨(by intro e h; cases h), ?_⟩
    intro its v' h
    simp only [Except.ok.injEq, Prod.mk.injEq] at h
    obtain ⟨_, rfl⟩ := h
    exact ⟨g1.1, fun n hn => g1.2 n (hsub n hn)⟩

theorem ntKids_good (strict : Bool) (g : Graph) (fuel : Nat)
    (hP : ∀ obj visited, visited.Nodup → NTGood (ntParseFuel strict g fuel obj visited) visited) :
    ∀ (kids : List Obj) (visited : List Nat), visited.Nodup →
      NTGood (ntKidsFuel strict g fuel kids visited) visited := by
  intro kids
  induction kids with
  | nil => intro visited hn; simp only [ntKidsFuel]; exact NTGood_ok _ _ hn
  | cons c cs ih =>
    intro visited hn
    have generic : NTGood (match ntParseFuel strict g fuel c visited with
        | .error e => .error e
        | .ok (i1, v1) =>
          match ntKidsFuel strict g fuel cs v1 with
          | .error e => .error e
          | .ok (i2, v2) => .ok (i1 ++ i2, v2)) visited :=
      NTGood_seq visited visited (fun n h => h) _ (fun v1 => ntKidsFuel strict g fuel cs v1)
        (fun a b => a ++ b) (hP c visited hn) (fun i1 v1 h1 => ih v1 ((hP c visited hn).2 i1 v1 h1).1)
    cases c with
    | ref n =>
      simp only [ntKidsFuel]
      by_cases hc : visited.contains n = true
      · simp only [hc, if_true]; exact ih visited hn
      · simp only [hc, Bool.false_eq_true, if_false]
        have hnot : n ∉ visited := by simpa using hc
        have hnd : (n :: visited).Nodup := List.nodup_cons.mpr ⟨hnot, hn⟩
        exact NTGood_seq visited (n :: visited) (fun m h => List.mem_cons_of_mem _ h) _
          (fun v1 => ntKidsFuel strict g fuel cs v1) (fun a b => a ++ b) (hP (.ref n) (n :: visited) hnd)
          (fun i1 v1 h1 => ih v1 ((hP (.ref n) (n :: visited) hnd).2 i1 v1 h1).1)
    | _ => simp only [ntKidsFuel]; exact generic

theorem ntParse_good (hG : Gen.Lenient.resolve1Guard = true) (hGn : Gen.Lenient.numberTreeGuard = true)
    (strict : Bool) (g : Graph) :
    ∀ (fuel : Nat) (obj : Obj) (visited : List Nat), visited.Nodup →
      NTGood (ntParseFuel strict g fuel obj visited) visited := by
  intro fuel
  induction fuel with
  | zero =>
    intro obj visited hn
    simp only [ntParseFuel]
    exact ⟨fun e h => by cases h; exact Or.inr rfl, by intro its v' h; cases h⟩
  | succ f ih =>
    intro obj visited hn
    simp only [ntParseFuel]
    cases hnode : ntNode strict g obj with
    | error e =>
      exact ⟨fun e' h => by cases h; exact Or.inl (ntNode_error_family hG strict g obj e hnode), by intro its v' h; cases h⟩
    | ok node =>
      simp only
      by_cases hk : node.kids.isEmpty = true
      · simp only [hk, if_true]; exact NTGood_ok _ _ hn
      · simp only [hk, Bool.false_eq_true, if_false]
        cases hr : node.kidsRef with
        | none =>
          simp only
          exact NTGood_map visited visited (fun n h => h) _ (fun its => node.items ++ its)
            (ntKids_good strict g f ih node.kids visited hn)
        | some n =>
          simp only [hGn, Bool.true_and]
          by_cases hc : visited.contains n = true
          · simp only [hc, if_true]; exact NTGood_ok _ _ hn
          · simp only [hc, Bool.false_eq_true, if_false]
            have hnot : n ∉ visited := by simpa using hc
            have hnd : (n :: visited).Nodup := List.nodup_cons.mpr ⟨hnot, hn⟩
            exact NTGood_map visited (n :: visited) (fun m h => List.mem_cons_of_mem _ h) _ (fun its => node.items ++ its)
              (ntKids_good strict g f ih node.kids (n :: visited) hnd)

end PdfVerif.Lenient
