/-
C02 — `read_xref_from` on the trailer chain of ANY number of revisions: each revision is a plain
section (table or stream, `/Prev` to the older one) or a hybrid pair (table with `/XRefStm` and
`/Prev`); the sections come out newest first, the table of a hybrid revision before its stream.
-/
import PdfVerif.Model.Xref
import PdfVerif.Spec.XrefHist

namespace PdfVerif.Xref

open PdfVerif.Gen.Xref

/-- The chain a writer lays down, seen from an optional start position: the positions visited, in
order, and the sections (with trailers) loaded there. -/
inductive Chain (ph : Phys) : Option Nat → List Nat → List (Section × Trailer) → Prop
  | done : Chain ph none [] []
  | plain {p d s tr ps rest} :
      lookupNat ph.secs p = some d → loadSection ph d = .ok (s, tr) → tr.xrefstm = none →
      Chain ph tr.prev ps rest → Chain ph (some p) (p :: ps) ((s, tr) :: rest)
  | hybrid {p x d dx s sx tr trx ps rest} :
      lookupNat ph.secs p = some d → loadSection ph d = .ok (s, tr) → tr.xrefstm = some x →
      lookupNat ph.secs x = some dx → loadSection ph dx = .ok (sx, trx) →
      trx.xrefstm = none → trx.prev = none →
      Chain ph tr.prev ps rest → Chain ph (some p) (p :: x :: ps) ((s, tr) :: (sx, trx) :: rest)
  /-- the oldest revision's `/Prev` points at itself (circular): the chain ends there -/
  | selfPlain {p d s tr} :
      lookupNat ph.secs p = some d → loadSection ph d = .ok (s, tr) → tr.xrefstm = none → tr.prev = some p →
      Chain ph (some p) [p] [(s, tr)]
  | selfHybrid {p x d dx s sx tr trx} :
      lookupNat ph.secs p = some d → loadSection ph d = .ok (s, tr) → tr.xrefstm = some x →
      lookupNat ph.secs x = some dx → loadSection ph dx = .ok (sx, trx) →
      trx.xrefstm = none → trx.prev = none → tr.prev = some p →
      Chain ph (some p) [p, x] [(s, tr), (sx, trx)]

/-- `if "Prev" in trailer: self.read_xref_from(…)` -/
def follow (ph : Phys) (fuel : Nat) (o : Option Nat) (st : List (Section × Trailer) × List Nat) :
    Except Err (List (Section × Trailer) × List Nat) :=
  match o with
  | some p => readXrefFrom ph fuel p st
  | none => .ok st

theorem readXrefFrom_step (ph : Phys) (fuel p : Nat) (acc : List (Section × Trailer)) (visited : List Nat)
    (d : SecDesc) (s : Section) (tr : Trailer) (hv : p ∉ visited)
    (hl : lookupNat ph.secs p = some d) (hd : loadSection ph d = .ok (s, tr)) :
    readXrefFrom ph (fuel + 1) p (acc, visited) =
      (follow ph fuel tr.xrefstm (acc ++ [(s, tr)], p :: visited)).bind (fun st => follow ph fuel tr.prev st) := by
  have hc : visited.contains p = false := by simpa using hv
  have g1 : tr.get "XRefStm" = tr.xrefstm := rfl
  have g2 : tr.get "Prev" = tr.prev := rfl
  simp only [readXrefFrom, hc, hl, hd, chainOrder, List.foldlM, g1, g2, Bool.false_eq_true, ↓reduceIte,
    bind, pure, Except.pure]
  cases hx : tr.xrefstm with
  | none =>
    simp only [follow, Except.bind]
    cases hp : tr.prev with
    | none => simp [Except.bind]
    | some q =>
      simp only [Except.bind]
      cases readXrefFrom ph fuel q (acc ++ [(s, tr)], p :: visited) <;> rfl
  | some x =>
    simp only [follow]
    cases readXrefFrom ph fuel x (acc ++ [(s, tr)], p :: visited) with
    | error e => rfl
    | ok st =>
      simp only [Except.bind]
      cases hp : tr.prev with
      | none => rfl
      | some q =>
        simp only []
        cases readXrefFrom ph fuel q st <;> rfl

theorem readXrefFrom_visited (ph : Phys) (fuel p : Nat) (acc : List (Section × Trailer)) (visited : List Nat)
    (h : p ∈ visited) : readXrefFrom ph (fuel + 1) p (acc, visited) = .ok (acc, visited) := by
  simp [readXrefFrom, h]

/-- The whole chain, for any number of revisions. -/
theorem follow_chain {ph : Phys} {o : Option Nat} {ps : List Nat} {L : List (Section × Trailer)}
    (h : Chain ph o ps L) : ∀ (fuel : Nat) (acc : List (Section × Trailer)) (visited : List Nat),
      ps.length < fuel → (∀ p ∈ ps, p ∉ visited) → ps.Nodup →
      follow ph fuel o (acc, visited) = .ok (acc ++ L, ps.reverse ++ visited) := by
  induction h with
  | done => intro fuel acc visited _ _ _; simp [follow]
  | @plain p d s tr ps rest hl hd hx _ ih =>
    intro fuel acc visited hf hdis hnd
    cases fuel with
    | zero => simp at hf
    | succ f =>
      have hnd' := List.nodup_cons.mp hnd
      simp only [follow]
      rw [readXrefFrom_step ph f p acc visited d s tr (hdis p List.mem_cons_self) hl hd, hx]
      have := ih f (acc ++ [(s, tr)]) (p :: visited) (by simp at hf; omega)
        (by
          intro q hq hmem
          rcases List.mem_cons.mp hmem with h | h
          · exact hnd'.1 (h ▸ hq)
          · exact hdis q (List.mem_cons_of_mem _ hq) h)
        hnd'.2
      simp only [follow, Except.bind] at this ⊢
      rw [this]
      simp
  | @hybrid p x d dx s sx tr trx ps rest hl hd hx hlx hdx hxx hxp _ ih =>
    intro fuel acc visited hf hdis hnd
    cases fuel with
    | zero => simp at hf
    | succ f =>
      cases f with
      | zero => simp at hf
      | succ f' =>
        have hnd1 := List.nodup_cons.mp hnd
        have hnd2 := List.nodup_cons.mp hnd1.2
        have hxp' : x ≠ p := fun h => hnd1.1 (h ▸ List.mem_cons_self)
        simp only [follow]
        rw [readXrefFrom_step ph (f' + 1) p acc visited d s tr (hdis p List.mem_cons_self) hl hd, hx]
        have hxv : x ∉ p :: visited := by
          intro hmem
          rcases List.mem_cons.mp hmem with h | h
          · exact hxp' h
          · exact hdis x (List.mem_cons_of_mem _ List.mem_cons_self) h
        simp only [follow]
        rw [readXrefFrom_step ph f' x (acc ++ [(s, tr)]) (p :: visited) dx sx trx hxv hlx hdx, hxx, hxp]
        have := ih (f' + 1) (acc ++ [(s, tr)] ++ [(sx, trx)]) (x :: p :: visited) (by simp at hf; omega)
          (by
            intro q hq hmem
            rcases List.mem_cons.mp hmem with h | h
            · exact hnd2.1 (h ▸ hq)
            · rcases List.mem_cons.mp h with h | h
              · exact hnd1.1 (h ▸ List.mem_cons_of_mem _ hq)
              · exact hdis q (List.mem_cons_of_mem _ (List.mem_cons_of_mem _ hq)) h)
          hnd2.2
        simp only [follow, Except.bind] at this ⊢
        rw [this]
        simp

  | @selfPlain p d s tr hl hd hx hp =>
    intro fuel acc visited hf hdis hnd
    cases fuel with
    | zero => simp at hf
    | succ f =>
      cases f with
      | zero => simp at hf
      | succ g =>
        simp only [follow]
        rw [readXrefFrom_step ph (g + 1) p acc visited d s tr (hdis p List.mem_cons_self) hl hd, hx, hp]
        simp only [follow, Except.bind]
        rw [readXrefFrom_visited ph g p _ _ List.mem_cons_self]
        simp
  | @selfHybrid p x d dx s sx tr trx hl hd hx hlx hdx hxx hxp hp =>
    intro fuel acc visited hf hdis hnd
    cases fuel with
    | zero => simp at hf
    | succ f =>
      cases f with
      | zero => simp at hf
      | succ g =>
        have hnd1 := List.nodup_cons.mp hnd
        have hxp' : x ≠ p := fun h => hnd1.1 (h ▸ List.mem_cons_self)
        have hxv : x ∉ p :: visited := by
          intro hmem
          rcases List.mem_cons.mp hmem with h | h
          · exact hxp' h
          · exact hdis x (List.mem_cons_of_mem _ List.mem_cons_self) h
        simp only [follow]
        rw [readXrefFrom_step ph (g + 1) p acc visited d s tr (hdis p List.mem_cons_self) hl hd, hx, hp]
        simp only [follow]
        rw [readXrefFrom_step ph g x (acc ++ [(s, tr)]) (p :: visited) dx sx trx hxv hlx hdx, hxx, hxp]
        simp only [follow, Except.bind]
        rw [readXrefFrom_visited ph g p _ _ (List.mem_cons_of_mem _ List.mem_cons_self)]
        simp

/-- The executable chain follower is sound. -/
theorem chainOf_sound (ph : Phys) (fuel : Nat) : ∀ (o : Option Nat) (ps : List Nat) (L : List (Section × Trailer)),
    chainOf ph fuel o = some (ps, L) → Chain ph o ps L := by
  induction fuel with
  | zero =>
    intro o ps L h
    cases o with
    | none => simp only [chainOf, Option.some.injEq, Prod.mk.injEq] at h; rw [← h.1, ← h.2]; exact .done
    | some p => simp [chainOf] at h
  | succ fuel ih =>
    intro o ps L h
    cases o with
    | none => simp only [chainOf, Option.some.injEq, Prod.mk.injEq] at h; rw [← h.1, ← h.2]; exact .done
    | some p =>
      simp only [chainOf] at h
      cases hl : lookupNat ph.secs p with
      | none => rw [hl] at h; simp at h
      | some d =>
        rw [hl] at h
        simp only at h
        cases hd : loadSection ph d with
        | error e => rw [hd] at h; simp at h
        | ok st =>
          obtain ⟨s, tr⟩ := st
          rw [hd] at h
          simp only at h
          cases hx : tr.xrefstm with
          | none =>
            rw [hx] at h
            simp only at h
            by_cases hself : (tr.prev == some p) = true
            · rw [if_pos hself] at h
              simp only [Option.some.injEq, Prod.mk.injEq] at h
              rw [← h.1, ← h.2]
              exact .selfPlain hl hd hx (by simpa using hself)
            · rw [if_neg hself] at h
              cases hc : chainOf ph fuel tr.prev with
              | none => rw [hc] at h; simp at h
              | some r =>
                rw [hc] at h
                simp only [Option.map_some, Option.some.injEq, Prod.mk.injEq] at h
                rw [← h.1, ← h.2]
                exact .plain hl hd hx (ih _ _ _ hc)
          | some x =>
            rw [hx] at h
            simp only at h
            cases hlx : lookupNat ph.secs x with
            | none => rw [hlx] at h; simp at h
            | some dx =>
              rw [hlx] at h
              simp only at h
              cases hdx : loadSection ph dx with
              | error e => rw [hdx] at h; simp at h
              | ok stx =>
                obtain ⟨sx, trx⟩ := stx
                rw [hdx] at h
                simp only at h
                by_cases hcond : (trx.xrefstm.isNone && trx.prev.isNone) = true
                · rw [if_pos hcond] at h
                  simp only [Bool.and_eq_true, Option.isNone_iff_eq_none] at hcond
                  by_cases hself : (tr.prev == some p) = true
                  · rw [if_pos hself] at h
                    simp only [Option.some.injEq, Prod.mk.injEq] at h
                    rw [← h.1, ← h.2]
                    exact .selfHybrid hl hd hx hlx hdx hcond.1 hcond.2 (by simpa using hself)
                  · rw [if_neg hself] at h
                    cases hc : chainOf ph fuel tr.prev with
                    | none => rw [hc] at h; simp at h
                    | some r =>
                      rw [hc] at h
                      simp only [Option.map_some, Option.some.injEq, Prod.mk.injEq] at h
                      rw [← h.1, ← h.2]
                      exact .hybrid hl hd hx hlx hdx hcond.1 hcond.2 (ih _ _ _ hc)
                · rw [if_neg hcond] at h
                  simp at h

theorem nodupNat_sound (l : List Nat) (h : nodupNat l = true) : l.Nodup := by
  induction l with
  | nil => exact List.nodup_nil
  | cons a r ih =>
    simp only [nodupNat, Bool.and_eq_true, Bool.not_eq_true', List.contains_eq_mem, decide_eq_false_iff_not] at h
    exact List.nodup_cons.mpr ⟨h.1, ih h.2⟩

end PdfVerif.Xref
