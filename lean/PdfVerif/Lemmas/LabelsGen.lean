/-
C17 — the translated loop bodies of `format_int_roman` / `format_int_alpha`
(`Gen/LabelCode.lean`) equal the hand models of `Model/Labels.lean`, for every input.
-/
import PdfVerif.Model.LabelsGen
import PdfVerif.Lemmas.LabelsFinite

namespace PdfVerif.Lemmas.LabelsGen
open PdfVerif PdfVerif.Labels PdfVerif.LabelsPy PdfVerif.Gen.LabelCode PdfVerif.Gen.LabelTables
open PdfVerif.LabelsGen PdfVerif.Lemmas.LabelsFinite

theorem liftErr_pyIndex (l : List Text) (i : Nat) : liftErr (pyIndex l (i : Int)) = listGet l i := by
  unfold pyIndex listGet
  have : ¬ ((i : Int) < 0) := by omega
  simp only [this, if_false, Int.toNat_natCast]
  cases l[i]? <;> rfl

theorem pyRepeat_nat (s : Text) : ∀ n : Nat, pyRepeat s (n : Int) = rep s n
  | 0 => by simp [pyRepeat, rep]
  | n + 1 => by
    have ih := pyRepeat_nat s n
    simp only [pyRepeat, Int.toNat_natCast] at ih ⊢
    simp [List.replicate_succ, rep, ih]

theorem pyInsert_zero {α : Type} (l : List α) (x : α) : pyInsert l 0 x = x :: l := by
  simp [pyInsert]

theorem pyInsert_one {α : Type} (y : α) (l : List α) (x : α) : pyInsert (y :: l) 1 x = y :: x :: l := by
  simp [pyInsert]

theorem fdiv_nat (n k : Nat) : pyDiv (n : Int) (k : Int) = ((n / k : Nat) : Int) := by
  unfold pyDiv
  rw [Int.fdiv_eq_ediv_of_nonneg _ (by omega)]
  simp

theorem fmod_nat (n k : Nat) : pyMod (n : Int) (k : Int) = ((n % k : Nat) : Int) := by
  unfold pyMod
  rw [Int.fmod_eq_emod_of_nonneg _ (by omega)]
  simp

theorem liftErr_bind {α β : Type} (x : Except PyErr α) (f : α → Except PyErr β) :
    liftErr (x.bind f) = (liftErr x).bind (fun a => liftErr (f a)) := by
  cases x with
  | ok a => rfl
  | error e => cases e; rfl

theorem div10 (n : Nat) : pyDiv (n : Int) 10 = ((n / 10 : Nat) : Int) := fdiv_nat n 10
theorem mod10 (n : Nat) : pyMod (n : Int) 10 = ((n % 10 : Nat) : Int) := fmod_nat n 10

def ofOpt {α : Type} : Option α → Except PyErr α
  | some x => .ok x
  | none => .error .index

theorem pyIndex_cast {α : Type} (l : List α) (i : Nat) : pyIndex l (i : Int) = ofOpt l[i]? := by
  unfold pyIndex
  have : ¬ ((i : Int) < 0) := by omega
  simp only [this, if_false, Int.toNat_natCast]
  cases l[i]? <;> rfl

theorem pyIndex_cast_succ {α : Type} (l : List α) (i : Nat) : pyIndex l ((i : Int) + 1) = ofOpt l[i + 1]? := by
  have : ((i : Int) + 1) = ((i + 1 : Nat) : Int) := by omega
  rw [this, pyIndex_cast]

theorem listGet_eq (l : List Text) (i : Nat) : listGet l i = liftErr (ofOpt l[i]?) := by
  unfold listGet
  cases l[i]? <;> rfl

/-- ONE pass of the translated `while` body of `format_int_roman` is the hand model's `romanStep`
(with `value // 10` and `index + 1`), for every state. -/
theorem roman_body_eq (n i : Nat) (r : List Text) :
    liftErr (format_int_roman_body (n : Int) (i : Int) r) =
      (romanStep i (n % 10) r).map (fun r' => (((n / 10 : Nat) : Int), (i : Int) + 1, r')) := by
  unfold format_int_roman_body romanStep
  simp only [div10, mod10, pyIndex_cast, pyIndex_cast_succ, listGet_eq]
  have hr : ∀ k : Nat, 5 ≤ k → ((k : Int) - 5) = ((k - 5 : Nat) : Int) := by intro k hk; omega
  by_cases h9 : n % 10 = 9
  · cases ROMAN_ONES[i]? <;> cases ROMAN_ONES[i + 1]? <;>
      simp [h9, ofOpt, Except.bind, Except.map, liftErr, pyInsert_zero, pyInsert_one, bind, pure, Except.pure]
  by_cases h4 : n % 10 = 4
  · cases ROMAN_ONES[i]? <;> cases ROMAN_FIVES[i]? <;>
      simp [h4, ofOpt, Except.bind, Except.map, liftErr, pyInsert_zero, pyInsert_one, bind, pure, Except.pure]
  by_cases h5 : n % 10 ≥ 5
  · have h5' : ((n % 10 : Nat) : Int) ≥ 5 := by omega
    have h9' : ¬ (((n % 10 : Nat) : Int) = 9) := by omega
    have h4' : ¬ (((n % 10 : Nat) : Int) = 4) := by omega
    simp only [h9, h4, h5, h5', h9', h4', hr _ h5, pyRepeat_nat, decide_true, decide_false, if_true, if_false]
    cases ROMAN_ONES[i]? <;> cases ROMAN_FIVES[i]? <;>
      simp [ofOpt, Except.bind, Except.map, liftErr, pyInsert_zero, pyInsert_one, bind, pure, Except.pure]
  · have h5' : ¬ (((n % 10 : Nat) : Int) ≥ 5) := by omega
    have h9' : ¬ (((n % 10 : Nat) : Int) = 9) := by omega
    have h4' : ¬ (((n % 10 : Nat) : Int) = 4) := by omega
    simp only [h9, h4, h5, h5', h9', h4', pyRepeat_nat, decide_true, decide_false, if_true, if_false]
    cases ROMAN_ONES[i]? <;>
      simp [ofOpt, Except.bind, Except.map, liftErr, pyInsert_zero, pyInsert_one, bind, pure, Except.pure]

/-- The hand-written `while` glue over the translated body is the hand model's loop. -/
theorem romanWhile_eq : ∀ (f n i : Nat) (r : List Text),
    romanWhile f (n : Int) (i : Int) r = romanLoop f n i r
  | 0, n, i, r => by
    unfold romanWhile romanLoop format_int_roman_cond
    by_cases h : n = 0
    · subst h; simp
    · have : (n : Int) ≠ 0 := by omega
      simp [h, this]
  | f + 1, n, i, r => by
    unfold romanWhile romanLoop format_int_roman_cond
    by_cases h : n = 0
    · subst h; simp
    · have h' : (n : Int) ≠ 0 := by omega
      have hi : ((i : Int) + 1) = ((i + 1 : Nat) : Int) := by omega
      simp only [h, h', ne_eq, not_false_eq_true, decide_true, if_true, if_false, roman_body_eq]
      cases hs : romanStep i (n % 10) r with
      | error e => simp [Except.map, bind, Except.bind]
      | ok r' =>
        simp only [Except.map, bind, Except.bind, hi]
        exact romanWhile_eq f (n / 10) (i + 1) r'

theorem liftErr_ok {α : Type} (x : α) : liftErr (Except.ok x : Except PyErr α) = .ok x := rfl

theorem pyIndex_three {α : Type} (l : List α) : pyIndex l 3 = ofOpt l[3]? := pyIndex_cast l 3

theorem roman_init_eq (n : Nat) :
    format_int_roman_init (n : Int) = .ok (((n / 1000 : Nat) : Int), ((n % 1000 : Nat) : Int), 0, []) := by
  unfold format_int_roman_init
  have h1 : pyDiv (n : Int) 1000 = ((n / 1000 : Nat) : Int) := fdiv_nat n 1000
  have h2 : pyMod (n : Int) 1000 = ((n % 1000 : Nat) : Int) := fmod_nat n 1000
  simp only [h1, h2]

theorem roman_post_eq (k : Nat) (r : List Text) :
    liftErr (format_int_roman_post (k : Int) r) =
      (listGet ROMAN_ONES 3).bind (fun m => .ok ((rep m k :: r).flatten)) := by
  unfold format_int_roman_post
  simp only [pyIndex_three, listGet_eq, pyRepeat_nat, pyInsert_zero]
  cases ROMAN_ONES[3]? <;> rfl

/-- `format_int_roman` assembled from the translated pieces = the hand model, for EVERY integer. -/
theorem genFormatIntRoman_eq (v : Int) : genFormatIntRoman v = formatIntRoman v := by
  unfold genFormatIntRoman formatIntRoman format_int_roman_pre
  by_cases h : 0 < v ∧ v < ROMAN_MAX
  · have hv : v = (v.toNat : Int) := by omega
    have hw := romanWhile_eq 3 (v.toNat % 1000) 0 []
    simp only [Int.natCast_zero] at hw
    simp only [h.1, h.2, decide_true, Bool.and_self, and_self, if_true]
    rw [hv, roman_init_eq]
    simp only [liftErr_ok, hw, Int.toNat_natCast]
    cases romanLoop 3 (v.toNat % 1000) 0 [] with
    | error e => rfl
    | ok r' =>
      simp only [roman_post_eq]
      rfl
  · have : (decide (0 < v) && decide (v < ROMAN_MAX)) = false := by
      by_cases h0 : 0 < v
      · have : ¬ v < ROMAN_MAX := fun hm => h ⟨h0, hm⟩
        simp [h0, this]
      · simp [h0]
    simp [h, this]

/-! ### letters -/

def strIdxOk (m : Nat) : Bool :=
  match pyStrIndex ascii_lowercase (m : Int) with
  | .ok t => t == [97 + m]
  | .error _ => false

theorem strIdxOk_all : (List.range 26).all strIdxOk = true := by decide +kernel

theorem pyStrIndex_letters (m : Nat) (h : m < 26) : pyStrIndex ascii_lowercase (m : Int) = .ok [97 + m] := by
  have := all_range_lift strIdxOk_all m h
  unfold strIdxOk at this
  cases hc : pyStrIndex ascii_lowercase (m : Int) with
  | ok t => rw [hc] at this; simp at this; rw [this]
  | error e => rw [hc] at this; simp at this

theorem alpha_len : (ascii_lowercase.length : Int) = ((26 : Nat) : Int) := by decide

/-- ONE pass of the translated `while` body of `format_int_alpha`, for every positive value. -/
theorem alpha_body_eq (n : Nat) (h : 0 < n) (r : List Text) :
    liftErr (format_int_alpha_body (n : Int) r) =
      .ok ((((n - 1) / 26 : Nat) : Int), r ++ [[97 + (n - 1) % 26]]) := by
  have h1 : ((n : Int) - 1) = ((n - 1 : Nat) : Int) := by omega
  unfold format_int_alpha_body
  simp only [alpha_len, h1, fdiv_nat, fmod_nat]
  rw [pyStrIndex_letters _ (by omega)]
  rfl

/-- `result.reverse(); "".join(result)` -/
def alphaPost (r : List Text) : Text := r.reverse.flatten

theorem alpha_post_eq (r : List Text) : format_int_alpha_post r = .ok (alphaPost r) := rfl

theorem alpha_post_snoc (r : List Text) (c : Nat) :
    alphaPost (r ++ [[c]]) = c :: alphaPost r := by
  simp [alphaPost]

theorem alphaWhile_eq : ∀ (f n : Nat) (r : List Text),
    (alphaWhile f (n : Int) r).map alphaPost = .ok (alphaLoop f n (alphaPost r))
  | 0, n, r => by simp [alphaWhile, alphaLoop, Except.map]
  | f + 1, n, r => by
    unfold alphaWhile alphaLoop format_int_alpha_cond
    by_cases h : n = 0
    · subst h; simp [Except.map]
    · have h' : (n : Int) ≠ 0 := by omega
      simp only [h, h', ne_eq, not_false_eq_true, decide_true, if_true, if_false,
        alpha_body_eq n (by omega) r]
      rw [alphaWhile_eq f ((n - 1) / 26) (r ++ [[97 + (n - 1) % 26]]), alpha_post_snoc]

/-- `format_int_alpha` assembled from the translated pieces = the hand model, for EVERY integer. -/
theorem genFormatIntAlpha_eq (v : Int) : genFormatIntAlpha v = formatIntAlpha v := by
  unfold genFormatIntAlpha formatIntAlpha format_int_alpha_pre
  by_cases h : 0 < v
  · have hv : v = (v.toNat : Int) := by omega
    have := alphaWhile_eq v.toNat v.toNat []
    rw [← hv] at this
    have hp : alphaPost [] = [] := rfl
    have hi : liftErr (format_int_alpha_init v) = .ok (v, []) := rfl
    simp only [gt_iff_lt, h, decide_true, if_true, hi]
    cases hw : alphaWhile v.toNat v [] with
    | error e => rw [hw] at this; simp [Except.map] at this
    | ok r' =>
      rw [hw] at this
      simp only [Except.map, Except.ok.injEq, hp] at this
      simp only [alpha_post_eq, liftErr, this]
  · simp [h]

/-! ### `_format_page_label`, `labels` -/

theorem genFormatPageLabel_eq (v : Int) (style : Option Bytes) :
    genFormatPageLabel v style = formatPageLabel v style := by
  cases style with
  | none => rfl
  | some s =>
    unfold genFormatPageLabel formatPageLabel
    by_cases hD : s = styleD
    · subst hD; simp [format_page_label_chain, styleD, applyNumeral, Except.map]
    by_cases hR : s = styleR
    · subst hR
      simp [format_page_label_chain, styleD, styleR, applyNumeral, genFormatIntRoman_eq]
    by_cases hr : s = styler
    · subst hr
      simp [format_page_label_chain, styleD, styleR, styler, applyNumeral, genFormatIntRoman_eq]
      cases formatIntRoman v <;> rfl
    by_cases hA : s = styleA
    · subst hA
      simp [format_page_label_chain, styleD, styleR, styler, styleA, applyNumeral, genFormatIntAlpha_eq]
    by_cases ha : s = stylea
    · subst ha
      simp [format_page_label_chain, styleD, styleR, styler, styleA, stylea, applyNumeral, genFormatIntAlpha_eq]
      cases formatIntAlpha v <;> rfl
    · simp only [hD, hR, hr, hA, ha, if_false]
      simp only [styleD, styleR, styler, styleA, stylea] at hD hR hr hA ha
      have e1 : (s == ([68] : Bytes)) = false := beq_eq_false_iff_ne.mpr hD
      have e2 : (s == ([82] : Bytes)) = false := beq_eq_false_iff_ne.mpr hR
      have e3 : (s == ([114] : Bytes)) = false := beq_eq_false_iff_ne.mpr hr
      have e4 : (s == ([65] : Bytes)) = false := beq_eq_false_iff_ne.mpr hA
      have e5 : (s == ([97] : Bytes)) = false := beq_eq_false_iff_ne.mpr ha
      simp only [format_page_label_chain, List.find?, e1, e2, e3, e4, e5, format_page_label_else]

/-- A non-final range of `labels` from the translated constants and arithmetic = the hand model's
`rangeLabels` over `end − start` pages. -/
theorem genRangeLabels_eq (d : LabelDict) (s e : Int) :
    genRangeLabels d s e = rangeLabels d (e - s).toNat := by
  unfold genRangeLabels rangeLabels labels_values labels_range_length pyRange
  have h : d.st.getD labels_default_St + (e - s) - d.st.getD labels_default_St = e - s := by omega
  simp only [h, List.map_map]
  apply List.map_congr_left
  intro j _
  simp only [Function.comp, labelOf, firstValue, genFormatPageLabel_eq]
  rfl

end PdfVerif.Lemmas.LabelsGen
