/-
Helper lemmas for C17 (UTF-16 round trip, strict mode, bijective base 26).
-/
import PdfVerif.Lemmas.LabelRanges
import PdfVerif.Spec.LabelsExtra

namespace PdfVerif.Lemmas.LabelsExtra
open PdfVerif PdfVerif.Labels PdfVerif.Spec.Labels PdfVerif.Spec.LabelsExtra PdfVerif.Lemmas.LabelRanges

theorem units_unitBytes : ∀ (us : List Nat), (∀ u ∈ us, u < 65536) → units (us.flatMap unitBytes) = us
  | [], _ => rfl
  | u :: rest, h => by
    have hu : u < 65536 := h u (by simp)
    have hr := units_unitBytes rest (fun x hx => h x (by simp [hx]))
    simp only [List.flatMap_cons, unitBytes, List.cons_append, List.nil_append, units, hr]
    congr 1
    have h1 : u / 256 < 256 := by omega
    have h2 : u % 256 < 256 := by omega
    simp [UInt8.toNat_ofNat', Nat.mod_eq_of_lt h1, Nat.mod_eq_of_lt h2]
    omega

theorem decodeAux_scalars : ∀ (cs : List Nat), (∀ c ∈ cs, isScalar c = true) →
    decodeAux none (cs.flatMap unitsOfScalar) = cs
  | [], _ => rfl
  | c :: rest, h => by
    have hc : isScalar c = true := h c (by simp)
    have hr := decodeAux_scalars rest (fun x hx => h x (by simp [hx]))
    simp only [isScalar, Bool.and_eq_true, decide_eq_true_eq, Bool.not_eq_true', Bool.and_eq_false_iff,
      decide_eq_false_iff_not] at hc
    simp only [List.flatMap_cons, unitsOfScalar]
    by_cases hb : c < 0x10000
    · have h1 : isHigh c = false := by simp [isHigh]; omega
      have h2 : isLow c = false := by simp [isLow]; omega
      simp [hb, decodeAux, h1, h2, hr]
    · have h1 : isHigh (0xD800 + (c - 0x10000) / 0x400) = true := by simp [isHigh]; omega
      have h2 : isLow (0xDC00 + (c - 0x10000) % 0x400) = true := by simp [isLow]; omega
      have h3 : pair (0xD800 + (c - 0x10000) / 0x400) (0xDC00 + (c - 0x10000) % 0x400) = c := by
        unfold pair; omega
      simp only [hb, if_false, List.cons_append, List.nil_append, decodeAux, h1, if_true, h2, h3, hr]

theorem nonDecreasingFrom_of_ascendingFrom : ∀ (a : Int) (l : List Int), ascendingFrom a l = true → nonDecreasingFrom a l = true
  | _, [], _ => rfl
  | a, b :: tl, h => by
    simp only [ascendingFrom, Bool.and_eq_true, decide_eq_true_eq] at h
    simp only [nonDecreasingFrom, Bool.and_eq_true, decide_eq_true_eq]
    exact ⟨by omega, nonDecreasingFrom_of_ascendingFrom b tl h.2⟩

theorem nonDecreasing_of_ascending (l : List Int) (h : ascending l = true) : nonDecreasing l = true := by
  cases l with
  | nil => rfl
  | cons a tl => exact nonDecreasingFrom_of_ascendingFrom a tl h

theorem alphaLoop_value : ∀ (f v : Nat) (acc : Text), v ≤ f →
    (alphaLoop f v acc).foldl (fun a c => a * 26 + (c - 96)) 0 = acc.foldl (fun a c => a * 26 + (c - 96)) v
  | 0, v, acc, h => by
    have : v = 0 := by omega
    subst this; rfl
  | f + 1, v, acc, h => by
    simp only [alphaLoop]
    by_cases hv : v = 0
    · simp [hv]
    · simp only [hv, if_false]
      rw [alphaLoop_value f ((v - 1) / 26) _ (by have := Nat.div_le_self (v - 1) 26; omega)]
      simp only [List.foldl_cons]
      congr 1
      have := Nat.div_add_mod (v - 1) 26
      omega

theorem alphaValue_snoc (t : Text) (c : Nat) : alphaValue (t ++ [c]) = alphaValue t * 26 + (c - 96) := by
  simp [alphaValue, List.foldl_append]

/-- The loop writes back any letters string from its bijective base-26 value. -/
theorem alphaLoop_of_value : ∀ (s : Text), (∀ c ∈ s, 97 ≤ c ∧ c ≤ 122) → ∀ (f : Nat) (acc : Text),
    alphaValue s.reverse ≤ f → alphaLoop f (alphaValue s.reverse) acc = s.reverse ++ acc
  | [], _, f, acc, _ => by
    cases f <;> simp [alphaValue, alphaLoop]
  | c :: s, hs, f, acc, hf => by
    have hc : 97 ≤ c ∧ c ≤ 122 := hs c (by simp)
    have hs' : ∀ x ∈ s, 97 ≤ x ∧ x ≤ 122 := fun x hx => hs x (by simp [hx])
    simp only [List.reverse_cons, alphaValue_snoc] at hf ⊢
    cases f with
    | zero => omega
    | succ f' =>
      have hv : ¬ (alphaValue s.reverse * 26 + (c - 96) = 0) := by omega
      have h1 : (alphaValue s.reverse * 26 + (c - 96) - 1) / 26 = alphaValue s.reverse := by omega
      have h2 : 97 + (alphaValue s.reverse * 26 + (c - 96) - 1) % 26 = c := by omega
      simp only [alphaLoop, hv, if_false, h1, h2]
      rw [alphaLoop_of_value s hs' f' (c :: acc) (by omega)]
      simp

theorem alphaLoop_letters : ∀ (f v : Nat) (acc : Text), (∀ c ∈ acc, 97 ≤ c ∧ c ≤ 122) →
    ∀ c ∈ alphaLoop f v acc, 97 ≤ c ∧ c ≤ 122
  | 0, _, acc, h => by simpa [alphaLoop] using h
  | f + 1, v, acc, h => by
    simp only [alphaLoop]
    by_cases hv : v = 0
    · simpa [hv] using h
    · simp only [hv, if_false]
      apply alphaLoop_letters f
      intro c hc
      simp only [List.mem_cons] at hc
      rcases hc with rfl | hc
      · have := Nat.mod_lt (v - 1) (by decide : 26 > 0); omega
      · exact h c hc

end PdfVerif.Lemmas.LabelsExtra
