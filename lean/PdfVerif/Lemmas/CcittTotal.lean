/-
C19 helper lemmas, part 6: totality of the parser model on EVERY bit string — the only errors
are `InvalidData` (and `PDFValueError` for K ≠ -1); the internal `unmodelled` branches (a table
handing out a symbol of the wrong kind, a node that is not a list) are unreachable.
-/
import PdfVerif.Lemmas.CcittRun

namespace PdfVerif.Ccitt
open PdfVerif.Gen

/-- Every leaf below a trie node satisfies `p`. -/
def Trie.allLeaves (p : Sym → Bool) : Trie → Bool
  | .empty => true
  | .leaf s => p s
  | .node l r => Trie.allLeaves p l && Trie.allLeaves p r

/-- The kind of symbol each `_accept` callback can digest. -/
def leafOk : Acc → Sym → Bool
  | .mode, .mode _ => true
  | .horiz1, .run _ => true
  | .horiz2, .run _ => true
  | .unc, .unc u => (!u.term || !u.bits.isEmpty) && decide (u.bits.length ≤ 6)
  | _, _ => false

/-- `_state` is an inner node of the table that goes with `_accept`. -/
structure WT (st : St) : Prop where
  isNode : st.node.isNode = true
  leaves : st.node.allLeaves (leafOk st.acc) = true

theorem roots_ok :
    (modeTrie.isNode = true ∧ modeTrie.allLeaves (leafOk .mode) = true) ∧
    (whiteTrie.isNode = true ∧ whiteTrie.allLeaves (leafOk .horiz1) = true ∧ whiteTrie.allLeaves (leafOk .horiz2) = true) ∧
    (blackTrie.isNode = true ∧ blackTrie.allLeaves (leafOk .horiz1) = true ∧ blackTrie.allLeaves (leafOk .horiz2) = true) ∧
    (uncTrie.isNode = true ∧ uncTrie.allLeaves (leafOk .unc) = true) := by
  decide +kernel

theorem wt_mode (st : St) (ha : st.acc = .mode) (hn : st.node = modeTrie) : WT st :=
  ⟨by rw [hn]; exact roots_ok.1.1, by rw [hn, ha]; exact roots_ok.1.2⟩

theorem wt_run1 (st : St) (c : Bool) (ha : st.acc = .horiz1) (hn : st.node = runTrie c) : WT st := by
  cases c
  · exact ⟨by rw [hn]; exact roots_ok.2.2.1.1, by rw [hn, ha]; exact roots_ok.2.2.1.2.1⟩
  · exact ⟨by rw [hn]; exact roots_ok.2.1.1, by rw [hn, ha]; exact roots_ok.2.1.2.1⟩

theorem wt_run2 (st : St) (c : Bool) (ha : st.acc = .horiz2) (hn : st.node = runTrie c) : WT st := by
  cases c
  · exact ⟨by rw [hn]; exact roots_ok.2.2.1.1, by rw [hn, ha]; exact roots_ok.2.2.1.2.2⟩
  · exact ⟨by rw [hn]; exact roots_ok.2.1.1, by rw [hn, ha]; exact roots_ok.2.1.2.2⟩

theorem wt_unc (st : St) (ha : st.acc = .unc) (hn : st.node = uncTrie) : WT st :=
  ⟨by rw [hn]; exact roots_ok.2.2.2.1, by rw [hn, ha]; exact roots_ok.2.2.2.2⟩

/-- The outcome of a step is fine: an `InvalidData`, the end of the block, or a well-typed state. -/
def StepOk : Except Err (St × Sig) → Prop
  | .error e => e = .invalidData
  | .ok (_, .eofb) => True
  | .ok (st', _) => WT st'

theorem afterFlush_ok (st : St) : StepOk (.ok (afterFlush st)) := by
  simp only [afterFlush]
  generalize flushLine st = r
  obtain ⟨st', skip⟩ := r
  cases skip <;> exact wt_mode _ rfl rfl

theorem flushLine_acc (st : St) : (flushLine st).1.acc = st.acc := by
  simp only [flushLine]; split <;> rfl

/-- With the regenerated indices (`bits[1]`, `bits[2:]` of `"T…"`): first bit = colour, rest = data. -/
theorem uncSplit_cons (c : Bool) (rest : List Bool) : uncSplit (c :: rest) = some (c, rest) := rfl
theorem uncSplit_nil : uncSplit [] = none := rfl

theorem doUncompressed_acc : ∀ (bits : List Bool) (st : St), (doUncompressed st bits).1.acc = st.acc := by
  intro bits
  induction bits with
  | nil => intro st; rfl
  | cons c cs ih =>
    intro st
    simp only [doUncompressed]
    generalize hst1 : ({ st with curline := _, curpos := CcittCode.uncStep st.curpos } : St) = st1
    have h1 : st1.acc = st.acc := by rw [← hst1]
    have h2 := flushLine_acc st1
    generalize flushLine st1 = r at h2
    obtain ⟨st2, skip⟩ := r
    cases skip
    · simp only [Bool.false_eq_true, if_false]; rw [ih st2]; exact h2.trans h1
    · simp only [if_true]; exact h2.trans h1

theorem modeAction_str_ne_vertical (m : Mode) (h : ∀ d, m ≠ .v d) :
    modeAction (some (.mode m)) ≠ .vertical := by
  cases m with
  | v d => exact absurd rfl (h d)
  | h => decide
  | p => decide
  | u => decide
  | e => decide
  | x n =>
    have e1 : (Mode.x n == Mode.p) = false := by rw [beq_eq_false_iff_ne]; intro h; cases h
    have e2 : (Mode.x n == Mode.h) = false := by rw [beq_eq_false_iff_ne]; intro h; cases h
    have e3 : (Mode.x n == Mode.u) = false := by rw [beq_eq_false_iff_ne]; intro h; cases h
    have e4 : (Mode.x n == Mode.e) = false := by rw [beq_eq_false_iff_ne]; intro h; cases h
    simp [modeAction, CcittCode.modeDispatch, CcittCode.modeElseAction, List.lookup, e1, e2, e3, e4]

theorem parseMode_ok (st : St) (v : Option Sym) (hv : ∀ s, v = some s → leafOk .mode s = true) :
    StepOk (parseMode st v) := by
  unfold parseMode
  cases hact : modeAction v with
  | pass => exact afterFlush_ok _
  | horiz => exact wt_run1 _ st.color rfl rfl
  | unc => exact wt_unc _ rfl rfl
  | eofb => trivial
  | invalid => rfl
  | vertical =>
    cases v with
    | none => simp [modeAction, CcittCode.modeElseAction] at hact
    | some s =>
      cases s with
      | run n => exact afterFlush_ok _
      | unc u => have := hv _ rfl; simp [leafOk] at this
      | mode m =>
        cases m with
        | v d => exact afterFlush_ok _
        | h => exact absurd hact (modeAction_str_ne_vertical _ (by intro d; simp))
        | p => exact absurd hact (modeAction_str_ne_vertical _ (by intro d; simp))
        | u => exact absurd hact (modeAction_str_ne_vertical _ (by intro d; simp))
        | e => exact absurd hact (modeAction_str_ne_vertical _ (by intro d; simp))
        | x n => exact absurd hact (modeAction_str_ne_vertical _ (by intro d; simp))

theorem accept_ok (st : St) (v : Option Sym) (hv : ∀ s, v = some s → leafOk st.acc s = true) :
    StepOk (accept st v) := by
  unfold accept
  cases ha : st.acc with
  | mode => exact parseMode_ok st v (by rw [ha] at hv; exact hv)
  | horiz1 =>
    cases v with
    | none => rfl
    | some s =>
      have := hv s rfl
      rw [ha] at this
      cases s with
      | run n =>
        simp only [parseHoriz1]
        split
        · exact wt_run2 _ _ rfl rfl
        · exact wt_run1 _ st.color ha rfl
      | mode m => simp [leafOk] at this
      | unc u => simp [leafOk] at this
  | horiz2 =>
    cases v with
    | none => rfl
    | some s =>
      have := hv s rfl
      rw [ha] at this
      cases s with
      | run n =>
        simp only [parseHoriz2]
        split
        · exact afterFlush_ok _
        · exact wt_run2 _ st.color ha rfl
      | mode m => simp [leafOk] at this
      | unc u => simp [leafOk] at this
  | unc =>
    cases v with
    | none => rfl
    | some s =>
      have := hv s rfl
      rw [ha] at this
      cases s with
      | mode m => simp [leafOk] at this
      | run n => simp [leafOk] at this
      | unc u =>
        simp only [parseUncompressed]
        by_cases ht : u.term = true
        · simp only [ht, if_true]
          cases hb : u.bits with
          | nil => simp [leafOk, ht, hb] at this
          | cons c rest =>
            simp only [uncSplit_cons]
            generalize doUncompressed _ rest = r
            obtain ⟨st', skip⟩ := r
            cases skip <;> exact wt_mode _ rfl rfl
        · simp only [ht, Bool.false_eq_true, if_false]
          have hacc := doUncompressed_acc u.bits st
          generalize doUncompressed st u.bits = r at hacc
          obtain ⟨st', skip⟩ := r
          cases skip
          · simp only [Bool.false_eq_true, if_false]
            exact wt_unc _ (by simpa [ha] using hacc) rfl
          · simp only [if_true]
            exact wt_mode _ rfl rfl

theorem stepBit_ok (st : St) (b : Bool) (h : WT st) : StepOk (stepBit st b) := by
  unfold stepBit
  cases hn : st.node with
  | empty => have := h.isNode; rw [hn] at this; simp [Trie.isNode] at this
  | leaf s => have := h.isNode; rw [hn] at this; simp [Trie.isNode] at this
  | node l r =>
    have hl := h.leaves
    rw [hn] at hl
    simp only [Trie.allLeaves, Bool.and_eq_true] at hl
    simp only []
    cases hc : (if b then r else l) with
    | node a c =>
      simp only []
      refine ⟨rfl, ?_⟩
      have : Trie.allLeaves (leafOk st.acc) (if b then r else l) = true := by
        cases b <;> simp [hl.1, hl.2]
      rw [hc] at this
      exact this
    | empty =>
      simp only []
      exact accept_ok _ none (by intro s hs; cases hs)
    | leaf s =>
      simp only []
      refine accept_ok _ (some s) ?_
      intro s' hs'
      cases hs'
      have : Trie.allLeaves (leafOk st.acc) (if b then r else l) = true := by
        cases b <;> simp [hl.1, hl.2]
      rw [hc] at this
      exact this

theorem feedBits_ok : ∀ (bits : List Bool) (st : St), WT st → StepOk (feedBits st bits) := by
  intro bits
  induction bits with
  | nil => intro st h; exact h
  | cons b bs ih =>
    intro st h
    have hs := stepBit_ok st b h
    simp only [feedBits]
    cases hr : stepBit st b with
    | error e => rw [hr] at hs; exact hs
    | ok r =>
      obtain ⟨st', sg⟩ := r
      rw [hr] at hs
      cases sg with
      | cont => exact ih st' hs
      | byteSkip => exact hs
      | eofb => trivial

/-- `feedbytes` on any data from a well-typed state: a result or `InvalidData`. -/
theorem feedBytes_total : ∀ (data : List UInt8) (st : St), WT st →
    (∃ st', feedBytes st data = .ok st') ∨ feedBytes st data = .error .invalidData := by
  intro data
  induction data with
  | nil => intro st _; exact Or.inl ⟨st, rfl⟩
  | cons b bs ih =>
    intro st h
    have hs := feedBits_ok (bitsOfByte b) st h
    simp only [feedBytes]
    cases hr : feedBits st (bitsOfByte b) with
    | error e => rw [hr] at hs; simp only [StepOk] at hs; subst hs; exact Or.inr rfl
    | ok r =>
      obtain ⟨st', sg⟩ := r
      rw [hr] at hs
      cases sg with
      | cont => exact ih st' hs
      | byteSkip => exact ih st' hs
      | eofb => exact Or.inl ⟨st', rfl⟩

end PdfVerif.Ccitt
