/-
C03 helper lemmas — ASCII85.  Core Lean only.
-/
import PdfVerif.Lemmas.FiltersCodec

namespace PdfVerif.Filters
open PdfVerif PdfVerif.FilterEnc

/-- White space emitted by the encoder is skipped by the `a85decode` loop. -/
theorem a85loop_ws6 (i : Nat) (curr : List Nat) (rest : Bytes) :
    a85loop curr (ws6 i ++ rest) = a85loop curr rest := by
  unfold ws6
  repeat' split
  all_goals simp [a85loop, isA85Ignore]

theorem be32_be32val (a b c d : UInt8) : be32 (be32val a b c d) = [a, b, c, d] := by
  have ha := a.toNat_lt
  have hb := b.toNat_lt
  have hc := c.toNat_lt
  have hd := d.toNat_lt
  unfold be32 be32val
  have h1 : (a.toNat * 16777216 + b.toNat * 65536 + c.toNat * 256 + d.toNat) / 16777216 = a.toNat := by omega
  have h2 : (a.toNat * 16777216 + b.toNat * 65536 + c.toNat * 256 + d.toNat) / 65536 % 256 = b.toNat := by omega
  have h3 : (a.toNat * 16777216 + b.toNat * 65536 + c.toNat * 256 + d.toNat) / 256 % 256 = c.toNat := by omega
  have h4 : (a.toNat * 16777216 + b.toNat * 65536 + c.toNat * 256 + d.toNat) % 256 = d.toNat := by omega
  rw [h1, h2, h3, h4]
  simp only [UInt8.ofNat_toNat]

theorem be32val_lt (a b c d : UInt8) : be32val a b c d < 4294967296 := by
  have ha := a.toNat_lt
  have hb := b.toNat_lt
  have hc := c.toNat_lt
  have hd := d.toNat_lt
  unfold be32val; omega

/-- Five digits of a value below 2^32 decode to its four big-endian bytes. -/
theorem a85loop_digits (v : Nat) (hv : v < 4294967296) (rest : Bytes) :
    a85loop [] (a85digits v ++ rest) =
      match a85loop [] rest with
      | .ok (out, c) => .ok (be32 v ++ out, c)
      | .error e => .error e := by
  have t0 := toNat_ofNat_lt (v / 52200625 % 85 + 33) (by omega)
  have t1 := toNat_ofNat_lt (v / 614125 % 85 + 33) (by omega)
  have t2 := toNat_ofNat_lt (v / 7225 % 85 + 33) (by omega)
  have t3 := toNat_ofNat_lt (v / 85 % 85 + 33) (by omega)
  have t4 := toNat_ofNat_lt (v % 85 + 33) (by omega)
  have r0 : 33 ≤ v / 52200625 % 85 + 33 ∧ v / 52200625 % 85 + 33 ≤ 117 := by omega
  have r1 : 33 ≤ v / 614125 % 85 + 33 ∧ v / 614125 % 85 + 33 ≤ 117 := by omega
  have r2 : 33 ≤ v / 7225 % 85 + 33 ∧ v / 7225 % 85 + 33 ≤ 117 := by omega
  have r3 : 33 ≤ v / 85 % 85 + 33 ∧ v / 85 % 85 + 33 ≤ 117 := by omega
  have r4 : 33 ≤ v % 85 + 33 ∧ v % 85 + 33 ≤ 117 := by omega
  have hacc : a85acc [v / 52200625 % 85 + 33, v / 614125 % 85 + 33, v / 7225 % 85 + 33, v / 85 % 85 + 33, v % 85 + 33] = v := by
    simp only [a85acc, List.foldl]
    omega
  have hge : ¬ (v ≥ 4294967296) := by omega
  simp only [a85digits, List.cons_append, List.nil_append, a85loop, t0, t1, t2, t3, t4, r0, r1, r2, r3, r4,
    and_self, if_true, List.length_cons, List.length_nil]
  simp only [hacc, hge, if_false]
  cases a85loop [] rest with
  | error e => rfl
  | ok p => rfl

theorem a85loop_z (rest : Bytes) :
    a85loop [] (122 :: rest) =
      match a85loop [] rest with
      | .ok (out, c) => .ok ([0, 0, 0, 0] ++ out, c)
      | .error e => .error e := by
  have h : ¬ (33 ≤ (122 : UInt8).toNat ∧ (122 : UInt8).toNat ≤ 117) := by decide
  simp only [a85loop, h, if_false]
  simp only [beq_self_eq_true, if_true, List.isEmpty_nil, Bool.not_true, Bool.false_eq_true, if_false]
  cases a85loop [] rest with
  | error e => rfl
  | ok p => rfl

theorem a85loop_u4 : a85loop [] [117, 117, 117, 117] = .ok ([], [117, 117, 117, 117]) := by decide

theorem byte_zero_of_toNat (a : UInt8) (h : a.toNat = 0) : a = 0 := by
  have := UInt8.ofNat_toNat (x := a); rw [h] at this; exact this.symm

theorem a85loop_digit (curr : List Nat) (x : UInt8) (rest : Bytes) (hx : 33 ≤ x.toNat ∧ x.toNat ≤ 117)
    (hlen : curr.length < 4) : a85loop curr (x :: rest) = a85loop (curr ++ [x.toNat]) rest := by
  rw [a85loop]
  have h5 : ((curr ++ [x.toNat]).length == 5) = false := by simp; omega
  simp only [hx, and_self, if_true, h5, Bool.false_eq_true, if_false]

theorem a85loop_digit5 (curr : List Nat) (x : UInt8) (rest : Bytes) (hx : 33 ≤ x.toNat ∧ x.toNat ≤ 117)
    (hlen : curr.length = 4) (hacc : a85acc (curr ++ [x.toNat]) < 4294967296) :
    a85loop curr (x :: rest) =
      match a85loop [] rest with
      | .ok (out, c) => .ok (be32 (a85acc (curr ++ [x.toNat])) ++ out, c)
      | .error e => .error e := by
  rw [a85loop]
  have h5 : ((curr ++ [x.toNat]).length == 5) = true := by simp; omega
  have hge : ¬ (a85acc (curr ++ [x.toNat]) ≥ 4294967296) := by omega
  simp only [hx, and_self, if_true, h5, hge, if_false]
  cases a85loop [] rest with
  | error e => rfl
  | ok p => rfl

theorem a85loop_nil (curr : List Nat) : a85loop curr [] = .ok ([], curr) := by
  rw [a85loop]

theorem u_digit : 33 ≤ (117 : UInt8).toNat ∧ (117 : UInt8).toNat ≤ 117 := by decide

theorem a85_digit_sum (v : Nat) (hv : v < 4294967296) :
    v = v / 52200625 % 85 * 52200625 + v / 614125 % 85 * 614125 + v / 7225 % 85 * 7225 + v / 85 % 85 * 85 + v % 85 := by
  omega

theorem be32_head3 (a b c : UInt8) (e : Nat) (he : e < 256) :
    ∃ j, be32 (a.toNat * 16777216 + b.toNat * 65536 + c.toNat * 256 + e) = [a, b, c, j] := by
  have ha := a.toNat_lt
  have hb := b.toNat_lt
  have hc := c.toNat_lt
  refine ⟨UInt8.ofNat ((a.toNat * 16777216 + b.toNat * 65536 + c.toNat * 256 + e) % 256), ?_⟩
  unfold be32
  have h1 : (a.toNat * 16777216 + b.toNat * 65536 + c.toNat * 256 + e) / 16777216 = a.toNat := by omega
  have h2 : (a.toNat * 16777216 + b.toNat * 65536 + c.toNat * 256 + e) / 65536 % 256 = b.toNat := by omega
  have h3 : (a.toNat * 16777216 + b.toNat * 65536 + c.toNat * 256 + e) / 256 % 256 = c.toNat := by omega
  rw [h1, h2, h3]; simp only [UInt8.ofNat_toNat]

theorem be32_head2 (a b : UInt8) (e : Nat) (he : e < 65536) :
    ∃ j k, be32 (a.toNat * 16777216 + b.toNat * 65536 + e) = [a, b, j, k] := by
  have ha := a.toNat_lt
  have hb := b.toNat_lt
  refine ⟨UInt8.ofNat ((a.toNat * 16777216 + b.toNat * 65536 + e) / 256 % 256),
    UInt8.ofNat ((a.toNat * 16777216 + b.toNat * 65536 + e) % 256), ?_⟩
  unfold be32
  have h1 : (a.toNat * 16777216 + b.toNat * 65536 + e) / 16777216 = a.toNat := by omega
  have h2 : (a.toNat * 16777216 + b.toNat * 65536 + e) / 65536 % 256 = b.toNat := by omega
  rw [h1, h2]; simp only [UInt8.ofNat_toNat]

theorem be32_head1 (a : UInt8) (e : Nat) (he : e < 16777216) :
    ∃ j k l, be32 (a.toNat * 16777216 + e) = [a, j, k, l] := by
  have ha := a.toNat_lt
  refine ⟨UInt8.ofNat ((a.toNat * 16777216 + e) / 65536 % 256), UInt8.ofNat ((a.toNat * 16777216 + e) / 256 % 256),
    UInt8.ofNat ((a.toNat * 16777216 + e) % 256), ?_⟩
  unfold be32
  have h1 : (a.toNat * 16777216 + e) / 16777216 = a.toNat := by omega
  rw [h1]; simp only [UInt8.ofNat_toNat]

/-- Final group of three bytes (four digits). -/
theorem a85loop_tail3 (a b c : UInt8) (i : Nat) :
    ∃ j, a85loop [] ((a85digits (be32val a b c 0)).take 4 ++ ws6 i ++ [117, 117, 117, 117])
      = .ok ([a, b, c, j], [117, 117, 117]) := by
  have ha := a.toNat_lt
  have hb := b.toNat_lt
  have hc := c.toNat_lt
  have hv : be32val a b c 0 = a.toNat * 16777216 + b.toNat * 65536 + c.toNat * 256 := by simp [be32val]
  generalize hvv : be32val a b c 0 = v at hv
  have hsum := a85_digit_sum v (by omega)
  have t0 := toNat_ofNat_lt (v / 52200625 % 85 + 33) (by omega)
  have t1 := toNat_ofNat_lt (v / 614125 % 85 + 33) (by omega)
  have t2 := toNat_ofNat_lt (v / 7225 % 85 + 33) (by omega)
  have t3 := toNat_ofNat_lt (v / 85 % 85 + 33) (by omega)
  have r0 : 33 ≤ v / 52200625 % 85 + 33 ∧ v / 52200625 % 85 + 33 ≤ 117 := by omega
  have r1 : 33 ≤ v / 614125 % 85 + 33 ∧ v / 614125 % 85 + 33 ≤ 117 := by omega
  have r2 : 33 ≤ v / 7225 % 85 + 33 ∧ v / 7225 % 85 + 33 ≤ 117 := by omega
  have r3 : 33 ≤ v / 85 % 85 + 33 ∧ v / 85 % 85 + 33 ≤ 117 := by omega
  have hu : (117 : UInt8).toNat = 117 := rfl
  have hd4 : v % 85 < 85 := Nat.mod_lt _ (by omega)
  have hacc : ∃ e, e < 256 ∧
      a85acc [v / 52200625 % 85 + 33, v / 614125 % 85 + 33, v / 7225 % 85 + 33, v / 85 % 85 + 33, 117] = v + e := by
    refine ⟨84 - v % 85, by omega, ?_⟩
    simp only [a85acc, List.foldl]
    generalize v / 52200625 % 85 = d0 at hsum ⊢
    generalize v / 614125 % 85 = d1 at hsum ⊢
    generalize v / 7225 % 85 = d2 at hsum ⊢
    generalize v / 85 % 85 = d3 at hsum ⊢
    generalize v % 85 = d4 at hsum hd4 ⊢
    omega
  obtain ⟨e, he, hacc⟩ := hacc
  obtain ⟨j, hj⟩ := be32_head3 a b c e he
  rw [← hv] at hj
  have hge : ¬ (v + e ≥ 4294967296) := by omega
  refine ⟨j, ?_⟩
  have x0 : 33 ≤ (UInt8.ofNat (v / 52200625 % 85 + 33)).toNat ∧ (UInt8.ofNat (v / 52200625 % 85 + 33)).toNat ≤ 117 := by
    rw [t0]; exact r0
  have x1 : 33 ≤ (UInt8.ofNat (v / 614125 % 85 + 33)).toNat ∧ (UInt8.ofNat (v / 614125 % 85 + 33)).toNat ≤ 117 := by
    rw [t1]; exact r1
  have x2 : 33 ≤ (UInt8.ofNat (v / 7225 % 85 + 33)).toNat ∧ (UInt8.ofNat (v / 7225 % 85 + 33)).toNat ≤ 117 := by
    rw [t2]; exact r2
  have x3 : 33 ≤ (UInt8.ofNat (v / 85 % 85 + 33)).toNat ∧ (UInt8.ofNat (v / 85 % 85 + 33)).toNat ≤ 117 := by
    rw [t3]; exact r3
  simp only [a85digits, List.take, List.cons_append, List.nil_append]
  rw [a85loop_digit _ _ _ x0 (by simp), a85loop_digit _ _ _ x1 (by simp), a85loop_digit _ _ _ x2 (by simp),
    a85loop_digit _ _ _ x3 (by simp), a85loop_ws6]
  simp only [List.nil_append, List.cons_append, t0, t1, t2, t3]
  rw [a85loop_digit5 _ _ _ u_digit (by simp) (by simp only [List.cons_append, List.nil_append, hu, hacc]; omega)]
  rw [a85loop_digit _ _ _ u_digit (by simp), a85loop_digit _ _ _ u_digit (by simp), a85loop_digit _ _ _ u_digit (by simp),
    a85loop_nil]
  simp only [List.cons_append, List.nil_append, hu, hacc, hj, List.append_nil]

/-- Final group of two bytes (three digits). -/
theorem a85loop_tail2 (a b : UInt8) (i : Nat) :
    ∃ j k, a85loop [] ((a85digits (be32val a b 0 0)).take 3 ++ ws6 i ++ [117, 117, 117, 117])
      = .ok ([a, b, j, k], [117, 117]) := by
  have ha := a.toNat_lt
  have hb := b.toNat_lt
  have hv : be32val a b 0 0 = a.toNat * 16777216 + b.toNat * 65536 := by simp [be32val]
  generalize hvv : be32val a b 0 0 = v at hv
  have hsum := a85_digit_sum v (by omega)
  have t0 := toNat_ofNat_lt (v / 52200625 % 85 + 33) (by omega)
  have t1 := toNat_ofNat_lt (v / 614125 % 85 + 33) (by omega)
  have t2 := toNat_ofNat_lt (v / 7225 % 85 + 33) (by omega)
  have r0 : 33 ≤ v / 52200625 % 85 + 33 ∧ v / 52200625 % 85 + 33 ≤ 117 := by omega
  have r1 : 33 ≤ v / 614125 % 85 + 33 ∧ v / 614125 % 85 + 33 ≤ 117 := by omega
  have r2 : 33 ≤ v / 7225 % 85 + 33 ∧ v / 7225 % 85 + 33 ≤ 117 := by omega
  have hu : (117 : UInt8).toNat = 117 := rfl
  have hd4 : v % 85 < 85 := Nat.mod_lt _ (by omega)
  have hd3 : v / 85 % 85 < 85 := Nat.mod_lt _ (by omega)
  have hacc : ∃ e, e < 65536 ∧
      a85acc [v / 52200625 % 85 + 33, v / 614125 % 85 + 33, v / 7225 % 85 + 33, 117, 117] = v + e := by
    refine ⟨7224 - (v / 85 % 85 * 85 + v % 85), by omega, ?_⟩
    simp only [a85acc, List.foldl]
    generalize v / 52200625 % 85 = d0 at hsum ⊢
    generalize v / 614125 % 85 = d1 at hsum ⊢
    generalize v / 7225 % 85 = d2 at hsum ⊢
    generalize v / 85 % 85 = d3 at hsum hd3 ⊢
    generalize v % 85 = d4 at hsum hd4 ⊢
    omega
  obtain ⟨e, he, hacc⟩ := hacc
  obtain ⟨j, k, hj⟩ := be32_head2 a b e he
  rw [← hv] at hj
  have hge : ¬ (v + e ≥ 4294967296) := by omega
  refine ⟨j, k, ?_⟩
  have x0 : 33 ≤ (UInt8.ofNat (v / 52200625 % 85 + 33)).toNat ∧ (UInt8.ofNat (v / 52200625 % 85 + 33)).toNat ≤ 117 := by
    rw [t0]; exact r0
  have x1 : 33 ≤ (UInt8.ofNat (v / 614125 % 85 + 33)).toNat ∧ (UInt8.ofNat (v / 614125 % 85 + 33)).toNat ≤ 117 := by
    rw [t1]; exact r1
  have x2 : 33 ≤ (UInt8.ofNat (v / 7225 % 85 + 33)).toNat ∧ (UInt8.ofNat (v / 7225 % 85 + 33)).toNat ≤ 117 := by
    rw [t2]; exact r2
  simp only [a85digits, List.take, List.cons_append, List.nil_append]
  rw [a85loop_digit _ _ _ x0 (by simp), a85loop_digit _ _ _ x1 (by simp), a85loop_digit _ _ _ x2 (by simp), a85loop_ws6]
  simp only [List.nil_append, List.cons_append, t0, t1, t2]
  rw [a85loop_digit _ _ _ u_digit (by simp)]
  rw [a85loop_digit5 _ _ _ u_digit (by simp) (by simp only [List.cons_append, List.nil_append, hu, hacc]; omega)]
  rw [a85loop_digit _ _ _ u_digit (by simp), a85loop_digit _ _ _ u_digit (by simp), a85loop_nil]
  simp only [List.cons_append, List.nil_append, hu, hacc, hj, List.append_nil]

/-- Final group of one byte (two digits). -/
theorem a85loop_tail1 (a : UInt8) (i : Nat) :
    ∃ j k l, a85loop [] ((a85digits (be32val a 0 0 0)).take 2 ++ ws6 i ++ [117, 117, 117, 117])
      = .ok ([a, j, k, l], [117]) := by
  have ha := a.toNat_lt
  have hv : be32val a 0 0 0 = a.toNat * 16777216 := by simp [be32val]
  generalize hvv : be32val a 0 0 0 = v at hv
  have hsum := a85_digit_sum v (by omega)
  have t0 := toNat_ofNat_lt (v / 52200625 % 85 + 33) (by omega)
  have t1 := toNat_ofNat_lt (v / 614125 % 85 + 33) (by omega)
  have r0 : 33 ≤ v / 52200625 % 85 + 33 ∧ v / 52200625 % 85 + 33 ≤ 117 := by omega
  have r1 : 33 ≤ v / 614125 % 85 + 33 ∧ v / 614125 % 85 + 33 ≤ 117 := by omega
  have hu : (117 : UInt8).toNat = 117 := rfl
  have hd4 : v % 85 < 85 := Nat.mod_lt _ (by omega)
  have hd3 : v / 85 % 85 < 85 := Nat.mod_lt _ (by omega)
  have hd2 : v / 7225 % 85 < 85 := Nat.mod_lt _ (by omega)
  have hacc : ∃ e, e < 16777216 ∧
      a85acc [v / 52200625 % 85 + 33, v / 614125 % 85 + 33, 117, 117, 117] = v + e := by
    refine ⟨614124 - (v / 7225 % 85 * 7225 + v / 85 % 85 * 85 + v % 85), by omega, ?_⟩
    simp only [a85acc, List.foldl]
    generalize v / 52200625 % 85 = d0 at hsum ⊢
    generalize v / 614125 % 85 = d1 at hsum ⊢
    generalize v / 7225 % 85 = d2 at hsum hd2 ⊢
    generalize v / 85 % 85 = d3 at hsum hd3 ⊢
    generalize v % 85 = d4 at hsum hd4 ⊢
    omega
  obtain ⟨e, he, hacc⟩ := hacc
  obtain ⟨j, k, l, hj⟩ := be32_head1 a e he
  rw [← hv] at hj
  have hge : ¬ (v + e ≥ 4294967296) := by omega
  refine ⟨j, k, l, ?_⟩
  have x0 : 33 ≤ (UInt8.ofNat (v / 52200625 % 85 + 33)).toNat ∧ (UInt8.ofNat (v / 52200625 % 85 + 33)).toNat ≤ 117 := by
    rw [t0]; exact r0
  have x1 : 33 ≤ (UInt8.ofNat (v / 614125 % 85 + 33)).toNat ∧ (UInt8.ofNat (v / 614125 % 85 + 33)).toNat ≤ 117 := by
    rw [t1]; exact r1
  simp only [a85digits, List.take, List.cons_append, List.nil_append]
  rw [a85loop_digit _ _ _ x0 (by simp), a85loop_digit _ _ _ x1 (by simp), a85loop_ws6]
  simp only [List.nil_append, List.cons_append, t0, t1]
  rw [a85loop_digit _ _ _ u_digit (by simp), a85loop_digit _ _ _ u_digit (by simp)]
  rw [a85loop_digit5 _ _ _ u_digit (by simp) (by simp only [List.cons_append, List.nil_append, hu, hacc]; omega)]
  rw [a85loop_digit _ _ _ u_digit (by simp), a85loop_nil]
  simp only [List.cons_append, List.nil_append, hu, hacc, hj, List.append_nil]

/-- The decoding loop over the encoder's body followed by the four padding `u`s yields the data,
then `4 - |curr|` junk bytes (which `a85decode` cuts off). -/
theorem a85_body_loop (cs : List Nat) (x : Bytes) :
    ∃ junk c, a85loop [] (a85Body cs x ++ [117, 117, 117, 117]) = .ok (x ++ junk, c) ∧
      junk.length = 4 - c.length ∧ c.length ≤ 4 := by
  fun_induction a85Body cs x with
  | case1 cs a b c d rest ih =>
    obtain ⟨junk, cc, hl, hj, hc⟩ := ih
    refine ⟨junk, cc, ?_, hj, hc⟩
    by_cases hz : (be32val a b c d == 0 && hd0 cs % 2 == 1) = true
    · simp only [hz, if_true, List.append_assoc, List.cons_append, List.nil_append]
      rw [a85loop_z, a85loop_ws6, hl]
      have h0 : be32val a b c d = 0 := by
        simp only [Bool.and_eq_true, beq_iff_eq] at hz; exact hz.1
      have := be32_be32val a b c d
      rw [h0] at this
      have h4 : [a, b, c, d] = [0, 0, 0, 0] := by rw [← this]; rfl
      simp only [List.cons.injEq, and_true] at h4
      obtain ⟨rfl, rfl, rfl, rfl⟩ := h4
      rfl
    · simp only [hz, Bool.false_eq_true, if_false, List.append_assoc]
      rw [a85loop_digits _ (be32val_lt a b c d), a85loop_ws6, hl, be32_be32val]
      rfl
  | case2 cs a b c =>
    obtain ⟨j, h⟩ := a85loop_tail3 a b c (hd0 cs / 2 % 6)
    exact ⟨[j], [117, 117, 117], by simpa using h, rfl, by decide⟩
  | case3 cs a b =>
    obtain ⟨j, k, h⟩ := a85loop_tail2 a b (hd0 cs / 2 % 6)
    exact ⟨[j, k], [117, 117], by simpa using h, rfl, by decide⟩
  | case4 cs a =>
    obtain ⟨j, k, l, h⟩ := a85loop_tail1 a (hd0 cs / 2 % 6)
    exact ⟨[j, k, l], [117], by simpa using h, rfl, by decide⟩
  | case5 cs =>
    exact ⟨[], [117, 117, 117, 117], by simpa using a85loop_u4, rfl, by decide⟩

/-- `base64.a85decode` inverts the body encoder (any `z`/white-space choices). -/
theorem a85decode_body (cs : List Nat) (x : Bytes) : a85decode (a85Body cs x) = .ok x := by
  obtain ⟨junk, c, hl, hj, hc⟩ := a85_body_loop cs x
  unfold a85decode
  rw [hl]
  simp only
  by_cases hp : 4 - c.length = 0
  · have : junk = [] := List.eq_nil_of_length_eq_zero (by omega)
    simp [hp, this]
  · have h1 : (4 - c.length != 0) = true := by simp [hp]
    simp only [h1, if_true, List.length_append, hj]
    rw [Nat.add_sub_cancel, List.take_left' rfl]

end PdfVerif.Filters
