/-
C03 helper lemmas — ASCII85.  Core Lean only.
-/
import PdfVerif.Lemmas.FiltersCodec

namespace PdfVerif.Filters
open PdfVerif PdfVerif.FilterEnc

/-- White space emitted by the encoder is skipped by the `a85decode` loop. -/
theorem a85loop_ws6 (i : Nat) (curr : List Nat) (rest : Bytes) :
    a85loop curr (ws6 i ++ rest) = a85loop curr rest := by
  unfold ws6
  repeat' split
  all_goals simp [a85loop, isA85Ignore]

theorem be32_be32val (a b c d : UInt8) : be32 (be32val a b c d) = [a, b, c, d] := by
  have ha := a.toNat_lt
  have hb := b.toNat_lt
  have hc := c.toNat_lt
  have hd := d.toNat_lt
  unfold be32 be32val
  have h1 : (a.toNat * 16777216 + b.toNat * 65536 + c.toNat * 256 + d.toNat) / 16777216 = a.toNat := by omega
  have h2 : (a.toNat * 16777216 + b.toNat * 65536 + c.toNat * 256 + d.toNat) / 65536 % 256 = b.toNat := by omega
  have h3 : (a.toNat * 16777216 + b.toNat * 65536 + c.toNat * 256 + d.toNat) / 256 % 256 = c.toNat := by omega
  have h4 : (a.toNat * 16777216 + b.toNat * 65536 + c.toNat * 256 + d.toNat) % 256 = d.toNat := by omega
  rw [h1, h2, h3, h4]
  simp only [UInt8.ofNat_toNat]

theorem be32val_lt (a b c d : UInt8) : be32val a b c d < 4294967296 := by
  have ha := a.toNat_lt
  have hb := b.toNat_lt
  have hc := c.toNat_lt
  have hd := d.toNat_lt
  unfold be32val; omega

/-- Five digits of a value below 2^32 decode to its four big-endian bytes. -/
theorem a85loop_digits (v : Nat) (hv : v < 4294967296) (rest : Bytes) :
    a85loop [] (a85digits v ++ rest) =
      match a85loop [] rest with
      | .ok (out, c) => .ok (be32 v ++ out, c)
      | .error e => .error e := by
  have t0 := toNat_ofNat_lt (v / 52200625 % 85 + 33) (by omega)
  have t1 := toNat_ofNat_lt (v / 614125 % 85 + 33) (by omega)
  have t2 := toNat_ofNat_lt (v / 7225 % 85 + 33) (by omega)
  have t3 := toNat_ofNat_lt (v / 85 % 85 + 33) (by omega)
  have t4 := toNat_ofNat_lt (v % 85 + 33) (by omega)
  have r0 : 33 ≤ v / 52200625 % 85 + 33 ∧ v / 52200625 % 85 + 33 ≤ 117 := by omega
  have r1 : 33 ≤ v / 614125 % 85 + 33 ∧ v / 614125 % 85 + 33 ≤ 117 := by omega
  have r2 : 33 ≤ v / 7225 % 85 + 33 ∧ v / 7225 % 85 + 33 ≤ 117 := by omega
  have r3 : 33 ≤ v / 85 % 85 + 33 ∧ v / 85 % 85 + 33 ≤ 117 := by omega
  have r4 : 33 ≤ v % 85 + 33 ∧ v % 85 + 33 ≤ 117 := by omega
  have hacc : a85acc [v / 52200625 % 85 + 33, v / 614125 % 85 + 33, v / 7225 % 85 + 33, v / 85 % 85 + 33, v % 85 + 33] = v := by
    simp only [a85acc, List.foldl]
    omega
  have hge : ¬ (v ≥ 4294967296) := by omega
  simp only [a85digits, List.cons_append, List.nil_append, a85loop, t0, t1, t2, t3, t4, r0, r1, r2, r3, r4,
    and_self, if_true, List.length_cons, List.length_nil]
  simp only [hacc, hge, if_false]
  cases a85loop [] rest with
  | error e => rfl
  | ok p => rfl

theorem a85loop_z (rest : Bytes) :
    a85loop [] (122 :: rest) =
      match a85loop [] rest with
      | .ok (out, c) => .ok ([0, 0, 0, 0] ++ out, c)
      | .error e => .error e := by
  have h : ¬ (33 ≤ (122 : UInt8).toNat ∧ (122 : UInt8).toNat ≤ 117) := by decide
  simp only [a85loop, h, if_false]
  simp only [beq_self_eq_true, if_true, List.isEmpty_nil, Bool.not_true, Bool.false_eq_true, if_false]
  cases a85loop [] rest with
  | error e => rfl
  | ok p => rfl

theorem a85loop_u4 : a85loop [] [117, 117, 117, 117] = .ok ([], [117, 117, 117, 117]) := by decide

theorem byte_zero_of_toNat (a : UInt8) (h : a.toNat = 0) : a = 0 := by
  have := UInt8.ofNat_toNat (x := a); rw [h] at this; exact this.symm

theorem a85loop_digit (curr : List Nat) (x : UInt8) (rest : Bytes) (hx : 33 ≤ x.toNat ∧ x.toNat ≤ 117)
    (hlen : curr.length < 4) : a85loop curr (x :: rest) = a85loop (curr ++ [x.toNat]) rest := by
  rw [a85loop]
  have h5 : ((curr ++ [x.toNat]).length == 5) = false := by simp; omega
  simp only [hx, and_self, if_true, h5, Bool.false_eq_true, if_false]

theorem a85loop_digit5 (curr : List Nat) (x : UInt8) (rest : Bytes) (hx : 33 ≤ x.toNat ∧ x.toNat ≤ 117)
    (hlen : curr.length = 4) (hacc : a85acc (curr ++ [x.toNat]) < 4294967296) :
    a85loop curr (x :: rest) =
      match a85loop [] rest with
      | .ok (out, c) => .ok (be32 (a85acc (curr ++ [x.toNat])) ++ out, c)
      | .error e => .error e := by
  rw [a85loop]
  have h5 : ((curr ++ [x.toNat]).length == 5) = true := by simp; omega
  have hge : ¬ (a85acc (curr ++ [x.toNat]) ≥ 4294967296) := by omega
  simp only [hx, and_self, if_true, h5, hge, if_false]
  cases a85loop [] rest with
  | error e => rfl
  | ok p => rfl

theorem a85loop_nil (curr : List Nat) : a85loop curr [] = .ok ([], curr) := by
  rw [a85loop]

theorem u_digit : 33 ≤ (117 : UInt8).toNat ∧ (117 : UInt8).toNat ≤ 117 := by decide

theorem a85_digit_sum (v : Nat) (hv : v < 4294967296) :
    v = v / 52200625 % 85 * 52200625 + v / 614125 % 85 * 614125 + v / 7225 % 85 * 7225 + v / 85 % 85 * 85 + v % 85 := by
  omega

theorem be32_head3 (a b c : UInt8) (e : Nat) (he : e < 256) :
    ∃ j, be32 (a.toNat * 16777216 + b.toNat * 65536 + c.toNat * 256 + e) = [a, b, c, j] := by
  have ha := a.toNat_lt
  have hb := b.toNat_lt
  have hc := c.toNat_lt
  refine ⟨UInt8.ofNat ((a.toNat * 16777216 + b.toNat * 65536 + c.toNat * 256 + e) % 256), ?_⟩
  unfold be32
  have h1 : (a.toNat * 16777216 + b.toNat * 65536 + c.toNat * 256 + e) / 16777216 = a.toNat := by omega
  have h2 : (a.toNat * 16777216 + b.toNat * 65536 + c.toNat * 256 + e) / 65536 % 256 = b.toNat := by omega
  have h3 : (a.toNat * 16777216 + b.toNat * 65536 + c.toNat * 256 + e) / 256 % 256 = c.toNat := by omega
  rw [h1, h2, h3]; simp only [UInt8.ofNat_toNat]

theorem be32_head2 (a b : UInt8) (e : Nat) (he : e < 65536) :
    ∃ j k, be32 (a.toNat * 16777216 + b.toNat * 65536 + e) = [a, b, j, k] := by
  have ha := a.toNat_lt
  have hb := b.toNat_lt
  refine ⟨UInt8.ofNat ((a.toNat * 16777216 + b.toNat * 65536 + e) / 256 % 256),
    UInt8.ofNat ((a.toNat * 16777216 + b.toNat * 65536 + e) % 256), ?_⟩
  unfold be32
  have h1 : (a.toNat * 16777216 + b.toNat * 65536 + e) / 16777216 = a.toNat := by omega
  have h2 : (a.toNat * 16777216 + b.toNat * 65536 + e) / 65536 % 256 = b.toNat := by omega
  rw [h1, h2]; simp only [UInt8.ofNat_toNat]

theorem be32_head1 (a : UInt8) (e : Nat) (he : e < 16777216) :
    ∃ j k l, be32 (a.toNat * 16777216 + e) = [a, j, k, l] := by
  have ha := a.toNat_lt
  refine ⟨UInt8.ofNat ((a.toNat * 16777216 + e) / 65536 % 256), UInt8.ofNat ((a.toNat * 16777216 + e) / 256 % 256),
    UInt8.ofNat ((a.toNat * 16777216 + e) % 256), ?_⟩
  unfold be32
  have h1 : (a.toNat * 16777216 + e) / 16777216 = a.toNat := by omega
  rw [h1]; simp only [UInt8.ofNat_toNat]

/-- Final group of three bytes (four digits). -/
theorem a85loop_tail3 (a b c : UInt8) (i : Nat) :
    ∃ j, a85loop [] ((a85digits (be32val a b c 0)).take 4 ++ ws6 i ++ [117, 117, 117, 117])
      = .ok ([a, b, c, j], [117, 117, 117]) := by
  have ha := a.toNat_lt
  have hb := b.toNat_lt
  have hc := c.toNat_lt
  have hv : be32val a b c 0 = a.toNat * 16777216 + b.toNat * 65536 + c.toNat * 256 := by simp [be32val]
  generalize hvv : be32val a b c 0 = v at hv
  have hsum := a85_digit_sum v (by omega)
  have t0 := toNat_ofNat_lt (v / 52200625 % 85 + 33) (by omega)
  have t1 := toNat_ofNat_lt (v / 614125 % 85 + 33) (by omega)
  have t2 := toNat_ofNat_lt (v / 7225 % 85 + 33) (by omega)
  have t3 := toNat_ofNat_lt (v / 85 % 85 + 33) (by omega)
  have r0 : 33 ≤ v / 52200625 % 85 + 33 ∧ v / 52200625 % 85 + 33 ≤ 117 := by omega
  have r1 : 33 ≤ v / 614125 % 85 + 33 ∧ v / 614125 % 85 + 33 ≤ 117 := by omega
  have r2 : 33 ≤ v / 7225 % 85 + 33 ∧ v / 7225 % 85 + 33 ≤ 117 := by omega
  have r3 : 33 ≤ v / 85 % 85 + 33 ∧ v / 85 % 85 + 33 ≤ 117 := by omega
  have hu : (117 : UInt8).toNat = 117 := rfl
  have hd4 : v % 85 < 85 := Nat.mod_lt _ (by omega)
  have hacc : ∃ e, e < 256 ∧
      a85acc [v / 52200625 % 85 + 33, v / 614125 % 85 + 33, v / 7225 % 85 + 33, v / 85 % 85 + 33, 117] = v + e := by
    refine ⟨84 - v % 85, by omega, ?_⟩
    simp only [a85acc, List.foldl]
    generalize v / 52200625 % 85 = d0 at hsum ⊢
    generalize v / 614125 % 85 = d1 at hsum ⊢
    generalize v / 7225 % 85 = d2 at hsum ⊢
    generalize v / 85 % 85 = d3 at hsum ⊢
    generalize v % 85 = d4 at hsum hd4 ⊢
    omega
  obtain ⟨e, he, hacc⟩ := hacc
  obtain ⟨j, hj⟩ := be32_head3 a b c e he
  rw [← hv] at hj
  have hge : ¬ (v + e ≥ 4294967296) := by omega
  refine ⟨j, ?_⟩
  have x0 : 33 ≤ (UInt8.ofNat (v / 52200625 % 85 + 33)).toNat ∧ (UInt8.ofNat (v / 52200625 % 85 + 33)).toNat ≤ 117 := by
    rw [t0]; exact r0
  have x1 : 33 ≤ (UInt8.ofNat (v / 614125 % 85 + 33)).toNat ∧ (UInt8.ofNat (v / 614125 % 85 + 33)).toNat ≤ 117 := by
    rw [t1]; exact r1
  have x2 : 33 ≤ (UInt8.ofNat (v / 7225 % 85 + 33)).toNat ∧ (UInt8.ofNat (v / 7225 % 85 + 33)).toNat ≤ 117 := by
    rw [t2]; exact r2
  have x3 : 33 ≤ (UInt8.ofNat (v / 85 % 85 + 33)).toNat ∧ (UInt8.ofNat (v / 85 % 85 + 33)).toNat ≤ 117 := by
    rw [t3]; exact r3
  simp only [a85digits, List.take, List.cons_append, List.nil_append]
  rw [a85loop_digit _ _ _ x0 (by simp), a85loop_digit _ _ _ x1 (by simp), a85loop_digit _ _ _ x2 (by simp),
    a85loop_digit _ _ _ x3 (by simp), a85loop_ws6]
  simp only [List.nil_append, List.cons_append, t0, t1, t2, t3]
  rw [a85loop_digit5 _ _ _ u_digit (by simp) (by simp only [List.cons_append, List.nil_append, hu, hacc]; omega)]
  rw [a85loop_digit _ _ _ u_digit (by simp), a85loop_digit _ _ _ u_digit (by simp), a85loop_digit _ _ _ u_digit (by simp),
    a85loop_nil]
  simp only [List.cons_append, List.nil_append, hu, hacc, hj, List.append_nil]

/-- Final group of two bytes (three digits). -/
theorem a85loop_tail2 (a b : UInt8) (i : Nat) :
    ∃ j k, a85loop [] ((a85digits (be32val a b 0 0)).take 3 ++ ws6 i ++ [117, 117, 117, 117])
      = .ok ([a, b, j, k], [117, 117]) := by
  have ha := a.toNat_lt
  have hb := b.toNat_lt
  have hv : be32val a b 0 0 = a.toNat * 16777216 + b.toNat * 65536 := by simp [be32val]
  generalize hvv : be32val a b 0 0 = v at hv
  have hsum := a85_digit_sum v (by omega)
  have t0 := toNat_ofNat_lt (v / 52200625 % 85 + 33) (by omega)
  have t1 := toNat_ofNat_lt (v / 614125 % 85 + 33) (by omega)
  have t2 := toNat_ofNat_lt (v / 7225 % 85 + 33) (by omega)
  have r0 : 33 ≤ v / 52200625 % 85 + 33 ∧ v / 52200625 % 85 + 33 ≤ 117 := by omega
  have r1 : 33 ≤ v / 614125 % 85 + 33 ∧ v / 614125 % 85 + 33 ≤ 117 := by omega
  have r2 : 33 ≤ v / 7225 % 85 + 33 ∧ v / 7225 % 85 + 33 ≤ 117 := by omega
  have hu : (117 : UInt8).toNat = 117 := rfl
  have hd4 : v % 85 < 85 := Nat.mod_lt _ (by omega)
  have hd3 : v / 85 % 85 < 85 := Nat.mod_lt _ (by omega)
  have hacc : ∃ e, e < 65536 ∧
      a85acc [v / 52200625 % 85 + 33, v / 614125 % 85 + 33, v / 7225 % 85 + 33, 117, 117] = v + e := by
    refine ⟨7224 - (v / 85 % 85 * 85 + v % 85), by omega, ?_⟩
    simp only [a85acc, List.foldl]
    generalize v / 52200625 % 85 = d0 at hsum ⊢
    generalize v / 614125 % 85 = d1 at hsum ⊢
    generalize v / 7225 % 85 = d2 at hsum ⊢
    generalize v / 85 % 85 = d3 at hsum hd3 ⊢
    generalize v % 85 = d4 at hsum hd4 ⊢
    omega
  obtain ⟨e, he, hacc⟩ := hacc
  obtain ⟨j, k, hj⟩ := be32_head2 a b e he
  rw [← hv] at hj
  have hge : ¬ (v + e ≥ 4294967296) := by omega
  refine ⟨j, k, ?_⟩
  have x0 : 33 ≤ (UInt8.ofNat (v / 52200625 % 85 + 33)).toNat ∧ (UInt8.ofNat (v / 52200625 % 85 + 33)).toNat ≤ 117 := by
    rw [t0]; exact r0
  have x1 : 33 ≤ (UInt8.ofNat (v / 614125 % 85 + 33)).toNat ∧ (UInt8.ofNat (v / 614125 % 85 + 33)).toNat ≤ 117 := by
    rw [t1]; exact r1
  have x2 : 33 ≤ (UInt8.ofNat (v / 7225 % 85 + 33)).toNat ∧ (UInt8.ofNat (v / 7225 % 85 + 33)).toNat ≤ 117 := by
    rw [t2]; exact r2
  simp only [a85digits, List.take, List.cons_append, List.nil_append]
  rw [a85loop_digit _ _ _ x0 (by simp), a85loop_digit _ _ _ x1 (by simp), a85loop_digit _ _ _ x2 (by simp), a85loop_ws6]
  simp only [List.nil_append, List.cons_append, t0, t1, t2]
  rw [a85loop_digit _ _ _ u_digit (by simp)]
  rw [a85loop_digit5 _ _ _ u_digit (by simp) (by simp only [List.cons_append, List.nil_append, hu, hacc]; omega)]
  rw [a85loop_digit _ _ _ u_digit (by simp), a85loop_digit _ _ _ u_digit (by simp), a85loop_nil]
  simp only [List.cons_append, List.nil_append, hu, hacc, hj, List.append_nil]

/-- Final group of one byte (two digits). -/
theorem a85loop_tail1 (a : UInt8) (i : Nat) :
    ∃ j k l, a85loop [] ((a85digits (be32val a 0 0 0)).take 2 ++ ws6 i ++ [117, 117, 117, 117])
      = .ok ([a, j, k, l], [117]) := by
  have ha := a.toNat_lt
  have hv : be32val a 0 0 0 = a.toNat * 16777216 := by simp [be32val]
  generalize hvv : be32val a 0 0 0 = v at hv
  have hsum := a85_digit_sum v (by omega)
  have t0 := toNat_ofNat_lt (v / 52200625 % 85 + 33) (by omega)
  have t1 := toNat_ofNat_lt (v / 614125 % 85 + 33) (by omega)
  have r0 : 33 ≤ v / 52200625 % 85 + 33 ∧ v / 52200625 % 85 + 33 ≤ 117 := by omega
  have r1 : 33 ≤ v / 614125 % 85 + 33 ∧ v / 614125 % 85 + 33 ≤ 117 := by omega
  have hu : (117 : UInt8).toNat = 117 := rfl
  have hd4 : v % 85 < 85 := Nat.mod_lt _ (by omega)
  have hd3 : v / 85 % 85 < 85 := Nat.mod_lt _ (by omega)
  have hd2 : v / 7225 % 85 < 85 := Nat.mod_lt _ (by omega)
  have hacc : ∃ e, e < 16777216 ∧
      a85acc [v / 52200625 % 85 + 33, v / 614125 % 85 + 33, 117, 117, 117] = v + e := by
    refine ⟨614124 - (v / 7225 % 85 * 7225 + v / 85 % 85 * 85 + v % 85), by omega, ?_⟩
    simp only [a85acc, List.foldl]
    generalize v / 52200625 % 85 = d0 at hsum ⊢
    generalize v / 614125 % 85 = d1 at hsum ⊢
    generalize v / 7225 % 85 = d2 at hsum hd2 ⊢
    generalize v / 85 % 85 = d3 at hsum hd3 ⊢
    generalize v % 85 = d4 at hsum hd4 ⊢
    omega
  obtain ⟨e, he, hacc⟩ := hacc
  obtain ⟨j, k, l, hj⟩ := be32_head1 a e he
  rw [← hv] at hj
  have hge : ¬ (v + e ≥ 4294967296) := by omega
  refine ⟨j, k, l, ?_⟩
  have x0 : 33 ≤ (UInt8.ofNat (v / 52200625 % 85 + 33)).toNat ∧ (UInt8.ofNat (v / 52200625 % 85 + 33)).toNat ≤ 117 := by
    rw [t0]; exact r0
  have x1 : 33 ≤ (UInt8.ofNat (v / 614125 % 85 + 33)).toNat ∧ (UInt8.ofNat (v / 614125 % 85 + 33)).toNat ≤ 117 := by
    rw [t1]; exact r1
  simp only [a85digits, List.take, List.cons_append, List.nil_append]
  rw [a85loop_digit _ _ _ x0 (by simp), a85loop_digit _ _ _ x1 (by simp), a85loop_ws6]
  simp only [List.nil_append, List.cons_append, t0, t1]
  rw [a85loop_digit _ _ _ u_digit (by simp), a85loop_digit _ _ _ u_digit (by simp)]
  rw [a85loop_digit5 _ _ _ u_digit (by simp) (by simp only [List.cons_append, List.nil_append, hu, hacc]; omega)]
  rw [a85loop_digit _ _ _ u_digit (by simp), a85loop_nil]
  simp only [List.cons_append, List.nil_append, hu, hacc, hj, List.append_nil]

/-- The decoding loop over the encoder's body followed by the four padding `u`s yields the data,
then `4 - |curr|` junk bytes (which `a85decode` cuts off). -/
theorem a85_body_loop (cs : List Nat) (x : Bytes) :
    ∃ junk c, a85loop [] (a85Body cs x ++ [117, 117, 117, 117]) = .ok (x ++ junk, c) ∧
      junk.length = 4 - c.length ∧ c.length ≤ 4 := by
  fun_induction a85Body cs x with
  | case1 cs a b c d rest ih =>
    obtain ⟨junk, cc, hl, hj, hc⟩ := ih
    refine ⟨junk, cc, ?_, hj, hc⟩
    by_cases hz : (be32val a b c d == 0 && hd0 cs % 2 == 1) = true
    · simp only [hz, if_true, List.append_assoc, List.cons_append, List.nil_append]
      rw [a85loop_z, a85loop_ws6, hl]
      have h0 : be32val a b c d = 0 := by
        simp only [Bool.and_eq_true, beq_iff_eq] at hz; exact hz.1
      have := be32_be32val a b c d
      rw [h0] at this
      have h4 : [a, b, c, d] = [0, 0, 0, 0] := by rw [← this]; rfl
      simp only [List.cons.injEq, and_true] at h4
      obtain ⟨rfl, rfl, rfl, rfl⟩ := h4
      rfl
    · simp only [hz, Bool.false_eq_true, if_false, List.append_assoc]
      rw [a85loop_digits _ (be32val_lt a b c d), a85loop_ws6, hl, be32_be32val]
      rfl
  | case2 cs a b c =>
    obtain ⟨j, h⟩ := a85loop_tail3 a b c (hd0 cs / 2 % 6)
    exact ⟨[j], [117, 117, 117], by simpa using h, rfl, by decide⟩
  | case3 cs a b =>
    obtain ⟨j, k, h⟩ := a85loop_tail2 a b (hd0 cs / 2 % 6)
    exact ⟨[j, k], [117, 117], by simpa using h, rfl, by decide⟩
  | case4 cs a =>
    obtain ⟨j, k, l, h⟩ := a85loop_tail1 a (hd0 cs / 2 % 6)
    exact ⟨[j, k, l], [117], by simpa using h, rfl, by decide⟩
  | case5 cs =>
    exact ⟨[], [117, 117, 117, 117], by simpa using a85loop_u4, rfl, by decide⟩

/-- `base64.a85decode` inverts the body encoder (any `z`/white-space choices). -/
theorem a85decode_body (cs : List Nat) (x : Bytes) : a85decode (a85Body cs x) = .ok x := by
  obtain ⟨junk, c, hl, hj, hc⟩ := a85_body_loop cs x
  rw [a85decode_lit]
  rw [hl]
  simp only
  by_cases hp : 4 - c.length = 0
  · have : junk = [] := List.eq_nil_of_length_eq_zero (by omega)
    simp [hp, this]
  · have h1 : (4 - c.length != 0) = true := by simp [hp]
    simp only [h1, if_true, List.length_append, hj]
    rw [Nat.add_sub_cancel, List.take_left' rfl]

/-! ## Framing: the strip regexes of `ascii85decode` -/

/-- The bytes `a85decode` does not skip. -/
def core (d : Bytes) : Bytes := d.filter (fun c => !isA85Ignore c)

theorem core_cons_ignore (x : UInt8) (d : Bytes) (h : isA85Ignore x = true) : core (x :: d) = core d := by
  simp [core, h]

theorem core_cons_keep (x : UInt8) (d : Bytes) (h : isA85Ignore x = false) : core (x :: d) = x :: core d := by
  simp [core, h]

theorem a85loop_skip (x : UInt8) (h : isA85Ignore x = true) (curr : List Nat) (rest : Bytes) :
    a85loop curr (x :: rest) = a85loop curr rest := by
  have hx : x = 32 ∨ x = 9 ∨ x = 10 ∨ x = 13 ∨ x = 11 := by
    simp only [isA85Ignore, Bool.or_eq_true, beq_iff_eq] at h
    rcases h with (((h | h) | h) | h) | h <;> simp [h]
  rcases hx with rfl | rfl | rfl | rfl | rfl <;> simp [a85loop, isA85Ignore]

theorem a85loop_core (d : Bytes) : ∀ curr, a85loop curr d = a85loop curr (core d) := by
  induction d with
  | nil => intro curr; rfl
  | cons x rest ih =>
    intro curr
    by_cases hx : isA85Ignore x = true
    · rw [a85loop_skip x hx, core_cons_ignore x rest hx]; exact ih curr
    · have hx' : isA85Ignore x = false := by simpa using hx
      rw [core_cons_keep x rest hx', a85loop, a85loop]
      simp only [ih]

theorem core_append (a b : Bytes) : core (a ++ b) = core a ++ core b := by simp [core]

theorem a85decode_core (d : Bytes) : a85decode d = a85decode (core d) := by
  rw [a85decode_lit, a85decode_lit]
  rw [a85loop_core (d ++ _), a85loop_core (core d ++ _), core_append, core_append]
  have : core (core d) = core d := by simp [core]
  rw [this]

theorem ws6_cases (i : Nat) : ws6 i = [] ∨ ∃ w, ws6 i = [w] ∧ isWs w = true ∧ isA85Ignore w = true ∧ w ≠ 126 := by
  unfold ws6
  repeat' split
  all_goals first | (left; rfl) | (right; exact ⟨_, rfl, by decide, by decide, by decide⟩)

theorem dropWhile_ws6 (i : Nat) (l : Bytes) : (ws6 i ++ l).dropWhile isWs = l.dropWhile isWs := by
  rcases ws6_cases i with h | ⟨w, h, hw, _, _⟩ <;> simp [h, List.dropWhile, *]

theorem dropWhile_ws6_rev (i : Nat) (l : Bytes) : ((ws6 i).reverse ++ l).dropWhile isWs = l.dropWhile isWs := by
  rcases ws6_cases i with h | ⟨w, h, hw, _, _⟩ <;> simp [h, List.dropWhile, *]

theorem core_ws6 (i : Nat) : core (ws6 i) = [] := by
  rcases ws6_cases i with h | ⟨w, h, _, hw, _⟩ <;> simp [h, core, *]

theorem mem_takeWhile_true {p : UInt8 → Bool} {l : Bytes} {a : UInt8} (h : a ∈ l.takeWhile p) : p a = true := by
  induction l with
  | nil => simp at h
  | cons x l ih =>
    by_cases hx : p x = true
    · simp only [List.takeWhile, hx, List.mem_cons] at h
      rcases h with rfl | h
      · exact hx
      · exact ih h
    · have hx' : p x = false := by simpa using hx
      simp [List.takeWhile, hx'] at h

theorem dropWhile_head_false {p : UInt8 → Bool} {l : Bytes} {c : UInt8} {r : Bytes} (h : l.dropWhile p = c :: r) :
    p c = false := by
  induction l with
  | nil => simp at h
  | cons x l ih =>
    by_cases hx : p x = true
    · simp only [List.dropWhile, hx] at h; exact ih h
    · have hx' : p x = false := by simpa using hx
      simp only [List.dropWhile, hx', List.cons.injEq] at h
      rw [← h.1]; exact hx'

def rstrip (d : Bytes) : Bytes := (d.reverse.dropWhile isWs).reverse

theorem rstrip_split (d : Bytes) : ∃ tail, d = rstrip d ++ tail ∧ ∀ c ∈ tail, isWs c = true := by
  refine ⟨(d.reverse.takeWhile isWs).reverse, ?_, ?_⟩
  · have := List.takeWhile_append_dropWhile (p := isWs) (l := d.reverse)
    have h2 := congrArg List.reverse this
    simp only [List.reverse_append, List.reverse_reverse] at h2
    exact h2.symm
  · intro c hc
    have : c ∈ d.reverse.takeWhile isWs := by simpa using hc
    exact mem_takeWhile_true this

/-- A byte that may occur around/inside the encoder's output: not `~`, and ignorable if blank. -/
def A85Ok (c : UInt8) : Prop := c ≠ 126 ∧ (isWs c = true → isA85Ignore c = true)

theorem core_rstrip (d : Bytes) (h : ∀ c ∈ d, A85Ok c) : core (rstrip d) = core d := by
  obtain ⟨tail, hd, ht⟩ := rstrip_split d
  have hsub : ∀ c ∈ tail, c ∈ d := by
    intro c hc; rw [hd]; simp [hc]
  have hcore : core tail = [] := by
    simp only [core, List.filter_eq_nil_iff]
    intro c hc
    have := (h c (hsub c hc)).2 (ht c hc)
    simp [this]
  have := congrArg core hd
  rw [core_append, hcore, List.append_nil] at this
  exact this.symm

theorem stripEnd_no_tilde (d : Bytes) (h : ∀ c ∈ d, c ≠ 126) : stripEnd d = d := by
  have hsub : ∀ c ∈ d.reverse.dropWhile isWs, c ≠ 126 := by
    intro c hc
    have : c ∈ d.reverse := List.dropWhile_sublist _ |>.subset hc
    exact h c (by simpa using this)
  unfold stripEnd
  split
  · rename_i t heq
    exact absurd rfl (hsub 126 (by rw [heq]; simp))
  · rename_i t heq
    split
    · rename_i t2 heq2
      have : (126 : UInt8) ∈ t.dropWhile isWs := by rw [heq2]; simp
      have : (126 : UInt8) ∈ t := List.dropWhile_sublist _ |>.subset this
      exact absurd rfl (hsub 126 (by rw [heq]; simp [this]))
    · rfl
  · rfl

theorem stripEnd_tilde (d : Bytes) (a c : Nat) :
    stripEnd (d ++ ws6 a ++ [126] ++ ws6 c) = rstrip (d ++ ws6 a) := by
  unfold stripEnd rstrip
  have : (d ++ ws6 a ++ [126] ++ ws6 c).reverse = (ws6 c).reverse ++ (126 :: (d ++ ws6 a).reverse) := by simp
  rw [this, dropWhile_ws6_rev]
  simp [List.dropWhile, isWs]

theorem stripEnd_tilde_gt (d : Bytes) (a b c : Nat) :
    stripEnd (d ++ ws6 a ++ [126] ++ ws6 b ++ [62] ++ ws6 c) = rstrip (d ++ ws6 a) := by
  unfold stripEnd rstrip
  have : (d ++ ws6 a ++ [126] ++ ws6 b ++ [62] ++ ws6 c).reverse
      = (ws6 c).reverse ++ (62 :: ((ws6 b).reverse ++ (126 :: (d ++ ws6 a).reverse))) := by simp
  rw [this, dropWhile_ws6_rev]
  have h62 : (62 :: ((ws6 b).reverse ++ (126 :: (d ++ ws6 a).reverse))).dropWhile isWs
      = 62 :: ((ws6 b).reverse ++ (126 :: (d ++ ws6 a).reverse)) := by simp [List.dropWhile, isWs]
  rw [h62]
  simp only
  rw [dropWhile_ws6_rev]
  simp [List.dropWhile, isWs]

theorem dropLt_ne (c : UInt8) (r : Bytes) (h : c ≠ 60) : dropLt (c :: r) = c :: r := by
  unfold dropLt
  split
  · rename_i t heq
    simp only [List.cons.injEq] at heq
    exact (h heq.1).elim
  · rfl

theorem dropLt_lt (r : Bytes) : dropLt (60 :: r) = r := rfl

theorem dropLt_nil : dropLt [] = [] := rfl

theorem stripStart_stop (d : Bytes) (c : UInt8) (r : Bytes)
    (h : (dropLt (d.dropWhile isWs)).dropWhile isWs = c :: r) (h126 : c ≠ 126) : stripStart d = d := by
  unfold stripStart
  rw [h]
  split
  · rename_i t heq
    simp only [List.cons.injEq] at heq
    exact (h126 heq.1).elim
  · rfl

/-- No `~` where the start pattern wants it: nothing is stripped. -/
theorem stripStart_none (d : Bytes) (c : UInt8) (r : Bytes) (hd : d.dropWhile isWs = c :: r) (h60 : c ≠ 60)
    (h126 : c ≠ 126) : stripStart d = d := by
  have hws : isWs c = false := dropWhile_head_false hd
  apply stripStart_stop d c r _ h126
  rw [hd, dropLt_ne c r h60]
  simp [List.dropWhile, hws]

theorem stripStart_lt (d : Bytes) (c1 : UInt8) (r : Bytes) (hd : d.dropWhile isWs = 60 :: c1 :: r)
    (hws : isWs c1 = false) (h126 : c1 ≠ 126) : stripStart d = d := by
  apply stripStart_stop d c1 r _ h126
  rw [hd, dropLt_lt]
  simp [List.dropWhile, hws]

theorem stripStart_allws (d : Bytes) (hd : d.dropWhile isWs = []) : stripStart d = d := by
  unfold stripStart
  rw [hd, dropLt_nil]
  rfl

theorem stripStart_tilde (a : Nat) (rest : Bytes) :
    stripStart (ws6 a ++ [126] ++ rest) = rest.dropWhile isWs := by
  unfold stripStart
  have : (ws6 a ++ [126] ++ rest).dropWhile isWs = 126 :: rest := by
    rw [List.append_assoc, dropWhile_ws6]; simp [List.dropWhile, isWs]
  rw [this, dropLt_ne 126 rest (by decide)]
  simp [List.dropWhile, isWs]

theorem stripStart_lt_tilde (a b : Nat) (rest : Bytes) :
    stripStart (ws6 a ++ [60] ++ ws6 b ++ [126] ++ rest) = rest.dropWhile isWs := by
  unfold stripStart
  have : (ws6 a ++ [60] ++ ws6 b ++ [126] ++ rest).dropWhile isWs = 60 :: (ws6 b ++ 126 :: rest) := by
    simp only [List.append_assoc]
    rw [dropWhile_ws6]; simp [List.dropWhile, isWs]
  rw [this, dropLt_lt, dropWhile_ws6]
  simp [List.dropWhile, isWs]

/-! ### Shape of the encoder's body -/

theorem isWs_toNat_le (c : UInt8) (h : isWs c = true) : c.toNat ≤ 32 := by
  simp only [isWs, Bool.or_eq_true, beq_iff_eq] at h
  rcases h with ((((h | h) | h) | h) | h) | h <;> (rw [h]; decide)

theorem digit_props (d : Nat) (hd : d < 85) :
    isWs (UInt8.ofNat (d + 33)) = false ∧ UInt8.ofNat (d + 33) ≠ 126 ∧ A85Ok (UInt8.ofNat (d + 33)) := by
  have ht := toNat_ofNat_lt (d + 33) (by omega)
  have hws : isWs (UInt8.ofNat (d + 33)) = false := by
    cases h : isWs (UInt8.ofNat (d + 33)) with
    | false => rfl
    | true => have := isWs_toNat_le _ h; omega
  have hne : UInt8.ofNat (d + 33) ≠ 126 := by
    intro h
    have := congrArg UInt8.toNat h
    rw [ht] at this
    have h126 : (126 : UInt8).toNat = 126 := rfl
    omega
  exact ⟨hws, hne, hne, fun h => by rw [hws] at h; cases h⟩

theorem a85digits_mem_ok (v : Nat) : ∀ c ∈ a85digits v, A85Ok c := by
  intro c hc
  simp only [a85digits, List.mem_cons, List.not_mem_nil, or_false] at hc
  rcases hc with rfl | rfl | rfl | rfl | rfl
  all_goals exact (digit_props _ (Nat.mod_lt _ (by omega))).2.2

theorem ws6_mem_ok (i : Nat) : ∀ c ∈ ws6 i, A85Ok c := by
  intro c hc
  rcases ws6_cases i with h | ⟨w, h, _, hw, hne⟩
  · rw [h] at hc; simp at hc
  · rw [h] at hc
    simp only [List.mem_singleton] at hc
    subst hc
    exact ⟨hne, fun _ => hw⟩

theorem z_ok : A85Ok 122 := ⟨by decide, by decide⟩

theorem a85Body_mem_ok (cs : List Nat) (x : Bytes) : ∀ c ∈ a85Body cs x, A85Ok c := by
  fun_induction a85Body cs x with
  | case1 cs a b c d rest ih =>
    intro e he
    simp only [List.mem_append] at he
    rcases he with (he | he) | he
    · split at he
      · simp only [List.mem_singleton] at he; subst he; exact z_ok
      · exact a85digits_mem_ok _ e he
    · exact ws6_mem_ok _ e he
    · exact ih e he
  | case2 cs a b c =>
    intro e he
    simp only [List.mem_append] at he
    rcases he with he | he
    · exact a85digits_mem_ok _ e (List.mem_of_mem_take he)
    · exact ws6_mem_ok _ e he
  | case3 cs a b =>
    intro e he
    simp only [List.mem_append] at he
    rcases he with he | he
    · exact a85digits_mem_ok _ e (List.mem_of_mem_take he)
    · exact ws6_mem_ok _ e he
  | case4 cs a =>
    intro e he
    simp only [List.mem_append] at he
    rcases he with he | he
    · exact a85digits_mem_ok _ e (List.mem_of_mem_take he)
    · exact ws6_mem_ok _ e he
  | case5 cs => intro e he; simp at he

/-- A non-empty body starts with a digit or `z`; if it starts with `<` (which is a digit) the next
byte is a digit too - so `start_re` cannot match inside the data. -/
theorem a85Body_head (cs : List Nat) (x : Bytes) (hx : x ≠ []) :
    ∃ c0 r, a85Body cs x = c0 :: r ∧ isWs c0 = false ∧ c0 ≠ 126 ∧
      (c0 = 60 → ∃ c1 r', r = c1 :: r' ∧ isWs c1 = false ∧ c1 ≠ 126) := by
  have dp := fun v k => digit_props (v / k % 85) (Nat.mod_lt _ (by omega))
  match x, hx with
  | [a], _ =>
    refine ⟨_, _, by simp only [a85Body, a85digits, List.take, List.cons_append]; rfl, (dp _ _).1, (dp _ _).2.1, ?_⟩
    intro _
    exact ⟨_, _, rfl, (dp _ _).1, (dp _ _).2.1⟩
  | [a, b], _ =>
    refine ⟨_, _, by simp only [a85Body, a85digits, List.take, List.cons_append]; rfl, (dp _ _).1, (dp _ _).2.1, ?_⟩
    intro _
    exact ⟨_, _, rfl, (dp _ _).1, (dp _ _).2.1⟩
  | [a, b, c], _ =>
    refine ⟨_, _, by simp only [a85Body, a85digits, List.take, List.cons_append]; rfl, (dp _ _).1, (dp _ _).2.1, ?_⟩
    intro _
    exact ⟨_, _, rfl, (dp _ _).1, (dp _ _).2.1⟩
  | a :: b :: c :: d :: rest, _ =>
    by_cases hz : (be32val a b c d == 0 && hd0 cs % 2 == 1) = true
    · refine ⟨122, _, by simp only [a85Body, hz, if_true, List.cons_append, List.nil_append]; rfl, by decide, by decide, ?_⟩
      intro h; exact absurd h (by decide)
    · refine ⟨_, _, by simp only [a85Body, hz, Bool.false_eq_true, if_false, a85digits, List.cons_append]; rfl,
        (dp _ _).1, (dp _ _).2.1, ?_⟩
      intro _
      exact ⟨_, _, rfl, (dp _ _).1, (dp _ _).2.1⟩

/-! ### Assembly -/

theorem core_eq_decode {d e : Bytes} (h : core d = core e) : a85decode d = a85decode e := by
  rw [a85decode_core d, a85decode_core e, h]

/-- End stripping: for data `d` without `~` whose blanks are ignorable, followed by any of the EOD
forms, what remains decodes like `d`. -/
theorem stripEnd_post (d : Bytes) (hd : ∀ c ∈ d, A85Ok c) (m a b c : Nat) :
    core (stripEnd (d ++ a85Post m a b c)) = core d := by
  have hok : ∀ e ∈ d ++ ws6 (a % 6), A85Ok e := by
    intro e he
    rcases List.mem_append.mp he with he | he
    · exact hd e he
    · exact ws6_mem_ok _ e he
  have hcore : core (d ++ ws6 (a % 6)) = core d := by rw [core_append, core_ws6, List.append_nil]
  unfold a85Post
  by_cases h0 : m = 0
  · subst h0
    simp only [beq_self_eq_true, if_true]
    rw [stripEnd_no_tilde _ (fun e he => (hok e he).1), hcore]
  · have e0 : (m == 0) = false := by simp [h0]
    by_cases h1 : m = 1
    · subst h1
      simp only [e0, Bool.false_eq_true, if_false, beq_self_eq_true, if_true]
      have : d ++ (ws6 (a % 6) ++ [126] ++ ws6 (c % 6)) = d ++ ws6 (a % 6) ++ [126] ++ ws6 (c % 6) := by simp
      rw [this, stripEnd_tilde, core_rstrip _ hok, hcore]
    · have e1 : (m == 1) = false := by simp [h1]
      simp only [e0, e1, Bool.false_eq_true, if_false]
      have : d ++ (ws6 (a % 6) ++ [126] ++ ws6 (b % 6) ++ [62] ++ ws6 (c % 6))
          = d ++ ws6 (a % 6) ++ [126] ++ ws6 (b % 6) ++ [62] ++ ws6 (c % 6) := by simp
      rw [this, stripEnd_tilde_gt, core_rstrip _ hok, hcore]

theorem dropWhile_post (m a b c : Nat) :
    (a85Post m a b c).dropWhile isWs = [] ∨
    (a85Post m a b c).dropWhile isWs = [] ++ ws6 0 ++ [126] ++ ws6 (c % 6) ∨
    (a85Post m a b c).dropWhile isWs = [] ++ ws6 0 ++ [126] ++ ws6 (b % 6) ++ [62] ++ ws6 (c % 6) := by
  unfold a85Post
  by_cases h0 : m = 0
  · left
    subst h0
    simp only [beq_self_eq_true, if_true]
    have := dropWhile_ws6 (a % 6) []
    simpa using this
  · have e0 : (m == 0) = false := by simp [h0]
    by_cases h1 : m = 1
    · right; left
      subst h1
      simp only [e0, Bool.false_eq_true, if_false, beq_self_eq_true, if_true, List.append_assoc]
      rw [dropWhile_ws6]
      simp [List.dropWhile, isWs, ws6]
    · right; right
      have e1 : (m == 1) = false := by simp [h1]
      simp only [e0, e1, Bool.false_eq_true, if_false, List.append_assoc]
      rw [dropWhile_ws6]
      simp [List.dropWhile, isWs, ws6]

theorem rstrip_nil : rstrip ([] ++ ws6 0) = [] := by decide

/-- The empty payload: whatever framing, the result decodes to nothing.  (Includes the quirk that
for `~>` without a leading `<~` the start pattern eats the `~` and `>` is decoded as a lone digit.) -/
theorem decode_strip_post (m a b c : Nat) :
    a85decode (stripEnd ((a85Post m a b c).dropWhile isWs)) = .ok [] := by
  rcases dropWhile_post m a b c with h | h | h
  · rw [h]; decide
  · rw [h, stripEnd_tilde, rstrip_nil]; decide
  · rw [h, stripEnd_tilde_gt, rstrip_nil]; decide

theorem a85decode_gt_ws (i : Nat) : a85decode ([62] ++ ws6 i) = .ok [] := by
  rw [a85decode_core, core_append, core_ws6]
  decide

theorem ascii85_empty_mode0 (a m' a' b' c' : Nat) :
    ascii85decode (ws6 a ++ a85Post m' a' b' c') = .ok [] := by
  unfold ascii85decode a85Post
  by_cases h0 : m' = 0
  · subst h0
    simp only [beq_self_eq_true, if_true]
    have hall : (ws6 a ++ ws6 (a' % 6)).dropWhile isWs = [] := by
      rw [dropWhile_ws6]; have := dropWhile_ws6 (a' % 6) []; simpa using this
    have hok : ∀ e ∈ ws6 a ++ ws6 (a' % 6), e ≠ 126 := by
      intro e he
      rcases List.mem_append.mp he with he | he <;> exact (ws6_mem_ok _ e he).1
    rw [stripStart_allws _ hall, stripEnd_no_tilde _ hok, a85decode_core, core_append, core_ws6, core_ws6]
    decide
  · have e0 : (m' == 0) = false := by simp [h0]
    by_cases h1 : m' = 1
    · subst h1
      simp only [e0, Bool.false_eq_true, if_false, beq_self_eq_true, if_true]
      have hs : stripStart (ws6 a ++ (ws6 (a' % 6) ++ [126] ++ ws6 (c' % 6))) = [] := by
        unfold stripStart
        have : (ws6 a ++ (ws6 (a' % 6) ++ [126] ++ ws6 (c' % 6))).dropWhile isWs = 126 :: ws6 (c' % 6) := by
          simp only [List.append_assoc]
          rw [dropWhile_ws6, dropWhile_ws6]; simp [List.dropWhile, isWs]
        rw [this, dropLt_ne 126 _ (by decide)]
        have h2 : (126 :: ws6 (c' % 6)).dropWhile isWs = 126 :: ws6 (c' % 6) := by simp [List.dropWhile, isWs]
        rw [h2]
        have := dropWhile_ws6 (c' % 6) []
        simpa using this
      rw [hs]; decide
    · have e1 : (m' == 1) = false := by simp [h1]
      simp only [e0, e1, Bool.false_eq_true, if_false]
      have hs : stripStart (ws6 a ++ (ws6 (a' % 6) ++ [126] ++ ws6 (b' % 6) ++ [62] ++ ws6 (c' % 6)))
          = [62] ++ ws6 (c' % 6) := by
        unfold stripStart
        have : (ws6 a ++ (ws6 (a' % 6) ++ [126] ++ ws6 (b' % 6) ++ [62] ++ ws6 (c' % 6))).dropWhile isWs
            = 126 :: (ws6 (b' % 6) ++ ([62] ++ ws6 (c' % 6))) := by
          simp only [List.append_assoc]
          rw [dropWhile_ws6, dropWhile_ws6]; simp [List.dropWhile, isWs]
        rw [this, dropLt_ne 126 _ (by decide)]
        have h2 : (126 :: (ws6 (b' % 6) ++ ([62] ++ ws6 (c' % 6)))).dropWhile isWs
            = 126 :: (ws6 (b' % 6) ++ ([62] ++ ws6 (c' % 6))) := by simp [List.dropWhile, isWs]
        rw [h2]
        simp only
        rw [dropWhile_ws6]
        simp [List.dropWhile, isWs]
      have hok : ∀ e ∈ [62] ++ ws6 (c' % 6), e ≠ 126 := by
        intro e he
        rcases List.mem_append.mp he with he | he
        · simp only [List.mem_singleton] at he; subst he; decide
        · exact (ws6_mem_ok _ e he).1
      rw [hs, stripEnd_no_tilde _ hok, a85decode_gt_ws]

/-- `ascii85decode` inverts the framed encoder. -/
theorem ascii85decode_a85Enc (cs : List Nat) (pre post : Nat × Nat × Nat × Nat) (x : Bytes) :
    ascii85decode (a85Enc cs pre post x) = .ok x := by
  obtain ⟨m, a, b, c⟩ := pre
  obtain ⟨m', a', b', c'⟩ := post
  unfold a85Enc
  simp only
  have hB := a85Body_mem_ok cs x
  by_cases hx : x = []
  · -- empty payload
    subst hx
    have hb : a85Body cs [] = [] := by simp [a85Body]
    rw [hb, List.append_nil]
    unfold a85Pre
    by_cases h0 : m = 0
    · subst h0
      simp only [beq_self_eq_true, if_true]
      exact ascii85_empty_mode0 _ _ _ _ _
    · have e0 : (m == 0) = false := by simp [h0]
      by_cases h1 : m = 1
      · subst h1
        simp only [e0, Bool.false_eq_true, if_false, beq_self_eq_true, if_true]
        unfold ascii85decode
        have : ws6 (a % 6) ++ [126] ++ ws6 (c % 6) ++ a85Post m' a' b' c'
            = ws6 (a % 6) ++ [126] ++ (ws6 (c % 6) ++ a85Post m' a' b' c') := by simp
        rw [this, stripStart_tilde, dropWhile_ws6]
        exact decode_strip_post _ _ _ _
      · have e1 : (m == 1) = false := by simp [h1]
        simp only [e0, e1, Bool.false_eq_true, if_false]
        unfold ascii85decode
        have : ws6 (a % 6) ++ [60] ++ ws6 (b % 6) ++ [126] ++ ws6 (c % 6) ++ a85Post m' a' b' c'
            = ws6 (a % 6) ++ [60] ++ ws6 (b % 6) ++ [126] ++ (ws6 (c % 6) ++ a85Post m' a' b' c') := by simp
        rw [this, stripStart_lt_tilde, dropWhile_ws6]
        exact decode_strip_post _ _ _ _
  · -- non-empty payload
    obtain ⟨c0, r, hbody, hws0, h126, hlt⟩ := a85Body_head cs x hx
    have hdw : ∀ post : Bytes, (a85Body cs x ++ post).dropWhile isWs = a85Body cs x ++ post := by
      intro post; rw [hbody]; simp [List.dropWhile, hws0]
    have hfinal : ∀ d : Bytes, core d = core (a85Body cs x) → a85decode d = .ok x := by
      intro d hd
      rw [core_eq_decode hd]; exact a85decode_body cs x
    unfold ascii85decode a85Pre
    by_cases h0 : m = 0
    · subst h0
      simp only [beq_self_eq_true, if_true]
      have hns : stripStart (ws6 (a % 6) ++ a85Body cs x ++ a85Post m' a' b' c')
          = ws6 (a % 6) ++ a85Body cs x ++ a85Post m' a' b' c' := by
        have hd : (ws6 (a % 6) ++ a85Body cs x ++ a85Post m' a' b' c').dropWhile isWs
            = c0 :: (r ++ a85Post m' a' b' c') := by
          rw [List.append_assoc, dropWhile_ws6, hdw, hbody]; rfl
        by_cases h60 : c0 = 60
        · obtain ⟨c1, r', hr, hws1, h1⟩ := hlt h60
          subst h60 hr
          exact stripStart_lt _ c1 (r' ++ a85Post m' a' b' c') hd hws1 h1
        · exact stripStart_none _ c0 _ hd h60 h126
      rw [hns]
      apply hfinal
      have hok : ∀ e ∈ ws6 (a % 6) ++ a85Body cs x, A85Ok e := by
        intro e he
        rcases List.mem_append.mp he with he | he
        · exact ws6_mem_ok _ e he
        · exact hB e he
      rw [stripEnd_post _ hok, core_append, core_ws6, List.nil_append]
    · have e0 : (m == 0) = false := by simp [h0]
      by_cases h1 : m = 1
      · subst h1
        simp only [e0, Bool.false_eq_true, if_false, beq_self_eq_true, if_true]
        have : ws6 (a % 6) ++ [126] ++ ws6 (c % 6) ++ a85Body cs x ++ a85Post m' a' b' c'
            = ws6 (a % 6) ++ [126] ++ (ws6 (c % 6) ++ (a85Body cs x ++ a85Post m' a' b' c')) := by simp
        rw [this, stripStart_tilde, dropWhile_ws6, hdw]
        apply hfinal
        rw [stripEnd_post _ hB]
      · have e1 : (m == 1) = false := by simp [h1]
        simp only [e0, e1, Bool.false_eq_true, if_false]
        have : ws6 (a % 6) ++ [60] ++ ws6 (b % 6) ++ [126] ++ ws6 (c % 6) ++ a85Body cs x ++ a85Post m' a' b' c'
            = ws6 (a % 6) ++ [60] ++ ws6 (b % 6) ++ [126] ++ (ws6 (c % 6) ++ (a85Body cs x ++ a85Post m' a' b' c')) := by
          simp
        rw [this, stripStart_lt_tilde, dropWhile_ws6, hdw]
        apply hfinal
        rw [stripEnd_post _ hB]

end PdfVerif.Filters
