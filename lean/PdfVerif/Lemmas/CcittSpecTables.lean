/-
C19 helper lemmas, round 6: a SECOND, independent statement about the frozen specification tables of
`Spec/T6.lean` (nothing here mentions pdfminer's tables): they have the shape the Recommendations
T.4 / T.6 demand — one code for every terminating length 0..63 and every make-up length 64·i ≤ 2560,
prefix-free, complete in the sense of Kraft (exactly the code space under the prefix `00000000`,
reserved for EOL / fill, is left over), extended make-up codes 1792..2560 common to both colours — and
the run-length encoder splits a run into k × 2560 + at most one make-up + one terminating code.
-/
import PdfVerif.Lemmas.CcittTables

namespace PdfVerif.Ccitt
open PdfVerif.Spec

/-- The run lengths that own a code word: 0..63 (terminating), then 64, 128, …, 2560 (make-up). -/
def runKeys : List Nat := List.range 64 ++ (List.range 40).map (fun i => 64 * (i + 1))

/-- `Σ 2^(n - len c)`: the code space used by a set of code words, in units of `2^-n`. -/
def kraft (n : Nat) (codes : List (List Bool)) : Nat := (codes.map fun c => 2 ^ (n - c.length)).sum

/-- The T.6 mode codes the specification's encoder can emit (EOFB excluded: it is two EOL codes). -/
def specModeCodes : List (List Bool) :=
  [T6.codeP, T6.codeH, T6.codeV 0, T6.codeV 1, T6.codeV (-1), T6.codeV 2, T6.codeV (-2), T6.codeV 3, T6.codeV (-3)]

theorem spec_white_keys : T6.white.map (·.1) = runKeys := by decide +kernel
theorem spec_black_keys : T6.black.map (·.1) = runKeys := by decide +kernel
theorem spec_white_prefixFree : prefixFree (T6.white.map (·.2)) = true := by decide +kernel
theorem spec_black_prefixFree : prefixFree (T6.black.map (·.2)) = true := by decide +kernel

/-- Kraft sums: 8160/8192 = 1 - 2⁻⁸ for either colour, i.e. every bit string not starting with
eight zeros starts with exactly one code word … -/
theorem spec_white_kraft : kraft 13 (T6.white.map (·.2)) = 2 ^ 13 - 2 ^ 5 := by decide +kernel
theorem spec_black_kraft : kraft 13 (T6.black.map (·.2)) = 2 ^ 13 - 2 ^ 5 := by decide +kernel

/-- … and no code word starts with eight zeros (so EOL = 000000000001 can never be mistaken). -/
theorem spec_no_eol_prefix :
    (T6.white ++ T6.black).all (fun e => !isPrefix (List.replicate 8 false) e.2) = true := by decide +kernel

/-- Code lengths stay inside T.4's limits: white 4..9 bits (12 for extended make-up), black 2..13. -/
theorem spec_code_lengths :
    T6.white.all (fun e => decide (4 ≤ e.2.length ∧ e.2.length ≤ 12)) = true ∧
    T6.black.all (fun e => decide (2 ≤ e.2.length ∧ e.2.length ≤ 13)) = true := by decide +kernel

/-- The extended make-up codes 1792, 1856, …, 2560 are the same for both colours (T.4 table 3b). -/
theorem spec_extended_shared :
    (List.range 13).all (fun i => T6.runCode true (1792 + 64 * i) == T6.runCode false (1792 + 64 * i)
      && (T6.runCode true (1792 + 64 * i)).length ≥ 11) = true := by decide +kernel

/-- The ordinary make-up codes 64..1728 differ between the colours. -/
theorem spec_ordinary_differ :
    (List.range 27).all (fun i => T6.runCode true (64 + 64 * i) != T6.runCode false (64 + 64 * i)) = true := by
  decide +kernel

/-- Mode codes P, H, V0, VR1-3, VL1-3: prefix-free, pairwise distinct, code space 126/128 — what is
left is `0000001` (extensions) and `0000000` (EOL / EOFB), and EOFB indeed starts with seven zeros. -/
theorem spec_mode_codes :
    prefixFree specModeCodes = true ∧ kraft 7 specModeCodes = 2 ^ 7 - 2 ∧
    specModeCodes.all (fun c => !isPrefix (List.replicate 6 false) c) = true ∧
    isPrefix (List.replicate 7 false) T6.codeEOFB = true ∧ T6.codeEOFB.length = 24 := by decide +kernel

/-- `codeV d` is a code word exactly for |d| ≤ 3. -/
theorem codeV_nonempty_iff (d : Int) : T6.codeV d ≠ [] ↔ (-3 ≤ d ∧ d ≤ 3) := by
  constructor
  · intro h
    by_cases h1 : -3 ≤ d ∧ d ≤ 3
    · exact h1
    · exfalso; apply h
      have e0 : d ≠ 0 := by omega
      have e1 : d ≠ 1 := by omega
      have e2 : d ≠ -1 := by omega
      have e3 : d ≠ 2 := by omega
      have e4 : d ≠ -2 := by omega
      have e5 : d ≠ 3 := by omega
      have e6 : d ≠ -3 := by omega
      simp only [T6.codeV, e0, e1, e2, e3, e4, e5, e6, if_false]
  · intro ⟨h1, h2⟩
    have : d = 0 ∨ d = 1 ∨ d = -1 ∨ d = 2 ∨ d = -2 ∨ d = 3 ∨ d = -3 := by omega
    rcases this with h | h | h | h | h | h | h <;> subst h <;> decide

theorem runCode_term_ne (c : Bool) : ∀ i : Fin 64, T6.runCode c i.val ≠ [] := by
  cases c <;> decide +kernel

theorem runCode_makeup_ne (c : Bool) : ∀ i : Fin 40, T6.runCode c (64 * (i.val + 1)) ≠ [] := by
  cases c <;> decide +kernel

/-- Every terminating length and every make-up length has a (non-empty) code word. -/
theorem runCode_complete (c : Bool) (n : Nat)
    (h : n < 64 ∨ (64 ≤ n ∧ n ≤ 2560 ∧ n % 64 = 0)) : T6.runCode c n ≠ [] := by
  rcases h with h | ⟨h1, h2, h3⟩
  · exact runCode_term_ne c ⟨n, h⟩
  · have := runCode_makeup_ne c ⟨n / 64 - 1, by omega⟩
    have e : 64 * (n / 64 - 1 + 1) = n := by omega
    simpa only [e] using this

/-- Shape of the run-length code (T.4 §4.1.1 with the PDF/T.6 convention for runs above 2623):
k codes for 2560, then at most one make-up code m (a multiple of 64, ≤ 2560), then exactly one
terminating code t < 64, with `n = 2560·k + m + t`. -/
theorem encodeRun_shape (c : Bool) (n : Nat) :
    ∃ k m t, n = 2560 * k + m + t ∧ t < 64 ∧ m % 64 = 0 ∧ m ≤ 2560 ∧ (1 ≤ k → 64 ≤ m) ∧
      T6.encodeRun c n = (List.replicate k (T6.runCode c 2560)).flatten ++
        (if m = 0 then [] else T6.runCode c m) ++ T6.runCode c t := by
  by_cases h : 64 ≤ n - 2560 * ((n - 64) / 2560)
  · refine ⟨(n - 64) / 2560, 64 * ((n - 2560 * ((n - 64) / 2560)) / 64), (n - 2560 * ((n - 64) / 2560)) % 64,
      by omega, by omega, by omega, by omega, by omega, ?_⟩
    have hm : ¬ (64 * ((n - 2560 * ((n - 64) / 2560)) / 64) = 0) := by omega
    simp only [T6.encodeRun, T6.encodeRunTail, h, if_true, hm, if_false, List.append_assoc]
  · refine ⟨(n - 64) / 2560, 0, n - 2560 * ((n - 64) / 2560), by omega, by omega, by omega, by omega, by omega, ?_⟩
    simp only [T6.encodeRun, T6.encodeRunTail, h, if_false, if_true, List.append_nil]

end PdfVerif.Ccitt
