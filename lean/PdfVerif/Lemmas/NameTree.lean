/-
Helper lemmas for C17 (name-tree lookup).
-/
import PdfVerif.Spec.NameTree

namespace PdfVerif.Lemmas.NameTree
open PdfVerif PdfVerif.NameTree PdfVerif.Spec.NameTree

/-! ### the byte-string order -/

theorem klt_irrefl : ∀ a : Key, klt a a = false
  | [] => rfl
  | x :: xs => by simp [klt, klt_irrefl xs]

theorem klt_trans : ∀ a b c : Key, klt a b = true → klt b c = true → klt a c = true
  | [], [], _, h, _ => by simp [klt] at h
  | [], _ :: _, [], _, h => by simp [klt] at h
  | [], _ :: _, _ :: _, _, _ => by simp [klt]
  | _ :: _, [], _, h, _ => by simp [klt] at h
  | _ :: _, _ :: _, [], _, h => by simp [klt] at h
  | x :: xs, y :: ys, z :: zs, h1, h2 => by
    simp only [klt] at h1 h2 ⊢
    rcases Nat.lt_trichotomy x y with hxy | hxy | hxy
    · rcases Nat.lt_trichotomy y z with hyz | hyz | hyz
      · simp [show x < z by omega]
      · subst hyz; simp [hxy]
      · simp [hyz, show ¬ y < z by omega] at h2
    · subst hxy
      simp only [Nat.lt_irrefl, if_false] at h1
      rcases Nat.lt_trichotomy x z with hxz | hxz | hxz
      · simp [hxz]
      · subst hxz
        simp only [Nat.lt_irrefl, if_false] at h2 ⊢
        exact klt_trans xs ys zs h1 h2
      · simp [hxz, show ¬ x < z by omega] at h2
    · simp [hxy, show ¬ x < y by omega] at h1

theorem klt_total : ∀ a b : Key, klt a b = false → klt b a = false → a = b
  | [], [], _, _ => rfl
  | [], _ :: _, h, _ => by simp [klt] at h
  | _ :: _, [], _, h => by simp [klt] at h
  | x :: xs, y :: ys, h1, h2 => by
    simp only [klt] at h1 h2
    rcases Nat.lt_trichotomy x y with hxy | hxy | hxy
    · simp [hxy] at h1
    · subst hxy
      simp only [Nat.lt_irrefl, if_false] at h1 h2
      rw [klt_total xs ys h1 h2]
    · simp [hxy] at h2

/-- `a < b ≤ c → a < c` -/
theorem klt_of_lt_of_le (a b c : Key) (h1 : klt a b = true) (h2 : kle b c = true) : klt a c = true := by
  simp only [kle, Bool.not_eq_true'] at h2
  cases hac : klt a c with
  | true => rfl
  | false =>
    cases hca : klt c a with
    | true => rw [klt_trans c a b hca h1] at h2; cases h2
    | false =>
      have := klt_total a c hac hca
      subst this
      rw [h1] at h2; cases h2

/-! ### leaves -/

theorem ascendingFrom_all : ∀ (a : Key) (l : List Key), ascendingFrom a l = true → ∀ b ∈ l, klt a b = true
  | _, [], _, b, hb => by simp at hb
  | a, x :: tl, h, b, hb => by
    simp only [ascendingFrom, Bool.and_eq_true] at h
    rcases List.mem_cons.mp hb with rfl | hb
    · exact h.1
    · exact klt_trans a x b h.1 (ascendingFrom_all x tl h.2 b hb)

theorem ascending_tail (a : Key) (l : List Key) (h : ascendingFrom a l = true) : ascending l = true := by
  cases l with
  | nil => rfl
  | cons b tl => simp only [ascendingFrom, Bool.and_eq_true] at h; exact h.2

/-- `dict(...)[key]`: the last pair with the key wins. -/
theorem dictGet_cons (p : Key × Int) (tl : List (Key × Int)) (key : Key) :
    dictGet (p :: tl) key =
      match dictGet tl key with
      | some v => some v
      | none => if p.1 == key then some p.2 else none := by
  unfold dictGet
  generalize ho : (List.filter (fun q => q.1 == key) tl).getLast? = o
  cases h : (p.1 == key) with
  | true =>
    simp only [List.filter_cons, h, if_true, List.getLast?_cons, ho]
    cases o <;> rfl
  | false =>
    simp only [List.filter_cons, h, Bool.false_eq_true, if_false, ho]
    cases o <;> rfl

theorem dictGet_none : ∀ (ns : List (Key × Int)) (key : Key), (∀ v, (key, v) ∉ ns) → dictGet ns key = none
  | [], _, _ => by simp [dictGet]
  | p :: tl, key, h => by
    rw [dictGet_cons, dictGet_none tl key (fun v hv => h v (List.mem_cons_of_mem _ hv))]
    have : (p.1 == key) = false := by
      cases hpk : (p.1 == key) with
      | false => rfl
      | true =>
        exfalso
        have : p.1 = key := by simpa using hpk
        exact h p.2 (by rw [← this]; exact List.mem_cons_self)
    simp [this]

theorem dictGet_of_mem : ∀ (ns : List (Key × Int)) (key : Key) (v : Int),
    ascending (ns.map (·.1)) = true → (key, v) ∈ ns → dictGet ns key = some v
  | [], _, _, _, h => by simp at h
  | p :: tl, key, v, hasc, hmem => by
    simp only [List.map_cons, ascending] at hasc
    rw [dictGet_cons]
    rcases List.mem_cons.mp hmem with hp | htl
    · subst hp
      have hnone : dictGet tl key = none := by
        apply dictGet_none
        intro v' hv'
        have := ascendingFrom_all key (tl.map (·.1)) hasc key (List.mem_map.mpr ⟨(key, v'), hv', rfl⟩)
        rw [klt_irrefl] at this
        cases this
      simp [hnone]
    · rw [dictGet_of_mem tl key v (ascending_tail _ _ hasc) htl]

/-! ### nodes -/

theorem and3 {a b c : Bool} (h : (a && b && c) = true) : a = true ∧ b = true ∧ c = true := by
  cases a <;> cases b <;> cases c <;> simp_all

theorem lookup_outside (key : Key) (n : Node) (h : outside key (limitsOf n) = true) : lookup key n = .none_ := by
  cases n with
  | node limits names kids =>
    simp only [limitsOf] at h
    simp [lookup, h]

theorem not_outside_of_within (key : Key) (lim : Key × Key) (ks : List Key)
    (hw : within lim ks = true) (hk : key ∈ ks) : outside key (some lim) = false := by
  unfold within at hw
  have := List.all_eq_true.mp hw key hk
  simp only [kle, Bool.and_eq_true, Bool.not_eq_true'] at this
  obtain ⟨lo, hi⟩ := lim
  simp [outside, this.1, this.2]

theorem wf_limits (n : Node) (h : wf false n = true) :
    ∃ lim, limitsOf n = some lim ∧ within lim ((flatten n).map (·.1)) = true := by
  cases n with
  | node limits names kids =>
    unfold wf at h
    obtain ⟨h1, h2, _⟩ := and3 h
    cases limits with
    | none => simp at h1
    | some lim => exact ⟨lim, rfl, by simpa [flatten] using h2⟩

theorem mem_keys {l : List (Key × Int)} {key : Key} {v : Int} (h : (key, v) ∈ l) : key ∈ l.map (·.1) :=
  List.mem_map.mpr ⟨(key, v), h, rfl⟩

/-- A key below a later sibling lies beyond the limits of an earlier one. -/
theorem outside_of_later (key : Key) (v : Int) (c : Node) :
    ∀ (cs : List Node), separated c cs = true → wfKids cs = true → (key, v) ∈ flattenKids cs →
      outside key (limitsOf c) = true
  | [], _, _, hm => by simp [flattenKids] at hm
  | c' :: cs', hsep, hwf, hm => by
    simp only [wfKids, Bool.and_eq_true] at hwf
    obtain ⟨⟨hwc', _⟩, hwcs'⟩ := hwf
    unfold separated at hsep
    cases hl : limitsOf c with
    | none => simp [hl] at hsep
    | some lim =>
      obtain ⟨lo, hi⟩ := lim
      simp only [hl, List.all_cons, Bool.and_eq_true] at hsep
      simp only [flattenKids, List.mem_append] at hm
      rcases hm with hm | hm
      · obtain ⟨lim', hl', hw'⟩ := wf_limits c' hwc'
        obtain ⟨lo', hi'⟩ := lim'
        have h1 : klt hi lo' = true := by simpa [hl'] using hsep.1
        have hin := List.all_eq_true.mp hw' key (mem_keys hm)
        simp only [Bool.and_eq_true] at hin
        have := klt_of_lt_of_le hi lo' key h1 hin.1
        simp [outside, this]
      · have hsep' : separated c cs' = true := by
          unfold separated
          simp only [hl]
          exact hsep.2
        have := outside_of_later key v c cs' hsep' hwcs' hm
        simpa [hl] using this

mutual
theorem lookup_good (key : Key) (root : Bool) (n : Node) (h : wf root n = true) :
    (∀ v, (key, v) ∈ flatten n → lookup key n = .found v ∧ v ≠ 0) ∧
    ((∀ v, (key, v) ∉ flatten n) →
      (lookup key n = .keyError ∨ (lookup key n = .none_ ∧ outside key (limitsOf n) = true))) :=
  match n with
  | .node limits names kids => by
    unfold wf at h
    obtain ⟨_, hlim, hshape⟩ := and3 h
    have hin : ∀ v, (key, v) ∈ flatten (.node limits names kids) → outside key limits = false := by
      intro v hv
      cases limits with
      | none => rfl
      | some lim => exact not_outside_of_within key lim _ (by simpa [flatten] using hlim) (mem_keys hv)
    cases names with
    | some ns =>
      cases kids with
      | cons c cs => simp at hshape
      | nil =>
        simp only [Bool.and_eq_true] at hshape
        obtain ⟨⟨hasc, htruthy⟩, _⟩ := hshape
        constructor
        · intro v hv
          have hout := hin v hv
          have hv' : (key, v) ∈ ns := by simpa [flatten, flattenKids] using hv
          have hne : v ≠ 0 := by
            have := List.all_eq_true.mp htruthy (key, v) hv'
            simpa using this
          simp [lookup, hout, dictGet_of_mem ns key v hasc hv', hne]
        · intro hv
          have hv' : ∀ v, (key, v) ∉ ns := by
            intro v hm
            exact hv v (by simpa [flatten, flattenKids] using hm)
          cases hout : outside key limits with
          | true => right; simp [lookup, hout, limitsOf]
          | false => left; simp [lookup, hout, dictGet_none ns key hv']
    | none =>
      cases kids with
      | nil => simp at hshape
      | cons c cs =>
        have ih := lookupKids_good key (c :: cs) hshape
        constructor
        · intro v hv
          have hout := hin v hv
          have hv' : (key, v) ∈ flattenKids (c :: cs) := by simpa [flatten] using hv
          simp only [lookup, hout]
          exact ih.1 v hv'
        · intro hv
          have hv' : ∀ v, (key, v) ∉ flattenKids (c :: cs) := by
            intro v hm
            exact hv v (by simpa [flatten] using hm)
          cases hout : outside key limits with
          | true => right; simp [lookup, hout, limitsOf]
          | false => left; simp only [lookup, hout]; exact ih.2 hv'
theorem lookupKids_good (key : Key) (cs : List Node) (h : wfKids cs = true) :
    (∀ v, (key, v) ∈ flattenKids cs → lookupKids key cs = .found v ∧ v ≠ 0) ∧
    ((∀ v, (key, v) ∉ flattenKids cs) → lookupKids key cs = .keyError) :=
  match cs with
  | [] => by
    constructor
    · intro v hv; simp [flattenKids] at hv
    · intro _; simp [lookupKids]
  | c :: cs' => by
    simp only [wfKids, Bool.and_eq_true] at h
    obtain ⟨⟨hwc, hsep⟩, hwcs⟩ := h
    have ihc := lookup_good key false c hwc
    have ihcs := lookupKids_good key cs' hwcs
    constructor
    · intro v hv
      simp only [flattenKids, List.mem_append] at hv
      rcases hv with hv | hv
      · obtain ⟨hf, hne⟩ := ihc.1 v hv
        simp [lookupKids, hf, hne]
      · have hout := outside_of_later key v c cs' hsep hwcs hv
        simp only [lookupKids, lookup_outside key c hout]
        exact ihcs.1 v hv
    · intro hv
      have h1 : ∀ v, (key, v) ∉ flatten c := fun v hm => hv v (by simp [flattenKids, hm])
      have h2 : ∀ v, (key, v) ∉ flattenKids cs' := fun v hm => hv v (by simp [flattenKids, hm])
      rcases ihc.2 h1 with hk | ⟨hn, _⟩
      · simp [lookupKids, hk]
      · simp only [lookupKids, hn]
        exact ihcs.2 h2
end

/-- `a ≤ b < c → a < c` -/
theorem klt_of_le_of_lt (a b c : Key) (h1 : kle a b = true) (h2 : klt b c = true) : klt a c = true := by
  simp only [kle, Bool.not_eq_true'] at h1
  cases hac : klt a c with
  | true => rfl
  | false =>
    cases hca : klt c a with
    | true => rw [klt_trans b c a h2 hca] at h1; cases h1
    | false =>
      have := klt_total a c hac hca
      subst this
      rw [h2] at h1; cases h1

theorem pairwise_of_ascendingFrom : ∀ (a : Key) (l : List Key), ascendingFrom a l = true →
    List.Pairwise (fun x y => klt x y = true) (a :: l)
  | a, [], _ => by simp
  | a, b :: tl, h => by
    have hall := ascendingFrom_all a (b :: tl) h
    simp only [ascendingFrom, Bool.and_eq_true] at h
    exact List.pairwise_cons.mpr ⟨hall, pairwise_of_ascendingFrom b tl h.2⟩

theorem pairwise_of_ascending (l : List Key) (h : ascending l = true) :
    List.Pairwise (fun x y => klt x y = true) l := by
  cases l with
  | nil => simp
  | cons a tl => exact pairwise_of_ascendingFrom a tl h

/-- A key below a later sibling is greater than the upper limit of an earlier one. -/
theorem later_gt (key : Key) (v : Int) (c : Node) (lo hi : Key) (hl : limitsOf c = some (lo, hi)) :
    ∀ (cs : List Node), separated c cs = true → wfKids cs = true → (key, v) ∈ flattenKids cs →
      klt hi key = true
  | [], _, _, hm => by simp [flattenKids] at hm
  | c' :: cs', hsep, hwf, hm => by
    simp only [wfKids, Bool.and_eq_true] at hwf
    obtain ⟨⟨hwc', _⟩, hwcs'⟩ := hwf
    unfold separated at hsep
    simp only [hl, List.all_cons, Bool.and_eq_true] at hsep
    simp only [flattenKids, List.mem_append] at hm
    rcases hm with hm | hm
    · obtain ⟨lim', hl', hw'⟩ := wf_limits c' hwc'
      obtain ⟨lo', hi'⟩ := lim'
      have h1 : klt hi lo' = true := by simpa [hl'] using hsep.1
      have hin := List.all_eq_true.mp hw' key (mem_keys hm)
      simp only [Bool.and_eq_true] at hin
      exact klt_of_lt_of_le hi lo' key h1 hin.1
    · have hsep' : separated c cs' = true := by
        unfold separated
        simp only [hl]
        exact hsep.2
      exact later_gt key v c lo hi hl cs' hsep' hwcs' hm

mutual
theorem flatten_sorted (root : Bool) (n : Node) (h : wf root n = true) :
    List.Pairwise (fun x y => klt x y = true) ((flatten n).map (·.1)) :=
  match n with
  | .node limits names kids => by
    unfold wf at h
    obtain ⟨_, _, hshape⟩ := and3 h
    cases names with
    | some ns =>
      cases kids with
      | cons c cs => simp at hshape
      | nil =>
        simp only [Bool.and_eq_true] at hshape
        simpa [flatten, flattenKids] using pairwise_of_ascending _ hshape.1.1
    | none =>
      cases kids with
      | nil => simp at hshape
      | cons c cs => simpa [flatten] using flattenKids_sorted (c :: cs) hshape
theorem flattenKids_sorted (cs : List Node) (h : wfKids cs = true) :
    List.Pairwise (fun x y => klt x y = true) ((flattenKids cs).map (·.1)) :=
  match cs with
  | [] => by simp [flattenKids]
  | c :: cs' => by
    simp only [wfKids, Bool.and_eq_true] at h
    obtain ⟨⟨hwc, hsep⟩, hwcs⟩ := h
    simp only [flattenKids, List.map_append]
    refine List.pairwise_append.mpr ⟨flatten_sorted false c hwc, flattenKids_sorted cs' hwcs, ?_⟩
    intro a ha b hb
    obtain ⟨lim, hl, hw⟩ := wf_limits c hwc
    obtain ⟨lo, hi⟩ := lim
    have hin := List.all_eq_true.mp hw a ha
    simp only [Bool.and_eq_true] at hin
    obtain ⟨p, hp, rfl⟩ := List.mem_map.mp hb
    have hgt := later_gt p.1 p.2 c lo hi hl cs' hsep hwcs hp
    exact klt_of_le_of_lt a hi p.1 hin.2 hgt
end

theorem mem_of_assoc {l : List (Key × Int)} {k : Key} {v : Int} (h : assoc l k = some v) : (k, v) ∈ l := by
  unfold assoc at h
  simp only [Option.map_eq_some_iff] at h
  obtain ⟨p, hp, rfl⟩ := h
  have hm := List.mem_of_find?_eq_some hp
  have hk := List.find?_some hp
  have : p.1 = k := by simpa using hk
  rw [← this]
  exact hm

theorem not_mem_of_assoc_none {l : List (Key × Int)} {k : Key} (h : assoc l k = none) : ∀ v, (k, v) ∉ l := by
  intro v hm
  unfold assoc at h
  simp only [Option.map_eq_none_iff, List.find?_eq_none] at h
  have := h (k, v) hm
  simp at this

end PdfVerif.Lemmas.NameTree
