/-
C09 lemmas: regenerated predicates = documented predicates (Spec/Layout.lean); the neighbour relation of
the model through Plane.find; sort-key facts.
-/
import PdfVerif.Lemmas.LayoutScale
import PdfVerif.Lemmas.LayoutResult
import PdfVerif.Props.C20
namespace PdfVerif.Layout
open PdfVerif PdfVerif.Gen.Layout

/-! ## documented predicates -/

def WfBB (b : BB) : Prop := b.x0 ≤ b.x1 ∧ b.y0 ≤ b.y1

theorem sep_le_zero (a0 a1 b0 b1 : Rat) : Spec.sep a0 a1 b0 b1 ≤ 0 ↔ (b0 ≤ a1 ∧ a0 ≤ b1) := by
  simp only [Spec.sep, max_le_iff, sub_nonpos]
  exact ⟨fun h => ⟨h.2, h.1⟩, fun h => ⟨h.2, h.1⟩⟩

theorem sep_lt (a0 a1 b0 b1 d : Rat) : Spec.sep a0 a1 b0 b1 < d ↔ (a0 - b1 < d ∧ b0 - a1 < d) := by
  simp only [Spec.sep, max_lt_iff]

theorem absDiff_eq (x y : Rat) : Spec.absDiff x y = rabs (x - y) := by
  rw [rabs_eq_abs, Spec.absDiff, abs_eq_max_neg, neg_sub]

theorem dist1_eq_gap (a0 a1 b0 b1 : Rat) (ha : a0 ≤ a1) (hb : b0 ≤ b1) :
    (if (decide (b0 ≤ a1) && decide (a0 ≤ b1)) = true then (0 : Rat) else min (rabs (a0 - b1)) (rabs (a1 - b0)))
      = Spec.gap a0 a1 b0 b1 := by
  simp only [Spec.gap, Spec.sep, rabs_eq_abs, Bool.and_eq_true, decide_eq_true_eq]
  split
  · rename_i h
    have : max (a0 - b1) (b0 - a1) ≤ 0 := by
      simp only [max_le_iff, sub_nonpos]; exact ⟨h.2, h.1⟩
    exact (max_eq_left this).symm
  · rename_i h
    rw [not_and_or, not_le, not_le] at h
    rcases h with h | h
    · have e1 : |a0 - b1| = b1 - a0 := by rw [abs_of_nonpos (by linarith)]; ring
      have e2 : |a1 - b0| = b0 - a1 := by rw [abs_of_nonpos (by linarith)]; ring
      have e3 : max (a0 - b1) (b0 - a1) = b0 - a1 := max_eq_right (by linarith)
      rw [e1, e2, e3, min_eq_right (by linarith), max_eq_right (by linarith)]
    · have e1 : |a0 - b1| = a0 - b1 := abs_of_nonneg (by linarith)
      have e2 : |a1 - b0| = a1 - b0 := abs_of_nonneg (by linarith)
      have e3 : max (a0 - b1) (b0 - a1) = a0 - b1 := max_eq_left (by linarith)
      rw [e1, e2, e3, min_eq_left (by linarith), max_eq_right (by linarith)]

theorem hdistance_eq_gap (a b : BB) (ha : WfBB a) (hb : WfBB b) :
    hdistance a b = Spec.gap a.x0 a.x1 b.x0 b.x1 := by
  simp only [hdistance, is_hoverlap]
  exact dist1_eq_gap a.x0 a.x1 b.x0 b.x1 ha.1 hb.1

theorem vdistance_eq_gap (a b : BB) (ha : WfBB a) (hb : WfBB b) :
    vdistance a b = Spec.gap a.y0 a.y1 b.y0 b.y1 := by
  simp only [vdistance, is_voverlap]
  exact dist1_eq_gap a.y0 a.y1 b.y0 b.y1 ha.2 hb.2

theorem halign_eq_joinH (p : LAParams) (a b : BB) (ha : WfBB a) (hb : WfBB b) :
    halign p a b = Spec.joinH p.line_overlap p.char_margin a b := by
  simp only [halign, Spec.joinH, hdistance_eq_gap a b ha hb]
  have h1 : is_voverlap a b = decide (Spec.sep a.y0 a.y1 b.y0 b.y1 ≤ 0) := by
    simp only [is_voverlap, sep_le_zero]
    exact (Bool.decide_and _ _).symm
  rw [h1]
  by_cases h : Spec.sep a.y0 a.y1 b.y0 b.y1 ≤ 0
  · have hv : is_voverlap a b = true := by rw [h1]; simpa using h
    simp only [voverlap, hv, if_true, Spec.overlapLen, gt_iff_lt, mul_comm]
  · simp [h]

theorem valign_eq_joinV (p : LAParams) (a b : BB) (ha : WfBB a) (hb : WfBB b) :
    valign p a b = (p.detect_vertical && Spec.joinV p.line_overlap p.char_margin a b) := by
  simp only [valign, Spec.joinV, vdistance_eq_gap a b ha hb]
  have h1 : is_hoverlap a b = decide (Spec.sep a.x0 a.x1 b.x0 b.x1 ≤ 0) := by
    simp only [is_hoverlap, sep_le_zero]
    exact (Bool.decide_and _ _).symm
  rw [h1]
  by_cases h : Spec.sep a.x0 a.x1 b.x0 b.x1 ≤ 0
  · have hv : is_hoverlap a b = true := by rw [h1]; simpa using h
    simp only [hoverlap, hv, if_true, Spec.overlapLen, gt_iff_lt, mul_comm, Bool.and_assoc]
  · simp [h]

theorem need_space_h_eq (wm last : Rat) (b : BB) : need_space_h wm last b = Spec.spaceH wm last b := by
  simp only [need_space_h, Spec.spaceH]
  congr 1
  apply decide_eq_decide.mpr
  constructor <;> intro h <;> linarith

theorem need_space_v_eq (wm last : Rat) (b : BB) : need_space_v wm last b = Spec.spaceV wm last b := by
  simp only [need_space_v, Spec.spaceV]
  congr 1
  apply decide_eq_decide.mpr
  constructor <;> intro h <;> linarith

theorem overlaps_query_h (r : Rat) (s o : BB) (id : Nat) :
    Plane.overlaps ⟨id, o.x0, o.y0, o.x1, o.y1⟩ (neighbor_query_h s r)
      = (decide (Spec.sep s.x0 s.x1 o.x0 o.x1 < 0) && decide (Spec.sep s.y0 s.y1 o.y0 o.y1 < r * s.height)) := by
  rw [Bool.eq_iff_iff]
  simp only [Plane.overlaps, neighbor_query_h, Bool.not_eq_true', Bool.or_eq_false_iff, decide_eq_false_iff_not,
    not_le, Bool.and_eq_true, decide_eq_true_eq, sep_lt]
  constructor
  · rintro ⟨⟨⟨h1, h2⟩, h3⟩, h4⟩
    have h1 := not_le.mp (of_decide_eq_false h1)
    have h2 := not_le.mp (of_decide_eq_false h2)
    have h3 := not_le.mp (of_decide_eq_false h3)
    have h4 := not_le.mp (of_decide_eq_false h4)
    exact ⟨⟨by linarith, by linarith⟩, by linarith, by linarith⟩
  · rintro ⟨⟨h1, h2⟩, h3, h4⟩
    exact ⟨⟨⟨decide_eq_false (by linarith), decide_eq_false (by linarith)⟩, decide_eq_false (by linarith)⟩,
      decide_eq_false (by linarith)⟩

theorem overlaps_query_v (r : Rat) (s o : BB) (id : Nat) :
    Plane.overlaps ⟨id, o.x0, o.y0, o.x1, o.y1⟩ (neighbor_query_v s r)
      = (decide (Spec.sep s.y0 s.y1 o.y0 o.y1 < 0) && decide (Spec.sep s.x0 s.x1 o.x0 o.x1 < r * s.width)) := by
  rw [Bool.eq_iff_iff]
  simp only [Plane.overlaps, neighbor_query_v, Bool.not_eq_true', Bool.or_eq_false_iff, decide_eq_false_iff_not,
    not_le, Bool.and_eq_true, decide_eq_true_eq, sep_lt]
  constructor
  · rintro ⟨⟨⟨h1, h2⟩, h3⟩, h4⟩
    have h1 := not_le.mp (of_decide_eq_false h1)
    have h2 := not_le.mp (of_decide_eq_false h2)
    have h3 := not_le.mp (of_decide_eq_false h3)
    have h4 := not_le.mp (of_decide_eq_false h4)
    exact ⟨⟨by linarith, by linarith⟩, by linarith, by linarith⟩
  · rintro ⟨⟨h1, h2⟩, h3, h4⟩
    exact ⟨⟨⟨decide_eq_false (by linarith), decide_eq_false (by linarith)⟩, decide_eq_false (by linarith)⟩,
      decide_eq_false (by linarith)⟩

theorem neighbor_h_eq (r : Rat) (s o : BB) (id : Nat) :
    (neighbor_filter_h s o true r && Plane.overlaps ⟨id, o.x0, o.y0, o.x1, o.y1⟩ (neighbor_query_h s r))
      = Spec.neighborH r s o := by
  rw [overlaps_query_h]
  simp only [neighbor_filter_h, Spec.neighborH, is_same_height_as,
    is_left_aligned_with, is_right_aligned_with, is_hcentrally_aligned_with, absDiff_eq, Bool.true_and]
  rw [Bool.eq_iff_iff]
  simp only [Bool.and_eq_true, Bool.or_eq_true, decide_eq_true_eq]
  tauto

theorem neighbor_v_eq (r : Rat) (s o : BB) (id : Nat) :
    (neighbor_filter_v s o true r && Plane.overlaps ⟨id, o.x0, o.y0, o.x1, o.y1⟩ (neighbor_query_v s r))
      = Spec.neighborV r s o := by
  rw [overlaps_query_v]
  simp only [neighbor_filter_v, Spec.neighborV, is_same_width_as,
    is_lower_aligned_with, is_upper_aligned_with, is_vcentrally_aligned_with, absDiff_eq, Bool.true_and]
  rw [Bool.eq_iff_iff]
  simp only [Bool.and_eq_true, Bool.or_eq_true, decide_eq_true_eq]
  tauto


/-! ## the neighbour relation of the model = documented relation (through `Plane.find` = brute force) -/

open PdfVerif.Plane (WfRect bboxOf overlaps) in
open PdfVerif.Props.C20 (Reach plane_find) in
theorem neighbors_iff (ratio : Rat) (hr : 0 ≤ ratio) (pageBB : BB)
    (hp : pageBB.x0 ≤ pageBB.x1 ∧ pageBB.y0 ≤ pageBB.y1) (lines : List Line)
    (hne : ∀ l ∈ lines, l.isEmpty = false) (l : Line) (hl : l ∈ lines) (j : Nat) :
    j ∈ neighbors ratio (mkPlane pageBB (lines.zipIdx.map fun (x : Line × Nat) => x.1.pobj x.2)) lines l ↔
      ∃ m, lines[j]? = some m ∧ m.vertical = l.vertical ∧
        (if l.vertical then Spec.neighborV ratio l.bb m.bb else Spec.neighborH ratio l.bb m.bb) = true := by
  have hpos := pos_of_not_empty (hne l hl)
  have hreach : Reach (mkPlane pageBB (lines.zipIdx.map fun (x : Line × Nat) => x.1.pobj x.2))
      (lines.zipIdx.map fun (x : Line × Nat) => x.1.pobj x.2) := by
    apply reach_mkPlane pageBB _ hp
    · intro o ho
      simp only [List.mem_map] at ho
      obtain ⟨x, hx, rfl⟩ := ho
      have hm := List.mem_zipIdx hx
      have hxl : x.1 ∈ lines := by rw [hm.2.2]; exact List.getElem_mem _
      have := pos_of_not_empty (hne x.1 hxl)
      simp only [WfRect, bboxOf, Line.pobj]
      constructor <;> linarith [this.1, this.2]
    · rw [lines_ids]; exact List.nodup_range'
  have hd : 0 ≤ ratio * l.bb.height ∧ 0 ≤ ratio * l.bb.width := by
    constructor <;> apply mul_nonneg hr <;> simp only [BB.height, BB.width] <;> linarith [hpos.1, hpos.2]
  have hq : WfRect (neighborQuery ratio l) := by
    unfold neighborQuery
    split
    · simp only [neighbor_query_v, WfRect]; constructor <;> linarith [hpos.1, hpos.2, hd.1, hd.2]
    · simp only [neighbor_query_h, WfRect]; constructor <;> linarith [hpos.1, hpos.2, hd.1, hd.2]
  have hfind := (plane_find hreach _ hq).1
  have hobj : ∀ o : Plane.PObj, o ∈ (lines.zipIdx.map fun (x : Line × Nat) => x.1.pobj x.2) ↔
      ∃ (k : Nat) (m : Line), lines[k]? = some m ∧ o = m.pobj k := by
    intro o
    simp only [List.mem_map, List.mem_zipIdx_iff_getElem?]
    constructor
    · rintro ⟨x, hx, rfl⟩
      exact ⟨x.2, x.1, by simpa using hx, rfl⟩
    · rintro ⟨k, m, hk, rfl⟩
      exact ⟨(m, k), by simpa using hk, rfl⟩
  simp only [neighbors, List.mem_map, List.mem_filter, hfind, hobj]
  constructor
  · rintro ⟨o, ⟨⟨⟨k, m, hk, rfl⟩, hov⟩, hfil⟩, rfl⟩
    have hk' : lines[(m.pobj k).id]? = some m := hk
    rw [hk'] at hfil
    simp only [isNeighbor, pobjBB_pobj] at hfil
    refine ⟨m, hk, ?_⟩
    cases hv : l.vertical
    · simp only [hv, Bool.false_eq_true, if_false, neighborQuery] at hfil hov ⊢
      have hmv : m.vertical = false := by
        simp only [neighbor_filter_h, Bool.and_eq_true, Bool.not_eq_true'] at hfil
        exact hfil.1.1
      refine ⟨hmv, ?_⟩
      rw [← neighbor_h_eq ratio l.bb m.bb k]
      rw [hmv] at hfil
      simp only [Bool.not_false] at hfil
      rw [hfil]
      simpa [Line.pobj] using hov
    · simp only [hv, if_true, neighborQuery] at hfil hov ⊢
      have hmv : m.vertical = true := by
        simp only [neighbor_filter_v, Bool.and_eq_true] at hfil
        exact hfil.1.1
      refine ⟨hmv, ?_⟩
      rw [← neighbor_v_eq ratio l.bb m.bb k]
      rw [hmv] at hfil
      rw [hfil]
      simpa [Line.pobj] using hov
  · rintro ⟨m, hj, hmv, hspec⟩
    refine ⟨m.pobj j, ⟨⟨⟨j, m, hj, rfl⟩, ?_⟩, ?_⟩, rfl⟩
    · cases hv : l.vertical
      · simp only [hv, Bool.false_eq_true, if_false] at hspec
        rw [← neighbor_h_eq ratio l.bb m.bb j] at hspec
        simp only [Bool.and_eq_true] at hspec
        simpa [neighborQuery, hv, Line.pobj] using hspec.2
      · simp only [hv, if_true] at hspec
        rw [← neighbor_v_eq ratio l.bb m.bb j] at hspec
        simp only [Bool.and_eq_true] at hspec
        simpa [neighborQuery, hv, Line.pobj] using hspec.2
    · have hk' : lines[(m.pobj j).id]? = some m := hj
      rw [hk']
      simp only [isNeighbor, pobjBB_pobj]
      cases hv : l.vertical
      · simp only [hv, Bool.false_eq_true, if_false] at hspec ⊢
        rw [← neighbor_h_eq ratio l.bb m.bb j] at hspec
        simp only [Bool.and_eq_true] at hspec
        rw [hmv, hv]
        exact hspec.1
      · simp only [hv, if_true] at hspec ⊢
        rw [← neighbor_v_eq ratio l.bb m.bb j] at hspec
        simp only [Bool.and_eq_true] at hspec
        rw [hmv, hv]
        exact hspec.1

/-! ## reading order: the sort keys -/

theorem key_lrtb_column (bf : Rat) (hbf : -1 < bf) (a b : BB) (hx : a.x0 = b.x0)
    (habove : b.y0 + b.y1 < a.y0 + a.y1) : key_lrtb bf a < key_lrtb bf b := by
  simp only [key_lrtb, hx]
  nlinarith

theorem key_lrtb_columns (bf : Rat) (hbf : bf < 1) (a b : BB) (hy : a.y0 + a.y1 = b.y0 + b.y1)
    (hleft : a.x0 < b.x0) : key_lrtb bf a < key_lrtb bf b := by
  simp only [key_lrtb, hy]
  nlinarith


/-! ## the neighbour relation is scale invariant -/

section
variable {s : Rat} (hs : 0 < s)
include hs

theorem sep_scale (a0 a1 b0 b1 : Rat) : Spec.sep (s * a0) (s * a1) (s * b0) (s * b1) = s * Spec.sep a0 a1 b0 b1 := by
  simp only [Spec.sep, ← mul_sub, max_scale hs]

theorem absDiff_scale (x y : Rat) : Spec.absDiff (s * x) (s * y) = s * Spec.absDiff x y := by
  simp only [Spec.absDiff, ← mul_sub, max_scale hs]

theorem spec_neighborH_scale (r : Rat) (a o : BB) :
    Spec.neighborH r (scaleBB s a) (scaleBB s o) = Spec.neighborH r a o := by
  have e0 : ∀ x : Rat, s * x < 0 ↔ x < 0 := fun x => by
    have := lt_scale hs x 0; simpa using this
  have e1 : ∀ x : Rat, s * x < r * (s * a.height) ↔ x < r * a.height := fun x => by
    rw [show r * (s * a.height) = s * (r * a.height) by ring, lt_scale hs]
  have e2 : ∀ x : Rat, s * x ≤ r * (s * a.height) ↔ x ≤ r * a.height := fun x => by
    rw [show r * (s * a.height) = s * (r * a.height) by ring, le_scale hs]
  have e3 : ∀ x y z w : Rat, Spec.absDiff ((s * x + s * y) / 2) ((s * z + s * w) / 2)
      = s * Spec.absDiff ((x + y) / 2) ((z + w) / 2) := fun x y z w => by
    rw [show (s * x + s * y) / 2 = s * ((x + y) / 2) by ring, show (s * z + s * w) / 2 = s * ((z + w) / 2) by ring,
      absDiff_scale hs]
  simp only [Spec.neighborH, scale_height]
  simp only [Spec.scaleBB, sep_scale hs, absDiff_scale hs, e3, e0, e1, e2]

theorem spec_neighborV_scale (r : Rat) (a o : BB) :
    Spec.neighborV r (scaleBB s a) (scaleBB s o) = Spec.neighborV r a o := by
  have e0 : ∀ x : Rat, s * x < 0 ↔ x < 0 := fun x => by
    have := lt_scale hs x 0; simpa using this
  have e1 : ∀ x : Rat, s * x < r * (s * a.width) ↔ x < r * a.width := fun x => by
    rw [show r * (s * a.width) = s * (r * a.width) by ring, lt_scale hs]
  have e2 : ∀ x : Rat, s * x ≤ r * (s * a.width) ↔ x ≤ r * a.width := fun x => by
    rw [show r * (s * a.width) = s * (r * a.width) by ring, le_scale hs]
  have e3 : ∀ x y z w : Rat, Spec.absDiff ((s * x + s * y) / 2) ((s * z + s * w) / 2)
      = s * Spec.absDiff ((x + y) / 2) ((z + w) / 2) := fun x y z w => by
    rw [show (s * x + s * y) / 2 = s * ((x + y) / 2) by ring, show (s * z + s * w) / 2 = s * ((z + w) / 2) by ring,
      absDiff_scale hs]
  simp only [Spec.neighborV, scale_width]
  simp only [Spec.scaleBB, sep_scale hs, absDiff_scale hs, e3, e0, e1, e2]

/-- Which lines are neighbours of which does not depend on the scale (as a relation; the ORDER in
which `find_neighbors` lists them does, see `C09_scale_cex`). -/
theorem neighbors_scale (ratio : Rat) (hr : 0 ≤ ratio) (pageBB : BB)
    (hp : pageBB.x0 ≤ pageBB.x1 ∧ pageBB.y0 ≤ pageBB.y1) (lines : List Line)
    (hne : ∀ l ∈ lines, l.isEmpty = false) (l : Line) (hl : l ∈ lines) (j : Nat) :
    j ∈ neighbors ratio (mkPlane (scaleBB s pageBB)
          (((lines.map (scaleLine s)).zipIdx).map fun (x : Line × Nat) => x.1.pobj x.2))
        (lines.map (scaleLine s)) (scaleLine s l)
    ↔ j ∈ neighbors ratio (mkPlane pageBB (lines.zipIdx.map fun (x : Line × Nat) => x.1.pobj x.2)) lines l := by
  have hp' : (scaleBB s pageBB).x0 ≤ (scaleBB s pageBB).x1 ∧ (scaleBB s pageBB).y0 ≤ (scaleBB s pageBB).y1 := by
    simp only [Spec.scaleBB, le_scale hs]; exact hp
  have hne' : ∀ l' ∈ lines.map (scaleLine s), l'.isEmpty = false := by
    intro l' hl'
    simp only [List.mem_map] at hl'
    obtain ⟨l0, hl0, rfl⟩ := hl'
    rw [isEmpty_scale hs]; exact hne l0 hl0
  rw [neighbors_iff ratio hr _ hp' _ hne' _ (List.mem_map_of_mem hl) j, neighbors_iff ratio hr _ hp _ hne _ hl j]
  simp only [List.getElem?_map]
  constructor
  · rintro ⟨m, hm, hv, hspec⟩
    cases hj : lines[j]? with
    | none => simp [hj] at hm
    | some m0 =>
      simp only [hj, Option.map_some, Option.some.injEq] at hm
      subst hm
      refine ⟨m0, rfl, hv, ?_⟩
      have : (scaleLine s l).vertical = l.vertical := rfl
      rw [this] at hspec
      have hb1 : (scaleLine s l).bb = scaleBB s l.bb := rfl
      have hb2 : (scaleLine s m0).bb = scaleBB s m0.bb := rfl
      rw [hb1, hb2, spec_neighborH_scale hs, spec_neighborV_scale hs] at hspec
      exact hspec
  · rintro ⟨m, hm, hv, hspec⟩
    refine ⟨scaleLine s m, by simp [hm], hv, ?_⟩
    have : (scaleLine s l).vertical = l.vertical := rfl
    rw [this]
    have hb1 : (scaleLine s l).bb = scaleBB s l.bb := rfl
    have hb2 : (scaleLine s m).bb = scaleBB s m.bb := rfl
    rw [hb1, hb2, spec_neighborH_scale hs, spec_neighborV_scale hs]
    exact hspec

end

end PdfVerif.Layout
