/-
Helper lemmas for C12 (process model): memo tables return what a fresh computation returns and
keep the invariant "every entry equals the fresh value of its key".
-/
import PdfVerif.Model.Process

namespace PdfVerif.Process

/-! ### association lists -/

theorem alookup_mem {α : Type} {k : Nat} {v : α} : ∀ {l : List (Nat × α)}, alookup k l = some v → (k, v) ∈ l
  | [], h => by simp [alookup] at h
  | (k', v') :: rest, h => by
    unfold alookup at h
    split at h
    · next hk => cases h; subst hk; exact List.mem_cons_self
    · exact List.mem_cons_of_mem _ (alookup_mem h)

theorem mem_aset {α : Type} {k : Nat} {v : α} {e : Nat × α} : ∀ {l : List (Nat × α)},
    e ∈ aset k v l → e = (k, v) ∨ e ∈ l
  | [], h => by simp [aset] at h; exact Or.inl h
  | (k', v') :: rest, h => by
    unfold aset at h
    split at h
    · rcases List.mem_cons.mp h with h | h
      · exact Or.inl h
      · exact Or.inr (List.mem_cons_of_mem _ h)
    · rcases List.mem_cons.mp h with h | h
      · exact Or.inr (h ▸ List.mem_cons_self)
      · rcases mem_aset h with h | h
        · exact Or.inl h
        · exact Or.inr (List.mem_cons_of_mem _ h)

theorem alookup_aset_self {α : Type} (k : Nat) (v : α) : ∀ (l : List (Nat × α)), alookup k (aset k v l) = some v
  | [] => by simp [aset, alookup]
  | (k', v') :: rest => by
    unfold aset
    split
    · simp [alookup]
    · next hk => simp [alookup, hk, alookup_aset_self k v rest]

theorem alookup_aset_ne {α : Type} {k k' : Nat} (v : α) (hne : k' ≠ k) : ∀ (l : List (Nat × α)),
    alookup k' (aset k v l) = alookup k' l
  | [] => by simp [aset, alookup, Ne.symm hne]
  | (k'', v'') :: rest => by
    unfold aset
    split
    · next hk => subst hk; simp [alookup, Ne.symm hne]
    · next hk =>
      by_cases h2 : k'' = k'
      · simp [alookup, h2]
      · simp [alookup, h2, alookup_aset_ne v hne rest]

/-! ### memo tables -/

/-- every entry of the table is what a fresh computation of its key returns -/
def CacheOk {α : Type} (fresh : Nat → Option α) (c : List (Nat × α)) : Prop :=
  ∀ k v, (k, v) ∈ c → fresh k = some v

theorem CacheOk.nil {α : Type} (fresh : Nat → Option α) : CacheOk fresh [] := by
  intro k v h; cases h

theorem memo_spec {α : Type} (store : Bool) (fresh : Nat → Option α) (c : List (Nat × α)) (k : Nat)
    (h : CacheOk fresh c) :
    (memo store fresh c k).1 = fresh k ∧ CacheOk fresh (memo store fresh c k).2 := by
  unfold memo
  split
  · next v hv => exact ⟨(h k v (alookup_mem hv)).symm, h⟩
  · split
    · next hf => exact ⟨hf.symm, h⟩
    · next v hf =>
      refine ⟨hf.symm, ?_⟩
      cases store
      · exact h
      · intro k' v' hm
        rcases List.mem_cons.mp hm with hm | hm
        · cases hm; exact hf
        · exact h k' v' hm

/-! ### shared tables -/

/-- tables_inv: the encoding tables are the initial ones; every cached CMap / unicode map is what
a fresh load of its name returns -/
def TablesOk (W : World) (t : Tables) : Prop :=
  t.enc = W.encInit ∧ CacheOk W.loadCMap t.cmaps ∧ CacheOk W.loadUMap t.umaps

theorem TablesOk.init (W : World) : TablesOk W ⟨W.encInit, [], []⟩ :=
  ⟨rfl, CacheOk.nil _, CacheOk.nil _⟩

theorem getCMap_spec (W : World) (t : Tables) (n : Nat) (h : TablesOk W t) :
    (getCMap W t n).1 = W.loadCMap n ∧ TablesOk W (getCMap W t n).2 := by
  have := memo_spec true W.loadCMap t.cmaps n h.2.1
  exact ⟨this.1, h.1, this.2, h.2.2⟩

theorem getUMap_spec (W : World) (t : Tables) (n : Nat) (h : TablesOk W t) :
    (getUMap W t n).1 = W.loadUMap n ∧ TablesOk W (getUMap W t n).2 := by
  have := memo_spec true W.loadUMap t.umaps n h.2.2
  exact ⟨this.1, h.1, h.2.1, this.2⟩

/-- the font a specification denotes, written with fresh loads only -/
def fontPure (W : World) (spec : FontSpec) (src : List (Option Nat)) : Font :=
  let tou := if spec.hasToUnicode then some spec.tounicode else none
  if spec.kind = 0 then
    { kind := 0, enc := getEncoding W.encInit spec.base spec.diffs, tounicode := tou, cmap := none,
      umap := none, src := src }
  else if spec.kind = 1 then
    { kind := 1, enc := [], tounicode := tou, cmap := none, umap := none, src := src }
  else if spec.hasToUnicode then
    { kind := spec.kind, enc := [], tounicode := tou,
      cmap := if spec.kind = 3 then none else W.loadCMap spec.cmap, umap := none, src := src }
  else
    { kind := spec.kind, enc := [], tounicode := tou,
      cmap := if spec.kind = 3 then none else W.loadCMap spec.cmap,
      umap := (W.loadUMap spec.umap).map (fun p => if spec.vertical then p.2 else p.1), src := src }

theorem useCMapEffect_ok (W : World) (t : Tables) (spec : FontSpec) (h : TablesOk W t) :
    TablesOk W (useCMapEffect W t spec) := by
  unfold useCMapEffect
  split
  · exact (getCMap_spec W t _ h).2
  · exact h

theorem cmapStep_spec (W : World) (t : Tables) (spec : FontSpec) (h : TablesOk W t) :
    (cmapStep W t spec).1 = (if spec.kind = 3 then none else W.loadCMap spec.cmap) ∧
    TablesOk W (cmapStep W t spec).2 := by
  unfold cmapStep
  split
  · exact ⟨rfl, h⟩
  · exact getCMap_spec W t _ h

theorem buildFont_spec (W : World) (t : Tables) (spec : FontSpec) (src : List (Option Nat))
    (h : TablesOk W t) :
    (buildFont W t spec src).1 = fontPure W spec src ∧ TablesOk W (buildFont W t spec src).2 := by
  have h1 := useCMapEffect_ok W t spec h
  have hc := cmapStep_spec W (useCMapEffect W t spec) spec h1
  have hu := getUMap_spec W (cmapStep W (useCMapEffect W t spec) spec).2 spec.umap hc.2
  unfold buildFont fontPure
  by_cases k0 : spec.kind = 0
  · simp only [k0, if_true]
    exact ⟨by rw [h1.1], h1⟩
  · by_cases k1 : spec.kind = 1
    · simp only [k0, k1, if_true, if_false]
      exact ⟨rfl, h1⟩
    · by_cases ht : spec.hasToUnicode = true
      · simp only [k0, k1, ht, if_true, if_false]
        exact ⟨by rw [hc.1], hc.2⟩
      · have ht' : spec.hasToUnicode = false := by simpa using ht
        refine ⟨?_, ?_⟩
        · simp [k0, k1, ht', hc.1, hu.1]
        · simp only [k0, k1, ht', if_false, Bool.false_eq_true]
          exact hu.2

theorem fontOf_eq (W : World) (spec : FontSpec) (src : List (Option Nat)) :
    fontOf W spec src = fontPure W spec src :=
  (buildFont_spec W _ spec src (TablesOk.init W)).1

/-! ### per-document caches -/

/-- cache_inv, object part: a cached object has the payload a fresh parse returns -/
def ObjOk (d : DocSpec) (objs : List (Nat × (Nat × Bool))) : Prop :=
  ∀ n v, (n, v) ∈ objs → freshObj d n = some v.1

def PObjOk (d : DocSpec) (pobjs : List (Nat × List (Nat × Nat))) : Prop :=
  ∀ sid l, (sid, l) ∈ pobjs → l = streamObjs d sid

/-- cache_inv, font part: a cached font is the font its object denotes, built from fresh values -/
def FontOk (W : World) (d : DocSpec) (fonts : List (Nat × Font)) : Prop :=
  ∀ n f, (n, f) ∈ fonts → ∃ spec, alookup n d.fontSpecs = some spec ∧
    f = fontPure W spec (freshObj d n :: spec.reads.map (freshObj d))

def CachesOk (W : World) (d : DocSpec) (c : Caches) : Prop :=
  ObjOk d c.objs ∧ PObjOk d c.pobjs ∧ FontOk W d c.fonts ∧ c.busy = []

theorem CachesOk.empty (W : World) (d : DocSpec) : CachesOk W d Caches.empty :=
  ⟨by intro n v h; simp [Caches.empty] at h, by intro n v h; simp [Caches.empty] at h,
   by intro n v h; simp [Caches.empty] at h, rfl⟩

theorem mem_touch {n k : Nat} {v : Nat × Bool} : ∀ {l : List (Nat × (Nat × Bool))},
    (k, v) ∈ touch n l → ∃ b, (k, (v.1, b)) ∈ l
  | [], h => by simp [touch] at h
  | (k', v') :: rest, h => by
    unfold touch at h
    split at h
    · rcases List.mem_cons.mp h with h | h
      · cases h; exact ⟨v'.2, List.mem_cons_self⟩
      · exact ⟨v.2, List.mem_cons_of_mem _ h⟩
    · rcases List.mem_cons.mp h with h | h
      · cases h; exact ⟨v.2, List.mem_cons_self⟩
      · obtain ⟨b, hb⟩ := mem_touch h
        exact ⟨b, List.mem_cons_of_mem _ hb⟩

theorem ObjOk.touch {d : DocSpec} {objs : List (Nat × (Nat × Bool))} (n : Nat) (h : ObjOk d objs) :
    ObjOk d (touch n objs) := by
  intro k v hm
  obtain ⟨b, hb⟩ := mem_touch hm
  exact h k (v.1, b) hb

theorem ObjOk.cons {d : DocSpec} {objs : List (Nat × (Nat × Bool))} {n p : Nat} (b : Bool)
    (h : ObjOk d objs) (hf : freshObj d n = some p) : ObjOk d ((n, (p, b)) :: objs) := by
  intro k v hm
  rcases List.mem_cons.mp hm with hm | hm
  · cases hm; exact hf
  · exact h k v hm

theorem pobjsLookup_spec (d : DocSpec) (caching : Bool) (pobjs : List (Nat × List (Nat × Nat))) (sid : Nat)
    (hp : PObjOk d pobjs) :
    (pobjsLookup d caching pobjs sid).1 = streamObjs d sid ∧ PObjOk d (pobjsLookup d caching pobjs sid).2 := by
  unfold pobjsLookup
  split
  · next l hl => exact ⟨hp sid l (alookup_mem hl), hp⟩
  · refine ⟨rfl, ?_⟩
    cases caching
    · exact hp
    · intro s l hm
      rcases List.mem_cons.mp hm with hm | hm
      · cases hm; rfl
      · exact hp s l hm

theorem objsAfterStream_ok {d : DocSpec} (caching : Bool) {objs : List (Nat × (Nat × Bool))} {sid sp : Nat}
    (ho : ObjOk d objs) (hs : freshObj d sid = some sp) : ObjOk d (objsAfterStream caching objs sid sp) := by
  unfold objsAfterStream
  split
  · exact ho.cons true hs
  · exact ho.touch sid

theorem readObj_spec (W : World) (d : DocSpec) (caching : Bool) (c : Caches) (n : Nat)
    (h : CachesOk W d c) :
    (readObj d caching c n).1 = freshObj d n ∧ CachesOk W d (readObj d caching c n).2 ∧
    (readObj d caching c n).2.fonts = c.fonts := by
  obtain ⟨ho, hp, hf, hb⟩ := h
  have hbusy : ∀ sid, c.busy.contains sid = false := by intro sid; rw [hb]; rfl
  unfold readObj
  split
  · next v hv => exact ⟨(ho n v (alookup_mem hv)).symm, ⟨ho.touch n, hp, hf, hb⟩, rfl⟩
  · split
    · next hn => exact ⟨by simp [freshObj, hn], ⟨ho, hp, hf, hb⟩, rfl⟩
    · next p hn =>
      have hfr : freshObj d n = some p := by simp [freshObj, hn]
      refine ⟨hfr.symm, ?_, ?_⟩
      · cases caching
        · exact ⟨ho, hp, hf, hb⟩
        · exact ⟨ho.cons false hfr, hp, hf, hb⟩
      · cases caching <;> rfl
    · next sid hn =>
      -- dangling compressed reference: reads as null, the caches of the stream stay valid
      have hfr : freshObj d n = none := by simp [freshObj, hn]
      simp only [hbusy sid, Bool.false_eq_true, if_false]
      split
      · next sp hs =>
        have hsid : freshObj d sid = some sp := by simp [freshObj, hs]
        exact ⟨hfr.symm, ⟨objsAfterStream_ok caching ho hsid, (pobjsLookup_spec d caching c.pobjs sid hp).2, hf, hb⟩, rfl⟩
      · exact ⟨hfr.symm, ⟨ho, hp, hf, hb⟩, rfl⟩
    · next sid q hn =>
      simp only [hbusy sid, Bool.false_eq_true, if_false]
      split
      · next sp hs =>
        have hsid : freshObj d sid = some sp := by simp [freshObj, hs]
        have hfr : freshObj d n = alookup n (streamObjs d sid) := by simp [freshObj, hn, hs]
        have ho1 := objsAfterStream_ok caching ho hsid
        obtain ⟨hr1, hr2⟩ := pobjsLookup_spec d caching c.pobjs sid hp
        rw [hr1]
        split
        · next hnone => exact ⟨by rw [hfr, hnone], ⟨ho1, hr2, hf, hb⟩, rfl⟩
        · next p hp' =>
          have hfn : freshObj d n = some p := by rw [hfr, hp']
          refine ⟨hfn.symm, ⟨?_, hr2, hf, hb⟩, rfl⟩
          cases caching
          · exact ho1
          · exact ObjOk.cons false ho1 hfn
      · next hs =>
        refine ⟨?_, ⟨ho, hp, hf, hb⟩, rfl⟩
        simp only [freshObj, hn]

theorem readMany_spec (W : World) (d : DocSpec) (caching : Bool) : ∀ (ns : List Nat) (c : Caches),
    CachesOk W d c →
    (readMany d caching c ns).1 = ns.map (freshObj d) ∧ CachesOk W d (readMany d caching c ns).2 ∧
    (readMany d caching c ns).2.fonts = c.fonts
  | [], c, h => ⟨rfl, h, rfl⟩
  | n :: ns, c, h => by
    obtain ⟨h1, h2, h3⟩ := readObj_spec W d caching c n h
    obtain ⟨i1, i2, i3⟩ := readMany_spec W d caching ns (readObj d caching c n).2 h2
    simp only [readMany, List.map_cons]
    exact ⟨by rw [h1, i1], i2, by rw [i3, h3]⟩

theorem freshFont_direct (W : World) (d : DocSpec) (spec : FontSpec) :
    freshFont W d (.direct spec) = some (fontPure W spec (spec.reads.map (freshObj d))) := by
  simp [freshFont, fontOf_eq]

theorem getFont_spec (W : World) (d : DocSpec) (caching : Bool) (c : Caches) (t : Tables) (r : FontRef)
    (hc : CachesOk W d c) (ht : TablesOk W t) :
    (getFont W d caching c t r).1 = freshFont W d r ∧ CachesOk W d (getFont W d caching c t r).2.1 ∧
    TablesOk W (getFont W d caching c t r).2.2 := by
  cases r with
  | direct spec =>
    obtain ⟨h1, h2, _⟩ := readMany_spec W d caching spec.reads c hc
    obtain ⟨b1, b2⟩ := buildFont_spec W t spec (readMany d caching c spec.reads).1 ht
    simp only [getFont]
    exact ⟨by rw [b1, h1, freshFont_direct], h2, b2⟩
  | byId n =>
    obtain ⟨r1, r2, r3⟩ := readObj_spec W d caching c n hc
    simp only [getFont]
    split
    · next f hf =>
      obtain ⟨spec, hs, he⟩ := r2.2.2.1 n f (alookup_mem hf)
      refine ⟨?_, r2, ht⟩
      simp [freshFont, hs, fontOf_eq, he]
    · split
      · next hs => exact ⟨by simp [freshFont, hs], r2, ht⟩
      · next spec hs =>
        obtain ⟨m1, m2, m3⟩ := readMany_spec W d caching spec.reads (readObj d caching c n).2 r2
        obtain ⟨b1, b2⟩ := buildFont_spec W t spec
          ((readObj d caching c n).1 :: (readMany d caching (readObj d caching c n).2 spec.reads).1) ht
        have hval : (buildFont W t spec
            ((readObj d caching c n).1 :: (readMany d caching (readObj d caching c n).2 spec.reads).1)).1 =
            fontPure W spec (freshObj d n :: spec.reads.map (freshObj d)) := by rw [b1, r1, m1]
        refine ⟨?_, ?_, b2⟩
        · simp only [freshFont, hs, fontOf_eq]; rw [hval]
        · cases caching
          · exact m2
          · refine ⟨m2.1, m2.2.1, ?_, m2.2.2.2⟩
            intro k f hm
            rcases List.mem_cons.mp hm with hm | hm
            · cases hm; exact ⟨spec, hs, hval⟩
            · exact m2.2.2.1 k f hm

theorem getFonts_spec (W : World) (d : DocSpec) (caching : Bool) : ∀ (rs : List FontRef) (c : Caches) (t : Tables),
    CachesOk W d c → TablesOk W t →
    (getFonts W d caching c t rs).1 = rs.map (freshFont W d) ∧ CachesOk W d (getFonts W d caching c t rs).2.1 ∧
    TablesOk W (getFonts W d caching c t rs).2.2
  | [], c, t, hc, ht => ⟨rfl, hc, ht⟩
  | r :: rs, c, t, hc, ht => by
    obtain ⟨h1, h2, h3⟩ := getFont_spec W d caching c t r hc ht
    obtain ⟨i1, i2, i3⟩ := getFonts_spec W d caching rs _ _ h2 h3
    simp only [getFonts, List.map_cons]
    exact ⟨by rw [h1, i1], i2, i3⟩

/-- the core lemma: interpreting a page through valid caches and tables yields exactly the page
computed from fresh values, and leaves valid caches and tables behind -/
theorem processPage_spec (W : World) (d : DocSpec) (caching : Bool) (c : Caches) (t : Tables) (left : Interp)
    (pg : PageSpec) (hc : CachesOk W d c) (ht : TablesOk W t) :
    (processPage W d caching c t left pg).1 = freshPage W d pg ∧
    CachesOk W d (processPage W d caching c t left pg).2.1 ∧
    TablesOk W (processPage W d caching c t left pg).2.2 := by
  obtain ⟨w1, w2, _⟩ := readMany_spec W d caching pg.walk c hc
  obtain ⟨f1, f2, f3⟩ := getFonts_spec W d caching pg.fonts _ t w2 ht
  obtain ⟨r1, r2, _⟩ := readMany_spec W d caching pg.reads _ f2
  simp only [processPage, freshPage, initState]
  refine ⟨?_, r2, f3⟩
  rw [w1, r1, f1, List.map_append]

theorem walkRange_ok (W : World) (d : DocSpec) (caching : Bool) (c : Caches) (pos k : Nat)
    (hc : CachesOk W d c) : CachesOk W d (walkRange d caching c pos k) := by
  unfold walkRange
  generalize ((d.pages.drop pos).take (k - pos)) = l
  induction l generalizing c with
  | nil => exact hc
  | cons pg rest ih =>
    simp only [List.foldl_cons]
    exact ih _ (readMany_spec W d caching pg.walk c hc).2.1

/-! ### handles and states -/

def HandleOk (W : World) (h : Handle) : Prop :=
  CachesOk W h.doc h.c ∧ ∀ k, k ∈ h.todo → k < h.doc.pages.length

/-- what `next()` must yield on a handle, in terms of fresh values only -/
def nextSpec (W : World) (h : Handle) : Out :=
  match h.todo with
  | [] => .done
  | k :: _ =>
    match h.doc.pages[k]? with
    | none => .done
    | some pg => .page (freshPage W h.doc pg)

theorem advance_spec (W : World) (h : Handle) (t : Tables) (hh : HandleOk W h) (ht : TablesOk W t) :
    (advance W h t).1 = nextSpec W h ∧ HandleOk W (advance W h t).2.1 ∧ TablesOk W (advance W h t).2.2 ∧
    (advance W h t).2.1.doc = h.doc ∧ (advance W h t).2.1.caching = h.caching ∧
    (advance W h t).2.1.todo = h.todo.tail := by
  obtain ⟨hc, hk⟩ := hh
  cases htodo : h.todo with
  | nil =>
    simp only [advance, nextSpec, htodo]
    refine ⟨trivial, ⟨walkRange_ok W _ _ _ _ _ hc, ?_⟩, ht, trivial, trivial, ?_⟩
    · intro k hm; simp [htodo] at hm
    · simp [htodo]
  | cons k rest =>
    have hlt := hk k (by simp [htodo])
    cases hpg : h.doc.pages[k]? with
    | none =>
      simp [List.getElem?_eq_none_iff] at hpg
      omega
    | some pg =>
      have hw := walkRange_ok W h.doc h.caching h.c h.pos k hc
      obtain ⟨p1, p2, p3⟩ := processPage_spec W h.doc h.caching _ t h.interp pg hw ht
      simp only [advance, nextSpec, htodo, hpg]
      refine ⟨by rw [p1], ⟨p2, ?_⟩, p3, trivial, trivial, by simp⟩
      intro k' hm
      exact hk k' (by simp [htodo]; exact Or.inr hm)

/-- the pages a list of page numbers denotes, from fresh values only -/
def pagesOf (W : World) (d : DocSpec) (ks : List Nat) : List PageOut :=
  ks.filterMap (fun k => (d.pages[k]?).map (freshPage W d))

theorem drain_spec (W : World) : ∀ (fuel : Nat) (h : Handle) (t : Tables),
    HandleOk W h → TablesOk W t → h.todo.length < fuel →
    (drain W fuel h t).1 = pagesOf W h.doc h.todo ∧ TablesOk W (drain W fuel h t).2.2
  | 0, h, t, _, _, hl => by omega
  | fuel + 1, h, t, hh, ht, hl => by
    obtain ⟨a1, a2, a3, a4, _, a6⟩ := advance_spec W h t hh ht
    cases htodo : h.todo with
    | nil =>
      have : (advance W h t).1 = .done := by rw [a1]; simp [nextSpec, htodo]
      simp only [drain, this, pagesOf, List.filterMap_nil]
      exact ⟨trivial, a3⟩
    | cons k rest =>
      have hlt := hh.2 k (by simp [htodo])
      have hpg : h.doc.pages[k]? = some (h.doc.pages[k]'hlt) := List.getElem?_eq_getElem hlt
      have hout : (advance W h t).1 = .page (freshPage W h.doc (h.doc.pages[k]'hlt)) := by
        rw [a1]; simp [nextSpec, htodo, hpg]
      have hrest : (advance W h t).2.1.todo = rest := by rw [a6, htodo]; rfl
      have ih := drain_spec W fuel (advance W h t).2.1 (advance W h t).2.2 a2 a3
        (by rw [hrest]; simp [htodo] at hl; omega)
      simp only [drain, hout]
      refine ⟨?_, ih.2⟩
      rw [ih.1, a4, hrest]
      simp [pagesOf, hpg]

theorem mem_selPages {n k : Nat} {sel : List Nat} (h : k ∈ selPages n sel) : k < n := by
  unfold selPages at h
  split at h
  · exact List.mem_range.mp h
  · exact List.mem_range.mp (List.mem_filter.mp h).1

theorem openHandle_ok (W : World) (d : DocSpec) (caching : Bool) (sel : List Nat) :
    HandleOk W (openHandle d caching sel) :=
  ⟨(readMany_spec W d caching d.openReads Caches.empty (CachesOk.empty W d)).2.1,
   fun _ hk => mem_selPages hk⟩

theorem extract_spec (W : World) (t : Tables) (d : DocSpec) (caching : Bool) (sel : List Nat)
    (ht : TablesOk W t) :
    (extract W t d caching sel).1 = pagesSpec W d sel ∧ TablesOk W (extract W t d caching sel).2 := by
  have := drain_spec W ((openHandle d caching sel).todo.length + 1) (openHandle d caching sel) t
    (openHandle_ok W d caching sel) ht (by omega)
  simp only [extract]
  exact ⟨by rw [this.1]; rfl, this.2⟩

/-- the invariant of the whole process -/
def StateOk (W : World) (s : State) : Prop :=
  TablesOk W s.tables ∧ ∀ hid h, (hid, h) ∈ s.handles → HandleOk W h

theorem StateOk.init (W : World) : StateOk W (init W) :=
  ⟨TablesOk.init W, by intro hid h hm; simp [Process.init] at hm⟩

theorem step_ok (W : World) (s : State) (op : Op) (hs : StateOk W s) : StateOk W (step W s op).1 := by
  obtain ⟨ht, hh⟩ := hs
  cases op with
  | «open» hid d caching sel =>
    refine ⟨ht, ?_⟩
    intro k h hm
    rcases mem_aset hm with hm | hm
    · cases hm; exact openHandle_ok W d caching sel
    · exact hh k h hm
  | next hid =>
    simp only [step]
    split
    · exact ⟨ht, hh⟩
    · next h hl =>
      obtain ⟨_, a2, a3, _⟩ := advance_spec W h s.tables (hh hid h (alookup_mem hl)) ht
      refine ⟨a3, ?_⟩
      intro k h' hm
      rcases mem_aset hm with hm | hm
      · cases hm; exact a2
      · exact hh k h' hm
  | close hid =>
    refine ⟨ht, ?_⟩
    intro k h hm
    exact hh k h (List.mem_filter.mp hm).1
  | extract d caching sel =>
    exact ⟨(extract_spec W s.tables d caching sel ht).2, hh⟩
  | parseCMap name ext =>
    exact ⟨(getCMap_spec W s.tables name ht).2, hh⟩

theorem run_ok (W : World) : ∀ (ops : List Op) (s : State), StateOk W s → StateOk W (run W s ops)
  | [], _, h => h
  | op :: ops, s, h => run_ok W ops _ (step_ok W s op h)

/-! ### shared tables only grow -/

/-- `t'` extends `t`: same encoding tables, every cache entry of `t` still present in `t'` -/
def TLe (t t' : Tables) : Prop :=
  t'.enc = t.enc ∧ (∀ e, e ∈ t.cmaps → e ∈ t'.cmaps) ∧ (∀ e, e ∈ t.umaps → e ∈ t'.umaps)

theorem TLe.refl (t : Tables) : TLe t t := ⟨rfl, fun _ h => h, fun _ h => h⟩

theorem TLe.trans {a b c : Tables} (h1 : TLe a b) (h2 : TLe b c) : TLe a c :=
  ⟨h2.1.trans h1.1, fun e h => h2.2.1 e (h1.2.1 e h), fun e h => h2.2.2 e (h1.2.2 e h)⟩

theorem memo_grows {α : Type} (store : Bool) (fresh : Nat → Option α) (c : List (Nat × α)) (k : Nat) :
    ∀ e, e ∈ c → e ∈ (memo store fresh c k).2 := by
  intro e he
  unfold memo
  split
  · exact he
  · split
    · exact he
    · cases store
      · exact he
      · exact List.mem_cons_of_mem _ he

theorem getCMap_le (W : World) (t : Tables) (n : Nat) : TLe t (getCMap W t n).2 :=
  ⟨rfl, memo_grows true W.loadCMap t.cmaps n, fun _ h => h⟩

theorem getUMap_le (W : World) (t : Tables) (n : Nat) : TLe t (getUMap W t n).2 :=
  ⟨rfl, fun _ h => h, memo_grows true W.loadUMap t.umaps n⟩

theorem useCMapEffect_le (W : World) (t : Tables) (spec : FontSpec) : TLe t (useCMapEffect W t spec) := by
  unfold useCMapEffect
  split
  · exact getCMap_le W t _
  · exact TLe.refl t

theorem buildFont_le (W : World) (t : Tables) (spec : FontSpec) (src : List (Option Nat)) :
    TLe t (buildFont W t spec src).2 := by
  have h1 := useCMapEffect_le W t spec
  have h2 : TLe (useCMapEffect W t spec) (cmapStep W (useCMapEffect W t spec) spec).2 := by
    unfold cmapStep
    split
    · exact TLe.refl _
    · exact getCMap_le W _ _
  have h3 := getUMap_le W (cmapStep W (useCMapEffect W t spec) spec).2 spec.umap
  unfold buildFont
  by_cases k0 : spec.kind = 0
  · simp only [k0, if_true]; exact h1
  · by_cases k1 : spec.kind = 1
    · simp only [k0, k1, if_true, if_false]; exact h1
    · by_cases ht : spec.hasToUnicode = true
      · simp only [k0, k1, ht, if_true, if_false]; exact h1.trans h2
      · have ht' : spec.hasToUnicode = false := by simpa using ht
        simp only [k0, k1, ht', if_false, Bool.false_eq_true]
        exact (h1.trans h2).trans h3

theorem getFont_le (W : World) (d : DocSpec) (caching : Bool) (c : Caches) (t : Tables) (r : FontRef) :
    TLe t (getFont W d caching c t r).2.2 := by
  cases r with
  | direct spec => simp only [getFont]; exact buildFont_le W t spec _
  | byId n =>
    simp only [getFont]
    split
    · exact TLe.refl t
    · split
      · exact TLe.refl t
      · exact buildFont_le W t _ _

theorem getFonts_le (W : World) (d : DocSpec) (caching : Bool) : ∀ (rs : List FontRef) (c : Caches) (t : Tables),
    TLe t (getFonts W d caching c t rs).2.2
  | [], _, t => TLe.refl t
  | r :: rs, c, t => by
    simp only [getFonts]
    exact (getFont_le W d caching c t r).trans (getFonts_le W d caching rs _ _)

theorem advance_le (W : World) (h : Handle) (t : Tables) : TLe t (advance W h t).2.2 := by
  unfold advance
  split
  · exact TLe.refl t
  · split
    · exact TLe.refl t
    · simp only [processPage]; exact getFonts_le W _ _ _ _ _

theorem drain_le (W : World) : ∀ (fuel : Nat) (h : Handle) (t : Tables), TLe t (drain W fuel h t).2.2
  | 0, _, t => TLe.refl t
  | fuel + 1, h, t => by
    simp only [drain]
    split
    · exact (advance_le W h t).trans (drain_le W fuel _ _)
    · exact advance_le W h t

theorem step_le (W : World) (s : State) (op : Op) : TLe s.tables (step W s op).1.tables := by
  cases op with
  | «open» hid d caching sel => exact TLe.refl _
  | next hid =>
    simp only [step]
    split
    · exact TLe.refl _
    · exact advance_le W _ _
  | close hid => exact TLe.refl _
  | extract d caching sel => simp only [step, extract]; exact drain_le W _ _ _
  | parseCMap name ext => exact getCMap_le W _ _

theorem run_le (W : World) : ∀ (ops : List Op) (s : State), TLe s.tables (run W s ops).tables
  | [], s => TLe.refl _
  | op :: ops, s => (step_le W s op).trans (run_le W ops _)

theorem run_append (W : World) : ∀ (a b : List Op) (s : State), run W s (a ++ b) = run W (run W s a) b
  | [], _, _ => rfl
  | _ :: a, b, s => run_append W a b _

/-! ### what a handle becomes does not depend on the state of the shared tables -/

theorem getFont_indep (W : World) (d : DocSpec) (caching : Bool) (c : Caches) (t t' : Tables) (r : FontRef)
    (ht : TablesOk W t) (ht' : TablesOk W t') :
    (getFont W d caching c t r).1 = (getFont W d caching c t' r).1 ∧
    (getFont W d caching c t r).2.1 = (getFont W d caching c t' r).2.1 := by
  cases r with
  | direct spec =>
    simp only [getFont]
    rw [(buildFont_spec W t spec _ ht).1, (buildFont_spec W t' spec _ ht').1]
    refine ⟨?_, ?_⟩ <;> first | rfl | trivial
  | byId n =>
    simp only [getFont]
    split
    · exact ⟨rfl, rfl⟩
    · split
      · exact ⟨rfl, rfl⟩
      · next spec _ =>
        simp only []
        rw [(buildFont_spec W t spec _ ht).1, (buildFont_spec W t' spec _ ht').1]
        refine ⟨?_, ?_⟩ <;> first | rfl | trivial

theorem getFonts_indep (W : World) (d : DocSpec) (caching : Bool) : ∀ (rs : List FontRef) (c : Caches) (t t' : Tables),
    CachesOk W d c → TablesOk W t → TablesOk W t' →
    (getFonts W d caching c t rs).1 = (getFonts W d caching c t' rs).1 ∧
    (getFonts W d caching c t rs).2.1 = (getFonts W d caching c t' rs).2.1
  | [], _, _, _, _, _, _ => ⟨rfl, rfl⟩
  | r :: rs, c, t, t', hc, ht, ht' => by
    obtain ⟨e1, e2⟩ := getFont_indep W d caching c t t' r ht ht'
    obtain ⟨_, g2, g3⟩ := getFont_spec W d caching c t r hc ht
    obtain ⟨_, _, g3'⟩ := getFont_spec W d caching c t' r hc ht'
    simp only [getFonts]
    rw [← e2]
    obtain ⟨i1, i2⟩ := getFonts_indep W d caching rs _ _ _ g2 g3 g3'
    exact ⟨by rw [e1, i1], i2⟩

theorem advance_indep (W : World) (h : Handle) (t t' : Tables) (hh : HandleOk W h)
    (ht : TablesOk W t) (ht' : TablesOk W t') :
    (advance W h t).1 = (advance W h t').1 ∧ (advance W h t).2.1 = (advance W h t').2.1 := by
  refine ⟨by rw [(advance_spec W h t hh ht).1, (advance_spec W h t' hh ht').1], ?_⟩
  cases htodo : h.todo with
  | nil => simp only [advance, htodo]
  | cons k rest =>
    cases hpg : h.doc.pages[k]? with
    | none => simp only [advance, htodo, hpg]
    | some pg =>
      have hw := walkRange_ok W h.doc h.caching h.c h.pos k hh.1
      obtain ⟨_, w2, _⟩ := readMany_spec W h.doc h.caching pg.walk _ hw
      have := (getFonts_indep W h.doc h.caching pg.fonts _ t t' w2 ht ht').2
      simp only [advance, htodo, hpg, processPage]
      rw [this]

theorem alookup_filter_self {α : Type} (k : Nat) : ∀ (l : List (Nat × α)),
    alookup k (l.filter (fun e => e.1 != k)) = none
  | [] => rfl
  | (k', v) :: rest => by
    simp only [List.filter_cons]
    split
    · next hb =>
      have : k' ≠ k := by simpa using hb
      simp [alookup, this, alookup_filter_self k rest]
    · exact alookup_filter_self k rest

theorem alookup_filter_ne {α : Type} {k k' : Nat} (hne : k' ≠ k) : ∀ (l : List (Nat × α)),
    alookup k' (l.filter (fun e => e.1 != k)) = alookup k' l
  | [] => rfl
  | (k'', v) :: rest => by
    simp only [List.filter_cons]
    split
    · by_cases h2 : k'' = k'
      · simp [alookup, h2]
      · simp [alookup, h2, alookup_filter_ne hne rest]
    · next hb =>
      have hk : k'' = k := by simpa using hb
      have : ¬ k'' = k' := by omega
      simp [alookup, this, alookup_filter_ne hne rest]

/-! ### interleaving: an iterator's outputs depend on its own operations only -/

/-- does the operation address page iterator `hid`? -/
def mentions (hid : Nat) : Op → Bool
  | .open h _ _ _ => h == hid
  | .next h => h == hid
  | .close h => h == hid
  | _ => false

/-- the outputs of the operations of a history that address iterator `hid` -/
def outputsOf (W : World) (hid : Nat) : State → List Op → List Out
  | _, [] => []
  | s, op :: ops =>
    if mentions hid op then (step W s op).2 :: outputsOf W hid (step W s op).1 ops
    else outputsOf W hid (step W s op).1 ops

theorem step_frame (W : World) (s : State) (hid : Nat) (op : Op) (hm : mentions hid op = false) :
    alookup hid (step W s op).1.handles = alookup hid s.handles := by
  cases op with
  | «open» h d caching sel =>
    have : hid ≠ h := by intro e; simp [mentions, e] at hm
    exact alookup_aset_ne _ this _
  | next h =>
    have : hid ≠ h := by intro e; simp [mentions, e] at hm
    simp only [step]
    split
    · rfl
    · exact alookup_aset_ne _ this _
  | close h =>
    have : hid ≠ h := by intro e; simp [mentions, e] at hm
    exact alookup_filter_ne this _
  | extract d caching sel => rfl
  | parseCMap name ext => rfl

theorem step_same (W : World) (s s' : State) (hid : Nat) (op : Op) (hm : mentions hid op = true)
    (hs : StateOk W s) (hs' : StateOk W s') (he : alookup hid s.handles = alookup hid s'.handles) :
    (step W s op).2 = (step W s' op).2 ∧
    alookup hid (step W s op).1.handles = alookup hid (step W s' op).1.handles := by
  cases op with
  | «open» h d caching sel =>
    have : h = hid := by simpa [mentions] using hm
    subst this
    exact ⟨rfl, by simp only [step]; rw [alookup_aset_self, alookup_aset_self]⟩
  | next h =>
    have : h = hid := by simpa [mentions] using hm
    subst this
    simp only [step]
    cases hl : alookup h s.handles with
    | none =>
      rw [← he, hl]
      exact ⟨rfl, by simp only []; rw [← he, hl]⟩
    | some hd =>
      rw [← he, hl]
      have hh := hs.2 h hd (alookup_mem hl)
      obtain ⟨e1, e2⟩ := advance_indep W hd s.tables s'.tables hh hs.1 hs'.1
      simp only []
      exact ⟨e1, by rw [alookup_aset_self, alookup_aset_self, e2]⟩
  | close h =>
    have : h = hid := by simpa [mentions] using hm
    subst this
    exact ⟨rfl, by simp only [step]; rw [alookup_filter_self, alookup_filter_self]⟩
  | extract d caching sel => simp [mentions] at hm
  | parseCMap name ext => simp [mentions] at hm

theorem interleaving_aux (W : World) (hid : Nat) : ∀ (ops : List Op) (s s' : State),
    StateOk W s → StateOk W s' → alookup hid s.handles = alookup hid s'.handles →
    outputsOf W hid s ops = outputs W s' (ops.filter (mentions hid))
  | [], _, _, _, _, _ => rfl
  | op :: ops, s, s', hs, hs', he => by
    cases hm : mentions hid op with
    | false =>
      simp only [outputsOf, hm, List.filter_cons, Bool.false_eq_true, if_false]
      exact interleaving_aux W hid ops _ s' (step_ok W s op hs) hs' ((step_frame W s hid op hm).trans he)
    | true =>
      obtain ⟨e1, e2⟩ := step_same W s s' hid op hm hs hs' he
      simp only [outputsOf, hm, List.filter_cons, if_true, outputs]
      rw [e1, interleaving_aux W hid ops _ _ (step_ok W s op hs) (step_ok W s' op hs') e2]

end PdfVerif.Process
