/-
Helper lemmas for C12 (process model): memo tables return what a fresh computation returns and
keep the invariant "every entry equals the fresh value of its key".
-/
import PdfVerif.Model.Process

namespace PdfVerif.Process

/-! ### association lists -/

theorem alookup_mem {α : Type} {k : Nat} {v : α} : ∀ {l : List (Nat × α)}, alookup k l = some v → (k, v) ∈ l
  | [], h => by simp [alookup] at h
  | (k', v') :: rest, h => by
    unfold alookup at h
    split at h
    · next hk => cases h; subst hk; exact List.mem_cons_self
    · exact List.mem_cons_of_mem _ (alookup_mem h)

theorem mem_aset {α : Type} {k : Nat} {v : α} {e : Nat × α} : ∀ {l : List (Nat × α)},
    e ∈ aset k v l → e = (k, v) ∨ e ∈ l
  | [], h => by simp [aset] at h; exact Or.inl h
  | (k', v') :: rest, h => by
    unfold aset at h
    split at h
    · rcases List.mem_cons.mp h with h | h
      · exact Or.inl h
      · exact Or.inr (List.mem_cons_of_mem _ h)
    · rcases List.mem_cons.mp h with h | h
      · exact Or.inr (h ▸ List.mem_cons_self)
      · rcases mem_aset h with h | h
        · exact Or.inl h
        · exact Or.inr (List.mem_cons_of_mem _ h)

theorem alookup_aset_self {α : Type} (k : Nat) (v : α) : ∀ (l : List (Nat × α)), alookup k (aset k v l) = some v
  | [] => by simp [aset, alookup]
  | (k', v') :: rest => by
    unfold aset
    split
    · simp [alookup]
    · next hk => simp [alookup, hk, alookup_aset_self k v rest]

theorem alookup_aset_ne {α : Type} {k k' : Nat} (v : α) (hne : k' ≠ k) : ∀ (l : List (Nat × α)),
    alookup k' (aset k v l) = alookup k' l
  | [] => by simp [aset, alookup, Ne.symm hne]
  | (k'', v'') :: rest => by
    unfold aset
    split
    · next hk => subst hk; simp [alookup, Ne.symm hne]
    · next hk =>
      by_cases h2 : k'' = k'
      · simp [alookup, h2]
      · simp [alookup, h2, alookup_aset_ne v hne rest]

/-! ### memo tables -/

/-- every entry of the table is what a fresh computation of its key returns -/
def CacheOk {α : Type} (fresh : Nat → Option α) (c : List (Nat × α)) : Prop :=
  ∀ k v, (k, v) ∈ c → fresh k = some v

theorem CacheOk.nil {α : Type} (fresh : Nat → Option α) : CacheOk fresh [] := by
  intro k v h; cases h

theorem memo_spec {α : Type} (store : Bool) (fresh : Nat → Option α) (c : List (Nat × α)) (k : Nat)
    (h : CacheOk fresh c) :
    (memo store fresh c k).1 = fresh k ∧ CacheOk fresh (memo store fresh c k).2 := by
  unfold memo
  split
  · next v hv => exact ⟨(h k v (alookup_mem hv)).symm, h⟩
  · split
    · next hf => exact ⟨hf.symm, h⟩
    · next v hf =>
      refine ⟨hf.symm, ?_⟩
      cases store
      · exact h
      · intro k' v' hm
        rcases List.mem_cons.mp hm with hm | hm
        · cases hm; exact hf
        · exact h k' v' hm

/-! ### shared tables -/

/-- tables_inv: the encoding tables are the initial ones; every cached CMap / unicode map is what
a fresh load of its name returns -/
def TablesOk (W : World) (t : Tables) : Prop :=
  t.enc = W.encInit ∧ CacheOk W.loadCMap t.cmaps ∧ CacheOk W.loadUMap t.umaps

theorem TablesOk.init (W : World) : TablesOk W ⟨W.encInit, [], []⟩ :=
  ⟨rfl, CacheOk.nil _, CacheOk.nil _⟩

theorem getCMap_spec (W : World) (t : Tables) (n : Nat) (h : TablesOk W t) :
    (getCMap W t n).1 = W.loadCMap n ∧ TablesOk W (getCMap W t n).2 := by
  have := memo_spec true W.loadCMap t.cmaps n h.2.1
  exact ⟨this.1, h.1, this.2, h.2.2⟩

theorem getUMap_spec (W : World) (t : Tables) (n : Nat) (h : TablesOk W t) :
    (getUMap W t n).1 = W.loadUMap n ∧ TablesOk W (getUMap W t n).2 := by
  have := memo_spec true W.loadUMap t.umaps n h.2.2
  exact ⟨this.1, h.1, h.2.1, this.2⟩

/-- the font a specification denotes, written with fresh loads only -/
def fontPure (W : World) (spec : FontSpec) (src : List (Option Nat)) : Font :=
  let tou := if spec.hasToUnicode then some spec.tounicode else none
  if spec.kind = 0 then
    { kind := 0, enc := getEncoding W.encInit spec.base spec.diffs, tounicode := tou, cmap := none,
      umap := none, src := src }
  else if spec.kind = 1 then
    { kind := 1, enc := [], tounicode := tou, cmap := none, umap := none, src := src }
  else if spec.hasToUnicode then
    { kind := 2, enc := [], tounicode := tou, cmap := W.loadCMap spec.cmap, umap := none, src := src }
  else
    { kind := 2, enc := [], tounicode := tou, cmap := W.loadCMap spec.cmap, umap := W.loadUMap spec.umap,
      src := src }

theorem useCMapEffect_ok (W : World) (t : Tables) (spec : FontSpec) (h : TablesOk W t) :
    TablesOk W (useCMapEffect W t spec) := by
  unfold useCMapEffect
  split
  · exact (getCMap_spec W t _ h).2
  · exact h

theorem buildFont_spec (W : World) (t : Tables) (spec : FontSpec) (src : List (Option Nat))
    (h : TablesOk W t) :
    (buildFont W t spec src).1 = fontPure W spec src ∧ TablesOk W (buildFont W t spec src).2 := by
  have h1 := useCMapEffect_ok W t spec h
  have hc := getCMap_spec W (useCMapEffect W t spec) spec.cmap h1
  have hu := getUMap_spec W (getCMap W (useCMapEffect W t spec) spec.cmap).2 spec.umap hc.2
  unfold buildFont fontPure
  by_cases k0 : spec.kind = 0
  · simp only [k0, if_true]
    exact ⟨by rw [h1.1], h1⟩
  · by_cases k1 : spec.kind = 1
    · simp only [k0, k1, if_true, if_false]
      exact ⟨rfl, h1⟩
    · by_cases ht : spec.hasToUnicode = true
      · simp only [k0, k1, ht, if_true, if_false]
        exact ⟨by rw [hc.1], hc.2⟩
      · have ht' : spec.hasToUnicode = false := by simpa using ht
        refine ⟨?_, ?_⟩
        · simp [k0, k1, ht', hc.1, hu.1]
        · simp only [k0, k1, ht', if_false, Bool.false_eq_true]
          exact hu.2

theorem fontOf_eq (W : World) (spec : FontSpec) (src : List (Option Nat)) :
    fontOf W spec src = fontPure W spec src :=
  (buildFont_spec W _ spec src (TablesOk.init W)).1

/-! ### per-document caches -/

/-- cache_inv, object part: a cached object has the payload a fresh parse returns -/
def ObjOk (d : DocSpec) (objs : List (Nat × (Nat × Bool))) : Prop :=
  ∀ n v, (n, v) ∈ objs → freshObj d n = some v.1

def PObjOk (d : DocSpec) (pobjs : List (Nat × List (Nat × Nat))) : Prop :=
  ∀ sid l, (sid, l) ∈ pobjs → l = streamObjs d sid

/-- cache_inv, font part: a cached font is the font its object denotes, built from fresh values -/
def FontOk (W : World) (d : DocSpec) (fonts : List (Nat × Font)) : Prop :=
  ∀ n f, (n, f) ∈ fonts → ∃ spec, alookup n d.fontSpecs = some spec ∧
    f = fontPure W spec (freshObj d n :: spec.reads.map (freshObj d))

def CachesOk (W : World) (d : DocSpec) (c : Caches) : Prop :=
  ObjOk d c.objs ∧ PObjOk d c.pobjs ∧ FontOk W d c.fonts

theorem CachesOk.empty (W : World) (d : DocSpec) : CachesOk W d Caches.empty :=
  ⟨by intro n v h; simp [Caches.empty] at h, by intro n v h; simp [Caches.empty] at h,
   by intro n v h; simp [Caches.empty] at h⟩

theorem mem_touch {n k : Nat} {v : Nat × Bool} : ∀ {l : List (Nat × (Nat × Bool))},
    (k, v) ∈ touch n l → ∃ b, (k, (v.1, b)) ∈ l
  | [], h => by simp [touch] at h
  | (k', v') :: rest, h => by
    unfold touch at h
    split at h
    · rcases List.mem_cons.mp h with h | h
      · cases h; exact ⟨v'.2, List.mem_cons_self⟩
      · exact ⟨v.2, List.mem_cons_of_mem _ h⟩
    · rcases List.mem_cons.mp h with h | h
      · cases h; exact ⟨v.2, List.mem_cons_self⟩
      · obtain ⟨b, hb⟩ := mem_touch h
        exact ⟨b, List.mem_cons_of_mem _ hb⟩

theorem ObjOk.touch {d : DocSpec} {objs : List (Nat × (Nat × Bool))} (n : Nat) (h : ObjOk d objs) :
    ObjOk d (touch n objs) := by
  intro k v hm
  obtain ⟨b, hb⟩ := mem_touch hm
  exact h k (v.1, b) hb

theorem ObjOk.cons {d : DocSpec} {objs : List (Nat × (Nat × Bool))} {n p : Nat} (b : Bool)
    (h : ObjOk d objs) (hf : freshObj d n = some p) : ObjOk d ((n, (p, b)) :: objs) := by
  intro k v hm
  rcases List.mem_cons.mp hm with hm | hm
  · cases hm; exact hf
  · exact h k v hm

theorem pobjsLookup_spec (d : DocSpec) (caching : Bool) (pobjs : List (Nat × List (Nat × Nat))) (sid : Nat)
    (hp : PObjOk d pobjs) :
    (pobjsLookup d caching pobjs sid).1 = streamObjs d sid ∧ PObjOk d (pobjsLookup d caching pobjs sid).2 := by
  unfold pobjsLookup
  split
  · next l hl => exact ⟨hp sid l (alookup_mem hl), hp⟩
  · refine ⟨rfl, ?_⟩
    cases caching
    · exact hp
    · intro s l hm
      rcases List.mem_cons.mp hm with hm | hm
      · cases hm; rfl
      · exact hp s l hm

theorem objsAfterStream_ok {d : DocSpec} (caching : Bool) {objs : List (Nat × (Nat × Bool))} {sid sp : Nat}
    (ho : ObjOk d objs) (hs : freshObj d sid = some sp) : ObjOk d (objsAfterStream caching objs sid sp) := by
  unfold objsAfterStream
  split
  · exact ho.cons true hs
  · exact ho.touch sid

theorem readObj_spec (W : World) (d : DocSpec) (caching : Bool) (c : Caches) (n : Nat)
    (h : CachesOk W d c) :
    (readObj d caching c n).1 = freshObj d n ∧ CachesOk W d (readObj d caching c n).2 ∧
    (readObj d caching c n).2.fonts = c.fonts := by
  obtain ⟨ho, hp, hf⟩ := h
  unfold readObj
  split
  · next v hv => exact ⟨(ho n v (alookup_mem hv)).symm, ⟨ho.touch n, hp, hf⟩, rfl⟩
  · split
    · next hn => exact ⟨by simp [freshObj, hn], ⟨ho, hp, hf⟩, rfl⟩
    · next p hn =>
      have hfr : freshObj d n = some p := by simp [freshObj, hn]
      refine ⟨hfr.symm, ?_, ?_⟩
      · cases caching
        · exact ⟨ho, hp, hf⟩
        · exact ⟨ho.cons false hfr, hp, hf⟩
      · cases caching <;> rfl
    · next sid q hn =>
      split
      · next sp hs =>
        have hsid : freshObj d sid = some sp := by simp [freshObj, hs]
        have hfr : freshObj d n = alookup n (streamObjs d sid) := by simp [freshObj, hn, hs]
        have ho1 := objsAfterStream_ok caching ho hsid
        obtain ⟨hr1, hr2⟩ := pobjsLookup_spec d caching c.pobjs sid hp
        rw [hr1]
        split
        · next hnone => exact ⟨by rw [hfr, hnone], ⟨ho1, hr2, hf⟩, rfl⟩
        · next p hp' =>
          have hfn : freshObj d n = some p := by rw [hfr, hp']
          refine ⟨hfn.symm, ⟨?_, hr2, hf⟩, rfl⟩
          cases caching
          · exact ho1
          · exact ObjOk.cons false ho1 hfn
      · next hs =>
        refine ⟨?_, ⟨ho, hp, hf⟩, rfl⟩
        simp only [freshObj, hn]

end PdfVerif.Process
