/-
C03 helper lemmas (round 6) — byte arithmetic used to link the hand model to the definitions
regenerated from lzw.py / runlength.py / utils.py (`Gen.Filters`).  Core Lean only.
-/
import PdfVerif.Lemmas.FiltersCodec
import PdfVerif.Lemmas.FiltersPred

namespace PdfVerif.Filters
open PdfVerif PdfVerif.FilterEnc PdfVerif.Gen.Filters

theorem u8_beq_toNat (l : UInt8) (k : Nat) (hk : k < 256) : (l == UInt8.ofNat k) = decide (l.toNat = k) := by
  by_cases h : l.toNat = k
  · have : l = UInt8.ofNat k := by
      apply UInt8.toNat_inj.mp; rw [toNat_ofNat_lt k hk]; exact h
    simp [this, toNat_ofNat_lt k hk]
  · have : l ≠ UInt8.ofNat k := by
      intro e; apply h; rw [e, toNat_ofNat_lt k hk]
    simp [this, h]

theorem paeth_cases (a b c : Int) :
    paeth_predictor a b c = a ∨ paeth_predictor a b c = b ∨ paeth_predictor a b c = c := by
  unfold paeth_predictor
  simp only []
  split
  · exact Or.inl rfl
  · split
    · exact Or.inr (Or.inl rfl)
    · exact Or.inr (Or.inr rfl)

theorem u8_add_toNat (x y : UInt8) : (x + y).toNat = (x.toNat + y.toNat) % 256 := by
  simp [UInt8.toNat_add]

theorem paeth_u8 (a b c : UInt8) :
    (UInt8.ofNat (Int.toNat (paeth_predictor a.toNat b.toNat c.toNat % 256))).toNat
      = (paeth_predictor a.toNat b.toNat c.toNat).toNat := by
  have ha := a.toNat_lt; have hb := b.toNat_lt; have hc := c.toNat_lt
  rcases paeth_cases a.toNat b.toNat c.toNat with h | h | h <;> rw [h] <;>
    · rw [toNat_ofNat_lt _ (by omega)]; omega

theorem shl_or_mask (v x n : Nat) : (v <<< n) ||| (x &&& ((1 <<< n) - 1)) = v * 2 ^ n + x % 2 ^ n := by
  have h1 : (1 <<< n) = 2 ^ n := by simp [Nat.shiftLeft_eq]
  rw [h1, Nat.and_two_pow_sub_one_eq_mod]
  have hlt : x % 2 ^ n < 2 ^ n := Nat.mod_lt _ (Nat.two_pow_pos n)
  rw [← Nat.shiftLeft_add_eq_or_of_lt hlt, Nat.shiftLeft_eq]

theorem lzwTakeAll_eq (v bits buff r : Nat) :
    lzwTakeAll v bits buff r = v * 2 ^ bits + buff / 2 ^ (r - bits) % 2 ^ bits := by
  simp only [lzwTakeAll, shl_or_mask, Nat.shiftRight_eq_div_pow]

theorem lzwTakePart_eq (v r buff : Nat) : lzwTakePart v r buff = v * 2 ^ r + buff % 2 ^ r := by
  simp only [lzwTakePart, shl_or_mask]

end PdfVerif.Filters
