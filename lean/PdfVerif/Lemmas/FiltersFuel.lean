/-
C03 helper lemmas — fuel: for every fuelled loop of the model, any fuel above the stated bound
gives the same result (so the fuel passed by the top-level functions is never exhausted).
-/
import PdfVerif.Lemmas.FiltersLzw

namespace PdfVerif.Filters
open PdfVerif PdfVerif.FilterEnc

/-! ## Fuel: the stated fuel of every fuelled loop is never exhausted -/

theorem rldecodeAux_fuel : ∀ (f1 f2 : Nat) (data : Bytes), data.length < f1 → data.length < f2 →
    rldecodeAux f1 data = rldecodeAux f2 data := by
  intro f1
  induction f1 with
  | zero => intro f2 data h1; omega
  | succ g1 ih =>
    intro f2 data h1 h2
    obtain ⟨g2, rfl⟩ : ∃ g, f2 = g + 1 := ⟨f2 - 1, by omega⟩
    cases data with
    | nil => rfl
    | cons l rest =>
      simp only [List.length_cons] at h1 h2
      simp only [rldecodeAux_cons_lit]
      split
      · rfl
      · split
        · split
          · rfl
          · rw [ih g2 (rest.drop (l.toNat + 1)) (by simp; omega) (by simp; omega)]
        · cases rest with
          | nil => rfl
          | cons b rest' =>
            simp only [List.length_cons] at h1 h2
            simp only
            rw [ih g2 rest' (by omega) (by omega)]

theorem nbitsAfter_pos (nb t : Nat) (h : 0 < nb) : 0 < nbitsAfter nb t := by
  unfold nbitsAfter; repeat' split
  all_goals omega

theorem feed_nbits_pos (st : LzwSt) (c : Nat) (h : 0 < st.nbits) (st' : LzwSt) (x : Bytes)
    (hf : feed st c = .ok st' x) : 0 < st'.nbits := by
  rw [feed_lit] at hf
  repeat' (split at hf)
  all_goals (try (simp only [feedGrow_lit] at hf))
  all_goals first
    | (injection hf with h1 h2; subst h1; first | exact h | exact nbitsAfter_pos _ _ h | decide)
    | cases hf

theorem lzwRun_fuel : ∀ (f1 f2 : Nat) (st : LzwSt) (bits : List Bool), 0 < st.nbits → bits.length < f1 →
    bits.length < f2 → lzwRun f1 st bits = lzwRun f2 st bits := by
  intro f1
  induction f1 with
  | zero => intro f2 st bits _ h1; omega
  | succ g1 ih =>
    intro f2 st bits hnb h1 h2
    obtain ⟨g2, rfl⟩ : ∃ g, f2 = g + 1 := ⟨f2 - 1, by omega⟩
    simp only [lzwRun]
    split
    · rfl
    · rename_i hlen
      have hge : st.nbits ≤ bits.length := by
        simp only [List.length_take] at hlen; omega
      cases hf : feed st (natOfBits (bits.take st.nbits)) with
      | corrupt => rfl
      | indexError => rfl
      | ok st' x =>
        simp only
        rw [ih g2 st' (bits.drop st.nbits) (feed_nbits_pos st _ hnb st' x hf) (by simp; omega) (by simp; omega)]

theorem pngRows_fuel (nbytes bpp : Nat) : ∀ (f1 f2 : Nat) (above data : Bytes), data.length ≤ f1 → data.length ≤ f2 →
    pngRows nbytes bpp f1 above data = pngRows nbytes bpp f2 above data := by
  intro f1
  induction f1 with
  | zero =>
    intro f2 above data h1 _
    have : data = [] := List.eq_nil_of_length_eq_zero (by omega)
    subst this
    cases f2 <;> rfl
  | succ g1 ih =>
    intro f2 above data h1 h2
    cases data with
    | nil => cases f2 <;> rfl
    | cons ft rest =>
      simp only [List.length_cons] at h1 h2
      obtain ⟨g2, rfl⟩ : ∃ g, f2 = g + 1 := ⟨f2 - 1, by omega⟩
      simp only [pngRows]
      split
      · rfl
      · rw [ih g2 _ (rest.drop nbytes) (by simp; omega) (by simp; omega)]

theorem tiffRows_fuel (nbytes bpp : Nat) (hn : 0 < nbytes) : ∀ (f1 f2 : Nat) (data : Bytes), data.length ≤ f1 →
    data.length ≤ f2 → tiffRows nbytes bpp f1 data = tiffRows nbytes bpp f2 data := by
  intro f1
  induction f1 with
  | zero =>
    intro f2 data h1 _
    have : data = [] := List.eq_nil_of_length_eq_zero (by omega)
    subst this
    cases f2 <;> rfl
  | succ g1 ih =>
    intro f2 data h1 h2
    cases data with
    | nil => cases f2 <;> rfl
    | cons c rest =>
      obtain ⟨g2, rfl⟩ : ∃ g, f2 = g + 1 := ⟨f2 - 1, by simp at h2; omega⟩
      simp only [tiffRows]
      split
      · rfl
      · rename_i hlen
        simp only [List.length_cons] at h1 h2 hlen
        rw [ih g2 ((c :: rest).drop nbytes) (by simp; omega) (by simp; omega)]

end PdfVerif.Filters
