/-
Helper lemmas for C07 (composite fonts).  Property theorems are in `Props/C07.lean`.
-/
import PdfVerif.Spec.CIDFont

namespace PdfVerif.CIDFontLemmas
open PdfVerif PdfVerif.CIDFont PdfVerif.CIDFontSpec

/-! ### identity CMaps -/

theorem nunpack_two (a b : UInt8) : nunpack [a, b] = be2 a b := by
  simp [nunpack, be2]

theorem nunpack_one (a : UInt8) : nunpack [a] = a.toNat := by
  simp [nunpack]

theorem range_succ_map {α : Type} (f : Nat → α) (n : Nat) :
    (List.range (n + 1)).map f = f 0 :: (List.range n).map (fun i => f (i + 1)) := by
  rw [List.range_succ_eq_map]
  simp [List.map_map, Function.comp_def]

theorem specIdentity2_cons (a b : UInt8) (rest : Bytes) :
    specIdentity 2 (a :: b :: rest) = be2 a b :: specIdentity 2 rest := by
  unfold specIdentity
  have h : (a :: b :: rest).length / 2 = rest.length / 2 + 1 := by
    simp only [List.length_cons]; omega
  rw [h, range_succ_map]
  simp only [Nat.zero_mul, List.drop_zero, List.take_succ_cons, List.take_zero, nunpack_two]
  congr 1
  apply List.map_congr_left
  intro i _
  have : (i + 1) * 2 = i * 2 + 2 := by omega
  rw [this]
  rfl

theorem identityDecode_eq_spec : ∀ (n : Nat) (s : Bytes), s.length ≤ n → identityDecode s = specIdentity 2 s
  | _, [], _ => by simp [identityDecode, specIdentity]
  | _, [_], _ => by simp [identityDecode, specIdentity]
  | 0, _ :: _ :: _, h => by simp at h
  | n + 1, a :: b :: rest, h => by
    rw [identityDecode, specIdentity2_cons, identityDecode_eq_spec n rest (by simp at h; omega)]


theorem identityDecode_snoc_odd : ∀ (n : Nat) (s : Bytes) (b : UInt8), s.length ≤ n → s.length % 2 = 0 →
    identityDecode (s ++ [b]) = identityDecode s
  | _, [], b, _, _ => by simp [identityDecode]
  | _, [_], _, _, h => by simp at h
  | 0, _ :: _ :: _, _, h, _ => by simp at h
  | n + 1, a :: c :: rest, b, h, hp => by
    have h1 : rest.length ≤ n := by simp at h; omega
    have h2 : rest.length % 2 = 0 := by simp only [List.length_cons] at hp; omega
    simp only [List.cons_append, identityDecode]
    rw [identityDecode_snoc_odd n rest b h1 h2]

theorem specIdentity1 (s : Bytes) : specIdentity 1 s = s.map (·.toNat) := by
  induction s with
  | nil => simp [specIdentity]
  | cons a rest ih =>
    unfold specIdentity at ih ⊢
    have h : (a :: rest).length / 1 = rest.length / 1 + 1 := by simp
    rw [h, range_succ_map]
    simp only [Nat.zero_mul, List.drop_zero, List.take_succ_cons, List.take_zero, nunpack_one, List.map_cons]
    rw [← ih]
    simp only [Nat.mul_one, List.drop_succ_cons]

/-! ### trie CMaps -/

/-- What the CMap says about a byte sequence read from dictionary `d`: a CID (complete code),
an inner dictionary (proper prefix of codes) or nothing. -/
def walk : TDict → Bytes → Option Trie
  | d, [] => some (.node d)
  | d, b :: rest =>
    match d.lookup b with
    | some (.node d') => walk d' rest
    | some (.leaf c) => if rest = [] then some (.leaf c) else none
    | none => none

theorem decode_code (root : TDict) : ∀ (c : Bytes) (d : TDict) (cid : Nat) (s : Bytes),
    walk d c = some (.leaf cid) → trieDecodeAux root d (c ++ s) = cid :: trieDecodeAux root root s
  | [], d, cid, s, h => by simp [walk] at h
  | b :: rest, d, cid, s, h => by
    simp only [walk] at h
    simp only [List.cons_append, trieDecodeAux]
    cases hl : d.lookup b with
    | none => simp [hl] at h
    | some t =>
      cases t with
      | leaf c' =>
        simp only [hl] at h
        by_cases hr : rest = []
        · subst hr; simp at h; simp [h]
        · simp [hr] at h
      | node d' =>
        simp only [hl] at h
        exact decode_code root rest d' cid s h

theorem decode_partial (root : TDict) : ∀ (p : Bytes) (d d' : TDict),
    walk d p = some (.node d') → trieDecodeAux root d p = []
  | [], _, _, _ => by simp [trieDecodeAux]
  | b :: rest, d, d', h => by
    simp only [walk] at h
    simp only [trieDecodeAux]
    cases hl : d.lookup b with
    | none => simp [hl] at h
    | some t =>
      cases t with
      | leaf c' =>
        simp only [hl] at h
        by_cases hr : rest = []
        · subst hr; simp at h
        · simp [hr] at h
      | node d2 =>
        simp only [hl] at h
        exact decode_partial root rest d2 d' h

theorem decode_codes (root : TDict) (p : Bytes) (d' : TDict) (hp : walk root p = some (.node d')) :
    ∀ (cs : List (Bytes × Nat)), (∀ e ∈ cs, walk root e.1 = some (.leaf e.2)) →
      trieDecode root ((cs.map (·.1)).flatten ++ p) = cs.map (·.2)
  | [], _ => by simpa [trieDecode] using decode_partial root p root d' hp
  | e :: rest, h => by
    have he := h e (by simp)
    have ih := decode_codes root p d' hp rest (fun x hx => h x (by simp [hx]))
    simp only [List.map_cons, List.flatten_cons, List.append_assoc, trieDecode] at ih ⊢
    rw [decode_code root e.1 root e.2 _ he, ih]

end PdfVerif.CIDFontLemmas
