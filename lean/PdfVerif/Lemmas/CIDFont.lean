/-
Helper lemmas for C07 (composite fonts).  Property theorems are in `Props/C07.lean`.
-/
import PdfVerif.Spec.CIDFont

namespace PdfVerif.CIDFontLemmas
open PdfVerif PdfVerif.CIDFont PdfVerif.CIDFontSpec

/-! ### identity CMaps -/

theorem nunpack_two (a b : UInt8) : nunpack [a, b] = be2 a b := by
  simp [nunpack, be2]

theorem nunpack_one (a : UInt8) : nunpack [a] = a.toNat := by
  simp [nunpack]

theorem range_succ_map {α : Type} (f : Nat → α) (n : Nat) :
    (List.range (n + 1)).map f = f 0 :: (List.range n).map (fun i => f (i + 1)) := by
  rw [List.range_succ_eq_map]
  simp [List.map_map, Function.comp_def]

theorem specIdentity2_cons (a b : UInt8) (rest : Bytes) :
    specIdentity 2 (a :: b :: rest) = be2 a b :: specIdentity 2 rest := by
  unfold specIdentity
  have h : (a :: b :: rest).length / 2 = rest.length / 2 + 1 := by
    simp only [List.length_cons]; omega
  rw [h, range_succ_map]
  simp only [Nat.zero_mul, List.drop_zero, List.take_succ_cons, List.take_zero, nunpack_two]
  congr 1
  apply List.map_congr_left
  intro i _
  have : (i + 1) * 2 = i * 2 + 2 := by omega
  rw [this]
  rfl

theorem identityDecode_eq_spec : ∀ (n : Nat) (s : Bytes), s.length ≤ n → identityDecode s = specIdentity 2 s
  | _, [], _ => by simp [identityDecode, specIdentity]
  | _, [_], _ => by simp [identityDecode, specIdentity]
  | 0, _ :: _ :: _, h => by simp at h
  | n + 1, a :: b :: rest, h => by
    rw [identityDecode, specIdentity2_cons, identityDecode_eq_spec n rest (by simp at h; omega)]


theorem identityDecode_snoc_odd : ∀ (n : Nat) (s : Bytes) (b : UInt8), s.length ≤ n → s.length % 2 = 0 →
    identityDecode (s ++ [b]) = identityDecode s
  | _, [], b, _, _ => by simp [identityDecode]
  | _, [_], _, _, h => by simp at h
  | 0, _ :: _ :: _, _, h, _ => by simp at h
  | n + 1, a :: c :: rest, b, h, hp => by
    have h1 : rest.length ≤ n := by simp at h; omega
    have h2 : rest.length % 2 = 0 := by simp only [List.length_cons] at hp; omega
    simp only [List.cons_append, identityDecode]
    rw [identityDecode_snoc_odd n rest b h1 h2]

theorem specIdentity1 (s : Bytes) : specIdentity 1 s = s.map (·.toNat) := by
  induction s with
  | nil => simp [specIdentity]
  | cons a rest ih =>
    unfold specIdentity at ih ⊢
    have h : (a :: rest).length / 1 = rest.length / 1 + 1 := by simp
    rw [h, range_succ_map]
    simp only [Nat.zero_mul, List.drop_zero, List.take_succ_cons, List.take_zero, nunpack_one, List.map_cons]
    rw [← ih]
    simp only [Nat.mul_one, List.drop_succ_cons]

/-! ### trie CMaps -/

/-- What the CMap says about a byte sequence read from dictionary `d`: a CID (complete code),
an inner dictionary (proper prefix of codes) or nothing. -/
def walk : TDict → Bytes → Option Trie
  | d, [] => some (.node d)
  | d, b :: rest =>
    match d.lookup b with
    | some (.node d') => walk d' rest
    | some (.leaf c) => if rest = [] then some (.leaf c) else none
    | none => none

theorem decode_code (root : TDict) : ∀ (c : Bytes) (d : TDict) (cid : Nat) (s : Bytes),
    walk d c = some (.leaf cid) → trieDecodeAux root d (c ++ s) = cid :: trieDecodeAux root root s
  | [], d, cid, s, h => by simp [walk] at h
  | b :: rest, d, cid, s, h => by
    simp only [walk] at h
    simp only [List.cons_append, trieDecodeAux]
    cases hl : d.lookup b with
    | none => simp [hl] at h
    | some t =>
      cases t with
      | leaf c' =>
        simp only [hl] at h
        by_cases hr : rest = []
        · subst hr; simp at h; simp [h]
        · simp [hr] at h
      | node d' =>
        simp only [hl] at h
        exact decode_code root rest d' cid s h

theorem decode_partial (root : TDict) : ∀ (p : Bytes) (d d' : TDict),
    walk d p = some (.node d') → trieDecodeAux root d p = []
  | [], _, _, _ => by simp [trieDecodeAux]
  | b :: rest, d, d', h => by
    simp only [walk] at h
    simp only [trieDecodeAux]
    cases hl : d.lookup b with
    | none => simp [hl] at h
    | some t =>
      cases t with
      | leaf c' =>
        simp only [hl] at h
        by_cases hr : rest = []
        · subst hr; simp at h
        · simp [hr] at h
      | node d2 =>
        simp only [hl] at h
        exact decode_partial root rest d2 d' h

theorem decode_codes (root : TDict) (p : Bytes) (d' : TDict) (hp : walk root p = some (.node d')) :
    ∀ (cs : List (Bytes × Nat)), (∀ e ∈ cs, walk root e.1 = some (.leaf e.2)) →
      trieDecode root ((cs.map (·.1)).flatten ++ p) = cs.map (·.2)
  | [], _ => by simpa [trieDecode] using decode_partial root p root d' hp
  | e :: rest, h => by
    have he := h e (by simp)
    have ih := decode_codes root p d' hp rest (fun x hx => h x (by simp [hx]))
    simp only [List.map_cons, List.flatten_cons, List.append_assoc, trieDecode] at ih ⊢
    rw [decode_code root e.1 root e.2 _ he, ih]


/-! ### ToUnicode -/

/-- A sequence of `add_cid2unichr` assignments. -/
def putAll (ps : List (Int × List Nat)) (m : UMap) : UMap :=
  ps.foldl (fun m p => umapPut m p.1 p.2) m

theorem putAll_nil (m : UMap) : putAll [] m = m := rfl

theorem putAll_cons (p : Int × List Nat) (ps : List (Int × List Nat)) (m : UMap) :
    putAll (p :: ps) m = putAll ps (umapPut m p.1 p.2) := rfl

theorem putAll_append (a b : List (Int × List Nat)) (m : UMap) :
    putAll (a ++ b) m = putAll b (putAll a m) := by
  simp [putAll, List.foldl_append]

theorem putAll_quirkFree : ∀ (ps : List (Int × List Nat)) (m : UMap), quirkFree ps m = true →
    putAll ps m = ps.reverse ++ m
  | [], m, _ => by simp [putAll]
  | (c, u) :: rest, m, h => by
    simp only [quirkFree, Bool.and_eq_true, Bool.not_eq_true', Bool.and_eq_false_iff] at h
    obtain ⟨h1, h2⟩ := h
    have hput : umapPut m c u = (c, u) :: m := by
      unfold umapPut
      rw [if_neg]
      rintro ⟨hu, hl⟩
      rcases h1 with h1 | h1
      · simp [hu] at h1
      · simp [hl] at h1
    rw [putAll_cons, hput, putAll_quirkFree rest _ h2]
    simp

theorem bfchar_fold : ∀ (es : List (Bytes × Bytes)) (m : UMap),
    foldEntries bfcharEntry (chop2 (es.flatMap (fun e => [Tok.str e.1, Tok.str e.2]))) m
      = .ok (putAll (es.map (fun e => ((nunpack e.1 : Int), utf16Ignore e.2))) m)
  | [], m => by simp [chop2, foldEntries, putAll]
  | e :: rest, m => by
    simp only [List.flatMap_cons, List.cons_append, List.nil_append, chop2, foldEntries, bfcharEntry, addCid,
      List.map_cons, putAll_cons]
    exact bfchar_fold rest _

def packBytes (v : Nat) : Bytes :=
  [UInt8.ofNat (v / 16777216 % 256), UInt8.ofNat (v / 65536 % 256), UInt8.ofNat (v / 256 % 256),
   UInt8.ofNat (v % 256)]

theorem pack32_ok (v : Nat) (h : v < 4294967296) : pack32 v = .ok (packBytes v) := by
  simp [pack32, packBytes, h]

theorem takeLast_pack (n v : Nat) (h1 : 1 ≤ n) (h4 : n ≤ 4) : takeLast n (packBytes v) = natToBE n v := by
  have e3 : v / 256 / 256 = v / 65536 := by rw [Nat.div_div_eq_div_mul]
  have e4 : v / 65536 / 256 = v / 16777216 := by rw [Nat.div_div_eq_div_mul]
  rcases n with _ | _ | _ | _ | _ | n
  · omega
  · simp [takeLast, packBytes, natToBE]
  · simp [takeLast, packBytes, natToBE]
  · simp [takeLast, packBytes, natToBE, e3]
  · simp [takeLast, packBytes, natToBE, e3, e4]
  · omega


theorem rangeLoop_ok (pfx : Bytes) (base vlen : Nat) (key0 : Int) : ∀ (n i : Nat) (m : UMap),
    base + i + n ≤ 4294967296 →
    rangeLoop pfx base vlen key0 n i m = .ok (putAll ((List.range n).map (fun j =>
      (key0 + ((i + j : Nat) : Int), utf16Ignore (pfx ++ takeLast vlen (packBytes (base + (i + j))))))) m)
  | 0, i, m, _ => by simp [rangeLoop, putAll]
  | n + 1, i, m, h => by
    rw [rangeLoop, pack32_ok (base + i) (by omega)]
    simp only
    rw [rangeLoop_ok pfx base vlen key0 n (i + 1) _ (by omega), range_succ_map, putAll_cons]
    simp only [Nat.add_zero]
    congr 2
    apply List.map_congr_left
    intro j _
    have : i + 1 + j = i + (j + 1) := by omega
    rw [this]

theorem arrLoop_ok : ∀ (n k : Nat) (ds : List Bytes) (m : UMap),
    arrLoop n (k : Int) (ds.map AElem.str) m = .ok (putAll (zipFrom k (ds.take n)) m)
  | 0, k, ds, m => by simp [arrLoop, zipFrom, putAll]
  | n + 1, k, [], m => by simp [arrLoop, zipFrom, putAll]
  | n + 1, k, d :: ds, m => by
    simp only [List.map_cons, arrLoop, addCid, List.take_succ_cons, zipFrom, putAll_cons]
    have := arrLoop_ok n (k + 1) ds (umapPut m (k : Int) (utf16Ignore d))
    simpa using this

theorem takeLast4_length (d : Bytes) : (takeLast 4 d).length ≤ 4 ∧ (d ≠ [] → 1 ≤ (takeLast 4 d).length) := by
  unfold takeLast
  simp only [show (4 : Nat) ≠ 0 by decide, if_false, List.length_drop]
  constructor
  · omega
  · intro h
    have : 0 < d.length := List.length_pos_iff.mpr h
    omega

theorem pow256_le (n : Nat) (h : n ≤ 4) : 256 ^ n ≤ 4294967296 := by
  rcases n with _ | _ | _ | _ | _ | n <;> simp at h ⊢ <;> omega

theorem bfrangeEntry_ok (e : REntry) (m : UMap) (h : entryOk e = true) :
    bfrangeEntry m (Tok.str e.lo, Tok.str e.hi, dstTok e.dst) = .ok (putAll (rangePairs e) m) := by
  obtain ⟨lo, hi, dst⟩ := e
  simp only [entryOk, Bool.and_eq_true, beq_iff_eq] at h
  obtain ⟨hlen, hd⟩ := h
  cases dst with
  | arr ds =>
    simp only [dstTok, bfrangeEntry, hlen, ne_eq, not_true_eq_false, if_false, rangePairs]
    exact arrLoop_ok _ _ ds m
  | inc d =>
    simp only [Bool.and_eq_true, Bool.not_eq_true', List.isEmpty_eq_false_iff, decide_eq_true_eq] at hd
    obtain ⟨hne, hov⟩ := hd
    obtain ⟨hl4, hl1⟩ := takeLast4_length d
    have hl1 := hl1 hne
    have hpow := pow256_le _ hl4
    simp only [dstTok, bfrangeEntry, hlen, ne_eq, not_true_eq_false, if_false, rangePairs]
    rw [rangeLoop_ok _ _ _ _ _ _ _ (by omega)]
    congr 2
    apply List.map_congr_left
    intro j _
    simp only [Nat.zero_add, incBE, takeLast_pack _ _ hl1 hl4, Int.natCast_add]

theorem bfrange_fold : ∀ (es : List REntry) (m : UMap), es.all entryOk = true →
    foldEntries bfrangeEntry (chop3 (es.flatMap renderREntry)) m = .ok (putAll (es.flatMap rangePairs) m)
  | [], m, _ => by simp [chop3, foldEntries, putAll]
  | e :: rest, m, h => by
    simp only [List.all_cons, Bool.and_eq_true] at h
    simp only [List.flatMap_cons, renderREntry, List.cons_append, List.nil_append, chop3, foldEntries,
      bfrangeEntry_ok e m h.1, putAll_append]
    exact bfrange_fold rest _ h.2


/-! ### the token machine -/

theorem runToks_append : ∀ (a b : List Tok) (st : PState),
    runToks (a ++ b) st = match runToks a st with
      | .ok st' => runToks b st'
      | .error e => .error e
  | [], b, st => by simp [runToks]
  | t :: a, b, st => by
    simp only [List.cons_append, runToks]
    cases stepTok st t with
    | error e => rfl
    | ok st' => exact runToks_append a b st'

def notKw : Tok → Bool
  | .kw _ => false
  | _ => true

theorem runToks_push : ∀ (ts : List Tok) (st : PState), ts.all notKw = true →
    runToks ts st = .ok { st with stack := ts.reverse ++ st.stack }
  | [], st, _ => by simp [runToks]
  | t :: ts, st, h => by
    simp only [List.all_cons, Bool.and_eq_true] at h
    have ht : stepTok st t = .ok { st with stack := t :: st.stack } := by
      cases t <;> simp_all [stepTok, notKw]
    simp only [runToks, ht]
    rw [runToks_push ts _ h.2]
    simp

theorem doKw_beginbfchar (st : PState) (h : st.inCmap = true) :
    doKeyword st "beginbfchar" = .ok { st with stack := [] } := by
  simp [doKeyword, h, popallKeywords]

theorem doKw_beginbfrange (st : PState) (h : st.inCmap = true) :
    doKeyword st "beginbfrange" = .ok { st with stack := [] } := by
  simp [doKeyword, h, popallKeywords]

theorem doKw_endbfchar (st : PState) (h : st.inCmap = true) (m : UMap)
    (hf : foldEntries bfcharEntry (chop2 st.stack.reverse) st.map = .ok m) :
    doKeyword st "endbfchar" = .ok { st with stack := [], map := m } := by
  simp [doKeyword, h, popallKeywords, hf]

theorem doKw_endbfrange (st : PState) (h : st.inCmap = true) (m : UMap)
    (hf : foldEntries bfrangeEntry (chop3 st.stack.reverse) st.map = .ok m) :
    doKeyword st "endbfrange" = .ok { st with stack := [], map := m } := by
  simp [doKeyword, h, popallKeywords, hf]

theorem chars_notKw (es : List (Bytes × Bytes)) :
    (es.flatMap (fun e => [Tok.str e.1, Tok.str e.2])).all notKw = true := by
  simp [List.all_flatMap, notKw]

theorem ranges_notKw (es : List REntry) : (es.flatMap renderREntry).all notKw = true := by
  simp only [List.all_flatMap, List.all_eq_true]
  intro e _ t ht
  simp only [renderREntry, List.mem_cons, List.not_mem_nil, or_false] at ht
  rcases ht with rfl | rfl | rfl
  · rfl
  · rfl
  · cases e.dst <;> rfl

theorem runSec (sec : Sec) (st : PState) (hc : st.inCmap = true) (hok : secOk sec = true) :
    runToks (renderSec sec) st = .ok { st with stack := [], map := putAll (secPairs sec) st.map } := by
  cases sec with
  | chars es =>
    simp only [renderSec, List.cons_append, List.nil_append, runToks, stepTok]
    rw [doKw_beginbfchar _ (by simpa using hc)]
    simp only
    rw [runToks_append, runToks_push _ _ (chars_notKw es)]
    simp only [runToks, stepTok, List.append_nil]
    rw [doKw_endbfchar _ (by simpa using hc) _ (by simp only [List.reverse_reverse]; exact bfchar_fold es _)]
    simp only [secPairs]
  | ranges es =>
    simp only [secOk] at hok
    simp only [renderSec, List.cons_append, List.nil_append, runToks, stepTok]
    rw [doKw_beginbfrange _ (by simpa using hc)]
    simp only
    rw [runToks_append, runToks_push _ _ (ranges_notKw es)]
    simp only [runToks, stepTok, List.append_nil]
    rw [doKw_endbfrange _ (by simpa using hc) _ (by simp only [List.reverse_reverse]; exact bfrange_fold es _ hok)]
    simp only [secPairs]

theorem runSecs : ∀ (secs : List Sec) (st : PState), st.inCmap = true → st.stack = [] → secs.all secOk = true →
    runToks (secs.flatMap renderSec) st = .ok { st with map := putAll (specPairs secs) st.map }
  | [], st, _, _, _ => by simp [runToks, specPairs, putAll]
  | sec :: rest, st, hc, hs, hok => by
    simp only [List.all_cons, Bool.and_eq_true] at hok
    simp only [List.flatMap_cons]
    rw [runToks_append, runSec sec st hc hok.1]
    simp only
    rw [runSecs rest _ (by simpa using hc) rfl hok.2]
    simp only [specPairs, List.flatMap_cons, putAll_append]
    cases st
    simp_all

theorem run_header : runToks headerToks PState.init = .ok PState.init := by
  simp [headerToks, runToks, stepTok, doKeyword, popallKeywords, PState.init]

theorem run_trailer (st : PState) (hs : st.stack = []) :
    (match runToks trailerToks st with
     | .ok st' => Except.ok st'.map
     | .error e => .error e) = (.ok st.map : Except Err UMap) := by
  simp [trailerToks, runToks, stepTok, doKeyword, popallKeywords, hs]

theorem parse_render (secs : List Sec) (hok : secs.all secOk = true) :
    parseToUnicode (render secs) = .ok (putAll (specPairs secs) []) := by
  unfold parseToUnicode render
  rw [List.append_assoc, runToks_append, run_header]
  simp only
  rw [runToks_append, runSecs secs PState.init rfl rfl hok]
  simp only
  exact run_trailer _ rfl


/-! ### pen movement -/

/-- Sum of the advances `w(c)/1000 · fs` of a cid list. -/
def advSum (fs : Rat) (w : Nat → Rat) : List Nat → Rat
  | [] => 0
  | c :: cs => w c * (1 / 1000) * fs + advSum fs w cs

theorem showCids_snd (v : Bool) (fs : Rat) (w : Nat → Rat) : ∀ (cs : List Nat) (x y : Rat),
    (showCids v fs w cs (x, y)).2 = if v then (x, y + advSum fs w cs) else (x + advSum fs w cs, y)
  | [], x, y => by cases v <;> simp [showCids, advSum] <;> grind
  | c :: cs, x, y => by
    cases v
    · simp only [showCids, Bool.false_eq_true, if_false, advSum]
      rw [showCids_snd false fs w cs]
      simp only [Bool.false_eq_true, if_false, Prod.mk.injEq, and_true]
      grind
    · simp only [showCids, if_true, advSum]
      rw [showCids_snd true fs w cs]
      simp only [if_true, Prod.mk.injEq, true_and]
      grind

theorem showCids_append (v : Bool) (fs : Rat) (w : Nat → Rat) : ∀ (a b : List Nat) (p : Rat × Rat),
    showCids v fs w (a ++ b) p =
      ((showCids v fs w a p).1 ++ (showCids v fs w b (showCids v fs w a p).2).1,
       (showCids v fs w b (showCids v fs w a p).2).2)
  | [], b, p => by simp [showCids]
  | c :: a, b, (x, y) => by
    simp only [List.cons_append, showCids]
    rw [showCids_append v fs w a b]

theorem showCids_head (v : Bool) (fs : Rat) (w : Nat → Rat) (c : Nat) (cs : List Nat) (x y : Rat) :
    (showCids v fs w (c :: cs) (x, y)).1.head? = some ⟨c, x, y, w c * (1 / 1000) * fs⟩ := by
  simp [showCids]


/-! ### width arrays -/

/-- The specified (cid, width) pairs as a width dictionary of the model. -/
def toWMap (ps : List (Int × Rat)) : WMap := ps.map (fun e => ((e.1 : Rat), WVal.num e.2))

theorem toWMap_append (a b : List (Int × Rat)) : toWMap (a ++ b) = toWMap a ++ toWMap b := by
  simp [toWMap]

theorem putList_eq (c : Nat) : ∀ (ws : List (Rat × Bool)) (i : Nat) (m : WMap),
    putList (c : Rat) i (ws.map (fun w => WVal.num w.1)) m = toWMap (listPairs c i ws).reverse ++ m
  | [], i, m => by simp [putList, listPairs, toWMap]
  | w :: ws, i, m => by
    simp only [List.map_cons, putList, listPairs, List.reverse_cons, toWMap_append]
    rw [putList_eq c ws (i + 1)]
    simp only [toWMap, List.map_cons, List.map_nil, List.append_assoc, List.cons_append, List.nil_append,
      Rat.intCast_natCast, Rat.natCast_add]

theorem putRange_eq (c1 : Int) (w : Rat) : ∀ (n i : Nat) (m : WMap),
    putRange c1 (WVal.num w) n i m =
      toWMap ((List.range n).map (fun (j : Nat) => (c1 + ((i + j : Nat) : Int), w))).reverse ++ m
  | 0, i, m => by simp [putRange, toWMap]
  | n + 1, i, m => by
    rw [putRange, putRange_eq c1 w n (i + 1), range_succ_map]
    simp only [List.reverse_cons, toWMap_append, List.append_assoc, Nat.add_zero]
    congr 1
    · congr 2
      apply List.map_congr_left
      intro j _
      have : i + 1 + j = i + (j + 1) := by omega
      rw [this]

theorem widths_entry (e : WEntry) (m : WMap) :
    (renderWEntry e).foldl widthsStep (m, []) = (toWMap (wentryPairs e).reverse ++ m, []) := by
  cases e with
  | list c ws =>
    simp only [renderWEntry, List.foldl_cons, List.foldl_nil, widthsStep, List.nil_append, List.getLast?_singleton,
      wentryPairs]
    rw [putList_eq]
  | range c1 c2 w =>
    simp only [renderWEntry, List.foldl_cons, List.foldl_nil, widthsStep, List.nil_append, List.cons_append,
      and_self, if_true, Rat.floor_intCast, wentryPairs, Gen.CIDFont.MAX_CID]
    rw [putRange_eq]
    simp only [Nat.zero_add]

theorem widths_fold : ∀ (es : List WEntry) (m : WMap),
    (renderW es).foldl widthsStep (m, []) = (toWMap (specWidthPairs es).reverse ++ m, [])
  | [], m => by simp [renderW, specWidthPairs, toWMap]
  | e :: rest, m => by
    simp only [renderW, List.flatMap_cons, List.foldl_append, specWidthPairs] at *
    rw [widths_entry e m]
    have := widths_fold rest (toWMap (wentryPairs e).reverse ++ m)
    simp only [renderW, specWidthPairs] at this
    rw [this]
    simp [toWMap_append]

theorem lookup_toWMap (cid : Nat) : ∀ (ps : List (Int × Rat)),
    (toWMap ps).lookup (cid : Rat) = (ps.lookup (cid : Int)).map WVal.num
  | [] => by simp [toWMap]
  | (k, w) :: rest => by
    have ih := lookup_toWMap cid rest
    simp only [toWMap, List.map_cons, List.lookup_cons] at ih ⊢
    by_cases hk : (cid : Int) = k
    · subst hk
      simp [Rat.intCast_natCast]
    · have hne : ¬ ((cid : Rat) = (k : Rat)) := by
        intro h
        apply hk
        rw [← Rat.intCast_natCast] at h
        exact Rat.intCast_inj.mp h
      have b1 : ((cid : Rat) == (k : Rat)) = false := by simpa using hne
      have b2 : ((cid : Int) == k) = false := by simpa using hk
      rw [b1, b2]
      exact ih


/-! ### vertical metrics `W2` -/

abbrev Num3 := (Rat × Bool) × (Rat × Bool) × (Rat × Bool)

def toW2Map (ps : List (Int × (Rat × Rat × Rat))) : W2Map :=
  ps.map (fun e => ((e.1 : Rat), (WVal.num e.2.1, WVal.num e.2.2.1, WVal.num e.2.2.2)))

theorem toW2Map_append (a b : List (Int × (Rat × Rat × Rat))) : toW2Map (a ++ b) = toW2Map a ++ toW2Map b := by
  simp [toW2Map]

theorem chop3W_flat : ∀ (ws : List Num3),
    chop3W (ws.flatMap (fun w => [WVal.num w.1.1, WVal.num w.2.1.1, WVal.num w.2.2.1]))
      = ws.map (fun w => (WVal.num w.1.1, WVal.num w.2.1.1, WVal.num w.2.2.1))
  | [] => by simp [chop3W]
  | w :: ws => by
    simp only [List.flatMap_cons, List.cons_append, List.nil_append, chop3W, List.map_cons]
    rw [chop3W_flat ws]

theorem putList2_eq (c : Nat) : ∀ (ws : List Num3) (i : Nat) (m : W2Map),
    putList2 (c : Rat) i (ws.map (fun w => (WVal.num w.1.1, WVal.num w.2.1.1, WVal.num w.2.2.1))) m
      = toW2Map (list2Pairs c i ws).reverse ++ m
  | [], i, m => by simp [putList2, list2Pairs, toW2Map]
  | w :: ws, i, m => by
    simp only [List.map_cons, putList2, list2Pairs, List.reverse_cons, toW2Map_append, isNum3, if_true]
    rw [putList2_eq c ws (i + 1)]
    simp only [toW2Map, List.map_cons, List.map_nil, List.append_assoc, List.cons_append, List.nil_append,
      Rat.intCast_natCast, Rat.natCast_add]

theorem putRange_gen {β : Type} (c1 : Int) (v : β) : ∀ (n i : Nat) (m : List (Rat × β)),
    putRange c1 v n i m =
      ((List.range n).map (fun (j : Nat) => (((c1 + ((i + j : Nat) : Int) : Int) : Rat), v))).reverse ++ m
  | 0, i, m => by simp [putRange]
  | n + 1, i, m => by
    rw [putRange, putRange_gen c1 v n (i + 1), range_succ_map]
    simp only [List.reverse_cons, List.append_assoc, Nat.add_zero, List.cons_append, List.nil_append]
    congr 2
    apply List.map_congr_left
    intro j _
    have : i + 1 + j = i + (j + 1) := by omega
    rw [this]

theorem widths2_entry (e : W2Entry) (rest : List WElem) (m : W2Map) :
    getWidths2Aux (renderW2Entry e ++ rest) (m, []) =
      getWidths2Aux rest (toW2Map (w2entryPairs e).reverse ++ m, []) := by
  cases e with
  | list c ws =>
    simp only [renderW2Entry, List.cons_append, List.nil_append, getWidths2Aux, widths2Step,
      List.getLast?_singleton, w2entryPairs, chop3W_flat]
    rw [putList2_eq]
  | range c1 c2 w =>
    simp only [renderW2Entry, List.cons_append, List.nil_append, getWidths2Aux, widths2Step, and_self, if_true,
      Rat.floor_intCast, w2entryPairs, Gen.CIDFont.MAX_CID]
    rw [putRange_gen]
    simp [toW2Map, Function.comp_def]

theorem widths2_fold : ∀ (es : List W2Entry) (m : W2Map),
    getWidths2Aux (renderW2 es) (m, []) = .ok (toW2Map (specWidth2Pairs es).reverse ++ m)
  | [], m => by simp [renderW2, specWidth2Pairs, toW2Map, getWidths2Aux]
  | e :: rest, m => by
    have ih := widths2_fold rest (toW2Map (w2entryPairs e).reverse ++ m)
    simp only [renderW2, specWidth2Pairs, List.flatMap_cons] at ih ⊢
    rw [widths2_entry e _ m, ih]
    simp [toW2Map_append]

theorem lookup_toW2Map (cid : Nat) : ∀ (ps : List (Int × (Rat × Rat × Rat))),
    (toW2Map ps).lookup (cid : Rat) =
      (ps.lookup (cid : Int)).map (fun w => (WVal.num w.1, WVal.num w.2.1, WVal.num w.2.2))
  | [] => by simp [toW2Map]
  | (k, w) :: rest => by
    have ih := lookup_toW2Map cid rest
    simp only [toW2Map, List.map_cons, List.lookup_cons] at ih ⊢
    by_cases hk : (cid : Int) = k
    · subst hk
      simp [Rat.intCast_natCast]
    · have hne : ¬ ((cid : Rat) = (k : Rat)) := by
        intro h
        apply hk
        rw [← Rat.intCast_natCast] at h
        exact Rat.intCast_inj.mp h
      have b1 : ((cid : Rat) == (k : Rat)) = false := by simpa using hne
      have b2 : ((cid : Int) == k) = false := by simpa using hk
      rw [b1, b2]
      exact ih


/-! ### bfrange increment: ISO's "last byte" wording vs the carry form -/

theorem nunpack_snoc : ∀ (t : Bytes) (b : UInt8), nunpack (t ++ [b]) = nunpack t * 256 + b.toNat
  | [], b => by simp [nunpack]
  | a :: t, b => by
    simp only [List.cons_append, nunpack, List.length_append, List.length_cons, List.length_nil, Nat.zero_add,
      nunpack_snoc t b, Nat.pow_succ, Nat.add_mul, Nat.mul_assoc, Nat.add_assoc]

theorem natToBE_snoc (n x b k : Nat) (h : b + k < 256) :
    natToBE (n + 1) (x * 256 + b + k) = natToBE n x ++ [UInt8.ofNat (b + k)] := by
  have h1 : (x * 256 + b + k) / 256 = x := by omega
  have h2 : (x * 256 + b + k) % 256 = b + k := by omega
  simp [natToBE, h1, h2]

theorem natToBE_nunpack : ∀ (n : Nat) (t : Bytes), t.length = n → natToBE n (nunpack t) = t
  | 0, t, h => by
    have : t = [] := List.length_eq_zero_iff.mp h
    subst this; simp [natToBE]
  | n + 1, t, h => by
    have hne : t ≠ [] := by intro h0; subst h0; simp at h
    obtain ⟨b, hb⟩ : ∃ b, t.getLast? = some b := by
      cases hq : t.getLast? with
      | none => exact absurd (List.getLast?_eq_none_iff.mp hq) hne
      | some b => exact ⟨b, rfl⟩
    obtain ⟨init, rfl⟩ := List.getLast?_eq_some_iff.mp hb
    have hl : init.length = n := by simpa using h
    rw [nunpack_snoc]
    have := natToBE_snoc n (nunpack init) b.toNat 0 (by have := b.toNat_lt; omega)
    simp only [Nat.add_zero] at this
    rw [this, natToBE_nunpack n init hl]
    simp

theorem incBE_eq_incLast (d x : Bytes) (k : Nat) (h : incLast d k = some x) : incBE d k = x := by
  unfold incLast at h
  cases hq : d.getLast? with
  | none => simp [hq] at h
  | some b =>
    simp only [hq] at h
    by_cases hb : b.toNat + k < 256
    · simp only [hb, if_true, Option.some.injEq] at h
      subst h
      obtain ⟨init, rfl⟩ := List.getLast?_eq_some_iff.mp hq
      unfold incBE takeLast dropLast4
      simp only [show (4 : Nat) ≠ 0 by decide, if_false, List.length_append, List.length_cons, List.length_nil,
        Nat.zero_add]
      have e1 : init.length + 1 - 4 = init.length - 3 := by omega
      rw [e1, List.drop_append_of_le_length (by omega), List.take_append_of_le_length (by omega)]
      rw [nunpack_snoc, List.length_append]
      simp only [List.length_cons, List.length_nil, Nat.zero_add]
      rw [natToBE_snoc _ _ _ _ hb, natToBE_nunpack _ _ rfl]
      rw [← List.append_assoc, List.take_append_drop]
      simp [List.dropLast_concat]
    · simp [hb] at h


/-! ### tries built by `add_code2cid` -/

theorem lookup_dictSet_self : ∀ (d : TDict) (k : UInt8) (v : Trie), (dictSet d k v).lookup k = some v
  | [], k, v => by simp [dictSet, List.lookup]
  | (k', v') :: rest, k, v => by
    unfold dictSet
    by_cases h : k' = k
    · subst h; simp [List.lookup]
    · have h' : (k == k') = false := by simpa using fun e : k = k' => h e.symm
      simp only [beq_iff_eq, h, if_false, List.lookup_cons, h']
      exact lookup_dictSet_self rest k v

theorem lookup_dictSet_other : ∀ (d : TDict) (k k2 : UInt8) (v : Trie), k2 ≠ k →
    (dictSet d k v).lookup k2 = d.lookup k2
  | [], k, k2, v, h => by
    have : (k2 == k) = false := by simpa using h
    simp [dictSet, List.lookup, this]
  | (k', v') :: rest, k, k2, v, h => by
    unfold dictSet
    by_cases hk : k' = k
    · subst hk
      have : (k2 == k') = false := by simpa using h
      simp [List.lookup_cons, this]
    · simp only [beq_iff_eq, hk, if_false, List.lookup_cons]
      rw [lookup_dictSet_other rest k k2 v h]

/-- After `add_code2cid(code, cid)` succeeds, `code` is a code of the CMap with that CID. -/
theorem walk_insert_self : ∀ (c : Bytes) (d d' : TDict) (cid : Nat),
    trieInsert d c cid = .ok d' → walk d' c = some (.leaf cid)
  | [], d, d', cid, h => by simp [trieInsert] at h
  | [b], d, d', cid, h => by
    simp only [trieInsert, Except.ok.injEq] at h
    subst h
    simp [walk, lookup_dictSet_self]
  | b :: b2 :: rest, d, d', cid, h => by
    simp only [trieInsert] at h
    cases hl : d.lookup b with
    | none =>
      simp only [hl] at h
      cases hi : trieInsert [] (b2 :: rest) cid with
      | error e => simp [hi] at h
      | ok t =>
        simp only [hi, Except.ok.injEq] at h
        subst h
        simp only [walk, lookup_dictSet_self]
        exact walk_insert_self (b2 :: rest) [] t cid hi
    | some tr =>
      cases tr with
      | leaf n => simp [hl] at h
      | node dn =>
        simp only [hl] at h
        cases hi : trieInsert dn (b2 :: rest) cid with
        | error e => simp [hi] at h
        | ok t =>
          simp only [hi, Except.ok.injEq] at h
          subst h
          simp only [walk, lookup_dictSet_self]
          exact walk_insert_self (b2 :: rest) dn t cid hi


theorem walk_nil_cons (b : UInt8) (r : Bytes) : walk [] (b :: r) = none := by
  simp [walk, List.lookup]

/-- `add_code2cid(code, cid)` does not change what the CMap says about any byte sequence that is neither a
prefix nor an extension of `code`. -/
theorem walk_insert_other : ∀ (c : Bytes) (d d' : TDict) (cid : Nat) (c2 : Bytes),
    trieInsert d c cid = .ok d' → ¬ c <+: c2 → ¬ c2 <+: c → walk d' c2 = walk d c2
  | [], d, d', cid, c2, h, _, _ => by simp [trieInsert] at h
  | _ :: _, d, d', cid, [], _, _, h2 => absurd List.nil_prefix h2
  | [b], d, d', cid, b' :: r2, h, h1, _ => by
    simp only [trieInsert, Except.ok.injEq] at h
    subst h
    have hne : b' ≠ b := by
      intro e; subst e
      exact h1 (List.cons_prefix_cons.mpr ⟨rfl, List.nil_prefix⟩)
    simp only [walk, lookup_dictSet_other _ _ _ _ hne]
  | b :: b2 :: rest, d, d', cid, b' :: r2, h, h1, h2 => by
    by_cases hb : b' = b
    · subst hb
      have h1' : ¬ (b2 :: rest) <+: r2 := fun hp => h1 (List.cons_prefix_cons.mpr ⟨rfl, hp⟩)
      have h2' : ¬ r2 <+: (b2 :: rest) := fun hp => h2 (List.cons_prefix_cons.mpr ⟨rfl, hp⟩)
      simp only [trieInsert] at h
      cases hl : d.lookup b' with
      | none =>
        simp only [hl] at h
        cases hi : trieInsert [] (b2 :: rest) cid with
        | error e => simp [hi] at h
        | ok t =>
          simp only [hi, Except.ok.injEq] at h
          subst h
          simp only [walk, lookup_dictSet_self, hl]
          rw [walk_insert_other (b2 :: rest) [] t cid r2 hi h1' h2']
          cases r2 with
          | nil => exact absurd List.nil_prefix h2'
          | cons x xs => exact walk_nil_cons x xs
      | some tr =>
        cases tr with
        | leaf n => simp [hl] at h
        | node dn =>
          simp only [hl] at h
          cases hi : trieInsert dn (b2 :: rest) cid with
          | error e => simp [hi] at h
          | ok t =>
            simp only [hi, Except.ok.injEq] at h
            subst h
            simp only [walk, lookup_dictSet_self, hl]
            exact walk_insert_other (b2 :: rest) dn t cid r2 hi h1' h2'
    · simp only [trieInsert] at h
      have key : ∀ (v : Trie), walk (dictSet d b v) (b' :: r2) = walk d (b' :: r2) := by
        intro v
        simp only [walk, lookup_dictSet_other _ _ _ _ hb]
      cases hl : d.lookup b with
      | none =>
        simp only [hl] at h
        cases hi : trieInsert [] (b2 :: rest) cid with
        | error e => simp [hi] at h
        | ok t =>
          simp only [hi, Except.ok.injEq] at h
          subst h
          exact key _
      | some tr =>
        cases tr with
        | leaf n => simp [hl] at h
        | node dn =>
          simp only [hl] at h
          cases hi : trieInsert dn (b2 :: rest) cid with
          | error e => simp [hi] at h
          | ok t =>
            simp only [hi, Except.ok.injEq] at h
            subst h
            exact key _


/-- `add_code2cid` for every entry of a code table, in order. -/
def buildTrie : List (Bytes × Nat) → TDict → Except Err TDict
  | [], d => .ok d
  | e :: rest, d =>
    match trieInsert d e.1 e.2 with
    | .ok d' => buildTrie rest d'
    | .error err => .error err

/-- No code of the table is a prefix of another one (codespace ranges guarantee this for CMaps). -/
def PrefixFree (tab : List (Bytes × Nat)) : Prop :=
  tab.Pairwise (fun a b => ¬ a.1 <+: b.1 ∧ ¬ b.1 <+: a.1)

theorem buildTrie_walk : ∀ (tab : List (Bytes × Nat)) (d t : TDict), PrefixFree tab → buildTrie tab d = .ok t →
    (∀ e ∈ tab, walk t e.1 = some (.leaf e.2)) ∧
    (∀ c2 : Bytes, (∀ e ∈ tab, ¬ e.1 <+: c2 ∧ ¬ c2 <+: e.1) → walk t c2 = walk d c2)
  | [], d, t, _, h => by
    simp only [buildTrie, Except.ok.injEq] at h
    subst h
    simp
  | e :: rest, d, t, hp, h => by
    simp only [buildTrie] at h
    cases hi : trieInsert d e.1 e.2 with
    | error err => simp [hi] at h
    | ok d1 =>
      simp only [hi] at h
      have hp' := List.pairwise_cons.mp hp
      obtain ⟨ih1, ih2⟩ := buildTrie_walk rest d1 t hp'.2 h
      constructor
      · intro x hx
        rcases List.mem_cons.mp hx with rfl | hx
        · rw [ih2 x.1 (fun y hy => ⟨(hp'.1 y hy).2, (hp'.1 y hy).1⟩)]
          exact walk_insert_self x.1 d d1 x.2 hi
        · exact ih1 x hx
      · intro c2 hc
        rw [ih2 c2 (fun y hy => hc y (List.mem_cons_of_mem _ hy))]
        exact walk_insert_other e.1 d d1 e.2 c2 hi (hc e (by simp)).1 (hc e (by simp)).2

end PdfVerif.CIDFontLemmas
