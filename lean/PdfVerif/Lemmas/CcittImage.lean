/-
C19 helper lemmas, part 5: a whole coded line, then a whole image, through the bit-level parser.
-/
import PdfVerif.Lemmas.CcittLine

namespace PdfVerif.Ccitt
open PdfVerif.Gen PdfVerif.Spec

/-- Two parser states agree on everything the line semantics reads, except the colour. -/
structure SameLine (a b : St) : Prop where
  wd : a.width = b.width
  ba : a.bytealign = b.bytealign
  rvs : a.reversed = b.reversed
  rf : a.refline = b.refline
  cl : a.curline = b.curline
  cp : a.curpos = b.curpos
  bf : a.buf = b.buf

theorem SameLine.refl (a : St) : SameLine a a := ⟨rfl, rfl, rfl, rfl, rfl, rfl, rfl⟩

theorem SameLine.trans {a b c : St} (h1 : SameLine a b) (h2 : SameLine b c) : SameLine a c :=
  ⟨h1.wd.trans h2.wd, h1.ba.trans h2.ba, h1.rvs.trans h2.rvs, h1.rf.trans h2.rf, h1.cl.trans h2.cl,
    h1.cp.trans h2.cp, h1.bf.trans h2.bf⟩

theorem addRun_sameLine (st : St) (m : Nat) : SameLine (addRun st m) st := by
  unfold addRun; split <;> exact ⟨rfl, rfl, rfl, rfl, rfl, rfl, rfl⟩

theorem addRun_n1 (st : St) (m : Nat) (h : st.acc = .horiz1) : (addRun st m).n1 = st.n1 + m ∧ (addRun st m).n2 = st.n2 := by
  simp [addRun, h]

theorem addRun_n2 (st : St) (m : Nat) (h : st.acc = .horiz2) : (addRun st m).n2 = st.n2 + m ∧ (addRun st m).n1 = st.n1 := by
  simp [addRun, h]

theorem addRun_acc (st : St) (m : Nat) : (addRun st m).acc = st.acc := by
  unfold addRun; split <;> rfl

theorem Core.transfer {w al rv ref cur buf st st' a0 color} (h : Core w al rv ref cur buf st a0 color)
    (hs : SameLine st' st) (hc : st'.color = st.color) : Core w al rv ref cur buf st' a0 color :=
  ⟨hs.wd.trans h.wd, hs.ba.trans h.ba, hs.rvs.trans h.rvs, hs.rf.trans h.rf, hs.bf.trans h.bf,
    by rw [hs.cl]; exact h.curlen, hs.cp.trans h.cp, hc.trans h.col, h.lo, h.hi,
    by intro i hi; rw [hs.cl]; exact h.pre i hi, h.at0⟩

/-- First run of a horizontal mode: `_parse_horiz1` until a terminating code. -/
theorem feed_run_first (st0 : St) (hacc : st0.acc = .horiz1) (hnode : st0.node = runTrie st0.color) (n : Nat) :
    ∃ st1 : St, SameLine st1 st0 ∧ st1.color = (!st0.color) ∧ st1.acc = .horiz2 ∧
      st1.node = runTrie (!st0.color) ∧ st1.n1 = st0.n1 + n ∧ st1.n2 = 0 ∧
      ∀ (pos : Nat) (rest : List Bool), feedFlat st0 pos 0 (T6.encodeRun st0.color n ++ rest) =
        feedFlat st1 (pos + (T6.encodeRun st0.color n).length) 0 rest := by
  obtain ⟨pre, m, t, he, ht, hs, hf⟩ := encodeRun_split st0.color n
  have hin : InRun st0 := ⟨Or.inl hacc, hnode⟩
  have hin' := addRun_inRun hin m
  have hcol := addRun_color st0 m
  have hacc' : (addRun st0 m).acc = .horiz1 := by rw [addRun_acc]; exact hacc
  obtain ⟨hne, hfl⟩ := runCode_term st0.color ht
  have hsl := addRun_sameLine st0 m
  have hn := addRun_n1 st0 m hacc
  have hf0 := hf st0 hin rfl
  generalize addRun st0 m = sa at *
  refine ⟨{ sa with n1 := sa.n1 + t, n2 := 0, color := !sa.color, acc := .horiz2, node := runTrie (!sa.color) },
    ⟨hsl.wd, hsl.ba, hsl.rvs, hsl.rf, hsl.cl, hsl.cp, hsl.bf⟩, by simp [hcol], rfl, by simp [hcol], by simp [hn.1]; omega, rfl, ?_⟩
  intro pos rest
  rw [he, List.append_assoc, hf0, feed_follow_leaf _ sa _ rest _ hne (by rw [hin'.node, hcol]; exact hfl)]
  have ht1 := (horiz1Term_iff t).2 ht
  simp only [accept, hacc', parseHoriz1, ht1, if_true, afterAccept, List.length_append, CcittCode.horiz1Flip]
  rw [Nat.add_assoc]

/-- Second run of a horizontal mode: `_parse_horiz2` until a terminating code, then
`_do_horizontal` and `_flush_line`. -/
theorem feed_run_second (st1 : St) (hacc : st1.acc = .horiz2) (hnode : st1.node = runTrie st1.color) (n : Nat) :
    ∃ st2 : St, SameLine st2 st1 ∧ st2.color = (!st1.color) ∧ st2.n1 = st1.n1 ∧ st2.n2 = st1.n2 + n ∧
      ∀ (pos : Nat) (rest : List Bool), feedFlat st1 pos 0 (T6.encodeRun st1.color n ++ rest) =
        afterAccept (.ok (afterFlush (doHorizontal st2 st2.n1 st2.n2)))
          (pos + (T6.encodeRun st1.color n).length) rest := by
  obtain ⟨pre, m, t, he, ht, hs, hf⟩ := encodeRun_split st1.color n
  have hin : InRun st1 := ⟨Or.inr hacc, hnode⟩
  have hin' := addRun_inRun hin m
  have hcol := addRun_color st1 m
  have hacc' : (addRun st1 m).acc = .horiz2 := by rw [addRun_acc]; exact hacc
  obtain ⟨hne, hfl⟩ := runCode_term st1.color ht
  have hsl := addRun_sameLine st1 m
  have hn := addRun_n2 st1 m hacc
  have hf0 := hf st1 hin rfl
  generalize addRun st1 m = sa at *
  refine ⟨{ sa with node := .empty, n2 := sa.n2 + t, color := !sa.color, acc := .mode },
    ⟨hsl.wd, hsl.ba, hsl.rvs, hsl.rf, hsl.cl, hsl.cp, hsl.bf⟩, by simp [hcol], by simp [hn.2], by simp [hn.1]; omega, ?_⟩
  intro pos rest
  rw [he, List.append_assoc, hf0, feed_follow_leaf _ sa _ rest _ hne (by rw [hin'.node, hcol]; exact hfl)]
  have ht2 := (horiz2Term_iff t).2 ht
  simp only [accept, hacc', parseHoriz2, ht2, if_true, List.length_append, CcittCode.horiz2Flip]
  rw [Nat.add_assoc]

/-- A complete horizontal mode: H, a0a1 in the current colour, a1a2 in the other one. -/
theorem feed_horiz (st : St) (hacc : st.acc = .mode) (hnode : st.node = modeTrie) (n1 n2 : Nat) :
    ∃ stH : St, SameLine stH st ∧ stH.color = st.color ∧
      ∀ (pos : Nat) (rest : List Bool),
        feedFlat st pos 0 ((T6.codeH ++ T6.encodeRun st.color n1 ++ T6.encodeRun (!st.color) n2) ++ rest) =
          afterAccept (.ok (afterFlush (doHorizontal stH n1 n2)))
            (pos + (T6.codeH ++ T6.encodeRun st.color n1 ++ T6.encodeRun (!st.color) n2).length) rest := by
  obtain ⟨st1, hs1, hc1, ha1, hn1, hn11, hn12, hf1⟩ := feed_run_first
    { st with node := runTrie st.color, n1 := 0, acc := .horiz1 } rfl rfl n1
  have hnode1 : st1.node = runTrie st1.color := by rw [hn1, hc1]
  obtain ⟨st2, hs2, hc2, hn21, hn22, hf2⟩ := feed_run_second st1 ha1 hnode1 n2
  refine ⟨st2, ?_, by rw [hc2, hc1]; simp, ?_⟩
  · exact (hs2.trans hs1).trans ⟨rfl, rfl, rfl, rfl, rfl, rfl, rfl⟩
  · intro pos rest
    have hH : T6.codeH ≠ [] := by decide
    rw [List.append_assoc, List.append_assoc, List.append_assoc,
      feed_follow_leaf _ st pos _ (.mode .h) hH (by rw [hnode]; exact mode_codes_ok.2.1)]
    simp only [accept, hacc, parseMode, modeAction_h, afterAccept]
    have := hf1 (pos + T6.codeH.length) (T6.encodeRun (!st.color) n2 ++ rest)
    simp only at this
    rw [this]
    have h2 := hf2 (pos + T6.codeH.length + (T6.encodeRun st.color n1).length) rest
    rw [hc1] at h2
    simp only at h2
    rw [h2]
    have e1 : st2.n1 = n1 := by rw [hn21, hn11]; simp
    have e2 : st2.n2 = n2 := by rw [hn22, hn12]; simp
    rw [e1, e2]
    simp only [List.length_append]
    congr 1
    omega

/-! ### one coded line -/

/-- The parser sits at the start of a line with reference line `ref`, having output `buf`. -/
structure Ready (w : Nat) (al rv : Bool) (ref : List Bool) (buf : List UInt8) (st : St) : Prop where
  wd : st.width = w
  ba : st.bytealign = al
  rvs : st.reversed = rv
  rf : st.refline = ref
  cl : st.curline = List.replicate w true
  cp : st.curpos = -1
  col : st.color = true
  acc : st.acc = .mode
  node : st.node = modeTrie
  bf : st.buf = buf

theorem Ready.core {w al rv ref buf st} (h : Ready w al rv ref buf st) (cur : List Bool) :
    Core w al rv ref cur buf st (-1) true :=
  ⟨h.wd, h.ba, h.rvs, h.rf, h.bf, by rw [h.cl]; simp, h.cp, h.col, by omega, by omega,
    by intro i hi; omega, by intro h0; omega⟩

/-- bits discarded after the code word that ended at position `p - 1` completed a line -/
def skipAfter (al : Bool) (p : Nat) : Nat := if al then 7 - (p - 1) % 8 else 0

section line
variable {w : Nat} {al rv : Bool} {ref cur : List Bool} {buf : List UInt8}

theorem afterFlush_mid {st : St} {a0 : Int} {color : Bool} (h : Core w al rv ref cur buf st a0 color)
    (hlt : a0 < w) : afterFlush st = ({ st with acc := .mode, node := modeTrie }, .cont) := by
  have : ¬ ((st.width : Int) ≤ st.curpos) := by rw [h.wd, h.cp]; omega
  simp [afterFlush, flushLine, CcittCode.flushCond, this]

theorem afterFlush_done {st : St} {color : Bool} (h : Core w al rv ref cur buf st (w : Int) color)
    (hcur : cur.length = w) :
    ∃ st2, afterFlush st = (st2, if al then .byteSkip else .cont) ∧
      Ready w al rv cur (buf ++ packLine rv cur) st2 := by
  have hc : st.curline = cur := by
    apply List.ext_getElem?
    intro i
    by_cases hi : i < w
    · exact h.pre i (by omega)
    · rw [List.getElem?_eq_none (by rw [h.curlen]; omega), List.getElem?_eq_none (by omega)]
  have hle : (st.width : Int) ≤ st.curpos := by rw [h.wd, h.cp]; omega
  refine ⟨{ (resetLine { st with buf := st.buf ++ packLine st.reversed st.curline }) with
      acc := .mode, node := modeTrie }, ?_, ?_⟩
  · simp only [afterFlush, flushLine, CcittCode.flushCond, hle, decide_true, if_true, h.ba]
  · simp only [resetLine]
    exact ⟨h.wd, h.ba, h.rvs, hc, by simp [h.wd, CcittCode.blankPixel], rfl, rfl, rfl, rfl,
      by simp [h.bf, h.rvs, hc]⟩

/-- What remains to be shown for the rest of a line once the next code word has been dealt with. -/
def LineGoal (w : Nat) (al rv : Bool) (cur : List Bool) (buf : List UInt8) (st : St) (code : List Bool) : Prop :=
  ∃ st', Ready w al rv cur (buf ++ packLine rv cur) st' ∧ code ≠ [] ∧
    ∀ (pos : Nat) (rest : List Bool), feedFlat st pos 0 (code ++ rest) =
      feedFlat st' (pos + code.length) (skipAfter al (pos + code.length)) rest

theorem step_finish {st st1 : St} {a0' : Int} {color' : Bool} {code recur : List Bool}
    (hcur : cur.length = w)
    (hc1 : Core w al rv ref cur buf st1 a0' color')
    (hcode : code ≠ [])
    (hstep : ∀ (pos : Nat) (rest : List Bool), feedFlat st pos 0 (code ++ rest) =
      afterAccept (.ok (afterFlush st1)) (pos + code.length) rest)
    (hdone : a0' = w → recur = [])
    (ih : ∀ st : St, Core w al rv ref cur buf st a0' color' → a0' < w → st.acc = .mode → st.node = modeTrie →
      LineGoal w al rv cur buf st recur) :
    LineGoal w al rv cur buf st (code ++ recur) := by
  by_cases hlt : a0' < w
  · have haf := afterFlush_mid hc1 hlt
    obtain ⟨st', hr, hne, hf⟩ := ih { st1 with acc := .mode, node := modeTrie }
      (hc1.ignore st1.n1 st1.n2 .mode modeTrie) hlt rfl rfl
    refine ⟨st', hr, by simp [hcode], ?_⟩
    intro pos rest
    rw [List.append_assoc, hstep, haf]
    simp only [afterAccept]
    rw [hf, List.length_append, Nat.add_assoc]
  · have hw : a0' = w := by have := hc1.hi; omega
    subst hw
    obtain ⟨st2, haf, hr⟩ := afterFlush_done hc1 hcur
    rw [hdone rfl, List.append_nil]
    refine ⟨st2, hr, hcode, ?_⟩
    intro pos rest
    rw [hstep, haf]
    cases al <;> simp [afterAccept, skipAfter]

theorem resolve_pass {ch : T6.Choice} {a1 b1 b2 : Nat} (h : T6.resolve ch a1 b1 b2 = .pass) : b2 < a1 := by
  by_cases hp : b2 < a1
  · exact hp
  · by_cases hv : T6.vertOk a1 b1 = true <;> cases ch <;> simp_all [T6.resolve, T6.stdMode]

theorem resolve_vert {ch : T6.Choice} {a1 b1 b2 : Nat} (h : T6.resolve ch a1 b1 b2 = .vert) :
    T6.vertOk a1 b1 = true := by
  by_cases hv : T6.vertOk a1 b1 = true
  · exact hv
  · by_cases hp : b2 < a1 <;> cases ch <;> simp [T6.resolve, T6.stdMode, hp, hv] at h

theorem encodeLineAux_done (fuel : Nat) (a0 : Int) (c : Bool) (chs : List T6.Choice)
    (h : (cur.length : Int) ≤ a0) : T6.encodeLineAux ref cur fuel a0 c chs = [] := by
  cases fuel with
  | zero => rfl
  | succ n => simp [T6.encodeLineAux, h]

/-- Decoding the code of the rest of a line completes the line. -/
theorem feed_line_aux (hcur : cur.length = w) (href : ref.length = w) :
    ∀ (fuel : Nat) (a0 : Int) (color : Bool) (chs : List T6.Choice) (st : St),
      Core w al rv ref cur buf st a0 color → a0 < w → st.acc = .mode → st.node = modeTrie →
      (w : Int) - a0 ≤ fuel →
      LineGoal w al rv cur buf st (T6.encodeLineAux ref cur fuel a0 color chs) := by
  intro fuel
  induction fuel with
  | zero => intro a0 color chs st _ hlt _ _ hf; omega
  | succ fuel ih =>
    intro a0 color chs st hc hlt hacc hnode hfuel
    have hlo := hc.lo
    have hnot : ¬ ((cur.length : Int) ≤ a0) := by omega
    simp only [T6.encodeLineAux, hnot, if_false]
    have hc0 : Core w al rv ref cur buf { st with node := .empty } a0 color := hc.ignore st.n1 st.n2 st.acc .empty
    have ha1lo : (a0 + 1).toNat ≤ T6.nextNot cur color (a0 + 1).toNat := nextNot_ge _ _ _
    cases hres : T6.resolve (chs.headD .std) (T6.nextNot cur color (a0 + 1).toNat)
        (T6.b1Of ref color (a0 + 1).toNat) (T6.b2Of ref color (T6.b1Of ref color (a0 + 1).toNat)) with
    | pass =>
      simp only []
      have hp := resolve_pass hres
      have hc1 := core_pass hc0 hlt hcur href hp
      have hb1 : (a0 + 1).toNat ≤ T6.b1Of ref color (a0 + 1).toNat := b1Of_ge _ _ _
      have hb2 : T6.b1Of ref color (a0 + 1).toNat < T6.b2Of ref color (T6.b1Of ref color (a0 + 1).toNat) := by
        have hdef : T6.b2Of ref color (T6.b1Of ref color (a0 + 1).toNat) = min ref.length
            (T6.b1Of ref color (a0 + 1).toNat + 1 +
              ((ref.drop (T6.b1Of ref color (a0 + 1).toNat + 1)).takeWhile (· == !color)).length) := rfl
        have : T6.nextNot cur color (a0 + 1).toNat ≤ cur.length := nextNot_le _ _ _ (by omega)
        omega
      apply step_finish hcur hc1 (by decide : T6.codeP ≠ [])
      · intro pos rest
        rw [feed_follow_leaf _ st pos rest (.mode .p) (by decide) (by rw [hnode]; exact mode_codes_ok.1)]
        simp only [accept, hacc, parseMode, modeAction_p]
      · intro hw; exact encodeLineAux_done _ _ _ _ (by omega)
      · intro st' hc' hlt' hacc' hnode'
        exact ih _ _ _ st' hc' hlt' hacc' hnode' (by omega)
    | vert =>
      simp only []
      have hv := resolve_vert hres
      simp only [T6.vertOk, decide_eq_true_eq] at hv
      have hc1 := core_vert hc0 hlt hcur
      obtain ⟨hne, hfl⟩ := codeV_ok (d := (T6.nextNot cur color (a0 + 1).toNat : Int) - (T6.b1Of ref color (a0 + 1).toNat : Int))
        (by omega) (by omega)
      apply step_finish hcur hc1 hne
      · intro pos rest
        rw [feed_follow_leaf _ st pos rest _ hne (by rw [hnode]; exact hfl)]
        simp only [accept, hacc, parseMode, modeAction_v]
      · intro hw; exact encodeLineAux_done _ _ _ _ (by omega)
      · intro st' hc' hlt' hacc' hnode'
        exact ih _ _ _ st' hc' hlt' hacc' hnode' (by omega)
    | horiz =>
      simp only []
      obtain ⟨stH, hsl, hcolH, hfH⟩ := feed_horiz st hacc hnode
        (T6.nextNot cur color (a0 + 1).toNat - a0.toNat)
        (T6.nextNot cur (!color) (T6.nextNot cur color (a0 + 1).toNat) - T6.nextNot cur color (a0 + 1).toNat)
      have hcH : Core w al rv ref cur buf stH a0 color := hc.transfer hsl hcolH
      have hc1 := core_horiz hcH hlt hcur
      have ha2 : T6.nextNot cur color (a0 + 1).toNat ≤
          T6.nextNot cur (!color) (T6.nextNot cur color (a0 + 1).toNat) := nextNot_ge _ _ _
      rw [hc.col] at hfH
      apply step_finish hcur hc1 (by simp [T6.codeH])
      · exact hfH
      · intro hw; exact encodeLineAux_done _ _ _ _ (by omega)
      · intro st' hc' hlt' hacc' hnode'
        exact ih _ _ _ st' hc' hlt' hacc' hnode' (by omega)

/-- A whole line. -/
theorem feed_line (hw : 1 ≤ w) (hcur : cur.length = w) (href : ref.length = w) (chs : List T6.Choice)
    {st : St} (h : Ready w al rv ref buf st) :
    LineGoal w al rv cur buf st (T6.encodeLine ref cur chs) := by
  unfold T6.encodeLine
  exact feed_line_aux hcur href _ _ _ _ st (h.core cur) (by omega) h.acc h.node (by omega)

end line

/-! ### the encoder's fuel -/

/-- Any amount of fuel ≥ the number of pixels still to be coded gives the same code: the stated fuel
`cur.length + 1` of `encodeLine` is never exhausted. -/
theorem encodeLineAux_fuel {w : Nat} {ref cur : List Bool} (hcur : cur.length = w) (href : ref.length = w) :
    ∀ (f1 f2 : Nat) (a0 : Int) (color : Bool) (chs : List T6.Choice), -1 ≤ a0 →
      (w : Int) - a0 ≤ f1 → (w : Int) - a0 ≤ f2 →
      T6.encodeLineAux ref cur f1 a0 color chs = T6.encodeLineAux ref cur f2 a0 color chs := by
  intro f1
  induction f1 with
  | zero =>
    intro f2 a0 color chs _ h1 _
    rw [encodeLineAux_done 0 a0 color chs (by omega), encodeLineAux_done f2 a0 color chs (by omega)]
  | succ f1 ih =>
    intro f2 a0 color chs hlo h1 h2
    by_cases hd : (cur.length : Int) ≤ a0
    · rw [encodeLineAux_done _ a0 color chs hd, encodeLineAux_done f2 a0 color chs hd]
    · cases f2 with
      | zero => omega
      | succ f2 =>
        simp only [T6.encodeLineAux, hd, if_false]
        have ha1lo : (a0 + 1).toNat ≤ T6.nextNot cur color (a0 + 1).toNat := nextNot_ge _ _ _
        cases hres : T6.resolve (chs.headD .std) (T6.nextNot cur color (a0 + 1).toNat)
            (T6.b1Of ref color (a0 + 1).toNat) (T6.b2Of ref color (T6.b1Of ref color (a0 + 1).toNat)) with
        | pass =>
          simp only []
          have hp := resolve_pass hres
          have hb1 : (a0 + 1).toNat ≤ T6.b1Of ref color (a0 + 1).toNat := b1Of_ge _ _ _
          have hb2 : T6.b1Of ref color (a0 + 1).toNat < T6.b2Of ref color (T6.b1Of ref color (a0 + 1).toNat) := by
            have hdef : T6.b2Of ref color (T6.b1Of ref color (a0 + 1).toNat) = min ref.length
                (T6.b1Of ref color (a0 + 1).toNat + 1 +
                  ((ref.drop (T6.b1Of ref color (a0 + 1).toNat + 1)).takeWhile (· == !color)).length) := rfl
            have : T6.nextNot cur color (a0 + 1).toNat ≤ cur.length := nextNot_le _ _ _ (by omega)
            omega
          rw [ih f2 _ color chs.tail (by omega) (by omega) (by omega)]
        | vert =>
          simp only []
          rw [ih f2 _ (!color) chs.tail (by omega) (by omega) (by omega)]
        | horiz =>
          simp only []
          have ha2 : T6.nextNot cur color (a0 + 1).toNat ≤
              T6.nextNot cur (!color) (T6.nextNot cur color (a0 + 1).toNat) := nextNot_ge _ _ _
          rw [ih f2 _ color chs.tail (by omega) (by omega) (by omega)]

/-! ### `output_line` (regenerated masks and length) packs like the specification -/

theorem outLen_nat (n : Nat) : (CcittCode.outLen (n : Int)).toNat = (n + 7) / 8 := by
  simp only [CcittCode.outLen, pyDiv]
  rw [Int.fdiv_eq_ediv_of_nonneg _ (by omega)]
  omega

theorem outByte_eq (l : List Bool) (j : Nat) : outByte l j = byteOfBits (l.drop (8 * j)) := by
  simp [outByte, byteOfBits, CcittCode.outMasks, List.range, List.range.loop, bitVal, List.getD_eq_getElem?_getD,
    List.getElem?_drop, Nat.add_assoc]

theorem byteOfBits_take (b0 b1 b2 b3 b4 b5 b6 b7 : Bool) (rest : List Bool) :
    byteOfBits (b0 :: b1 :: b2 :: b3 :: b4 :: b5 :: b6 :: b7 :: rest) = byteOfBits [b0, b1, b2, b3, b4, b5, b6, b7] := rfl

theorem range_map_packBits : ∀ l : List Bool,
    (List.range ((l.length + 7) / 8)).map (fun j => byteOfBits (l.drop (8 * j))) = packBits l := by
  intro l
  induction l using packBits.induct with
  | case1 => rfl
  | case2 b0 b1 b2 b3 b4 b5 b6 b7 rest ih =>
    have hl : ((b0 :: b1 :: b2 :: b3 :: b4 :: b5 :: b6 :: b7 :: rest).length + 7) / 8 = (rest.length + 7) / 8 + 1 := by
      simp only [List.length_cons]; omega
    rw [hl, List.range_succ_eq_map, List.map_cons, List.map_map, packBits, ← ih]
    congr 1
  | case3 l h1 h2 =>
    rcases l with _ | ⟨b0, _ | ⟨b1, _ | ⟨b2, _ | ⟨b3, _ | ⟨b4, _ | ⟨b5, _ | ⟨b6, _ | ⟨b7, rest⟩⟩⟩⟩⟩⟩⟩⟩
    · exact absurd rfl h1
    all_goals first
      | exact absurd rfl (h2 _ _ _ _ _ _ _ _ _)
      | simp [packBits, List.range, List.range.loop]

theorem packLine_eq (rv : Bool) (bits : List Bool) :
    packLine rv bits = packBits (if rv then bits.map (!·) else bits) := by
  simp only [packLine, outLen_nat]
  have hf : (List.map CcittCode.outFlip bits) = bits.map (!·) := rfl
  rw [hf, ← range_map_packBits]
  apply List.map_congr_left
  intro j _
  exact outByte_eq _ j
theorem packLine_fun (rv : Bool) : packLine rv = fun r => packBits (if rv then r.map (!·) else r) := by
  funext r; exact packLine_eq rv r

/-! ### bits and octets -/

theorem bitsOfByte_byteOfBits : ∀ b0 b1 b2 b3 b4 b5 b6 b7 : Bool,
    bitsOfByte (byteOfBits [b0, b1, b2, b3, b4, b5, b6, b7]) = [b0, b1, b2, b3, b4, b5, b6, b7] := by
  decide

/-- Reading back the bits of packed octets (whole octets only). -/
theorem unpack_pack : ∀ (n : Nat) (bits : List Bool), bits.length = 8 * n →
    (packBits bits).flatMap bitsOfByte = bits := by
  intro n
  induction n with
  | zero => intro bits h; have : bits = [] := List.eq_nil_of_length_eq_zero (by omega); subst this; rfl
  | succ n ih =>
    intro bits h
    rcases bits with _ | ⟨b0, _ | ⟨b1, _ | ⟨b2, _ | ⟨b3, _ | ⟨b4, _ | ⟨b5, _ | ⟨b6, _ | ⟨b7, rest⟩⟩⟩⟩⟩⟩⟩⟩ <;>
      simp only [List.length_cons, List.length_nil] at h <;> try omega
    simp only [packBits, List.flatMap_cons, bitsOfByte_byteOfBits]
    rw [ih rest (by omega)]
    rfl

theorem padTo8_length (bits : List Bool) : (T6.padTo8 bits).length % 8 = 0 := by
  simp only [T6.padTo8, List.length_append, List.length_replicate]; omega

/-! ### all rows -/

section image
variable {w : Nat} {al rv : Bool}

theorem feed_rows (hw : 1 ≤ w) : ∀ (rows : List (List Bool)) (chs : List (List T6.Choice)) (ref : List Bool)
    (buf : List UInt8) (st : St) (pos : Nat),
    (∀ r ∈ rows, r.length = w) → ref.length = w → Ready w al rv ref buf st → (al = true → pos % 8 = 0) →
    ∃ (st' : St) (ref' : List Bool), Ready w al rv ref' (buf ++ rows.flatMap (packLine rv)) st' ∧
      (al = true → (pos + (T6.encodeRows al ref rows chs).length) % 8 = 0) ∧
      ∀ rest : List Bool, feedFlat st pos 0 (T6.encodeRows al ref rows chs ++ rest) =
        feedFlat st' (pos + (T6.encodeRows al ref rows chs).length) 0 rest := by
  intro rows
  induction rows with
  | nil =>
    intro chs ref buf st pos _ _ hr hp
    exact ⟨st, ref, by simpa using hr, by simpa [T6.encodeRows] using hp, by intro rest; simp [T6.encodeRows]⟩
  | cons cur rows ih =>
    intro chs ref buf st pos hlen href hr hp
    have hcur : cur.length = w := hlen cur (by simp)
    obtain ⟨st1, hr1, hne, hf1⟩ := feed_line (al := al) (rv := rv) (buf := buf) hw hcur href (chs.headD []) hr
    have hpos : 1 ≤ (T6.encodeLine ref cur (chs.headD [])).length := by
      cases hc : T6.encodeLine ref cur (chs.headD []) with
      | nil => exact absurd hc hne
      | cons _ _ => simp
    simp only [T6.encodeRows]
    generalize T6.encodeLine ref cur (chs.headD []) = code at *
    cases al with
    | false =>
      obtain ⟨st', ref', hr', _, hf'⟩ := ih chs.tail cur (buf ++ packLine rv cur) st1 (pos + code.length)
        (fun r hr => hlen r (by simp [hr])) hcur hr1 (by intro h; cases h)
      refine ⟨st', ref', ?_, ?_, ?_⟩
      · simpa [List.flatMap_cons, List.append_assoc] using hr'
      · intro h; cases h
      · intro rest
        simp only [Bool.false_eq_true, if_false, List.append_assoc, List.length_append]
        rw [hf1]
        have hs0 : skipAfter false (pos + code.length) = 0 := rfl
        rw [hs0, hf', Nat.add_assoc]
    | true =>
      have hp0 := hp rfl
      have hskip : skipAfter true (pos + code.length) = (List.replicate ((8 - code.length % 8) % 8) false).length := by
        simp only [skipAfter, if_true, List.length_replicate]; omega
      obtain ⟨st', ref', hr', hal', hf'⟩ := ih chs.tail cur (buf ++ packLine rv cur) st1
        (pos + code.length + (List.replicate ((8 - code.length % 8) % 8) false).length)
        (fun r hr => hlen r (by simp [hr])) hcur hr1 (by intro _; simp only [List.length_replicate]; omega)
      refine ⟨st', ref', ?_, ?_, ?_⟩
      · simpa [List.flatMap_cons, List.append_assoc] using hr'
      · intro _
        have := hal' rfl
        simp only [if_true, T6.padTo8, List.length_append] at this ⊢
        omega
      · intro rest
        simp only [if_true, T6.padTo8, List.append_assoc, List.length_append]
        rw [hf1, hskip, feedFlat_skip, hf']
        congr 1
        omega

/-- The whole bit stream of an image, on the flat semantics. -/
theorem feed_image (hw : 1 ≤ w) (rows : List (List Bool)) (chs : List (List T6.Choice)) (eofb : Bool)
    (hlen : ∀ r ∈ rows, r.length = w) :
    ∃ st' : St, feedFlat (initSt w al rv) 0 0 (T6.encodeImageBits w rows chs al eofb) = .ok st' ∧
      st'.buf = rows.flatMap (packLine rv) := by
  have hr0 : Ready w al rv (List.replicate w true) [] (initSt w al rv) :=
    ⟨rfl, rfl, rfl, rfl, rfl, rfl, rfl, rfl, rfl, rfl⟩
  obtain ⟨st1, ref1, hr1, _, hf1⟩ := feed_rows (al := al) (rv := rv) hw rows chs (List.replicate w true) []
    (initSt w al rv) 0 hlen (by simp) hr0 (by intro _; rfl)
  simp only [T6.encodeImageBits, T6.padTo8, List.append_assoc]
  rw [hf1]
  simp only [List.nil_append] at hr1
  cases eofb with
  | true =>
    simp only [if_true]
    rw [feed_follow_leaf _ st1 _ _ (.mode .e) (by decide) (by rw [hr1.node]; exact mode_codes_ok.2.2.1)]
    simp only [accept, hr1.acc, parseMode, modeAction_e, afterAccept]
    exact ⟨_, rfl, hr1.bf⟩
  | false =>
    simp only [Bool.false_eq_true, if_false, List.nil_append]
    generalize hk : (8 - (T6.encodeRows al (List.replicate w true) rows chs ++ []).length % 8) % 8 = k
    have hk8 : k < 8 := by omega
    obtain ⟨a, c, hz⟩ := zeros_ok hk8
    have := feed_follow_node (List.replicate k false) st1 (0 + (T6.encodeRows al (List.replicate w true) rows chs).length)
      [] a c (by rw [hr1.node]; exact hz)
    rw [List.append_nil] at this
    rw [this]
    exact ⟨_, rfl, hr1.bf⟩

end image

end PdfVerif.Ccitt
