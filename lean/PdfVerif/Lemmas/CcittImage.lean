/-
C19 helper lemmas, part 5: a whole coded line, then a whole image, through the bit-level parser.
-/
import PdfVerif.Lemmas.CcittLine

namespace PdfVerif.Ccitt
open PdfVerif.Gen PdfVerif.Spec

/-- Two parser states agree on everything the line semantics reads, except the colour. -/
structure SameLine (a b : St) : Prop where
  wd : a.width = b.width
  ba : a.bytealign = b.bytealign
  rvs : a.reversed = b.reversed
  rf : a.refline = b.refline
  cl : a.curline = b.curline
  cp : a.curpos = b.curpos
  bf : a.buf = b.buf

theorem SameLine.refl (a : St) : SameLine a a := ⟨rfl, rfl, rfl, rfl, rfl, rfl, rfl⟩

theorem SameLine.trans {a b c : St} (h1 : SameLine a b) (h2 : SameLine b c) : SameLine a c :=
  ⟨h1.wd.trans h2.wd, h1.ba.trans h2.ba, h1.rvs.trans h2.rvs, h1.rf.trans h2.rf, h1.cl.trans h2.cl,
    h1.cp.trans h2.cp, h1.bf.trans h2.bf⟩

theorem addRun_sameLine (st : St) (m : Nat) : SameLine (addRun st m) st := by
  unfold addRun; split <;> exact ⟨rfl, rfl, rfl, rfl, rfl, rfl, rfl⟩

theorem addRun_n1 (st : St) (m : Nat) (h : st.acc = .horiz1) : (addRun st m).n1 = st.n1 + m ∧ (addRun st m).n2 = st.n2 := by
  simp [addRun, h]

theorem addRun_n2 (st : St) (m : Nat) (h : st.acc = .horiz2) : (addRun st m).n2 = st.n2 + m ∧ (addRun st m).n1 = st.n1 := by
  simp [addRun, h]

theorem addRun_acc (st : St) (m : Nat) : (addRun st m).acc = st.acc := by
  unfold addRun; split <;> rfl

theorem Core.transfer {w al rv ref cur buf st st' a0 color} (h : Core w al rv ref cur buf st a0 color)
    (hs : SameLine st' st) (hc : st'.color = st.color) : Core w al rv ref cur buf st' a0 color :=
  ⟨hs.wd.trans h.wd, hs.ba.trans h.ba, hs.rvs.trans h.rvs, hs.rf.trans h.rf, hs.bf.trans h.bf,
    by rw [hs.cl]; exact h.curlen, hs.cp.trans h.cp, hc.trans h.col, h.lo, h.hi,
    by intro i hi; rw [hs.cl]; exact h.pre i hi, h.at0⟩

/-- First run of a horizontal mode: `_parse_horiz1` until a terminating code. -/
theorem feed_run_first (st0 : St) (hacc : st0.acc = .horiz1) (hnode : st0.node = runTrie st0.color) (n : Nat) :
    ∃ st1 : St, SameLine st1 st0 ∧ st1.color = (!st0.color) ∧ st1.acc = .horiz2 ∧
      st1.node = runTrie (!st0.color) ∧ st1.n1 = st0.n1 + n ∧ st1.n2 = 0 ∧
      ∀ (pos : Nat) (rest : List Bool), feedFlat st0 pos 0 (T6.encodeRun st0.color n ++ rest) =
        feedFlat st1 (pos + (T6.encodeRun st0.color n).length) 0 rest := by
  obtain ⟨pre, m, t, he, ht, hs, hf⟩ := encodeRun_split st0.color n
  have hin : InRun st0 := ⟨Or.inl hacc, hnode⟩
  have hin' := addRun_inRun hin m
  have hcol := addRun_color st0 m
  have hacc' : (addRun st0 m).acc = .horiz1 := by rw [addRun_acc]; exact hacc
  obtain ⟨hne, hfl⟩ := runCode_term st0.color ht
  have hsl := addRun_sameLine st0 m
  have hn := addRun_n1 st0 m hacc
  have hf0 := hf st0 hin rfl
  generalize addRun st0 m = sa at *
  refine ⟨{ sa with n1 := sa.n1 + t, n2 := 0, color := !sa.color, acc := .horiz2, node := runTrie (!sa.color) },
    ⟨hsl.wd, hsl.ba, hsl.rvs, hsl.rf, hsl.cl, hsl.cp, hsl.bf⟩, by simp [hcol], rfl, by simp [hcol], by simp [hn.1]; omega, rfl, ?_⟩
  intro pos rest
  rw [he, List.append_assoc, hf0, feed_follow_leaf _ sa _ rest _ hne (by rw [hin'.node, hcol]; exact hfl)]
  simp only [accept, hacc', parseHoriz1, ht, if_true, afterAccept, List.length_append]
  rw [Nat.add_assoc]

/-- Second run of a horizontal mode: `_parse_horiz2` until a terminating code, then
`_do_horizontal` and `_flush_line`. -/
theorem feed_run_second (st1 : St) (hacc : st1.acc = .horiz2) (hnode : st1.node = runTrie st1.color) (n : Nat) :
    ∃ st2 : St, SameLine st2 st1 ∧ st2.color = (!st1.color) ∧ st2.n1 = st1.n1 ∧ st2.n2 = st1.n2 + n ∧
      ∀ (pos : Nat) (rest : List Bool), feedFlat st1 pos 0 (T6.encodeRun st1.color n ++ rest) =
        afterAccept (.ok (afterFlush (doHorizontal st2 st2.n1 st2.n2)))
          (pos + (T6.encodeRun st1.color n).length) rest := by
  obtain ⟨pre, m, t, he, ht, hs, hf⟩ := encodeRun_split st1.color n
  have hin : InRun st1 := ⟨Or.inr hacc, hnode⟩
  have hin' := addRun_inRun hin m
  have hcol := addRun_color st1 m
  have hacc' : (addRun st1 m).acc = .horiz2 := by rw [addRun_acc]; exact hacc
  obtain ⟨hne, hfl⟩ := runCode_term st1.color ht
  have hsl := addRun_sameLine st1 m
  have hn := addRun_n2 st1 m hacc
  have hf0 := hf st1 hin rfl
  generalize addRun st1 m = sa at *
  refine ⟨{ sa with node := .empty, n2 := sa.n2 + t, color := !sa.color, acc := .mode },
    ⟨hsl.wd, hsl.ba, hsl.rvs, hsl.rf, hsl.cl, hsl.cp, hsl.bf⟩, by simp [hcol], by simp [hn.2], by simp [hn.1]; omega, ?_⟩
  intro pos rest
  rw [he, List.append_assoc, hf0, feed_follow_leaf _ sa _ rest _ hne (by rw [hin'.node, hcol]; exact hfl)]
  simp only [accept, hacc', parseHoriz2, ht, if_true, List.length_append]
  rw [Nat.add_assoc]

/-- A complete horizontal mode: H, a0a1 in the current colour, a1a2 in the other one. -/
theorem feed_horiz (st : St) (hacc : st.acc = .mode) (hnode : st.node = modeTrie) (n1 n2 : Nat) :
    ∃ stH : St, SameLine stH st ∧ stH.color = st.color ∧
      ∀ (pos : Nat) (rest : List Bool),
        feedFlat st pos 0 ((T6.codeH ++ T6.encodeRun st.color n1 ++ T6.encodeRun (!st.color) n2) ++ rest) =
          afterAccept (.ok (afterFlush (doHorizontal stH n1 n2)))
            (pos + (T6.codeH ++ T6.encodeRun st.color n1 ++ T6.encodeRun (!st.color) n2).length) rest := by
  obtain ⟨st1, hs1, hc1, ha1, hn1, hn11, hn12, hf1⟩ := feed_run_first
    { st with node := runTrie st.color, n1 := 0, acc := .horiz1 } rfl rfl n1
  have hnode1 : st1.node = runTrie st1.color := by rw [hn1, hc1]
  obtain ⟨st2, hs2, hc2, hn21, hn22, hf2⟩ := feed_run_second st1 ha1 hnode1 n2
  refine ⟨st2, ?_, by rw [hc2, hc1]; simp, ?_⟩
  · exact (hs2.trans hs1).trans ⟨rfl, rfl, rfl, rfl, rfl, rfl, rfl⟩
  · intro pos rest
    have hH : T6.codeH ≠ [] := by decide
    rw [List.append_assoc, List.append_assoc, List.append_assoc,
      feed_follow_leaf _ st pos _ (.mode .h) hH (by rw [hnode]; exact mode_codes_ok.2.1)]
    simp only [accept, hacc, parseMode, afterAccept]
    have := hf1 (pos + T6.codeH.length) (T6.encodeRun (!st.color) n2 ++ rest)
    simp only at this
    rw [this]
    have h2 := hf2 (pos + T6.codeH.length + (T6.encodeRun st.color n1).length) rest
    rw [hc1] at h2
    simp only at h2
    rw [h2]
    have e1 : st2.n1 = n1 := by rw [hn21, hn11]; simp
    have e2 : st2.n2 = n2 := by rw [hn22, hn12]; simp
    rw [e1, e2]
    simp only [List.length_append]
    congr 1
    omega

end PdfVerif.Ccitt
