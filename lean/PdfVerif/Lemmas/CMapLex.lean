/-
C07, round 6: the object grouping of `PSStackParser.nextobject` (`groupAux`) inverts the flattening of
objects into tokens.  Property theorems are in `Props/C07.lean`.
-/
import PdfVerif.Model.CMapLex
import PdfVerif.Lemmas.CIDFontGlue

namespace PdfVerif.CIDFontLemmas
open PdfVerif PdfVerif.CIDFont PdfVerif.CIDFontSpec

/-- An object as it stands in the stream: keywords by their bytes, arrays flat. -/
inductive BTok where
  | str (b : Bytes)
  | int (n : Int)
  | name (b : Bytes)
  | real (text : Bytes)
  | kw (b : Bytes)
  | arr (xs : List AElem)

/-- The object `CMapParser` sees. -/
def BTok.toTok : BTok → Tok
  | .str b => .str b
  | .int n => .int n
  | .name b => .name b
  | .real _ => .other
  | .kw b => .kw (kwString b)
  | .arr xs => .arr xs

def flatElem : AElem → Lexer.Token
  | .str b => .str b
  | .int n => .int n
  | .other => .real []

/-- The tokens of an object. -/
def BTok.flat : BTok → List Lexer.Token
  | .str b => [.str b]
  | .int n => [.int n]
  | .name b => [.lit b]
  | .real t => [.real t]
  | .kw b => [.kwd b]
  | .arr xs => [.kwd [91]] ++ xs.map flatElem ++ [.kwd [93]]

/-- keywords that are not one of the six bracket tokens -/
def BTok.plain : BTok → Bool
  | .kw b => !(b == [91] || b == [93] || b == [60, 60] || b == [62, 62] || b == [123] || b == [125])
  | _ => true

theorem groupAux_elems : ∀ (xs : List AElem) (acc : List AElem) (rest : List Lexer.Token) (out : List Tok),
    groupAux (xs.map flatElem ++ Lexer.Token.kwd [93] :: rest) (some acc) out
      = groupAux rest none (.arr (acc.reverse ++ xs) :: out)
  | [], acc, rest, out => by simp [groupAux]
  | x :: xs, acc, rest, out => by
    cases x with
    | str b =>
      simp only [List.map_cons, List.cons_append, flatElem, groupAux]
      rw [groupAux_elems xs _ rest out]; simp
    | int n =>
      simp only [List.map_cons, List.cons_append, flatElem, groupAux]
      rw [groupAux_elems xs _ rest out]; simp
    | other =>
      simp only [List.map_cons, List.cons_append, flatElem, groupAux]
      rw [groupAux_elems xs _ rest out]; simp

theorem groupAux_flat : ∀ (bts : List BTok) (rest : List Lexer.Token) (out : List Tok),
    bts.all BTok.plain = true →
    groupAux (bts.flatMap BTok.flat ++ rest) none out = groupAux rest none ((bts.map BTok.toTok).reverse ++ out)
  | [], rest, out, _ => by simp
  | t :: bts, rest, out, h => by
    simp only [List.all_cons, Bool.and_eq_true] at h
    have ih := fun out' => groupAux_flat bts rest out' h.2
    cases t with
    | str b => simp only [List.flatMap_cons, BTok.flat, List.cons_append, List.nil_append, groupAux, ih]; simp [BTok.toTok]
    | int n => simp only [List.flatMap_cons, BTok.flat, List.cons_append, List.nil_append, groupAux, ih]; simp [BTok.toTok]
    | name b => simp only [List.flatMap_cons, BTok.flat, List.cons_append, List.nil_append, groupAux, ih]; simp [BTok.toTok]
    | real x => simp only [List.flatMap_cons, BTok.flat, List.cons_append, List.nil_append, groupAux, ih]; simp [BTok.toTok]
    | kw b =>
      have hp := h.1
      simp only [BTok.plain, Bool.not_eq_true', Bool.or_eq_false_iff, beq_eq_false_iff_ne, ne_eq] at hp
      obtain ⟨⟨⟨⟨⟨h1, h2⟩, h3⟩, h4⟩, h5⟩, h6⟩ := hp
      simp only [List.flatMap_cons, BTok.flat, List.cons_append, List.nil_append, groupAux, h1, h2, h3, h4, h5, h6,
        if_false, or_self, ih]
      simp [BTok.toTok]
    | arr xs =>
      simp only [List.flatMap_cons, BTok.flat, List.cons_append, List.nil_append, List.append_assoc, groupAux, if_true]
      rw [groupAux_elems xs [] _ out, ih]
      simp [BTok.toTok]

end PdfVerif.CIDFontLemmas
