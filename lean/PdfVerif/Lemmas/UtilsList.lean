/-
Helper lemmas for C20: the list helpers of utils.py regenerated into `Gen/Utils.lean`
(`get_bound`, `uniq`, `fsplit`).  Property theorems are in `Props/C20.lean`.
-/
import PdfVerif.Gen.Utils

namespace PdfVerif.UtilsList
open PdfVerif PdfVerif.Gen.Utils

/-! ### folds of `min` / `max` -/

theorem foldl_min_le {α : Type} (f : α → Rat) : ∀ (l : List α) (a : Rat),
    l.foldl (fun a p => min a (f p)) a ≤ a ∧ ∀ p ∈ l, l.foldl (fun a p => min a (f p)) a ≤ f p
  | [], a => ⟨Rat.le_refl, by simp⟩
  | x :: l, a => by
    have ih := foldl_min_le f l (min a (f x))
    simp only [List.foldl_cons, List.mem_cons]
    refine ⟨by grind, ?_⟩
    intro p hp
    rcases hp with rfl | hp
    · grind
    · exact ih.2 p hp

theorem foldl_min_mem {α : Type} (f : α → Rat) : ∀ (l : List α) (a : Rat),
    l.foldl (fun a p => min a (f p)) a = a ∨ ∃ p ∈ l, f p = l.foldl (fun a p => min a (f p)) a
  | [], a => Or.inl rfl
  | x :: l, a => by
    have ih := foldl_min_mem f l (min a (f x))
    simp only [List.foldl_cons, List.mem_cons]
    rcases ih with h | ⟨p, hp, h⟩
    · by_cases hx : a ≤ f x
      · left; rw [h]; grind
      · right; exact ⟨x, Or.inl rfl, by rw [h]; grind⟩
    · right; exact ⟨p, Or.inr hp, h⟩

theorem foldl_max_le {α : Type} (f : α → Rat) : ∀ (l : List α) (a : Rat),
    a ≤ l.foldl (fun a p => max a (f p)) a ∧ ∀ p ∈ l, f p ≤ l.foldl (fun a p => max a (f p)) a
  | [], a => ⟨Rat.le_refl, by simp⟩
  | x :: l, a => by
    have ih := foldl_max_le f l (max a (f x))
    simp only [List.foldl_cons, List.mem_cons]
    refine ⟨by grind, ?_⟩
    intro p hp
    rcases hp with rfl | hp
    · grind
    · exact ih.2 p hp

theorem foldl_max_mem {α : Type} (f : α → Rat) : ∀ (l : List α) (a : Rat),
    l.foldl (fun a p => max a (f p)) a = a ∨ ∃ p ∈ l, f p = l.foldl (fun a p => max a (f p)) a
  | [], a => Or.inl rfl
  | x :: l, a => by
    have ih := foldl_max_mem f l (max a (f x))
    simp only [List.foldl_cons, List.mem_cons]
    rcases ih with h | ⟨p, hp, h⟩
    · by_cases hx : f x ≤ a
      · left; rw [h]; grind
      · right; exact ⟨x, Or.inl rfl, by rw [h]; grind⟩
    · right; exact ⟨p, Or.inr hp, h⟩

/-- The loop of `get_bound` (regenerated `get_bound_step`) is four independent folds. -/
theorem foldl_get_bound_step : ∀ (pts : List Point) (acc : Rect),
    pts.foldl get_bound_step acc =
      (pts.foldl (fun a p => min a p.1) acc.1, pts.foldl (fun a p => min a p.2) acc.2.1,
       pts.foldl (fun a p => max a p.1) acc.2.2.1, pts.foldl (fun a p => max a p.2) acc.2.2.2)
  | [], acc => rfl
  | (x, y) :: pts, (a, b, c, d) => by
    simp only [List.foldl_cons]
    rw [foldl_get_bound_step pts]
    rfl

/-! ### `uniq` -/

/-- First occurrences, written as a specification. -/
def firstOcc : List Int → List Int
  | [] => []
  | x :: rest => x :: (firstOcc rest).filter (fun y => y ≠ x)

theorem uniqGo_eq : ∀ (l done : List Int),
    uniqGo done l = (firstOcc l).filter (fun y => y ∉ done)
  | [], done => rfl
  | x :: rest, done => by
    unfold uniqGo
    by_cases hx : x ∈ done
    · simp only [hx, if_true, firstOcc]
      rw [uniqGo_eq rest done, List.filter_cons]
      simp only [hx, not_true_eq_false, decide_false, Bool.false_eq_true, if_false, List.filter_filter]
      apply List.filter_congr
      intro y _
      by_cases hy : y = x
      · subst hy; simp [hx]
      · simp [hy]
    · simp only [hx, if_false, firstOcc]
      rw [uniqGo_eq rest (x :: done), List.filter_cons]
      simp only [hx, not_false_eq_true, decide_true, if_true, List.filter_filter, List.cons.injEq, true_and]
      apply List.filter_congr
      intro y _
      simp only [List.mem_cons, not_or, ne_eq]
      by_cases hy : y = x <;> by_cases hd : y ∈ done <;> simp [hy, hd]

theorem mem_firstOcc : ∀ {l : List Int} {x : Int}, x ∈ firstOcc l ↔ x ∈ l
  | [], x => by simp [firstOcc]
  | y :: rest, x => by
    simp only [firstOcc, List.mem_cons, List.mem_filter, mem_firstOcc (l := rest)]
    by_cases h : x = y <;> simp [h]

theorem nodup_firstOcc : ∀ (l : List Int), (firstOcc l).Nodup
  | [] => List.nodup_nil
  | y :: rest => by
    simp only [firstOcc, List.nodup_cons, List.mem_filter]
    exact ⟨by simp, (nodup_firstOcc rest).filter _⟩

theorem sublist_firstOcc : ∀ (l : List Int), (firstOcc l).Sublist l
  | [] => List.Sublist.slnil
  | y :: rest => by
    simp only [firstOcc]
    exact List.Sublist.cons_cons y ((List.filter_sublist).trans (sublist_firstOcc rest))

/-! ### `fsplit` -/

theorem fsplitGo_eq (pred : Int → Bool) : ∀ (l t f : List Int),
    fsplitGo pred t f l = (t ++ l.filter pred, f ++ l.filter (fun x => !pred x))
  | [], t, f => by simp [fsplitGo]
  | x :: rest, t, f => by
    unfold fsplitGo
    by_cases hx : pred x = true
    · simp [hx, fsplitGo_eq pred rest]
    · simp [hx, fsplitGo_eq pred rest]

end PdfVerif.UtilsList
