/-
Helper lemmas for C17 (numerals, text strings, number trees, label ranges).
-/
import PdfVerif.Lemmas.LabelsFinite

namespace PdfVerif.Lemmas.Labels
open PdfVerif PdfVerif.Labels PdfVerif.Gen.LabelTables PdfVerif.Lemmas.LabelsFinite

theorem docChar_spec (c : UInt8) (u : Nat) (h : Spec.Labels.pdfDoc c.toNat = some u) : docChar c = u := by
  have hc : c.toNat < 256 := c.toNat_lt
  have := all_range_lift docOk_all c.toNat hc
  unfold docOk at this
  rw [h] at this
  simpa [docChar] using this

/-! ### text strings -/

theorem units_of_exact : ∀ (s : Bytes) (us : List Nat), Spec.Labels.unitsExact s = some us → units s = us
  | [], us, h => by simp [Spec.Labels.unitsExact] at h; simp [units, h]
  | [_], us, h => by simp [Spec.Labels.unitsExact] at h
  | a :: b :: rest, us, h => by
    simp only [Spec.Labels.unitsExact, Option.map_eq_some_iff] at h
    obtain ⟨t, ht, rfl⟩ := h
    simp [units, units_of_exact rest t ht]

theorem pair_eq (h l : Nat) : Spec.Labels.surrogatePair h l = pair h l := rfl

theorem decodeAux_of_utf16Aux : ∀ (us : List Nat) (st : Option Nat) (t : Text),
    Spec.Labels.utf16Aux st us = some t → decodeAux st us = t
  | [], none, t, h => by simp [Spec.Labels.utf16Aux] at h; simp [decodeAux, h]
  | [], some _, t, h => by simp [Spec.Labels.utf16Aux] at h
  | u :: rest, none, t, h => by
    simp only [Spec.Labels.utf16Aux] at h
    simp only [decodeAux]
    split at h
    · rename_i hu
      simp only [hu, if_true]
      exact decodeAux_of_utf16Aux rest (some u) t h
    · rename_i hu
      simp only [hu]
      split at h
      · simp at h
      · rename_i hl
        simp only [Option.map_eq_some_iff] at h
        obtain ⟨t', ht', rfl⟩ := h
        simp [hl, decodeAux_of_utf16Aux rest none t' ht']
  | v :: rest, some hh, t, h => by
    simp only [Spec.Labels.utf16Aux] at h
    simp only [decodeAux]
    split at h
    · rename_i hv
      simp only [Option.map_eq_some_iff] at h
      obtain ⟨t', ht', rfl⟩ := h
      simp only [hv, if_true, pair_eq, decodeAux_of_utf16Aux rest none t' ht']
    · simp at h

theorem decodeUnits_of_utf16 (us : List Nat) (t : Text) (h : Spec.Labels.utf16 us = some t) :
    decodeUnits us = t := decodeAux_of_utf16Aux us none t h

theorem map_of_mapM_doc : ∀ (s : Bytes) (t : Text),
    s.mapM (fun c => Spec.Labels.pdfDoc c.toNat) = some t → s.map docChar = t
  | [], t, h => by simp at h; simp [h]
  | c :: cs, t, h => by
    simp only [List.mapM_cons, Option.pure_def, Option.bind_eq_bind, Option.bind_eq_some_iff] at h
    obtain ⟨u, hu, ts, hts, h⟩ := h
    simp at h
    subst h
    simp [docChar_spec c u hu, map_of_mapM_doc cs ts hts]

theorem decodeText_of_spec (s : Bytes) (t : Text) (h : Spec.Labels.text s = some t) : decodeText s = t := by
  unfold Spec.Labels.text at h
  unfold decodeText
  split at h
  · rename_i hb
    simp only [hb, if_true]
    simp only [Option.bind_eq_some_iff] at h
    obtain ⟨us, hus, hut⟩ := h
    rw [units_of_exact _ us hus]
    exact decodeUnits_of_utf16 us t hut
  · rename_i hb
    simp only [hb]
    exact map_of_mapM_doc s t h

end PdfVerif.Lemmas.Labels
