/-
C19 helper lemmas, part 7: the output of the parser model is bounded by its input — every bit
appends at most six lines (six = the longest uncompressed-mode symbol; one for the T.6 modes).
-/
import PdfVerif.Lemmas.CcittTotal
import PdfVerif.Lemmas.CcittImage

namespace PdfVerif.Ccitt
open PdfVerif.Gen

/-- bytes per output line -/
def lineBytes (w : Nat) : Nat := (w + 7) / 8

theorem packLine_length (rv : Bool) (l : List Bool) : (packLine rv l).length = lineBytes l.length := by
  cases rv <;> simp [packLine, outLen_nat, lineBytes]

/-- `st'` has the geometry of `st` and at most `k` more output lines. -/
structure Grew (k : Nat) (st st' : St) : Prop where
  wd : st'.width = st.width
  len : st'.curline.length = st'.width
  buf : st'.buf.length ≤ st.buf.length + k * lineBytes st.width

theorem Grew.trans {a b c : St} {j k : Nat} (h1 : Grew j a b) (h2 : Grew k b c) : Grew (j + k) a c := by
  refine ⟨h2.wd.trans h1.wd, h2.len, ?_⟩
  have := h2.buf
  rw [h1.wd] at this
  have := h1.buf
  rw [Nat.add_mul]
  omega

theorem Grew.mono {a b : St} {j k : Nat} (h : Grew j a b) (hjk : j ≤ k) : Grew k a b :=
  ⟨h.wd, h.len, by have := h.buf; have := Nat.mul_le_mul_right (lineBytes a.width) hjk; omega⟩

theorem flushLine_grew (st : St) (h : st.curline.length = st.width) : Grew 1 st (flushLine st).1 := by
  simp only [flushLine]
  split
  · refine ⟨rfl, by simp [resetLine], ?_⟩
    simp only [resetLine, List.length_append, packLine_length, h]
    omega
  · exact ⟨rfl, h, Nat.le_add_right _ _⟩

theorem afterFlush_grew (st : St) (h : st.curline.length = st.width) : Grew 1 st (afterFlush st).1 := by
  have := flushLine_grew st h
  simp only [afterFlush]
  generalize flushLine st = r at this
  obtain ⟨st', skip⟩ := r
  exact ⟨this.wd, this.len, this.buf⟩

theorem doVertical_geom (st : St) (d : Int) :
    (doVertical st d).width = st.width ∧ (doVertical st d).curline.length = st.curline.length ∧
    (doVertical st d).buf = st.buf := by
  refine ⟨rfl, ?_, rfl⟩
  simp only [doVertical]
  split
  · simp [fill_length]
  · split <;> simp [fill_length]

theorem doPass_geom (st : St) :
    (doPass st).width = st.width ∧ (doPass st).curline.length = st.curline.length ∧ (doPass st).buf = st.buf := by
  refine ⟨rfl, ?_, rfl⟩
  simp only [doPass, fill_length]
  split <;> simp [fill_length]

theorem doHorizontal_geom (st : St) (n1 n2 : Nat) :
    (doHorizontal st n1 n2).width = st.width ∧ (doHorizontal st n1 n2).curline.length = st.curline.length ∧
    (doHorizontal st n1 n2).buf = st.buf := by
  exact ⟨rfl, by simp [doHorizontal, fill_length], rfl⟩

theorem doUncompressed_grew : ∀ (bits : List Bool) (st : St), st.curline.length = st.width →
    Grew bits.length st (doUncompressed st bits).1 := by
  intro bits
  induction bits with
  | nil => intro st h; exact ⟨rfl, h, by simp [doUncompressed]⟩
  | cons c cs ih =>
    intro st h
    simp only [doUncompressed]
    generalize hst1 : ({ st with curline := _, curpos := CcittCode.uncStep st.curpos } : St) = st1
    have hw1 : st1.width = st.width := by rw [← hst1]
    have hl1 : st1.curline.length = st1.width := by rw [← hst1]; simp [fill_length, h]
    have hb1 : st1.buf = st.buf := by rw [← hst1]
    have hf := flushLine_grew st1 hl1
    generalize flushLine st1 = r at hf
    obtain ⟨st2, skip⟩ := r
    have hg1 : Grew 1 st st2 := ⟨hf.wd.trans hw1, hf.len, by have := hf.buf; rw [hb1, hw1] at this; exact this⟩
    cases skip
    · simp only [Bool.false_eq_true, if_false]
      have := hg1.trans (ih st2 hf.len)
      simp only [List.length_cons]
      exact this.mono (by omega)
    · simp only [if_true, List.length_cons]
      exact hg1.mono (by omega)

/-- The result of a step keeps the geometry and adds at most `k` lines. -/
def GrewR (k : Nat) (st : St) : Except Err (St × Sig) → Prop
  | .error _ => True
  | .ok (st', _) => Grew k st st'

theorem grew_fields {st st' : St} (hw : st'.width = st.width) (hl : st'.curline.length = st.curline.length)
    (hb : st'.buf = st.buf) (h : st.curline.length = st.width) : Grew 0 st st' :=
  ⟨hw, by rw [hl, h, hw], by rw [hb]; omega⟩

theorem grewR_same {st st' : St} {sg : Sig} (hw : st'.width = st.width)
    (hl : st'.curline.length = st.curline.length) (hb : st'.buf = st.buf) (h : st.curline.length = st.width) :
    GrewR 6 st (.ok (st', sg)) :=
  (grew_fields hw hl hb h).mono (by omega)

theorem afterFlush_grewR (st0 st : St) (hw : st.width = st0.width)
    (hl : st.curline.length = st0.curline.length) (hb : st.buf = st0.buf) (h : st0.curline.length = st0.width) :
    GrewR 6 st0 (.ok (afterFlush st)) := by
  have g := (grew_fields hw hl hb h).trans (afterFlush_grew st (by rw [hl, h, hw]))
  generalize afterFlush st = r at g
  obtain ⟨st', sg⟩ := r
  exact g.mono (by omega)

theorem vertical_grew (st : St) (d : Int) (h : st.curline.length = st.width) :
    GrewR 6 st (.ok (afterFlush (doVertical st d))) := by
  have g := doVertical_geom st d
  exact ((grew_fields g.1 g.2.1 g.2.2 h).trans
    (afterFlush_grew (doVertical st d) (by rw [g.2.1, h, g.1]))).mono (by omega)

theorem accept_grew (st : St) (v : Option Sym) (h : st.curline.length = st.width)
    (hv : ∀ s, v = some s → leafOk st.acc s = true) : GrewR 6 st (accept st v) := by
  unfold accept
  cases ha : st.acc with
  | mode =>
    simp only [parseMode]
    cases hact : modeAction v with
    | pass =>
      have g := doPass_geom st
      exact ((grew_fields g.1 g.2.1 g.2.2 h).trans
        (afterFlush_grew (doPass st) (by rw [g.2.1, h, g.1]))).mono (by omega)
    | horiz => exact grewR_same rfl rfl rfl h
    | unc => exact grewR_same rfl rfl rfl h
    | eofb => exact grewR_same rfl rfl rfl h
    | invalid => trivial
    | vertical =>
      cases v with
      | none => trivial
      | some s =>
        cases s with
        | run n => exact vertical_grew st _ h
        | unc u => trivial
        | mode m =>
          cases m with
          | v d => exact vertical_grew st _ h
          | h => trivial
          | p => trivial
          | u => trivial
          | e => trivial
          | x n => trivial
  | horiz1 =>
    cases v with
    | none => trivial
    | some s =>
      cases s with
      | run n =>
        simp only [parseHoriz1]
        split <;> exact grewR_same rfl rfl rfl h
      | mode m => trivial
      | unc u => trivial
  | horiz2 =>
    cases v with
    | none => trivial
    | some s =>
      cases s with
      | run n =>
        simp only [parseHoriz2]
        split
        · generalize hst1 : ({ st with n2 := st.n2 + n, color := CcittCode.horiz2Flip st.color, acc := Acc.mode } : St) = st1
          have hw1 : st1.width = st.width := by rw [← hst1]
          have hl1 : st1.curline.length = st.curline.length := by rw [← hst1]
          have hb1 : st1.buf = st.buf := by rw [← hst1]
          have g := doHorizontal_geom st1 st.n1 (st.n2 + n)
          exact afterFlush_grewR st _ (g.1.trans hw1) (g.2.1.trans hl1) (g.2.2.trans hb1) h
        · exact grewR_same rfl rfl rfl h
      | mode m => trivial
      | unc u => trivial
  | unc =>
    cases v with
    | none => trivial
    | some s =>
      have hs := hv s rfl
      rw [ha] at hs
      cases s with
      | mode m => trivial
      | run n => trivial
      | unc u =>
        simp only [leafOk, Bool.and_eq_true, decide_eq_true_eq] at hs
        simp only [parseUncompressed]
        split
        · cases hb : u.bits with
          | nil => simp only [uncSplit_nil]; trivial
          | cons c rest =>
            simp only [uncSplit_cons]
            have hlen : rest.length ≤ 6 := by have := hs.2; rw [hb] at this; simp at this; omega
            generalize hst1 : ({ st with acc := Acc.mode, color := c } : St) = st1
            have hw1 : st1.width = st.width := by rw [← hst1]
            have hl1 : st1.curline.length = st.curline.length := by rw [← hst1]
            have hb1 : st1.buf = st.buf := by rw [← hst1]
            have g := doUncompressed_grew rest st1 (by rw [hl1, h, hw1])
            generalize doUncompressed st1 rest = r at g
            obtain ⟨st', skip⟩ := r
            have : Grew rest.length st st' := ⟨g.wd.trans hw1, g.len, by have := g.buf; rw [hb1, hw1] at this; exact this⟩
            exact ⟨this.wd, this.len, (this.mono hlen).buf⟩
        · have g := doUncompressed_grew u.bits st h
          generalize doUncompressed st u.bits = r at g
          obtain ⟨st', skip⟩ := r
          cases skip
          · exact ⟨g.wd, g.len, (g.mono hs.2).buf⟩
          · exact ⟨g.wd, g.len, (g.mono hs.2).buf⟩

theorem grewR_node {k : Nat} {st : St} {t : Trie} {r : Except Err (St × Sig)}
    (h : GrewR k { st with node := t } r) : GrewR k st r := by
  cases r with
  | error e => trivial
  | ok p => obtain ⟨st', sg⟩ := p; exact ⟨h.wd, h.len, h.buf⟩

theorem stepBit_grew (st : St) (b : Bool) (hwt : WT st) (h : st.curline.length = st.width) :
    GrewR 6 st (stepBit st b) := by
  unfold stepBit
  cases hn : st.node with
  | empty => trivial
  | leaf s => trivial
  | node l r =>
    have hl := hwt.leaves
    rw [hn] at hl
    simp only [Trie.allLeaves, Bool.and_eq_true] at hl
    simp only []
    cases hc : (if b then r else l) with
    | node a c => simp only []; exact grewR_same rfl rfl rfl h
    | empty =>
      simp only []
      exact grewR_node (accept_grew { st with node := .empty } none h (by intro s hs; cases hs))
    | leaf s =>
      simp only []
      have hok : Trie.allLeaves (leafOk st.acc) (if b then r else l) = true := by
        cases b <;> simp [hl.1, hl.2]
      rw [hc] at hok
      exact grewR_node (accept_grew { st with node := .empty } (some s) h
        (by intro s' hs'; cases hs'; exact hok))

theorem feedBits_grew : ∀ (bits : List Bool) (st : St), WT st → st.curline.length = st.width →
    GrewR (6 * bits.length) st (feedBits st bits) := by
  intro bits
  induction bits with
  | nil => intro st _ h; exact ⟨rfl, h, by omega⟩
  | cons b bs ih =>
    intro st hwt h
    have hs := stepBit_ok st b hwt
    have hg := stepBit_grew st b hwt h
    cases hr : stepBit st b with
    | error e => simp only [feedBits, hr]; trivial
    | ok r =>
      obtain ⟨st', sg⟩ := r
      rw [hr] at hs hg
      have hg' : Grew 6 st st' := hg
      have hlen : 6 + 6 * bs.length ≤ 6 * (b :: bs).length := by simp only [List.length_cons]; omega
      have h6 : 6 ≤ 6 * (b :: bs).length := by simp only [List.length_cons]; omega
      cases sg with
      | cont =>
        simp only [feedBits, hr]
        have := ih st' hs hg'.len
        cases hf : feedBits st' bs with
        | error e => trivial
        | ok r2 =>
          obtain ⟨st2, sg2⟩ := r2
          rw [hf] at this
          exact (hg'.trans (this : Grew (6 * bs.length) st' st2)).mono hlen
      | byteSkip => simp only [feedBits, hr]; exact hg'.mono h6
      | eofb => simp only [feedBits, hr]; exact hg'.mono h6

/-- Output of `feedbytes`: at most 48 lines per input byte. -/
theorem feedBytes_grew : ∀ (data : List UInt8) (st st' : St), WT st → st.curline.length = st.width →
    feedBytes st data = .ok st' → Grew (48 * data.length) st st' := by
  intro data
  induction data with
  | nil =>
    intro st st' _ h hf
    simp only [feedBytes, Except.ok.injEq] at hf
    subst hf
    exact ⟨rfl, h, by omega⟩
  | cons b bs ih =>
    intro st st' hwt h hf
    have hs := feedBits_ok (bitsOfByte b) st hwt
    have hg := feedBits_grew (bitsOfByte b) st hwt h
    rw [bitsOfByte_length] at hg
    simp only [feedBytes] at hf
    cases hr : feedBits st (bitsOfByte b) with
    | error e => rw [hr] at hf; cases hf
    | ok r =>
      obtain ⟨st1, sg⟩ := r
      rw [hr] at hf hs hg
      have hg1 : Grew 48 st st1 := hg
      cases sg with
      | eofb =>
        simp only [Except.ok.injEq] at hf
        subst hf
        exact hg1.mono (by simp only [List.length_cons]; omega)
      | cont =>
        have := hg1.trans (ih st1 st' hs hg1.len hf)
        exact this.mono (by simp only [List.length_cons]; omega)
      | byteSkip =>
        have := hg1.trans (ih st1 st' hs hg1.len hf)
        exact this.mono (by simp only [List.length_cons]; omega)

end PdfVerif.Ccitt
