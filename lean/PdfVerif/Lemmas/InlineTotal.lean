/-
Round 6 — the inline-image scanner on EVERY byte string (no assumption about the payload):
what a successful scan has consumed (`scan_sound`), when the scan ends in PSEOF, and the state
of the automaton after a payload whose last byte is neither `E` nor `I`.
-/
import PdfVerif.Lemmas.Inline

namespace PdfVerif.InlineLemmas
open PdfVerif PdfVerif.Inline

/-- One step from a state ≤ 2: either the automaton goes on (state ≤ 2, invariant kept) or it was in
    state 2 (`EI` just read) and the byte is white space: it stops. -/
theorem step_inv (i : Nat) (c : UInt8) (hist : Bytes) (hi : i ≤ 2) (hinv : StateInv i hist) :
    (step EI i c ≤ 2 ∧ StateInv (step EI i c) (hist ++ [c])) ∨
    (i = 2 ∧ isSpace c = true ∧ step EI i c = 3) := by
  have h012 : i = 0 ∨ i = 1 ∨ i = 2 := by omega
  rcases h012 with rfl | rfl | rfl
  · left
    rw [step_zero]
    by_cases h : c = 69
    · subst h
      exact ⟨by decide, ⟨(fun h => absurd h (by decide)), fun _ => ⟨hist, rfl⟩⟩⟩
    · simp only [h, if_false]
      exact ⟨by decide, ⟨(fun h => absurd h (by decide)), (fun h => absurd h (by decide))⟩⟩
  · left
    rw [step_one]
    by_cases h : c = 73
    · subst h
      obtain ⟨pre, hpre⟩ := hinv.2 rfl
      exact ⟨by decide, ⟨fun _ => ⟨pre, by simp [hpre]⟩, (fun h => absurd h (by decide))⟩⟩
    · simp only [h, if_false]
      exact ⟨by decide, ⟨(fun h => absurd h (by decide)), (fun h => absurd h (by decide))⟩⟩
  · rw [step_two]
    by_cases h : isSpace c = true
    · right
      exact ⟨rfl, h, by simp [h]⟩
    · left
      simp only [h]
      exact ⟨by decide, ⟨(fun h => absurd h (by decide)), (fun h => absurd h (by decide))⟩⟩

/-- Whatever the input: when the scan succeeds it has consumed `k ≤ |input|` bytes, and these end in
    `E I <white space>` — or the input is used up and ends in `E I`. -/
theorem scan_sound : ∀ (l : Bytes) (i : Nat) (hist : Bytes) (n m : Nat) (eof : Bool), i ≤ 2 → StateInv i hist →
    scan EI i l n = some (m, eof) →
    ∃ k, m = n + k ∧ k ≤ l.length ∧
      (eof = false → ∃ pre ws, isSpace ws = true ∧ hist ++ l.take k = pre ++ [69, 73, ws]) ∧
      (eof = true → k = l.length ∧ ∃ pre, hist ++ l = pre ++ [69, 73])
  | [], i, hist, n, m, eof, hi, hinv, h => by
    simp only [scan] at h
    by_cases h2 : i = EI.length
    · rw [if_pos h2] at h
      simp only [Option.some.injEq, Prod.mk.injEq] at h
      obtain ⟨rfl, rfl⟩ := h
      refine ⟨0, rfl, by simp, by simp, fun _ => ⟨rfl, ?_⟩⟩
      simpa using hinv.1 h2
    · rw [if_neg h2] at h
      cases h
  | c :: cs, i, hist, n, m, eof, hi, hinv, h => by
    simp only [scan] at h
    rcases step_inv i c hist hi hinv with ⟨hle, hinv'⟩ | ⟨h2, hsp, h3⟩
    · rw [if_neg (by rw [EI_length]; omega)] at h
      obtain ⟨k, hk1, hk2, hk3, hk4⟩ := scan_sound cs (step EI i c) (hist ++ [c]) (n + 1) m eof hle hinv' h
      refine ⟨k + 1, by omega, by simp; omega, ?_, ?_⟩
      · intro he
        obtain ⟨pre, ws, hws, hpre⟩ := hk3 he
        exact ⟨pre, ws, hws, by simpa using hpre⟩
      · intro he
        obtain ⟨hkl, pre, hpre⟩ := hk4 he
        exact ⟨by simp [hkl], pre, by simpa using hpre⟩
    · rw [if_pos (by rw [EI_length]; omega)] at h
      simp only [Option.some.injEq, Prod.mk.injEq] at h
      obtain ⟨rfl, rfl⟩ := h
      obtain ⟨pre, hpre⟩ := hinv.1 h2
      refine ⟨1, rfl, by simp, fun _ => ⟨pre, c, hsp, by simp [hpre]⟩, by simp⟩

theorem stripEolRev_drop (r : Bytes) : ∃ k, stripEolRev r = r.drop k := by
  unfold stripEolRev
  split
  · exact ⟨2, rfl⟩
  · exact ⟨1, rfl⟩
  · exact ⟨1, rfl⟩
  · exact ⟨0, rfl⟩

/-- Stripping the end-of-line only shortens: the result is a prefix. -/
theorem stripEol_prefix (d : Bytes) : stripEol d <+: d := by
  unfold stripEol
  obtain ⟨k, hk⟩ := stripEolRev_drop d.reverse
  rw [hk]
  have : (d.reverse.drop k).reverse <+: d.reverse.reverse := by
    rw [List.reverse_prefix]
    exact List.drop_suffix k _
  simpa using this

theorem finish_prefix (L : Option Nat) (body d : Bytes) (n m : Nat) (h : finish L body n = some (d, m)) :
    d <+: body ∧ m = n := by
  unfold finish at h
  cases L with
  | none =>
    simp only [Option.some.injEq, Prod.mk.injEq] at h
    exact ⟨h.1 ▸ stripEol_prefix body, h.2.symm⟩
  | some len =>
    simp only at h
    split at h
    · simp only [Option.some.injEq, Prod.mk.injEq] at h
      exact ⟨h.1 ▸ List.take_prefix len body, h.2.symm⟩
    · simp only [Option.some.injEq, Prod.mk.injEq] at h
      exact ⟨h.1 ▸ stripEol_prefix body, h.2.symm⟩

/-- After a payload without marker whose last byte is neither `E` nor `I` (or which is empty) the automaton
    is in state 0: an `EI` that follows is recognised — with or without white space in front of it. -/
theorem run_zero_of_last (body : Bytes) (hno : NoMarker body)
    (hlast : ∀ c, body.getLast? = some c → c ≠ 69 ∧ c ≠ 73) : run 0 body = 0 := by
  rcases List.eq_nil_or_concat body with rfl | ⟨init, c, hbody⟩
  · rfl
  · rw [List.concat_eq_append] at hbody
    subst hbody
    have hc := hlast c (by simp)
    have hp := scan_prefix init 0 [] [] 0 (by decide)
      ⟨fun h => absurd h (by decide), fun h => absurd h (by decide)⟩
      (by
        intro pre post c' hc' heq
        apply hno pre (post ++ [c]) c' hc'
        simp only [List.nil_append] at heq
        rw [heq]; simp)
    obtain ⟨_, hinv, hle⟩ := hp
    rw [run_snoc]
    have h012 : run 0 init = 0 ∨ run 0 init = 1 ∨ run 0 init = 2 := by omega
    rcases h012 with h | h | h
    · rw [h, step_zero]; simp [hc.1]
    · rw [h, step_one]; simp [hc.2]
    · rw [h, step_two]
      by_cases hs : isSpace c = true
      · exfalso
        obtain ⟨pre, hpre⟩ := hinv.1 h
        simp only [List.nil_append] at hpre
        exact hno pre [] c hs (by rw [hpre]; simp)
      · simp [hs]

end PdfVerif.InlineLemmas
