/-
Helper lemmas for C13 (lenient accessors): pigeonhole for visited sets, shape of `resolve1Fuel`.
-/
import PdfVerif.Model.Lenient

namespace PdfVerif.Lenient
open PdfVerif

/-- Pigeonhole: a duplicate-free list drawn from `k` is no longer than `k`. -/
theorem nodup_subset_length {α : Type} [DecidableEq α] :
    ∀ (l k : List α), l.Nodup → (∀ x ∈ l, x ∈ k) → l.length ≤ k.length
  | [], _, _, _ => Nat.zero_le _
  | a :: l, k, hn, hs => by
    have ha : a ∈ k := hs a (List.mem_cons_self ..)
    have hn' := List.nodup_cons.mp hn
    have ih := nodup_subset_length l (k.erase a) hn'.2 (fun x hx => by
      have hxa : x ≠ a := fun h => hn'.1 (h ▸ hx)
      exact (List.mem_erase_of_ne hxa).mpr (hs x (List.mem_cons_of_mem _ hx)))
    have h1 := List.length_erase_of_mem ha
    have h2 := List.length_pos_of_mem ha
    simp only [List.length_cons]
    omega

theorem lookup_isSome_mem {β : Type} : ∀ (g : List (Nat × β)) (n : Nat),
    (g.lookup n).isSome = true → n ∈ g.map Prod.fst
  | [], n, h => by simp [List.lookup] at h
  | (k, b) :: es, n, h => by
    by_cases hk : n = k
    · subst hk; simp
    · have : (n == k) = false := by simpa using hk
      simp only [List.lookup, this] at h
      have := lookup_isSome_mem es n h
      simp [this]

theorem lookupInt_isSome_mem {β : Type} : ∀ (g : List (Int × β)) (n : Int),
    (g.lookup n).isSome = true → n ∈ g.map Prod.fst
  | [], n, h => by simp [List.lookup] at h
  | (k, b) :: es, n, h => by
    by_cases hk : n = k
    · subst hk; simp
    · have : (n == k) = false := by simpa using hk
      simp only [List.lookup, this] at h
      have := lookupInt_isSome_mem es n h
      simp [this]

/-- A duplicate-free set of object numbers that all exist in the graph is no larger than the graph. -/
theorem seen_le_graph (g : Graph) (seen : List Nat) (hn : seen.Nodup)
    (hs : ∀ n ∈ seen, (g.lookup n).isSome = true) : seen.length ≤ g.length := by
  have := nodup_subset_length seen (g.map Prod.fst) hn (fun x hx => lookup_isSome_mem g x (hs x hx))
  simpa using this

/-- The only outcomes of the resolve1 loop: a value, the STRICT-mode circular-reference error, out of fuel. -/
theorem resolve1Fuel_cases (strict : Bool) (g : Graph) : ∀ (fuel : Nat) (seen : List Nat) (x : Obj),
    (∃ v, resolve1Fuel strict g fuel seen x = .ok v) ∨
    resolve1Fuel strict g fuel seen x = .error .pdfValueError ∨
    resolve1Fuel strict g fuel seen x = .error .fuel := by
  intro fuel
  induction fuel with
  | zero =>
    intro seen x
    cases x <;> simp [resolve1Fuel]
  | succ f ih =>
    intro seen x
    cases x with
    | ref n =>
      simp only [resolve1Fuel]
      split
      · split <;> simp
      · split
        · simp
        · exact ih _ _
    | _ => simp [resolve1Fuel]

/-- With the guard in place the loop cannot use up `|g| + 1` units of fuel. -/
theorem resolve1Fuel_ne_fuel (hG : Gen.Lenient.resolve1Guard = true) (strict : Bool) (g : Graph) :
    ∀ (fuel : Nat) (seen : List Nat) (x : Obj), seen.Nodup →
      (∀ n ∈ seen, (g.lookup n).isSome = true) → g.length + 1 ≤ fuel + seen.length →
      resolve1Fuel strict g fuel seen x ≠ .error .fuel := by
  intro fuel
  induction fuel with
  | zero =>
    intro seen x hn hs hlen
    have := seen_le_graph g seen hn hs
    omega
  | succ f ih =>
    intro seen x hn hs hlen
    cases x with
    | ref n =>
      simp only [resolve1Fuel, hG, Bool.true_and]
      by_cases hc : seen.contains n = true
      · simp only [hc, if_true]
        split <;> simp
      · simp only [hc]
        cases hl : g.lookup n with
        | none => simp
        | some y =>
          try dsimp only
          have hnot : n ∉ seen := by simpa using hc
          apply ih
          · exact List.nodup_cons.mpr ⟨hnot, hn⟩
          · intro m hm
            cases List.mem_cons.mp hm with
            | inl h => subst h; simp [hl]
            | inr h => exact hs m h
          · simp only [List.length_cons]; omega
    | _ => simp [resolve1Fuel]

theorem resolve1_ne_fuel (hG : Gen.Lenient.resolve1Guard = true) (strict : Bool) (g : Graph) (x : Obj) :
    resolve1 strict g x ≠ .error .fuel := by
  unfold resolve1
  apply resolve1Fuel_ne_fuel hG
  · exact List.nodup_nil
  · intro n hn; cases hn
  · simp

theorem isFamily_pdfValueError : Err.isFamily .pdfValueError = true := by decide
theorem isFamily_pdfTypeError : Err.isFamily .pdfTypeError = true := by decide
theorem isFamily_pdfObjectNotFound : Err.isFamily .pdfObjectNotFound = true := by decide
theorem isFamily_pdfSyntaxError : Err.isFamily .pdfSyntaxError = true := by decide
theorem isFamily_pdfNoValidXRef : Err.isFamily .pdfNoValidXRef = true := by decide

/-- resolve1 yields a value or the STRICT circular-reference error. -/
theorem resolve1_ok_or_value (hG : Gen.Lenient.resolve1Guard = true) (strict : Bool) (g : Graph) (x : Obj) :
    (∃ v, resolve1 strict g x = .ok v) ∨ resolve1 strict g x = .error .pdfValueError := by
  have h := resolve1Fuel_cases strict g (g.length + 1) [] x
  have hf := resolve1_ne_fuel hG strict g x
  unfold resolve1 at hf ⊢
  rcases h with h | h | h
  · exact Or.inl h
  · exact Or.inr h
  · exact absurd h hf

end PdfVerif.Lenient

namespace PdfVerif.Lenient
open PdfVerif

/-! ### typed accessors: value or family error -/

theorem intValue_allowed (hG : Gen.Lenient.resolve1Guard = true) (strict : Bool) (g : Graph) (x : Obj) :
    Allowed (intValue strict g x) := by
  unfold intValue
  rcases resolve1_ok_or_value hG strict g x with ⟨v, hv⟩ | hv <;> rw [hv]
  · cases v <;> cases strict <;>
      simp [Allowed, bind, Except.bind, pure, Except.pure, throw, throwThe, MonadExceptOf.throw, isFamily_pdfTypeError]
  · simp [Allowed, bind, Except.bind, isFamily_pdfValueError]

theorem intValue_error_family (hG : Gen.Lenient.resolve1Guard = true) (strict : Bool) (g : Graph) (x : Obj)
    (e : Err) (h : intValue strict g x = .error e) : e.isFamily = true := by
  have := intValue_allowed hG strict g x
  rw [h] at this
  exact this

/-! ### Prev / XRefStm chain -/

/-- Invariant of the visited set: duplicate free, and every member is a position of the table. -/
def XInv (t : XrefTable) (v : List Int) : Prop :=
  v.Nodup ∧ ∀ p ∈ v, (t.lookup p).isSome = true

/-- What a (sub)walk guarantees when started in a good state with enough fuel. -/
def XGood (t : XrefTable) (f : Nat) (next : Int → List Int → Except Err (List Int × List Int)) : Prop :=
  ∀ pos visited, XInv t visited → t.length + 1 ≤ f + visited.length →
    (∀ e, next pos visited = .error e → e.isFamily = true) ∧
    (∀ l v', next pos visited = .ok (l, v') → XInv t v' ∧ visited.length ≤ v'.length)

theorem followRef_good (hG1 : Gen.Lenient.resolve1Guard = true) (strict : Bool) (g : Graph) (t : XrefTable) (f : Nat)
    (next : Int → List Int → Except Err (List Int × List Int)) (hnext : XGood t f next)
    (v : Option Obj) (visited : List Int) (hinv : XInv t visited) (hlen : t.length + 1 ≤ f + visited.length) :
    (∀ e, followRef strict g next v visited = .error e → e.isFamily = true) ∧
    (∀ l v', followRef strict g next v visited = .ok (l, v') → XInv t v' ∧ visited.length ≤ v'.length) := by
  unfold followRef
  cases v with
  | none =>
    refine ⟨(by intro e h; cases h), ?_⟩
    intro l v' h
    simp only [Except.ok.injEq, Prod.mk.injEq] at h
    obtain ⟨_, rfl⟩ := h
    exact ⟨hinv, Nat.le_refl _⟩
  | some o =>
    try dsimp only
    cases hi : intValue strict g o with
    | error e =>
      try dsimp only
      refine ⟨?_, (by intro l v' h; cases h)⟩
      intro e' h
      simp only [Except.error.injEq] at h
      subst h
      exact intValue_error_family hG1 strict g o e hi
    | ok i =>
      try dsimp only
      exact hnext (intOf i) visited hinv hlen

theorem readXrefFuel_good (hG1 : Gen.Lenient.resolve1Guard = true) (hG : Gen.Lenient.xrefChainGuard = true)
    (strict : Bool) (g : Graph) (t : XrefTable) : ∀ f, XGood t f (readXrefFuel strict g t f) := by
  intro f
  induction f with
  | zero =>
    intro pos visited hinv hlen
    have := nodup_subset_length visited (t.map Prod.fst) hinv.1
      (fun x hx => lookupInt_isSome_mem t x (hinv.2 x hx))
    simp only [List.length_map] at this
    omega
  | succ f ih =>
    intro pos visited hinv hlen
    simp only [readXrefFuel, hG, Bool.true_and]
    by_cases hc : visited.contains pos = true
    · rw [if_pos hc]
      refine ⟨(by intro e h; cases h), ?_⟩
      intro l v' h
      try simp only [Except.ok.injEq, Prod.mk.injEq] at h
      obtain ⟨_, rfl⟩ := h
      exact ⟨hinv, Nat.le_refl _⟩
    · rw [if_neg hc]
      by_cases hneg : pos < 0
      · rw [if_pos hneg]
        refine ⟨?_, (by intro l v' h; cases h)⟩
        intro e h
        try try simp only [Except.error.injEq] at h
        subst h
        exact isFamily_pdfNoValidXRef
      · rw [if_neg hneg]
        cases hl : t.lookup pos with
        | none =>
          try dsimp only
          refine ⟨?_, (by intro l v' h; cases h)⟩
          intro e h
          try try simp only [Except.error.injEq] at h
          subst h
          exact isFamily_pdfNoValidXRef
        | some sec =>
          try dsimp only
          have hnot : pos ∉ visited := by simpa using hc
          have hinv1 : XInv t (pos :: visited) := by
            refine ⟨List.nodup_cons.mpr ⟨hnot, hinv.1⟩, ?_⟩
            intro p hp
            cases List.mem_cons.mp hp with
            | inl h => subst h; simp [hl]
            | inr h => exact hinv.2 p h
          have hlen1 : t.length + 1 ≤ f + (pos :: visited).length := by
            simp only [List.length_cons]; omega
          have h1 := followRef_good hG1 strict g t f _ ih sec.xrefstm (pos :: visited) hinv1 hlen1
          cases hr1 : followRef strict g (readXrefFuel strict g t f) sec.xrefstm (pos :: visited) with
          | error e =>
            try dsimp only
            refine ⟨?_, (by intro l v' h; cases h)⟩
            intro e' h
            try try simp only [Except.error.injEq] at h
            subst h
            exact h1.1 e hr1
          | ok r1 =>
            obtain ⟨l1, v1⟩ := r1
            try dsimp only
            have hp1 := h1.2 l1 v1 hr1
            have hlen2 : t.length + 1 ≤ f + v1.length := by
              have := hp1.2
              simp only [List.length_cons] at this
              omega
            have h2 := followRef_good hG1 strict g t f _ ih sec.prev v1 hp1.1 hlen2
            cases hr2 : followRef strict g (readXrefFuel strict g t f) sec.prev v1 with
            | error e =>
              try dsimp only
              refine ⟨?_, (by intro l v' h; cases h)⟩
              intro e' h
              try try simp only [Except.error.injEq] at h
              subst h
              exact h2.1 e hr2
            | ok r2 =>
              obtain ⟨l2, v2⟩ := r2
              try dsimp only
              have hp2 := h2.2 l2 v2 hr2
              refine ⟨(by intro e h; cases h), ?_⟩
              intro l v' h
              try simp only [Except.ok.injEq, Prod.mk.injEq] at h
              obtain ⟨_, rfl⟩ := h
              refine ⟨hp2.1, ?_⟩
              have := hp1.2
              have := hp2.2
              simp only [List.length_cons] at *
              omega

end PdfVerif.Lenient
