/-
Helper lemmas for C13 (lenient accessors): pigeonhole for visited sets, shape of `resolve1Fuel`.
-/
import PdfVerif.Model.Lenient

namespace PdfVerif.Lenient
open PdfVerif

/-- Pigeonhole: a duplicate-free list drawn from `k` is no longer than `k`. -/
theorem nodup_subset_length {α : Type} [DecidableEq α] :
    ∀ (l k : List α), l.Nodup → (∀ x ∈ l, x ∈ k) → l.length ≤ k.length
  | [], _, _, _ => Nat.zero_le _
  | a :: l, k, hn, hs => by
    have ha : a ∈ k := hs a (List.mem_cons_self ..)
    have hn' := List.nodup_cons.mp hn
    have ih := nodup_subset_length l (k.erase a) hn'.2 (fun x hx => by
      have hxa : x ≠ a := fun h => hn'.1 (h ▸ hx)
      exact (List.mem_erase_of_ne hxa).mpr (hs x (List.mem_cons_of_mem _ hx)))
    have h1 := List.length_erase_of_mem ha
    have h2 := List.length_pos_of_mem ha
    simp only [List.length_cons]
    omega

theorem lookup_isSome_mem {β : Type} : ∀ (g : List (Nat × β)) (n : Nat),
    (g.lookup n).isSome = true → n ∈ g.map Prod.fst
  | [], n, h => by simp [List.lookup] at h
  | (k, b) :: es, n, h => by
    by_cases hk : n = k
    · subst hk; simp
    · have : (n == k) = false := by simpa using hk
      simp only [List.lookup, this] at h
      have := lookup_isSome_mem es n h
      simp [this]

theorem lookupInt_isSome_mem {β : Type} : ∀ (g : List (Int × β)) (n : Int),
    (g.lookup n).isSome = true → n ∈ g.map Prod.fst
  | [], n, h => by simp [List.lookup] at h
  | (k, b) :: es, n, h => by
    by_cases hk : n = k
    · subst hk; simp
    · have : (n == k) = false := by simpa using hk
      simp only [List.lookup, this] at h
      have := lookupInt_isSome_mem es n h
      simp [this]

/-- A duplicate-free set of object numbers that all exist in the graph is no larger than the graph. -/
theorem seen_le_graph (g : Graph) (seen : List Nat) (hn : seen.Nodup)
    (hs : ∀ n ∈ seen, (g.lookup n).isSome = true) : seen.length ≤ g.length := by
  have := nodup_subset_length seen (g.map Prod.fst) hn (fun x hx => lookup_isSome_mem g x (hs x hx))
  simpa using this

/-- The only outcomes of the resolve1 loop: a value, the STRICT-mode circular-reference error, out of fuel. -/
theorem resolve1Fuel_cases (strict : Bool) (g : Graph) : ∀ (fuel : Nat) (seen : List Nat) (x : Obj),
    (∃ v, resolve1Fuel strict g fuel seen x = .ok v) ∨
    resolve1Fuel strict g fuel seen x = .error .pdfValueError ∨
    resolve1Fuel strict g fuel seen x = .error .fuel := by
  intro fuel
  induction fuel with
  | zero =>
    intro seen x
    cases x <;> simp [resolve1Fuel]
  | succ f ih =>
    intro seen x
    cases x with
    | ref n =>
      simp only [resolve1Fuel]
      split
      · split <;> simp
      · split
        · simp
        · exact ih _ _
    | _ => simp [resolve1Fuel]

/-- With the guard in place the loop cannot use up `|g| + 1` units of fuel. -/
theorem resolve1Fuel_ne_fuel (hG : Gen.Lenient.resolve1Guard = true) (strict : Bool) (g : Graph) :
    ∀ (fuel : Nat) (seen : List Nat) (x : Obj), seen.Nodup →
      (∀ n ∈ seen, (g.lookup n).isSome = true) → g.length + 1 ≤ fuel + seen.length →
      resolve1Fuel strict g fuel seen x ≠ .error .fuel := by
  intro fuel
  induction fuel with
  | zero =>
    intro seen x hn hs hlen
    have := seen_le_graph g seen hn hs
    omega
  | succ f ih =>
    intro seen x hn hs hlen
    cases x with
    | ref n =>
      simp only [resolve1Fuel, hG, Bool.true_and]
      by_cases hc : seen.contains n = true
      · simp only [hc, if_true]
        split <;> simp
      · simp only [hc]
        cases hl : g.lookup n with
        | none => simp
        | some y =>
          try dsimp only
          have hnot : n ∉ seen := by simpa using hc
          apply ih
          · exact List.nodup_cons.mpr ⟨hnot, hn⟩
          · intro m hm
            cases List.mem_cons.mp hm with
            | inl h => subst h; simp [hl]
            | inr h => exact hs m h
          · simp only [List.length_cons]; omega
    | _ => simp [resolve1Fuel]

theorem resolve1_ne_fuel (hG : Gen.Lenient.resolve1Guard = true) (strict : Bool) (g : Graph) (x : Obj) :
    resolve1 strict g x ≠ .error .fuel := by
  unfold resolve1
  apply resolve1Fuel_ne_fuel hG
  · exact List.nodup_nil
  · intro n hn; cases hn
  · simp

/-- Every reference followed is a new object number; all but possibly the last exist in the graph: the loop makes at
most `distinct object numbers + 1` getobj calls, whatever the fuel. -/
theorem resolve1CallsFuel_le (hG : Gen.Lenient.resolve1Guard = true) (g : Graph) :
    ∀ (fuel : Nat) (seen : List Nat) (x : Obj), seen.Nodup → (∀ n ∈ seen, n ∈ objids g) →
      resolve1CallsFuel g fuel seen x + seen.length ≤ (objids g).length + 1 := by
  intro fuel
  induction fuel with
  | zero =>
    intro seen x hn hs
    have := nodup_subset_length seen (objids g) hn hs
    cases x <;> simp [resolve1CallsFuel] <;> omega
  | succ f ih =>
    intro seen x hn hs
    have hp := nodup_subset_length seen (objids g) hn hs
    cases x with
    | ref n =>
      simp only [resolve1CallsFuel, hG, Bool.true_and]
      by_cases hc : seen.contains n = true
      · simp only [hc, if_true]; omega
      · simp only [hc]
        cases hl : g.lookup n with
        | none => simp only [Bool.false_eq_true, if_false]; omega
        | some y =>
          simp only [Bool.false_eq_true, if_false]
          have hnot : n ∉ seen := by simpa using hc
          have hmem : n ∈ objids g := by
            unfold objids
            rw [List.mem_eraseDups]
            exact lookup_isSome_mem g n (by simp [hl])
          have := ih (n :: seen) y (List.nodup_cons.mpr ⟨hnot, hn⟩) (by
            intro m hm
            cases List.mem_cons.mp hm with
            | inl h => subst h; exact hmem
            | inr h => exact hs m h)
          simp only [List.length_cons] at this
          omega
    | _ => simp [resolve1CallsFuel]; omega

theorem isFamily_pdfValueError : Err.isFamily .pdfValueError = true := by decide
theorem isFamily_pdfTypeError : Err.isFamily .pdfTypeError = true := by decide
theorem isFamily_pdfObjectNotFound : Err.isFamily .pdfObjectNotFound = true := by decide
theorem isFamily_pdfSyntaxError : Err.isFamily .pdfSyntaxError = true := by decide
theorem isFamily_pdfNoValidXRef : Err.isFamily .pdfNoValidXRef = true := by decide

/-- resolve1 yields a value or the STRICT circular-reference error. -/
theorem resolve1_ok_or_value (hG : Gen.Lenient.resolve1Guard = true) (strict : Bool) (g : Graph) (x : Obj) :
    (∃ v, resolve1 strict g x = .ok v) ∨ resolve1 strict g x = .error .pdfValueError := by
  have h := resolve1Fuel_cases strict g (g.length + 1) [] x
  have hf := resolve1_ne_fuel hG strict g x
  unfold resolve1 at hf ⊢
  rcases h with h | h | h
  · exact Or.inl h
  · exact Or.inr h
  · exact absurd h hf

end PdfVerif.Lenient

namespace PdfVerif.Lenient
open PdfVerif

/-! ### typed accessors: value or family error -/

theorem intValue_allowed (hG : Gen.Lenient.resolve1Guard = true) (strict : Bool) (g : Graph) (x : Obj) :
    Allowed (intValue strict g x) := by
  unfold intValue
  rcases resolve1_ok_or_value hG strict g x with ⟨v, hv⟩ | hv <;> rw [hv]
  · cases v <;> cases strict <;>
      simp [Allowed, bind, Except.bind, pure, Except.pure, throw, throwThe, MonadExceptOf.throw, isFamily_pdfTypeError]
  · simp [Allowed, bind, Except.bind, isFamily_pdfValueError]

theorem intValue_error_family (hG : Gen.Lenient.resolve1Guard = true) (strict : Bool) (g : Graph) (x : Obj)
    (e : Err) (h : intValue strict g x = .error e) : e.isFamily = true := by
  have := intValue_allowed hG strict g x
  rw [h] at this
  exact this

/-! ### Prev / XRefStm chain -/

/-- Invariant of the visited set: duplicate free, and every member is a position of the table. -/
def XInv (t : XrefTable) (v : List Int) : Prop :=
  v.Nodup ∧ ∀ p ∈ v, (t.lookup p).isSome = true

/-- What a (sub)walk guarantees when started in a good state with enough fuel. -/
def XGood (t : XrefTable) (f : Nat) (next : Int → List Int → Except Err (List Int × List Int)) : Prop :=
  ∀ pos visited, XInv t visited → t.length + 1 ≤ f + visited.length →
    (∀ e, next pos visited = .error e → e.isFamily = true) ∧
    (∀ l v', next pos visited = .ok (l, v') → XInv t v' ∧ visited.length ≤ v'.length)

theorem followRef_good (hG1 : Gen.Lenient.resolve1Guard = true) (strict : Bool) (g : Graph) (t : XrefTable) (f : Nat)
    (next : Int → List Int → Except Err (List Int × List Int)) (hnext : XGood t f next)
    (v : Option Obj) (visited : List Int) (hinv : XInv t visited) (hlen : t.length + 1 ≤ f + visited.length) :
    (∀ e, followRef strict g next v visited = .error e → e.isFamily = true) ∧
    (∀ l v', followRef strict g next v visited = .ok (l, v') → XInv t v' ∧ visited.length ≤ v'.length) := by
  unfold followRef
  cases v with
  | none =>
    refine ⟨(by intro e h; cases h), ?_⟩
    intro l v' h
    simp only [Except.ok.injEq, Prod.mk.injEq] at h
    obtain ⟨_, rfl⟩ := h
    exact ⟨hinv, Nat.le_refl _⟩
  | some o =>
    try dsimp only
    cases hi : intValue strict g o with
    | error e =>
      try dsimp only
      refine ⟨?_, (by intro l v' h; cases h)⟩
      intro e' h
      simp only [Except.error.injEq] at h
      subst h
      exact intValue_error_family hG1 strict g o e hi
    | ok i =>
      try dsimp only
      exact hnext (intOf i) visited hinv hlen

theorem readXrefFuel_good (hG1 : Gen.Lenient.resolve1Guard = true) (hG : Gen.Lenient.xrefChainGuard = true)
    (strict : Bool) (g : Graph) (t : XrefTable) : ∀ f, XGood t f (readXrefFuel strict g t f) := by
  intro f
  induction f with
  | zero =>
    intro pos visited hinv hlen
    have := nodup_subset_length visited (t.map Prod.fst) hinv.1
      (fun x hx => lookupInt_isSome_mem t x (hinv.2 x hx))
    simp only [List.length_map] at this
    omega
  | succ f ih =>
    intro pos visited hinv hlen
    simp only [readXrefFuel, hG, Bool.true_and]
    by_cases hc : visited.contains pos = true
    · rw [if_pos hc]
      refine ⟨(by intro e h; cases h), ?_⟩
      intro l v' h
      try simp only [Except.ok.injEq, Prod.mk.injEq] at h
      obtain ⟨_, rfl⟩ := h
      exact ⟨hinv, Nat.le_refl _⟩
    · rw [if_neg hc]
      by_cases hneg : pos < 0
      · rw [if_pos hneg]
        refine ⟨?_, (by intro l v' h; cases h)⟩
        intro e h
        try try simp only [Except.error.injEq] at h
        subst h
        exact isFamily_pdfNoValidXRef
      · rw [if_neg hneg]
        cases hl : t.lookup pos with
        | none =>
          try dsimp only
          refine ⟨?_, (by intro l v' h; cases h)⟩
          intro e h
          try try simp only [Except.error.injEq] at h
          subst h
          exact isFamily_pdfNoValidXRef
        | some sec =>
          try dsimp only
          have hnot : pos ∉ visited := by simpa using hc
          have hinv1 : XInv t (pos :: visited) := by
            refine ⟨List.nodup_cons.mpr ⟨hnot, hinv.1⟩, ?_⟩
            intro p hp
            cases List.mem_cons.mp hp with
            | inl h => subst h; simp [hl]
            | inr h => exact hinv.2 p h
          have hlen1 : t.length + 1 ≤ f + (pos :: visited).length := by
            simp only [List.length_cons]; omega
          have h1 := followRef_good hG1 strict g t f _ ih sec.xrefstm (pos :: visited) hinv1 hlen1
          cases hr1 : followRef strict g (readXrefFuel strict g t f) sec.xrefstm (pos :: visited) with
          | error e =>
            try dsimp only
            refine ⟨?_, (by intro l v' h; cases h)⟩
            intro e' h
            try try simp only [Except.error.injEq] at h
            subst h
            exact h1.1 e hr1
          | ok r1 =>
            obtain ⟨l1, v1⟩ := r1
            try dsimp only
            have hp1 := h1.2 l1 v1 hr1
            have hlen2 : t.length + 1 ≤ f + v1.length := by
              have := hp1.2
              simp only [List.length_cons] at this
              omega
            have h2 := followRef_good hG1 strict g t f _ ih sec.prev v1 hp1.1 hlen2
            cases hr2 : followRef strict g (readXrefFuel strict g t f) sec.prev v1 with
            | error e =>
              try dsimp only
              refine ⟨?_, (by intro l v' h; cases h)⟩
              intro e' h
              try try simp only [Except.error.injEq] at h
              subst h
              exact h2.1 e hr2
            | ok r2 =>
              obtain ⟨l2, v2⟩ := r2
              try dsimp only
              have hp2 := h2.2 l2 v2 hr2
              refine ⟨(by intro e h; cases h), ?_⟩
              intro l v' h
              try simp only [Except.ok.injEq, Prod.mk.injEq] at h
              obtain ⟨_, rfl⟩ := h
              refine ⟨hp2.1, ?_⟩
              have := hp1.2
              have := hp2.2
              simp only [List.length_cons] at *
              omega

end PdfVerif.Lenient

namespace PdfVerif.Lenient
open PdfVerif

/-! ### page-tree walk -/

theorem dictValue_allowed (hG : Gen.Lenient.resolve1Guard = true) (strict : Bool) (g : Graph) (x : Obj) :
    Allowed (dictValue strict g x) := by
  unfold dictValue
  rcases resolve1_ok_or_value hG strict g x with ⟨v, hv⟩ | hv <;> rw [hv]
  · cases v <;> cases strict <;>
      simp [Allowed, bind, Except.bind, pure, Except.pure, throw, throwThe, MonadExceptOf.throw, isFamily_pdfTypeError]
  · simp [Allowed, bind, Except.bind, isFamily_pdfValueError]

theorem listValue_allowed (hG : Gen.Lenient.resolve1Guard = true) (strict : Bool) (g : Graph) (x : Obj) :
    Allowed (listValue strict g x) := by
  unfold listValue
  rcases resolve1_ok_or_value hG strict g x with ⟨v, hv⟩ | hv <;> rw [hv]
  · cases v <;> cases strict <;>
      simp [Allowed, bind, Except.bind, pure, Except.pure, throw, throwThe, MonadExceptOf.throw, isFamily_pdfTypeError]
  · simp [Allowed, bind, Except.bind, isFamily_pdfValueError]

theorem allowed_error {α : Type} {r : Except Err α} {e : Err} (h : Allowed r) (he : r = .error e) :
    e.isFamily = true := by
  rw [he] at h; exact h

/-- Number of objects of the graph whose number is not in the visited set. -/
def unvisited (g : Graph) (v : List Nat) : Nat :=
  ((g.map Prod.fst).filter (fun k => !v.contains k)).length

theorem filter_length_mono {α : Type} (p q : α → Bool) : ∀ (l : List α), (∀ x, p x = true → q x = true) →
    (l.filter p).length ≤ (l.filter q).length
  | [], _ => Nat.le_refl _
  | a :: l, h => by
    have ih := filter_length_mono p q l h
    simp only [List.filter_cons]
    cases hp : p a <;> cases hq : q a <;> simp <;> first | omega | (have := h a hp; simp [hq] at this)

theorem filter_length_strict {α : Type} (p q : α → Bool) : ∀ (l : List α), (∀ x, p x = true → q x = true) →
    (∃ a ∈ l, q a = true ∧ p a = false) → (l.filter p).length < (l.filter q).length
  | [], _, ⟨a, ha, _⟩ => by cases ha
  | b :: l, h, ⟨a, ha, hqa, hpa⟩ => by
    have hm := filter_length_mono p q l h
    simp only [List.filter_cons]
    cases List.mem_cons.mp ha with
    | inl hab =>
      subst hab
      simp [hqa, hpa]; omega
    | inr hal =>
      have ih := filter_length_strict p q l h ⟨a, hal, hqa, hpa⟩
      cases hp : p b <;> cases hq : q b <;> simp <;> first | omega | (have := h b hp; simp [hq] at this)

theorem unvisited_le (g : Graph) (v : List Nat) : unvisited g v ≤ g.length := by
  unfold unvisited
  have := List.length_filter_le (fun k => !v.contains k) (g.map Prod.fst)
  simpa using this

theorem unvisited_mono (g : Graph) (v v' : List Nat) (h : ∀ x ∈ v, x ∈ v') : unvisited g v' ≤ unvisited g v := by
  unfold unvisited
  apply filter_length_mono
  intro x hx
  simp only [Bool.not_eq_true', List.contains_eq_mem, decide_eq_false_iff_not] at hx ⊢
  exact fun hv => hx (h x hv)

theorem unvisited_strict (g : Graph) (v : List Nat) (n : Nat) (hg : (g.lookup n).isSome = true) (hn : n ∉ v) :
    unvisited g (n :: v) < unvisited g v := by
  unfold unvisited
  apply filter_length_strict
  · intro x hx
    simp only [Bool.not_eq_true', List.contains_eq_mem, decide_eq_false_iff_not, List.mem_cons, not_or] at hx ⊢
    exact hx.2
  · refine ⟨n, lookup_isSome_mem g n hg, ?_, ?_⟩
    · simpa using hn
    · simp

/-- `/Kids`, `/Type`, `/type` are not inheritable: they always come from the node's own dictionary. -/
theorem inherit_lookup (parent d : List (String × Obj)) (k : String)
    (hk : Gen.Lenient.inheritableAttrs.contains k = false) : (inherit parent d).lookup k = d.lookup k := by
  unfold inherit
  rw [List.lookup_append]
  cases hd : d.lookup k with
  | some v => simp
  | none =>
    simp only [Option.none_or]
    induction parent with
    | nil => rfl
    | cons kv rest ih =>
      simp only [List.filter_cons]
      by_cases hkv : kv.1 = k
      · have : Gen.Lenient.inheritableAttrs.contains kv.1 = false := by rw [hkv]; exact hk
        simp only [this, Bool.false_and]
        exact ih
      · split
        · obtain ⟨k', v'⟩ := kv
          have : (k == k') = false := by
            simp only [beq_eq_false_iff_ne, ne_eq]
            exact fun h => hkv h.symm
          simp only [List.lookup, this]
          exact ih
        · exact ih

/-- A reference whose dictionary is not empty points at an object of the graph. -/
theorem dictValue_ref_nonempty (strict : Bool) (g : Graph) (n : Nat) (d : List (String × Obj))
    (h : dictValue strict g (.ref n) = .ok d) (hne : d ≠ []) : (g.lookup n).isSome = true := by
  cases hl : g.lookup n with
  | some y => rfl
  | none =>
    exfalso
    unfold dictValue resolve1 at h
    simp only [resolve1Fuel, List.contains_nil, Bool.and_false, hl] at h
    cases strict <;> simp [bind, Except.bind, pure, Except.pure, throw, throwThe, MonadExceptOf.throw] at h
    exact hne h

theorem getobj_ok (g : Graph) (n : Nat) (o : Obj) (h : getobj g n = .ok o) : (g.lookup n).isSome = true := by
  unfold getobj at h
  cases hl : g.lookup n with
  | some y => rfl
  | none => simp [hl] at h

/-- The node's id (when it has one and its dictionary is not empty) names an object of the graph; errors are family. -/
theorem nodeOf_spec (hG : Gen.Lenient.resolve1Guard = true) (strict : Bool) (g : Graph) (obj : Obj) :
    (∀ e, nodeOf strict g obj = .error e → e.isFamily = true) ∧
    (∀ n d, nodeOf strict g obj = .ok (some n, d) → d ≠ [] → (g.lookup n).isSome = true) := by
  have via : ∀ m : Nat,
      (∀ e, (match getobj g m with
          | .error e => (.error e : Except Err (Option Nat × List (String × Obj)))
          | .ok o => match dictValue strict g o with
            | .error e => .error e
            | .ok d => .ok (some m, d)) = .error e → e.isFamily = true) ∧
      (∀ n d, (match getobj g m with
          | .error e => (.error e : Except Err (Option Nat × List (String × Obj)))
          | .ok o => match dictValue strict g o with
            | .error e => .error e
            | .ok d => .ok (some m, d)) = .ok (some n, d) → d ≠ [] → (g.lookup n).isSome = true) := by
    intro m
    cases hgo : getobj g m with
    | error e =>
      refine ⟨?_, (by intro n d h; cases h)⟩
      intro e' h
      simp only [Except.error.injEq] at h
      subst h
      unfold getobj at hgo
      cases hl : g.lookup m <;> simp [hl] at hgo
      subst hgo
      exact isFamily_pdfObjectNotFound
    | ok o =>
      cases hd : dictValue strict g o with
      | error e =>
        simp only [hd]
        refine ⟨?_, (by intro n d h; cases h)⟩
        intro e' h
        simp only [Except.error.injEq] at h
        subst h
        exact allowed_error (dictValue_allowed hG strict g o) hd
      | ok d =>
        simp only [hd]
        refine ⟨(by intro e h; cases h), ?_⟩
        intro n d' h _
        simp only [Except.ok.injEq, Prod.mk.injEq, Option.some.injEq] at h
        rw [← h.1]
        exact getobj_ok g m o hgo
  unfold nodeOf
  cases obj with
  | int i =>
    by_cases hi : i < 0
    · simp only [hi, if_true]
      refine ⟨?_, (by intro n d h; cases h)⟩
      intro e h
      simp only [Except.error.injEq] at h
      subst h
      exact isFamily_pdfObjectNotFound
    · simp only [hi, if_false]
      exact via i.toNat
  | bool b => exact via (if b then 1 else 0)
  | ref n =>
    simp only
    cases hd : dictValue strict g (.ref n) with
    | error e =>
      refine ⟨?_, (by intro n d h; cases h)⟩
      intro e' h
      simp only [Except.error.injEq] at h
      subst h
      exact allowed_error (dictValue_allowed hG strict g _) hd
    | ok d =>
      refine ⟨(by intro e h; cases h), ?_⟩
      intro n' d' h hne
      simp only [Except.ok.injEq, Prod.mk.injEq, Option.some.injEq] at h
      obtain ⟨h1, h2⟩ := h
      subst h1; subst h2
      exact dictValue_ref_nonempty strict g n d hd hne
  | _ =>
    simp only
    split
    · rename_i e hd
      refine ⟨?_, (by intro n d h; cases h)⟩
      intro e' h
      simp only [Except.error.injEq] at h
      subst h
      exact allowed_error (dictValue_allowed hG strict g _) hd
    · refine ⟨(by intro e h; cases h), (by intro n d h; simp at h)⟩

end PdfVerif.Lenient

namespace PdfVerif.Lenient
open PdfVerif

/-- What a (sub)walk of the page tree guarantees: only family errors, and the visited set only grows. -/
def DGood (r : Except Err (List PageNode × List Nat)) (v : List Nat) : Prop :=
  (∀ e, r = .error e → e.isFamily = true) ∧ (∀ p v', r = .ok (p, v') → ∀ x ∈ v, x ∈ v')

theorem dgood_ok (p : List PageNode) (v v' : List Nat) (h : ∀ x ∈ v, x ∈ v') :
    DGood (.ok (p, v')) v := by
  refine ⟨(by intro e he; cases he), ?_⟩
  intro p' v'' he
  simp only [Except.ok.injEq, Prod.mk.injEq] at he
  obtain ⟨_, rfl⟩ := he
  exact h

theorem dgood_error (e : Err) (v : List Nat) (h : e.isFamily = true) : DGood (.error e) v := by
  refine ⟨?_, (by intro p v' he; cases he)⟩
  intro e' he
  simp only [Except.error.injEq] at he
  subst he
  exact h

theorem dfsList_good (strict : Bool) (g : Graph) (fuel : Nat)
    (hA : ∀ obj parent v, unvisited g v + 1 ≤ fuel → DGood (dfsFuel strict g fuel obj parent v) v) :
    ∀ kids parent v, unvisited g v + 1 ≤ fuel → DGood (dfsListFuel strict g fuel kids parent v) v := by
  intro kids
  induction kids with
  | nil =>
    intro parent v _
    simp only [dfsListFuel]
    exact dgood_ok _ _ _ (fun x hx => hx)
  | cons c cs ih =>
    intro parent v hf
    simp only [dfsListFuel]
    have h1 := hA c parent v hf
    cases hr1 : dfsFuel strict g fuel c parent v with
    | error e => exact dgood_error e v (h1.1 e hr1)
    | ok r1 =>
      obtain ⟨p1, v1⟩ := r1
      have hsub := h1.2 p1 v1 hr1
      have hf1 : unvisited g v1 + 1 ≤ fuel := by
        have := unvisited_mono g v v1 hsub
        omega
      have h2 := ih parent v1 hf1
      cases hr2 : dfsListFuel strict g fuel cs parent v1 with
      | error e =>
        simp only [hr2]
        exact dgood_error e v (h2.1 e hr2)
      | ok r2 =>
        obtain ⟨p2, v2⟩ := r2
        simp only [hr2]
        exact dgood_ok _ _ _ (fun x hx => h2.2 p2 v2 hr2 x (hsub x hx))

theorem dfs_good (hG1 : Gen.Lenient.resolve1Guard = true) (hG : Gen.Lenient.pageTreeGuard = true)
    (hK : Gen.Lenient.inheritableAttrs.contains "Kids" = false)
    (strict : Bool) (g : Graph) : ∀ fuel obj parent v, unvisited g v + 1 ≤ fuel →
      DGood (dfsFuel strict g fuel obj parent v) v := by
  intro fuel
  induction fuel with
  | zero => intro obj parent v h; omega
  | succ f ih =>
    intro obj parent v hf
    simp only [dfsFuel]
    have hn := nodeOf_spec hG1 strict g obj
    cases hno : nodeOf strict g obj with
    | error e => exact dgood_error e v (hn.1 e hno)
    | ok r =>
      obtain ⟨oid, d⟩ := r
      cases oid with
      | none =>
        simp only
        split
        · exact dgood_ok _ _ _ (fun x hx => hx)
        · split
          · exact dgood_ok _ _ _ (fun x hx => hx)
          · exact dgood_ok _ _ _ (fun x hx => hx)
      | some n =>
        simp only [hG, Bool.true_and]
        by_cases hc : v.contains n = true
        · rw [if_pos hc]
          exact dgood_ok _ _ _ (fun x hx => hx)
        · rw [if_neg hc]
          have hnot : n ∉ v := by simpa using hc
          split
          · rename_i hcond
            -- the node recurses: its own dictionary has /Kids, so it is an object of the graph
            have hkids : ((inherit parent d).lookup "Kids").isSome = true := by
              simp only [Bool.and_eq_true] at hcond
              exact hcond.2
            rw [inherit_lookup parent d "Kids" hK] at hkids
            have hne : d ≠ [] := by
              intro hd; subst hd; simp [List.lookup] at hkids
            have hin := hn.2 n d hno hne
            have hdec := unvisited_strict g v n hin hnot
            cases hl : listValue strict g (((inherit parent d).lookup "Kids").getD .null) with
            | error e => exact dgood_error e v (allowed_error (listValue_allowed hG1 strict g _) hl)
            | ok kids =>
              have := dfsList_good strict g f (ih) kids (inherit parent d) (n :: v) (by omega)
              refine ⟨this.1, ?_⟩
              intro p v' he x hx
              exact this.2 p v' he x (List.mem_cons_of_mem _ hx)
          · split
            · exact dgood_ok _ _ _ (fun x hx => List.mem_cons_of_mem _ hx)
            · exact dgood_ok _ _ _ (fun x hx => List.mem_cons_of_mem _ hx)

end PdfVerif.Lenient

namespace PdfVerif.Lenient
open PdfVerif

/-! ### get_widths -/

/-- Every range entry lies inside the CID range. -/
def Clamped : List WEntry → Prop
  | [] => True
  | .run _ _ :: tl => Clamped tl
  | .range c1 c2 _ :: tl => 0 ≤ c1 ∧ c2 ≤ Gen.Lenient.maxCid ∧ Clamped tl

theorem widthStep_clamped (v : Obj) (r : List Obj) (e : WEntry) (r' : List Obj)
    (h : widthStep v r = (some e, r')) : Clamped [e] := by
  unfold widthStep at h
  split at h
  · split at h
    · simp only [Prod.mk.injEq, Option.some.injEq] at h
      rw [← h.1]; simp [Clamped]
    · simp at h
  · split at h
    · split at h
      · split at h
        · simp only [Prod.mk.injEq, Option.some.injEq] at h
          rw [← h.1]
          simp only [Clamped, and_true]
          constructor
          · exact Int.le_max_right _ _
          · exact Int.min_le_right _ _
        · simp at h
      · simp at h
    · simp at h

theorem getWidthsLoop_spec (hG : Gen.Lenient.resolve1Guard = true) (strict : Bool) (g : Graph) :
    ∀ (seq r : List Obj), Allowed (getWidthsLoop strict g seq r) ∧
      ∀ ws, getWidthsLoop strict g seq r = .ok ws → ws.length ≤ seq.length ∧ Clamped ws := by
  intro seq
  induction seq with
  | nil =>
    intro r
    simp only [getWidthsLoop]
    refine ⟨trivial, ?_⟩
    intro ws h
    simp only [Except.ok.injEq] at h
    subst h
    simp [Clamped]
  | cons v rest ih =>
    intro r
    simp only [getWidthsLoop]
    rcases resolve1_ok_or_value hG strict g v with ⟨v', hv⟩ | hv <;> rw [hv]
    · cases hstep : widthStep v' r with
      | mk oe r' =>
        cases oe with
        | none =>
          simp only [hstep]
          have := ih r'
          refine ⟨this.1, ?_⟩
          intro ws h
          have := this.2 ws h
          simp only [List.length_cons]
          exact ⟨by omega, this.2⟩
        | some e =>
          simp only [hstep]
          have hrec := ih r'
          cases hl : getWidthsLoop strict g rest r' with
          | error e' =>
            rw [hl] at hrec
            simp only [hl]
            exact ⟨hrec.1, by intro ws h; cases h⟩
          | ok tl =>
            simp only [hl]
            refine ⟨trivial, ?_⟩
            intro ws h
            simp only [Except.ok.injEq] at h
            subst h
            have := hrec.2 tl hl
            have hc := widthStep_clamped v' r e r' hstep
            simp only [List.length_cons]
            refine ⟨by omega, ?_⟩
            cases e with
            | run c ws' => simpa [Clamped] using this.2
            | range c1 c2 w =>
              simp only [Clamped, and_true] at hc
              exact ⟨hc.1, hc.2, this.2⟩
    · exact ⟨isFamily_pdfValueError, by intro ws h; cases h⟩

/-- A clamped result costs at most `MAX_CID + 1` assignments per range, plus the lengths of the run arrays. -/
theorem widthsWork_le : ∀ (ws : List WEntry), Clamped ws →
    widthsWork ws ≤ (Gen.Lenient.maxCid + 1).toNat * ws.length + runTotal ws
  | [], _ => by simp [widthsWork, runTotal]
  | .run c l :: tl, h => by
    have := widthsWork_le tl (by simpa [Clamped] using h)
    simp only [widthsWork, runTotal, List.length_cons]
    rw [Nat.mul_succ]
    omega
  | .range c1 c2 w :: tl, h => by
    simp only [Clamped] at h
    have := widthsWork_le tl h.2.2
    have h1 := h.1
    have h2 := h.2.1
    simp only [widthsWork, runTotal, List.length_cons]
    rw [Nat.mul_succ]
    have : (c2 + 1 - c1).toNat ≤ (Gen.Lenient.maxCid + 1).toNat := by omega
    omega

end PdfVerif.Lenient

namespace PdfVerif.Lenient
open PdfVerif

/-! ### resolve_all: bound on the recursion depth -/

theorem depth_le_depthList : ∀ (xs : List Obj) (x : Obj), x ∈ xs → x.depth ≤ depthList xs
  | [], _, h => by cases h
  | y :: ys, x, h => by
    simp only [depthList]
    cases List.mem_cons.mp h with
    | inl h => subst h; exact Nat.le_max_left _ _
    | inr h => exact Nat.le_trans (depth_le_depthList ys x h) (Nat.le_max_right _ _)

theorem depth_le_graphDepth : ∀ (g : Graph) (n : Nat) (y : Obj), g.lookup n = some y → y.depth ≤ graphDepth g
  | [], _, _, h => by simp [List.lookup] at h
  | (k, o) :: g, n, y, h => by
    simp only [graphDepth]
    by_cases hk : n = k
    · subst hk
      simp only [List.lookup, beq_self_eq_true, Option.some.injEq] at h
      subst h
      exact Nat.le_max_left _ _
    · have : (n == k) = false := by simpa using hk
      simp only [List.lookup, this] at h
      exact Nat.le_trans (depth_le_graphDepth g n y h) (Nat.le_max_right _ _)

/-- Depth needed from a state: every object not yet on the path may still be entered once and walked
through its whole nesting; plus what is left of the current value. -/
def raMeasure (g : Graph) (path : List Nat) (x : Obj) : Nat :=
  unvisited g path * (graphDepth g + 1) + x.depth + 1

/-- The only error `resolve_all` can end with, given enough depth fuel, is the STRICT circular-reference error. -/
def RAGood (strict : Bool) (g : Graph) (fuel : Nat) : Prop :=
  ∀ (path : List Nat) (x : Obj), raMeasure g path x ≤ fuel →
    ∀ e, resolveAllFuel strict g fuel path x = .error e → e = .pdfValueError

theorem resolveAllList_good (strict : Bool) (g : Graph) (fuel : Nat) (hA : RAGood strict g fuel)
    (path : List Nat) : ∀ (xs : List Obj), (∀ x ∈ xs, raMeasure g path x ≤ fuel) →
      ∀ e, resolveAllList strict g fuel path xs = .error e → e = .pdfValueError
  | [], _, e, h => by simp [resolveAllList] at h
  | x :: xs, hx, e, h => by
    simp only [resolveAllList, bind, Except.bind] at h
    cases h1 : resolveAllFuel strict g fuel path x with
    | error e1 =>
      simp only [h1] at h
      cases h
      exact hA path x (hx x (List.mem_cons_self ..)) e h1
    | ok y =>
      simp only [h1] at h
      cases h2 : resolveAllList strict g fuel path xs with
      | error e2 =>
        simp only [h2] at h
        cases h
        exact resolveAllList_good strict g fuel hA path xs (fun z hz => hx z (List.mem_cons_of_mem _ hz)) e h2
      | ok ys => simp [h2, pure, Except.pure] at h

theorem resolveAllKvs_good (strict : Bool) (g : Graph) (fuel : Nat) (hA : RAGood strict g fuel)
    (path : List Nat) : ∀ (kvs : List (String × Obj)), (∀ kv ∈ kvs, raMeasure g path kv.2 ≤ fuel) →
      ∀ e, resolveAllKvs strict g fuel path kvs = .error e → e = .pdfValueError
  | [], _, e, h => by simp [resolveAllKvs] at h
  | (k, x) :: xs, hx, e, h => by
    simp only [resolveAllKvs, bind, Except.bind] at h
    cases h1 : resolveAllFuel strict g fuel path x with
    | error e1 =>
      simp only [h1] at h
      cases h
      exact hA path x (hx (k, x) (List.mem_cons_self ..)) e h1
    | ok y =>
      simp only [h1] at h
      cases h2 : resolveAllKvs strict g fuel path xs with
      | error e2 =>
        simp only [h2] at h
        cases h
        exact resolveAllKvs_good strict g fuel hA path xs (fun z hz => hx z (List.mem_cons_of_mem _ hz)) e h2
      | ok ys => simp [h2, pure, Except.pure] at h

theorem depthKvs_le : ∀ (kvs : List (String × Obj)) (kv : String × Obj), kv ∈ kvs → kv.2.depth ≤ depthKvs kvs
  | [], _, h => by cases h
  | (k, y) :: ys, kv, h => by
    simp only [depthKvs]
    cases List.mem_cons.mp h with
    | inl h => subst h; exact Nat.le_max_left _ _
    | inr h => exact Nat.le_trans (depthKvs_le ys kv h) (Nat.le_max_right _ _)

theorem resolveAll_good (hG : Gen.Lenient.resolveAllGuard = true) (strict : Bool) (g : Graph) :
    ∀ fuel, RAGood strict g fuel := by
  intro fuel
  induction fuel with
  | zero =>
    intro path x hm
    unfold raMeasure at hm
    omega
  | succ f ih =>
    intro path x hm e he
    unfold raMeasure at hm
    cases x with
    | ref n =>
      simp only [resolveAllFuel, hG, Bool.true_and] at he
      by_cases hc : path.contains n = true
      · rw [if_pos hc] at he
        cases strict <;> simp at he
        exact he.symm
      · rw [if_neg hc] at he
        cases hl : g.lookup n with
        | none => simp [hl] at he
        | some y =>
          simp only [hl] at he
          have hnot : n ∉ path := by simpa using hc
          have hdec := unvisited_strict g path n (by simp [hl]) hnot
          have hd := depth_le_graphDepth g n y hl
          apply ih (n :: path) y _ e he
          unfold raMeasure
          have : (unvisited g (n :: path) + 1) * (graphDepth g + 1) ≤ unvisited g path * (graphDepth g + 1) :=
            Nat.mul_le_mul_right _ hdec
          rw [Nat.add_mul] at this
          simp only [Obj.depth] at hm
          omega
    | arr xs =>
      simp only [resolveAllFuel, bind, Except.bind] at he
      cases hl : resolveAllList strict g f path xs with
      | error e' =>
        simp only [hl] at he
        cases he
        apply resolveAllList_good strict g f ih path xs _ e hl
        intro z hz
        have := depth_le_depthList xs z hz
        unfold raMeasure
        simp only [Obj.depth] at hm
        omega
      | ok ys => simp [hl, pure, Except.pure] at he
    | dict kvs =>
      simp only [resolveAllFuel, bind, Except.bind] at he
      cases hl : resolveAllKvs strict g f path kvs with
      | error e' =>
        simp only [hl] at he
        cases he
        apply resolveAllKvs_good strict g f ih path kvs _ e hl
        intro z hz
        have := depthKvs_le kvs z hz
        unfold raMeasure
        simp only [Obj.depth] at hm
        omega
      | ok ys => simp [hl, pure, Except.pure] at he
    | _ => simp [resolveAllFuel] at he

end PdfVerif.Lenient
