/-
Lemmas about the inline-image glue (Model/InlineDict.lean): the dictionary a writer produces, with
abbreviated or full key names, is assembled as expected, tells the size of the data, selects the
`EI` end marker and yields the LTImage fields.
-/
import PdfVerif.Model.InlineDict
import PdfVerif.Lemmas.Inline
import PdfVerif.Lemmas.Bmp

namespace PdfVerif.InlineDictLemmas
open PdfVerif PdfVerif.InlineDict PdfVerif.Inline PdfVerif.InlineLemmas PdfVerif.Bmp PdfVerif.BmpLemmas
open PdfVerif.Gen.ImageGen

def bpcOf : Kind → Int
  | .gray8 => 8 | .rgb8 => 8 | .bit1 => 1

def csNameOf (abbr : Bool) : Kind → Bytes
  | .gray8 => if abbr then nG else nDeviceGray
  | .rgb8 => if abbr then nRGB else nDeviceRGB
  | .bit1 => if abbr then nG else nDeviceGray

/-- How a writer spells the four entries: each key short (`/W /H /BPC /CS`) or in full, and the
    colour space value short (`/G`, `/RGB`) or in full — every mixture is valid between BI and ID. -/
structure Spell where
  kw : Bool
  kh : Bool
  kb : Bool
  kc : Bool
  vc : Bool
  deriving DecidableEq, Repr

def Spell.keyW (s : Spell) : Bytes := if s.kw then kW else kWidth
def Spell.keyH (s : Spell) : Bytes := if s.kh then kH else kHeight
def Spell.keyB (s : Spell) : Bytes := if s.kb then kBPC else kBitsPerComponent
def Spell.keyC (s : Spell) : Bytes := if s.kc then kCS else kColorSpace

/-- The operands a writer puts between `BI` and `ID`. -/
def writerObjs (s : Spell) (k : Kind) (w h : Nat) : List Val :=
  [.name s.keyW, .int w, .name s.keyH, .int h, .name s.keyB, .int (bpcOf k), .name s.keyC, .name (csNameOf s.vc k)]

def writerDict (s : Spell) (k : Kind) (w h : Nat) : Dict :=
  [(s.keyW, .int w), (s.keyH, .int h), (s.keyB, .int (bpcOf k)), (s.keyC, .name (csNameOf s.vc k))]

theorem assemble_writer (s : Spell) (k : Kind) (w h : Nat) :
    assemble (writerObjs s k w h) = .ok (writerDict s k w h) := by
  obtain ⟨kw, kh, kb, kc, vc⟩ := s
  cases kw <;> cases kh <;> cases kb <;> cases kc <;>
    simp (config := { decide := true }) [assemble, assembleFrom, dictSet, writerObjs, writerDict, Spell.keyW, Spell.keyH,
      Spell.keyB, Spell.keyC, kW, kWidth, kH, kHeight, kBPC, kBitsPerComponent, kCS, kColorSpace]

theorem eos_writer (s : Spell) (k : Kind) (w h : Nat) : eosOf (writerDict s k w h) = .ok EI := by
  obtain ⟨kw, kh, kb, kc, vc⟩ := s
  cases kw <;> cases kh <;> cases kb <;> cases kc <;> rfl

theorem doEI_writer (s : Spell) (k : Kind) (w h : Nat) :
    doEI (writerDict s k w h) =
      some ⟨.int w, .int h, .int (bpcOf k), [some (.name (csNameOf s.vc k))], none⟩ := by
  obtain ⟨kw, kh, kb, kc, vc⟩ := s
  cases kw <;> cases kh <;> cases kb <;> cases kc <;> rfl

theorem data_size_rows (k : Kind) (w h : Nat) (n : Int) (hn : n = if k = .rgb8 then 3 else 1) :
    (image_data_size (w : Int) (h : Int) (bpcOf k) n).toNat = h * rowBytes k w := by
  have key : ∀ r : Nat, pyDiv ((w : Int) * bpcOf k * n + 7) 8 = (r : Int) → 
      (image_data_size (w : Int) (h : Int) (bpcOf k) n).toNat = h * r := by
    intro r hr
    unfold image_data_size
    rw [hr, ← Int.natCast_mul]
    exact Int.toNat_natCast _
  apply key
  subst hn
  unfold pyDiv
  rw [Int.fdiv_eq_ediv_of_nonneg _ (by omega)]
  cases k <;> simp only [bpcOf, rowBytes] <;> simp <;> omega

theorem get_writer (s : Spell) (k : Kind) (w h : Nat) :
    getAny (writerDict s k w h) sizeKeysFilter = none ∧
    getAny (writerDict s k w h) sizeKeysWidth = some (.int w) ∧
    getAny (writerDict s k w h) sizeKeysHeight = some (.int h) ∧
    getAny (writerDict s k w h) sizeKeysImageMask = none ∧
    getAny (writerDict s k w h) sizeKeysBits = some (.int (bpcOf k)) ∧
    getAny (writerDict s k w h) sizeKeysColorSpace = some (.name (csNameOf s.vc k)) := by
  obtain ⟨kw, kh, kb, kc, vc⟩ := s
  cases kw <;> cases kh <;> cases kb <;> cases kc <;> exact ⟨rfl, rfl, rfl, rfl, rfl, rfl⟩

/-- The same look-ups through the key tuples of `LTImage.__init__` / `do_EI` / `do_keyword`. -/
theorem get_writer_lt (s : Spell) (k : Kind) (w h : Nat) :
    getAny (writerDict s k w h) keysEosFilter = none ∧
    getAny (writerDict s k w h) keysWidth = some (.int w) ∧
    getAny (writerDict s k w h) keysHeight = some (.int h) ∧
    getAny (writerDict s k w h) keysImageMask = none ∧
    getAny (writerDict s k w h) keysBits = some (.int (bpcOf k)) ∧
    getAny (writerDict s k w h) keysColorSpace = some (.name (csNameOf s.vc k)) ∧
    getAny (writerDict s k w h) doEIKeysWidth = some (.int w) ∧
    getAny (writerDict s k w h) doEIKeysHeight = some (.int h) := by
  obtain ⟨kw, kh, kb, kc, vc⟩ := s
  cases kw <;> cases kh <;> cases kb <;> cases kc <;> exact ⟨rfl, rfl, rfl, rfl, rfl, rfl, rfl, rfl⟩

theorem size_writer (s : Spell) (k : Kind) (w h : Nat) (hw : 1 ≤ w) (hh : 1 ≤ h) :
    inlineSize (writerDict s k w h) = some (h * rowBytes k w) := by
  have hwp : ((w : Int) > 0) := by omega
  have hhp : ((h : Int) > 0) := by omega
  have h1 := data_size_rows .gray8 w h 1 (by decide)
  have h2 := data_size_rows .rgb8 w h 3 (by decide)
  have h3 := data_size_rows .bit1 w h 1 (by decide)
  simp only [bpcOf] at h1 h2 h3
  obtain ⟨g1, g2, g3, g4, g5, g6⟩ := get_writer s k w h
  unfold inlineSize
  rw [g1, g2, g3, g4, g5, g6]
  obtain ⟨kw, kh, kb, kc, vc⟩ := s
  cases vc <;> cases k <;>
    simp (config := { decide := true }) [csNameOf, bpcOf, posInt, isPyTrue, componentsOf, inlineComponents,
      nG, nRGB, nDeviceGray, nDeviceRGB] <;>
    rw [if_pos (by omega), if_pos (by omega)] <;> simp only [h1, h2, h3]

end PdfVerif.InlineDictLemmas
