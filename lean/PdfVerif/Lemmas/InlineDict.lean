/-
Lemmas about the inline-image glue (Model/InlineDict.lean): the dictionary a writer produces, with
abbreviated or full key names, is assembled as expected, tells the size of the data, selects the
`EI` end marker and yields the LTImage fields.
-/
import PdfVerif.Model.InlineDict
import PdfVerif.Lemmas.Inline
import PdfVerif.Lemmas.Bmp

namespace PdfVerif.InlineDictLemmas
open PdfVerif PdfVerif.InlineDict PdfVerif.Inline PdfVerif.InlineLemmas PdfVerif.Bmp PdfVerif.BmpLemmas
open PdfVerif.Gen.ImageGen

def bpcOf : Kind → Int
  | .gray8 => 8 | .rgb8 => 8 | .bit1 => 1

def csNameOf (abbr : Bool) : Kind → Bytes
  | .gray8 => if abbr then nG else nDeviceGray
  | .rgb8 => if abbr then nRGB else nDeviceRGB
  | .bit1 => if abbr then nG else nDeviceGray

/-- The operands a writer puts between `BI` and `ID` (abbreviated or full key names). -/
def writerObjs (abbr : Bool) (k : Kind) (w h : Nat) : List Val :=
  if abbr then
    [.name kW, .int w, .name kH, .int h, .name kBPC, .int (bpcOf k), .name kCS, .name (csNameOf abbr k)]
  else
    [.name kWidth, .int w, .name kHeight, .int h, .name kBitsPerComponent, .int (bpcOf k), .name kColorSpace,
     .name (csNameOf abbr k)]

def writerDict (abbr : Bool) (k : Kind) (w h : Nat) : Dict :=
  if abbr then
    [(kW, .int w), (kH, .int h), (kBPC, .int (bpcOf k)), (kCS, .name (csNameOf abbr k))]
  else
    [(kWidth, .int w), (kHeight, .int h), (kBitsPerComponent, .int (bpcOf k)), (kColorSpace, .name (csNameOf abbr k))]

theorem assemble_writer (abbr : Bool) (k : Kind) (w h : Nat) :
    assemble (writerObjs abbr k w h) = .ok (writerDict abbr k w h) := by
  cases abbr <;> cases k <;>
    simp (config := { decide := true }) [assemble, assembleFrom, dictSet, writerObjs, writerDict, kW, kWidth, kH, kHeight,
      kBPC, kBitsPerComponent, kCS, kColorSpace]

theorem eos_writer (abbr : Bool) (k : Kind) (w h : Nat) : eosOf (writerDict abbr k w h) = .ok EI := by
  cases abbr <;> cases k <;> rfl

theorem doEI_writer (abbr : Bool) (k : Kind) (w h : Nat) :
    doEI (writerDict abbr k w h) =
      some ⟨.int w, .int h, .int (bpcOf k), [some (.name (csNameOf abbr k))], none⟩ := by
  cases abbr <;> cases k <;> rfl

theorem data_size_rows (k : Kind) (w h : Nat) (n : Int) (hn : n = if k = .rgb8 then 3 else 1) :
    (image_data_size (w : Int) (h : Int) (bpcOf k) n).toNat = h * rowBytes k w := by
  have key : ∀ r : Nat, pyDiv ((w : Int) * bpcOf k * n + 7) 8 = (r : Int) → 
      (image_data_size (w : Int) (h : Int) (bpcOf k) n).toNat = h * r := by
    intro r hr
    unfold image_data_size
    rw [hr, ← Int.natCast_mul]
    exact Int.toNat_natCast _
  apply key
  subst hn
  unfold pyDiv
  rw [Int.fdiv_eq_ediv_of_nonneg _ (by omega)]
  cases k <;> simp only [bpcOf, rowBytes] <;> simp <;> omega

theorem size_writer (abbr : Bool) (k : Kind) (w h : Nat) (hw : 1 ≤ w) (hh : 1 ≤ h) :
    inlineSize (writerDict abbr k w h) = some (h * rowBytes k w) := by
  have hwp : ((w : Int) > 0) := by omega
  have hhp : ((h : Int) > 0) := by omega
  have h1 := data_size_rows .gray8 w h 1 (by decide)
  have h2 := data_size_rows .rgb8 w h 3 (by decide)
  have h3 := data_size_rows .bit1 w h 1 (by decide)
  simp only [bpcOf] at h1 h2 h3
  cases abbr <;> cases k <;>
    simp (config := { decide := true }) [inlineSize, writerDict, getAny, lookup, kF, kFilter, kW, kWidth, kH, kHeight, kBPC,
      kBitsPerComponent, kCS, kColorSpace, kIM, kImageMask, csNameOf, bpcOf, posInt, isPyTrue, componentsOf, inlineComponents,
      nG, nRGB, nDeviceGray, nDeviceRGB, hwp, hhp, h1, h2, h3] <;>
    rw [if_pos (by omega), if_pos (by omega)] <;> simp only [h1, h2, h3]

end PdfVerif.InlineDictLemmas
