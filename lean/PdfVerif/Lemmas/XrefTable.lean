/-
C02 — the classic cross-reference table: a Lean writer (`renderTable`) and the proof that
`PDFXRef.load` (model `tableLoad`) reads back exactly what it wrote, for every EOL style.
-/
import PdfVerif.Lemmas.XrefBytes

namespace PdfVerif.Xref

open PdfVerif.Gen.Xref

/-! ### Bytes: every fact about a byte class is checked on all 256 values -/

theorem u8_all (P : UInt8 → Prop) (h : ∀ n, n < 256 → P (UInt8.ofNat n)) (c : UInt8) : P c := by
  have := h c.toNat (UInt8.toNat_lt c)
  rwa [UInt8.ofNat_toNat] at this

theorem digit_facts (c : UInt8) : isDigit c = true →
    isEol c = false ∧ isPySpace c = false ∧ (c == fieldSep) = false ∧ (c == 43 || c == 45) = false ∧
    (c == 10) = false ∧ (c == 13) = false ∧ (c == 116) = false :=
  u8_all (fun c => isDigit c = true →
    isEol c = false ∧ isPySpace c = false ∧ (c == fieldSep) = false ∧ (c == 43 || c == 45) = false ∧
    (c == 10) = false ∧ (c == 13) = false ∧ (c == 116) = false) (by decide +kernel) c

theorem eol_iff (c : UInt8) : isEol c = false → (c == 10) = false ∧ (c == 13) = false :=
  u8_all (fun c => isEol c = false → (c == 10) = false ∧ (c == 13) = false) (by decide +kernel) c

/-! ### Decimal numbers -/

theorem length_renderDec (w n : Nat) : (renderDec w n).length = w := by
  induction w generalizing n with
  | zero => rfl
  | succ w ih => simp [renderDec, ih]

theorem digit_ofNat (d : Nat) (h : d < 10) : isDigit (UInt8.ofNat (48 + d)) = true ∧ (UInt8.ofNat (48 + d)).toNat = 48 + d := by
  have : ∀ d, d < 10 → isDigit (UInt8.ofNat (48 + d)) = true ∧ (UInt8.ofNat (48 + d)).toNat = 48 + d := by decide
  exact this d h

theorem renderDec_digits (w n : Nat) : ∀ b ∈ renderDec w n, isDigit b = true := by
  induction w generalizing n with
  | zero => intro b hb; cases hb
  | succ w ih =>
    intro b hb
    simp only [renderDec, List.mem_append, List.mem_singleton] at hb
    rcases hb with hb | hb
    · exact ih _ b hb
    · rw [hb]; exact (digit_ofNat _ (Nat.mod_lt _ (by decide))).1

theorem decNat_snoc (a : Bytes) (b : UInt8) : decNat (a ++ [b]) = decNat a * 10 + (b.toNat - 48) := by
  simp [decNat, List.foldl_append]

theorem decNat_renderDec (w n : Nat) (h : n < 10 ^ w) : decNat (renderDec w n) = n := by
  induction w generalizing n with
  | zero =>
    have : n = 0 := by simpa using h
    simp [renderDec, decNat, this]
  | succ w ih =>
    have hdiv : n / 10 < 10 ^ w := by
      rw [Nat.pow_succ] at h
      exact Nat.div_lt_of_lt_mul (by rw [Nat.mul_comm]; exact h)
    simp only [renderDec, decNat_snoc, ih _ hdiv, (digit_ofNat _ (Nat.mod_lt n (by decide))).2]
    omega

theorem all_of_forall {l : Bytes} {p : UInt8 → Bool} (h : ∀ b ∈ l, p b = true) : l.all p = true := by
  rw [List.all_eq_true]; exact h

theorem parseInt_digits (s : Bytes) (hne : s ≠ []) (hd : ∀ b ∈ s, isDigit b = true) :
    parseInt s = some (decNat s : Int) := by
  cases s with
  | nil => exact absurd rfl hne
  | cons c rest =>
    have hc := (digit_facts c (hd c List.mem_cons_self)).2.2.2.1
    simp only [parseInt, hc, Bool.false_eq_true, ↓reduceIte, all_of_forall hd]

theorem parseInt_renderDec (w n : Nat) (hw : 0 < w) (h : n < 10 ^ w) : parseInt (renderDec w n) = some (n : Int) := by
  have hne : renderDec w n ≠ [] := by
    intro h0
    have := length_renderDec w n
    rw [h0] at this
    simp at this
    omega
  rw [parseInt_digits _ hne (renderDec_digits w n), decNat_renderDec w n h]

/-! ### Lines, `strip`, `split` -/

theorem takeLine_lf (body rest : Bytes) (hb : noEol body) :
    takeLine (body ++ 10 :: rest) = some (body ++ [10], body.length + 1) := by
  induction body with
  | nil => simp [takeLine]
  | cons x body ih =>
    have hx := eol_iff x (hb x List.mem_cons_self)
    have hr : noEol body := fun b hb' => hb b (List.mem_cons_of_mem _ hb')
    simp [takeLine, hx.1, hx.2, ih hr]

theorem takeLine_crlf (body rest : Bytes) (hb : noEol body) :
    takeLine (body ++ 13 :: 10 :: rest) = some (body ++ [13, 10], body.length + 2) := by
  induction body with
  | nil => simp [takeLine]
  | cons x body ih =>
    have hx := eol_iff x (hb x List.mem_cons_self)
    have hr : noEol body := fun b hb' => hb b (List.mem_cons_of_mem _ hb')
    simp [takeLine, hx.1, hx.2, ih hr]

theorem takeLine_cr (body : Bytes) (c : UInt8) (rest : Bytes) (hb : noEol body) (hc : (c == 10) = false) :
    takeLine (body ++ 13 :: c :: rest) = some (body ++ [13], body.length + 1) := by
  induction body with
  | nil => simp [takeLine, hc]
  | cons x body ih =>
    have hx := eol_iff x (hb x List.mem_cons_self)
    have hr : noEol body := fun b hb' => hb b (List.mem_cons_of_mem _ hb')
    simp [takeLine, hx.1, hx.2, ih hr]

theorem dropWhile_append_all {p : UInt8 → Bool} (x y : Bytes) (h : ∀ b ∈ x, p b = true) :
    (x ++ y).dropWhile p = y.dropWhile p := by
  induction x with
  | nil => rfl
  | cons a x ih =>
    have ha := h a List.mem_cons_self
    simp [List.dropWhile, ha, ih (fun b hb => h b (List.mem_cons_of_mem _ hb))]

/-- `strip` removes a white-space tail (and nothing else) from a string whose first and last
bytes are not white space. -/
theorem strip_core (c0 : UInt8) (cs init : Bytes) (last : UInt8) (ws : Bytes)
    (hshape : c0 :: cs = init ++ [last]) (h0 : isPySpace c0 = false) (hl : isPySpace last = false)
    (hws : ∀ b ∈ ws, isPySpace b = true) : strip (c0 :: cs ++ ws) = c0 :: cs := by
  unfold strip
  have h1 : (c0 :: cs ++ ws).dropWhile isPySpace = c0 :: cs ++ ws := by
    simp [List.dropWhile, h0]
  rw [h1, hshape]
  have h2 : (init ++ [last] ++ ws).reverse = ws.reverse ++ (last :: init.reverse) := by simp
  rw [h2, dropWhile_append_all _ _ (fun b hb => hws b (List.mem_reverse.mp hb))]
  simp [List.dropWhile, hl]

theorem splitSp_ne_nil (s : Bytes) : splitSp s ≠ [] := by
  induction s with
  | nil => simp [splitSp]
  | cons b rest ih =>
    simp only [splitSp]
    cases h : splitSp rest with
    | nil => simp
    | cons x t => by_cases hb : (b == fieldSep) = true <;> simp [hb]

theorem splitSp_noSep (a : Bytes) (h : ∀ b ∈ a, (b == fieldSep) = false) : splitSp a = [a] := by
  induction a with
  | nil => rfl
  | cons x a ih =>
    have hx := h x List.mem_cons_self
    simp [splitSp, ih (fun b hb => h b (List.mem_cons_of_mem _ hb)), hx]

theorem splitSp_sep (a rest : Bytes) (h : ∀ b ∈ a, (b == fieldSep) = false) :
    splitSp (a ++ fieldSep :: rest) = a :: splitSp rest := by
  induction a with
  | nil =>
    simp only [List.nil_append, splitSp]
    cases hr : splitSp rest with
    | nil => exact absurd hr (splitSp_ne_nil rest)
    | cons x t => simp
  | cons x a ih =>
    have hx := h x List.mem_cons_self
    simp [splitSp, ih (fun b hb => h b (List.mem_cons_of_mem _ hb)), hx]

/-! ### The writer -/

def EntryFits (e : TEntry) : Prop := e.pos < 10 ^ 10 ∧ e.gen < 10 ^ 5

def SubFits (sb : Sub) : Prop :=
  0 < sb.ws ∧ 0 < sb.wc ∧ sb.start < 10 ^ sb.ws ∧ sb.entries.length < 10 ^ sb.wc ∧ ∀ e ∈ sb.entries, EntryFits e

/-- The byte that follows is not a line feed (so a lone CR before it ends the line there). -/
def StartsNonLF (l : Bytes) : Prop := ∃ c t, l = c :: t ∧ (c == 10) = false

theorem renderDec_succ_shape (w n : Nat) : ∃ c cs, renderDec (w + 1) n = c :: cs ∧ isDigit c = true := by
  cases h : renderDec (w + 1) n with
  | nil =>
    have := length_renderDec (w + 1) n
    rw [h] at this; simp at this
  | cons c cs =>
    refine ⟨c, cs, rfl, ?_⟩
    have := renderDec_digits (w + 1) n c
    rw [h] at this
    exact this List.mem_cons_self

theorem startsNonLF_renderDec (w n : Nat) (hw : 0 < w) (x : Bytes) : StartsNonLF (renderDec w n ++ x) := by
  obtain ⟨w', rfl⟩ : ∃ w', w = w' + 1 := ⟨w - 1, by omega⟩
  obtain ⟨c, cs, hc, hd⟩ := renderDec_succ_shape w' n
  exact ⟨c, cs ++ x, by rw [hc]; rfl, (digit_facts c hd).2.2.2.2.1⟩

theorem useByte_facts (e : TEntry) : isPySpace (useByte e) = false ∧ (useByte e == fieldSep) = false ∧
    isEol (useByte e) = false := by
  unfold useByte; cases e.inuse <;> decide

theorem sep_facts : isEol fieldSep = false ∧ isPySpace fieldSep = true := by decide

theorem noEol_digits {l : Bytes} (h : ∀ b ∈ l, isDigit b = true) : noEol l :=
  fun b hb => (digit_facts b (h b hb)).1

theorem noEol_cons {b : UInt8} {l : Bytes} (hb : isEol b = false) (hl : noEol l) : noEol (b :: l) := by
  intro x hx
  rcases List.mem_cons.mp hx with h | h
  · rw [h]; exact hb
  · exact hl x h

theorem noEol_entryCore (e : TEntry) : noEol (entryCore e) := by
  unfold entryCore
  apply noEol_append (noEol_digits (renderDec_digits _ _))
  apply noEol_cons sep_facts.1
  apply noEol_append (noEol_digits (renderDec_digits _ _))
  apply noEol_cons sep_facts.1
  exact noEol_cons (useByte_facts e).2.2 noEol_nil

theorem length_entryCore (e : TEntry) : (entryCore e).length = 18 := by
  simp [entryCore, length_renderDec]

/-- `nextline()` on an entry line returns the 20 bytes of the entry. -/
theorem takeLine_entry (ee : EntEol) (e : TEntry) (rest : Bytes) (hr : StartsNonLF rest) :
    takeLine (renderEntry ee e ++ rest) = some (renderEntry ee e, 20) := by
  obtain ⟨c, t, hrest, hc⟩ := hr
  have hne := noEol_entryCore e
  have hlen := length_entryCore e
  cases ee with
  | spLf =>
    have h1 : renderEntry .spLf e ++ rest = (entryCore e ++ [32]) ++ 10 :: rest := by
      simp [renderEntry, EntEol.bytes]
    have hb : noEol (entryCore e ++ [32]) := noEol_append hne (noEol_cons (by decide) noEol_nil)
    rw [h1, takeLine_lf _ _ hb]
    simp [renderEntry, EntEol.bytes, hlen]
  | crLf =>
    have h1 : renderEntry .crLf e ++ rest = entryCore e ++ 13 :: 10 :: rest := by
      simp [renderEntry, EntEol.bytes]
    rw [h1, takeLine_crlf _ _ hne]
    simp [renderEntry, EntEol.bytes, hlen]
  | spCr =>
    have h1 : renderEntry .spCr e ++ rest = (entryCore e ++ [32]) ++ 13 :: c :: t := by
      simp [renderEntry, EntEol.bytes, hrest]
    have hb : noEol (entryCore e ++ [32]) := noEol_append hne (noEol_cons (by decide) noEol_nil)
    rw [h1, takeLine_cr _ _ _ hb hc]
    simp [renderEntry, EntEol.bytes, hlen]

theorem entEol_space (ee : EntEol) : ∀ b ∈ ee.bytes, isPySpace b = true := by
  cases ee <;> decide

/-- `line.strip()` of an entry line is `nnnnnnnnnn ggggg n`. -/
theorem strip_entry (ee : EntEol) (e : TEntry) : strip (renderEntry ee e) = entryCore e := by
  obtain ⟨c, cs, hc, hd⟩ := renderDec_succ_shape 9 e.pos
  have hshape : entryCore e = c :: (cs ++ fieldSep :: (renderDec 5 e.gen ++ [fieldSep, useByte e])) := by
    simp [entryCore, hc]
  have hlast : c :: (cs ++ fieldSep :: (renderDec 5 e.gen ++ [fieldSep, useByte e])) =
      (c :: (cs ++ fieldSep :: (renderDec 5 e.gen ++ [fieldSep]))) ++ [useByte e] := by simp
  unfold renderEntry
  rw [hshape]
  exact strip_core c _ _ (useByte e) ee.bytes hlast (digit_facts c hd).2.1 (useByte_facts e).1 (entEol_space ee)

theorem digits_noSep {l : Bytes} (h : ∀ b ∈ l, isDigit b = true) : ∀ b ∈ l, (b == fieldSep) = false :=
  fun b hb => (digit_facts b (h b hb)).2.2.1

theorem splitSp_entryCore (e : TEntry) :
    splitSp (entryCore e) = [renderDec 10 e.pos, renderDec 5 e.gen, [useByte e]] := by
  unfold entryCore
  rw [splitSp_sep _ _ (digits_noSep (renderDec_digits _ _))]
  have : renderDec 5 e.gen ++ [fieldSep, useByte e] = renderDec 5 e.gen ++ fieldSep :: [useByte e] := rfl
  rw [this, splitSp_sep _ _ (digits_noSep (renderDec_digits _ _))]
  rw [splitSp_noSep [useByte e] (by
    intro b hb
    rw [List.mem_singleton.mp hb]
    exact (useByte_facts e).2.1)]

theorem useByte_marker (e : TEntry) : ([useByte e] == inUseMarker) = e.inuse := by
  unfold useByte; cases e.inuse <;> decide

/-! ### The entry loop -/

theorem length_renderEntry (ee : EntEol) (e : TEntry) : (renderEntry ee e).length = 20 := by
  cases ee <;> simp [renderEntry, EntEol.bytes, length_entryCore]

theorem startsNonLF_entry (ee : EntEol) (e : TEntry) (x : Bytes) : StartsNonLF (renderEntry ee e ++ x) := by
  have := startsNonLF_renderDec 10 e.pos (by decide)
    (fieldSep :: (renderDec 5 e.gen ++ [fieldSep, useByte e]) ++ ee.bytes ++ x)
  simpa [renderEntry, entryCore] using this

theorem startsNonLF_entries (ee : EntEol) (es : List TEntry) (tail : Bytes) (ht : StartsNonLF tail) :
    StartsNonLF (renderEntries ee es ++ tail) := by
  cases es with
  | nil => simpa [renderEntries] using ht
  | cons e es =>
    simp only [renderEntries, List.append_assoc]
    exact startsNonLF_entry ee e _

/-- One pass of the `for objid in range(start, start + nobjs)` body. -/
theorem tableEntries_step (ee : EntEol) (e : TEntry) (cnt : Nat) (objid : Int) (x : Bytes) (pos : Nat)
    (offs : List (Int × Entry)) (hx : StartsNonLF x) (hf : EntryFits e) :
    tableEntries (cnt + 1) objid (renderEntry ee e ++ x) pos offs =
      tableEntries cnt (objid + 1) x (pos + 20)
        (if e.inuse then insertOff offs objid ⟨none, e.pos, e.gen⟩ else offs) := by
  have hdrop : (renderEntry ee e ++ x).drop 20 = x := drop_len_append' _ _ _ (length_renderEntry ee e)
  have hp := parseInt_renderDec 10 e.pos (by decide) hf.1
  have hg := parseInt_renderDec 5 e.gen (by decide) hf.2
  rw [tableEntries]
  simp only [takeLine_entry ee e x hx, strip_entry, splitSp_entryCore, hdrop]
  have hlen : (([renderDec 10 e.pos, renderDec 5 e.gen, [useByte e]] : List Bytes).length != entryFields) = false := by
    simp [entryFields]
  simp only [hlen, Bool.false_eq_true, ↓reduceIte, entryTuple, tableEntryOf, mkEntry, useByte_marker, hp, hg]
  cases e.inuse with
  | false => simp
  | true =>
    have h0 : (0 : Int) ≤ (e.pos : Int) ∧ (0 : Int) ≤ (e.gen : Int) := ⟨by omega, by omega⟩
    simp [h0]

theorem tableEntries_render (ee : EntEol) (es : List TEntry) (objid : Int) (tail : Bytes) (pos : Nat)
    (offs : List (Int × Entry)) (htail : StartsNonLF tail) (hfit : ∀ e ∈ es, EntryFits e) :
    tableEntries es.length objid (renderEntries ee es ++ tail) pos offs =
      .ok (insEntries objid es offs, tail, pos + 20 * es.length) := by
  induction es generalizing objid pos offs with
  | nil => simp [tableEntries, renderEntries, insEntries]
  | cons e es ih =>
    simp only [renderEntries, List.append_assoc, List.length_cons]
    rw [tableEntries_step ee e es.length objid _ pos offs (startsNonLF_entries ee es tail htail)
      (hfit e List.mem_cons_self)]
    rw [ih (objid + 1) (pos + 20) _ (fun e' he' => hfit e' (List.mem_cons_of_mem _ he'))]
    simp only [insEntries]
    congr 3
    omega

/-! ### The subsection loop -/

theorem takeLine_eol (body : Bytes) (eol : LineEol) (y : Bytes) (hb : noEol body) (hy : StartsNonLF y) :
    takeLine (body ++ (eol.bytes ++ y)) = some (body ++ eol.bytes, body.length + eol.bytes.length) := by
  obtain ⟨c, t, hyc, hc⟩ := hy
  cases eol with
  | lf => simpa [LineEol.bytes] using takeLine_lf body y hb
  | crlf => simpa [LineEol.bytes] using takeLine_crlf body y hb
  | cr =>
    have := takeLine_cr body c t hb hc
    simpa [LineEol.bytes, hyc] using this

theorem lineEol_space (eol : LineEol) : ∀ b ∈ eol.bytes, isPySpace b = true := by
  cases eol <;> decide

theorem noEol_headerCore (sb : Sub) : noEol (headerCore sb) := by
  unfold headerCore
  apply noEol_append (noEol_digits (renderDec_digits _ _))
  exact noEol_cons sep_facts.1 (noEol_digits (renderDec_digits _ _))

theorem headerCore_shape (sb : Sub) (hs : 0 < sb.ws) (hc : 0 < sb.wc) :
    ∃ c cs init last, headerCore sb = c :: cs ∧ c :: cs = init ++ [last] ∧ isDigit c = true ∧ isDigit last = true := by
  obtain ⟨ws', hws⟩ : ∃ w', sb.ws = w' + 1 := ⟨sb.ws - 1, by omega⟩
  obtain ⟨wc', hwc⟩ : ∃ w', sb.wc = w' + 1 := ⟨sb.wc - 1, by omega⟩
  obtain ⟨c, cs, hcs, hd⟩ := renderDec_succ_shape ws' sb.start
  refine ⟨c, cs ++ fieldSep :: renderDec sb.wc sb.entries.length,
    renderDec sb.ws sb.start ++ fieldSep :: renderDec wc' (sb.entries.length / 10),
    UInt8.ofNat (48 + sb.entries.length % 10), ?_, ?_, hd, ?_⟩
  · simp [headerCore, hws, hcs]
  · rw [← List.cons_append, ← hcs, ← hws, hwc]
    simp [renderDec]
  · exact (digit_ofNat _ (Nat.mod_lt _ (by decide))).1

theorem strip_header (sb : Sub) (eol : LineEol) (hs : 0 < sb.ws) (hc : 0 < sb.wc) :
    strip (headerCore sb ++ eol.bytes) = headerCore sb := by
  obtain ⟨c, cs, init, last, h1, h2, hd, hl⟩ := headerCore_shape sb hs hc
  rw [h1]
  exact strip_core c cs init last eol.bytes h2 (digit_facts c hd).2.1 (digit_facts last hl).2.1 (lineEol_space eol)

theorem startsWith_digit (c : UInt8) (cs : Bytes) (hd : isDigit c = true) : startsWith (c :: cs) kwTrailer = false := by
  have h := (digit_facts c hd).2.2.2.2.2.2
  have h' : ¬ (c = 116) := by simpa using h
  simp [startsWith, kwTrailer, h']

theorem splitSp_headerCore (sb : Sub) :
    splitSp (headerCore sb) = [renderDec sb.ws sb.start, renderDec sb.wc sb.entries.length] := by
  unfold headerCore
  rw [splitSp_sep _ _ (digits_noSep (renderDec_digits _ _)), splitSp_noSep _ (digits_noSep (renderDec_digits _ _))]

theorem length_renderEntries (ee : EntEol) (es : List TEntry) : (renderEntries ee es).length = 20 * es.length := by
  induction es with
  | nil => rfl
  | cons e es ih => simp [renderEntries, length_renderEntry, ih]; omega

theorem length_renderSub (eol : LineEol) (ee : EntEol) (sb : Sub) :
    (renderSub eol ee sb).length = (headerCore sb).length + eol.bytes.length + 20 * sb.entries.length := by
  simp [renderSub, length_renderEntries]; omega

/-- One iteration of the `while True` loop on a rendered subsection. -/
theorem tableLoop_sub (eol : LineEol) (ee : EntEol) (sb : Sub) (fuel : Nat) (x : Bytes) (pos : Nat)
    (offs : List (Int × Entry)) (hx : StartsNonLF x) (hf : SubFits sb) :
    tableLoop (fuel + 1) (renderSub eol ee sb ++ x) pos offs =
      tableLoop fuel x (pos + (renderSub eol ee sb).length) (insEntries (sb.start : Int) sb.entries offs) := by
  obtain ⟨hws, hwc, hstart, hcount, hent⟩ := hf
  have hy : StartsNonLF (renderEntries ee sb.entries ++ x) := startsNonLF_entries ee sb.entries x hx
  have hshape : renderSub eol ee sb ++ x = headerCore sb ++ (eol.bytes ++ (renderEntries ee sb.entries ++ x)) := by
    simp [renderSub]
  have htl := takeLine_eol (headerCore sb) eol _ (noEol_headerCore sb) hy
  have hdrop : (headerCore sb ++ (eol.bytes ++ (renderEntries ee sb.entries ++ x))).drop
      ((headerCore sb).length + eol.bytes.length) = renderEntries ee sb.entries ++ x := by
    rw [← List.append_assoc]
    exact drop_len_append' _ _ _ (by simp)
  obtain ⟨c, cs, init, last, h1, _, hd, _⟩ := headerCore_shape sb hws hwc
  have hne : (headerCore sb).isEmpty = false := by rw [h1]; rfl
  have hsw : startsWith (headerCore sb) kwTrailer = false := by rw [h1]; exact startsWith_digit c cs hd
  have hp1 := parseInt_renderDec sb.ws sb.start hws hstart
  have hp2 := parseInt_renderDec sb.wc sb.entries.length hwc hcount
  have hent' := tableEntries_render ee sb.entries (sb.start : Int) x
    (pos + ((headerCore sb).length + eol.bytes.length)) offs hx hent
  rw [hshape, tableLoop]
  simp only [htl, strip_header sb eol hws hwc, hne, hsw, splitSp_headerCore, hdrop, hp1, hp2,
    Bool.false_eq_true, ↓reduceIte, subCount_eq, subsectionFirst_eq, Int.toNat_natCast, hent']
  have hlen : (([renderDec sb.ws sb.start, renderDec sb.wc sb.entries.length] : List Bytes).length != headerFields) = false := by
    simp [headerFields]
  simp only [hlen, Bool.false_eq_true, ↓reduceIte]
  rw [length_renderSub]
  congr 1
  omega

/-- The `trailer` line is a line (an EOL follows somewhere) whose stripped text starts with the keyword. -/
def TrailerLine (post : Bytes) : Prop :=
  ∃ l k, takeLine (kwTrailer ++ post) = some (l, k) ∧ (strip l).isEmpty = false ∧ startsWith (strip l) kwTrailer = true

theorem startsNonLF_trailer (post : Bytes) : StartsNonLF (kwTrailer ++ post) :=
  ⟨116, [114, 97, 105, 108, 101, 114] ++ post, by simp [kwTrailer], by decide⟩

theorem startsNonLF_table (eol : LineEol) (ee : EntEol) (subs : List Sub) (post : Bytes)
    (hf : ∀ sb ∈ subs, SubFits sb) : StartsNonLF (renderTable eol ee subs ++ (kwTrailer ++ post)) := by
  cases subs with
  | nil => simpa [renderTable] using startsNonLF_trailer post
  | cons sb rest =>
    have := startsNonLF_renderDec sb.ws sb.start (hf sb List.mem_cons_self).1
      (fieldSep :: renderDec sb.wc sb.entries.length ++ (eol.bytes ++ renderEntries ee sb.entries) ++
        (renderTable eol ee rest ++ (kwTrailer ++ post)))
    simpa [renderTable, renderSub, headerCore] using this

theorem tableLoop_render (eol : LineEol) (ee : EntEol) (subs : List Sub) (post : Bytes) (fuel pos : Nat)
    (offs : List (Int × Entry)) (hfuel : subs.length < fuel) (hf : ∀ sb ∈ subs, SubFits sb)
    (hpost : TrailerLine post) :
    tableLoop fuel (renderTable eol ee subs ++ (kwTrailer ++ post)) pos offs =
      .ok (insSubs subs offs, pos + (renderTable eol ee subs).length) := by
  induction subs generalizing fuel pos offs with
  | nil =>
    obtain ⟨fuel', rfl⟩ : ∃ f, fuel = f + 1 := ⟨fuel - 1, by simp at hfuel; omega⟩
    obtain ⟨l, k, h1, h2, h3⟩ := hpost
    simp [renderTable, tableLoop, h1, h2, h3, insSubs]
  | cons sb rest ih =>
    obtain ⟨fuel', rfl⟩ : ∃ f, fuel = f + 1 := ⟨fuel - 1, by simp at hfuel; omega⟩
    simp only [renderTable, List.append_assoc]
    rw [tableLoop_sub eol ee sb fuel' _ pos offs
      (startsNonLF_table eol ee rest post (fun s hs => hf s (List.mem_cons_of_mem _ hs))) (hf sb List.mem_cons_self)]
    rw [ih fuel' _ _ (by simp at hfuel; omega) (fun s hs => hf s (List.mem_cons_of_mem _ hs))]
    simp only [insSubs, List.length_append]
    congr 2
    omega

theorem length_renderTable_ge (eol : LineEol) (ee : EntEol) (subs : List Sub) (hf : ∀ sb ∈ subs, SubFits sb) :
    subs.length ≤ (renderTable eol ee subs).length := by
  induction subs with
  | nil => simp
  | cons sb rest ih =>
    have := ih (fun s hs => hf s (List.mem_cons_of_mem _ hs))
    have hws := (hf sb List.mem_cons_self).1
    simp only [renderTable, List.length_append, List.length_cons, length_renderSub, headerCore, length_renderDec]
    omega

/-- `read_xref_from` + `PDFXRef.load` on a rendered table: the offsets are exactly the in-use
entries written, and the parser stands on the `trailer` line. -/
theorem tableLoad_renderTable (pre post : Bytes) (eol : LineEol) (ee : EntEol) (subs : List Sub)
    (hf : ∀ sb ∈ subs, SubFits sb) (hpost : TrailerLine post) :
    tableLoad (pre ++ (eol.bytes ++ (renderTable eol ee subs ++ (kwTrailer ++ post)))) pre.length =
      .ok (insSubs subs [], pre.length + eol.bytes.length + (renderTable eol ee subs).length) := by
  unfold tableLoad
  have hd : (pre ++ (eol.bytes ++ (renderTable eol ee subs ++ (kwTrailer ++ post)))).drop pre.length =
      eol.bytes ++ (renderTable eol ee subs ++ (kwTrailer ++ post)) := drop_len_append' _ _ _ rfl
  have htl := takeLine_eol [] eol _ noEol_nil (startsNonLF_table eol ee subs post hf)
  simp only [List.nil_append, List.length_nil, Nat.zero_add] at htl
  have hdrop2 : (eol.bytes ++ (renderTable eol ee subs ++ (kwTrailer ++ post))).drop eol.bytes.length =
      renderTable eol ee subs ++ (kwTrailer ++ post) := drop_len_append' _ _ _ rfl
  simp only [hd, htl, hdrop2]
  rw [tableLoop_render eol ee subs post _ _ [] _ hf hpost]
  have := length_renderTable_ge eol ee subs hf
  simp only [List.length_append]
  omega

/-! ### The `trailer` line as the writer emits it -/

theorem dropWhile_keeps {p : UInt8 → Bool} (x : Bytes) (c : UInt8) (y : Bytes) (hc : p c = false) :
    ∃ z, (x ++ c :: y).dropWhile p = z ++ c :: y := by
  induction x with
  | nil => exact ⟨[], by simp [List.dropWhile, hc]⟩
  | cons a x ih =>
    by_cases ha : p a = true
    · obtain ⟨z, hz⟩ := ih
      exact ⟨z, by simp [List.dropWhile, ha, hz]⟩
    · exact ⟨a :: x, by simp [List.dropWhile, ha]⟩

/-- `strip` keeps a prefix whose first and last bytes are not white space. -/
theorem strip_prefix (c0 : UInt8) (cs init : Bytes) (last : UInt8) (rest : Bytes)
    (hshape : c0 :: cs = init ++ [last]) (h0 : isPySpace c0 = false) (hl : isPySpace last = false) :
    ∃ t, strip (c0 :: cs ++ rest) = c0 :: cs ++ t := by
  unfold strip
  have h1 : (c0 :: cs ++ rest).dropWhile isPySpace = c0 :: cs ++ rest := by simp [h0]
  rw [h1, hshape]
  have h2 : (init ++ [last] ++ rest).reverse = rest.reverse ++ last :: init.reverse := by simp
  obtain ⟨z, hz⟩ := dropWhile_keeps (p := isPySpace) rest.reverse last init.reverse hl
  rw [h2, hz]
  exact ⟨z.reverse, by simp⟩

theorem takeLine_append_noEol (a p : Bytes) (ha : noEol a) (l : Bytes) (k : Nat) (h : takeLine p = some (l, k)) :
    takeLine (a ++ p) = some (a ++ l, a.length + k) := by
  induction a with
  | nil => simpa using h
  | cons x a ih =>
    have hx := eol_iff x (ha x List.mem_cons_self)
    have hr : noEol a := fun b hb' => ha b (List.mem_cons_of_mem _ hb')
    simp [takeLine, hx.1, hx.2, ih hr]
    omega

/-- Whatever follows the keyword on its line (nothing, or ` <<…>>`), as long as the line ends. -/
theorem trailerLine_of_line (post l : Bytes) (k : Nat) (h : takeLine post = some (l, k)) : TrailerLine post := by
  have hkw : noEol kwTrailer := by
    intro b hb
    have : ∀ b ∈ kwTrailer, isEol b = false := by decide
    exact this b hb
  obtain ⟨t, ht⟩ := strip_prefix 116 [114, 97, 105, 108, 101, 114] [116, 114, 97, 105, 108, 101] 114 l
    (by rfl) (by decide) (by decide)
  have hsh : kwTrailer ++ l = 116 :: [114, 97, 105, 108, 101, 114] ++ l := by simp [kwTrailer]
  refine ⟨kwTrailer ++ l, kwTrailer.length + k, takeLine_append_noEol _ _ hkw l k h, ?_, ?_⟩
  · rw [hsh, ht]; rfl
  · rw [hsh, ht]
    simp [startsWith, kwTrailer]

theorem trailerLine_eol (eol : LineEol) (mid y : Bytes) (hm : noEol mid) (hy : StartsNonLF y) :
    TrailerLine (mid ++ (eol.bytes ++ y)) :=
  trailerLine_of_line _ _ _ (takeLine_eol mid eol y hm hy)

/-! ### What the loaded dictionary answers: the last in-use line for a number wins -/

theorem lookupOff_insertOff (offs : List (Int × Entry)) (k : Int) (e : Entry) (n : Int) :
    lookupOff (insertOff offs k e) n = if k == n then some e else lookupOff offs n := by
  unfold insertOff
  by_cases hany : offs.any (fun p => p.1 == k) = true
  · simp only [hany, ↓reduceIte]
    induction offs with
    | nil => simp at hany
    | cons p rest ih =>
      obtain ⟨pk, pe⟩ := p
      by_cases hpk : pk = k
      · subst hpk
        by_cases hn : pk = n
        · simp [lookupOff, hn]
        · simp only [List.map_cons, beq_self_eq_true, ↓reduceIte, lookupOff]
          have hn' : (pk == n) = false := by simpa using hn
          simp only [hn', Bool.false_eq_true, ↓reduceIte]
          by_cases hany' : rest.any (fun p => p.1 == pk) = true
          · have := ih hany'
            simp only [hn', Bool.false_eq_true, ↓reduceIte] at this
            exact this
          · -- no further occurrence: the map is the identity on `rest`
            have hid : rest.map (fun p => if p.1 == pk then (pk, e) else p) = rest := by
              have hall : ∀ p ∈ rest, (p.1 == pk) = false := by
                intro p hp
                have := hany'
                simp only [List.any_eq_true, not_exists, not_and, Bool.not_eq_true] at this
                exact this p hp
              clear ih hany hany'
              induction rest with
              | nil => rfl
              | cons q rest ih2 =>
                simp only [List.map_cons, hall q List.mem_cons_self, Bool.false_eq_true, ↓reduceIte]
                rw [ih2 (fun p hp => hall p (List.mem_cons_of_mem _ hp))]
            rw [hid]
      · have hpk' : (pk == k) = false := by simpa using hpk
        have hany' : rest.any (fun p => p.1 == k) = true := by
          simpa [List.any_cons, hpk'] using hany
        have := ih hany'
        simp only [List.map_cons, hpk', Bool.false_eq_true, ↓reduceIte, lookupOff]
        by_cases hpn : pk = n
        · have hkn : (k == n) = false := by
            have : ¬ k = n := fun h => hpk (hpn.trans h.symm)
            simpa using this
          simp [hpn, hkn]
        · have hpn' : (pk == n) = false := by simpa using hpn
          simp only [hpn', Bool.false_eq_true, ↓reduceIte]
          exact this
  · have hany' : offs.any (fun p => p.1 == k) = false := by
      cases h : offs.any (fun p => p.1 == k) with
      | false => rfl
      | true => exact absurd h hany
    simp only [hany', Bool.false_eq_true, ↓reduceIte]
    have hall : ∀ p ∈ offs, (p.1 == k) = false := by
      intro p hp
      have := hany
      simp only [List.any_eq_true, not_exists, not_and, Bool.not_eq_true] at this
      exact this p hp
    clear hany hany'
    induction offs with
    | nil => simp [lookupOff]
    | cons p rest ih =>
      obtain ⟨pk, pe⟩ := p
      have hpk := hall (pk, pe) List.mem_cons_self
      simp only [List.cons_append, lookupOff]
      by_cases hpn : pk = n
      · have hkn : (k == n) = false := by
          have h1 : ¬ pk = k := by simpa using hpk
          have : ¬ k = n := fun h => h1 (hpn.trans h.symm)
          simpa using this
        simp [hpn, hkn]
      · have hpn' : (pk == n) = false := by simpa using hpn
        simp only [hpn', Bool.false_eq_true, ↓reduceIte]
        exact ih (fun p hp => hall p (List.mem_cons_of_mem _ hp))

theorem lookup_insEntries (objid : Int) (es : List TEntry) (offs : List (Int × Entry)) (n : Int) :
    lookupOff (insEntries objid es offs) n = specEntries objid es n (lookupOff offs n) := by
  induction es generalizing objid offs with
  | nil => rfl
  | cons e es ih =>
    simp only [insEntries, specEntries]
    rw [ih]
    cases e.inuse with
    | false => simp
    | true => simp [lookupOff_insertOff]

theorem lookup_insSubs (subs : List Sub) (offs : List (Int × Entry)) (n : Int) :
    lookupOff (insSubs subs offs) n = specSubs subs n (lookupOff offs n) := by
  induction subs generalizing offs with
  | nil => rfl
  | cons sb rest ih => simp only [insSubs, specSubs]; rw [ih, lookup_insEntries]

end PdfVerif.Xref
