/-
Lemmas for C04: the `get_pages` loop with the arguments of the Python interface
(`pagenos` = `None` or any container of integers, `maxpages` any integer).
-/
import PdfVerif.Lemmas.PageTree

namespace PdfVerif.PageTree
open PdfVerif PdfVerif.Gen.PageTree

theorem select_yield_py (pagenos : Option (List Int)) (i : Nat) :
    select_yield (pagenosTruthy pagenos) (pagenoIn pagenos i) = wanted pagenos i := by
  cases pagenos with
  | none => simp [select_yield, pagenosTruthy, pagenoIn, wanted]
  | some l => simp [select_yield, pagenosTruthy, pagenoIn, wanted]

theorem filter_zipIdx_beyond_gen {α : Type} (q : Nat → Bool) (mp : Nat) (hmp : mp ≠ 0) :
    ∀ (ps : List α) (k : Nat), mp ≤ k →
      (ps.zipIdx k).filter (fun pi => q pi.2 && (mp == 0 || pi.2 < mp)) = [] := by
  intro ps
  induction ps with
  | nil => intro k _; simp
  | cons p ps ih =>
    intro k hk
    rw [List.zipIdx_cons, List.filter_cons]
    have : ((mp == 0 || decide (k < mp)) = false) := by simp; omega
    simp only [this, Bool.and_false]
    exact ih (k+1) (by omega)

/-- The loop from index `i` on, for a non-negative limit. -/
theorem select_stream_py {α : Type} (pagenos : Option (List Int)) (mp : Nat) (pages : List α) (e : Option Err)
    (i : Nat) (hinv : mp = 0 ∨ i < mp) :
    getPagesPy pagenos (mp : Int) i pages e =
      (((pages.zipIdx i).filter (fun pi => wanted pagenos pi.2 && (mp == 0 || pi.2 < mp))).map Prod.fst,
        if pastEnd mp i pages.length then e else none) := by
  induction pages generalizing i with
  | nil =>
    have : pastEnd mp i 0 := by unfold pastEnd; omega
    simp [getPagesPy, this]
  | cons p ps ih =>
    unfold getPagesPy
    simp only [select_yield_py, select_break_eq]
    rw [List.zipIdx_cons, List.filter_cons]
    have hin : (mp == 0 || decide (i < mp)) = true := by
      rcases hinv with h | h <;> simp [h]
    by_cases hbrk : (mp != 0 && decide (mp ≤ i + 1)) = true
    · simp only [hbrk, if_true]
      simp only [Bool.and_eq_true, bne_iff_ne, ne_eq, decide_eq_true_eq] at hbrk
      rw [filter_zipIdx_beyond_gen (wanted pagenos) mp hbrk.1 ps (i+1) hbrk.2]
      have hp : ¬ pastEnd mp i (p :: ps).length := by
        unfold pastEnd; simp only [List.length_cons]; omega
      simp only [hp, if_false]
      by_cases hs : wanted pagenos i = true
      · simp only [hs, hin, Bool.and_self, if_true, List.map_cons, List.map_nil]
      · simp only [hs, Bool.false_and]; simp
    · simp only [hbrk]
      have hnext : mp = 0 ∨ i + 1 < mp := by
        simp only [Bool.and_eq_true, bne_iff_ne, ne_eq, decide_eq_true_eq, not_and, Nat.not_le] at hbrk
        by_cases h0 : mp = 0
        · exact Or.inl h0
        · exact Or.inr (hbrk h0)
      have ih' := ih (i+1) hnext
      have hpe : pastEnd mp (i + 1) ps.length ↔ pastEnd mp i (p :: ps).length := by
        unfold pastEnd; simp only [List.length_cons]; omega
      rw [ih']
      by_cases hq : pastEnd mp i (p :: ps).length
      · have hq' := hpe.mpr hq
        by_cases hs : wanted pagenos i = true
        · simp only [hs, hin, Bool.and_self, if_true, List.map_cons, hq, hq', List.cons_append, List.nil_append,
            Bool.false_eq_true, ↓reduceIte]
        · simp only [hs, Bool.false_and, hq, hq', List.nil_append, Bool.false_eq_true, ↓reduceIte]
      · have hq' : ¬ pastEnd mp (i + 1) ps.length := fun h => hq (hpe.mp h)
        by_cases hs : wanted pagenos i = true
        · simp only [hs, hin, Bool.and_self, if_true, List.map_cons, hq, hq', List.cons_append, List.nil_append,
            Bool.false_eq_true, ↓reduceIte]
        · simp only [hs, Bool.false_and, hq, hq', List.nil_append, Bool.false_eq_true, ↓reduceIte]

theorem specSelectPy_nat {α : Type} (pagenos : Option (List Int)) (mp : Nat) (pages : List α) :
    specSelectPy pagenos (mp : Int) pages =
      ((pages.zipIdx 0).filter (fun pi => wanted pagenos pi.2 && (mp == 0 || pi.2 < mp))).map Prod.fst := by
  unfold specSelectPy
  congr 2
  funext pi
  have h1 : (((mp : Int) == 0) = (mp == 0)) := by
    cases mp with
    | zero => simp
    | succ n => simp; omega
  have h2 : decide (((pi.2 : Nat) : Int) < (mp : Int)) = decide (pi.2 < mp) := by
    apply decide_eq_decide.mpr; omega
  rw [h1, h2]

/-- The loop depends on `pagenos` only through membership (and emptiness). -/
theorem getPagesPy_congr {α : Type} (p1 p2 : Option (List Int)) (maxpages : Int)
    (ht : pagenosTruthy p1 = pagenosTruthy p2) (hm : ∀ i, pagenoIn p1 i = pagenoIn p2 i) :
    ∀ (pages : List α) (i : Nat) (e : Option Err),
      getPagesPy p1 maxpages i pages e = getPagesPy p2 maxpages i pages e := by
  intro pages
  induction pages with
  | nil => intro i e; simp [getPagesPy]
  | cons p ps ih =>
    intro i e
    simp only [getPagesPy, ht, hm, ih]

end PdfVerif.PageTree
