/-
Helper lemmas for C16 (Props/C16.lean): the flat segment list of the implementation versus the
sub-path records of the specification.
-/
import PdfVerif.Spec.Paths

set_option linter.constructorNameAsVariable false

namespace PdfVerif.PathLemmas
open PdfVerif PdfVerif.Paths PdfVerif.PathSpec PdfVerif.Gen.PathsGen

/-! ### bounding box -/

theorem foldl_bound (rest : List Point) (a b c d : Rat) :
    rest.foldl (fun (bb : Rect) (p : Point) =>
      let (x0, y0, x1, y1) := bb
      (min x0 p.1, min y0 p.2, max x1 p.1, max y1 p.2)) (a, b, c, d) =
    ((rest.map Prod.fst).foldl min a, (rest.map Prod.snd).foldl min b,
     (rest.map Prod.fst).foldl max c, (rest.map Prod.snd).foldl max d) := by
  induction rest generalizing a b c d with
  | nil => rfl
  | cons p rest ih => simp [List.foldl, ih]

theorem getBound_eq_hull (pts : List Point) : getBound pts = hull pts := by
  cases pts with
  | nil => rfl
  | cons p rest =>
    obtain ⟨x, y⟩ := p
    simp only [getBound, hull, List.map_cons, List.foldl_cons]
    rw [foldl_bound]
    have h1 : min x x = x := by grind
    have h2 : min y y = y := by grind
    have h3 : max x x = x := by grind
    have h4 : max y y = y := by grind
    simp only [h1, h2, h3, h4]

/-! ### segments -/

theorem toPSeg_map (f : Point → Point) (g : Seg) : (g.toPSeg).mapPts f = (g.map f).toPSeg := by
  cases g <;> rfl

theorem lastPt_toPSeg (g : Seg) (s : Point) : (g.toPSeg).lastPt s = g.endPt := by
  cases g <;> rfl

theorem endPt_map (f : Point → Point) (g : Seg) : (g.map f).endPt = f g.endPt := by
  cases g <;> rfl

theorem isLine_map (f : Point → Point) (g : Seg) : (g.map f).isLine = g.isLine := by
  cases g <;> rfl

theorem letter_toPSeg_ne_h (g : Seg) : g.toPSeg.letter ≠ 'h' := by cases g <;> simp [Seg.toPSeg, PSeg.letter]
theorem letter_toPSeg_ne_m (g : Seg) : g.toPSeg.letter ≠ 'm' := by cases g <;> simp [Seg.toPSeg, PSeg.letter]

theorem letter_eq_l (g : Seg) : g.toPSeg.letter = 'l' ↔ g.isLine = true := by
  cases g <;> simp [Seg.toPSeg, PSeg.letter, Seg.isLine]

theorem isLine_iff (g : Seg) : g.isLine = true ↔ ∃ p, g = .l p := by
  cases g <;> simp [Seg.isLine]

end PdfVerif.PathLemmas
