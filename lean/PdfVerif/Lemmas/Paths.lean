/-
Helper lemmas for C16 (Props/C16.lean): the flat segment list of the implementation versus the
sub-path records of the specification.
-/
import PdfVerif.Spec.Paths

set_option linter.constructorNameAsVariable false

namespace PdfVerif.PathLemmas
open PdfVerif PdfVerif.Paths PdfVerif.PathSpec PdfVerif.Gen.PathsGen

/-! ### bounding box -/

theorem foldl_bound (rest : List Point) (a b c d : Rat) :
    rest.foldl (fun (bb : Rect) (p : Point) =>
      let (x0, y0, x1, y1) := bb
      (min x0 p.1, min y0 p.2, max x1 p.1, max y1 p.2)) (a, b, c, d) =
    ((rest.map Prod.fst).foldl min a, (rest.map Prod.snd).foldl min b,
     (rest.map Prod.fst).foldl max c, (rest.map Prod.snd).foldl max d) := by
  induction rest generalizing a b c d with
  | nil => rfl
  | cons p rest ih => simp [List.foldl, ih]

theorem getBound_eq_hull (pts : List Point) : getBound pts = hull pts := by
  cases pts with
  | nil => rfl
  | cons p rest =>
    obtain ⟨x, y⟩ := p
    simp only [getBound, hull, List.map_cons, List.foldl_cons]
    rw [foldl_bound]
    have h1 : min x x = x := by grind
    have h2 : min y y = y := by grind
    have h3 : max x x = x := by grind
    have h4 : max y y = y := by grind
    simp only [h1, h2, h3, h4]

/-! ### segments -/

theorem toPSeg_map (f : Point → Point) (g : Seg) : (g.toPSeg).mapPts f = (g.map f).toPSeg := by
  cases g <;> rfl

theorem lastPt_toPSeg (g : Seg) (s : Point) : (g.toPSeg).lastPt s = g.endPt := by
  cases g <;> rfl

theorem endPt_map (f : Point → Point) (g : Seg) : (g.map f).endPt = f g.endPt := by
  cases g <;> rfl

theorem isLine_map (f : Point → Point) (g : Seg) : (g.map f).isLine = g.isLine := by
  cases g <;> rfl

theorem letter_toPSeg_ne_h (g : Seg) : g.toPSeg.letter ≠ 'h' := by cases g <;> simp [Seg.toPSeg, PSeg.letter]
theorem letter_toPSeg_ne_m (g : Seg) : g.toPSeg.letter ≠ 'm' := by cases g <;> simp [Seg.toPSeg, PSeg.letter]

theorem letter_eq_l (g : Seg) : g.toPSeg.letter = 'l' ↔ g.isLine = true := by
  cases g <;> simp [Seg.toPSeg, PSeg.letter, Seg.isLine]

theorem isLine_iff (g : Seg) : g.isLine = true ↔ ∃ p, g = .l p := by
  cases g <;> simp [Seg.isLine]


/-! ### classification of one sub-path -/

/-- Historical: while `LTRect.pts` was not in path order (finding `ltrect-pts-canonical-order`, fixed)
this erased the points of rectangles from the comparison.  It is the identity now, so every statement
below compares ALL attributes of the shapes (see `map_erase`). -/
def eraseRectPts (s : Shape) : Shape := s

theorem map_erase (l : List Shape) : l.map eraseRectPts = l := by
  induction l with
  | nil => rfl
  | cons a rest ih => simp only [List.map_cons, ih]; rfl

def specShape (a : PaintArgs) (kp : Kind × List Point) (tpath : List PSeg) : Shape :=
  mkShape kp.1 a kp.2 tpath

def lettersOf (ns : List Seg) : List Char := ns.map (fun g => g.toPSeg.letter)
def closeL (c : Bool) : List Char := if c then ['h'] else []
def closeP (c : Bool) (s : Point) : List Point := if c then [s] else []

/-- The regenerated `has_square_coordinates` is the specification's `axisAligned`. -/
theorem squareCoords_eq : squareCoords = axisAligned := by
  funext p0 p1 p2 p3
  simp only [squareCoords, has_square_coordinates, axisAligned]

/-- `do_m l c v y` with the regenerated operand order unfolded. -/
theorem doSeg_m (x y : Rat) (st : IState) : doSeg .m [.num x, .num y] st = pushSeg st (.m (x, y)) := rfl
theorem doSeg_l (x y : Rat) (st : IState) : doSeg .l [.num x, .num y] st = pushSeg st (.l (x, y)) := rfl
theorem doSeg_c (x1 y1 x2 y2 x3 y3 : Rat) (st : IState) :
    doSeg .c [.num x1, .num y1, .num x2, .num y2, .num x3, .num y3] st = pushSeg st (.c (x1, y1) (x2, y2) (x3, y3)) := rfl
theorem doSeg_v (x2 y2 x3 y3 : Rat) (st : IState) :
    doSeg .v [.num x2, .num y2, .num x3, .num y3] st = pushSeg st (.v (x2, y2) (x3, y3)) := rfl
theorem doSeg_y (x1 y1 x3 y3 : Rat) (st : IState) :
    doSeg .y [.num x1, .num y1, .num x3, .num y3] st = pushSeg st (.y (x1, y1) (x3, y3)) := rfl

/-- An operand that is not a number: nothing is appended. -/
theorem doSeg_bad (k : OpK) (args : List Operand) (st : IState) (h : allNums args = none) : doSeg k args st = st := by
  simp [doSeg, h]

/-- The regenerated constants of the redundant-`l` test, unfolded. -/
theorem redundantL_eq (shape : List Char) (pts : List Point) :
    redundantL shape pts =
      decide (shape.length > 3 ∧ shape.drop (shape.length - 2) = ['l', 'h'] ∧ pts[pts.length - 2]? = pts.head?) := by
  rw [List.head?_eq_getElem?]; rfl

/-- The classification with the regenerated shape strings and point indices unfolded. -/
theorem classifyShape_eq (a : PaintArgs) (shape : List Char) (pts : List Point) (tpath : List PSeg) :
    classifyShape a shape pts tpath =
      (if shape = ['m', 'l', 'h'] ∨ shape = ['m', 'l'] then
        match pts with
        | p0 :: p1 :: _ => [mkLine a p0 p1 tpath]
        | _ => []
      else if shape = ['m', 'l', 'l', 'l', 'h'] ∨ shape = ['m', 'l', 'l', 'l', 'l'] then
        match pts with
        | [p0, p1, p2, p3, p4] =>
          if p0 = p4 ∧ squareCoords p0 p1 p2 p3 = true then
            [{ mkRect a (p0.1, p0.2, p2.1, p2.2) tpath with pts := [p0, p1, p2, p3] }]
          else [mkCurve a pts tpath]
        | _ => []
      else [mkCurve a pts tpath]) := by
  unfold classifyShape
  simp only [lineShapes, rectShapes, linePts, closedLoopPts, rectCorners, rectPtsTake, List.mem_cons,
    List.not_mem_nil, or_false]
  rcases pts with _ | ⟨p0, _ | ⟨p1, _ | ⟨p2, _ | ⟨p3, _ | ⟨p4, _ | ⟨p5, r⟩⟩⟩⟩⟩⟩ <;> simp

theorem rect_bbox (s e1 e2 e3 : Point) (h : axisAligned s e1 e2 e3 = true) :
    getBound [(s.1, s.2), (e2.1, s.2), (e2.1, e2.2), (s.1, e2.2)] = getBound [s, e1, e2, e3] := by
  obtain ⟨sx, sy⟩ := s
  obtain ⟨x1, y1⟩ := e1
  obtain ⟨x2, y2⟩ := e2
  obtain ⟨x3, y3⟩ := e3
  simp only [axisAligned, decide_eq_true_eq] at h
  simp only [getBound, List.foldl_cons, List.foldl_nil]
  rcases h with ⟨h1, h2, h3, h4⟩ | ⟨h1, h2, h3, h4⟩ <;> subst_vars <;> simp only [Option.some.injEq, Prod.mk.injEq] <;>
    refine ⟨?_, ?_, ?_, ?_⟩ <;> grind

theorem classify_spec (a : PaintArgs) (s' : Point) (ns : List Seg) (c : Bool) (tpath : List PSeg)
    (hne : ns ≠ []) :
    (classifyShape a ('m' :: (lettersOf ns ++ closeL c)) (s' :: (ns.map Seg.endPt ++ closeP c s')) tpath).map
        eraseRectPts = [eraseRectPts (specShape a (kindPts s' ns c) tpath)] := by
  match ns, hne with
  | [a1], _ =>
    cases c <;> cases a1 <;>
      simp [classifyShape_eq, lettersOf, closeL, closeP, kindPts, Seg.toPSeg, PSeg.letter, Seg.isLine, Seg.endPt,
        specShape, mkLine, mkCurve]
  | [a1, a2], _ =>
    cases c <;> cases hs : ([a1, a2].all Seg.isLine) <;>
      simp [classifyShape_eq, lettersOf, closeL, closeP, kindPts, hs, specShape, mkCurve, letter_toPSeg_ne_h]
  | [a1, a2, a3], _ =>
    cases c <;> cases hs : ([a1, a2, a3].all Seg.isLine)
    · simp [classifyShape_eq, lettersOf, closeL, closeP, kindPts, hs, specShape, mkCurve, letter_toPSeg_ne_h]
    · simp [classifyShape_eq, lettersOf, closeL, closeP, kindPts, hs, specShape, mkCurve, letter_toPSeg_ne_h]
    · have : ¬ (a1.toPSeg.letter = 'l' ∧ a2.toPSeg.letter = 'l' ∧ a3.toPSeg.letter = 'l') := by
        simp only [letter_eq_l]; simp at hs; grind
      simp [classifyShape_eq, lettersOf, closeL, closeP, kindPts, hs, specShape, mkCurve, this]
    · simp only [List.all_cons, List.all_nil, Bool.and_true, Bool.and_eq_true, isLine_iff] at hs
      obtain ⟨⟨p1, rfl⟩, ⟨p2, rfl⟩, ⟨p3, rfl⟩⟩ := hs
      by_cases hax : axisAligned s' p1 p2 p3 = true
      · have hb := rect_bbox s' p1 p2 p3 hax
        simp [classifyShape_eq, lettersOf, closeL, closeP, kindPts, specShape, mkRect, mkShape, Seg.toPSeg,
          PSeg.letter, Seg.isLine, Seg.endPt, hax, eraseRectPts, hb, squareCoords_eq]
      · simp [classifyShape_eq, lettersOf, closeL, closeP, kindPts, specShape, mkCurve, mkShape, Seg.toPSeg,
          PSeg.letter, Seg.isLine, Seg.endPt, hax, eraseRectPts, squareCoords_eq]
  | [a1, a2, a3, a4], _ =>
    cases c <;> cases hs : ([a1, a2, a3, a4].all Seg.isLine)
    · have : ¬ (a1.toPSeg.letter = 'l' ∧ a2.toPSeg.letter = 'l' ∧ a3.toPSeg.letter = 'l' ∧
          a4.toPSeg.letter = 'l') := by
        simp only [letter_eq_l]; simp at hs; grind
      simp [classifyShape_eq, lettersOf, closeL, closeP, kindPts, hs, specShape, mkCurve, this, letter_toPSeg_ne_h]
    · simp only [List.all_cons, List.all_nil, Bool.and_true, Bool.and_eq_true, isLine_iff] at hs
      obtain ⟨⟨p1, rfl⟩, ⟨p2, rfl⟩, ⟨p3, rfl⟩, ⟨p4, rfl⟩⟩ := hs
      by_cases hax : p4 = s' ∧ axisAligned s' p1 p2 p3 = true
      · obtain ⟨rfl, hax2⟩ := hax
        have hb := rect_bbox p4 p1 p2 p3 hax2
        simp [classifyShape_eq, lettersOf, closeL, closeP, kindPts, specShape, mkRect, mkShape, Seg.toPSeg,
          PSeg.letter, Seg.isLine, Seg.endPt, hax2, eraseRectPts, hb, squareCoords_eq]
      · have h4 : ¬ (s' = p4 ∧ axisAligned s' p1 p2 p3 = true) := fun h => hax ⟨h.1.symm, h.2⟩
        simp [classifyShape_eq, lettersOf, closeL, closeP, kindPts, specShape, mkCurve, mkShape, Seg.toPSeg,
          PSeg.letter, Seg.isLine, Seg.endPt, hax, eraseRectPts, squareCoords_eq, h4]
    · simp [classifyShape_eq, lettersOf, closeL, closeP, kindPts, hs, specShape, mkCurve, letter_toPSeg_ne_h]
    · simp [classifyShape_eq, lettersOf, closeL, closeP, kindPts, hs, specShape, mkCurve, letter_toPSeg_ne_h]
  | a1 :: a2 :: a3 :: a4 :: a5 :: rest, _ =>
    cases c <;> cases hs : ((a1 :: a2 :: a3 :: a4 :: a5 :: rest).all Seg.isLine) <;>
      simp [classifyShape_eq, lettersOf, closeL, closeP, kindPts, hs, specShape, mkCurve]


/-! ### paintSingle on the flat encoding of one sub-path -/

def flat1 (sp : SubPath) : List PSeg :=
  PSeg.m sp.start :: (sp.segs.map Seg.toPSeg ++ (if sp.closed then [PSeg.h] else []))

theorem letter_map (f : Point → Point) (g : Seg) : (g.map f).toPSeg.letter = g.toPSeg.letter := by
  cases g <;> rfl

theorem flat_letters (f : Point → Point) (segs : List Seg) (c : Bool) :
    (segs.map Seg.toPSeg ++ (if c then [PSeg.h] else [])).map PSeg.letter =
      lettersOf (segs.map (Seg.map f)) ++ closeL c := by
  have hh : PSeg.h.letter = 'h' := rfl
  cases c <;> simp [lettersOf, closeL, List.map_map, Function.comp_def, letter_map, hh]

theorem flat_pts (f : Point → Point) (s : Point) (segs : List Seg) (c : Bool) :
    (segs.map Seg.toPSeg ++ (if c then [PSeg.h] else [])).map (fun p => f (p.lastPt s)) =
      (segs.map (Seg.map f)).map Seg.endPt ++ closeP c (f s) := by
  have hh : PSeg.h.lastPt s = s := rfl
  cases c <;> simp [closeP, List.map_map, Function.comp_def, lastPt_toPSeg, endPt_map, hh]

theorem flat_tpath (f : Point → Point) (sp : SubPath) :
    (flat1 sp).map (PSeg.mapPts f) = pathOf f sp := by
  obtain ⟨s, segs, c, imp⟩ := sp
  have hm : ∀ p : Point, (PSeg.m p).mapPts f = PSeg.m (f p) := fun _ => rfl
  have hh : PSeg.h.mapPts f = PSeg.h := rfl
  cases c <;> simp [flat1, pathOf, List.map_map, Function.comp_def, toPSeg_map, hm, hh]

theorem lastPt_m (p q : Point) : (PSeg.m p).lastPt q = p := rfl
theorem letter_m (p : Point) : (PSeg.m p).letter = 'm' := rfl

theorem paintSingle_flat1_unfold (ctm : Matrix) (a : PaintArgs) (sp : SubPath) :
    paintSingle ctm a (flat1 sp) =
      classifyShape a
        (if redundantL ('m' :: (lettersOf (sp.segs.map (Seg.map (apply_matrix_pt ctm))) ++ closeL sp.closed))
              (apply_matrix_pt ctm sp.start :: ((sp.segs.map (Seg.map (apply_matrix_pt ctm))).map Seg.endPt ++
                closeP sp.closed (apply_matrix_pt ctm sp.start)))
         then ('m' :: (lettersOf (sp.segs.map (Seg.map (apply_matrix_pt ctm))) ++ closeL sp.closed)).take
              (('m' :: (lettersOf (sp.segs.map (Seg.map (apply_matrix_pt ctm))) ++ closeL sp.closed)).length - 2) ++ ['h']
         else 'm' :: (lettersOf (sp.segs.map (Seg.map (apply_matrix_pt ctm))) ++ closeL sp.closed))
        (if redundantL ('m' :: (lettersOf (sp.segs.map (Seg.map (apply_matrix_pt ctm))) ++ closeL sp.closed))
              (apply_matrix_pt ctm sp.start :: ((sp.segs.map (Seg.map (apply_matrix_pt ctm))).map Seg.endPt ++
                closeP sp.closed (apply_matrix_pt ctm sp.start)))
         then (apply_matrix_pt ctm sp.start :: ((sp.segs.map (Seg.map (apply_matrix_pt ctm))).map Seg.endPt ++
                closeP sp.closed (apply_matrix_pt ctm sp.start))).dropLast
         else apply_matrix_pt ctm sp.start :: ((sp.segs.map (Seg.map (apply_matrix_pt ctm))).map Seg.endPt ++
                closeP sp.closed (apply_matrix_pt ctm sp.start)))
        (pathOf (apply_matrix_pt ctm) sp) := by
  have ht := flat_tpath (apply_matrix_pt ctm) sp
  obtain ⟨s, segs, c, imp⟩ := sp
  simp only [flat1] at ht ⊢
  simp only [paintSingle, redundantCut, redundantTail, ht, List.map_cons, lastPt_m, letter_m,
    flat_letters (apply_matrix_pt ctm), flat_pts (apply_matrix_pt ctm)]

/-! ### the redundant closing `l` -/

theorem eq_nil_or_snoc {α : Type} (l : List α) : l = [] ∨ ∃ L b, l = L ++ [b] := by
  rcases List.eq_nil_or_concat l with h | ⟨L, b, h⟩
  · exact Or.inl h
  · exact Or.inr ⟨L, b, by rw [h, List.concat_eq_append]⟩

theorem red_closed (N0 : List Seg) (g : Seg) (s' : Point) :
    redundantL ('m' :: (lettersOf (N0 ++ [g]) ++ closeL true)) (s' :: ((N0 ++ [g]).map Seg.endPt ++ closeP true s')) =
      decide (N0 ≠ [] ∧ g.toPSeg.letter = 'l' ∧ g.endPt = s') := by
  have e1 : ('m' :: (lettersOf (N0 ++ [g]) ++ closeL true)) = ('m' :: lettersOf N0) ++ [g.toPSeg.letter, 'h'] := by
    simp [lettersOf, closeL]
  have e2 : (s' :: ((N0 ++ [g]).map Seg.endPt ++ closeP true s')) = (s' :: N0.map Seg.endPt) ++ [g.endPt, s'] := by
    simp [closeP]
  rw [e1, e2]
  rw [redundantL_eq]
  have l1 : (('m' :: lettersOf N0) ++ [g.toPSeg.letter, 'h']).length - 2 = ('m' :: lettersOf N0).length := by simp
  have l2 : ((s' :: N0.map Seg.endPt) ++ [g.endPt, s']).length - 2 = (s' :: N0.map Seg.endPt).length := by simp
  rw [l1, l2, List.drop_left]
  rw [List.getElem?_append_right (Nat.le_refl _)]
  simp [lettersOf]
  cases N0 <;> simp

theorem red_open (ns : List Seg) (pts : List Point) (hne : ns ≠ []) :
    redundantL ('m' :: (lettersOf ns ++ closeL false)) pts = false := by
  rcases eq_nil_or_snoc ns with rfl | ⟨N0, g, rfl⟩
  · exact absurd rfl hne
  · rw [redundantL_eq]
    simp only [closeL, Bool.false_eq_true, if_false, List.append_nil]
    rw [decide_eq_false_iff_not]
    rintro ⟨_, hdrop, _⟩
    have h1 := congrArg List.getLast? hdrop
    rw [List.getLast?_drop] at h1
    have h2 : ('m' :: lettersOf (N0 ++ [g])).getLast? = some g.toPSeg.letter := by
      rw [show 'm' :: lettersOf (N0 ++ [g]) = ('m' :: lettersOf N0) ++ [g.toPSeg.letter] by simp [lettersOf]]
      exact List.getLast?_concat ..
    rw [h2] at h1
    split at h1
    · cases h1
    · simp only [List.getLast?_cons_cons, List.getLast?_singleton, Option.some.injEq] at h1
      exact absurd h1 (letter_toPSeg_ne_h g)

theorem drop_step (a : PaintArgs) (s' : Point) (ns : List Seg) (c : Bool) (tpath : List PSeg) (hne : ns ≠ []) :
    (classifyShape a
        (if redundantL ('m' :: (lettersOf ns ++ closeL c)) (s' :: (ns.map Seg.endPt ++ closeP c s'))
         then ('m' :: (lettersOf ns ++ closeL c)).take (('m' :: (lettersOf ns ++ closeL c)).length - 2) ++ ['h']
         else 'm' :: (lettersOf ns ++ closeL c))
        (if redundantL ('m' :: (lettersOf ns ++ closeL c)) (s' :: (ns.map Seg.endPt ++ closeP c s'))
         then (s' :: (ns.map Seg.endPt ++ closeP c s')).dropLast
         else s' :: (ns.map Seg.endPt ++ closeP c s')) tpath).map eraseRectPts =
      [eraseRectPts (specShape a (kindPts s' (normSegs s' c ns) c) tpath)] := by
  cases c
  · -- open sub-path: nothing is dropped on either side
    rw [red_open ns _ hne]
    have hn : normSegs s' false ns = ns := by
      unfold normSegs
      split <;> simp
    rw [hn]
    simpa using classify_spec a s' ns false tpath hne
  · rcases eq_nil_or_snoc ns with rfl | ⟨N0, g, rfl⟩
    · exact absurd rfl hne
    · rw [red_closed]
      by_cases hd : N0 ≠ [] ∧ g.toPSeg.letter = 'l' ∧ g.endPt = s'
      · obtain ⟨hN, hl, he⟩ := hd
        obtain ⟨p, rfl⟩ := (isLine_iff g).1 ((letter_eq_l g).1 hl)
        have hn : normSegs s' true (N0 ++ [Seg.l p]) = N0 := by
          have hlen : 2 ≤ N0.length + 1 := by
            cases N0 with
            | nil => exact absurd rfl hN
            | cons _ _ => simp
          simp only [Seg.endPt] at he
          simp [normSegs, he, hlen]
        rw [hn]
        have e1 : ('m' :: (lettersOf (N0 ++ [Seg.l p]) ++ closeL true)) =
            ('m' :: lettersOf N0) ++ [(Seg.l p).toPSeg.letter, 'h'] := by simp [lettersOf, closeL]
        have e2 : (s' :: ((N0 ++ [Seg.l p]).map Seg.endPt ++ closeP true s')) =
            (s' :: N0.map Seg.endPt) ++ [(Seg.l p).endPt, s'] := by simp [closeP]
        have l1 : (('m' :: lettersOf N0) ++ [(Seg.l p).toPSeg.letter, 'h']).length - 2 =
            ('m' :: lettersOf N0).length := by simp
        simp only [Seg.endPt] at he
        subst he
        have hc := classify_spec a p N0 true tpath hN
        simp only [hN, hl, ne_eq, not_false_eq_true, true_and]
        rw [e1, e2, l1, List.take_left]
        have hdl : (p :: (List.map Seg.endPt N0 ++ [p, p])).dropLast = p :: (List.map Seg.endPt N0 ++ [p]) := by
          rw [show p :: (List.map Seg.endPt N0 ++ [p, p]) = (p :: (List.map Seg.endPt N0 ++ [p])) ++ [p] by simp]
          exact List.dropLast_concat
        simpa [closeL, closeP, Seg.endPt, hdl] using hc
      · have hn : normSegs s' true (N0 ++ [g]) = N0 ++ [g] := by
          unfold normSegs
          split
          · rename_i p hp
            simp at hp
            subst hp
            have : ¬ (N0 ≠ [] ∧ p = s') := fun h => hd ⟨h.1, rfl, h.2⟩
            split
            · rename_i h
              have h2 : N0 ≠ [] := by
                intro h0; subst h0; simp at h
              exact absurd ⟨h2, h.2.2⟩ this
            · rfl
          · rfl
        rw [hn]
        simp only [hd, decide_false, Bool.false_eq_true, if_false]
        exact classify_spec a s' (N0 ++ [g]) true tpath hne

/-! ### one sub-path: implementation model = specification -/

/-- The implementation's graphics state that corresponds to a specification state (no pattern colour). -/
def gsOf (g : SGState) : GState :=
  { linewidth := g.linewidth, dash := g.dash.map (fun d => (Operand.arr d.1, Operand.num d.2)),
    scolor := g.scolor, ncolor := g.ncolor, scs := g.sspace.n, ncs := g.nspace.n }

def argsOf (g : SGState) (stroke fill evenodd : Bool) : PaintArgs := ⟨gsOf g, stroke, fill, evenodd⟩

theorem shapeOf_eq (g : SGState) (st fi eo : Bool) (sp : SubPath) (hne : sp.segs ≠ []) :
    shapeOf g st fi eo sp =
      some (specShape (argsOf g st fi eo)
        (kindPts (apply_matrix_pt g.ctm sp.start)
          (normSegs (apply_matrix_pt g.ctm sp.start) sp.closed (sp.segs.map (Seg.map (apply_matrix_pt g.ctm))))
          sp.closed) (pathOf (apply_matrix_pt g.ctm) sp)) := by
  have : sp.segs.isEmpty = false := by
    cases h : sp.segs with
    | nil => exact absurd h hne
    | cons _ _ => rfl
  simp [shapeOf, this, specShape, mkShape, argsOf, gsOf, getBound_eq_hull]

theorem paintSingle_flat1 (g : SGState) (st fi eo : Bool) (sp : SubPath) (hne : sp.segs ≠ []) :
    (paintSingle g.ctm (argsOf g st fi eo) (flat1 sp)).map eraseRectPts =
      (shapeOf g st fi eo sp).toList.map eraseRectPts := by
  rw [paintSingle_flat1_unfold, shapeOf_eq g st fi eo sp hne]
  have hne' : sp.segs.map (Seg.map (apply_matrix_pt g.ctm)) ≠ [] := by
    simpa using hne
  simpa using drop_step (argsOf g st fi eo) (apply_matrix_pt g.ctm sp.start) _ sp.closed
    (pathOf (apply_matrix_pt g.ctm) sp) hne'

/-! ### shapes of zero-segment sub-paths are not observed -/

/-- A shape whose `original_path` contains at least one segment operator. -/
def hasSeg (s : Shape) : Bool := s.path.any PSeg.isSeg

theorem classifyShape_path (a : PaintArgs) (shape : List Char) (pts : List Point) (tpath : List PSeg) :
    ∀ s ∈ classifyShape a shape pts tpath, s.path = tpath := by
  intro s hs
  rw [classifyShape_eq] at hs
  split at hs
  · split at hs
    · simp only [List.mem_singleton] at hs; subst hs; rfl
    · cases hs
  · split at hs
    · split at hs
      · split at hs
        · simp only [List.mem_singleton] at hs; subst hs; rfl
        · simp only [List.mem_singleton] at hs; subst hs; rfl
      · cases hs
    · simp only [List.mem_singleton] at hs; subst hs; rfl

theorem paintSingle_path (ctm : Matrix) (a : PaintArgs) (path : List PSeg) :
    ∀ s ∈ paintSingle ctm a path, s.path = path.map (PSeg.mapPts (apply_matrix_pt ctm)) := by
  intro s hs
  cases path with
  | nil => cases hs
  | cons first rest => exact classifyShape_path _ _ _ _ s hs

theorem any_isSeg_map (f : Point → Point) (path : List PSeg) :
    (path.map (PSeg.mapPts f)).any PSeg.isSeg = path.any PSeg.isSeg := by
  induction path with
  | nil => rfl
  | cons x rest ih =>
    have : (x.mapPts f).isSeg = x.isSeg := by cases x <;> rfl
    simp [this, ih]

theorem filter_hasSeg (ctm : Matrix) (a : PaintArgs) (path : List PSeg) :
    (paintSingle ctm a path).filter hasSeg = if path.any PSeg.isSeg then paintSingle ctm a path else [] := by
  have h := paintSingle_path ctm a path
  split
  · rename_i hp
    apply List.filter_eq_self.2
    intro s hs
    show hasSeg s = true
    unfold hasSeg
    rw [h s hs, any_isSeg_map]; exact hp
  · rename_i hp
    apply List.filter_eq_nil_iff.2
    intro s hs
    show ¬ hasSeg s = true
    unfold hasSeg
    rw [h s hs, any_isSeg_map]; exact hp

theorem flat1_any (sp : SubPath) : (flat1 sp).any PSeg.isSeg = !sp.segs.isEmpty := by
  obtain ⟨s, segs, c, imp⟩ := sp
  have h1 : ∀ g : Seg, g.toPSeg.isSeg = true := by intro g; cases g <;> rfl
  have hm : (PSeg.m s).isSeg = false := rfl
  have hh : PSeg.h.isSeg = false := rfl
  cases segs with
  | nil => cases c <;> simp [flat1, hm, hh]
  | cons g rest => simp [flat1, hm, h1]

/-- One sub-path, with or without segments. -/
theorem per_subpath (g : SGState) (st fi eo : Bool) (sp : SubPath) :
    ((paintSingle g.ctm (argsOf g st fi eo) (flat1 sp)).filter hasSeg).map eraseRectPts =
      (shapeOf g st fi eo sp).toList.map eraseRectPts := by
  rw [filter_hasSeg, flat1_any]
  by_cases hne : sp.segs = []
  · simp [hne, shapeOf]
  · have : sp.segs.isEmpty = false := by
      cases h : sp.segs with
      | nil => exact absurd h hne
      | cons _ _ => rfl
    simp only [this, Bool.not_false, if_true]
    exact paintSingle_flat1 g st fi eo sp hne

/-! ### a whole path: split at `m` -/

def flat (sps : List SubPath) : List PSeg := sps.flatMap flat1

/-- the tail of `flat1` (everything after the `m`) contains no `m`. -/
def tail1 (sp : SubPath) : List PSeg := sp.segs.map Seg.toPSeg ++ (if sp.closed then [PSeg.h] else [])

theorem flat1_eq (sp : SubPath) : flat1 sp = PSeg.m sp.start :: tail1 sp := rfl

theorem tail1_noM (sp : SubPath) : ∀ x ∈ tail1 sp, x.isM = false := by
  intro x hx
  simp only [tail1, List.mem_append, List.mem_map] at hx
  rcases hx with ⟨g, _, rfl⟩ | hx
  · cases g <;> rfl
  · split at hx
    · simp only [List.mem_singleton] at hx; subst hx; rfl
    · cases hx

theorem splitAux_noM (acc xs tail : List PSeg) (h : ∀ x ∈ xs, x.isM = false) :
    splitAux (some acc) (xs ++ tail) = splitAux (some (acc ++ xs)) tail := by
  induction xs generalizing acc with
  | nil => simp
  | cons x rest ih =>
    have hx : x.isM = false := h x (List.mem_cons_self ..)
    simp only [List.cons_append, splitAux, hx, Bool.false_eq_true, if_false]
    rw [ih _ (fun y hy => h y (List.mem_cons_of_mem _ hy))]
    simp

theorem splitAux_flat (cur : Option (List PSeg)) (sps : List SubPath) :
    splitAux cur (flat sps) = flushSub cur ++ (sps.map flat1).filter (fun l => l.length > 1) := by
  induction sps generalizing cur with
  | nil => simp [flat, splitAux]
  | cons sp rest ih =>
    have hm : (PSeg.m sp.start).isM = true := rfl
    have : flat (sp :: rest) = PSeg.m sp.start :: (tail1 sp ++ flat rest) := by
      simp [flat, flat1_eq]
    rw [this]
    simp only [splitAux, hm, if_true]
    rw [splitAux_noM _ _ _ (tail1_noM sp), ih]
    simp only [flushSub, List.map_cons, flat1_eq, List.singleton_append]
    by_cases hl : 0 < (tail1 sp).length
    · simp [List.filter_cons, hl]
    · simp [List.filter_cons, hl]

theorem splitM_flat (sps : List SubPath) :
    splitM (flat sps) = (sps.map flat1).filter (fun l => l.length > 1) := by
  simp [splitM, splitAux_flat, flushSub]

theorem countM_flat (sps : List SubPath) : countM (flat sps) = sps.length := by
  induction sps with
  | nil => rfl
  | cons sp rest ih =>
    have hm : (PSeg.m sp.start).isM = true := rfl
    have ht : (tail1 sp).filter PSeg.isM = [] := by
      apply List.filter_eq_nil_iff.2
      intro x hx; simp [tail1_noM sp x hx]
    have : flat (sp :: rest) = PSeg.m sp.start :: (tail1 sp ++ flat rest) := by
      simp [flat, flat1_eq]
    unfold countM at ih ⊢
    rw [this]
    simp [List.filter_cons, hm, ht, ih]

/-! ### the implicit `m` after `h` -/

/-- The implementation's `curpath` for a list of sub-paths: an implicitly begun sub-path has no `m`. -/
def enc1 (sp : SubPath) : List PSeg := (if sp.implicit then [] else [PSeg.m sp.start]) ++ tail1 sp
def enc (sps : List SubPath) : List PSeg := sps.flatMap enc1

/-- Invariant of the specification's path: an implicit sub-path follows a closed sub-path with the same
start point and has a segment (`stp`/`prevH` describe the sub-path before the list). -/
def okFrom (stp : Point) (prevH : Bool) : List SubPath → Prop
  | [] => True
  | sp :: rest =>
    (sp.implicit = true → prevH = true ∧ sp.start = stp ∧ sp.segs ≠ []) ∧ okFrom sp.start sp.closed rest

theorem ex_segs (st : PSeg) (segs : List Seg) (tail : List PSeg) :
    explicitM st false (segs.map Seg.toPSeg ++ tail) = segs.map Seg.toPSeg ++ explicitM st false tail := by
  induction segs with
  | nil => rfl
  | cons g rest ih =>
    have h1 : g.toPSeg.isM = false := by cases g <;> rfl
    have h2 : g.toPSeg.isH = false := by cases g <;> rfl
    simp only [List.map_cons, List.cons_append, explicitM, h1, h2, Bool.and_false, Bool.false_eq_true, if_false, ih]

theorem ex_tail (st : PSeg) (sp : SubPath) (tail : List PSeg) :
    explicitM st false (tail1 sp ++ tail) = tail1 sp ++ explicitM st sp.closed tail := by
  unfold tail1
  rw [List.append_assoc, ex_segs]
  cases sp.closed
  · simp
  · have h1 : PSeg.h.isM = false := rfl
    have h2 : PSeg.h.isH = true := rfl
    have h3 : PSeg.h.isSeg = false := rfl
    simp [explicitM, h1, h2, h3]

theorem explicitM_enc (stp : Point) (prevH : Bool) (sps : List SubPath) (h : okFrom stp prevH sps) :
    explicitM (PSeg.m stp) prevH (enc sps) = flat sps := by
  induction sps generalizing stp prevH with
  | nil => rfl
  | cons sp rest ih =>
    obtain ⟨h1, h2⟩ := h
    have hf : flat (sp :: rest) = PSeg.m sp.start :: (tail1 sp ++ flat rest) := by simp [flat, flat1_eq]
    have he : enc (sp :: rest) = enc1 sp ++ enc rest := by simp [enc]
    rw [hf, he]
    cases himp : sp.implicit
    · have hm : (PSeg.m sp.start).isM = true := rfl
      simp only [enc1, himp, Bool.false_eq_true, if_false, List.singleton_append, List.cons_append, explicitM, hm,
        if_true, List.nil_append]
      rw [ex_tail, ih _ _ h2]
    · obtain ⟨hp, hs, hne⟩ := h1 himp
      subst hp
      obtain ⟨s, segs, c, imp⟩ := sp
      simp only at hs himp hne h2 ⊢
      subst hs himp
      cases segs with
      | nil => exact absurd rfl hne
      | cons g gs =>
        have g1 : g.toPSeg.isM = false := by cases g <;> rfl
        have g2 : g.toPSeg.isSeg = true := by cases g <;> rfl
        have g3 : g.toPSeg.isH = false := by cases g <;> rfl
        have e1 : enc1 { start := s, segs := g :: gs, closed := c, implicit := true } =
            g.toPSeg :: tail1 { start := s, segs := gs, closed := c, implicit := true } := by
          simp [enc1, tail1]
        have e2 : tail1 { start := s, segs := g :: gs, closed := c, implicit := true } =
            g.toPSeg :: tail1 { start := s, segs := gs, closed := c, implicit := true } := by
          simp [tail1]
        rw [e1, e2]
        simp only [List.cons_append, explicitM, g1, g2, g3, Bool.and_self, Bool.false_eq_true, if_false, if_true]
        rw [ex_tail, ih _ _ h2]

/-! ### paint_path on the implementation's encoding of the specification's path -/

theorem many_subpaths (g : SGState) (st fi eo : Bool) (L : List SubPath) :
    ((((L.map flat1).filter (fun l => l.length > 1)).flatMap
        (paintSingle g.ctm (argsOf g st fi eo))).filter hasSeg).map eraseRectPts =
      (L.filterMap (shapeOf g st fi eo)).map eraseRectPts := by
  induction L with
  | nil => rfl
  | cons sp rest ih =>
    have hps := per_subpath g st fi eo sp
    have hfm : (sp :: rest).filterMap (shapeOf g st fi eo) =
        (shapeOf g st fi eo sp).toList ++ rest.filterMap (shapeOf g st fi eo) := by
      cases h : shapeOf g st fi eo sp <;> simp [List.filterMap_cons, h]
    rw [hfm, List.map_append, ← ih, ← hps]
    by_cases hl : (flat1 sp).length > 1
    · simp [List.filter_cons, hl, List.flatMap_cons, List.filter_append]
    · -- `m` alone: dropped by the regular expression, and without a segment anyway
      have hseg : sp.segs = [] := by
        obtain ⟨s, segs, c, imp⟩ := sp
        cases segs with
        | nil => rfl
        | cons _ _ => simp [flat1] at hl
      have : (paintSingle g.ctm (argsOf g st fi eo) (flat1 sp)).filter hasSeg = [] := by
        rw [filter_hasSeg, flat1_any]; simp [hseg]
      simp [List.filter_cons, hl, this]

theorem paintPath_enc (g : SGState) (st fi eo : Bool) (sps : List SubPath) (stp : Point)
    (hok : okFrom stp false sps) :
    ((paintPath g.ctm (argsOf g st fi eo) (enc sps)).filter hasSeg).map eraseRectPts =
      (sps.filterMap (shapeOf g st fi eo)).map eraseRectPts := by
  cases sps with
  | nil => rfl
  | cons sp rest =>
    have himp : sp.implicit = false := by
      cases h : sp.implicit
      · rfl
      · have := (hok.1 h).1; cases this
    have he : enc (sp :: rest) = PSeg.m sp.start :: (tail1 sp ++ enc rest) := by
      simp [enc, enc1, himp]
    have hok' : okFrom sp.start false (sp :: rest) := ⟨by simp [himp], hok.2⟩
    have hx := explicitM_enc sp.start false (sp :: rest) hok'
    rw [he] at hx ⊢
    simp only [paintPath, hx]
    split
    · rw [splitM_flat]
      exact many_subpaths g st fi eo (sp :: rest)
    · rename_i hc
      rw [countM_flat] at hc
      have hr : rest = [] := by
        cases rest with
        | nil => rfl
        | cons _ _ => simp at hc
      subst hr
      have : flat [sp] = flat1 sp := by simp [flat]
      rw [this]
      have hfm : [sp].filterMap (shapeOf g st fi eo) = (shapeOf g st fi eo sp).toList := by
        cases h : shapeOf g st fi eo sp <;> simp [List.filterMap_cons, h]
      rw [hfm]
      exact per_subpath g st fi eo sp

end PdfVerif.PathLemmas
