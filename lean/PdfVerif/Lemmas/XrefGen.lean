/-
C02 — what the REGENERATED row-addressing fragments of `PDFXRefStream` (Gen/Xref.lean: `pySlice`,
`entlenOf`, `rowOffset`, `rowBytes`, `field1..3`, the `objids…` twins, `inRange`, `indexHit`,
`indexMiss`, `indexStart`) must mean.  Every byte-level theorem about cross-reference streams goes
through these equations, so an edit of the Python fragments breaks them.
-/
import PdfVerif.Model.Xref

namespace PdfVerif.Xref

open PdfVerif.Gen.Xref

theorem pySlice_window (d : Bytes) (off len : Nat) : pySlice d off (some (off + len)) = slice d off len := by
  unfold pySlice slice
  simp only []
  rw [List.drop_take]
  simp

theorem pySlice_prefix (d : Bytes) (k : Nat) : pySlice d 0 (some k) = d.take k := by
  simp [pySlice]

theorem pySlice_suffix (d : Bytes) (k : Nat) : pySlice d k none = d.drop k := rfl

/-- ISO 32000-1 7.5.8.3: rows of `entlen = W1 + W2 + W3` bytes stored back to back. -/
theorem XStream.entlen_eq (x : XStream) : x.entlen = x.fl1 + x.fl2 + x.fl3 := rfl

theorem XStream.row_eq (x : XStream) (i : Nat) : x.row i =
    (nunpack ((slice x.data ((x.fl1 + x.fl2 + x.fl3) * i) (x.fl1 + x.fl2 + x.fl3)).take x.fl1) typeDefault,
     nunpack (((slice x.data ((x.fl1 + x.fl2 + x.fl3) * i) (x.fl1 + x.fl2 + x.fl3)).drop x.fl1).take x.fl2) field2Default,
     nunpack ((slice x.data ((x.fl1 + x.fl2 + x.fl3) * i) (x.fl1 + x.fl2 + x.fl3)).drop (x.fl1 + x.fl2)) field3Default) := by
  simp only [XStream.row, XStream.entlen, entlenOf, rowOffset, rowBytes, field1, field2, field3,
    pySlice_window, pySlice_prefix, pySlice_suffix]
  rfl

theorem XStream.rowType_eq (x : XStream) (i : Nat) : x.rowType i =
    nunpack ((slice x.data ((x.fl1 + x.fl2 + x.fl3) * i) (x.fl1 + x.fl2 + x.fl3)).take x.fl1) objidsTypeDefault := by
  simp only [XStream.rowType, XStream.entlen, entlenOf, objidsRowOffset, objidsRowBytes, objidsField1,
    pySlice_window, pySlice_prefix]

theorem objidsRowOffset_eq (e i : Nat) : objidsRowOffset e i = e * i := rfl

theorem indexStart_eq : indexStart = 0 := rfl

theorem findIndex_nil (n acc : Nat) : findIndex [] n acc = none := rfl

/-- The `/Index` walk: `n` lies in `[s, s + c)` → row `acc + (n - s)`, else `c` rows are skipped. -/
theorem findIndex_cons (s c : Nat) (rest : List (Nat × Nat)) (n acc : Nat) :
    findIndex ((s, c) :: rest) n acc =
      if s ≤ n ∧ n < s + c then some (acc + (n - s)) else findIndex rest n (acc + c) := by
  simp [findIndex, inRange, indexHit, indexMiss]

/-- `range(start, start + nobjs)`: `nobjs` iterations (none when negative) starting at `start`. -/
theorem subCount_eq (s n : Int) : subCount s n = n.toNat := by
  unfold subCount subsectionStop subsectionFirst
  congr 1
  omega

theorem subsectionFirst_eq (s n : Int) : subsectionFirst s n = s := rfl

end PdfVerif.Xref
