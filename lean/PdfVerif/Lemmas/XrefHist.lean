/-
C02 — `Rep` derived for every output of the structural file writer (`Spec/XrefHist.lean`).
-/
import PdfVerif.Lemmas.Xref
import PdfVerif.Spec.XrefHist

namespace PdfVerif.Xref

open PdfVerif.Gen.Xref

/-- The loaded section answers exactly like the list of entries the writer put into it. -/
def SecLists (s : Section) (ents : List (Nat × Entry)) : Prop := ∀ n, s.getPos n = lookupNat ents n

inductive SecsList : List Section → List (List (Nat × Entry)) → Prop
  | nil : SecsList [] []
  | cons {s ss e es} : SecLists s e → SecsList ss es → SecsList (s :: ss) (e :: es)

theorem Rep_snoc {whole objs ss rs s r} (h : Rep whole objs ss rs) (hs : SecRep whole objs s r) :
    Rep whole objs (ss ++ [s]) (rs ++ [r]) := by
  induction h with
  | nil => exact .cons hs .nil
  | cons h1 _ ih => exact .cons h1 ih

/-! ### Positions strictly increase, so the store finds every record -/

def KeysFrom (lo : Nat) (l : List (Nat × Nat × Nat × Val)) (hi : Nat) : Prop :=
  lo ≤ hi ∧ (∀ rec ∈ l, lo ≤ rec.1 ∧ rec.1 < hi) ∧ ∀ rec ∈ l, lookupNat l rec.1 = some rec.2

theorem lookupNat_append_of_lt {α : Type} (a b : List (Nat × α)) (p : Nat) (h : ∀ rec ∈ a, rec.1 ≠ p) :
    lookupNat (a ++ b) p = lookupNat b p := by
  induction a with
  | nil => rfl
  | cons x a ih =>
    obtain ⟨k, v⟩ := x
    have hk : (k == p) = false := by simpa using h (k, v) List.mem_cons_self
    simp only [List.cons_append, lookupNat, hk, Bool.false_eq_true, ↓reduceIte]
    exact ih (fun rec hr => h rec (List.mem_cons_of_mem _ hr))

theorem lookupNat_append_left {α : Type} (a b : List (Nat × α)) (p : Nat) (v : α) (h : lookupNat a p = some v) :
    lookupNat (a ++ b) p = some v := by
  induction a with
  | nil => simp [lookupNat] at h
  | cons x a ih =>
    obtain ⟨k, w⟩ := x
    by_cases hk : (k == p) = true
    · simp only [lookupNat, hk, ↓reduceIte] at h
      simp [lookupNat, hk, h]
    · have hk' : (k == p) = false := by simpa using hk
      simp only [lookupNat, hk', Bool.false_eq_true, ↓reduceIte] at h
      simp only [List.cons_append, lookupNat, hk', Bool.false_eq_true, ↓reduceIte]
      exact ih h

theorem KeysFrom_append {lo mid mid' hi : Nat} {a b : List (Nat × Nat × Nat × Val)}
    (ha : KeysFrom lo a mid) (hm : mid ≤ mid') (hb : KeysFrom mid' b hi) : KeysFrom lo (a ++ b) hi := by
  obtain ⟨h1, h2, h3⟩ := ha
  obtain ⟨g1, g2, g3⟩ := hb
  refine ⟨by omega, ?_, ?_⟩
  · intro rec hr
    rcases List.mem_append.mp hr with h | h
    · have := h2 rec h; omega
    · have := g2 rec h; omega
  · intro rec hr
    rcases List.mem_append.mp hr with h | h
    · exact lookupNat_append_left a b _ _ (h3 rec h)
    · rw [lookupNat_append_of_lt a b rec.1 (fun r hr' => by have := h2 r hr'; have := g2 rec h; omega)]
      exact g3 rec h

def LensPos (objs : List WObj) : Prop := ∀ o ∈ objs, ∀ gap len gen, o.place = .direct gap len gen → 0 < len

theorem placeObjs_keys (objs : List WObj) (cur : Nat) (hl : LensPos objs) :
    KeysFrom cur (placeObjs cur objs).1 (placeObjs cur objs).2 := by
  induction objs generalizing cur with
  | nil => exact ⟨Nat.le_refl _, (fun r hr => by simp [placeObjs] at hr), (fun r hr => by simp [placeObjs] at hr)⟩
  | cons o rest ih =>
    have hrest : LensPos rest := fun x hx => hl x (List.mem_cons_of_mem _ hx)
    cases hp : o.place with
    | member c idx =>
      simp only [placeObjs, hp]
      exact ih cur hrest
    | direct gap len gen =>
      have hpos : 0 < len := hl o List.mem_cons_self gap len gen hp
      simp only [placeObjs, hp]
      have hone : KeysFrom cur [(cur + gap, o.num, gen, o.val)] (cur + gap + len) := by
        refine ⟨by omega, ?_, ?_⟩
        · intro r hr; rw [List.mem_singleton.mp hr]; simp only; omega
        · intro r hr; rw [List.mem_singleton.mp hr]; simp [lookupNat]
      exact KeysFrom_append hone (Nat.le_refl _) (ih (cur + gap + len) hrest)

/-! ### One (sub-)revision -/

theorem placeSub_secRep (whole : History) (store : List (Nat × Nat × Nat × Val)) (k : Nat) (objs : List WObj)
    (cur : Nat) (hstore : ∀ rec ∈ (placeObjs cur objs).1, lookupNat store rec.1 = some rec.2)
    (hmem : ∀ o ∈ objs, ∀ c idx, o.place = .member c idx → memberOK whole c idx o.val = true) (n : Nat) :
    match lookupNat (subDefs k objs) n with
    | none => lookupNat (placeSub k cur objs) n = none
    | some v => ∃ e, lookupNat (placeSub k cur objs) n = some e ∧ entryOK whole store n v e = true := by
  induction objs generalizing cur with
  | nil => simp [lookupNat, placeSub, subDefs]
  | cons o rest ih =>
    have hmem' : ∀ x ∈ rest, ∀ c idx, x.place = .member c idx → memberOK whole c idx x.val = true :=
      fun x hx => hmem x (List.mem_cons_of_mem _ hx)
    by_cases hsub : (o.sub == k) = true
    · have hdefs : subDefs k (o :: rest) = (o.num, o.val) :: subDefs k rest := by
        simp [subDefs, List.filter_cons, hsub]
      rw [hdefs]
      cases hp : o.place with
      | member c idx =>
        simp only [placeObjs, placeSub, hp, hsub, ↓reduceIte] at hstore ⊢
        simp only [lookupNat]
        by_cases hk : (o.num == n) = true
        · simp only [hk, ↓reduceIte]
          exact ⟨_, rfl, hmem o List.mem_cons_self c idx hp⟩
        · have hk' : (o.num == n) = false := by simpa using hk
          simp only [hk', Bool.false_eq_true, ↓reduceIte]
          exact ih cur hstore hmem'
      | direct gap len gen =>
        simp only [placeObjs, placeSub, hp, hsub, ↓reduceIte] at hstore ⊢
        simp only [lookupNat]
        by_cases hk : (o.num == n) = true
        · simp only [hk, ↓reduceIte]
          refine ⟨_, rfl, ?_⟩
          have := hstore (cur + gap, o.num, gen, o.val) List.mem_cons_self
          simp only at this
          simp only [entryOK, this]
          simpa using hk
        · have hk' : (o.num == n) = false := by simpa using hk
          simp only [hk', Bool.false_eq_true, ↓reduceIte]
          exact ih (cur + gap + len) (fun r hr => hstore r (List.mem_cons_of_mem _ hr)) hmem'
    · have hsub' : (o.sub == k) = false := by simpa using hsub
      have hdefs : subDefs k (o :: rest) = subDefs k rest := by
        simp [subDefs, List.filter_cons, hsub']
      rw [hdefs]
      cases hp : o.place with
      | member c idx =>
        simp only [placeObjs, placeSub, hp, hsub', Bool.false_eq_true, ↓reduceIte] at hstore ⊢
        exact ih cur hstore hmem'
      | direct gap len gen =>
        simp only [placeObjs, placeSub, hp, hsub', Bool.false_eq_true, ↓reduceIte] at hstore ⊢
        exact ih (cur + gap + len) (fun r hr => hstore r (List.mem_cons_of_mem _ hr)) hmem'

/-! ### The whole file -/

theorem subRevs_rep (whole : History) (store : List (Nat × Nat × Nat × Val)) (objs : List WObj) (start : Nat)
    (trs : List (Nat × Option Nat)) (k : Nat) (secsOld : List Section)
    (hs : SecsList secsOld (subEnts start objs k trs))
    (hstore : ∀ rec ∈ (placeObjs start objs).1, lookupNat store rec.1 = some rec.2)
    (hmem : ∀ o ∈ objs, ∀ c idx, o.place = .member c idx → memberOK whole c idx o.val = true) :
    Rep whole store secsOld.reverse (subRevs objs k trs).reverse := by
  induction trs generalizing k secsOld with
  | nil =>
    cases hs
    exact .nil
  | cons t rest ih =>
    simp only [subEnts] at hs
    cases hs with
    | cons h1 h2 =>
      simp only [List.reverse_cons, subRevs]
      refine Rep_snoc (ih _ _ h2) ?_
      intro n
      have := placeSub_secRep whole store k objs start hstore hmem n
      simp only [Revision.lookup]
      rw [h1 n]
      exact this

end PdfVerif.Xref
