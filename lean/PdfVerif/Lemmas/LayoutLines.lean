import Mathlib.Data.List.Perm.Subperm
import PdfVerif.Model.Layout
namespace PdfVerif.Layout
open PdfVerif PdfVerif.Gen.Layout
/-! ## group_textlines: the `boxes` dictionary is a partition -/

def keys (d : BoxDict) : List Nat := d.map (·.1)

theorem mem_keys {d : BoxDict} {k : Nat} : k ∈ keys d ↔ ∃ b, (k, b) ∈ d := by
  simp [keys]

theorem dictGet_some_iff {d : BoxDict} (hk : (keys d).Nodup) {k : Nat} {b : TBox} :
    dictGet d k = some b ↔ (k, b) ∈ d := by
  induction d with
  | nil => simp [dictGet]
  | cons e r ih =>
    obtain ⟨k', b'⟩ := e
    simp only [keys, List.map_cons, List.nodup_cons, List.mem_map, not_exists, not_and] at hk
    by_cases h : k' = k
    · subst h
      simp only [dictGet, List.find?_cons, beq_self_eq_true, Option.map_some, Option.some.injEq, List.mem_cons,
        Prod.mk.injEq, true_and]
      constructor
      · intro h; exact Or.inl h.symm
      · rintro (h | h)
        · exact h.symm
        · exact absurd rfl (hk.1 (k', b) h)
    · have ih' := ih hk.2
      have hbeq : (k' == k) = false := by simp [h]
      simp only [dictGet] at ih' ⊢
      simp only [List.find?_cons, hbeq, List.mem_cons, Prod.mk.injEq]
      rw [ih']
      constructor
      · intro h'; exact Or.inr h'
      · rintro (⟨h', _⟩ | h')
        · exact absurd h'.symm h
        · exact h'

theorem dictGet_none_iff {d : BoxDict} {k : Nat} : dictGet d k = none ↔ k ∉ keys d := by
  simp only [dictGet, Option.map_eq_none_iff, List.find?_eq_none, beq_iff_eq, keys, List.mem_map, not_exists, not_and]

theorem mem_dictErase {d : BoxDict} {k k' : Nat} {b : TBox} :
    (k', b) ∈ dictErase d k ↔ (k', b) ∈ d ∧ k' ≠ k := by
  simp [dictErase]

theorem keys_dictErase_nodup {d : BoxDict} (k : Nat) (h : (keys d).Nodup) : (keys (dictErase d k)).Nodup :=
  List.Nodup.sublist (List.Sublist.map _ List.filter_sublist) h

theorem mem_dictSet {d : BoxDict} {k k' : Nat} {b b' : TBox} :
    (k', b') ∈ dictSet d k b ↔ ((k', b') ∈ d ∧ k' ≠ k) ∨ (k' = k ∧ b' = b) := by
  simp [dictSet, mem_dictErase]

theorem keys_dictSet_nodup {d : BoxDict} (k : Nat) (b : TBox) (h : (keys d).Nodup) : (keys (dictSet d k b)).Nodup := by
  simp only [dictSet, keys, List.map_append, List.map_cons, List.map_nil]
  rw [List.nodup_append]
  refine ⟨keys_dictErase_nodup k h, by simp, ?_⟩
  intro a ha c hc
  simp only [List.mem_singleton] at hc
  subst hc
  simp only [List.mem_map] at ha
  obtain ⟨e, he, rfl⟩ := ha
  exact (mem_dictErase.mp he).2

theorem mem_uniq {l : List Nat} {x : Nat} : x ∈ uniq l ↔ x ∈ l := by
  induction l with
  | nil => simp [uniq]
  | cons a r ih =>
    simp only [uniq, List.mem_cons, List.mem_filter, ih, bne_iff_ne, ne_eq]
    constructor
    · rintro (h | ⟨h, _⟩)
      · exact Or.inl h
      · exact Or.inr h
    · intro h
      by_cases hx : x = a
      · exact Or.inl hx
      · rcases h with h | h
        · exact absurd h hx
        · exact Or.inr ⟨h, hx⟩

theorem nodup_uniq (l : List Nat) : (uniq l).Nodup := by
  induction l with
  | nil => simp [uniq]
  | cons a r ih =>
    simp only [uniq, List.nodup_cons, List.mem_filter, bne_self_eq_false, Bool.false_eq_true, and_false,
      not_false_eq_true, true_and]
    exact List.Nodup.sublist List.filter_sublist ih

/-- What `collect` returns. -/
theorem collect_spec : ∀ (nbs : List Nat) (d : BoxDict) (ms : List Nat), (keys d).Nodup →
    (∀ k b, (k, b) ∈ (collect d ms nbs).1 ↔ ((k, b) ∈ d ∧ k ∉ nbs)) ∧
    (∀ m, m ∈ (collect d ms nbs).2 ↔
      (m ∈ ms ∨ m ∈ nbs ∨ ∃ o ∈ nbs, ∃ b, (o, b) ∈ d ∧ m ∈ b.members)) := by
  intro nbs
  induction nbs with
  | nil => intro d ms _; simp [collect]
  | cons o rest ih =>
    intro d ms hk
    cases hg : dictGet d o with
    | none =>
      have hno : ∀ b, (o, b) ∉ d := by
        intro b hb
        exact (dictGet_none_iff.mp hg) (mem_keys.mpr ⟨b, hb⟩)
      have := ih d (ms ++ [o]) hk
      simp only [collect, hg]
      refine ⟨?_, ?_⟩
      · intro k b
        rw [this.1]
        simp only [List.mem_cons, not_or]
        constructor
        · rintro ⟨h1, h2⟩
          exact ⟨h1, fun hko => hno b (hko ▸ h1), h2⟩
        · rintro ⟨h1, _, h2⟩; exact ⟨h1, h2⟩
      · intro m
        rw [this.2]
        simp only [List.mem_append, List.mem_cons, List.not_mem_nil, or_false, exists_eq_or_imp]
        constructor
        · rintro ((h | h) | h | h)
          · exact Or.inl h
          · exact Or.inr (Or.inl (Or.inl h))
          · exact Or.inr (Or.inl (Or.inr h))
          · exact Or.inr (Or.inr (Or.inr h))
        · rintro (h | (h | h) | (⟨b, hb, _⟩ | h))
          · exact Or.inl (Or.inl h)
          · exact Or.inl (Or.inr h)
          · exact Or.inr (Or.inl h)
          · exact absurd hb (hno b)
          · exact Or.inr (Or.inr h)
    | some bo =>
      have hbo : (o, bo) ∈ d := (dictGet_some_iff hk).mp hg
      have huniq : ∀ b, (o, b) ∈ d → b = bo := by
        intro b hb
        have := (dictGet_some_iff hk).mpr hb
        rw [hg] at this
        exact (Option.some.inj this).symm
      have := ih (dictErase d o) (ms ++ [o] ++ bo.members) (keys_dictErase_nodup o hk)
      simp only [collect, hg]
      refine ⟨?_, ?_⟩
      · intro k b
        rw [this.1, mem_dictErase]
        simp only [List.mem_cons, not_or]
        constructor
        · rintro ⟨⟨h1, h2⟩, h3⟩; exact ⟨h1, h2, h3⟩
        · rintro ⟨h1, h2, h3⟩; exact ⟨⟨h1, h2⟩, h3⟩
      · intro m
        rw [this.2]
        simp only [List.mem_append, List.mem_cons, List.not_mem_nil, or_false, exists_eq_or_imp, mem_dictErase]
        constructor
        · rintro (((h | h) | h) | h | ⟨o', ho', b, ⟨hb, _⟩, hm⟩)
          · exact Or.inl h
          · exact Or.inr (Or.inl (Or.inl h))
          · exact Or.inr (Or.inr (Or.inl ⟨bo, hbo, h⟩))
          · exact Or.inr (Or.inl (Or.inr h))
          · exact Or.inr (Or.inr (Or.inr ⟨o', ho', b, hb, hm⟩))
        · rintro (h | (h | h) | (⟨b, hb, hm⟩ | ⟨o', ho', b, hb, hm⟩))
          · exact Or.inl (Or.inl (Or.inl h))
          · exact Or.inl (Or.inl (Or.inr h))
          · exact Or.inr (Or.inl h)
          · rw [huniq b hb] at hm; exact Or.inl (Or.inr hm)
          · by_cases hoo : o' = o
            · subst hoo
              rw [huniq b hb] at hm; exact Or.inl (Or.inr hm)
            · exact Or.inr (Or.inr ⟨o', ho', b, ⟨hb, hoo⟩, hm⟩)

theorem collect_keys_sublist : ∀ (nbs : List Nat) (d : BoxDict) (ms : List Nat),
    (keys (collect d ms nbs).1).Sublist (keys d) := by
  intro nbs
  induction nbs with
  | nil => intro d ms; simp [collect]
  | cons o rest ih =>
    intro d ms
    simp only [collect]
    cases hg : dictGet d o with
    | none => exact ih d _
    | some bo => exact (ih (dictErase d o) _).trans (List.Sublist.map _ List.filter_sublist)

theorem foldl_dictSet_spec (B : TBox) : ∀ (ms : List Nat) (d : BoxDict), (keys d).Nodup →
    (keys (ms.foldl (fun d m => dictSet d m B) d)).Nodup ∧
    ∀ k b, (k, b) ∈ ms.foldl (fun d m => dictSet d m B) d ↔ (((k, b) ∈ d ∧ k ∉ ms) ∨ (k ∈ ms ∧ b = B)) := by
  intro ms
  induction ms with
  | nil => intro d h; simp [h]
  | cons m rest ih =>
    intro d h
    have := ih (dictSet d m B) (keys_dictSet_nodup m B h)
    simp only [List.foldl_cons]
    refine ⟨this.1, ?_⟩
    intro k b
    rw [this.2, mem_dictSet]
    simp only [List.mem_cons, not_or]
    constructor
    · rintro (⟨(⟨h1, h2⟩ | ⟨h1, h2⟩), h3⟩ | ⟨h1, h2⟩)
      · exact Or.inl ⟨h1, h2, h3⟩
      · exact Or.inr ⟨Or.inl h1, h2⟩
      · exact Or.inr ⟨Or.inr h1, h2⟩
    · rintro (⟨h1, h2, h3⟩ | ⟨h1 | h1, h2⟩)
      · exact Or.inl ⟨Or.inl ⟨h1, h2⟩, h3⟩
      · by_cases hr : k ∈ rest
        · exact Or.inr ⟨hr, h2⟩
        · exact Or.inl ⟨Or.inr ⟨h1, h2⟩, hr⟩
      · exact Or.inr ⟨h1, h2⟩

/-- The set of lines that end up in the box created for line `i`. -/
def inNew (d : BoxDict) (i : Nat) (nbs : List Nat) (m : Nat) : Prop :=
  m = i ∨ m ∈ nbs ∨ ∃ o ∈ nbs, ∃ b, (o, b) ∈ d ∧ m ∈ b.members

theorem gtlStep_spec (d : BoxDict) (i : Nat) (nbs : List Nat) (hk : (keys d).Nodup) :
    (keys (gtlStep d i nbs)).Nodup ∧
    ∃ B : TBox, B.bid = i ∧ B.members.Nodup ∧ (∀ m, m ∈ B.members ↔ inNew d i nbs m) ∧
      ∀ k b, (k, b) ∈ gtlStep d i nbs ↔ (((k, b) ∈ d ∧ ¬ inNew d i nbs k) ∨ (inNew d i nbs k ∧ b = B)) := by
  have hc := collect_spec nbs d [i] hk
  have hk1 : (keys (collect d [i] nbs).1).Nodup := List.Nodup.sublist (collect_keys_sublist nbs d [i]) hk
  have hms : ∀ m, m ∈ uniq (collect d [i] nbs).2 ↔ inNew d i nbs m := by
    intro m
    rw [mem_uniq, hc.2]
    simp [inNew]
  have hf := foldl_dictSet_spec ⟨i, uniq (collect d [i] nbs).2⟩ (uniq (collect d [i] nbs).2) (collect d [i] nbs).1 hk1
  refine ⟨hf.1, ⟨i, uniq (collect d [i] nbs).2⟩, rfl, nodup_uniq _, hms, ?_⟩
  intro k b
  show (k, b) ∈ List.foldl _ _ _ ↔ _
  rw [hf.2, hc.1, hms]
  constructor
  · rintro (⟨⟨h1, _⟩, h3⟩ | h)
    · exact Or.inl ⟨h1, h3⟩
    · exact Or.inr h
  · rintro (⟨h1, h2⟩ | h)
    · exact Or.inl ⟨⟨h1, fun hn => h2 (Or.inr (Or.inl hn))⟩, h2⟩
    · exact Or.inr h

structure PInv (d : BoxDict) : Prop where
  keysNodup : (keys d).Nodup
  self : ∀ k b, (k, b) ∈ d → k ∈ b.members
  closed : ∀ k b, (k, b) ∈ d → ∀ m ∈ b.members, (m, b) ∈ d
  membersNodup : ∀ k b, (k, b) ∈ d → b.members.Nodup
  bidInj : ∀ k b k' b', (k, b) ∈ d → (k', b') ∈ d → b.bid = b'.bid → b = b'

theorem pinv_unique {d : BoxDict} (h : PInv d) {k : Nat} {b b' : TBox} (h1 : (k, b) ∈ d) (h2 : (k, b') ∈ d) : b = b' := by
  have a := (dictGet_some_iff h.keysNodup).mpr h1
  have c := (dictGet_some_iff h.keysNodup).mpr h2
  rw [a] at c
  exact Option.some.inj c

/-- One iteration keeps the partition, provided the line is its own neighbour or is not yet in a box,
and no existing box carries the identity `i`. -/
theorem gtlStep_pinv {d : BoxDict} (h : PInv d) (i : Nat) (nbs : List Nat)
    (hself : i ∈ nbs ∨ i ∉ keys d) (hfresh : ∀ k b, (k, b) ∈ d → b.bid ≠ i) :
    PInv (gtlStep d i nbs) := by
  obtain ⟨hkn, B, hBid, hBn, hBm, hmem⟩ := gtlStep_spec d i nbs h.keysNodup
  -- an old box that meets the new member set lies inside it entirely
  have hwhole : ∀ k b, (k, b) ∈ d → ∀ m ∈ b.members, inNew d i nbs m → inNew d i nbs k := by
    intro k b hkb m hm hin
    have hmb : (m, b) ∈ d := h.closed k b hkb m hm
    have hkmem : k ∈ b.members := h.self k b hkb
    rcases hin with rfl | hin | ⟨o, ho, b', hob', hmb'⟩
    · -- m = i is a key, so i is its own neighbour
      rcases hself with hs | hs
      · exact Or.inr (Or.inr ⟨m, hs, b, hmb, hkmem⟩)
      · exact absurd (mem_keys.mpr ⟨b, hmb⟩) hs
    · exact Or.inr (Or.inr ⟨m, hin, b, hmb, hkmem⟩)
    · have hmb'' : (m, b') ∈ d := h.closed o b' hob' m hmb'
      have : b = b' := pinv_unique h hmb hmb''
      subst this
      exact Or.inr (Or.inr ⟨o, ho, b, hob', hkmem⟩)
  refine ⟨hkn, ?_, ?_, ?_, ?_⟩
  · intro k b hkb
    rcases (hmem k b).mp hkb with ⟨h1, _⟩ | ⟨h1, rfl⟩
    · exact h.self k b h1
    · exact (hBm k).mpr h1
  · intro k b hkb m hm
    rcases (hmem k b).mp hkb with ⟨h1, h2⟩ | ⟨_, rfl⟩
    · refine (hmem m b).mpr (Or.inl ⟨h.closed k b h1 m hm, ?_⟩)
      intro hin
      exact h2 (hwhole k b h1 m hm hin)
    · exact (hmem m b).mpr (Or.inr ⟨(hBm m).mp hm, rfl⟩)
  · intro k b hkb
    rcases (hmem k b).mp hkb with ⟨h1, _⟩ | ⟨_, rfl⟩
    · exact h.membersNodup k b h1
    · exact hBn
  · intro k b k' b' hkb hkb' hbid
    rcases (hmem k b).mp hkb with ⟨h1, _⟩ | ⟨_, rfl⟩ <;> rcases (hmem k' b').mp hkb' with ⟨h1', _⟩ | ⟨_, rfl⟩
    · exact h.bidInj k b k' b' h1 h1' hbid
    · exact absurd (hbid.trans hBid) (hfresh k b h1)
    · exact absurd (hbid.symm.trans hBid) (hfresh k' b' h1')
    · rfl


/-! ### the whole first loop -/

structure RunInv (n : Nat) (nb : Nat → List Nat) (seen : List Nat) (d : BoxDict) : Prop where
  p : PInv d
  cover : ∀ i ∈ seen, i ∈ keys d
  bids : ∀ k b, (k, b) ∈ d → b.bid ∈ seen
  lt : ∀ k ∈ keys d, k < n
  emptyCase : (∀ i, nb i = []) → ∀ k ∈ keys d, k ∈ seen

theorem gtlStep_run {n : Nat} {nb : Nat → List Nat} {seen : List Nat} {d : BoxDict}
    (h : RunInv n nb seen d) (i : Nat) (hi : i < n) (his : i ∉ seen)
    (hnb : ∀ j ∈ nb i, j < n) (H : (∀ i, i < n → i ∈ nb i) ∨ (∀ i, nb i = [])) :
    RunInv n nb (i :: seen) (gtlStep d i (nb i)) := by
  have hself : i ∈ nb i ∨ i ∉ keys d := by
    rcases H with H | H
    · exact Or.inl (H i hi)
    · exact Or.inr (fun hk => his (h.emptyCase H i hk))
  have hfresh : ∀ k b, (k, b) ∈ d → b.bid ≠ i := fun k b hkb hbid => his (hbid ▸ h.bids k b hkb)
  have hp := gtlStep_pinv h.p i (nb i) hself hfresh
  obtain ⟨_, B, hBid, _, hBm, hmem⟩ := gtlStep_spec d i (nb i) h.p.keysNodup
  refine ⟨hp, ?_, ?_, ?_, ?_⟩
  · intro j hj
    simp only [List.mem_cons] at hj
    rcases hj with rfl | hj
    · exact mem_keys.mpr ⟨B, (hmem j B).mpr (Or.inr ⟨Or.inl rfl, rfl⟩)⟩
    · obtain ⟨b, hb⟩ := mem_keys.mp (h.cover j hj)
      by_cases hin : inNew d i (nb i) j
      · exact mem_keys.mpr ⟨B, (hmem j B).mpr (Or.inr ⟨hin, rfl⟩)⟩
      · exact mem_keys.mpr ⟨b, (hmem j b).mpr (Or.inl ⟨hb, hin⟩)⟩
  · intro k b hkb
    rcases (hmem k b).mp hkb with ⟨h1, _⟩ | ⟨_, rfl⟩
    · exact List.mem_cons_of_mem _ (h.bids k b h1)
    · rw [hBid]; exact List.mem_cons_self
  · intro k hk
    obtain ⟨b, hkb⟩ := mem_keys.mp hk
    rcases (hmem k b).mp hkb with ⟨h1, _⟩ | ⟨hin, _⟩
    · exact h.lt k (mem_keys.mpr ⟨b, h1⟩)
    · rcases hin with rfl | hin | ⟨o, _, b', hob', hm⟩
      · exact hi
      · exact hnb k hin
      · exact h.lt k (mem_keys.mpr ⟨b', h.p.closed o b' hob' k hm⟩)
  · intro He k hk
    obtain ⟨b, hkb⟩ := mem_keys.mp hk
    rcases (hmem k b).mp hkb with ⟨h1, _⟩ | ⟨hin, _⟩
    · exact List.mem_cons_of_mem _ (h.emptyCase He k (mem_keys.mpr ⟨b, h1⟩))
    · rw [He i] at hin
      rcases hin with rfl | hin | ⟨o, ho, _⟩
      · exact List.mem_cons_self
      · simp at hin
      · simp at ho

theorem gtlDict_run {n : Nat} {nb : Nat → List Nat} (hnb : ∀ i, ∀ j ∈ nb i, j < n)
    (H : (∀ i, i < n → i ∈ nb i) ∨ (∀ i, nb i = [])) :
    ∀ (idx seen : List Nat) (d : BoxDict), RunInv n nb seen d → (∀ i ∈ idx, i < n) → (seen.reverse ++ idx).Nodup →
      RunInv n nb (idx.reverse ++ seen) (gtlDict nb d idx) := by
  intro idx
  induction idx with
  | nil => intro seen d h _ _; simpa [gtlDict] using h
  | cons i rest ih =>
    intro seen d h hlt hnd
    have his : i ∉ seen := by
      intro hc
      rw [List.nodup_append] at hnd
      exact hnd.2.2 i (List.mem_reverse.mpr hc) i List.mem_cons_self rfl
    have := gtlStep_run h i (hlt i List.mem_cons_self) his (hnb i) H
    have := ih (i :: seen) _ this (fun j hj => hlt j (List.mem_cons_of_mem _ hj))
      (by simpa [List.reverse_cons, List.append_assoc] using hnd)
    simpa [gtlDict, List.reverse_cons, List.append_assoc] using this

/-! ### the second loop -/

theorem gtlYield_spec {d : BoxDict} (hp : PInv d) : ∀ (idx done : List Nat),
    (∀ t ∈ gtlYield d done idx, t.bid ∉ done ∧ ∃ i ∈ idx, (i, t) ∈ d) ∧
    (gtlYield d done idx).Pairwise (fun a b => a.bid ≠ b.bid) ∧
    (∀ i ∈ idx, ∀ t, (i, t) ∈ d → t.bid ∈ done ∨ t ∈ gtlYield d done idx) := by
  intro idx
  induction idx with
  | nil => intro done; simp [gtlYield]
  | cons i rest ih =>
    intro done
    cases hg : dictGet d i with
    | none =>
      have hno : ∀ t, (i, t) ∉ d := fun t ht => (dictGet_none_iff.mp hg) (mem_keys.mpr ⟨t, ht⟩)
      have := ih done
      simp only [gtlYield, hg]
      refine ⟨?_, this.2.1, ?_⟩
      · intro t ht
        obtain ⟨h1, j, hj, hjt⟩ := this.1 t ht
        exact ⟨h1, j, List.mem_cons_of_mem _ hj, hjt⟩
      · intro j hj t hjt
        simp only [List.mem_cons] at hj
        rcases hj with rfl | hj
        · exact absurd hjt (hno t)
        · exact this.2.2 j hj t hjt
    | some t0 =>
      have ht0 : (i, t0) ∈ d := (dictGet_some_iff hp.keysNodup).mp hg
      by_cases hdone : done.contains t0.bid = true
      · have := ih done
        simp only [gtlYield, hg, hdone, if_true]
        refine ⟨?_, this.2.1, ?_⟩
        · intro t ht
          obtain ⟨h1, j, hj, hjt⟩ := this.1 t ht
          exact ⟨h1, j, List.mem_cons_of_mem _ hj, hjt⟩
        · intro j hj t hjt
          simp only [List.mem_cons] at hj
          rcases hj with rfl | hj
          · left
            rw [pinv_unique hp hjt ht0]
            simpa using hdone
          · exact this.2.2 j hj t hjt
      · have := ih (t0.bid :: done)
        have hnd : t0.bid ∉ done := by simpa using hdone
        simp only [gtlYield, hg, hdone]
        refine ⟨?_, ?_, ?_⟩
        · intro t ht
          simp only [Bool.false_eq_true, if_false, List.mem_cons] at ht
          rcases ht with rfl | ht
          · exact ⟨hnd, i, List.mem_cons_self, ht0⟩
          · obtain ⟨h1, j, hj, hjt⟩ := this.1 t ht
            exact ⟨fun hc => h1 (List.mem_cons_of_mem _ hc), j, List.mem_cons_of_mem _ hj, hjt⟩
        · simp only [Bool.false_eq_true, if_false, List.pairwise_cons]
          refine ⟨?_, this.2.1⟩
          intro t ht heq
          exact (this.1 t ht).1 (heq ▸ List.mem_cons_self)
        · intro j hj t hjt
          simp only [Bool.false_eq_true, if_false, List.mem_cons]
          simp only [List.mem_cons] at hj
          rcases hj with rfl | hj
          · exact Or.inr (Or.inl (pinv_unique hp hjt ht0))
          · rcases this.2.2 j hj t hjt with h1 | h1
            · simp only [List.mem_cons] at h1
              rcases h1 with h1 | h1
              · exact Or.inr (Or.inl (hp.bidInj j t i t0 hjt ht0 h1))
              · exact Or.inl h1
            · exact Or.inr (Or.inr h1)

theorem nodup_flatMap_of_disjoint {α : Type} (f : α → List Nat) : ∀ (l : List α),
    (∀ x ∈ l, (f x).Nodup) → l.Pairwise (fun a b => ∀ m, m ∈ f a → m ∉ f b) → (l.flatMap f).Nodup
  | [], _, _ => by simp
  | x :: r, h1, h2 => by
    simp only [List.pairwise_cons] at h2
    simp only [List.flatMap_cons]
    rw [List.nodup_append]
    refine ⟨h1 x List.mem_cons_self, nodup_flatMap_of_disjoint f r (fun y hy => h1 y (List.mem_cons_of_mem _ hy)) h2.2, ?_⟩
    intro a ha b hb heq
    subst heq
    simp only [List.mem_flatMap] at hb
    obtain ⟨y, hy, hay⟩ := hb
    exact h2.1 y hy a ha hay

/-- **group_textlines is a partition.**  Whatever the neighbour lists are - as long as every line
is its own neighbour (or no line has any neighbour) - the boxes that the second loop yields contain
every line number `0..n-1` exactly once. -/
theorem gtl_partition (n : Nat) (nb : Nat → List Nat) (hnb : ∀ i, ∀ j ∈ nb i, j < n)
    (H : (∀ i, i < n → i ∈ nb i) ∨ (∀ i, nb i = [])) :
    ((gtlYield (gtlDict nb [] (List.range n)) [] (List.range n)).flatMap (·.members)).Perm (List.range n)
    ∧ (∀ t ∈ gtlYield (gtlDict nb [] (List.range n)) [] (List.range n), t.members ≠ [] ∧ t.bid < n)
    ∧ (gtlYield (gtlDict nb [] (List.range n)) [] (List.range n)).Pairwise (fun a b => a.bid ≠ b.bid) := by
  have h0 : RunInv n nb [] [] := by
    refine ⟨⟨by simp [keys], ?_, ?_, ?_, ?_⟩, by simp, ?_, by simp [keys], by simp [keys]⟩ <;> simp
  have hrun := gtlDict_run hnb H (List.range n) [] [] h0 (fun i hi => List.mem_range.mp hi)
    (by simpa using List.nodup_range)
  simp only [List.append_nil] at hrun
  set d := gtlDict nb [] (List.range n) with hd
  have hy := gtlYield_spec hrun.p (List.range n) []
  refine ⟨?_, ?_, hy.2.1⟩
  · rw [List.perm_ext_iff_of_nodup ?_ List.nodup_range]
    · intro j
      simp only [List.mem_flatMap, List.mem_range]
      constructor
      · rintro ⟨t, ht, hjt⟩
        obtain ⟨_, i, _, hit⟩ := hy.1 t ht
        exact hrun.lt j (mem_keys.mpr ⟨t, hrun.p.closed i t hit j hjt⟩)
      · intro hj
        have : j ∈ keys d := hrun.cover j (by simpa using hj)
        obtain ⟨t, hjt⟩ := mem_keys.mp this
        rcases hy.2.2 j (List.mem_range.mpr hj) t hjt with h | h
        · simp at h
        · exact ⟨t, h, hrun.p.self j t hjt⟩
    · apply nodup_flatMap_of_disjoint
      · intro t ht
        obtain ⟨_, i, _, hit⟩ := hy.1 t ht
        exact hrun.p.membersNodup i t hit
      · refine hy.2.1.imp_of_mem ?_
        intro a b ha hb hab m hma hmb
        obtain ⟨_, i, _, hia⟩ := hy.1 a ha
        obtain ⟨_, i', _, hib⟩ := hy.1 b hb
        have h1 := hrun.p.closed i a hia m hma
        have h2 := hrun.p.closed i' b hib m hmb
        exact hab (by rw [pinv_unique hrun.p h1 h2])
  · intro t ht
    obtain ⟨_, i, _, hit⟩ := hy.1 t ht
    refine ⟨fun he => ?_, ?_⟩
    · have := hrun.p.self i t hit
      rw [he] at this; simp at this
    · have := hrun.bids i t hit
      simpa using List.mem_range.mp (by simpa using this)

end PdfVerif.Layout
