/-
Round 6c — `do_keyword`'s dictionary assembly `{literal_name(k): v for (k, v) in choplist(2, objs)}`:
a later pair with the same key replaces the value of an earlier one.
-/
import PdfVerif.Model.InlineDict

namespace PdfVerif.InlineDictLemmas
open PdfVerif PdfVerif.InlineDict

/-- The operand list of a run of `/key value` pairs. -/
def objsOf : List (Bytes × Val) → List Val
  | [] => []
  | (k, v) :: rest => .name k :: v :: objsOf rest

/-- The value of the LAST pair with key `k`. -/
def lastVal (ps : List (Bytes × Val)) (k : Bytes) : Option Val :=
  (ps.reverse.find? (fun p => p.1 == k)).map (·.2)

theorem lookup_nil (k : Bytes) : lookup [] k = none := rfl

theorem lookup_cons (a : Bytes) (b : Val) (t : Dict) (k : Bytes) :
    lookup ((a, b) :: t) k = if a = k then some b else lookup t k := by
  simp only [lookup, List.find?_cons]
  by_cases h : a = k
  · simp [h]
  · have : (a == k) = false := by simpa using h
    simp [h, this]

theorem lookup_map_set (k : Bytes) (v : Val) : ∀ (d : Dict) (k' : Bytes),
    lookup (d.map (fun p => if p.1 == k then (k, v) else p)) k' =
      if k = k' then (if d.any (fun p => p.1 == k) then some v else none) else lookup d k'
  | [], k' => by simp [lookup]
  | (a, b) :: t, k' => by
    have ih := lookup_map_set k v t k'
    simp only [List.map_cons, List.any_cons]
    by_cases hak : a = k
    · subst hak
      simp only [beq_self_eq_true, if_true, Bool.true_or, lookup_cons]
      by_cases h : a = k'
      · simp [h]
      · simp only [h, if_false] at ih ⊢
        exact ih
    · have hb : (a == k) = false := by simpa using hak
      simp only [hb, Bool.false_eq_true, if_false, Bool.false_or, lookup_cons]
      by_cases h : k = k'
      · subst h
        simp only [hak, if_false, if_true] at ih ⊢
        exact ih
      · simp only [h, if_false] at ih ⊢
        rw [ih]

theorem lookup_append_one (k : Bytes) (v : Val) : ∀ (d : Dict) (k' : Bytes),
    lookup (d ++ [(k, v)]) k' = match lookup d k' with
      | some x => some x
      | none => if k = k' then some v else none
  | [], k' => by simp [lookup_cons, lookup_nil]
  | (a, b) :: t, k' => by
    simp only [List.cons_append, lookup_cons]
    by_cases h : a = k'
    · simp [h]
    · simp only [h, if_false]
      exact lookup_append_one k v t k'

theorem lookup_none_of_not_any (k : Bytes) : ∀ (d : Dict), d.any (fun p => p.1 == k) = false → lookup d k = none
  | [], _ => rfl
  | (a, b) :: t, h => by
    simp only [List.any_cons, Bool.or_eq_false_iff] at h
    have : ¬ a = k := by simpa using h.1
    rw [lookup_cons, if_neg this]
    exact lookup_none_of_not_any k t h.2

/-- Python dict assignment seen through `lookup`. -/
theorem lookup_dictSet (d : Dict) (k : Bytes) (v : Val) (k' : Bytes) :
    lookup (dictSet d k v) k' = if k = k' then some v else lookup d k' := by
  unfold dictSet
  by_cases hany : d.any (fun p => p.1 == k) = true
  · rw [if_pos hany, lookup_map_set, hany]
    simp
  · have hf : d.any (fun p => p.1 == k) = false := Bool.eq_false_iff.mpr hany
    rw [if_neg hany, lookup_append_one]
    by_cases h : k = k'
    · subst h
      rw [lookup_none_of_not_any k d hf]
    · simp only [h, if_false]
      cases lookup d k' <;> simp

theorem assembleFrom_objsOf : ∀ (ps : List (Bytes × Val)) (d : Dict),
    assembleFrom (objsOf ps) d = .ok (ps.foldl (fun d p => dictSet d p.1 p.2) d)
  | [], d => rfl
  | (k, v) :: rest, d => by
    simp only [objsOf, assembleFrom, List.foldl_cons]
    exact assembleFrom_objsOf rest _

theorem length_objsOf : ∀ (ps : List (Bytes × Val)), (objsOf ps).length = 2 * ps.length
  | [] => rfl
  | (k, v) :: rest => by simp [objsOf, length_objsOf rest]; omega

theorem lookup_foldl : ∀ (ps : List (Bytes × Val)) (d : Dict) (k : Bytes),
    lookup (ps.foldl (fun d p => dictSet d p.1 p.2) d) k =
      match lastVal ps k with
      | some v => some v
      | none => lookup d k
  | [], d, k => by simp [lastVal]
  | (a, b) :: rest, d, k => by
    simp only [List.foldl_cons]
    rw [lookup_foldl rest (dictSet d a b) k, lookup_dictSet]
    simp only [lastVal, List.reverse_cons, List.find?_append]
    cases h : (rest.reverse.find? (fun p => p.1 == k)) with
    | some x => simp
    | none =>
      by_cases hak : a = k
      · simp [hak]
      · have : (a == k) = false := by simpa using hak
        simp [hak, this]

end PdfVerif.InlineDictLemmas
