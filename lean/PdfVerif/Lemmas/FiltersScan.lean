/-
C03 helper lemmas (round 6) — substring search, the `endstream` scan of the `stream` branch and
the Length clamp.  Core Lean only.
-/
import PdfVerif.Lemmas.FiltersCodec

namespace PdfVerif.Filters
open PdfVerif PdfVerif.FilterEnc PdfVerif.Gen.Filters

theorem startsWith_self_append (p x : Bytes) : startsWith p (p ++ x) = true := by
  induction p with
  | nil => simp [startsWith]
  | cons c p ih => simp [startsWith, ih]

theorem startsWith_append_true (p s x : Bytes) (h : startsWith p s = true) : startsWith p (s ++ x) = true := by
  induction p generalizing s with
  | nil => simp [startsWith]
  | cons c p ih =>
    cases s with
    | nil => simp [startsWith] at h
    | cons d s =>
      simp only [startsWith, Bool.and_eq_true] at h
      simp only [List.cons_append, startsWith, Bool.and_eq_true]
      exact ⟨h.1, ih s h.2⟩

theorem startsWith_append_false (p s x : Bytes) (h : startsWith p s = false) (hl : p.length ≤ s.length) :
    startsWith p (s ++ x) = false := by
  induction p generalizing s with
  | nil => simp [startsWith] at h
  | cons c p ih =>
    cases s with
    | nil => simp at hl
    | cons d s =>
      simp only [List.length_cons, Nat.add_le_add_iff_right] at hl
      simp only [startsWith, Bool.and_eq_false_iff] at h
      simp only [List.cons_append, startsWith, Bool.and_eq_false_iff]
      rcases h with h | h
      · exact Or.inl h
      · exact Or.inr (ih s h hl)

/-- If the first occurrence of `E` in `d ++ E` is the final one, appending more bytes does not
create an earlier one. -/
theorem findSub_extend (E d x : Bytes) (h : findSub E (d ++ E) = some d.length) :
    findSub E (d ++ E ++ x) = some d.length := by
  induction d with
  | nil =>
    cases E with
    | nil => simp [findSub, startsWith] ; cases x <;> simp [findSub, startsWith]
    | cons e E =>
      have := startsWith_self_append (e :: E) x
      simp only [List.nil_append, List.cons_append] at this ⊢
      simp [findSub, this]
  | cons c d ih =>
    simp only [List.cons_append, findSub, List.length_cons] at h ⊢
    by_cases hs : startsWith E (c :: (d ++ E)) = true
    · simp [hs] at h
    · have hs' : startsWith E (c :: (d ++ E)) = false := by simpa using hs
      simp only [hs', Bool.false_eq_true, if_false] at h
      have hd : findSub E (d ++ E) = some d.length := by
        cases hf : findSub E (d ++ E) with
        | none => simp [hf] at h
        | some i => simp [hf] at h; simp [h]
      have hx : startsWith E (c :: (d ++ E ++ x)) = false := by
        have := startsWith_append_false E (c :: (d ++ E)) x hs' (by simp; omega)
        simpa using this
      have hx' : startsWith E (c :: (d ++ (E ++ x))) = false := by simpa using hx
      have hi := ih hd
      rw [List.append_assoc] at hi
      simp [hx', hi]

/-- An occurrence found at or after `|u|` in `u ++ v`: none in `u`, and the first one in `v`. -/
theorem findSub_split (E u v : Bytes) (n : Nat) (hE : E ≠ []) (h : findSub E (u ++ v) = some n) (hn : u.length ≤ n) :
    findSub E u = none ∧ findSub E v = some (n - u.length) := by
  induction u generalizing n with
  | nil =>
    cases E with
    | nil => exact absurd rfl hE
    | cons e E => simpa [findSub, startsWith] using h
  | cons c u ih =>
    simp only [List.cons_append, findSub] at h
    simp only [List.length_cons] at hn
    by_cases hs : startsWith E (c :: (u ++ v)) = true
    · simp [hs] at h; omega
    · have hs' : startsWith E (c :: (u ++ v)) = false := by simpa using hs
      simp only [hs', Bool.false_eq_true, if_false] at h
      cases hf : findSub E (u ++ v) with
      | none => simp [hf] at h
      | some i =>
        simp [hf] at h
        have := ih i hf (by omega)
        have hcu : startsWith E (c :: u) = false := by
          cases hcu : startsWith E (c :: u) with
          | false => rfl
          | true =>
            have := startsWith_append_true E (c :: u) v hcu
            simp [hs'] at this
        refine ⟨by simp [findSub, hcu, this.1], ?_⟩
        rw [this.2]; simp; omega

/-- Every byte string either has no line end or starts with a complete line. -/
theorem line_decomp (d : Bytes) :
    (∀ c ∈ d, c ≠ 10 ∧ c ≠ 13) ∨
    ∃ a eol d', d = a ++ eol ++ d' ∧ (∀ c ∈ a, c ≠ 10 ∧ c ≠ 13) ∧
      (eol = [10] ∨ eol = [13, 10] ∨ (eol = [13] ∧ (d' = [] ∨ ∃ c t, d' = c :: t ∧ c ≠ 10))) := by
  induction d with
  | nil => left; simp
  | cons c t ih =>
    by_cases h10 : c = 10
    · right; exact ⟨[], [10], t, by simp [h10], by simp, Or.inl rfl⟩
    · by_cases h13 : c = 13
      · right
        cases t with
        | nil => exact ⟨[], [13], [], by simp [h13], by simp, Or.inr (Or.inr ⟨rfl, Or.inl rfl⟩)⟩
        | cons x t' =>
          by_cases hx : x = 10
          · exact ⟨[], [13, 10], t', by simp [h13, hx], by simp, Or.inr (Or.inl rfl)⟩
          · exact ⟨[], [13], x :: t', by simp [h13], by simp, Or.inr (Or.inr ⟨rfl, Or.inr ⟨x, t', rfl, hx⟩⟩)⟩
      · rcases ih with h | ⟨a, eol, d', hd, ha, he⟩
        · left; intro c' hc'
          rcases List.mem_cons.mp hc' with rfl | hc'
          · exact ⟨h10, h13⟩
          · exact h c' hc'
        · right
          refine ⟨c :: a, eol, d', by simp [hd], ?_, he⟩
          intro c' hc'
          rcases List.mem_cons.mp hc' with rfl | hc'
          · exact ⟨h10, h13⟩
          · exact ha c' hc'

theorem mark_no_eol : ∀ c ∈ ENDSTREAM_MARK, c ≠ 10 ∧ c ≠ 13 := by decide
theorem mark_ne_nil : ENDSTREAM_MARK ≠ [] := by decide
theorem mark_head : ∃ c t, ENDSTREAM_MARK = c :: t ∧ c ≠ 10 := ⟨_, _, rfl, by decide⟩

/-- The scan loop passes over exactly `d` when the first `endstream` of `d ++ endstream` is the
final one and the marker's line is complete. -/
theorem scan_delim (fuel : Nat) (d q eol rest : Bytes) (hf : d.length < fuel)
    (hd : findSub ENDSTREAM_MARK (d ++ ENDSTREAM_MARK) = some d.length)
    (hq : ∀ c ∈ q, c ≠ 10 ∧ c ≠ 13) (heol : EolOk eol rest) :
    scanEndstream fuel (d ++ ENDSTREAM_MARK ++ q ++ eol ++ rest) = d := by
  induction fuel generalizing d with
  | zero => omega
  | succ fuel ih =>
    rcases line_decomp d with hno | ⟨a, eol', d', rfl, ha, he⟩
    · -- the marker is on the first line
      have hkw : ∀ c ∈ d ++ ENDSTREAM_MARK ++ q, c ≠ 10 ∧ c ≠ 13 := by
        intro c hc
        simp only [List.mem_append] at hc
        rcases hc with (hc | hc) | hc
        · exact hno c hc
        · exact mark_no_eol c hc
        · exact hq c hc
      have hl := nextline_kw (d ++ ENDSTREAM_MARK ++ q) hkw eol rest heol
      have hfind := findSub_extend ENDSTREAM_MARK d (q ++ eol) hd
      simp only [scanEndstream, hl]
      have e : d ++ ENDSTREAM_MARK ++ q ++ eol = d ++ ENDSTREAM_MARK ++ (q ++ eol) := by simp
      rw [e, hfind]
      simp
    · -- a complete line of `d` comes first
      have hok : EolOk eol' (d' ++ ENDSTREAM_MARK ++ q ++ eol ++ rest) := by
        rcases he with rfl | rfl | ⟨rfl, hd'⟩
        · exact Or.inl rfl
        · exact Or.inr (Or.inl rfl)
        · refine Or.inr (Or.inr ⟨rfl, ?_⟩)
          rcases hd' with rfl | ⟨c, t, rfl, hc⟩
          · obtain ⟨c, t, hm, hc⟩ := mark_head
            exact ⟨c, t ++ q ++ eol ++ rest, by simp [hm], hc⟩
          · exact ⟨c, t ++ ENDSTREAM_MARK ++ q ++ eol ++ rest, by simp, hc⟩
      have hl := nextline_kw a ha eol' (d' ++ ENDSTREAM_MARK ++ q ++ eol ++ rest) hok
      have e : a ++ eol' ++ d' ++ ENDSTREAM_MARK ++ q ++ eol ++ rest
          = a ++ eol' ++ (d' ++ ENDSTREAM_MARK ++ q ++ eol ++ rest) := by simp
      have hd2 : findSub ENDSTREAM_MARK ((a ++ eol') ++ (d' ++ ENDSTREAM_MARK)) = some ((a ++ eol' ++ d').length) := by
        have : (a ++ eol') ++ (d' ++ ENDSTREAM_MARK) = a ++ eol' ++ d' ++ ENDSTREAM_MARK := by simp
        rw [this]; exact hd
      have hsp := findSub_split ENDSTREAM_MARK (a ++ eol') (d' ++ ENDSTREAM_MARK) _ mark_ne_nil hd2 (by simp)
      have hlen : (a ++ eol' ++ d').length - (a ++ eol').length = d'.length := by simp; omega
      rw [hlen] at hsp
      have hpos : 1 ≤ eol'.length := by
        rcases he with rfl | rfl | ⟨rfl, _⟩ <;> simp
      have hrec := ih d' (by simp at hf; omega) hsp.2
      rw [e]
      simp only [scanEndstream, hl, hsp.1]
      rw [List.drop_left' rfl, hrec]

theorem objlen_fallback (len : Option Int) (fl st : Nat) : streamObjlen true len fl st = 0 := by
  simp only [streamObjlen, streamClamp, if_true, Int.ofNat_eq_natCast]
  omega

theorem objlen_exact (n fl st : Nat) (h : st + n ≤ fl) : streamObjlen false (some (n : Int)) fl st = n := by
  simp only [streamObjlen, streamClamp, Bool.false_eq_true, if_false, Option.getD_some, Int.ofNat_eq_natCast]
  omega

/-- Whatever `Length` says, the clamp keeps the read inside the file and never negative. -/
theorem objlen_le (fb : Bool) (len : Option Int) (fl st : Nat) :
    streamObjlen fb len fl st = min (if fb then 0 else (len.getD 0).toNat) (fl - st) := by
  simp only [streamObjlen, streamClamp, Int.ofNat_eq_natCast]
  cases fb <;> simp <;> omega

theorem streamRead_core (fb : Bool) (pre kw eol0 R : Bytes) (len : Option Int)
    (hkw : ∀ c ∈ kw, c ≠ 10 ∧ c ≠ 13) (heol0 : EolOk eol0 R) :
    streamRead fb (pre ++ kw ++ eol0 ++ R) pre.length len =
      .ok (let objlen := streamObjlen fb len (pre ++ kw ++ eol0 ++ R).length (pre.length + (kw ++ eol0).length)
           let skipped := scanEndstream ((pre ++ kw ++ eol0 ++ R).length + 1) (R.drop objlen)
           (if fb then R.take objlen ++ skipped else R.take objlen,
            pre.length + (kw ++ eol0).length + objlen + skipped.length)) := by
  unfold streamRead
  have h1 : (pre ++ kw ++ eol0 ++ R).drop pre.length = kw ++ eol0 ++ R := by
    simp only [List.append_assoc]; exact List.drop_left' rfl
  rw [h1, nextline_kw kw hkw eol0 R heol0]
  have h2 : (pre ++ kw ++ eol0 ++ R).drop (pre.length + (kw ++ eol0).length) = R := by
    have : pre ++ kw ++ eol0 ++ R = (pre ++ (kw ++ eol0)) ++ R := by simp [List.append_assoc]
    rw [this]; exact List.drop_left' (by simp)
  have h3 (k : Nat) : (pre ++ kw ++ eol0 ++ R).drop (pre.length + (kw ++ eol0).length + k) = R.drop k := by
    rw [← List.drop_drop, h2]
  simp only [h2, h3]

theorem startsWith_prefix (p w x : Bytes) (h : startsWith p (w ++ x) = true) (hl : w.length ≤ p.length) :
    w = p.take w.length := by
  induction w generalizing p with
  | nil => simp
  | cons c w ih =>
    cases p with
    | nil => simp at hl
    | cons e p =>
      simp only [List.cons_append, startsWith, Bool.and_eq_true, beq_iff_eq] at h
      simp only [List.length_cons, Nat.add_le_add_iff_right] at hl
      simp only [List.length_cons, List.take_succ_cons]
      rw [← ih p h.2 hl, h.1]

/-- `endstream` has no border: no proper non-empty prefix of it is also a suffix. -/
theorem mark_no_border : ∀ k, k < ENDSTREAM_MARK.length → 1 ≤ k →
    startsWith ENDSTREAM_MARK (ENDSTREAM_MARK.take k ++ ENDSTREAM_MARK) = false := by decide

/-- A byte string in which the marker does not occur: the first occurrence in `d ++ endstream` is
the final one. -/
theorem findSub_of_free (d : Bytes) (h : ∀ i, startsWith ENDSTREAM_MARK (d.drop i) = false) :
    findSub ENDSTREAM_MARK (d ++ ENDSTREAM_MARK) = some d.length := by
  induction d with
  | nil => decide
  | cons c d ih =>
    have h0 : startsWith ENDSTREAM_MARK (c :: d) = false := by simpa using h 0
    have ih' := ih (fun i => by simpa using h (i + 1))
    have hs : startsWith ENDSTREAM_MARK (c :: d ++ ENDSTREAM_MARK) = false := by
      by_cases hl : ENDSTREAM_MARK.length ≤ (c :: d).length
      · exact startsWith_append_false _ _ _ h0 hl
      · cases hs : startsWith ENDSTREAM_MARK (c :: d ++ ENDSTREAM_MARK) with
        | false => rfl
        | true =>
          have hw := startsWith_prefix ENDSTREAM_MARK (c :: d) ENDSTREAM_MARK hs (by omega)
          have hb := mark_no_border (c :: d).length (by omega) (by simp)
          rw [← hw] at hb
          rw [hb] at hs; cases hs
    simp only [List.cons_append] at hs
    simp [findSub, hs, ih']

theorem nextline_len (s line : Bytes) (h : nextline s = some line) : 1 ≤ line.length ∧ line.length ≤ s.length := by
  induction s generalizing line with
  | nil => simp [nextline] at h
  | cons c rest ih =>
    simp only [nextline] at h
    split at h
    · cases h; simp
    · split at h
      · cases rest with
        | nil => simp at h
        | cons d t =>
          simp only at h
          split at h <;> (cases h; simp)
      · cases hn : nextline rest with
        | none => simp [hn] at h
        | some l =>
          simp [hn] at h
          have := ih l hn
          subst h
          simp; omega

theorem scan_fuel_aux (f1 f2 : Nat) (s : Bytes) (h1 : s.length < f1) (h2 : s.length < f2) :
    scanEndstream f1 s = scanEndstream f2 s := by
  induction f1 generalizing f2 s with
  | zero => omega
  | succ f1 ih =>
    cases f2 with
    | zero => omega
    | succ f2 =>
      simp only [scanEndstream]
      cases hn : nextline s with
      | none => rfl
      | some line =>
        have hl := nextline_len s line hn
        simp only []
        cases hfs : findSub ENDSTREAM_MARK line with
        | some i => rfl
        | none =>
          simp only []
          rw [ih f2 (s.drop line.length) (by simp; omega) (by simp; omega)]

theorem filter_ne_length_lt (objs : List (Nat × LenObj)) (id : Nat) (p : Nat × LenObj)
    (h : objs.find? (fun p => p.1 == id) = some p) :
    (objs.filter (fun q => q.1 != id)).length < objs.length := by
  induction objs with
  | nil => simp at h
  | cons a t ih =>
    simp only [List.find?_cons] at h
    by_cases ha : (a.1 == id) = true
    · have : (a.1 != id) = false := by simp [bne, ha]
      simp only [List.filter_cons, this, Bool.false_eq_true, if_false, List.length_cons]
      have := List.length_filter_le (fun q : Nat × LenObj => q.1 != id) t
      omega
    · have ha' : (a.1 == id) = false := by simpa using ha
      simp only [ha'] at h
      have := ih h
      by_cases hb : (a.1 != id) = true
      · simp only [List.filter_cons, hb, if_true, List.length_cons]; omega
      · simp only [List.filter_cons, hb, List.length_cons]; simp at *; omega

theorem resolveLen_fuel (f1 f2 : Nat) (objs : List (Nat × LenObj)) (x : LenObj)
    (h1 : objs.length < f1) (h2 : objs.length < f2) : resolveLen f1 objs x = resolveLen f2 objs x := by
  induction f1 generalizing f2 objs x with
  | zero => omega
  | succ f1 ih =>
    cases f2 with
    | zero => omega
    | succ f2 =>
      cases x with
      | int n => rfl
      | other => rfl
      | ref id =>
        simp only [resolveLen]
        cases hf : objs.find? (fun p => p.1 == id) with
        | none => rfl
        | some p =>
          have := filter_ne_length_lt objs id p hf
          exact ih f2 _ p.2 (by omega) (by omega)

theorem lengthValue_indirect (objs : List (Nat × LenObj)) (id : Nat) (n : Int)
    (h : objs.find? (fun p => p.1 == id) = some (id, .int n)) :
    lengthValue objs (some (.ref id)) = some n := by
  simp only [lengthValue, resolveLen, h]
  cases hl : (objs.filter (fun q => q.1 != id)).length with
  | zero => cases objs with
    | nil => simp at h
    | cons a t => simp [resolveLen]
  | succ k => cases objs with
    | nil => simp at h
    | cons a t => simp [resolveLen]

theorem lengthValue_missing_obj (objs : List (Nat × LenObj)) (id : Nat)
    (h : objs.find? (fun p => p.1 == id) = none) : lengthValue objs (some (.ref id)) = some 0 := by
  simp [lengthValue, resolveLen, h]

end PdfVerif.Filters
