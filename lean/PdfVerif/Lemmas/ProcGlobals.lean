/-
C12 — helper lemmas about the explicit process-wide state (`Model/ProcGlobals.lean`):
interning is idempotent, monotone and injective; rendering a page changes nothing but the interned
tables, and its result does not depend on them nor on what the previous page left behind.
-/
import PdfVerif.Model.ProcGlobals

namespace PdfVerif.ProcGlobals

/-! ### `find` -/

theorem find_getElem {k : Nat} : ∀ {t : List Nat} {i : Nat}, find k t = some i → t[i]? = some k
  | [], _, h => by simp [find] at h
  | x :: xs, i, h => by
    unfold find at h
    by_cases hx : x = k
    · simp [hx] at h; subst h; simp [hx]
    · simp only [hx, if_false, Option.map_eq_some_iff] at h
      obtain ⟨j, hj, rfl⟩ := h
      simpa using find_getElem hj

theorem find_append_some {k : Nat} (e : List Nat) :
    ∀ {t : List Nat} {i : Nat}, find k t = some i → find k (t ++ e) = some i
  | [], _, h => by simp [find] at h
  | x :: xs, i, h => by
    unfold find at h
    simp only [List.cons_append]
    unfold find
    by_cases hx : x = k
    · simpa [hx] using h
    · simp only [hx, if_false, Option.map_eq_some_iff] at h ⊢
      obtain ⟨j, hj, rfl⟩ := h
      exact ⟨j, find_append_some e hj, rfl⟩

theorem find_append_self {k : Nat} : ∀ {t : List Nat}, find k t = none → find k (t ++ [k]) = some t.length
  | [], _ => by simp [find]
  | x :: xs, h => by
    unfold find at h
    simp only [List.cons_append]
    unfold find
    by_cases hx : x = k
    · simp [hx] at h
    · simp only [hx, if_false, Option.map_eq_none_iff] at h
      simp [hx, find_append_self h]

/-- two names found at the same place are the same name -/
theorem find_inj {a b : Nat} {t : List Nat} {i : Nat} (ha : find a t = some i) (hb : find b t = some i) : a = b := by
  have h1 := find_getElem ha
  have h2 := find_getElem hb
  rw [h1] at h2
  exact Option.some.inj h2

/-! ### `intern` -/

theorem intern_find (t : List Nat) (n : Nat) : find n (intern t n).2 = some (intern t n).1 := by
  unfold intern
  cases h : find n t with
  | some i => simp [h]
  | none => simp [find_append_self h]

theorem intern_name (t : List Nat) (n : Nat) : nameOf (intern t n).2 (intern t n).1 = some n :=
  find_getElem (intern_find t n)

theorem intern_idem (t : List Nat) (n : Nat) : intern (intern t n).2 n = intern t n := by
  have h := intern_find t n
  generalize intern t n = r at h ⊢
  obtain ⟨i, t'⟩ := r
  simp only at h
  simp only [intern, h]

theorem intern_prefix (t : List Nat) (n : Nat) : ∃ e, (intern t n).2 = t ++ e := by
  unfold intern
  cases find n t with
  | some i => exact ⟨[], by simp⟩
  | none => exact ⟨[n], rfl⟩

theorem intern_stable {t : List Nat} {k i : Nat} (n : Nat) (h : find k t = some i) :
    find k (intern t n).2 = some i := by
  obtain ⟨e, he⟩ := intern_prefix t n
  rw [he]
  exact find_append_some e h

theorem internAll_prefix : ∀ (names t : List Nat), ∃ e, internAll t names = t ++ e
  | [], t => ⟨[], by simp [internAll]⟩
  | n :: ns, t => by
    obtain ⟨e1, h1⟩ := intern_prefix t n
    obtain ⟨e2, h2⟩ := internAll_prefix ns (intern t n).2
    refine ⟨e1 ++ e2, ?_⟩
    simp only [internAll, List.foldl_cons] at h2 ⊢
    rw [h2, h1, List.append_assoc]

theorem internAll_stable {t : List Nat} {k i : Nat} (names : List Nat) (h : find k t = some i) :
    find k (internAll t names) = some i := by
  obtain ⟨e, he⟩ := internAll_prefix names t
  rw [he]
  exact find_append_some e h

/-- a symbol interned once is found again, with the same identity, after any further interning -/
theorem intern_after (t : List Nat) (a : Nat) (hist : List Nat) :
    (intern (internAll (intern t a).2 hist) a).1 = (intern t a).1 := by
  have h := internAll_stable hist (intern_find t a)
  unfold intern at h ⊢
  cases hf : find a t <;> simp_all

/-- identity of symbols = equality of names, whatever was interned before and in between -/
theorem intern_inj (t : List Nat) (a b : Nat) (hist : List Nat) :
    (intern (internAll (intern t a).2 hist) b).1 = (intern t a).1 ↔ a = b := by
  constructor
  · intro h
    have ha := internAll_stable hist (intern_find t a)
    have hb := intern_find (internAll (intern t a).2 hist) b
    rw [h] at hb
    obtain ⟨e, he⟩ := intern_prefix (internAll (intern t a).2 hist) b
    have ha' : find a (intern (internAll (intern t a).2 hist) b).2 = some (intern t a).1 := by
      rw [he]; exact find_append_some e ha
    exact find_inj ha' hb
  · rintro rfl
    exact intern_after t a hist

/-! ### rendering -/

theorem execOp_err {strict : Bool} {s : PState} (op : TOp) (h : s.err = true) : execOp strict s op = s := by
  unfold execOp; simp [h]

theorem foldl_execOp_err {strict : Bool} : ∀ (ops : List TOp) {s : PState}, s.err = true →
    ops.foldl (execOp strict) s = s
  | [], _, _ => rfl
  | op :: ops, s, h => by
    simp only [List.foldl_cons, execOp_err op h]
    exact foldl_execOp_err ops h

theorem foldl_stepOp_err : ∀ (ops : List TOp) {acc : PState × Globals}, acc.1.err = true →
    ops.foldl stepOp acc = acc
  | [], _, _ => rfl
  | op :: ops, acc, h => by
    have : stepOp acc op = acc := by unfold stepOp; simp [h]
    simp only [List.foldl_cons, this]
    exact foldl_stepOp_err ops h

/-- the page state is computed from the page, `STRICT` and the start state alone -/
theorem foldl_stepOp_fst : ∀ (ops : List TOp) (s : PState) (g : Globals),
    (ops.foldl stepOp (s, g)).1 = ops.foldl (execOp g.strict) s
  | [], _, _ => rfl
  | op :: ops, s, g => by
    by_cases h : s.err = true
    · rw [foldl_stepOp_err (op :: ops) (acc := (s, g)) h, foldl_execOp_err (op :: ops) h]
    · have : stepOp (s, g) op = (execOp g.strict s op,
          { g with lits := internAll g.lits (opLits op), kwds := internAll g.kwds (opKwd op) }) := by
        unfold stepOp; simp [h]
      simp only [List.foldl_cons, this]
      exact foldl_stepOp_fst ops _ _

theorem stepOp_static (acc : PState × Globals) (op : TOp) : (stepOp acc op).2.static = acc.2.static := by
  unfold stepOp
  split <;> rfl

theorem foldl_stepOp_static : ∀ (ops : List TOp) (acc : PState × Globals),
    (ops.foldl stepOp acc).2.static = acc.2.static
  | [], _ => rfl
  | op :: ops, acc => by
    simp only [List.foldl_cons]
    rw [foldl_stepOp_static ops, stepOp_static]

theorem stepOp_grow (acc : PState × Globals) (op : TOp) :
    (∃ e, (stepOp acc op).2.lits = acc.2.lits ++ e) ∧ (∃ e, (stepOp acc op).2.kwds = acc.2.kwds ++ e) := by
  unfold stepOp
  split
  · exact ⟨⟨[], by simp⟩, ⟨[], by simp⟩⟩
  · exact ⟨internAll_prefix _ _, internAll_prefix _ _⟩

theorem foldl_stepOp_grow : ∀ (ops : List TOp) (acc : PState × Globals),
    (∃ e, (ops.foldl stepOp acc).2.lits = acc.2.lits ++ e) ∧ (∃ e, (ops.foldl stepOp acc).2.kwds = acc.2.kwds ++ e)
  | [], _ => ⟨⟨[], by simp⟩, ⟨[], by simp⟩⟩
  | op :: ops, acc => by
    obtain ⟨⟨e1, h1⟩, ⟨f1, k1⟩⟩ := stepOp_grow acc op
    obtain ⟨⟨e2, h2⟩, ⟨f2, k2⟩⟩ := foldl_stepOp_grow ops (stepOp acc op)
    simp only [List.foldl_cons]
    exact ⟨⟨e1 ++ e2, by rw [h2, h1, List.append_assoc]⟩, ⟨f1 ++ f2, by rw [k2, k1, List.append_assoc]⟩⟩

theorem renderPage_static (g : Globals) (left : PState) (pg : GPage) :
    (renderPage g left pg).2.static = g.static := by
  unfold renderPage
  rw [foldl_stepOp_static]

theorem renderPage_grow (g : Globals) (left : PState) (pg : GPage) :
    (∃ e, (renderPage g left pg).2.lits = g.lits ++ e) ∧ (∃ e, (renderPage g left pg).2.kwds = g.kwds ++ e) := by
  unfold renderPage
  exact foldl_stepOp_grow _ _

theorem renderPage_state (g : Globals) (left : PState) (pg : GPage) :
    (renderPage g left pg).1 =
      pg.ops.foldl (execOp g.strict) (initState (initResources g.colorspaces pg.cs) PState.init) := by
  unfold renderPage
  rw [foldl_stepOp_fst]
  rfl

theorem static_eq {g g' : Globals} (h : g.static = g'.static) :
    g.colorspaces = g'.colorspaces ∧ g.metrics = g'.metrics ∧ g.strict = g'.strict := by
  unfold Globals.static at h
  simp only [Prod.mk.injEq] at h
  exact h

theorem renderPage_indep {g g' : Globals} (left left' : PState) (pg : GPage) (h : g.static = g'.static) :
    (renderPage g left pg).1 = (renderPage g' left' pg).1 := by
  obtain ⟨h1, _, h3⟩ := static_eq h
  rw [renderPage_state, renderPage_state, h1, h3]

theorem renderCall_static : ∀ (pages : List GPage) (g : Globals) (left : PState),
    (renderCall g left pages).2.static = g.static
  | [], _, _ => rfl
  | pg :: rest, g, left => by
    simp only [renderCall]
    rw [renderCall_static rest, renderPage_static]

theorem renderCall_grow : ∀ (pages : List GPage) (g : Globals) (left : PState),
    (∃ e, (renderCall g left pages).2.lits = g.lits ++ e) ∧ (∃ e, (renderCall g left pages).2.kwds = g.kwds ++ e)
  | [], _, _ => ⟨⟨[], by simp [renderCall]⟩, ⟨[], by simp [renderCall]⟩⟩
  | pg :: rest, g, left => by
    obtain ⟨⟨e1, h1⟩, ⟨f1, k1⟩⟩ := renderPage_grow g left pg
    obtain ⟨⟨e2, h2⟩, ⟨f2, k2⟩⟩ := renderCall_grow rest (renderPage g left pg).2 (renderPage g left pg).1
    simp only [renderCall]
    exact ⟨⟨e1 ++ e2, by rw [h2, h1, List.append_assoc]⟩, ⟨f1 ++ f2, by rw [k2, k1, List.append_assoc]⟩⟩

theorem renderCall_pages : ∀ (pages : List GPage) (g : Globals) (left : PState),
    (renderCall g left pages).1 = pages.map (fun pg => (renderPage g PState.init pg).1)
  | [], _, _ => rfl
  | pg :: rest, g, left => by
    simp only [renderCall, List.map_cons]
    rw [renderCall_pages rest]
    have hs : (renderPage g left pg).2.static = g.static := renderPage_static g left pg
    rw [renderPage_indep left PState.init pg (rfl : g.static = g.static)]
    congr 1
    apply List.map_congr_left
    intro p _
    exact renderPage_indep PState.init PState.init p hs

theorem runHistory_static : ∀ (hist : List (List GPage)) (g : Globals), (runHistory g hist).static = g.static
  | [], _ => rfl
  | c :: cs, g => by
    simp only [runHistory]
    rw [runHistory_static cs, renderCall_static]

theorem runHistory_grow : ∀ (hist : List (List GPage)) (g : Globals),
    (∃ e, (runHistory g hist).lits = g.lits ++ e) ∧ (∃ e, (runHistory g hist).kwds = g.kwds ++ e)
  | [], _ => ⟨⟨[], by simp [runHistory]⟩, ⟨[], by simp [runHistory]⟩⟩
  | c :: cs, g => by
    obtain ⟨⟨e1, h1⟩, ⟨f1, k1⟩⟩ := renderCall_grow c g PState.init
    obtain ⟨⟨e2, h2⟩, ⟨f2, k2⟩⟩ := runHistory_grow cs (renderCall g PState.init c).2
    simp only [runHistory]
    exact ⟨⟨e1 ++ e2, by rw [h2, h1, List.append_assoc]⟩, ⟨f1 ++ f2, by rw [k2, k1, List.append_assoc]⟩⟩

end PdfVerif.ProcGlobals
