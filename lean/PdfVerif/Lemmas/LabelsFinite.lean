/-
C17 — finite sweeps evaluated by the kernel (`decide +kernel`), kept in their own module so that
they are re-checked only when the regenerated tables or the numeral models change.
-/
import PdfVerif.Spec.Labels

namespace PdfVerif.Lemmas.LabelsFinite
open PdfVerif PdfVerif.Labels PdfVerif.Gen.LabelTables

/-! ### finite checks, lifted from a `List.range` sweep evaluated by the kernel -/

theorem all_range_lift {p : Nat → Bool} {N : Nat} (h : (List.range N).all p = true) :
    ∀ n, n < N → p n = true := by
  intro n hn
  exact List.all_eq_true.mp h n (List.mem_range.mpr hn)

/-- `r` is the normal result `t`. -/
def isOk (r : Except Err Text) (t : Text) : Bool :=
  match r with
  | .ok x => x == t
  | .error _ => false

theorem eq_of_isOk {r : Except Err Text} {t : Text} (h : isOk r t = true) : r = .ok t := by
  cases r with
  | ok x => simp [isOk] at h; simp [h]
  | error e => simp [isOk] at h

/-- The loop over the three low digits against the part of the table below `m`. -/
def romanLowOk (k : Nat) : Bool :=
  match romanLoop 3 k 0 [] with
  | .ok r => r.flatten == Spec.Labels.romanAux Spec.Labels.romanTable.tail k
  | .error _ => false

theorem romanLowOk_all : (List.range 1000).all romanLowOk = true := by decide +kernel

theorem rep_eq_replicate (s : Text) : ∀ k, rep s k = (List.replicate k s).flatten
  | 0 => rfl
  | k + 1 => by simp [rep, List.replicate_succ, rep_eq_replicate s k]

theorem romanAux_table (n : Nat) :
    Spec.Labels.romanAux Spec.Labels.romanTable n =
      (List.replicate (n / 1000) [109]).flatten ++ Spec.Labels.romanAux Spec.Labels.romanTable.tail (n % 1000) := rfl

/-- `format_int_roman` for EVERY value the assertion lets through: repeated `m` for the thousands (however many),
then the swept low part. -/
theorem formatIntRoman_all (n : Nat) (h : 0 < n) (hmax : (n : Int) < ROMAN_MAX) :
    formatIntRoman (n : Int) = .ok (Spec.Labels.romanAux Spec.Labels.romanTable n) := by
  have hk := all_range_lift romanLowOk_all (n % 1000) (Nat.mod_lt _ (by decide))
  unfold romanLowOk at hk
  unfold formatIntRoman
  have h0 : (0 : Int) < n := by omega
  have hm : listGet ROMAN_ONES 3 = .ok [109] := rfl
  simp only [h0, hmax, and_self, if_true, Int.toNat_natCast]
  cases hr : romanLoop 3 (n % 1000) 0 [] with
  | error e => rw [hr] at hk; simp at hk
  | ok r =>
    rw [hr] at hk
    have hf : r.flatten = Spec.Labels.romanAux Spec.Labels.romanTable.tail (n % 1000) := by simpa using hk
    rw [romanAux_table, ← hf]
    simp [bind, Except.bind, hm, pure, Except.pure, rep_eq_replicate]

def romanValueOk (n : Nat) : Bool :=
  Spec.Labels.romanValue (Spec.Labels.romanAux Spec.Labels.romanTable n) == (n : Int)

theorem romanValueOk_all : (List.range 4000).all romanValueOk = true := by decide +kernel

theorem romanDigitValue_le (c : Nat) : Spec.Labels.romanDigitValue c ≤ 1000 := by
  unfold Spec.Labels.romanDigitValue
  repeat' split
  all_goals omega

theorem romanValueAux_snd_le (t : Text) : (Spec.Labels.romanValueAux t).2 ≤ 1000 := by
  cases t with
  | nil => simp [Spec.Labels.romanValueAux]
  | cons c tl => simp only [Spec.Labels.romanValueAux]; exact romanDigitValue_le c

/-- `k` leading `m` are never subtracted: they add `1000 k`. -/
theorem romanValue_ms (t : Text) : ∀ k : Nat,
    Spec.Labels.romanValue ((List.replicate k [109]).flatten ++ t) = 1000 * (k : Int) + Spec.Labels.romanValue t
  | 0 => by simp
  | k + 1 => by
    have ih := romanValue_ms t k
    have hle := romanValueAux_snd_le ((List.replicate k [109]).flatten ++ t)
    unfold Spec.Labels.romanValue at ih ⊢
    simp only [List.replicate_succ, List.flatten_cons, List.cons_append, List.nil_append,
      Spec.Labels.romanValueAux]
    have hd : Spec.Labels.romanDigitValue 109 = 1000 := by decide
    rw [hd]
    have : ¬ (1000 < (Spec.Labels.romanValueAux ((List.replicate k [109]).flatten ++ t)).2) := by omega
    simp only [this, if_false, ih]
    omega

/-- Sanity of the specification for EVERY `n`: the numeral reads back as `n`. -/
theorem romanValue_all (n : Nat) :
    Spec.Labels.romanValue (Spec.Labels.romanAux Spec.Labels.romanTable n) = (n : Int) := by
  have hk := all_range_lift romanValueOk_all (n % 1000) (by have := Nat.mod_lt n (by decide : 1000 > 0); omega)
  unfold romanValueOk at hk
  have hk' := eq_of_beq hk
  rw [romanAux_table] at hk'
  have h1 : n % 1000 / 1000 = 0 := by omega
  have h2 : n % 1000 % 1000 = n % 1000 := by omega
  simp only [h1, h2, List.replicate_zero, List.flatten_nil, List.nil_append] at hk'
  rw [romanAux_table, romanValue_ms, hk']
  omega

def alphaOk (n : Nat) : Bool :=
  n == 0 || isOk (formatIntAlpha (n : Int)) (List.replicate ((n - 1) / 26 + 1) (97 + (n - 1) % 26))

theorem alphaOk_all : (List.range 27).all alphaOk = true := by decide +kernel

def docOk (c : Nat) : Bool :=
  match Spec.Labels.pdfDoc c with
  | some u => PDFDocEncoding.getD c 0 == u
  | none => true

theorem docOk_all : (List.range 256).all docOk = true := by decide +kernel

end PdfVerif.Lemmas.LabelsFinite
