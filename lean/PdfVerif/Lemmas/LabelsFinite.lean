/-
C17 — finite sweeps evaluated by the kernel (`decide +kernel`), kept in their own module so that
they are re-checked only when the regenerated tables or the numeral models change.
-/
import PdfVerif.Spec.Labels

namespace PdfVerif.Lemmas.LabelsFinite
open PdfVerif PdfVerif.Labels PdfVerif.Gen.LabelTables

/-! ### finite checks, lifted from a `List.range` sweep evaluated by the kernel -/

theorem all_range_lift {p : Nat → Bool} {N : Nat} (h : (List.range N).all p = true) :
    ∀ n, n < N → p n = true := by
  intro n hn
  exact List.all_eq_true.mp h n (List.mem_range.mpr hn)

/-- `r` is the normal result `t`. -/
def isOk (r : Except Err Text) (t : Text) : Bool :=
  match r with
  | .ok x => x == t
  | .error _ => false

theorem eq_of_isOk {r : Except Err Text} {t : Text} (h : isOk r t = true) : r = .ok t := by
  cases r with
  | ok x => simp [isOk] at h; simp [h]
  | error e => simp [isOk] at h

def romanOk (n : Nat) : Bool :=
  n == 0 || isOk (formatIntRoman (n : Int)) (Spec.Labels.romanAux Spec.Labels.romanTable n)

theorem romanOk_all : (List.range 4000).all romanOk = true := by decide +kernel

def romanValueOk (n : Nat) : Bool :=
  Spec.Labels.romanValue (Spec.Labels.romanAux Spec.Labels.romanTable n) == (n : Int)

theorem romanValueOk_all : (List.range 4000).all romanValueOk = true := by decide +kernel

def alphaOk (n : Nat) : Bool :=
  n == 0 || isOk (formatIntAlpha (n : Int)) (List.replicate ((n - 1) / 26 + 1) (97 + (n - 1) % 26))

theorem alphaOk_all : (List.range 27).all alphaOk = true := by decide +kernel

def docOk (c : Nat) : Bool :=
  match Spec.Labels.pdfDoc c with
  | some u => PDFDocEncoding.getD c 0 == u
  | none => true

theorem docOk_all : (List.range 256).all docOk = true := by decide +kernel

end PdfVerif.Lemmas.LabelsFinite
