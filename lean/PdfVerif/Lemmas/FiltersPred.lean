/-
C03 helper lemmas — predictors (PNG rows, TIFF rows).  Core Lean only.
-/
import PdfVerif.Spec.FilterEnc

namespace PdfVerif.Filters
open PdfVerif PdfVerif.FilterEnc

theorem pngPred_one (a b c : UInt8) : pngPred 1 a b c = a := by simp [pngPred]
theorem pngPred_zero (a b c : UInt8) : pngPred 0 a b c = 0 := by simp [pngPred]
theorem pngPred_two (a b c : UInt8) : pngPred 2 a b c = b := by simp [pngPred]
theorem pngPred_three (a b c c' : UInt8) : pngPred 3 a b c = pngPred 3 a b c' := by simp [pngPred]

@[simp] theorem pngEncRow_length (ft bpp : Nat) (prior row : Bytes) :
    (pngEncRow ft bpp prior row).length = row.length := by simp [pngEncRow]

theorem pngEncRow_getElem (ft bpp : Nat) (prior row : Bytes) (k : Nat) (h : k < (pngEncRow ft bpp prior row).length) :
    (pngEncRow ft bpp prior row)[k] =
      row.getD k 0 - pngPred ft (if k < bpp then 0 else row.getD (k - bpp) 0) (prior.getD k 0)
        (if k < bpp then 0 else prior.getD (k - bpp) 0) := by
  simp [pngEncRow]

theorem take_getD_lt (row : Bytes) (k i : Nat) (h : i < k) : (row.take k).getD i 0 = row.getD i 0 := by
  simp [List.getD_eq_getElem?_getD, h]

theorem take_succ_getD (row : Bytes) (k : Nat) (h : k < row.length) :
    row.take k ++ [row.getD k 0] = row.take (k + 1) := by
  rw [List.take_add_one]; simp [List.getD_eq_getElem?_getD, h]

/-- The decoding loop of filter types 1, 3, 4 inverts the row encoder. -/
theorem pngRowLoop_rt (ft bpp : Nat) (hft : ft = 1 ∨ ft = 3 ∨ ft = 4) (hbpp : 0 < bpp)
    (above row : Bytes) (hlen : above.length = row.length) :
    ∀ (n k : Nat), row.length - k = n → k ≤ row.length →
      pngRowLoop ft bpp above (row.take k) ((pngEncRow ft bpp above row).drop k) = .ok row := by
  intro n
  induction n with
  | zero =>
    intro k hn hk
    have hkl : k = row.length := by omega
    subst hkl
    have : (pngEncRow ft bpp above row).drop row.length = [] := List.drop_eq_nil_of_le (by simp)
    rw [this]; simp [pngRowLoop]
  | succ n ih =>
    intro k hn hk
    have hlt : k < row.length := by omega
    have hl : k < (pngEncRow ft bpp above row).length := by simpa using hlt
    rw [List.drop_eq_getElem_cons hl, pngEncRow_getElem]
    have htl : (row.take k).length = k := by simp; omega
    have ha : (if k < bpp then (0 : UInt8) else (row.take k).getD (k - bpp) 0)
        = (if k < bpp then 0 else row.getD (k - bpp) 0) := by
      by_cases hb : k < bpp
      · simp [hb]
      · simp only [hb, if_false]; exact take_getD_lt row k (k - bpp) (by omega)
    have hab : above[k]? = some (above.getD k 0) := by
      simp [List.getD_eq_getElem?_getD, List.getElem?_eq_getElem (show k < above.length by omega)]
    have hnext := ih (k + 1) (by omega) (by omega)
    rw [← take_succ_getD row k hlt] at hnext
    rcases hft with rfl | rfl | rfl
    · unfold pngRowLoop
      simp only [htl, ha, pngPred_one, UInt8.sub_add_cancel]
      simpa using hnext
    · unfold pngRowLoop
      simp only [htl, ha, hab]
      rw [pngPred_three _ _ 0 (if k < bpp then 0 else above.getD (k - bpp) 0)]
      simp only [UInt8.sub_add_cancel]
      simpa using hnext
    · unfold pngRowLoop
      have hc : (if k < bpp then some (0 : UInt8) else above[k - bpp]?)
          = some (if k < bpp then 0 else above.getD (k - bpp) 0) := by
        by_cases hb : k < bpp
        · simp [hb]
        · simp [hb, List.getD_eq_getElem?_getD, List.getElem?_eq_getElem (show k - bpp < above.length by omega)]
      simp only [htl, ha, hab, hc, UInt8.sub_add_cancel]
      simpa using hnext


/-- One row: every filter type 0..4 is inverted, given a prior row of the same length. -/
theorem pngRow_rt (ft bpp : Nat) (hft : ft ≤ 4) (hbpp : 0 < bpp) (above row : Bytes)
    (hlen : above.length = row.length) :
    pngRow (UInt8.ofNat ft) bpp above (pngEncRow ft bpp above row) = .ok row := by
  have h5 : ft = 0 ∨ ft = 1 ∨ ft = 2 ∨ ft = 3 ∨ ft = 4 := by omega
  rcases h5 with rfl | rfl | rfl | rfl | rfl
  · -- None
    have : pngEncRow 0 bpp above row = row := by
      apply List.ext_getElem (by simp)
      intro i h1 h2
      rw [pngEncRow_getElem, pngPred_zero]
      simp [List.getD_eq_getElem?_getD, h2]
    simp [pngRow, this]
  · have h := pngRowLoop_rt 1 bpp (Or.inl rfl) hbpp above row hlen row.length 0 (by omega) (by omega)
    simpa [pngRow] using h
  · -- Up
    have : List.zipWith (fun u p => u + p) (pngEncRow 2 bpp above row) above = row := by
      apply List.ext_getElem (by simp [hlen])
      intro i h1 h2
      have h3 : i < above.length := by omega
      simp only [List.getElem_zipWith, pngEncRow_getElem, pngPred_two]
      simp [List.getD_eq_getElem?_getD, h2, h3]
    simp [pngRow, this]
  · have h := pngRowLoop_rt 3 bpp (Or.inr (Or.inl rfl)) hbpp above row hlen row.length 0 (by omega) (by omega)
    simpa [pngRow] using h
  · have h := pngRowLoop_rt 4 bpp (Or.inr (Or.inr rfl)) hbpp above row hlen row.length 0 (by omega) (by omega)
    simpa [pngRow] using h

/-- All rows, any assignment of filter types. -/
theorem pngRows_rt (nbytes bpp : Nat) (hbpp : 0 < bpp) :
    ∀ (rows : List Bytes) (fts : List Nat) (prior : Bytes) (fuel : Nat),
      (∀ r ∈ rows, r.length = nbytes) → fts.length = rows.length → (∀ f ∈ fts, f ≤ 4) →
      prior.length = nbytes → (pngEncRows bpp prior fts rows).length ≤ fuel →
      pngRows nbytes bpp fuel prior (pngEncRows bpp prior fts rows) = .ok rows.flatten := by
  intro rows
  induction rows with
  | nil =>
    intro fts prior fuel _ hl _ _ _
    have : fts = [] := by cases fts <;> simp_all
    subst this
    cases fuel <;> simp [pngEncRows, pngRows]
  | cons row rows ih =>
    intro fts prior fuel hrows hl hfts hprior hfuel
    cases fts with
    | nil => simp at hl
    | cons ft fts =>
      have hrow : row.length = nbytes := hrows row (by simp)
      simp only [pngEncRows] at hfuel ⊢
      cases fuel with
      | zero => simp at hfuel
      | succ fuel =>
        have htake : (pngEncRow ft bpp prior row ++ pngEncRows bpp row fts rows).take nbytes
            = pngEncRow ft bpp prior row := by
          rw [List.take_append_of_le_length (by simp [hrow])]
          exact List.take_of_length_le (by simp [hrow])
        have hdrop : (pngEncRow ft bpp prior row ++ pngEncRows bpp row fts rows).drop nbytes
            = pngEncRows bpp row fts rows := by
          rw [List.drop_append_of_le_length (by simp [hrow])]
          rw [List.drop_of_length_le (by simp [hrow])]; simp
        have hr := pngRow_rt ft bpp (hfts ft (by simp)) hbpp prior row (by omega)
        have hrest := ih fts row fuel (fun r hr => hrows r (by simp [hr])) (by simpa using hl)
          (fun f hf => hfts f (by simp [hf])) hrow (by simp at hfuel; omega)
        simp only [pngRows, htake, hdrop, hr, hrest, List.flatten_cons]

@[simp] theorem tiffEncRow_length (colors : Nat) (row : Bytes) :
    (tiffEncRow colors row).length = row.length := by simp [tiffEncRow]

theorem tiffRow_rt (bpp : Nat) (hbpp : 0 < bpp) (row : Bytes) :
    ∀ (n k : Nat), row.length - k = n → k ≤ row.length →
      tiffRow bpp (row.take k) ((tiffEncRow bpp row).drop k) = row := by
  intro n
  induction n with
  | zero =>
    intro k hn hk
    have hkl : k = row.length := by omega
    subst hkl
    have : (tiffEncRow bpp row).drop row.length = [] := List.drop_eq_nil_of_le (by simp)
    rw [this]; simp [tiffRow]
  | succ n ih =>
    intro k hn hk
    have hlt : k < row.length := by omega
    have hl : k < (tiffEncRow bpp row).length := by simpa using hlt
    rw [List.drop_eq_getElem_cons hl]
    have htl : (row.take k).length = k := by simp; omega
    have hnext := ih (k + 1) (by omega) (by omega)
    rw [← take_succ_getD row k hlt] at hnext
    unfold tiffRow
    simp only [htl]
    have hx : (if k ≥ bpp then (tiffEncRow bpp row)[k] + (row.take k).getD (k - bpp) 0 else (tiffEncRow bpp row)[k])
        = row.getD k 0 := by
      by_cases hb : k < bpp
      · have : ¬ k ≥ bpp := by omega
        simp [this, tiffEncRow, hb]
      · have hge : k ≥ bpp := by omega
        rw [if_pos hge, take_getD_lt row k (k - bpp) (by omega)]
        simp [tiffEncRow, hb, UInt8.sub_add_cancel]
    rw [hx]; exact hnext

theorem tiffRows_rt (nbytes bpp : Nat) (hbpp : 0 < bpp) (hn : 0 < nbytes) :
    ∀ (rows : List Bytes) (fuel : Nat), (∀ r ∈ rows, r.length = nbytes) →
      (tiffEnc bpp rows).length ≤ fuel →
      tiffRows nbytes bpp fuel (tiffEnc bpp rows) = .ok rows.flatten := by
  intro rows
  induction rows with
  | nil => intro fuel _ _; cases fuel <;> simp [tiffEnc, tiffRows]
  | cons row rows ih =>
    intro fuel hrows hfuel
    have hrow : row.length = nbytes := hrows row (by simp)
    simp only [tiffEnc] at hfuel ⊢
    have hne : tiffEncRow bpp row ++ tiffEnc bpp rows ≠ [] := by
      intro h
      have h0 : (tiffEncRow bpp row ++ tiffEnc bpp rows).length = 0 := by rw [h]; rfl
      rw [List.length_append, tiffEncRow_length] at h0; omega
    cases fuel with
    | zero => rw [List.length_append, tiffEncRow_length] at hfuel; omega
    | succ fuel =>
      have htake : (tiffEncRow bpp row ++ tiffEnc bpp rows).take nbytes = tiffEncRow bpp row := by
        rw [List.take_append_of_le_length (by simp [hrow])]
        exact List.take_of_length_le (by simp [hrow])
      have hdrop : (tiffEncRow bpp row ++ tiffEnc bpp rows).drop nbytes = tiffEnc bpp rows := by
        rw [List.drop_append_of_le_length (by simp [hrow])]
        rw [List.drop_of_length_le (by simp [hrow])]; simp
      have hrest := ih fuel (fun r hr => hrows r (by simp [hr])) (by simp at hfuel; omega)
      have hr := tiffRow_rt bpp hbpp row row.length 0 (by omega) (by omega)
      simp only [List.take_zero, List.drop_zero] at hr
      have hlen : ¬ (tiffEncRow bpp row ++ tiffEnc bpp rows).length < nbytes := by simp; omega
      cases hcase : tiffEncRow bpp row ++ tiffEnc bpp rows with
      | nil => exact absurd hcase hne
      | cons c cs =>
        rw [← hcase]
        simp only [tiffRows, hlen, if_false, htake, hdrop, hrest, hr, List.flatten_cons]

end PdfVerif.Filters
